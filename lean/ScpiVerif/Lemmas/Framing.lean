/-
Lemmas for C06 (response framing).

Plan: an invariant over the output state during one `parse`, relating the real fields
(written, outputCount, firstOutput, flushes) to the ghost fields (gCur, gItems, gUnits):
 * `Closed` / `Open` : inside a unit, between items / inside an item (delimiter already written);
 * `Between`         : between units;
each disjoined with "gPartial = true" (the ghost misuse flag is absorbing), so that every writer,
every script operation, `processCommand`, `parseLoop` and `parse` are plain implications.
-/
import ScpiVerif.Model.Ctx
import ScpiVerif.Lemmas.Builtin
import ScpiVerif.Spec.Message
import ScpiVerif.Lemmas.IntFmt

namespace ScpiVerif.Lemmas.Framing
open ScpiVerif ScpiVerif.Ctx ScpiVerif.Lexer ScpiVerif.Result

/-! ### joining with separators; `frame` -/

def joinSep (s : UInt8) : List Bytes → Bytes
  | [] => []
  | x :: xs => xs.foldl (fun acc y => acc ++ [s] ++ y) x

theorem joinSep_snoc (s : UInt8) (l : List Bytes) (y : Bytes) :
    joinSep s (l ++ [y]) = if l = [] then y else joinSep s l ++ [s] ++ y := by
  cases l with
  | nil => simp [joinSep]
  | cons x xs => simp [joinSep, List.foldl_append]

def resp (U : List (List Bytes)) : List (List Bytes) := U.filter (fun u => !u.isEmpty)

def body (U : List (List Bytes)) : Bytes := joinSep 59 ((resp U).map (joinSep 44))

def semi (f : Bool) : Bytes := if f then [] else [59]

theorem frame_eq (U : List (List Bytes)) :
    Spec.Message.frame U =
      if (resp U).isEmpty then [] else body U ++ Spec.Message.bytesOf Gen.LINE_ENDING := by
  have key : ∀ (f : UInt8 → List Bytes → Bytes), (∀ s l, f s l = joinSep s l) →
      f 59 ((resp U).map (f 44)) = joinSep 59 ((resp U).map (joinSep 44)) := by
    intro f hf
    have : f = joinSep := by funext s l; exact hf s l
    rw [this]
  unfold Spec.Message.frame
  show (if (resp U).isEmpty = true then [] else _) = _
  split
  · rfl
  · exact congrArg (· ++ Spec.Message.bytesOf Gen.LINE_ENDING)
      (key _ (fun s l => by cases l <;> rfl))

theorem resp_snoc (U : List (List Bytes)) (I : List Bytes) :
    resp (U ++ [I]) = if I = [] then resp U else resp U ++ [I] := by
  unfold resp
  cases I <;> simp [List.filter_append]

theorem body_snoc (U : List (List Bytes)) (I : List Bytes) :
    body (U ++ [I]) =
      if I = [] then body U else body U ++ semi (resp U).isEmpty ++ joinSep 44 I := by
  unfold body
  rw [resp_snoc]
  by_cases hI : I = []
  · simp [hI]
  · simp only [hI, if_false, List.map_append, List.map_cons, List.map_nil, joinSep_snoc]
    by_cases hr : resp U = []
    · simp [hr, joinSep, semi]
    · have : (resp U).isEmpty = false := by
        cases h : resp U with
        | nil => exact absurd h hr
        | cons _ _ => rfl
      simp [hr, semi, this]

/-! ### the invariant inside a unit -/

/-- between items of a unit: nothing under construction -/
structure Closed (pre : Bytes) (U : List (List Bytes)) (f : Bool) (F : Nat) (o : Out) : Prop where
  units : o.gUnits = U
  first : o.firstOutput = f
  fl : o.flushes = F
  cur : o.gCur = []
  pos : 0 < o.outputCount ↔ o.gItems ≠ []
  neg : o.outputCount < 0 ↔ (o.gItems = [] ∧ f = false)
  wr : o.written = pre ++ (if o.gItems = [] then [] else semi f ++ joinSep 44 o.gItems)

/-- inside an item: its delimiter (if any) has been written -/
structure Open (pre : Bytes) (U : List (List Bytes)) (f : Bool) (F : Nat) (o : Out) : Prop where
  units : o.gUnits = U
  first : o.firstOutput = f
  fl : o.flushes = F
  nn : 0 ≤ o.outputCount
  pos : 0 < o.outputCount ↔ o.gItems ≠ []
  wr : o.written = pre ++ semi f ++ (if o.gItems = [] then [] else joinSep 44 o.gItems ++ [44]) ++ o.gCur

/-- state inside a unit; the misuse flag is absorbing -/
def St (pre : Bytes) (U : List (List Bytes)) (f : Bool) (F : Nat) (b : Bool) (o : Out) : Prop :=
  o.gPartial = true ∨ (if b then Open pre U f F o else Closed pre U f F o)

/-- state at the boundary of two script operations: open iff something is under construction -/
def OSt (pre : Bytes) (U : List (List Bytes)) (f : Bool) (F : Nat) (o : Out) : Prop :=
  St pre U f F (!o.gCur.isEmpty) o

variable {pre : Bytes} {U : List (List Bytes)} {f : Bool} {F : Nat}

theorem St.of_closed {o : Out} (h : St pre U f F false o) : OSt pre U f F o := by
  rcases h with h | h
  · exact Or.inl h
  · have hc : Closed pre U f F o := by simpa using h
    right; simp [hc.cur]; exact hc

theorem St.of_open {o : Out} (h : St pre U f F true o) (hne : o.gCur ≠ []) : OSt pre U f F o := by
  unfold OSt
  have : (!o.gCur.isEmpty) = true := by
    cases hc : o.gCur with
    | nil => exact absurd hc hne
    | cons _ _ => rfl
  rw [this]; exact h

theorem writeDelimiter_eq (o : Out) :
    writeDelimiter o =
      { o with gPartial := o.gPartial || !o.gCur.isEmpty,
               outputCount := if o.outputCount < 0 then 0 else o.outputCount,
               written := o.written ++ (if o.outputCount > 0 then [44] else if o.outputCount < 0 then [59] else []) } := by
  unfold writeDelimiter writeSep
  by_cases h1 : o.outputCount > 0
  · have : ¬ o.outputCount < 0 := by omega
    simp [h1, this]
  · by_cases h2 : o.outputCount < 0
    · simp [h1, h2]
    · simp [h1, h2]

theorem writeDelimiter_st {o : Out} (h : OSt pre U f F o) : St pre U f F true (writeDelimiter o) := by
  unfold OSt at h
  rw [writeDelimiter_eq]
  cases hc : o.gCur with
  | cons x xs => left; simp
  | nil =>
    rcases h with h | h
    · left; simp [h]
    · right
      simp only [hc, List.isEmpty_nil, Bool.not_true, Bool.false_eq_true, if_false] at h
      simp only [if_true]
      obtain ⟨hu, hf, hfl, _, hpos, hneg, hwr⟩ := h
      by_cases h1 : o.outputCount > 0
      · have hi := hpos.1 h1
        have h2 : ¬ o.outputCount < 0 := by omega
        exact ⟨hu, hf, hfl, by simp [h2]; omega, by simpa [h2] using hpos, by
          simp [hwr, hi, h1]⟩
      · by_cases h2 : o.outputCount < 0
        · obtain ⟨hi, hf0⟩ := hneg.1 h2
          exact ⟨hu, hf, hfl, by simp [h2], by simp [hi, h2], by simp [hwr, hi, hf0, semi, h1, h2]⟩
        · have hi : o.gItems = [] := Decidable.byContradiction (fun hi => h1 (hpos.2 hi))
          have hf1 : f = true := by
            cases f with
            | true => rfl
            | false => exact absurd (hneg.2 ⟨hi, rfl⟩) h2
          exact ⟨hu, hf, hfl, by simp [h2]; omega, by simpa [h2] using hpos, by simp [hwr, hi, hf1, semi, h1, h2]⟩

theorem writeData_st {o : Out} (d : Bytes) (h : St pre U f F true o) : St pre U f F true (writeData o d) := by
  rcases h with h | h
  · exact Or.inl h
  · right
    simp only [if_true] at h ⊢
    obtain ⟨hu, hf, hfl, hnn, hpos, hwr⟩ := h
    exact ⟨hu, hf, hfl, hnn, hpos, by simp [writeData, hwr]⟩

theorem bump_st {o : Out} (h : St pre U f F true o) : St pre U f F false (bump o) := by
  rcases h with h | h
  · exact Or.inl h
  · right
    simp only [if_true] at h
    simp only [Bool.false_eq_true, if_false]
    obtain ⟨hu, hf, hfl, hnn, hpos, hwr⟩ := h
    refine ⟨hu, hf, hfl, rfl, ?_, ?_, ?_⟩
    · simp [bump]; omega
    · simp [bump]; omega
    · simp only [bump, hwr, joinSep_snoc]
      by_cases hi : o.gItems = [] <;> simp [hi]

/-- updates of fields the invariant does not mention -/
theorem St.congr {b : Bool} {o o' : Out} (h : St pre U f F b o)
    (h1 : o'.outputCount = o.outputCount) (h2 : o'.firstOutput = o.firstOutput)
    (h3 : o'.written = o.written) (h4 : o'.flushes = o.flushes) (h5 : o'.gCur = o.gCur)
    (h6 : o'.gItems = o.gItems) (h7 : o'.gUnits = o.gUnits) (h8 : o.gPartial = true → o'.gPartial = true) :
    St pre U f F b o' := by
  rcases h with h | h
  · exact Or.inl (h8 h)
  · right
    cases b with
    | true =>
      simp only [if_true] at h ⊢
      obtain ⟨hu, hf, hfl, hnn, hpos, hwr⟩ := h
      exact ⟨by rw [h7, hu], by rw [h2, hf], by rw [h4, hfl], by rw [h1]; exact hnn,
        by rw [h1, h6]; exact hpos, by rw [h3, h5, h6]; exact hwr⟩
    | false =>
      simp only [Bool.false_eq_true, if_false] at h ⊢
      obtain ⟨hu, hf, hfl, hc, hpos, hneg, hwr⟩ := h
      exact ⟨by rw [h7, hu], by rw [h2, hf], by rw [h4, hfl], by rw [h5, hc],
        by rw [h1, h6]; exact hpos, by rw [h1, h6]; exact hneg, by rw [h3, h6]; exact hwr⟩

/-! ### the result writers -/

/-- delimiter, payload chunks, bump: the shape of every complete-item writer -/
theorem item_st {o : Out} (ds : List Bytes) (h : OSt pre U f F o) :
    OSt pre U f F (bump (ds.foldl writeData (writeDelimiter o))) := by
  have : ∀ (ds : List Bytes) (o : Out), St pre U f F true o → St pre U f F true (ds.foldl writeData o) := by
    intro ds
    induction ds with
    | nil => intro o h; exact h
    | cons d ds ih => intro o h; exact ih _ (writeData_st d h)
  exact St.of_closed (bump_st (this ds _ (writeDelimiter_st h)))

theorem resultCharacters_st {o : Out} (d : Bytes) (h : OSt pre U f F o) :
    OSt pre U f F (resultCharacters o d) := item_st [d] h

theorem resultFloatText_st {o : Out} (d : Bytes) (h : OSt pre U f F o) :
    OSt pre U f F (resultFloatText o d) := item_st [d] h

theorem resultIntBaseSign_st {o : Out} (w v : Nat) (base : Int) (sign : Bool) (h : OSt pre U f F o) :
    OSt pre U f F (resultIntBaseSign o w v base sign) := item_st [_, _] h

theorem resultBool_st {o : Out} (b : Bool) (h : OSt pre U f F o) :
    OSt pre U f F (resultBool o b) := resultIntBaseSign_st _ _ _ _ h

theorem resultText_st {o : Out} (d : Bytes) (h : OSt pre U f F o) :
    OSt pre U f F (resultText o d) := item_st [_, _, _] h

theorem resultBlockHeader_st {o : Out} (n : Nat) (h : OSt pre U f F o) :
    OSt pre U f F (resultBlockHeader o n) := by
  unfold resultBlockHeader
  apply St.of_open
  · apply writeData_st
    apply writeDelimiter_st
    exact St.congr h rfl rfl rfl rfl rfl rfl rfl id
  · simp [writeData]

theorem resultBlockData_st {o : Out} (d : Bytes) (h : OSt pre U f F o) :
    OSt pre U f F (resultBlockData o d) := by
  unfold resultBlockData
  split
  · exact St.congr h rfl rfl rfl rfl rfl rfl rfl id
  · cases hc : o.gCur with
    | nil =>
      left
      simp only [List.isEmpty_nil, Bool.or_true]
      split <;> rfl
    | cons x xs =>
      have ho : St pre U f F true o := by
        have := h; unfold OSt at this; simpa [hc] using this
      have h1 : St pre U f F true
          (writeData { o with arbRemaining := o.arbRemaining - d.length,
                              gPartial := o.gPartial || o.gCur.isEmpty } d) :=
        writeData_st d (St.congr ho rfl rfl rfl rfl rfl rfl rfl (by intro h; simp [h]))
      rw [hc] at h1
      dsimp only
      split
      · exact St.of_closed (bump_st h1)
      · exact St.of_open h1 (by simp [writeData])

theorem resultBlock_st {o : Out} (d : Bytes) (h : OSt pre U f F o) :
    OSt pre U f F (resultBlock o d) := resultBlockData_st _ (resultBlockHeader_st _ h)

theorem resultArrayBinary_st {o : Out} (es : List Bytes) (sz : Nat) (same : Bool) (h : OSt pre U f F o) :
    OSt pre U f F (resultArrayBinary o es sz same) := by
  have hfold : ∀ (es : List Bytes) (o : Out), OSt pre U f F o →
      OSt pre U f F (es.foldl (fun o e => resultBlockData o e.reverse) o) := by
    intro es
    induction es with
    | nil => intro o h; exact h
    | cons e es ih => intro o h; exact ih _ (resultBlockData_st _ h)
  unfold resultArrayBinary
  split
  · exact St.congr h rfl rfl rfl rfl rfl rfl rfl id
  · split
    · exact resultBlock_st _ h
    · simp only []
      split
      · exact resultBlockData_st _ (resultBlockHeader_st _ h)
      · apply hfold
        split
        · exact resultBlockData_st _ (resultBlockHeader_st _ h)
        · exact resultBlockHeader_st _ h

/-! ### parameter readers and error pushes leave the output state alone -/

@[simp] theorem emit_out (c : Ctx) (e : Ev) : (emit c e).out = c.out := rfl

@[simp] theorem pushError_out (c : Ctx) (code : Int) (info : Option Bytes) (n : Nat) :
    (pushError c code info n).out = c.out := by
  unfold pushError
  dsimp only
  split <;> rfl

@[simp] theorem parameter_out (c : Ctx) (m : Bool) : (parameter c m).1.out = c.out := by
  unfold parameter
  dsimp only
  repeat' split
  all_goals simp

@[simp] theorem paramInt_out (c : Ctx) (w : Nat) (s m : Bool) : (paramInt c w s m).1.out = c.out := by
  unfold paramInt
  have := parameter_out c m
  revert this
  generalize parameter c m = r
  obtain ⟨c1, ok, t⟩ := r
  intro h
  dsimp only at h ⊢
  repeat' split
  all_goals simp [h]

@[simp] theorem paramFloat_out (c : Ctx) (d m : Bool) : (paramFloat c d m).1.out = c.out := by
  unfold paramFloat
  have := parameter_out c m
  revert this
  generalize parameter c m = r
  obtain ⟨c1, ok, t⟩ := r
  intro h
  dsimp only at h ⊢
  repeat' split
  all_goals simp [h]

@[simp] theorem paramToChoice_out (c : Ctx) (t : Token) (opts : List (Bytes × Int)) :
    (paramToChoice c t opts).1.out = c.out := by
  unfold paramToChoice
  dsimp only
  repeat' split
  all_goals simp

@[simp] theorem paramBool_out (c : Ctx) (m : Bool) : (paramBool c m).1.out = c.out := by
  unfold paramBool
  have := parameter_out c m
  revert this
  generalize parameter c m = r
  obtain ⟨c1, ok, t⟩ := r
  intro h
  dsimp only at h ⊢
  repeat' split
  all_goals simp [h]

@[simp] theorem paramChoice_out (c : Ctx) (m : Bool) (opts : List (Bytes × Int)) :
    (paramChoice c m opts).1.out = c.out := by
  unfold paramChoice
  have := parameter_out c m
  revert this
  generalize parameter c m = r
  obtain ⟨c1, ok, t⟩ := r
  intro h
  dsimp only at h ⊢
  repeat' split
  all_goals simp [h]

@[simp] theorem paramChars_out (c : Ctx) (m : Bool) : (paramChars c m).1.out = c.out := by
  unfold paramChars
  have := parameter_out c m
  revert this
  generalize parameter c m = r
  obtain ⟨c1, ok, t⟩ := r
  intro h
  dsimp only at h ⊢
  repeat' split
  all_goals simp [h]

@[simp] theorem paramBlock_out (c : Ctx) (m : Bool) : (paramBlock c m).1.out = c.out := by
  unfold paramBlock
  have := parameter_out c m
  revert this
  generalize parameter c m = r
  obtain ⟨c1, ok, t⟩ := r
  intro h
  dsimp only at h ⊢
  repeat' split
  all_goals simp [h]

@[simp] theorem paramText_out (c : Ctx) (m : Bool) (cap : Nat) : (paramText c m cap).1.out = c.out := by
  unfold paramText
  have := parameter_out c m
  revert this
  generalize parameter c m = r
  obtain ⟨c1, ok, t⟩ := r
  intro h
  dsimp only at h ⊢
  repeat' split
  all_goals simp [h]

theorem paramArrInt_go_out (w : Nat) (s : Bool) : ∀ (n : Nat) (c : Ctx) (m : Bool) (acc : List Int),
    (paramArrInt.go w s n c m acc).1.out = c.out := by
  intro n
  induction n with
  | zero => intro c m acc; rfl
  | succ n ih =>
    intro c m acc
    unfold paramArrInt.go
    have := paramInt_out c w s m
    revert this
    generalize paramInt c w s m = r
    obtain ⟨c1, ok, v⟩ := r
    intro h
    dsimp only at h ⊢
    split
    · rw [ih, h]
    · exact h

@[simp] theorem paramArrInt_out (c : Ctx) (w : Nat) (s : Bool) (cap : Nat) (m : Bool) :
    (paramArrInt c w s cap m).1.out = c.out := paramArrInt_go_out w s cap c m []

@[simp] theorem paramNumber_out (c : Ctx) (m : Bool) : (paramNumber c m).1.out = c.out := by
  unfold paramNumber
  have := parameter_out c m
  revert this
  generalize parameter c m = r
  obtain ⟨c1, ok, t⟩ := r
  intro h
  dsimp only at h ⊢
  repeat' split
  all_goals simp [h]

@[simp] theorem writeDelimiter_gItems (o : Out) : (writeDelimiter o).gItems = o.gItems := by
  rw [writeDelimiter_eq]
@[simp] theorem writeDelimiter_gCur (o : Out) : (writeDelimiter o).gCur = o.gCur := by
  rw [writeDelimiter_eq]

/-! ### SCPI_ResultError (reached from handler scripts through the library's SYSTem:ERRor[:NEXT]? handler) -/

theorem errPartLoop_ind (P : Out → Prop) (hP : ∀ o d, P o → P (writeData o d)) :
    ∀ (fuel : Nat) (o : Out) (d : Bytes) (len lim : Nat), P o → P (errPartLoop fuel o d len lim).1 := by
  intro fuel
  induction fuel with
  | zero => intro o d len lim h; exact h
  | succ fuel ih =>
    intro o d len lim h
    unfold errPartLoop
    split
    · exact h
    · dsimp only
      split
      · exact h
      · exact ih _ _ _ _ (hP _ _ (hP _ _ h))

theorem errParts_ind (P : Out → Prop) (hP : ∀ o d, P o → P (writeData o d)) :
    ∀ (ps : List (Option Bytes)) (i : Nat) (o : Out) (lim : Nat), P o → P (errParts i ps o lim) := by
  intro ps
  induction ps with
  | nil => intro i o lim h; unfold errParts; exact h
  | cons p ps ih =>
    intro i o lim h
    unfold errParts
    split
    · exact h
    · split
      · exact h
      · dsimp only
        apply ih
        apply hP
        apply errPartLoop_ind P hP
        split
        · dsimp only
          split
          · exact hP _ _ h
          · exact h
        · exact h

/-- closing a ghost item without counting it, when the unit already has a finished item -/
theorem closeGhost_st {o : Out} (hs : St pre U f F true o) (hi : o.gPartial = true ∨ o.gItems ≠ []) :
    OSt pre U f F { o with gItems := o.gItems ++ [o.gCur], gCur := [] } := by
  apply St.of_closed
  rcases hs with hp | hs
  · exact Or.inl hp
  rcases hi with hp | hi
  · exact Or.inl hp
  right
  simp only [if_true] at hs
  simp only [Bool.false_eq_true, if_false]
  obtain ⟨hu, hf, hfl, hnn, hpos, hwr⟩ := hs
  have h0 := hpos.2 hi
  refine ⟨hu, hf, hfl, rfl, ?_, ?_, ?_⟩
  · simp [h0]
  · simp; omega
  · simp only [hwr, joinSep_snoc]
    simp [hi]

theorem resultError_st {o : Out} (code : Int) (desc : Bytes) (parts : List (Option Bytes))
    (h : OSt pre U f F o) : OSt pre U f F (resultError o code desc parts) := by
  unfold resultError
  dsimp only
  -- after the integer item and the delimiter: open, with a finished item
  let P : Out → Prop := fun o => St pre U f F true o ∧ (o.gPartial = true ∨ o.gItems ≠ [])
  have hP : ∀ o d, P o → P (writeData o d) := fun o d h => ⟨writeData_st d h.1, h.2⟩
  have h0 : P (writeDelimiter (resultIntBaseSign o 32
      (if code < 0 then (2^32 - code.natAbs) else code.toNat) 10 true)) := by
    refine ⟨writeDelimiter_st (resultIntBaseSign_st _ _ _ _ h), Or.inr ?_⟩
    simp [resultIntBaseSign, bump]
  have h1 := hP _ [34] (errParts_ind P hP (some desc :: parts) 0 _
    Gen.SCPI_STD_ERROR_DESC_MAX_STRING_LENGTH.toNat (hP _ [34] h0))
  exact closeGhost_st h1.1 h1.2

/-! ### handler scripts -/

theorem OSt.of_eq {o o' : Out} (h : OSt pre U f F o) (e : o' = o) : OSt pre U f F o' := e ▸ h

/-! ### the library's own handlers -/

theorem bOut_st {o : Out} (r : Regs.St) (q : Fifo.EQ) (b : Builtin) (h : OSt pre U f F o) :
    OSt pre U f F (Lemmas.Builtin.bOut r q b o) := by
  cases b
  case idnQ fields =>
    show OSt pre U f F ((List.range 4).foldl (fun o i => resultCharacters o (idnField fields i)) o)
    have : ∀ (l : List Nat) (o : Out), OSt pre U f F o →
        OSt pre U f F (l.foldl (fun o i => resultCharacters o (idnField fields i)) o) := by
      intro l
      induction l with
      | nil => intro o h; exact h
      | cons a l ih => intro o h; exact ih _ (resultCharacters_st _ h)
    exact this _ _ h
  case errNextQ => exact resultError_st _ _ _ h
  case versQ => exact resultCharacters_st _ h
  case eseQ | esrQ | opcQ | sreQ | stbQ | tstQ | stubQ | errCountQ | quesCondQ | quesEvenQ | quesEnabQ
      | operCondQ | operEvenQ | operEnabQ => exact resultIntBaseSign_st _ _ _ _ h
  all_goals exact h

@[simp] theorem regFromParam_out (c : Ctx) (reg : Nat) : (regFromParam c reg).1.out = c.out := by
  rw [Lemmas.Builtin.regFromParam_eq]
  have h := paramInt_out c 32 true true
  dsimp only
  split
  · exact h
  · exact h

theorem runBuiltin_st (c : Ctx) (b : Builtin) (hs : OSt pre U f F c.out) :
    OSt pre U f F (runBuiltin c b).1.out := by
  cases hp : Lemmas.Builtin.paramReg b with
  | none => rw [Lemmas.Builtin.runBuiltin_pure c b hp]; exact bOut_st _ _ _ hs
  | some p =>
    obtain ⟨reg, strict⟩ := p
    rw [Lemmas.Builtin.runBuiltin_param c b reg strict hp]
    exact hs.of_eq (by simp)

theorem runOp_st (h : HState) (op : SOp) (hs : OSt pre U f F h.c.out) :
    OSt pre U f F (runOp h op).c.out := by
  unfold runOp
  split
  · exact hs
  · cases op with
    | pInt w s m =>
      dsimp only
      repeat' split
      all_goals exact hs.of_eq (by simp)
    | pFloat d m =>
      dsimp only
      repeat' split
      all_goals exact hs.of_eq (by simp)
    | pBool m =>
      dsimp only
      repeat' split
      all_goals exact hs.of_eq (by simp)
    | pChoice m k =>
      dsimp only
      repeat' split
      all_goals exact hs.of_eq (by simp)
    | pNumber m =>
      dsimp only
      repeat' split
      all_goals exact hs.of_eq (by simp)
    | pChars m =>
      dsimp only
      repeat' split
      all_goals exact hs.of_eq (by simp)
    | pBlock m =>
      dsimp only
      repeat' split
      all_goals exact hs.of_eq (by simp)
    | pText m cap =>
      dsimp only
      repeat' split
      all_goals exact hs.of_eq (by simp)
    | pArrInt w s cap m =>
      dsimp only
      repeat' split
      all_goals exact hs.of_eq (by simp)
    | rInt w s v b => exact resultIntBaseSign_st _ _ _ _ hs
    | rIntN n s v b => exact resultIntBaseSign_st _ _ _ _ hs
    | rFloatText t => exact resultFloatText_st _ hs
    | rBool b => exact resultBool_st _ hs
    | rText d => exact resultText_st _ hs
    | rChars d => exact resultCharacters_st _ hs
    | rBlock d => exact resultBlock_st _ hs
    | rBlockHeader n => exact resultBlockHeader_st _ hs
    | rBlockData d =>
      dsimp only
      split
      · exact (resultBlockData_st d hs).of_eq (by simp)
      · exact resultBlockData_st d hs
    | rArrBin sz es same =>
      dsimp only
      split
      · exact (resultArrayBinary_st es sz same hs).of_eq (by simp)
      · exact resultArrayBinary_st es sz same hs
    | ePush code info => exact hs.of_eq (by simp)
    | iTag => exact hs
    | iIsCmd s => exact hs
    | iMatch pat s => exact hs
    | iNums n d =>
      dsimp only
      split
      · exact hs
      · exact hs
    | onFail s => exact hs
    | ret ok => exact hs
    | builtin b =>
      dsimp only
      split
      · exact runBuiltin_st h.c b hs
      · exact runBuiltin_st h.c b hs

theorem runScript_st (c : Ctx) (s : List SOp) (hs : OSt pre U f F c.out) :
    OSt pre U f F (runScript c s).1.out := by
  have : ∀ (s : List SOp) (h : HState), OSt pre U f F h.c.out → OSt pre U f F (s.foldl runOp h).c.out := by
    intro s
    induction s with
    | nil => intro h hs; exact hs
    | cons op s ih => intro h hs; exact ih _ (runOp_st h op hs)
  exact this s _ hs

/-! ### units -/

/-- between two units of a message -/
structure Between (W0 : Bytes) (F : Nat) (o : Out) : Prop where
  wr : o.written = W0 ++ body o.gUnits
  first : o.firstOutput = (resp o.gUnits).isEmpty
  items : o.gItems = []
  cur : o.gCur = []
  fl : o.flushes = F

def BSt (W0 : Bytes) (F : Nat) (o : Out) : Prop := o.gPartial = true ∨ Between W0 F o

variable {W0 : Bytes}

theorem start_st {o : Out} (h : BSt W0 F o) {f : Bool} (hf : o.firstOutput = f) :
    OSt (W0 ++ body o.gUnits) o.gUnits f F
      { o with outputCount := if o.firstOutput then 0 else -1, arbRemaining := 0 } := by
  subst hf
  rcases h with h | h
  · exact Or.inl h
  · right
    obtain ⟨hwr, hf, hi, hc, hfl⟩ := h
    simp only [hc, List.isEmpty_nil, Bool.not_true, Bool.false_eq_true, if_false]
    refine ⟨rfl, rfl, hfl, rfl, ?_, ?_, ?_⟩
    · simp only [hi]; cases o.firstOutput <;> simp
    · simp only [hi]; cases o.firstOutput <;> simp
    · simp [hi, hwr]

theorem finish_st {o : Out} (h : OSt (W0 ++ body U) U (resp U).isEmpty F o) :
    BSt W0 F (endUnit (if o.outputCount > 0 then { o with firstOutput := false } else o)) := by
  unfold OSt at h
  cases hc : o.gCur with
  | cons x xs =>
    left
    split <;> simp [endUnit, hc]
  | nil =>
    rcases h with h | h
    · left
      split <;> simp [endUnit, h]
    · right
      simp only [hc, List.isEmpty_nil, Bool.not_true, Bool.false_eq_true, if_false] at h
      obtain ⟨hu, hf, hfl, _, hpos, hneg, hwr⟩ := h
      by_cases hi : o.gItems = []
      · have h0 : ¬ o.outputCount > 0 := fun h => hpos.1 h hi
        simp only [h0, if_false, endUnit]
        refine ⟨?_, ?_, rfl, rfl, hfl⟩
        · simp [hwr, hi, hu, body_snoc]
        · simp [hi, hu, resp_snoc, hf]
      · have h0 : o.outputCount > 0 := hpos.2 hi
        simp only [h0, if_true, endUnit]
        refine ⟨?_, ?_, rfl, rfl, hfl⟩
        · simp [hwr, hi, hu, body_snoc]
        · simp [hi, hu, resp_snoc]

/-- the three stages of `processCommand` -/
def pcStart (c : Ctx) : Ctx :=
  { c with cmdError := false, inputCount := 0,
           out := { c.out with outputCount := if c.out.firstOutput then 0 else -1, arbRemaining := 0 } }

def pcScript (c : Ctx) : Ctx × Bool :=
  match c.cur with
  | some cmd =>
    let c := emit c (.handler cmd.tag ((c.buf.drop c.rawOff).take c.rawLen))
    let (c, ok) := runScript c cmd.script
    if !ok then ((if !c.cmdError then pushError c (-200) none else c), false)
    else (c, !c.cmdError)
  | none => (c, true)

def pcFinish (c : Ctx) (result : Bool) : Ctx × Bool :=
  let c := if c.out.outputCount > 0 then { c with out := { c.out with firstOutput := false } } else c
  let c := { c with out := Result.endUnit c.out }
  if c.ppos < c.pbase + c.plen ∧ !c.cmdError then (pushError c (-108) none, false) else (c, result)

theorem processCommand_eq (c : Ctx) :
    processCommand c = pcFinish (pcScript (pcStart c)).1 (pcScript (pcStart c)).2 := rfl

theorem pcScript_st (c : Ctx) (hs : OSt pre U f F c.out) : OSt pre U f F (pcScript c).1.out := by
  unfold pcScript
  split
  · dsimp only
    have hr := fun ev s =>
      runScript_st (pre := pre) (U := U) (f := f) (F := F) (emit c ev) s (hs.of_eq (emit_out _ _))
    split
    · split
      · simp only [pushError_out]; exact hr _ _
      · exact hr _ _
    · exact hr _ _
  · exact hs

theorem pcFinish_out (c : Ctx) (r : Bool) :
    (pcFinish c r).1.out =
      endUnit (if c.out.outputCount > 0 then { c.out with firstOutput := false } else c.out) := by
  unfold pcFinish
  dsimp only
  split <;> split <;> simp

theorem processCommand_st (c : Ctx) (hb : BSt W0 F c.out) : BSt W0 F (processCommand c).1.out := by
  rw [processCommand_eq, pcFinish_out]
  have h1 : OSt (W0 ++ body c.out.gUnits) c.out.gUnits (resp c.out.gUnits).isEmpty F (pcStart c).out := by
    rcases hb with hp | hb'
    · exact Or.inl hp
    · exact start_st (Or.inr hb') hb'.first
  exact finish_st (pcScript_st _ h1)

/-! ### the unit loop and `parse` -/

/-- one iteration of the `while (1)` loop of SCPI_Parse -/
def plStep (c : Ctx) (base len : Nat) (prev : Option (Nat × Nat)) (res : Bool) :
    Ctx × Option (Nat × Nat) × Bool :=
  let u := Parser.detectUnit ((c.buf.drop base).take len)
  let r := u.consumed
  if u.header.type == .invalid then (pushError c (-101) none, prev, false)
  else if u.header.len > 0 ∧ u.nParams < 0 then (pushError c (-103) none, prev, false)
  else if u.header.len > 0 then
    let cur := (base + u.header.ptr, u.header.len.toNat)
    let (buf, cur, okc) := Match.composeCompound c.buf prev cur
    let c := { c with buf := buf, oob := c.oob || !okc }
    let prev := some cur
    match findCommand c cur.1 cur.2 with
    | some cmd =>
      let c := { c with pbase := base + u.data.ptr, ppos := base + u.data.ptr, plen := u.data.len.toNat,
                        cur := some cmd, rawOff := cur.1, rawLen := cur.2 }
      let (c, ok) := processCommand c
      (c, prev, res && ok)
    | none =>
      let txt := (c.buf.drop base).take r
      let r2 := (txt.reverse.dropWhile (fun b => b == 13 || b == 10)).length
      (pushError c (-113) (some (txt.take r2)) r2, prev, false)
  else (c, prev, res)

theorem plStep_st (c : Ctx) (base len : Nat) (prev : Option (Nat × Nat)) (res : Bool)
    (hb : BSt W0 F c.out) : BSt W0 F (plStep c base len prev res).1.out := by
  unfold plStep
  dsimp only
  split
  · simpa using hb
  · split
    · simpa using hb
    · split
      · split
        · exact processCommand_st _ hb
        · simpa using hb
      · exact hb

theorem parseLoop_st : ∀ (fuel : Nat) (c : Ctx) (base len : Nat) (prev : Option (Nat × Nat)) (res : Bool),
    BSt W0 F c.out → BSt W0 F (parseLoop fuel c base len prev res).1.out := by
  intro fuel
  induction fuel with
  | zero => intro c base len prev res hb; exact hb
  | succ fuel ih =>
    intro c base len prev res hb
    have hs := plStep_st c base len prev res hb
    unfold plStep at hs
    unfold parseLoop
    dsimp only at hs ⊢
    split
    · exact ih _ _ _ _ _ hs
    · exact hs

theorem any_eq_resp (U : List (List Bytes)) :
    U.any (fun u => !u.isEmpty) = !(resp U).isEmpty := by
  unfold resp
  induction U with
  | nil => rfl
  | cons u U ih =>
    cases hu : u.isEmpty <;> simp [hu, ih]

theorem all_eq_resp (U : List (List Bytes)) :
    U.all (fun u => u.isEmpty) = (resp U).isEmpty := by
  unfold resp
  induction U with
  | nil => rfl
  | cons u U ih =>
    cases hu : u.isEmpty <;> simp [hu, ih]

theorem body_of_empty {U : List (List Bytes)} (h : (resp U).isEmpty = true) : body U = [] := by
  unfold body
  rw [List.isEmpty_iff.mp h]
  rfl

def parseStart (c : Ctx) (base len : Nat) : Ctx :=
  let c := { c with out := { c.out with outputCount := 0, firstOutput := true, gCur := [], gItems := [], gUnits := [], gPartial := false } }
  emit c (.parseMsg ((c.buf.drop base).take len))

theorem parse_out (c : Ctx) (base len : Nat) :
    (parse c base len).1.out =
      writeNewLine (parseLoop (len + 2) (parseStart c base len) base len none true).1.out := by
  unfold parse parseStart
  dsimp only

/-- the output state after the unit loop of `parse` -/
theorem parse_loop_st (c : Ctx) (base len : Nat) :
    ∃ o : Out, (parse c base len).1.out = writeNewLine o ∧ BSt c.out.written c.out.flushes o := by
  refine ⟨_, parse_out c base len, ?_⟩
  apply parseLoop_st
  right
  exact ⟨by simp [parseStart, body, resp, joinSep], by simp [parseStart, resp], rfl, rfl, rfl⟩

theorem framing (c : Ctx) (base len : Nat) :
    let c' := (parse c base len).1
    c'.out.gPartial = false →
    c'.out.written = c.out.written ++ Spec.Message.frame c'.out.gUnits ∧
    c'.out.flushes = c.out.flushes + (if c'.out.gUnits.any (fun u => !u.isEmpty) then 1 else 0) := by
  intro c'
  obtain ⟨o, ho, hb⟩ := parse_loop_st c base len
  show c'.out.gPartial = false → _
  have hc' : c'.out = writeNewLine o := ho
  rw [hc']
  intro hp
  have hpo : o.gPartial = false := by
    unfold writeNewLine writeSep at hp
    split at hp <;> exact hp
  rcases hb with hb | hb
  · rw [hpo] at hb; exact absurd hb (by decide)
  · obtain ⟨hwr, hf, _, _, hfl⟩ := hb
    rw [frame_eq, any_eq_resp]
    unfold writeNewLine writeSep
    cases hr : (resp o.gUnits).isEmpty
    · rw [hr] at hf
      simp [hf, hr, hwr, hfl]
      rfl
    · rw [hr] at hf
      simp [hf, hr, hwr, hfl, body_of_empty hr]

theorem silent_message (c : Ctx) (base len : Nat) :
    let c' := (parse c base len).1
    c'.out.gPartial = false → c'.out.gUnits.all (fun u => u.isEmpty) = true →
    c'.out.written = c.out.written ∧ c'.out.flushes = c.out.flushes := by
  dsimp only
  intro hp hall
  have := framing c base len hp
  rw [frame_eq, any_eq_resp] at this
  rw [all_eq_resp] at hall
  have hall' := List.isEmpty_iff.mp hall
  simpa [hall'] using this

/-! ### the ghost items are the independent encodings -/

theorem basePrefix_eq (base : Int) :
    basePrefix base =
      (if base = 2 then Spec.Message.bytesOf "#B" else if base = 8 then Spec.Message.bytesOf "#Q"
       else if base = 16 then Spec.Message.bytesOf "#H" else []) := by
  unfold basePrefix
  by_cases h2 : base = 2
  · subst h2; rfl
  · by_cases h8 : base = 8
    · subst h8; rfl
    · by_cases h16 : base = 16
      · subst h16; rfl
      · have e2 : ((2 : Int) == base) = false := by simpa using fun h => h2 h.symm
        have e8 : ((8 : Int) == base) = false := by simpa using fun h => h8 h.symm
        have e16 : ((16 : Int) == base) = false := by simpa using fun h => h16 h.symm
        simp [Gen.basePrefixes, e2, e8, e16, h2, h8, h16]

theorem toStr_chars (w : Nat) (hw : w = 32 ∨ w = 64) (v : Nat) (hv : v < 2^w) (base : Int) (sign : Bool) :
    (IntFmt.toStrBaseSign w (if w == 32 then tbl32 else tbl64) v
        (if w == 32 then Gen.bufU32 else Gen.bufU64) base sign).1.chars = IntFmt.canon w v base sign := by
  have hlen := Lemmas.IntFmt.canon_len w hw v base sign hv
  rcases hw with rfl | rfl
  · have := (Lemmas.IntFmt.toStr_spec 32 tbl32 (by decide) (by decide) v Gen.bufU32 base sign hv).1
    simp only [beq_self_eq_true, if_true]
    rw [this, List.take_of_length_le]
    have : Gen.bufU32 = 33 := rfl
    omega
  · have := (Lemmas.IntFmt.toStr_spec 64 tbl64 (by decide) (by decide) v Gen.bufU64 base sign hv).1
    have h : ((64 : Nat) == 32) = false := by decide
    simp only [h, Bool.false_eq_true, if_false]
    rw [this, List.take_of_length_le]
    have : Gen.bufU64 = 65 := rfl
    omega

theorem item_of_int (o : Out) (w : Nat) (hw : w = 32 ∨ w = 64) (v : Nat) (hv : v < 2^w) (base : Int)
    (sign : Bool) (hcur : o.gCur = []) :
    (resultIntBaseSign o w v base sign).gItems = o.gItems ++ [Spec.Message.intText w v base sign] ∧
    (resultIntBaseSign o w v base sign).gCur = [] := by
  unfold resultIntBaseSign
  dsimp only
  rw [toStr_chars w hw v hv base sign]
  refine ⟨?_, rfl⟩
  simp [bump, writeData, hcur, basePrefix_eq, Spec.Message.intText, charsToBytes]

theorem item_of_text (o : Out) (d : Bytes) (hcur : o.gCur = []) :
    (resultText o d).gItems = o.gItems ++ [Spec.Message.quote (d.takeWhile (· ≠ 0))] := by
  simp [resultText, bump, writeData, hcur, Spec.Message.quote, escapeQuotes]

theorem specDigits10_len {n : Nat} (h : n < 10^9) : (IntFmt.specDigits 10 n).length ≤ 9 := by
  by_cases h0 : n = 0
  · subst h0; rw [Lemmas.IntFmt.specDigits_zero]; decide
  · obtain ⟨k, a, c⟩ := Lemmas.IntFmt.exists_pow_bracket (b := 10) (by omega) n (by omega)
    rw [Lemmas.IntFmt.specDigits_eq (by omega) a c, Lemmas.IntFmt.pad_length]
    have : (10 : Nat)^k < 10^9 := by omega
    have := (Nat.pow_lt_pow_iff_right (a := 10) (by omega)).1 this
    omega

theorem blockHeader_chars {n : Nat} (h : n < 10^9) :
    (IntFmt.toStrBaseSign 32 tbl32 (n % 2^32) Gen.blockHeaderLen Gen.blockHeaderBase false).1.chars =
      IntFmt.specDigits 10 n := by
  have hn : n % 2^32 = n := Nat.mod_eq_of_lt (by omega)
  have hv : n < 2^32 := by omega
  rw [hn, (Lemmas.IntFmt.toStr_spec 32 tbl32 (by decide) (by decide) n Gen.blockHeaderLen
        Gen.blockHeaderBase false hv).1]
  have hc : IntFmt.canon 32 n (Gen.blockHeaderBase : Nat) false = IntFmt.specDigits 10 n := by
    simp [IntFmt.canon, IntFmt.effBase, Gen.blockHeaderBase]
  rw [hc, List.take_of_length_le]
  have := specDigits10_len h
  have : Gen.blockHeaderLen = 10 := rfl
  omega

theorem item_of_block (o : Out) (d : Bytes) (hcur : o.gCur = []) (hlen : d.length < 10^9) :
    (resultBlock o d).gItems = o.gItems ++ [Spec.Message.encodeBlock d] := by
  unfold resultBlock resultBlockHeader
  dsimp only
  rw [blockHeader_chars hlen]
  unfold resultBlockData
  simp [writeDelimiter_eq, writeData, bump, hcur, Spec.Message.encodeBlock, Spec.Message.decimal,
    charsToBytes, Nat.add_comm]

/-! ### the ghost bookkeeping of `resultBlockData` does not disturb the real fields

The C function increments output_count before the writeData call; the model writes first so that
the ghost item is closed after its last bytes.  The real fields agree with the C order. -/

/-- SCPI_ResultArbitraryBlockData in the literal C statement order -/
def resultBlockDataC (o : Out) (d : Bytes) : Out :=
  if o.arbRemaining < d.length then { o with pushed := o.pushed ++ [-310] }
  else
    let o := { o with arbRemaining := o.arbRemaining - d.length }
    let o := if o.arbRemaining == 0 then bump o else o
    writeData o d

theorem resultBlockData_real (o : Out) (d : Bytes) :
    (resultBlockData o d).outputCount = (resultBlockDataC o d).outputCount ∧
    (resultBlockData o d).firstOutput = (resultBlockDataC o d).firstOutput ∧
    (resultBlockData o d).arbRemaining = (resultBlockDataC o d).arbRemaining ∧
    (resultBlockData o d).written = (resultBlockDataC o d).written ∧
    (resultBlockData o d).flushes = (resultBlockDataC o d).flushes ∧
    (resultBlockData o d).pushed = (resultBlockDataC o d).pushed := by
  unfold resultBlockData resultBlockDataC
  by_cases h1 : o.arbRemaining < d.length
  · simp [h1]
  · by_cases h2 : o.arbRemaining - d.length = 0 <;> simp [h1, h2, writeData, bump]

end ScpiVerif.Lemmas.Framing
