/-
C08 helper definitions: the scan of `SCPI_Input` as a function of the buffer content, and the one
model lemma the chunking proof needs that is NOT yet proved (`ParseLocal`), stated as a proposition
so that the theorems depending on it take it as an explicit hypothesis and whoever proves it can
discharge it.
-/
import ScpiVerif.Spec.Chunking
import ScpiVerif.Model.Ctx

namespace ScpiVerif.Lemmas.Chunking
open ScpiVerif ScpiVerif.Ctx ScpiVerif.Lexer

/-- `c2` is `c1` up to the input buffer bytes, the write position and the event log -/
def Pers (c1 c2 : Ctx) : Prop :=
  { c2 with buf := c1.buf, position := c1.position, events := c1.events } = c1

/-- `SCPI_Parse` of a message that ends in a line feed (and contains neither quote characters nor
CR) does not depend on the buffer bytes behind the message: two contexts that differ only in buffer,
position and event log, and whose buffers agree on the message bytes `[0, k)`, append the same
events and afterwards still differ only in buffer, position and event log.

Compare `Lemmas.Isolation.parse_sim`, which proves this kind of conclusion when the two buffers agree
up to and including a common NUL behind the message.  Between two chunkings of one stream there is
no such NUL (`input c (a ++ b)` parses the first message in `pending ++ a ++ b ++ [0] …`,
`input (input c a) b` in `pending ++ a ++ [0] …`, and after the memmove of the remainder nothing
terminates it); the stopper has to be the message's own terminator: every reader stops at the first
byte that does not continue its token, at the latest at the line feed, and the leading-space skip of
strtol/strtod never runs because numeric tokens start with a non-space.  NOT YET PROVED.
(Equivalent target: `parse` does not depend on the single byte `buf[j]` for `j ≥ k`.) -/
def ParseLocal : Prop :=
  ∀ (c1 c2 : Ctx) (k : Nat), Pers c1 c2 →
    c1.buf.length = c1.bufLen → c2.buf.length = c2.bufLen → k < c1.bufLen → c1.oob = false →
    c1.buf.take k = c2.buf.take k →
    (c1.buf.take k).getLast? = some 10 →
    (∀ b ∈ c1.buf.take k, b ≠ 34 ∧ b ≠ 39 ∧ b ≠ 13) →
    Pers (parse c1 0 k).1 (parse c2 0 k).1 ∧
    ∃ es, (parse c1 0 k).1.events = c1.events ++ es ∧ (parse c2 0 k).1.events = c2.events ++ es

/-- the pending bytes -/
def content (c : Ctx) : Bytes := c.buf.take c.position

/-- the scan loop of `SCPI_Input` on the pending bytes `s`, from offset `tot`, without the parsing:
`some (k, f)` when a unit ending in a line terminator ends at offset `k` (with `f` iterations left),
`none` when the loop stops first -/
def scanFrom : Nat → Bytes → Nat → Option (Nat × Nat)
  | 0, _, _ => none
  | fuel+1, s, tot =>
    let u := Parser.detectUnit (s.drop tot)
    let tot := tot + u.consumed
    if u.term == .nl then some (tot, fuel)
    else if u.header.type == .unknown ∧ u.term == .none then none
    else if tot ≥ s.length then none
    else scanFrom fuel s tot

/-- the length of the first complete message in `s`, if there is one -/
def scan (s : Bytes) : Option Nat := (scanFrom (s.length + 1) s 0).map (·.1)

/-- parse the message `[0, k)` and move the remainder to the front -/
def step (c : Ctx) (k : Nat) : Ctx :=
  let d := (parse c 0 k).1
  { d with buf := poke d.buf 0 ((d.buf.drop k).take (d.position - k)), position := d.position - k }

/-- append `y` and a NUL to the pending bytes -/
def store (c : Ctx) (y : Bytes) : Ctx :=
  { c with buf := (poke c.buf c.position y).set (c.position + y.length) 0, position := c.position + y.length }

/-- the scan finds a message in `s` and finds the same one when more bytes follow -/
def StableOn (G : Bytes → Prop) : Prop :=
  ∀ (s y : Bytes) (k : Nat), G (s ++ y) → scan s = some k → scan (s ++ y) = some k

end ScpiVerif.Lemmas.Chunking
