/-
C08 helper definitions: the scan of `SCPI_Input` as a function of the buffer content, and the one
model lemma the chunking proof needs that is NOT yet proved (`ParseLocal`), stated as a proposition
so that the theorems depending on it take it as an explicit hypothesis and whoever proves it can
discharge it.
-/
import ScpiVerif.Spec.Chunking
import ScpiVerif.Model.Ctx

namespace ScpiVerif.Lemmas.Chunking
open ScpiVerif ScpiVerif.Ctx ScpiVerif.Lexer

/-- `c2` is `c1` up to the input buffer bytes, the write position and the event log -/
def Pers (c1 c2 : Ctx) : Prop :=
  { c2 with buf := c1.buf, position := c1.position, events := c1.events } = c1

/-- `SCPI_Parse` of a message that ends in a line feed (and contains neither quote characters nor
CR) does not depend on the buffer bytes behind the message: two contexts that differ only in buffer,
position and event log, and whose buffers agree on the message bytes `[0, k)`, append the same
events and afterwards still differ only in buffer, position and event log.

Compare `Lemmas.Isolation.parse_sim`, which proves this kind of conclusion when the two buffers agree
up to and including a common NUL behind the message.  Between two chunkings of one stream there is
no such NUL (`input c (a ++ b)` parses the first message in `pending ++ a ++ b ++ [0] …`,
`input (input c a) b` in `pending ++ a ++ [0] …`, and after the memmove of the remainder nothing
terminates it); the stopper has to be the message's own terminator: every reader stops at the first
byte that does not continue its token, at the latest at the line feed, and the leading-space skip of
strtol/strtod never runs because numeric tokens start with a non-space.  NOT YET PROVED.
(Equivalent target: `parse` does not depend on the single byte `buf[j]` for `j ≥ k`.) -/
def ParseLocal : Prop :=
  ∀ (c1 c2 : Ctx) (k : Nat), Pers c1 c2 →
    c1.buf.length = c1.bufLen → c2.buf.length = c2.bufLen → k < c1.bufLen → c1.oob = false →
    c1.buf.take k = c2.buf.take k →
    (c1.buf.take k).getLast? = some 10 →
    (∀ b ∈ c1.buf.take k, b ≠ 34 ∧ b ≠ 39 ∧ b ≠ 13) →
    Pers (parse c1 0 k).1 (parse c2 0 k).1 ∧
    ∃ es, (parse c1 0 k).1.events = c1.events ++ es ∧ (parse c2 0 k).1.events = c2.events ++ es

/-- the same statement for a class `M` of messages -/
def ParseLocalOn (M : Bytes → Prop) : Prop :=
  ∀ (c1 c2 : Ctx) (k : Nat), Pers c1 c2 →
    c1.buf.length = c1.bufLen → c2.buf.length = c2.bufLen → k < c1.bufLen → c1.oob = false →
    c1.buf.take k = c2.buf.take k → M (c1.buf.take k) →
    Pers (parse c1 0 k).1 (parse c2 0 k).1 ∧
    ∃ es, (parse c1 0 k).1.events = c1.events ++ es ∧ (parse c2 0 k).1.events = c2.events ++ es

/-- messages ending in LF, without quote characters and CR -/
def MsgLF (m : Bytes) : Prop := m.getLast? = some 10 ∧ ∀ b ∈ m, b ≠ 34 ∧ b ≠ 39 ∧ b ≠ 13

/-- messages ending in LF or CR, without quote characters -/
def MsgNL (m : Bytes) : Prop := (m.getLast? = some 10 ∨ m.getLast? = some 13) ∧ ∀ b ∈ m, b ≠ 34 ∧ b ≠ 39

/-- `ParseLocal` for messages that may contain CR and may end in a lone CR: what the chunking theorems
for streams with CR LF (or CR) terminators need.  NOT YET PROVED either; implies `ParseLocal`. -/
def ParseLocalCR : Prop :=
  ∀ (c1 c2 : Ctx) (k : Nat), Pers c1 c2 →
    c1.buf.length = c1.bufLen → c2.buf.length = c2.bufLen → k < c1.bufLen → c1.oob = false →
    c1.buf.take k = c2.buf.take k →
    ((c1.buf.take k).getLast? = some 10 ∨ (c1.buf.take k).getLast? = some 13) →
    (∀ b ∈ c1.buf.take k, b ≠ 34 ∧ b ≠ 39) →
    Pers (parse c1 0 k).1 (parse c2 0 k).1 ∧
    ∃ es, (parse c1 0 k).1.events = c1.events ++ es ∧ (parse c2 0 k).1.events = c2.events ++ es

theorem ParseLocal.on (h : ParseLocal) : ParseLocalOn MsgLF :=
  fun c1 c2 k hp l1 l2 hk ho ht hm => h c1 c2 k hp l1 l2 hk ho ht hm.1 hm.2

theorem ParseLocalCR.on (h : ParseLocalCR) : ParseLocalOn MsgNL :=
  fun c1 c2 k hp l1 l2 hk ho ht hm => h c1 c2 k hp l1 l2 hk ho ht hm.1 hm.2

theorem ParseLocalCR.toLF (h : ParseLocalCR) : ParseLocal :=
  fun c1 c2 k hp l1 l2 hk ho ht hl hc =>
    h c1 c2 k hp l1 l2 hk ho ht (Or.inl hl) (fun b hb => ⟨(hc b hb).1, (hc b hb).2.1⟩)

theorem ParseLocal_of_CR : ParseLocalCR → ParseLocal := ParseLocalCR.toLF

/-- the pending bytes -/
def content (c : Ctx) : Bytes := c.buf.take c.position

/-- the scan loop of `SCPI_Input` on the pending bytes `s`, from offset `tot`, without the parsing:
`some (k, f)` when a unit ending in a line terminator ends at offset `k` (with `f` iterations left),
`none` when the loop stops first -/
def scanFrom : Nat → Bytes → Nat → Option (Nat × Nat)
  | 0, _, _ => none
  | fuel+1, s, tot =>
    let u := Parser.detectUnit (s.drop tot)
    let tot := tot + u.consumed
    if u.term == .nl then some (tot, fuel)
    else if u.header.type == .unknown ∧ u.term == .none then none
    else if tot ≥ s.length then none
    else scanFrom fuel s tot

/-- the length of the first complete message in `s`, if there is one -/
def scan (s : Bytes) : Option Nat := (scanFrom (s.length + 1) s 0).map (·.1)

/-- parse the message `[0, k)` and move the remainder to the front -/
def step (c : Ctx) (k : Nat) : Ctx :=
  let d := (parse c 0 k).1
  { d with buf := poke d.buf 0 ((d.buf.drop k).take (d.position - k)), position := d.position - k }

/-- append `y` and a NUL to the pending bytes -/
def store (c : Ctx) (y : Bytes) : Ctx :=
  { c with buf := (poke c.buf c.position y).set (c.position + y.length) 0, position := c.position + y.length }

end ScpiVerif.Lemmas.Chunking
