/-
Helper lemmas for C09 (isolation): the status side of an error push and the queue side of an error
push preserve "same persistent state" (`SameRegs`, `SameQueue`).
-/
import ScpiVerif.Spec.Isolation
import ScpiVerif.Lemmas.Fifo
namespace ScpiVerif.Lemmas.Isolation
open ScpiVerif ScpiVerif.Props.C09

/-! ### status-register side

Every operation reads only `regs`, `qn`, `cap`; the logs `srq`, `errcb` are only appended to.  So each
operation maps `SameRegs` states to `SameRegs` states. -/

theorem sameRegs_put (s1 s2 : Regs.St) (h : SameRegs s1 s2) (n : Nat) (v : Regs.Reg) :
    SameRegs (Regs.put s1 n v) (Regs.put s2 n v) := by
  obtain ⟨h1, h2, h3⟩ := h
  exact ⟨by simp [Regs.put, h1], h2, h3⟩

theorem sameRegs_get (s1 s2 : Regs.St) (h : SameRegs s1 s2) (n : Nat) : Regs.get s1 n = Regs.get s2 n := by
  simp [Regs.get, h.1]

theorem sameRegs_mk (s1 s2 : Regs.St) (h : SameRegs s1 s2) (a b : List Regs.Reg) (c d : List Int) :
    SameRegs { regs := s1.regs, qn := s1.qn, cap := s1.cap, srq := a, errcb := c }
      { regs := s2.regs, qn := s2.qn, cap := s2.cap, srq := b, errcb := d } := h

theorem sameRegs_ite (c : Prop) [Decidable c] (a1 a2 b1 b2 : Regs.St) (ha : c → SameRegs a1 a2)
    (hb : ¬ c → SameRegs b1 b2) : SameRegs (if c then a1 else b1) (if c then a2 else b2) := by
  split
  · exact ha ‹_›
  · exact hb ‹_›

theorem sameRegs_loop (fuel : Nat) : ∀ (s1 s2 : Regs.St) (n : Nat) (v : Regs.Reg), SameRegs s1 s2 →
    SameRegs (Regs.regSetLoop fuel s1 n v) (Regs.regSetLoop fuel s2 n v) := by
  induction fuel with
  | zero => intro s1 s2 n v h; exact h
  | succ fuel ih =>
    intro s1 s2 n v h
    have hp := sameRegs_put s1 s2 h n v
    have hold : s1.regs.getD n 0 = s2.regs.getD n 0 := by rw [h.1]
    have hg := sameRegs_get _ _ hp
    simp only [Regs.regSetLoop, hold, hg]
    repeat' first
      | exact h
      | exact hp
      | exact sameRegs_put _ _ hp _ _
      | exact sameRegs_mk _ _ (sameRegs_put _ _ hp _ _) _ _ _ _
      | apply ih
      | (apply sameRegs_ite <;> intro _)

theorem sameRegs_regSet (s1 s2 : Regs.St) (h : SameRegs s1 s2) (n : Nat) (v : Regs.Reg) :
    SameRegs (Regs.regSet s1 n v) (Regs.regSet s2 n v) := by
  unfold Regs.regSet
  exact sameRegs_ite _ _ _ _ _ (fun _ => h) (fun _ => sameRegs_loop _ _ _ _ _ h)

theorem sameRegs_regSetBits (s1 s2 : Regs.St) (h : SameRegs s1 s2) (n : Nat) (v : Regs.Reg) :
    SameRegs (Regs.regSetBits s1 n v) (Regs.regSetBits s2 n v) := by
  unfold Regs.regSetBits
  rw [sameRegs_get s1 s2 h n]
  exact sameRegs_regSet _ _ h _ _

theorem sameRegs_emit (s1 s2 : Regs.St) (h : SameRegs s1 s2) (e : Int) :
    SameRegs (Regs.emit s1 e) (Regs.emit s2 e) :=
  sameRegs_mk _ _ (sameRegs_regSetBits _ _ h _ _) _ _ _ _

theorem sameRegs_foldl {β : Type} (f : Regs.St → β → Regs.St)
    (hf : ∀ s1 s2 b, SameRegs s1 s2 → SameRegs (f s1 b) (f s2 b)) (l : List β) :
    ∀ s1 s2, SameRegs s1 s2 → SameRegs (l.foldl f s1) (l.foldl f s2) := by
  induction l with
  | nil => intro s1 s2 h; exact h
  | cons b l ih => intro s1 s2 h; exact ih _ _ (hf _ _ b h)

/-- the class-bit loop of `errPush`, for an arbitrary table -/
theorem sameRegs_classFold (code : Int) (l : List (Int × Int × Nat)) (s1 s2 : Regs.St) (h : SameRegs s1 s2) :
    SameRegs
      (l.foldl (fun s (r : Int × Int × Nat) =>
        if code ≤ r.1 ∧ code ≥ r.2.1 then Regs.regSetBits s Regs.ESR (BitVec.ofNat 16 r.2.2) else s) s1)
      (l.foldl (fun s (r : Int × Int × Nat) =>
        if code ≤ r.1 ∧ code ≥ r.2.1 then Regs.regSetBits s Regs.ESR (BitVec.ofNat 16 r.2.2) else s) s2) := by
  apply sameRegs_foldl
  · intro t1 t2 b ht
    exact sameRegs_ite _ _ _ _ _ (fun _ => sameRegs_regSetBits _ _ ht _ _) (fun _ => ht)
  · exact h

theorem errPush_sameRegs (r1 r2 : Regs.St) (h : SameRegs r1 r2) (code : Int) :
    SameRegs (Regs.errPush r1 code) (Regs.errPush r2 code) := by
  obtain ⟨h1, h2, h3⟩ := h
  have hq : SameRegs (if decide (r1.qn ≥ r1.cap) = true then r1 else { r1 with qn := r1.qn + 1 })
      (if decide (r2.qn ≥ r2.cap) = true then r2 else { r2 with qn := r2.qn + 1 }) := by
    rw [show decide (r1.qn ≥ r1.cap) = decide (r2.qn ≥ r2.cap) by rw [h2, h3]]
    exact sameRegs_ite _ _ _ _ _ (fun _ => ⟨h1, h2, h3⟩) (fun _ => ⟨h1, congrArg (· + 1) h2, h3⟩)
  have hf := sameRegs_classFold code Gen.errClassTable _ _ hq
  unfold Regs.errPush
  rw [show decide (r1.qn ≥ r1.cap) = decide (r2.qn ≥ r2.cap) by rw [h2, h3]] at hf ⊢
  apply sameRegs_ite <;> intro _
  · exact sameRegs_emit _ _ (sameRegs_emit _ _ hf _) _
  · exact sameRegs_emit _ _ hf _

/-! ### queue side -/

theorem push_sameQueue (q1 q2 : Fifo.EQ) (h : SameQueue q1 q2) (w : Bool) (code : Int) (info : Option (List UInt8))
    (infoLen : Nat) (ok : Bool) :
    (q1.push w code info infoLen ok).2 = (q2.push w code info infoLen ok).2 ∧
    SameQueue (q1.push w code info infoLen ok).1 (q2.push w code info infoLen ok).1 := by
  obtain ⟨hi1, hi2, hsz, habs⟩ := h
  have r1 := Lemmas.Fifo.step_refines q1.fifo.size w q1 (Fifo.EQ.abs q1) (.push code info infoLen ok)
    ⟨hi1, rfl, rfl⟩
  have r2 := Lemmas.Fifo.step_refines q1.fifo.size w q2 (Fifo.EQ.abs q1) (.push code info infoLen ok)
    ⟨hi2, hsz.symm, habs.symm⟩
  obtain ⟨o1, j1, s1, a1⟩ := r1
  obtain ⟨o2, j2, s2, a2⟩ := r2
  have ho := o1.trans o2.symm
  simp only [Fifo.EQ.step] at ho j1 s1 a1 j2 s2 a2
  refine ⟨Fifo.Obs.pushed.inj ho, j1, j2, s1.trans s2.symm, a1.trans a2.symm⟩

end ScpiVerif.Lemmas.Isolation
