/-
Side conditions of the model's unbounded counters.  The context model counts result items, parameters, announced block
bytes, buffer positions and heap offsets with `Nat` / `Int`; the C structures use fixed-width fields.  The translator
reads width and signedness of each field off the COMPILED structures of the current source (Gen/Tables.lean, `fw_*`).
The statements below say that every such field can hold every value the model's counter takes on the inputs the
properties quantify over (responses and parameter lists of fewer than 2^31 items, blocks below 2^32 bytes, buffers and
heaps below 2^32 bytes, queues of at most 32767 entries).  Narrowing one of the fields in types.h breaks the
corresponding statement on the next run.
-/
import ScpiVerif.Gen.Tables

namespace ScpiVerif.Lemmas.FieldWidths
open ScpiVerif

/-- a signed field of at least `bits` bits -/
def SignedAtLeast (f : Nat × Bool) (bits : Nat) : Prop := f.2 = true ∧ bits ≤ f.1
/-- an unsigned field of at least `bits` bits -/
def UnsignedAtLeast (f : Nat × Bool) (bits : Nat) : Prop := f.2 = false ∧ bits ≤ f.1

instance (f : Nat × Bool) (b : Nat) : Decidable (SignedAtLeast f b) := by unfold SignedAtLeast; exact inferInstance
instance (f : Nat × Bool) (b : Nat) : Decidable (UnsignedAtLeast f b) := by unfold UnsignedAtLeast; exact inferInstance

/-- `context->output_count` (items written by the running unit; negative = response separator pending): the model's `Int`
is exact for every unit with fewer than 2^31 result items -/
theorem output_count : SignedAtLeast Gen.fw_ctx_output_count 32 := by decide
/-- `context->input_count` (parameters read by the running unit) -/
theorem input_count : SignedAtLeast Gen.fw_ctx_input_count 32 := by decide
/-- `context->arbitrary_remaining` (bytes of the announced block still to come): blocks below 2^32 bytes -/
theorem arbitrary_remaining : UnsignedAtLeast Gen.fw_ctx_arbitrary_remaining 32 := by decide
/-- input buffer length and write position -/
theorem buffer_fields : UnsignedAtLeast Gen.fw_ctx_buffer_length 32 ∧ UnsignedAtLeast Gen.fw_ctx_buffer_position 32 := by decide
/-- ring indices of the error queue: 16-bit signed, so the model's ring arithmetic is exact for capacities up to 32767
(the indices stay below the capacity and `index + 1` is computed in `int`) -/
theorem fifo_fields : SignedAtLeast Gen.fw_fifo_wr 16 ∧ SignedAtLeast Gen.fw_fifo_rd 16 ∧ SignedAtLeast Gen.fw_fifo_count 16 ∧
    SignedAtLeast Gen.fw_fifo_size 16 := by decide
/-- offsets of the static error-text heap -/
theorem heap_fields : UnsignedAtLeast Gen.fw_error_info_heap_wr 32 ∧ UnsignedAtLeast Gen.fw_error_info_heap_count 32 ∧
    UnsignedAtLeast Gen.fw_error_info_heap_size 32 := by decide
/-- token lengths, lexer window length and the parameter count of a unit are `int` -/
theorem lexer_fields : SignedAtLeast Gen.fw_token_len 32 ∧ SignedAtLeast Gen.fw_lex_state_len 32 ∧
    SignedAtLeast Gen.fw_parser_state_numberOfParameters 32 := by decide
/-- error codes are 16-bit signed (the model's codes are the values of that type) -/
theorem error_code : Gen.fw_error_error_code = (16, true) := by decide

end ScpiVerif.Lemmas.FieldWidths
