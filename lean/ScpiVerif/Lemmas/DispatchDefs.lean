/-
C02: the definitions the property theorems of Props/C02.lean are stated with (kept in their own
module so that the helper lemmas in Lemmas/Dispatch*.lean can speak about them).
-/
import ScpiVerif.Model.Ctx
import ScpiVerif.Spec.Message

namespace ScpiVerif.Props.C02
open ScpiVerif ScpiVerif.Ctx ScpiVerif.Lexer ScpiVerif.Spec.Message
open ScpiVerif.Spec hiding Expect

/-- the table's patterns belong to the property's grammar and satisfy C03's side condition -/
def TableOK (cmds : List Cmd) (pats : List Pattern.Pat) : Prop :=
  pats.length = cmds.length ∧
  ∀ i (h : i < cmds.length), ∃ p, pats[i]? = some p ∧ Pattern.parsePattern (cmds[i]).pattern = some p ∧ Pattern.wellFormed p.kws = true

/-- no handler script queues -113 itself (so that every -113 in the trace comes from the dispatcher) -/
def NoScript113 (cmds : List Cmd) : Prop :=
  ∀ cmd ∈ cmds, ∀ op ∈ cmd.script, ∀ code info, op = SOp.ePush code info → code ≠ -113

/-- dispatch-level projection of the events produced by one SCPI_Parse: handler entries and -113 errors -/
def dispatchTrace (evs : List Ev) : List Ev :=
  evs.filter (fun e => match e with | .handler .. => true | .error (-113) _ => true | _ => false)

/-- does the event realise the expectation?  A handler event must name the matched entry's tag and carry
exactly the effective header; an undefined header must give a -113 whose text contains the header as written -/
def realises (cmds : List Cmd) (hdrAsWritten : Bytes) : Expect → Ev → Prop
  | .run i eff, .handler tag h => (∃ cmd, cmds[i]? = some cmd ∧ tag = cmd.tag) ∧ h = eff
  | .undefined _, .error (-113) (some text) => ∃ pre post, text = pre ++ hdrAsWritten ++ post
  | _, _ => False

end ScpiVerif.Props.C02
