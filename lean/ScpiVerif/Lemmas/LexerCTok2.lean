/-
Refinement of the hand model ScpiVerif.Lexer by the Lean text GENERATED from libscpi/src/lexer.c, part 3: the recognisers
whose loops are not plain character-class skips (suffix, program headers, strings, expressions).  Same statement as in
Lemmas/LexerCTok.lean:   generated function (st buf n) tok = res buf (hand model buf n)   for ALL buffers, ALL cursors,
ANY previous token content; the new state is CLEAN (no read outside the buffer, no loop out of fuel).

New here: the loop lemma `whileC_jump` for a loop one trip of which, on a clean state at offset `n`, either stops
(condition false: state unchanged), or moves the cursor to `g n > n` and goes on, or moves it to `g n` and returns
(`e n = some r`) - against the generic fuel-recursive model `loopM`, to which the model's `suffixLoop` / `compoundLoop`
are related by `suffixLoop_eq` / `compoundLoop_eq`.
-/
import ScpiVerif.Lemmas.LexerCTok

namespace ScpiVerif.Lemmas.LexerC
open ScpiVerif ScpiVerif.Gen.LexerC

/-! ### loops whose condition is a skipping call -/

/-- generic model loop: `c n` - the condition holds at offset `n`; `g n` - cursor after the trip; `e n` - the body returns;
`upd n` - what the trip does to the loop-carried locals -/
def loopM {L ρ : Type} (c : Nat → Bool) (g : Nat → Nat) (e : Nat → Option ρ) (upd : Nat → L → L) : Nat → Nat → L → Nat × L × Option ρ
  | 0, n, l => (n, l, none)
  | f + 1, n, l =>
    if c n then (match e n with | some r => (g n, upd n l, some r) | none => loopM c g e upd f (g n) (upd n l)) else (n, l, none)

/-- enough fuel: the result does not depend on it (every trip that goes on moves the cursor forward, inside the buffer) -/
theorem loopM_fuel {L ρ : Type} (c : Nat → Bool) (g : Nat → Nat) (e : Nat → Option ρ) (upd : Nat → L → L) (len : Nat)
    (hg : ∀ n, c n = true → n < len ∧ n < g n) :
    ∀ (f1 f2 n : Nat) (l : L), len - n < f1 → len - n < f2 → loopM c g e upd f1 n l = loopM c g e upd f2 n l := by
  intro f1
  induction f1 with
  | zero => intro f2 n l h; omega
  | succ f1 ih =>
    intro f2 n l h1 h2
    cases f2 with
    | zero => omega
    | succ f2 =>
      simp only [loopM]
      cases hc : c n
      · simp
      · have := hg n hc
        simp only [if_true]
        cases e n
        · exact ih f2 (g n) _ (by omega) (by omega)
        · rfl

theorem loopM_ge {L ρ : Type} (c : Nat → Bool) (g : Nat → Nat) (e : Nat → Option ρ) (upd : Nat → L → L)
    (hg : ∀ n, c n = true → n ≤ g n) : ∀ (f n : Nat) (l : L), n ≤ (loopM c g e upd f n l).1 := by
  intro f
  induction f with
  | zero => intro n l; simp [loopM]
  | succ f ih =>
    intro n l
    simp only [loopM]
    cases hc : c n
    · simp
    · have := hg n hc
      simp only [if_true]
      cases e n
      · exact Nat.le_trans this (ih (g n) _)
      · exact this

/-- THE SECOND LOOP LEMMA: see the head of the file. -/
theorem whileC_jump {L ρ : Type} (cond : CLex → L → CLex × Bool) (body : CLex → L → CLex × L × Flow ρ)
    (c : Nat → Bool) (g : Nat → Nat) (e : Nat → Option ρ) (upd : Nat → L → L) (buf : Lexer.Bytes)
    (ht : ∀ n l, tripC cond body (st buf n) l =
      if c n then (match e n with
        | some r => (st buf (g n), upd n l, Flow.ret r)
        | none => (st buf (g n), upd n l, Flow.next)) else (st buf n, l, Flow.brk))
    (hg : ∀ n, c n = true → n < buf.length ∧ n < g n)
    (fuel : Nat) (n : Nat) (l : L) (hf : buf.length - n < fuel) :
    whileC cond body fuel (st buf n) l =
      (st buf (loopM c g e upd fuel n l).1, (loopM c g e upd fuel n l).2.1, (loopM c g e upd fuel n l).2.2) := by
  induction fuel generalizing n l with
  | zero => omega
  | succ fuel ih =>
    rw [whileC_succ, ht n l]
    simp only [loopM]
    cases hc : c n
    · simp
    · have := hg n hc
      simp only [if_true]
      cases he : e n
      · simp only []
        exact ih (g n) (upd n l) (by omega)
      · simp

/-! ### suffix -/

/-- cursor after one trip of the suffix loop that started on a '/' or '.' at offset `n` -/
def suffixStep (buf : Lexer.Bytes) (n : Nat) : Nat :=
  Lexer.skipOne buf (Lexer.skipChr buf (Lexer.skipAlpha buf (n + 1)) 45) Lexer.isDigit

theorem suffixLoop_eq (buf : Lexer.Bytes) (f n : Nat) :
    Lexer.suffixLoop buf f n =
      (loopM (L := Unit) (ρ := Int) (fun n => Lexer.peekP buf n (fun b => b == 47 || b == 46)) (suffixStep buf) (fun _ => none) (fun _ _ => ()) f n ()).1 := by
  induction f generalizing n with
  | zero => rfl
  | succ f ih =>
    simp only [Lexer.suffixLoop, loopM]
    split
    · exact ih _
    · rfl

theorem suffixStep_gt (buf : Lexer.Bytes) (n : Nat) : n < suffixStep buf n := by
  have h1 := skipMany_ge buf (n + 1) Lexer.isAlpha
  have h2 := skipOne_ge buf (Lexer.skipAlpha buf (n + 1)) (· == 45)
  have h3 := skipOne_ge buf (Lexer.skipChr buf (Lexer.skipAlpha buf (n + 1)) 45) Lexer.isDigit
  simp only [suffixStep, Lexer.skipChr, Lexer.skipAlpha] at *
  omega

theorem suffixLoop_ge (buf : Lexer.Bytes) (f n : Nat) : n ≤ Lexer.suffixLoop buf f n := by
  rw [suffixLoop_eq]
  exact loopM_ge _ _ _ _ (fun k _ => Nat.le_of_lt (suffixStep_gt buf k)) f n ()

theorem suffixLoop_len (buf : Lexer.Bytes) (m : Nat) :
    (loopM (L := Unit) (ρ := Int) (fun n => Lexer.peekP buf n (fun b => b == 47 || b == 46)) (suffixStep buf) (fun _ => none)
      (fun _ _ => ()) (buf.length + 1) m ()).1 = Lexer.suffixLoop buf (buf.length - m + 1) m := by
  rw [suffixLoop_eq]
  rw [loopM_fuel _ _ _ _ buf.length (fun k hk => ⟨peekP_lt hk, suffixStep_gt buf k⟩) (buf.length + 1) (buf.length - m + 1) m ()
    (by omega) (by omega)]

theorem scpiLex_SuffixProgramData_ref (buf : Lexer.Bytes) (n : Nat) (tok : CTok) :
    scpiLex_SuffixProgramData (st buf n) tok = res buf (Lexer.lexSuffix buf n) := by
  simp [scpiLex_SuffixProgramData, Lexer.lexSuffix, lexc_ref, one, uc, Lexer.skipChr, Lexer.skipAlpha]
  rw [whileC_jump (c := fun n => Lexer.peekP buf n (fun b => b == 47 || b == 46)) (g := suffixStep buf) (e := fun _ => none)
    (upd := fun _ _ => ()) (buf := buf)]
  case ht =>
    intro m l
    simp [tripC, lexc_ref, one, uc, suffixStep, Lexer.skipChr, Lexer.skipAlpha]
    have hm : (m : Int) + 1 - m = 1 := by omega
    cases hp : Lexer.peekP buf m (fun b => b == 47 || b == 46)
    · have hs : Lexer.skipOne buf m (fun b => b == 47 || b == 46) = m := by simp [Lexer.skipOne, hp]
      simp [hs]
    · have hs : Lexer.skipOne buf m (fun b => b == 47 || b == 46) = m + 1 := by simp [Lexer.skipOne, hp]
      simp [hs, hm]
  case hg => exact fun k hk => ⟨peekP_lt hk, suffixStep_gt buf k⟩
  case hf => omega
  rw [suffixLoop_len]
  have h0 := skipOne_ge buf n (· == 47)
  have h1 := skipMany_ge buf (Lexer.skipOne buf n (· == 47)) Lexer.isAlpha
  generalize Lexer.skipMany buf (Lexer.skipOne buf n (· == 47)) Lexer.isAlpha = p1 at *
  have h2 := skipOne_ge buf p1 (· == 45)
  have h3 := skipOne_ge buf (Lexer.skipOne buf p1 (· == 45)) Lexer.isDigit
  generalize Lexer.skipOne buf (Lexer.skipOne buf p1 (· == 45)) Lexer.isDigit = p3 at *
  have h4 := suffixLoop_ge buf (buf.length - p3 + 1) p3
  generalize Lexer.suffixLoop buf (buf.length - p3 + 1) p3 = p4 at *
  generalize Lexer.skipOne buf n (· == 47) = p0 at *
  simp [res, tk, Lexer.mkTok]
  lexc_close

/-! ### program headers -/

/-- the end-of-input test on a clean state, in the two forms `simp` leaves it in -/
theorem iseos_eq0 (buf : Lexer.Bytes) (m : Nat) : (iseos (st buf m) = 0) = (Lexer.iseos buf m = false) := by
  have := iseos_ref buf m
  cases h : Lexer.iseos buf m <;> simp_all

@[lexc_ref] theorem skipProgramMnemonic_ref (buf : Lexer.Bytes) (n : Nat) :
    skipProgramMnemonic (st buf n) = (st buf (Lexer.skipProgramMnemonic buf n).1, (Lexer.skipProgramMnemonic buf n).2) := by
  have hg := skipMany_ge buf (n + 1) (fun b => Lexer.isAlnum b || b == 95)
  simp only [skipProgramMnemonic, Lexer.skipProgramMnemonic]
  by_cases hlt : n < buf.length
  · simp [iseos_in _ _ hlt, rd_in _ _ hlt, peekP_in _ _ _ hlt, lexc_cls, lexc_ref]
    lexc_loop (fun b => Lexer.isAlnum b || b == 95), buf
    cases ha : Lexer.isAlpha buf[n] <;> simp [iseos_eq0] <;> lexc_close
  · have hge : buf.length ≤ n := Nat.le_of_not_lt hlt
    simp [iseos_out _ _ hge, peekP_out _ _ _ hge, lexc_ref, Lexer.iseos, hge]

theorem iseos_ne0 (buf : Lexer.Bytes) (m : Nat) : (iseos (st buf m) != 0) = Lexer.iseos buf m := iseos_ref buf m

@[lexc_ref] theorem skipCommonProgramHeader_ref (buf : Lexer.Bytes) (n : Nat) :
    skipCommonProgramHeader (st buf n) = (st buf (Lexer.skipCommonProgramHeader buf n).1, (Lexer.skipCommonProgramHeader buf n).2) := by
  simp only [skipCommonProgramHeader, Lexer.skipCommonProgramHeader]
  cases hp : Lexer.peekP buf n (· == 42)
  · have hs : Lexer.skipOne buf n (· == 42) = n := by simp [Lexer.skipOne, hp]
    simp [lexc_ref, one, hs]
  · have hs : Lexer.skipOne buf n (· == 42) = n + 1 := by simp [Lexer.skipOne, hp]
    have hm : (n : Int) + 1 - n = 1 := by omega
    simp [lexc_ref, one, hs, hm, iseos_ne0]
    lexc_close

/-- what the body of the compound loop returns after the mnemonic behind a colon at offset `n` -/
def compoundExit (buf : Lexer.Bytes) (n : Nat) : Option Int :=
  if (Lexer.skipProgramMnemonic buf (n + 1)).2 ≤ -1 then some 1
  else if (Lexer.skipProgramMnemonic buf (n + 1)).2 = 0 then some (-1) else none

theorem skipProgramMnemonic_ge (buf : Lexer.Bytes) (m : Nat) : m ≤ (Lexer.skipProgramMnemonic buf m).1 := by
  have hg := skipMany_ge buf (m + 1) (fun b => Lexer.isAlnum b || b == 95)
  simp only [Lexer.skipProgramMnemonic]
  repeat' split
  all_goals simp
  all_goals omega

theorem compoundLoop_eq (buf : Lexer.Bytes) (f n : Nat) (l : Int) :
    Lexer.compoundLoop buf f n =
      ((loopM (fun n => Lexer.peekP buf n (· == 58)) (fun n => (Lexer.skipProgramMnemonic buf (n + 1)).1) (compoundExit buf)
          (fun n _ => (Lexer.skipProgramMnemonic buf (n + 1)).2) f n l).1,
       match (loopM (fun n => Lexer.peekP buf n (· == 58)) (fun n => (Lexer.skipProgramMnemonic buf (n + 1)).1) (compoundExit buf)
          (fun n _ => (Lexer.skipProgramMnemonic buf (n + 1)).2) f n l).2.2 with
       | some v => v
       | none => 1) := by
  induction f generalizing n l with
  | zero => rfl
  | succ f ih =>
    simp only [Lexer.compoundLoop, loopM, compoundExit]
    by_cases hp : Lexer.peekP buf n (· == 58) = true
    case neg => simp [hp]
    case pos =>
      simp only [hp, if_true]
      by_cases h1 : (Lexer.skipProgramMnemonic buf (n + 1)).2 ≤ -1
      · simp [h1]
      · by_cases h2 : (Lexer.skipProgramMnemonic buf (n + 1)).2 = 0
        · simp [h2]
        · simp [h1, h2]
          exact ih _ _

theorem compound_hg (buf : Lexer.Bytes) (k : Nat) (hk : Lexer.peekP buf k (· == 58) = true) :
    k < buf.length ∧ k < (Lexer.skipProgramMnemonic buf (k + 1)).1 :=
  ⟨peekP_lt hk, skipProgramMnemonic_ge buf (k + 1)⟩

theorem compoundLoop_len (buf : Lexer.Bytes) (m : Nat) (l : Int) :
    Lexer.compoundLoop buf (buf.length - m + 1) m =
      ((loopM (fun n => Lexer.peekP buf n (· == 58)) (fun n => (Lexer.skipProgramMnemonic buf (n + 1)).1) (compoundExit buf)
          (fun n _ => (Lexer.skipProgramMnemonic buf (n + 1)).2) (buf.length + 1) m l).1,
       match (loopM (fun n => Lexer.peekP buf n (· == 58)) (fun n => (Lexer.skipProgramMnemonic buf (n + 1)).1) (compoundExit buf)
          (fun n _ => (Lexer.skipProgramMnemonic buf (n + 1)).2) (buf.length + 1) m l).2.2 with
       | some v => v
       | none => 1) := by
  rw [compoundLoop_eq buf _ m l]
  rw [loopM_fuel _ _ _ _ buf.length (compound_hg buf) (buf.length + 1) (buf.length - m + 1) m l (by omega) (by omega)]

@[lexc_ref] theorem skipCompoundProgramHeader_ref (buf : Lexer.Bytes) (n : Nat) :
    skipCompoundProgramHeader (st buf n) =
      (st buf (Lexer.skipCompoundProgramHeader buf n).1, (Lexer.skipCompoundProgramHeader buf n).2) := by
  simp [skipCompoundProgramHeader, Lexer.skipCompoundProgramHeader, lexc_ref, one, Lexer.skipChr]
  rw [whileC_jump (c := fun n => Lexer.peekP buf n (· == 58)) (g := fun n => (Lexer.skipProgramMnemonic buf (n + 1)).1)
    (e := compoundExit buf) (upd := fun n _ => (Lexer.skipProgramMnemonic buf (n + 1)).2) (buf := buf)]
  case ht =>
    intro m l
    simp [tripC, lexc_ref, one, compoundExit]
    have hm : (m : Int) + 1 - m = 1 := by omega
    cases hp : Lexer.peekP buf m (· == 58)
    · have hs : Lexer.skipOne buf m (· == 58) = m := by simp [Lexer.skipOne, hp]
      simp [hs]
    · have hs : Lexer.skipOne buf m (· == 58) = m + 1 := by simp [Lexer.skipOne, hp]
      simp [hs, hm]
      repeat' split
      all_goals simp_all
  case hg => exact compound_hg buf
  case hf => omega
  have h0 := skipOne_ge buf n (· == 58)
  generalize Lexer.skipOne buf n (· == 58) = p0 at *
  rw [compoundLoop_len buf _ (Lexer.skipProgramMnemonic buf p0).2]
  generalize Lexer.skipProgramMnemonic buf p0 = pm
  generalize loopM _ _ _ _ _ _ _ = r
  rcases r with ⟨a, b, _ | v⟩ <;> simp <;> lexc_close

theorem scpiLex_ProgramHeader_ref (buf : Lexer.Bytes) (n : Nat) (tok : CTok) :
    scpiLex_ProgramHeader (st buf n) tok = res buf (Lexer.lexProgramHeader buf n) := by
  simp [scpiLex_ProgramHeader, Lexer.lexProgramHeader, lexc_ref, one, res, tk, Lexer.mkTok, Lexer.skipChr, uc]
  generalize Lexer.skipCommonProgramHeader buf n = r1
  generalize Lexer.skipCompoundProgramHeader buf r1.1 = r2
  have h1 := skipOne_ge buf r1.1 (· == 63)
  have h2 := skipOne_ge buf r2.1 (· == 63)
  generalize Lexer.skipOne buf r1.1 (· == 63) = q1 at *
  generalize Lexer.skipOne buf r2.1 (· == 63) = q2 at *
  rcases r1 with ⟨a1, v1⟩
  rcases r2 with ⟨a2, v2⟩
  simp at *
  lexc_close

/-! ### expression -/

theorem scpiLex_ProgramExpression_ref (buf : Lexer.Bytes) (n : Nat) (tok : CTok) :
    scpiLex_ProgramExpression (st buf n) tok = res buf (Lexer.lexExpression buf n) := by
  have hg := skipMany_ge buf (n + 1) Lexer.isProgramExpression
  simp only [scpiLex_ProgramExpression, Lexer.lexExpression]
  by_cases hlt : n < buf.length
  · by_cases hlt1 : Lexer.skipMany buf (n + 1) Lexer.isProgramExpression < buf.length
    · simp [iseos_in _ _ hlt, ischr_in _ _ _ hlt, peekP_in _ _ _ hlt, iseos_in _ _ hlt1, ischr_in _ _ _ hlt1, peekP_in _ _ _ hlt1,
        lexc_cls, lexc_ref, uc, res, tk, Lexer.mkTok]
      lexc_close
    · have hge1 := Nat.le_of_not_lt hlt1
      simp [iseos_in _ _ hlt, ischr_in _ _ _ hlt, peekP_in _ _ _ hlt, iseos_out _ _ hge1, peekP_out _ _ _ hge1,
        lexc_cls, lexc_ref, uc, res, tk, Lexer.mkTok]
      lexc_close
  · have hge : buf.length ≤ n := Nat.le_of_not_lt hlt
    simp [iseos_out _ _ hge, peekP_out _ _ _ hge, lexc_ref, res, tk, Lexer.mkTok]

/-! ### strings -/

/-- the quote loop goes on at offset `n`: an ordinary 7-bit character, or a doubled quote -/
def quoteGo (buf : Lexer.Bytes) (q : UInt8) (n : Nat) : Bool :=
  match buf[n]? with
  | none => false
  | some b => (Lexer.isAscii7 b && b != q) || (b == q && Lexer.peekP buf (n + 1) (· == q))

def quoteStep (buf : Lexer.Bytes) (q : UInt8) (n : Nat) : Nat :=
  match buf[n]? with
  | none => n + 1
  | some b => if Lexer.isAscii7 b && b != q then n + 1 else n + 2

theorem skipQuote_eq (buf : Lexer.Bytes) (q : UInt8) (f n : Nat) :
    Lexer.skipQuote buf q f n =
      (loopM (L := Unit) (ρ := Unit) (quoteGo buf q) (quoteStep buf q) (fun _ => none) (fun _ _ => ()) f n ()).1 := by
  induction f generalizing n with
  | zero => rfl
  | succ f ih =>
    simp only [Lexer.skipQuote, loopM, quoteGo, quoteStep]
    by_cases hlt : n < buf.length
    · simp only [List.getElem?_eq_getElem hlt]
      by_cases h1 : (Lexer.isAscii7 buf[n] && buf[n] != q) = true
      · simp [h1, ih]
      · by_cases h2 : (buf[n] == q) = true
        · by_cases h3 : Lexer.peekP buf (n + 1) (· == q) = true
          · simp [h1, h2, h3, ih]
          · simp [h1, h2, h3]
        · simp [h1, h2]
    · simp [List.getElem?_eq_none (Nat.le_of_not_lt hlt)]

theorem quote_hg (buf : Lexer.Bytes) (q : UInt8) (k : Nat) (hk : quoteGo buf q k = true) : k < buf.length ∧ k < quoteStep buf q k := by
  simp only [quoteGo, quoteStep] at *
  cases hb : buf[k]? with
  | none => simp [hb] at hk
  | some b =>
    have : k < buf.length := by
      by_cases h : k < buf.length
      · exact h
      · simp [List.getElem?_eq_none (Nat.le_of_not_lt h)] at hb
    refine ⟨this, ?_⟩
    simp only []
    split <;> omega

theorem skipQuote_ge (buf : Lexer.Bytes) (q : UInt8) (f m : Nat) : m ≤ Lexer.skipQuote buf q f m := by
  rw [skipQuote_eq]
  exact loopM_ge _ _ _ _ (fun k hk => Nat.le_of_lt (quote_hg buf q k hk).2) f m ()

set_option linter.unusedSimpArgs false in
@[lexc_ref] theorem skipQuoteProgramData_ref (buf : Lexer.Bytes) (n : Nat) (k : Int) (h1 : -128 ≤ k) (h2 : k ≤ 127) :
    skipQuoteProgramData (st buf n) k = st buf (Lexer.skipQuote buf (uc k) (buf.length - n + 1) n) := by
  simp only [skipQuoteProgramData, st_buf]
  rw [whileC_jump (c := quoteGo buf (uc k)) (g := quoteStep buf (uc k)) (e := fun _ => none) (upd := fun _ _ => ()) (buf := buf)]
  case ht =>
    intro m l
    simp only [tripC, quoteGo, quoteStep]
    by_cases hlt : m < buf.length
    · by_cases hlt1 : m + 1 < buf.length
      · cases ha : Lexer.isAscii7 buf[m] <;> by_cases hq : buf[m] = uc k <;>
          simp [iseos_in _ _ hlt, rd_in _ _ hlt, ischr_in _ _ _ hlt, iseos_in _ _ hlt1, iseos_in0 _ _ hlt1, ischr_in _ _ _ hlt1,
            peekP_in _ _ _ hlt1, lexc_cls, h1, h2, ha, hq, hlt, mk_st, mk_st_succ, mk_st_succ2]
      · have hge1 := Nat.le_of_not_lt hlt1
        cases ha : Lexer.isAscii7 buf[m] <;> by_cases hq : buf[m] = uc k <;>
          simp [iseos_in _ _ hlt, rd_in _ _ hlt, ischr_in _ _ _ hlt, iseos_out _ _ hge1, iseos_out0 _ _ hge1, peekP_out _ _ _ hge1,
            lexc_cls, h1, h2, ha, hq, hlt, mk_st, mk_st_succ, mk_st_succ2]
    · have hge : buf.length ≤ m := Nat.le_of_not_lt hlt
      simp [iseos_out _ _ hge, List.getElem?_eq_none hge]
  case hg => exact quote_hg buf (uc k)
  case hf => omega
  rw [skipQuote_eq, loopM_fuel _ _ _ _ buf.length (quote_hg buf (uc k)) (buf.length - n + 1) (buf.length + 1) n () (by omega) (by omega)]

set_option linter.unusedSimpArgs false in
theorem scpiLex_StringProgramData_ref (buf : Lexer.Bytes) (n : Nat) (tok : CTok) :
    scpiLex_StringProgramData (st buf n) tok = res buf (Lexer.lexString buf n) := by
  simp only [scpiLex_StringProgramData, Lexer.lexString, skipDoubleQuoteProgramData, skipSingleQuoteProgramData]
  by_cases hlt : n < buf.length
  · have hf : buf.length - (n + 1) + 1 = buf.length - n := by omega
    by_cases hd : buf[n] = 34
    ·
      have hg := skipQuote_ge buf 34 (buf.length - n) (n + 1)
      by_cases hlt1 : Lexer.skipQuote buf 34 (buf.length - n) (n + 1) < buf.length
      · simp [iseos_in _ _ hlt, iseos_in0 _ _ hlt, ischr_in _ _ _ hlt, peekP_in _ _ _ hlt, lexc_cls, lexc_ref, uc, hf, hd,
          iseos_in _ _ hlt1, iseos_in0 _ _ hlt1, ischr_in _ _ _ hlt1, peekP_in _ _ _ hlt1, res, tk, Lexer.mkTok]
        lexc_close
      · have hge1 := Nat.le_of_not_lt hlt1
        simp [iseos_in _ _ hlt, iseos_in0 _ _ hlt, ischr_in _ _ _ hlt, peekP_in _ _ _ hlt, lexc_cls, lexc_ref, uc, hf, hd,
          iseos_out _ _ hge1, iseos_out0 _ _ hge1, peekP_out _ _ _ hge1, res, tk, Lexer.mkTok]
        try lexc_close
    · by_cases hs : buf[n] = 39
      ·
        have hg := skipQuote_ge buf 39 (buf.length - n) (n + 1)
        by_cases hlt1 : Lexer.skipQuote buf 39 (buf.length - n) (n + 1) < buf.length
        · simp [iseos_in _ _ hlt, iseos_in0 _ _ hlt, ischr_in _ _ _ hlt, peekP_in _ _ _ hlt, lexc_cls, lexc_ref, uc, hf, hd, hs,
            iseos_in _ _ hlt1, iseos_in0 _ _ hlt1, ischr_in _ _ _ hlt1, peekP_in _ _ _ hlt1, res, tk, Lexer.mkTok]
          lexc_close
        · have hge1 := Nat.le_of_not_lt hlt1
          simp [iseos_in _ _ hlt, iseos_in0 _ _ hlt, ischr_in _ _ _ hlt, peekP_in _ _ _ hlt, lexc_cls, lexc_ref, uc, hf, hd, hs,
            iseos_out _ _ hge1, iseos_out0 _ _ hge1, peekP_out _ _ _ hge1, res, tk, Lexer.mkTok]
          try lexc_close
      · simp [iseos_in _ _ hlt, iseos_in0 _ _ hlt, ischr_in _ _ _ hlt, peekP_in _ _ _ hlt, lexc_cls, lexc_ref, uc, hd, hs, res, tk, Lexer.mkTok]
        try lexc_close
  · have hge : buf.length ≤ n := Nat.le_of_not_lt hlt
    simp [iseos_out _ _ hge, iseos_out0 _ _ hge, peekP_out _ _ _ hge, lexc_ref, res, tk, Lexer.mkTok]

/-! ### arbitrary block -/

/-- value of the digit at offset `n` as the model's `blockDigits` adds it -/
def digAt (buf : Lexer.Bytes) (n : Nat) : Nat :=
  match buf[n]? with
  | some b => b.toNat - 48
  | none => 0

theorem sc_digit (b : UInt8) (h : Lexer.isDigit b = true) : sc b - 48 = ((b.toNat - 48 : Nat) : Int) := by
  have hh : ∀ n : Fin 256, Lexer.isDigit (UInt8.ofNat n.val) = true →
      sc (UInt8.ofNat n.val) - 48 = (((UInt8.ofNat n.val).toNat - 48 : Nat) : Int) := by decide +kernel
  have := hh ⟨b.toNat, UInt8.toNat_lt b⟩
  simpa [h] using this

/-- THE THIRD LOOP LEMMA: the counted digit loop `for (; i > 0; i--)` of the block recogniser (locals: the length read so
far and the number of digits still expected) against the model's `blockDigits`. -/
theorem whileC_block {ρ : Type} (cond : CLex → Int × Int → CLex × Bool) (body : CLex → Int × Int → CLex × (Int × Int) × Flow ρ)
    (buf : Lexer.Bytes)
    (ht : ∀ n (a i : Int), tripC cond body (st buf n) (a, i) =
      if i > 0 ∧ Lexer.peekP buf n Lexer.isDigit = true then (st buf (n + 1), (a * 10 + (digAt buf n : Int), i - 1), Flow.next)
      else (st buf n, (a, i), Flow.brk)) :
    ∀ (fuel i n acc : Nat) (a j : Int), a = (acc : Int) → j = (i : Int) → buf.length - n < fuel →
      whileC cond body fuel (st buf n) (a, j) =
        (st buf (Lexer.blockDigits buf i n acc).1,
          ((((Lexer.blockDigits buf i n acc).2.2 : Nat) : Int), (((Lexer.blockDigits buf i n acc).2.1 : Nat) : Int)), none) := by
  intro fuel
  induction fuel with
  | zero => intro i n acc a j _ _ h; omega
  | succ fuel ih =>
    intro i n acc a j ha hj hf
    subst ha hj
    rw [whileC_succ, ht]
    cases i with
    | zero => simp [Lexer.blockDigits]
    | succ i =>
      by_cases hp : Lexer.peekP buf n Lexer.isDigit = true
      · have hlt := peekP_lt hp
        have hi : ((i + 1 : Nat) : Int) > 0 := by omega
        have hd : Lexer.isDigit buf[n] = true := by rw [← peekP_in buf n Lexer.isDigit hlt]; exact hp
        simp only [hi, hp, and_self, if_true]
        rw [ih i (n + 1) (acc * 10 + (buf[n].toNat - 48)) _ _ (by simp [digAt, hlt]) (by omega) (by omega)]
        simp [Lexer.blockDigits, hlt, hd]
      · have hb : Lexer.blockDigits buf (i + 1) n acc = (n, i + 1, acc) := by
          simp only [Lexer.blockDigits]
          by_cases hlt : n < buf.length
          · have hd : Lexer.isDigit buf[n] = false := by
              rw [← peekP_in buf n Lexer.isDigit hlt]; simpa using hp
            simp [hlt, hd]
          · simp [List.getElem?_eq_none (Nat.le_of_not_lt hlt)]
        simp [hp, hb]

theorem blockDigits_ge (buf : Lexer.Bytes) : ∀ (i n acc : Nat), n ≤ (Lexer.blockDigits buf i n acc).1 := by
  intro i
  induction i with
  | zero => intro n acc; simp [Lexer.blockDigits]
  | succ i ih =>
    intro n acc
    simp only [Lexer.blockDigits]
    split
    · split
      · exact Nat.le_trans (Nat.le_succ n) (ih _ _)
      · simp
    · simp

set_option linter.unusedSimpArgs false in
theorem scpiLex_ArbitraryBlockProgramData_ref (buf : Lexer.Bytes) (n : Nat) (tok : CTok) :
    scpiLex_ArbitraryBlockProgramData (st buf n) tok = res buf (Lexer.lexBlock buf n) := by
  by_cases hp : Lexer.peekP buf n (· == 35) = true
  case neg =>
    have hs : Lexer.skipOne buf n (· == 35) = n := by simp [Lexer.skipOne, hp]
    simp [scpiLex_ArbitraryBlockProgramData, Lexer.lexBlock, hp, lexc_ref, one, uc, hs, res, tk, Lexer.mkTok]
  case pos =>
    simp only [scpiLex_ArbitraryBlockProgramData, Lexer.lexBlock, hp, if_true]
    have hs : Lexer.skipOne buf n (· == 35) = n + 1 := by simp [Lexer.skipOne, hp]
    have hm : (n : Int) + 1 - n = 1 := by omega
    have hlt := peekP_lt hp
    by_cases hlt1 : n + 1 < buf.length
    · by_cases hd : (Lexer.isDigit buf[n + 1] && buf[n + 1] != 48) = true
      · have hdig : Lexer.isDigit buf[n + 1] = true := by simp at hd; exact hd.1
        have hne : buf[n + 1] ≠ 48 := by simp at hd; exact hd.2
        simp [lexc_ref, one, uc, hs, hm, iseos_in _ _ hlt1, iseos_in0 _ _ hlt1, rd_in _ _ hlt1, lexc_cls, hd, hdig, hlt1, hne,
          sc_digit _ hdig]
        rw [whileC_block _ _ buf ?ht (buf.length + 1) (buf[n + 1].toNat - 48) (n + 1 + 1) 0 0 _ (by simp) rfl (by omega)]
        case ht =>
          intro m a i
          simp only [tripC]
          by_cases hi : i > 0
          · by_cases hltm : m < buf.length
            · by_cases hdm : Lexer.isDigit buf[m] = true
              · simp [hi, iseos_in _ _ hltm, iseos_in0 _ _ hltm, rd_in _ _ hltm, peekP_in _ _ _ hltm, lexc_cls, hdm, digAt, hltm,
                  sc_digit _ hdm, mk_st_succ]
              · simp [hi, iseos_in _ _ hltm, iseos_in0 _ _ hltm, rd_in _ _ hltm, peekP_in _ _ _ hltm, lexc_cls, hdm]
            · have hgem := Nat.le_of_not_lt hltm
              simp [hi, iseos_out _ _ hgem, iseos_out0 _ _ hgem, peekP_out _ _ _ hgem]
          · simp [hi]
        have hge := blockDigits_ge buf (buf[n + 1].toNat - 48) (n + 1 + 1) 0
        generalize Lexer.blockDigits buf (buf[n + 1].toNat - 48) (n + 1 + 1) 0 = r at *
        rcases r with ⟨p2, irem, blen⟩
        simp [iseos_eq0, mk_st_add, res, tk, Lexer.mkTok, Lexer.iseos, hlt1, hd, hdig, hne] at *
        by_cases hfit : p2 + blen ≤ buf.length
        · have hfit' : (p2 : Int) + (blen : Int) ≤ (buf.length : Int) := by omega
          simp [hfit, hfit']
          lexc_close
        · have hfit' : ¬ ((p2 : Int) + (blen : Int) ≤ (buf.length : Int)) := by omega
          simp [hfit, hfit']
          lexc_close
      · simp [lexc_ref, one, uc, hs, hm, iseos_in _ _ hlt1, iseos_in0 _ _ hlt1, rd_in _ _ hlt1, lexc_cls, hd, hlt1,
          res, tk, Lexer.mkTok]
        try lexc_close
    · have hge1 := Nat.le_of_not_lt hlt1
      simp [lexc_ref, one, uc, hs, hm, iseos_out _ _ hge1, iseos_out0 _ _ hge1, List.getElem?_eq_none hge1,
        res, tk, Lexer.mkTok]
      try lexc_close

end ScpiVerif.Lemmas.LexerC
