/-
Helper lemmas for C18 (error query response): the model `Result.resultError` of SCPI_ResultError
writes exactly `Spec.ErrorString.response`.

Only the fields `written` and `outputCount` of `Result.Out` are mentioned (no ghost state).
-/
import ScpiVerif.Model.Result
import ScpiVerif.Spec.ErrorString
import ScpiVerif.Lemmas.IntFmt

namespace ScpiVerif.Lemmas.ErrorString
open ScpiVerif ScpiVerif.Lexer ScpiVerif.Result ScpiVerif.Spec.ErrorString

/-! ### escape -/

theorem escape_nil : escape [] = [] := rfl

theorem escape_cons (b : UInt8) (d : Bytes) :
    escape (b :: d) = (if b == 34 then [34, 34] else [b]) ++ escape d := by
  simp [escape]

theorem escape_append (a b : Bytes) : escape (a ++ b) = escape a ++ escape b := by
  simp [escape]

theorem escape_noquote : ∀ (d : Bytes), (∀ b ∈ d, b ≠ 34) → escape d = d
  | [], _ => rfl
  | b :: d, h => by
    have hb : b ≠ 34 := h b (by simp)
    have := escape_noquote d (fun x hx => h x (by simp [hx]))
    simp [escape_cons, hb, this]

theorem escape_injective : ∀ (a b : Bytes), escape a = escape b → a = b
  | [], [], _ => rfl
  | [], y :: b, h => by
    rw [escape_nil, escape_cons] at h
    split at h <;> simp at h
  | x :: a, [], h => by
    rw [escape_nil, escape_cons] at h
    split at h <;> simp at h
  | x :: a, y :: b, h => by
    rw [escape_cons, escape_cons] at h
    by_cases hx : x = 34 <;> by_cases hy : y = 34
    · subst hx; subst hy
      simp at h
      rw [escape_injective a b h]
    · subst hx
      simp [hy] at h
      exact absurd h.1.symm hy
    · subst hy
      simp [hx] at h
    · simp [hx, hy] at h
      rw [h.1, escape_injective a b h.2]

/-! ### cut: a structurally recursive form without accumulator -/

def cost (b : UInt8) : Nat := if b == 34 then 2 else 1

theorem cost_pos (b : UInt8) : 1 ≤ cost b := by unfold cost; split <;> omega

theorem cost_noquote {b : UInt8} (h : b ≠ 34) : cost b = 1 := by simp [cost, h]

theorem cost_quote : cost 34 = 2 := rfl

theorem escape_cons_length (b : UInt8) (d : Bytes) :
    (escape (b :: d)).length = cost b + (escape d).length := by
  rw [escape_cons, List.length_append, cost]; split <;> simp

def cutR : Bytes → Nat → Bytes
  | [], _ => []
  | b :: rest, room => if cost b ≤ room then b :: cutR rest (room - cost b) else []

theorem cutR_nil (room : Nat) : cutR [] room = [] := rfl

theorem cutR_cons_pos {b : UInt8} {room : Nat} (h : cost b ≤ room) (rest : Bytes) :
    cutR (b :: rest) room = b :: cutR rest (room - cost b) := by simp [cutR, h]

theorem cutR_cons_neg {b : UInt8} {room : Nat} (h : ¬ cost b ≤ room) (rest : Bytes) :
    cutR (b :: rest) room = [] := by simp [cutR, h]

theorem cut_go_eq : ∀ (rest : List UInt8) (room : Nat) (acc : Bytes),
    cut.go rest room acc = acc.reverse ++ cutR rest room
  | [], room, acc => by simp [cut.go, cutR]
  | b :: rest, room, acc => by
    by_cases hc : cost b ≤ room
    · have hc' := hc
      unfold cost at hc'
      rw [cutR_cons_pos hc]
      simp only [cut.go, if_pos hc']
      rw [cut_go_eq rest _ (b :: acc)]; simp [cost]
    · have hc' := hc
      unfold cost at hc'
      rw [cutR_cons_neg hc]
      simp only [cut.go, if_neg hc']
      simp

theorem cut_eq (d : Bytes) (lim : Nat) : cut d lim = cutR d lim := by
  simp [cut, cut_go_eq]

theorem cutR_zero (d : Bytes) : cutR d 0 = [] := by
  cases d with
  | nil => rfl
  | cons b d => exact cutR_cons_neg (by have := cost_pos b; omega) d

theorem cutR_prefix : ∀ (d : Bytes) (lim : Nat), cutR d lim <+: d
  | [], _ => by simp [cutR]
  | b :: d, lim => by
    by_cases hc : cost b ≤ lim
    · rw [cutR_cons_pos hc]
      exact List.prefix_cons_inj b |>.mpr (cutR_prefix d _)
    · rw [cutR_cons_neg hc]
      exact List.nil_prefix

theorem cutR_length_le (d : Bytes) (lim : Nat) : (cutR d lim).length ≤ d.length :=
  (cutR_prefix d lim).length_le

theorem escape_cutR_length : ∀ (d : Bytes) (lim : Nat), (escape (cutR d lim)).length ≤ lim
  | [], _ => by simp [cutR, escape_nil]
  | b :: d, lim => by
    by_cases hc : cost b ≤ lim
    · rw [cutR_cons_pos hc, escape_cons_length]
      have := escape_cutR_length d (lim - cost b)
      omega
    · rw [cutR_cons_neg hc]; simp [escape_nil]

theorem cutR_maximal : ∀ (d : Bytes) (lim : Nat), (cutR d lim).length < d.length →
    (escape (d.take ((cutR d lim).length + 1))).length > lim
  | [], _, h => by simp at h
  | b :: d, lim, h => by
    by_cases hc : cost b ≤ lim
    · rw [cutR_cons_pos hc] at h ⊢
      have := cutR_maximal d (lim - cost b) (by simpa using h)
      rw [List.length_cons, List.take_succ_cons, escape_cons_length]
      omega
    · rw [cutR_cons_neg hc]
      rw [List.length_nil, Nat.zero_add, List.take_succ_cons, List.take_zero, escape_cons_length,
        escape_nil, List.length_nil]
      omega

/-- bytes without a quote cost one each -/
theorem cutR_append_noquote : ∀ (pre r : Bytes) (lim : Nat), (∀ b ∈ pre, b ≠ 34) → pre.length ≤ lim →
    cutR (pre ++ r) lim = pre ++ cutR r (lim - pre.length)
  | [], r, lim, _, _ => by simp
  | b :: pre, r, lim, h, hl => by
    have hb : cost b = 1 := cost_noquote (h b (by simp))
    rw [List.length_cons] at hl
    have ih := cutR_append_noquote pre r (lim - 1) (fun x hx => h x (by simp [hx])) (by omega)
    rw [List.cons_append, cutR_cons_pos (by omega), hb, ih, List.length_cons, List.cons_append,
      Nat.sub_sub, Nat.add_comm]

theorem cutR_noquote : ∀ (d : Bytes) (lim : Nat), (∀ b ∈ d.take lim, b ≠ 34) → cutR d lim = d.take lim
  | [], _, _ => by simp [cutR]
  | b :: d, 0, _ => by simp [cutR_zero]
  | b :: d, lim+1, h => by
    have hb : cost b = 1 := cost_noquote (h b (by simp))
    have ih := cutR_noquote d lim (fun x hx => h x (by simp [hx]))
    rw [cutR_cons_pos (by omega), hb, List.take_succ_cons, Nat.add_sub_cancel, ih]

theorem cutR_quote_pos {lim : Nat} (h : 2 ≤ lim) (post : Bytes) :
    cutR (34 :: post) lim = 34 :: cutR post (lim - 2) := cutR_cons_pos (by rw [cost_quote]; exact h) post

theorem cutR_quote_neg {lim : Nat} (h : lim < 2) (post : Bytes) :
    cutR (34 :: post) lim = [] := cutR_cons_neg (by rw [cost_quote]; omega) post

/-- `cut` over a concatenation: continue in the second part with what is left iff the first part fitted -/
theorem cutR_append : ∀ (d e : Bytes) (lim : Nat),
    cutR (d ++ e) lim = if cutR d lim = d then d ++ cutR e (lim - (escape d).length) else cutR d lim
  | [], e, lim => by simp [cutR, escape_nil]
  | b :: d, e, lim => by
    by_cases hc : cost b ≤ lim
    · rw [List.cons_append, cutR_cons_pos hc, cutR_cons_pos hc, cutR_append d e, escape_cons_length]
      by_cases hd : cutR d (lim - cost b) = d
      · rw [if_pos hd, if_pos (by rw [hd]), Nat.sub_add_eq, List.cons_append]
      · rw [if_neg hd, if_neg (by simpa using hd)]
    · rw [List.cons_append, cutR_cons_neg hc, cutR_cons_neg hc, if_neg (by simp)]

/-! ### response_shape -/

theorem response_shape (code : Int) (desc : Bytes) (text : Option Bytes) :
    let full := desc ++ (match text with | some t => [59] ++ t | none => [])
    let c := cut full 255
    response code desc text = signedDecimal code ++ [44, 34] ++ escape c ++ [34] ∧
    c = full.take c.length ∧ (escape c).length ≤ 255 ∧
    (c.length < full.length → (escape (full.take (c.length + 1))).length > 255) := by
  intro full c
  refine ⟨rfl, ?_, ?_, ?_⟩
  · exact List.prefix_iff_eq_take.mp (by simp only [c, cut_eq]; exact cutR_prefix _ _)
  · simp only [c, cut_eq]; exact escape_cutR_length _ _
  · simp only [c, cut_eq]; exact cutR_maximal _ _

/-! ### the output state: only `written` and `outputCount` -/

theorem writeData_written (o : Out) (d : Bytes) : (writeData o d).written = o.written ++ d := rfl
theorem writeData_count (o : Out) (d : Bytes) : (writeData o d).outputCount = o.outputCount := rfl
theorem bump_written (o : Out) : (bump o).written = o.written := rfl
theorem bump_count (o : Out) : (bump o).outputCount = o.outputCount + 1 := rfl

theorem writeDelimiter_zero (o : Out) (h : o.outputCount = 0) :
    (writeDelimiter o).written = o.written ∧ (writeDelimiter o).outputCount = 0 := by
  simp [writeDelimiter, h]

theorem writeDelimiter_pos (o : Out) (h : o.outputCount > 0) :
    (writeDelimiter o).written = o.written ++ [44] ∧ (writeDelimiter o).outputCount = o.outputCount := by
  simp [writeDelimiter, h, writeSep]

/-! ### quotePos -/

theorem all_ne_zero {d : Bytes} (h : d.all (· ≠ 0) = true) : ∀ b ∈ d, b ≠ 0 := by
  simpa using h

theorem takeWhile_all {α} (p : α → Bool) : ∀ (l : List α), (∀ b ∈ l, p b = true) → l.takeWhile p = l
  | [], _ => rfl
  | x :: l, h => by
    rw [List.takeWhile_cons, if_pos (h x (by simp)), takeWhile_all p l (fun b hb => h b (by simp [hb]))]

theorem takeWhile_split {α} (p : α → Bool) : ∀ (l : List α),
    ((∀ b ∈ l, p b = true) ∧ l.takeWhile p = l) ∨
    ∃ pre x post, l = pre ++ x :: post ∧ p x = false ∧ (∀ b ∈ pre, p b = true) ∧ l.takeWhile p = pre
  | [] => Or.inl ⟨by simp, rfl⟩
  | x :: l => by
    by_cases hx : p x = true
    · rcases takeWhile_split p l with ⟨h1, h2⟩ | ⟨pre, y, post, h1, h2, h3, h4⟩
      · left
        exact ⟨by intro b hb; rcases List.mem_cons.mp hb with rfl | hb; exact hx; exact h1 b hb,
          by rw [List.takeWhile_cons, if_pos hx, h2]⟩
      · right
        refine ⟨x :: pre, y, post, by rw [h1]; rfl, h2, ?_, by rw [List.takeWhile_cons, if_pos hx, h4]⟩
        intro b hb; rcases List.mem_cons.mp hb with rfl | hb; exact hx; exact h3 b hb
    · right
      exact ⟨[], x, l, rfl, by simpa using hx, by simp, by rw [List.takeWhile_cons, if_neg hx]⟩

theorem quotePos_none {d : Bytes} {len : Nat} (hd : ∀ b ∈ d, b ≠ 0) (h : quotePos d len = none) :
    ∀ b ∈ d.take len, b ≠ 34 := by
  have hs : (d.take len).takeWhile (· ≠ 0) = d.take len :=
    takeWhile_all _ _ (fun b hb => by simpa using hd b (List.mem_of_mem_take hb))
  simp only [quotePos, hs] at h
  rcases takeWhile_split (fun b : UInt8 => decide (b ≠ 34)) (d.take len) with ⟨h1, _⟩ | ⟨pre, x, post, h1, _, _, h4⟩
  · intro b hb; simpa using h1 b hb
  · rw [h4] at h
    rw [if_pos (by rw [h1]; simp)] at h
    cases h

theorem quotePos_some {d : Bytes} {len q : Nat} (hd : ∀ b ∈ d, b ≠ 0) (h : quotePos d len = some q) :
    ∃ pre post, d = pre ++ 34 :: post ∧ pre.length = q ∧ (∀ b ∈ pre, b ≠ 34) ∧ q < len := by
  have hs : (d.take len).takeWhile (· ≠ 0) = d.take len :=
    takeWhile_all _ _ (fun b hb => by simpa using hd b (List.mem_of_mem_take hb))
  simp only [quotePos, hs] at h
  rcases takeWhile_split (fun b : UInt8 => decide (b ≠ 34)) (d.take len) with ⟨_, h2⟩ | ⟨pre, x, post, h1, h2, h3, h4⟩
  · rw [h2] at h; simp at h
  · rw [h4] at h
    rw [if_pos (by rw [h1]; simp)] at h
    injection h with h
    have hx : x = 34 := by simpa using h2
    refine ⟨pre, post ++ d.drop len, ?_, h, fun b hb => by simpa using h3 b hb, ?_⟩
    · conv => lhs; rw [← List.take_append_drop len d, h1, hx]
      simp
    · have := List.length_take_le len d
      rw [h1, List.length_append, List.length_cons] at this
      omega

/-! ### the loops -/

theorem take_pre (pre post : List UInt8) (x : UInt8) :
    (pre ++ x :: post).take (pre.length + 1) = pre ++ [x] := by
  rw [List.take_append, List.take_of_length_le (by omega)]
  simp

theorem drop_pre (pre post : List UInt8) (x : UInt8) : (pre ++ x :: post).drop (pre.length + 1) = post := by
  rw [List.drop_append, List.drop_of_length_le (by omega)]
  simp

theorem clip_eq_min (len lim : Nat) : (if len > lim then lim else len) = min len lim := by
  split <;> omega

/-- one part: with `len = min d.length lim` (invariant of the C loop) the bytes written by the inner loop
and the final `writeData(data, len)` are `escape (cut d lim)`; the budget that is left is what `cut`
has left if all of `d` fitted and 0 otherwise (also in the `break` case, where one character is free) -/
theorem errPartLoop_spec : ∀ (fuel : Nat) (o : Out) (d : Bytes) (lim : Nat), (∀ b ∈ d, b ≠ 0) → d.length < fuel →
    (errPartLoop fuel o d (min d.length lim) lim).1.written ++
        (errPartLoop fuel o d (min d.length lim) lim).2.1.take (errPartLoop fuel o d (min d.length lim) lim).2.2.1
      = o.written ++ escape (cutR d lim) ∧
    (errPartLoop fuel o d (min d.length lim) lim).1.outputCount = o.outputCount ∧
    (errPartLoop fuel o d (min d.length lim) lim).2.2.2 - (errPartLoop fuel o d (min d.length lim) lim).2.2.1
      = if cutR d lim = d then lim - (escape d).length else 0
  | 0, _, _, _, _, hf => by omega
  | fuel+1, o, d, lim, hd, hf => by
    rw [errPartLoop]
    cases hq : quotePos d (min d.length lim) with
    | none =>
      have hnq := quotePos_none hd hq
      have htk : d.take (min d.length lim) = d.take lim := by
        rw [List.take_eq_take_iff]; omega
      rw [htk] at hnq
      have hc : cutR d lim = d.take lim := cutR_noquote d lim hnq
      simp only []
      rw [hc, htk, escape_noquote _ hnq]
      refine ⟨?_, ?_, ?_⟩ <;> try trivial
      by_cases hl : d.length ≤ lim
      · have : d.take lim = d := List.take_of_length_le hl
        rw [if_pos this, ← this, escape_noquote _ hnq, this]
        omega
      · have : d.take lim ≠ d := by
          intro h
          have := congrArg List.length h
          rw [List.length_take] at this
          omega
        rw [if_neg this]
        omega
    | some q =>
      obtain ⟨pre, post, hdp, hpl, hpq, hql⟩ := quotePos_some hd hq
      have hdl : d.length = q + 1 + post.length := by
        rw [hdp, List.length_append, List.length_cons, hpl]; omega
      simp only []
      by_cases hs : q + 1 ≥ lim
      · -- the `break`
        rw [if_pos hs]
        simp only []
        have hlim : lim = q + 1 := by omega
        have hmin : min d.length lim = q + 1 := by omega
        have hc : cutR d lim = pre := by
          rw [hdp, cutR_append_noquote pre _ lim hpq (by omega), cutR_quote_neg (by omega)]
          simp
        have htk : d.take (min d.length lim - 1) = pre := by
          rw [hmin, hdp, Nat.add_sub_cancel, ← hpl]; simp
        rw [hc, htk, escape_noquote _ hpq]
        refine ⟨?_, ?_, ?_⟩ <;> try trivial
        have : pre ≠ d := by
          intro h
          have := congrArg List.length h
          omega
        rw [if_neg this]
        omega
      · rw [if_neg hs]
        have hpost : ∀ b ∈ post, b ≠ 0 := fun b hb => hd b (by rw [hdp]; simp [hb])
        have hdrop : d.drop (q + 1) = post := by
          rw [hdp, ← hpl]; exact drop_pre _ _ _
        have htake : d.take (q + 1) = pre ++ [34] := by
          rw [hdp, ← hpl]; exact take_pre _ _ _
        have hlen : (if min d.length lim - (q + 1) > lim - (q + 1 + 1) then lim - (q + 1 + 1)
            else min d.length lim - (q + 1)) = min post.length (lim - (q + 1 + 1)) := by
          rw [clip_eq_min]; omega
        rw [hlen, hdrop]
        have ih := errPartLoop_spec fuel (writeData (writeData o (d.take (q + 1))) [34]) post
          (lim - (q + 1 + 1)) hpost (by omega)
        obtain ⟨ih1, ih2, ih3⟩ := ih
        have hc : cutR d lim = pre ++ 34 :: cutR post (lim - (q + 1 + 1)) := by
          rw [hdp, cutR_append_noquote pre _ lim hpq (by omega), cutR_quote_pos (by omega), hpl]
          congr 3
        refine ⟨?_, ?_, ?_⟩
        · rw [ih1, writeData_written, writeData_written, htake, hc, escape_append, escape_cons,
            escape_noquote _ hpq]
          simp
        · rw [ih2, writeData_count, writeData_count]
        · rw [ih3, hc]
          have hesc : (escape d).length = q + 1 + 1 + (escape post).length := by
            rw [hdp, escape_append, List.length_append, escape_cons_length, escape_noquote _ hpq,
              cost_quote, hpl]
            omega
          by_cases hcp : cutR post (lim - (q + 1 + 1)) = post
          · rw [if_pos hcp, if_pos (by rw [hcp, hdp]), hesc]
            omega
          · rw [if_neg hcp, if_neg]
            intro h
            rw [hdp] at h
            exact hcp (by simpa using h)

/-- the string the parts stand for: ';' before part 1, a missing part ends it -/
def joined : Nat → List (Option Bytes) → Bytes
  | _, [] => []
  | _, none :: _ => []
  | i, some d :: ps => (if i == 1 then [59] else []) ++ (d ++ joined (i + 1) ps)

theorem errParts_spec : ∀ (ps : List (Option Bytes)) (i : Nat) (o : Out) (lim : Nat), o.outputCount > 0 →
    (∀ p ∈ ps, ∀ d, p = some d → ∀ b ∈ d, b ≠ 0) →
    (errParts i ps o lim).written = o.written ++ escape (cutR (joined i ps) lim)
  | [], i, o, lim, _, _ => by simp [errParts, joined, cutR, escape_nil]
  | none :: ps, i, o, lim, _, _ => by simp [errParts, joined, cutR, escape_nil]
  | some d :: ps, i, o, lim, ho, hps => by
    have hd : ∀ b ∈ d, b ≠ 0 := hps (some d) (by simp) d rfl
    have hps' : ∀ p ∈ ps, ∀ d, p = some d → ∀ b ∈ d, b ≠ 0 := fun p hp => hps p (by simp [hp])
    rw [errParts]
    by_cases hl : lim = 0
    · rw [if_pos hl, hl, cutR_zero, escape_nil, List.append_nil]
    · rw [if_neg hl]
      -- the state after the optional ';'
      generalize ho1 : (if (i == 1) = true then ((if o.outputCount > 0 then writeData o [59] else o), lim - 1)
          else (o, lim)) = st
      have hst : st.1.written = o.written ++ (if i == 1 then [59] else []) ∧ st.1.outputCount = o.outputCount ∧
          st.2 = lim - (if i == 1 then 1 else 0) := by
        rw [← ho1]
        by_cases hi : (i == 1) = true
        · rw [if_pos hi, if_pos hi, if_pos hi, if_pos ho]
          exact ⟨rfl, rfl, rfl⟩
        · rw [if_neg hi, if_neg hi, if_neg hi]
          exact ⟨by simp, rfl, rfl⟩
      obtain ⟨o1, lim1⟩ := st
      obtain ⟨hw1, hc1, hl1⟩ := hst
      simp only [] at hw1 hc1 hl1 ⊢
      rw [clip_eq_min]
      obtain ⟨h1, h2, h3⟩ := errPartLoop_spec (d.length + 1) o1 d lim1 hd (by omega)
      generalize errPartLoop (d.length + 1) o1 d (min d.length lim1) lim1 = r at h1 h2 h3
      obtain ⟨o2, d2, len2, lim2⟩ := r
      simp only [] at h1 h2 h3 ⊢
      rw [errParts_spec ps (i + 1) (writeData o2 (d2.take len2)) (lim2 - len2)
        (by rw [writeData_count, h2, hc1]; exact ho) hps']
      rw [writeData_written, h1, hw1, h3]
      -- the specification side
      have hj : cutR (joined i (some d :: ps)) lim
          = (if i == 1 then [59] else []) ++ cutR (d ++ joined (i + 1) ps) lim1 := by
        rw [joined, hl1]
        by_cases hi : (i == 1) = true
        · simp only [if_pos hi]
          exact cutR_cons_pos (b := 59) (by rw [cost_noquote (by decide)]; omega) _
        · simp only [if_neg hi]; rfl
      rw [hj, cutR_append, escape_append]
      have he : escape (if i == 1 then [59] else []) = (if i == 1 then [59] else []) := by
        split <;> rfl
      rw [he]
      by_cases hcd : cutR d lim1 = d
      · rw [if_pos hcd, if_pos hcd, escape_append, hcd]
        simp [List.append_assoc]
      · rw [if_neg hcd, if_neg hcd, cutR_zero, escape_nil]
        simp [List.append_assoc]

/-! ### the error number -/

theorem basePrefix_ten : basePrefix 10 = [] := by decide

theorem canon_code (code : Int) (hc : -32768 ≤ code ∧ code ≤ 32767) :
    charsToBytes (IntFmt.canon 32 (if code < 0 then (2^32 - code.natAbs) else code.toNat) 10 true)
      = signedDecimal code := by
  have he : IntFmt.effBase 10 = 10 := by decide
  unfold IntFmt.canon signedDecimal Spec.Message.decimal charsToBytes
  simp only [he]
  by_cases hn : code < 0
  · have h1 : (2:Nat)^32 - code.natAbs ≥ 2^(32-1) := by omega
    have h2 : (2:Nat)^32 - (2^32 - code.natAbs) = code.natAbs := by omega
    simp only [if_pos hn, h1, h2, decide_true, Bool.and_self, if_true, List.map_cons]
    rfl
  · have h2 : code.toNat = code.natAbs := by omega
    have h1 : decide (code.natAbs ≥ 2^(32-1)) = false := decide_eq_false (by omega)
    simp only [if_neg hn, h2, h1, Bool.and_false, Bool.false_and, List.nil_append]
    rfl

theorem resultInt_code (o : Out) (code : Int) (hc : -32768 ≤ code ∧ code ≤ 32767) (ho : o.outputCount = 0) :
    (resultIntBaseSign o 32 (if code < 0 then (2^32 - code.natAbs) else code.toNat) 10 true).written
      = o.written ++ signedDecimal code ∧
    (resultIntBaseSign o 32 (if code < 0 then (2^32 - code.natAbs) else code.toNat) 10 true).outputCount = 1 := by
  generalize hv : (if code < 0 then (2^32 - code.natAbs) else code.toNat) = v
  have hv32 : v < 2^32 := by rw [← hv]; split <;> omega
  have hspec := Lemmas.IntFmt.toStr_spec 32 tbl32 (Or.inl rfl) (by decide) v Gen.bufU32 10 true hv32
  have hlen := Lemmas.IntFmt.canon_len 32 (Or.inl rfl) v 10 true hv32
  have hbuf : Gen.bufU32 = 33 := by decide
  have hchars : (IntFmt.toStrBaseSign 32 tbl32 v Gen.bufU32 10 true).1.chars = IntFmt.canon 32 v 10 true := by
    rw [hspec.1, List.take_of_length_le (by omega)]
  obtain ⟨hd1, hd2⟩ := writeDelimiter_zero o ho
  have hcc := canon_code code hc
  rw [hv] at hcc
  unfold resultIntBaseSign
  simp only [beq_self_eq_true, if_true]
  rw [hchars, hcc, basePrefix_ten]
  constructor
  · rw [bump_written, writeData_written, writeData_written, hd1, List.append_nil]
  · rw [bump_count, writeData_count, writeData_count, hd2]; rfl

/-! ### SCPI_ResultError -/

theorem limit_eq : Gen.SCPI_STD_ERROR_DESC_MAX_STRING_LENGTH.toNat = 255 := by decide

/-- everything the model writes, for any list of parts -/
theorem resultError_written (o : Out) (code : Int) (hc : -32768 ≤ code ∧ code ≤ 32767) (desc : Bytes)
    (parts : List (Option Bytes)) (hd : ∀ b ∈ desc, b ≠ 0)
    (hp : ∀ p ∈ parts, ∀ d, p = some d → ∀ b ∈ d, b ≠ 0) (ho : o.outputCount = 0) :
    (resultError o code desc parts).written =
      o.written ++ (signedDecimal code ++ [44, 34] ++ escape (cut (joined 0 (some desc :: parts)) 255) ++ [34]) := by
  obtain ⟨hi1, hi2⟩ := resultInt_code o code hc ho
  have hw : (resultError o code desc parts).written =
      (writeData (errParts 0 (some desc :: parts)
        (writeData (writeDelimiter (resultIntBaseSign o 32
          (if code < 0 then (2^32 - code.natAbs) else code.toNat) 10 true)) [34])
        Gen.SCPI_STD_ERROR_DESC_MAX_STRING_LENGTH.toNat) [34]).written := rfl
  generalize resultIntBaseSign o 32 (if code < 0 then (2^32 - code.natAbs) else code.toNat) 10 true = o1
    at hi1 hi2 hw
  obtain ⟨hd1, hd2⟩ := writeDelimiter_pos o1 (by omega)
  rw [hw, writeData_written, limit_eq, errParts_spec _ 0 _ 255 (by rw [writeData_count, hd2]; omega)
    (by
      intro p hp' d hpd
      rcases List.mem_cons.mp hp' with rfl | hp'
      · cases hpd; exact hd
      · exact hp p hp' d hpd),
    writeData_written, hd1, hi1, cut_eq]
  simp [List.append_assoc]

theorem emitted_eq {o o' : Out} {x : Bytes} (h : o'.written = o.written ++ x) :
    o'.written.drop o.written.length = x := by
  rw [h]; simp

theorem resultError_one_part (o : Out) (code : Int) (hc : -32768 ≤ code ∧ code ≤ 32767) (desc : Bytes) (text : Option Bytes)
    (hd : desc.all (· ≠ 0) = true) (_hdne : desc ≠ []) (ht : ∀ t, text = some t → t.all (· ≠ 0) = true) (ho : o.outputCount = 0) :
    (resultError o code desc [text]).written.drop o.written.length = response code desc text := by
  apply emitted_eq
  rw [resultError_written o code hc desc [text] (all_ne_zero hd)
    (by
      intro p hp d hpd
      rw [List.mem_singleton] at hp
      subst hp
      exact all_ne_zero (ht d hpd)) ho]
  cases text with
  | none => simp [response, joined]
  | some t => simp [response, joined]

theorem resultError_two_parts (o : Out) (code : Int) (hc : -32768 ≤ code ∧ code ≤ 32767) (desc a b : Bytes)
    (hd : desc.all (· ≠ 0) = true) (_hdne : desc ≠ []) (ha : a.all (· ≠ 0) = true) (_hane : a ≠ []) (hb : b.all (· ≠ 0) = true)
    (ho : o.outputCount = 0) :
    (resultError o code desc [some a, if b.isEmpty then none else some b]).written.drop o.written.length
      = response code desc (some (a ++ b)) := by
  apply emitted_eq
  rw [resultError_written o code hc desc _ (all_ne_zero hd)
    (by
      intro p hp d hpd
      rcases List.mem_cons.mp hp with rfl | hp
      · cases hpd; exact all_ne_zero ha
      · rw [List.mem_singleton] at hp
        subst hp
        split at hpd
        · cases hpd
        · cases hpd; exact all_ne_zero hb) ho]
  cases b with
  | nil => simp [response, joined]
  | cons x b => simp [response, joined]

/-! ### SCPI_ErrorTranslate -/

theorem errorList_nonempty : Gen.errorList.all (fun p => !(bytesOf p.2).isEmpty) = true := by decide +kernel

theorem errFallback_nonempty : (bytesOf Gen.errFallback).isEmpty = false := by decide +kernel

theorem description_total (code : Int) :
    errorTranslate code = (match Gen.errorList.find? (fun p => p.1 == code) with
      | some p => bytesOf p.2 | none => bytesOf Gen.errFallback) ∧ errorTranslate code ≠ [] := by
  unfold errorTranslate
  cases hf : Gen.errorList.find? (fun p => p.1 == code) with
  | none =>
    refine ⟨rfl, ?_⟩
    intro h
    have := errFallback_nonempty
    simp only [] at h
    rw [h] at this
    cases this
  | some p =>
    refine ⟨rfl, ?_⟩
    have hm := List.mem_of_find?_eq_some hf
    have := List.all_eq_true.mp errorList_nonempty p hm
    intro h
    simp only [] at h
    rw [h] at this
    cases this

end ScpiVerif.Lemmas.ErrorString
