/-
C08 helper lemmas, part 1: the loop of `SCPI_Input` as "scan the pending bytes for the first
complete message, parse it, move the remainder to the front, start again".
-/
import ScpiVerif.Lemmas.ChunkingDefs
import ScpiVerif.Lemmas.Bounds
import ScpiVerif.Props.C13
import ScpiVerif.Lemmas.DispatchCompose

namespace ScpiVerif.Lemmas.Chunking
open ScpiVerif ScpiVerif.Ctx ScpiVerif.Lexer ScpiVerif.Props.C08

/-! ## the scan -/

theorem detect_nil : (Parser.detectUnit []).term = .none ∧ (Parser.detectUnit []).header.type = .unknown := by decide

theorem detect_consumed_le (s : Bytes) : (Parser.detectUnit s).consumed ≤ s.length :=
  (Props.C13.unit_spec s).2.2.2.2.1

theorem detect_consumed_pos (s : Bytes) (h : s ≠ []) : 1 ≤ (Parser.detectUnit s).consumed :=
  (Props.C13.unit_spec s).2.2.2.2.2 h

theorem scanFrom_succ (fuel : Nat) (s : Bytes) (tot : Nat) :
    scanFrom (fuel + 1) s tot =
      if (Parser.detectUnit (s.drop tot)).term == .nl then some (tot + (Parser.detectUnit (s.drop tot)).consumed, fuel)
      else if (Parser.detectUnit (s.drop tot)).header.type == .unknown ∧ (Parser.detectUnit (s.drop tot)).term == .none then none
      else if tot + (Parser.detectUnit (s.drop tot)).consumed ≥ s.length then none
      else scanFrom fuel s (tot + (Parser.detectUnit (s.drop tot)).consumed) := rfl

/-- where a found message ends, and how much fuel the search used -/
theorem scanFrom_some : ∀ (fuel : Nat) (s : Bytes) (tot k f : Nat), scanFrom fuel s tot = some (k, f) →
    tot < k ∧ k ≤ s.length ∧ fuel ≤ f + (k - tot) ∧ f < fuel := by
  intro fuel
  induction fuel with
  | zero => intro s tot k f h; simp [scanFrom] at h
  | succ fuel ih =>
    intro s tot k f h
    rw [scanFrom_succ] at h
    have hle := detect_consumed_le (s.drop tot)
    rw [List.length_drop] at hle
    split at h
    · rename_i hnl
      simp only [Option.some.injEq, Prod.mk.injEq] at h
      obtain ⟨h1, h2⟩ := h
      have hne : s.drop tot ≠ [] := by
        intro he
        rw [he, detect_nil.1] at hnl
        exact absurd hnl (by decide)
      have hpos := detect_consumed_pos _ hne
      have hlen : tot < s.length := by
        have : (s.drop tot).length ≠ 0 := by
          intro h0; exact hne (List.eq_nil_of_length_eq_zero h0)
        rw [List.length_drop] at this; omega
      omega
    · split at h
      · cases h
      · split at h
        · cases h
        · rename_i hlt
          obtain ⟨a, b, c, d⟩ := ih s _ k f h
          have hne : s.drop tot ≠ [] := by
            intro he
            have : (s.drop tot).length = 0 := by rw [he]; rfl
            rw [List.length_drop] at this; omega
          have hpos := detect_consumed_pos _ hne
          omega

/-- with enough fuel the result does not depend on the fuel -/
theorem scanFrom_fuel : ∀ (f1 f2 : Nat) (s : Bytes) (tot : Nat), s.length - tot < f1 → s.length - tot < f2 →
    (scanFrom f1 s tot).map (·.1) = (scanFrom f2 s tot).map (·.1) := by
  intro f1
  induction f1 with
  | zero => intro f2 s tot h; omega
  | succ f1 ih =>
    intro f2 s tot h1 h2
    cases f2 with
    | zero => omega
    | succ f2 =>
      rw [scanFrom_succ, scanFrom_succ]
      split
      · rfl
      · split
        · rfl
        · split
          · rfl
          · rename_i hlt
            have hne : s.drop tot ≠ [] := by
              intro he
              have : (s.drop tot).length = 0 := by rw [he]; rfl
              rw [List.length_drop] at this; omega
            have hpos := detect_consumed_pos _ hne
            exact ih f2 s _ (by omega) (by omega)

theorem scan_of_scanFrom (fuel : Nat) (s : Bytes) (h : s.length < fuel) :
    (scanFrom fuel s 0).map (·.1) = scan s :=
  scanFrom_fuel fuel (s.length + 1) s 0 (by omega) (by omega)

theorem scan_some {s : Bytes} {k : Nat} (h : scan s = some k) : 0 < k ∧ k ≤ s.length := by
  unfold scan at h
  cases hs : scanFrom (s.length + 1) s 0 with
  | none => rw [hs] at h; cases h
  | some p =>
    obtain ⟨k', f⟩ := p
    rw [hs] at h
    simp only [Option.map_some, Option.some.injEq] at h
    subst h
    obtain ⟨a, b, _, _⟩ := scanFrom_some _ _ _ _ _ hs
    exact ⟨a, b⟩

/-! ## the loop in terms of the scan -/

theorem inputLoop_succ (fuel : Nat) (c : Ctx) (tot : Nat) (res : Bool) :
    inputLoop (fuel + 1) c tot res =
      if (Parser.detectUnit ((c.buf.drop tot).take (c.position - tot))).term == .nl then
        inputLoop fuel (step c (tot + (Parser.detectUnit ((c.buf.drop tot).take (c.position - tot))).consumed)) 0
          (parse c 0 (tot + (Parser.detectUnit ((c.buf.drop tot).take (c.position - tot))).consumed)).2
      else if (Parser.detectUnit ((c.buf.drop tot).take (c.position - tot))).header.type == .unknown ∧
          (Parser.detectUnit ((c.buf.drop tot).take (c.position - tot))).term == .none then (c, res)
      else if tot + (Parser.detectUnit ((c.buf.drop tot).take (c.position - tot))).consumed ≥ c.position then (c, res)
      else inputLoop fuel c (tot + (Parser.detectUnit ((c.buf.drop tot).take (c.position - tot))).consumed) res := by
  conv => lhs; unfold inputLoop
  simp only []
  generalize Parser.detectUnit ((c.buf.drop tot).take (c.position - tot)) = u
  split
  · rfl
  · rfl

theorem inputLoop_res : ∀ (fuel : Nat) (c : Ctx) (tot : Nat) (r r' : Bool),
    (inputLoop fuel c tot r).1 = (inputLoop fuel c tot r').1 := by
  intro fuel
  induction fuel with
  | zero => intro c tot r r'; rfl
  | succ fuel ih =>
    intro c tot r r'
    rw [inputLoop_succ, inputLoop_succ]
    split
    · rfl
    · split
      · rfl
      · split
        · rfl
        · exact ih _ _ _ _

theorem content_length (c : Ctx) (h : c.position ≤ c.buf.length) : (content c).length = c.position := by
  unfold content; rw [List.length_take]; omega

theorem inputLoop_scan : ∀ (fuel : Nat) (c : Ctx) (tot : Nat) (r : Bool), c.position ≤ c.buf.length →
    (inputLoop fuel c tot r).1 =
      match scanFrom fuel (content c) tot with
      | none => c
      | some (k, f) => (inputLoop f (step c k) 0 true).1 := by
  intro fuel
  induction fuel with
  | zero => intro c tot r _; rfl
  | succ fuel ih =>
    intro c tot r hp
    have hw : (c.buf.drop tot).take (c.position - tot) = (content c).drop tot := by
      unfold content; rw [List.drop_take]
    have hl := content_length c hp
    rw [inputLoop_succ, scanFrom_succ, hw, hl]
    split
    · exact inputLoop_res _ _ _ _ _
    · split
      · rfl
      · split
        · rfl
        · exact ih c _ r hp

/-! ## contexts that differ only in buffer, position and event log -/

theorem Pers.upd {c1 c2 : Ctx} (h : Pers c1 c2) (b1 : Bytes) (p1 : Nat) (e1 : List Ev) (b2 : Bytes) (p2 : Nat) (e2 : List Ev) :
    Pers { c1 with buf := b1, position := p1, events := e1 } { c2 with buf := b2, position := p2, events := e2 } := by
  cases c1; cases c2
  simp only [Pers, Ctx.mk.injEq] at h ⊢
  simp_all

theorem Pers.refl (c : Ctx) : Pers c c := by cases c; rfl

theorem Pers.out {c1 c2 : Ctx} (h : Pers c1 c2) : c2.out = c1.out := by
  have := congrArg Ctx.out h; exact this
theorem Pers.oob {c1 c2 : Ctx} (h : Pers c1 c2) : c2.oob = c1.oob := by
  have := congrArg Ctx.oob h; exact this
theorem Pers.bufLen {c1 c2 : Ctx} (h : Pers c1 c2) : c2.bufLen = c1.bufLen := by
  have := congrArg Ctx.bufLen h; exact this
theorem Pers.regs {c1 c2 : Ctx} (h : Pers c1 c2) : c2.regs = c1.regs := by
  have := congrArg Ctx.regs h; exact this
theorem Pers.eq {c1 c2 : Ctx} (h : Pers c1 c2) : c2.eq = c1.eq := by
  have := congrArg Ctx.eq h; exact this

/-- the events the property looks at -/
def vis (es : List Ev) : List Ev := es.filter (fun e => match e with | .input _ => false | _ => true)

theorem vis_append (a b : List Ev) : vis (a ++ b) = vis a ++ vis b := by simp [vis]

theorem vis_input (a : List Ev) (r : Bool) : vis (a ++ [.input r]) = vis a := by simp [vis]

/-- the invariant between the two runs -/
structure Q (c1 c2 : Ctx) : Prop where
  pers : Pers c1 c2
  wf1 : WF c1
  wf2 : WF c2
  ev : vis c1.events = vis c2.events

/-! ## one message -/

theorem poke_eq (b : Bytes) (at_ : Nat) (data : Bytes) (h : at_ + data.length ≤ b.length) :
    poke b at_ data = b.take at_ ++ data ++ b.drop (at_ + data.length) := Dispatch.store_eq data b at_ h

theorem step_content (c : Ctx) (k : Nat) (h : WF c) (hk : k ≤ c.position) :
    WF (step c k) ∧ content (step c k) = (content c).drop k ∧ (step c k).position = c.position - k ∧
    (step c k).bufLen = c.bufLen := by
  obtain ⟨w1, w2, w3⟩ := h
  obtain ⟨p1, p2, p3, p4⟩ := Bounds.parse_frame c 0 k (by omega) w3
  unfold step content
  generalize parse c 0 k = x at p1 p2 p3 p4 ⊢
  obtain ⟨d, r⟩ := x
  simp only at p1 p2 p3 p4 ⊢
  obtain ⟨q1, _, q3⟩ := p2
  rw [Nat.zero_add] at q3
  have hrest : (d.buf.drop k).take (d.position - k) = (c.buf.take c.position).drop k := by
    rw [q3, p4, List.drop_take]
  have hrl : ((d.buf.drop k).take (d.position - k)).length = c.position - k := by
    rw [hrest, List.length_drop, List.length_take]; omega
  refine ⟨⟨?_, ?_, p1⟩, ?_, ?_, p3⟩
  · show (poke _ _ _).length = d.bufLen
    rw [Bounds.poke_length, q1, p3]; exact w1
  · show d.position - k < d.bufLen
    rw [p3, p4]; omega
  · rw [p4] at hrest hrl ⊢
    rw [poke_eq _ _ _ (by rw [hrl, q1]; omega), List.take_zero, List.nil_append]
    rw [List.take_append_of_le_length (by rw [hrl]; exact Nat.le_refl _)]
    rw [List.take_of_length_le (by rw [hrl]; exact Nat.le_refl _)]
    exact hrest
  · show d.position - k = c.position - k
    rw [p4]

theorem step_Q {M : Bytes → Prop} (hloc : ParseLocalOn M) {c1 c2 : Ctx} (h : Q c1 c2) (k : Nat) (h1 : k ≤ c1.position)
    (h2 : k ≤ c2.position) (hm : c1.buf.take k = c2.buf.take k) (hM : M (c1.buf.take k)) : Q (step c1 k) (step c2 k) := by
  obtain ⟨hp, w1, w2, hev⟩ := h
  obtain ⟨a1, a2⟩ := hloc c1 c2 k hp w1.1 w2.1 (by have := w1.2.1; omega) w1.2.2 hm hM
  obtain ⟨es, e1, e2⟩ := a2
  refine ⟨?_, (step_content c1 k w1 h1).1, (step_content c2 k w2 h2).1, ?_⟩
  · unfold step
    exact Pers.upd a1 _ _ _ _ _ _
  · show vis (parse c1 0 k).1.events = vis (parse c2 0 k).1.events
    rw [e1, e2, vis_append, vis_append, hev]

theorem store_content (c : Ctx) (y : Bytes) (h : WF c) (hf : c.position + y.length + 1 ≤ c.bufLen) :
    WF (store c y) ∧ content (store c y) = content c ++ y ∧ (store c y).position = c.position + y.length := by
  obtain ⟨w1, w2, w3⟩ := h
  refine ⟨⟨?_, ?_, w3⟩, ?_, rfl⟩
  · show ((poke _ _ _).set _ _).length = c.bufLen
    rw [List.length_set, Bounds.poke_length]; exact w1
  · show c.position + y.length < c.bufLen
    omega
  · unfold store content
    show (((poke c.buf c.position y).set (c.position + y.length) 0).take (c.position + y.length)) = _
    rw [List.take_set_of_le (Nat.le_refl _), poke_eq _ _ _ (by omega)]
    rw [List.take_append_of_le_length (by simp [List.length_take]; omega)]
    rw [List.take_of_length_le (by simp [List.length_take]; omega)]

theorem content_take (c : Ctx) (k : Nat) (hk : k ≤ c.position) : (content c).take k = c.buf.take k := by
  unfold content
  rw [List.take_take]
  congr 1
  omega

theorem inputLoop_pos : ∀ (fuel : Nat) (c : Ctx) (tot : Nat) (r : Bool), WF c → tot ≤ c.position →
    (inputLoop fuel c tot r).1.position ≤ c.position ∧ (inputLoop fuel c tot r).1.bufLen = c.bufLen := by
  intro fuel
  induction fuel with
  | zero => intro c tot r _ _; exact ⟨Nat.le_refl _, rfl⟩
  | succ fuel ih =>
    intro c tot r h ht
    have hcons : (Parser.detectUnit ((c.buf.drop tot).take (c.position - tot))).consumed ≤ c.position - tot :=
      Nat.le_trans (detect_consumed_le _) (Bounds.window_length_le _ _ _)
    rw [inputLoop_succ]
    split
    · obtain ⟨s1, _, s3, s4⟩ := step_content c (tot + (Parser.detectUnit ((c.buf.drop tot).take (c.position - tot))).consumed) h (by omega)
      obtain ⟨i1, i2⟩ := ih (step c (tot + (Parser.detectUnit ((c.buf.drop tot).take (c.position - tot))).consumed)) 0
        (parse c 0 (tot + (Parser.detectUnit ((c.buf.drop tot).take (c.position - tot))).consumed)).2 s1 (Nat.zero_le _)
      exact ⟨by omega, i2.trans s4⟩
    · split
      · exact ⟨Nat.le_refl _, rfl⟩
      · split
        · exact ⟨Nat.le_refl _, rfl⟩
        · exact ih c _ r h (by omega)

/-! ## two runs on the same pending bytes, and on pending bytes of which one is a prefix of the other -/

/-- what the proof needs to know about the streams it is applied to: `G` holds of the whole stream,
`G1` of the part that has arrived when a call returns, `M` of the messages the scan cuts out -/
structure Good (M G G1 : Bytes → Prop) : Prop where
  drop : ∀ s k, G s → G (s.drop k)
  drop1 : ∀ s k, G1 s → G1 (s.drop k)
  app1 : ∀ p x, x ≠ [] → G1 x → G1 (p ++ x)
  msg : ∀ s k, G s → scan s = some k → M (s.take k)
  stable : ∀ s y k, G (s ++ y) → G1 s → scan s = some k → scan (s ++ y) = some k

theorem wf_pos_le {c : Ctx} (h : WF c) : c.position ≤ c.buf.length := by
  obtain ⟨a, b, _⟩ := h; omega

theorem loop_same {M G G1 : Bytes → Prop} (hloc : ParseLocalOn M) (hG : Good M G G1) : ∀ (n : Nat) (c1 c2 : Ctx) (f1 f2 : Nat) (r1 r2 : Bool),
    Q c1 c2 → content c1 = content c2 → G (content c1) → (content c1).length ≤ n →
    (content c1).length < f1 → (content c1).length < f2 →
    Q (inputLoop f1 c1 0 r1).1 (inputLoop f2 c2 0 r2).1 ∧
    content (inputLoop f1 c1 0 r1).1 = content (inputLoop f2 c2 0 r2).1 := by
  intro n
  induction n using Nat.strongRecOn with
  | _ n ih =>
    intro c1 c2 f1 f2 r1 r2 hq hc hg hn hf1 hf2
    have hp1 := wf_pos_le hq.wf1
    have hp2 := wf_pos_le hq.wf2
    have hl1 := content_length c1 hp1
    have hl2 := content_length c2 hp2
    rw [inputLoop_scan f1 c1 0 r1 hp1, inputLoop_scan f2 c2 0 r2 hp2, ← hc]
    have e1 := scan_of_scanFrom f1 (content c1) hf1
    have e2 := scan_of_scanFrom f2 (content c1) hf2
    cases h1 : scanFrom f1 (content c1) 0 with
    | none =>
      rw [h1] at e1
      cases h2 : scanFrom f2 (content c1) 0 with
      | none => exact ⟨hq, hc⟩
      | some p => rw [h2, ← e1] at e2; cases e2
    | some p =>
      obtain ⟨k, g1⟩ := p
      rw [h1] at e1
      cases h2 : scanFrom f2 (content c1) 0 with
      | none => rw [h2, ← e1] at e2; cases e2
      | some p2 =>
        obtain ⟨k2, g2⟩ := p2
        rw [h2, ← e1] at e2
        simp only [Option.map_some, Option.some.injEq] at e2
        subst e2
        dsimp only
        obtain ⟨a1, a2, a3, a4⟩ := scanFrom_some _ _ _ _ _ h1
        obtain ⟨b1, b2, b3, b4⟩ := scanFrom_some _ _ _ _ _ h2
        have hk1 : k2 ≤ c1.position := by omega
        have hk2 : k2 ≤ c2.position := by rw [← hl2, ← hc]; exact a2
        have hsc : scan (content c1) = some k2 := by rw [← e1]; rfl
        have hm1 := content_take c1 k2 hk1
        have hm2 := content_take c2 k2 hk2
        have hQ := step_Q hloc hq k2 hk1 hk2 (by rw [← hm1, ← hm2, hc])
          (by rw [← hm1]; exact hG.msg _ _ hg hsc)
        obtain ⟨_, s1, _, _⟩ := step_content c1 k2 hq.wf1 hk1
        obtain ⟨_, s2, _, _⟩ := step_content c2 k2 hq.wf2 hk2
        have hlen : (content (step c1 k2)).length = (content c1).length - k2 := by rw [s1, List.length_drop]
        exact ih ((content c1).length - k2) (by omega) _ _ g1 g2 true true hQ (by rw [s1, s2, hc])
          (by rw [s1]; exact hG.drop _ _ hg) (by omega) (by omega) (by omega)

theorem loop_split {M G G1 : Bytes → Prop} (hloc : ParseLocalOn M) (hG : Good M G G1) : ∀ (n : Nat) (c1 c2 : Ctx) (y : Bytes) (f1 f2 : Nat) (r1 r2 : Bool),
    Q c1 c2 → content c2 = content c1 ++ y → G (content c2) → G1 (content c1) → (content c1).length ≤ n →
    (content c1).length < f1 → (content c1).length + y.length < f2 →
    c1.position + y.length + 1 ≤ c1.bufLen →
    ∀ (r0 r3 : Bool) (g : Nat), (inputLoop f1 c1 0 r1).1.position + y.length < g →
      Q (inputLoop g (store (emit (inputLoop f1 c1 0 r1).1 (.input r0)) y) 0 r3).1 (inputLoop f2 c2 0 r2).1 ∧
      content (inputLoop g (store (emit (inputLoop f1 c1 0 r1).1 (.input r0)) y) 0 r3).1 = content (inputLoop f2 c2 0 r2).1 := by
  intro n
  induction n using Nat.strongRecOn with
  | _ n ih =>
    intro c1 c2 y f1 f2 r1 r2 hq hc hg hg1 hn hf1 hf2 hfit r0 r3 g
    have hp1 := wf_pos_le hq.wf1
    have hp2 := wf_pos_le hq.wf2
    have hl1 := content_length c1 hp1
    have hl2 := content_length c2 hp2
    have hlen2 : (content c2).length = (content c1).length + y.length := by rw [hc, List.length_append]
    rw [inputLoop_scan f1 c1 0 r1 hp1]
    have e1 := scan_of_scanFrom f1 (content c1) hf1
    cases h1 : scanFrom f1 (content c1) 0 with
    | none =>
      dsimp only
      intro hg'
      obtain ⟨t1, t2, t3⟩ := store_content (emit c1 (.input r0)) y (Bounds.wf_emit _ hq.wf1) hfit
      have hq3 : Q (store (emit c1 (.input r0)) y) c2 := by
        refine ⟨?_, t1, hq.wf2, ?_⟩
        · exact Pers.upd hq.pers _ _ _ c2.buf c2.position c2.events
        · show vis (c1.events ++ [.input r0]) = vis c2.events
          rw [vis_input]; exact hq.ev
      have hc3 : content (store (emit c1 (.input r0)) y) = content c2 := by rw [t2, hc]; rfl
      have hl3 : (content (store (emit c1 (.input r0)) y)).length = (content c1).length + y.length := by
        rw [hc3, hlen2]
      have hpos3 : (store (emit c1 (.input r0)) y).position = c1.position + y.length := t3
      exact loop_same hloc hG _ _ _ g f2 r3 r2 hq3 hc3 (by rw [hc3]; exact hg) (Nat.le_refl _)
        (by rw [hl3, hl1]; exact hg') (by rw [hl3]; exact hf2)
    | some p =>
      obtain ⟨k, g1⟩ := p
      rw [h1] at e1
      dsimp only
      have hsc : scan (content c1) = some k := by rw [← e1]; rfl
      have hsc2 : scan (content c2) = some k := by rw [hc]; exact hG.stable _ _ _ (by rw [← hc]; exact hg) hg1 hsc
      have e2 := scan_of_scanFrom f2 (content c2) (by omega)
      rw [inputLoop_scan f2 c2 0 r2 hp2]
      cases h2 : scanFrom f2 (content c2) 0 with
      | none => rw [h2, hsc2] at e2; cases e2
      | some p2 =>
        obtain ⟨k2, g2⟩ := p2
        rw [h2, hsc2] at e2
        simp only [Option.map_some, Option.some.injEq] at e2
        subst e2
        dsimp only
        obtain ⟨a1, a2, a3, a4⟩ := scanFrom_some _ _ _ _ _ h1
        obtain ⟨b1, b2, b3, b4⟩ := scanFrom_some _ _ _ _ _ h2
        have hk1 : k2 ≤ c1.position := by omega
        have hk2 : k2 ≤ c2.position := by omega
        have hm1 := content_take c1 k2 hk1
        have hm2 := content_take c2 k2 hk2
        have hpre : (content c2).take k2 = (content c1).take k2 := by
          rw [hc, List.take_append_of_le_length a2]
        have hQ := step_Q hloc hq k2 hk1 hk2 (by rw [← hm1, ← hm2, hpre])
          (by rw [← hm1, ← hpre]; exact hG.msg _ _ hg hsc2)
        obtain ⟨_, s1, s1p, s1b⟩ := step_content c1 k2 hq.wf1 hk1
        obtain ⟨_, s2, _, _⟩ := step_content c2 k2 hq.wf2 hk2
        have hlen : (content (step c1 k2)).length = (content c1).length - k2 := by rw [s1, List.length_drop]
        have hc' : content (step c2 k2) = content (step c1 k2) ++ y := by
          rw [s1, s2, hc, List.drop_append_of_le_length a2]
        exact ih ((content c1).length - k2) (by omega) _ _ y g1 g2 true true hQ hc'
          (by rw [s2]; exact hG.drop _ _ hg) (by rw [s1]; exact hG.drop1 _ _ hg1) (by omega) (by omega) (by omega) (by rw [s1p, s1b]; omega) r0 r3 g

end ScpiVerif.Lemmas.Chunking
