/-
C02 helper lemmas, part 1: `matchCommand` with a NULL numbers pointer only looks at the first `len`
bytes of the header it is given, and its result does not depend on the fuel of the main loop — so
matching the header inside the input buffer is matching the header bytes on their own.
-/
import ScpiVerif.Lemmas.MatchTop

namespace ScpiVerif.Lemmas.Dispatch
open ScpiVerif ScpiVerif.Match ScpiVerif.Lemmas.Match
open ScpiVerif.Lexer (Bytes)

/-- the two byte strings agree on their first `n` reads -/
def Agree (n : Nat) (c c' : Bytes) : Prop := ∀ i, i < n → rd c i = rd c' i

theorem sepPos_go_congr (s s' : Bytes) (off len : Nat) (set : List UInt8)
    (h : ∀ i, i < len → rd s (off + i) = rd s' (off + i)) :
    ∀ fuel i, i + fuel ≤ len → sepPos.go s off len set fuel i = sepPos.go s' off len set fuel i := by
  intro fuel
  induction fuel with
  | zero => intro i _; rfl
  | succ f ih =>
    intro i hi
    unfold sepPos.go
    rw [h i (by omega), ih (i + 1) (by omega)]

theorem sepPos_congr (s s' : Bytes) (off len : Nat) (set : List UInt8)
    (h : ∀ i, i < len → rd s (off + i) = rd s' (off + i)) :
    sepPos s off len set = sepPos s' off len set := by
  unfold sepPos
  rw [sepPos_go_congr s s' off len set h len 0 (by omega)]

theorem sepPos_le (s : Bytes) (off len : Nat) (set : List UInt8) : sepPos s off len set ≤ len := by
  unfold sepPos
  split
  · omega
  · simp only []
    split <;> omega

theorem caseEq_congr (a : Bytes) (b b' : Bytes) : ∀ (n ao bo : Nat),
    (∀ i, i < n → rd b (bo + i) = rd b' (bo + i)) → caseEq a ao b bo n = caseEq a ao b' bo n := by
  intro n
  induction n with
  | zero => intro ao bo _; rfl
  | succ n ih =>
    intro ao bo h
    unfold caseEq
    have h0 := h 0 (by omega)
    simp only [Nat.add_zero] at h0
    rw [h0, ih (ao + 1) (bo + 1) (fun i hi => by have := h (i + 1) (by omega); simpa [Nat.add_assoc, Nat.add_comm 1 i] using this)]

theorem compareStr_congr (a : Bytes) (ao len1 : Nat) (b b' : Bytes) (bo len2 : Nat)
    (h : ∀ i, i < len2 → rd b (bo + i) = rd b' (bo + i)) :
    compareStr a ao len1 b bo len2 = compareStr a ao len1 b' bo len2 := by
  unfold compareStr
  rw [caseEq_congr a b b' len2 ao bo h]

theorem compareStrAndNum_congr (a : Bytes) (ao len1 : Nat) (b b' : Bytes) (bo len2 : Nat)
    (h : ∀ i, i < len2 → rd b (bo + i) = rd b' (bo + i)) :
    compareStrAndNum a ao len1 b bo len2 false = compareStrAndNum a ao len1 b' bo len2 false := by
  unfold compareStrAndNum
  by_cases hl : len2 < len1
  · simp only [hl, if_true]
  · simp only [hl, if_false]
    rw [caseEq_congr a b b' len1 ao bo (fun i hi => h i (by omega))]
    have : (List.range (len2 - len1)).all (fun i => Lexer.isDigit (rd b (bo + len1 + i))) =
        (List.range (len2 - len1)).all (fun i => Lexer.isDigit (rd b' (bo + len1 + i))) := by
      rw [Bool.eq_iff_iff]
      simp only [List.all_eq_true, List.mem_range]
      constructor
      · intro hh i hi
        have e := h (len1 + i) (by omega)
        rw [← Nat.add_assoc] at e
        rw [← e]; exact hh i hi
      · intro hh i hi
        have e := h (len1 + i) (by omega)
        rw [← Nat.add_assoc] at e
        rw [e]; exact hh i hi
    simp only [Bool.false_eq_true, if_false]
    rw [this]

theorem matchPattern_congr (p : Bytes) (po plen : Nat) (s s' : Bytes) (so slen : Nat)
    (h : ∀ i, i < slen → rd s (so + i) = rd s' (so + i)) :
    matchPattern p po plen s so slen false = matchPattern p po plen s' so slen false := by
  unfold matchPattern
  dsimp only
  rw [compareStrAndNum_congr p po (plen - 1) s s' so slen h,
    compareStrAndNum_congr p po (shortPos p po (plen - 1)) s s' so slen h,
    compareStr_congr p po plen s s' so slen h,
    compareStr_congr p po (shortPos p po plen) s s' so slen h]

theorem numStep_false (d : Int) (P : Prop) [Decidable P] (st : MState) :
    (numStep false d P st).2 = none ∧ (numStep false d P st).1.cp = st.cp ∧
    (numStep false d P st).1.cl = st.cl ∧ (numStep false d P st).1.pl = st.pl := by
  unfold numStep
  split <;> simp

theorem afterMatch_congr (p c c' : Bytes) (hn : Bool) (d : Int) (rec rec' : MState → Bool × MState)
    (st : MState) (n : Nat) (hag : Agree n c c') (hb : st.cp + st.cl ≤ n)
    (hrec : ∀ st' : MState, st'.pl < st.pl → st'.cp + st'.cl ≤ n → rec st' = rec' st') :
    afterMatch p c hn d rec st = afterMatch p c' hn d rec' st := by
  unfold afterMatch
  by_cases h1 : (st.pl == 0 ∧ st.cl == 0)
  · rw [if_pos h1, if_pos h1]
  · rw [if_neg h1, if_neg h1]
    by_cases h2 : (st.pl == 0 ∧ st.cl > 0)
    · rw [if_pos h2, if_pos h2]
    · rw [if_neg h2, if_neg h2]
      by_cases h3 : (st.cl == 0) = true
      · rw [if_pos h3, if_pos h3]
      · rw [if_neg h3, if_neg h3]
        have hcl : st.cl ≠ 0 := by simpa using h3
        have hc0 : rd c st.cp = rd c' st.cp := hag st.cp (by omega)
        dsimp only
        rw [hc0]
        repeat' split
        all_goals first
          | rfl
          | (apply hrec <;> dsimp only <;> omega)

theorem afterNoMatch_congr (p : Bytes) (rec rec' : MState → Bool × MState) (st : MState) (n : Nat)
    (hb : st.cp + st.cl ≤ n)
    (hrec : ∀ st' : MState, st'.pl < st.pl → st'.cp + st'.cl ≤ n → rec st' = rec' st') :
    afterNoMatch p rec st = afterNoMatch p rec' st := by
  unfold afterNoMatch
  dsimp only
  repeat' split
  all_goals first
    | rfl
    | (apply hrec <;> dsimp only <;> omega)

theorem mainLoop_zero (p c : Bytes) (hn : Bool) (d : Int) (st : MState) :
    mainLoop p c hn d 0 st = (false, { st with oob := true }) := by
  unfold mainLoop; rfl

theorem mainLoop_neg (p c : Bytes) (hn : Bool) (d : Int) (fuel : Nat) (st : MState) (h : st.pl < 0) :
    mainLoop p c hn d fuel st = (false, { st with oob := true }) := by
  cases fuel with
  | zero => exact mainLoop_zero p c hn d st
  | succ f => rw [mainLoop, if_pos h]

/-- the main loop with a NULL numbers pointer: same result on headers that agree on the bytes under
comparison, whatever the fuel (the pattern length decreases in every iteration) -/
theorem mainLoop_congr (p c c' : Bytes) (d : Int) (n : Nat) (hag : Agree n c c') :
    ∀ (fuel fuel' : Nat) (st : MState), st.cp + st.cl ≤ n → st.pl < fuel → st.pl < fuel' →
      mainLoop p c false d fuel st = mainLoop p c' false d fuel' st := by
  intro fuel
  induction fuel with
  | zero =>
    intro fuel' st _ h1 _
    rw [mainLoop_neg p c false d 0 st (by omega), mainLoop_neg p c' false d fuel' st (by omega)]
  | succ f ih =>
    intro fuel' st hb h1 h2
    by_cases hneg : st.pl < 0
    · rw [mainLoop_neg p c false d _ st hneg, mainLoop_neg p c' false d fuel' st hneg]
    · cases fuel' with
      | zero => exact absurd h2 (by omega)
      | succ f' =>
        rw [mainLoop_succ p c false d f st hneg, mainLoop_succ p c' false d f' st hneg]
        have hcs : cmdSeparatorPos c st.cp st.cl = cmdSeparatorPos c' st.cp st.cl :=
          sepPos_congr c c' st.cp st.cl _ (fun i hi => hag _ (by omega))
        have hle : cmdSeparatorPos c' st.cp st.cl ≤ st.cl := sepPos_le _ _ _ _
        dsimp only
        rw [hcs]
        obtain ⟨n1, n2, n3, n4⟩ := numStep_false d
          (patternSeparatorPos p st.pp st.pl.toNat > 0 ∧
            rd p (st.pp + patternSeparatorPos p st.pp st.pl.toNat - 1) == 35) st
        generalize numStep false d (patternSeparatorPos p st.pp st.pl.toNat > 0 ∧
            rd p (st.pp + patternSeparatorPos p st.pp st.pl.toNat - 1) == 35) st = sn at n1 n2 n3 n4
        obtain ⟨s1, s2⟩ := sn
        dsimp only at n1 n2 n3 n4
        subst n1
        dsimp only [Option.isSome]
        have hmp := matchPattern_congr p s1.pp (patternSeparatorPos p st.pp st.pl.toNat) c c' s1.cp
          (cmdSeparatorPos c' st.cp st.cl) (fun i hi => hag _ (by omega))
        simp only [hmp]
        have hrec : ∀ st' : MState, st'.pl < st.pl → st'.cp + st'.cl ≤ n →
            mainLoop p c false d f st' = mainLoop p c' false d f' st' :=
          fun st' hp hb' => ih f' st' hb' (by omega) (by omega)
        split
        · apply afterMatch_congr p c c' false d _ _ _ n hag
          · simp only [applyNum]; omega
          · intro st' hp hb'
            apply hrec st' _ hb'
            simp only [applyNum] at hp
            omega
        · apply afterNoMatch_congr p _ _ _ n
          · dsimp only; omega
          · intro st' hp hb'
            apply hrec st' _ hb'
            dsimp only at hp
            omega

theorem patPrelude_facts (pattern : Bytes) (st : MState) :
    (patPrelude pattern st).pl ≤ st.pl ∧ (patPrelude pattern st).cp = st.cp ∧ (patPrelude pattern st).cl = st.cl := by
  unfold patPrelude
  dsimp only
  split <;> split <;> simp <;> omega

theorem takeWhile_length_ge (cmd : Bytes) (n : Nat) (hlen : n ≤ cmd.length) (hnz : ∀ b ∈ cmd.take n, b ≠ 0) :
    n ≤ (cmd.takeWhile (· ≠ 0)).length := by
  have h : cmd = cmd.take n ++ cmd.drop n := (List.take_append_drop n cmd).symm
  rw [h, List.takeWhile_append_of_pos (by intro a ha; simpa using hnz a ha)]
  simp only [List.length_append, List.length_take]
  omega

theorem agree_take (cmd : Bytes) (n : Nat) : Agree n cmd (cmd.take n) := by
  intro i hi
  simp [rd, List.getD_eq_getElem?_getD, List.getElem?_take, hi]

/-- with a NULL numbers pointer the matcher only depends on the `n` header bytes it is told about -/
theorem matchCommand_take (pat cmd : Bytes) (n : Nat) (hn : 1 ≤ n) (hlen : n ≤ cmd.length)
    (hnz : ∀ b ∈ cmd.take n, b ≠ 0) (d : Int) :
    matchCommand pat cmd n none d = matchCommand pat (cmd.take n) n none d := by
  have hag := agree_take cmd n
  have htw := takeWhile_length_ge cmd n hlen hnz
  have htw' : ((cmd.take n).takeWhile (· ≠ 0)).length = n := by
    rw [takeWhile_nz _ hnz]; simp; omega
  have hq : qStage pat cmd n = qStage pat (cmd.take n) n := by
    unfold qStage
    have e1 : min (cmd.takeWhile (· ≠ 0)).length n = n := by omega
    have e2 : min ((cmd.take n).takeWhile (· ≠ 0)).length n = n := by omega
    rw [e1, e2]
    dsimp only
    rw [hag (n - 1) (by omega)]
  have hqle : ∀ plen clen, qStage pat cmd n = some (plen, clen) → clen ≤ n ∧ plen ≤ pat.length := by
    intro plen clen h
    unfold qStage at h
    have e1 : min (cmd.takeWhile (· ≠ 0)).length n = n := by omega
    have hp : (pat.takeWhile (· ≠ 0)).length ≤ pat.length := (List.takeWhile_prefix _).length_le
    rw [e1] at h
    dsimp only at h
    split at h
    · split at h
      · cases h; omega
      · cases h
    · cases h; omega
  rw [matchCommand_stages, matchCommand_stages, ← hq]
  cases hqs : qStage pat cmd n with
  | none => rfl
  | some pc =>
    obtain ⟨plen, clen⟩ := pc
    obtain ⟨hc1, hp1⟩ := hqle plen clen hqs
    dsimp only
    unfold bodyStage
    dsimp only
    obtain ⟨f1, f2, f3⟩ := patPrelude_facts pat ⟨0, plen, 0, clen, 0, (none : Option (List Int)).getD [], 0, plen == 0 ∧ pat.isEmpty⟩
    generalize patPrelude pat ⟨0, plen, 0, clen, 0, (none : Option (List Int)).getD [], 0, plen == 0 ∧ pat.isEmpty⟩ = st at f1 f2 f3
    dsimp only at f1 f2 f3
    have hcp : cmdPrelude cmd st = cmdPrelude (cmd.take n) st := by
      unfold cmdPrelude
      rw [f2, hag 0 (by omega)]
      by_cases h2 : st.cl ≥ 2
      · rw [hag (0 + 1) (by omega)]
      · simp only [h2, if_false]
    rw [← hcp]
    cases hpre : cmdPrelude cmd st with
    | none => rfl
    | some st' =>
      have hst' : st'.cp + st'.cl ≤ n ∧ st'.pl = st.pl := by
        unfold cmdPrelude at hpre
        rw [f2] at hpre
        split at hpre
        · split at hpre
          · split at hpre
            · cases hpre; dsimp only; omega
            · cases hpre
          · cases hpre; omega
        · cases hpre; omega
      unfold runStage
      dsimp only [Option.isSome]
      rw [mainLoop_congr pat cmd (cmd.take n) d n hag (pat.length + cmd.length + 4)
        (pat.length + (cmd.take n).length + 4) st' hst'.1 (by omega) (by omega)]

end ScpiVerif.Lemmas.Dispatch
