/-
Helper lemmas for `ParseLocal`, part 4: a numeric program-data token (`#H..`, `#Q..`, `#B..`,
decimal, decimal with suffix) delivered by `parseProgramData` starts with a byte that is not white
space for the C library, so `strtol`/`strtod` started at the token do not skip anything.
-/
import ScpiVerif.Lemmas.Lexer
import ScpiVerif.Model.Prim

set_option linter.unusedSimpArgs false

namespace ScpiVerif.Lemmas.ParseLocalAux
open ScpiVerif ScpiVerif.Lexer ScpiVerif.Parser ScpiVerif.Lemmas.Lexer

/-- the token types the number readers convert -/
def numType (t : TokType) : Bool :=
  match t with
  | .hexnum | .octnum | .binnum | .decimal | .decimalWithSuffix => true
  | _ => false

/-- not white space for `isspace` -/
def nsp (b : UInt8) : Bool := !Prim.isSpace b

theorem nsp_xdigit : ∀ b, isXDigit b = true → nsp b = true := by
  intro b h; simp [isXDigit, isDigit, nsp, Prim.isSpace] at *; grind
theorem nsp_qdigit : ∀ b, isQDigit b = true → nsp b = true := by
  intro b h; simp [isQDigit, nsp, Prim.isSpace] at *; grind
theorem nsp_bdigit : ∀ b, isBDigit b = true → nsp b = true := by
  intro b h; simp [isBDigit, nsp, Prim.isSpace] at *; grind
theorem nsp_decimal : ∀ b, (isPlusMn b || isDigit b || b == 46) = true → nsp b = true := by
  intro b h; simp [isPlusMn, isDigit, nsp, Prim.isSpace] at *; grind

/-- a result whose token, if numeric, starts at a non-space byte of `buf` -/
def NS (buf : Bytes) (r : Nat × Token × Int) : Prop :=
  numType r.2.1.type = true → hd (buf.drop r.2.1.ptr) nsp = true

theorem ns_of_type {buf : Bytes} {r : Nat × Token × Int} (h : numType r.2.1.type = false) : NS buf r := by
  intro h'; rw [h] at h'; cases h'

theorem ns_expression (buf : Bytes) (q : Nat) : NS buf (lexExpression buf q) := by
  apply ns_of_type
  unfold lexExpression mkTok
  simp only []
  repeat' split
  all_goals rfl

theorem ns_block (buf : Bytes) (q : Nat) : NS buf (lexBlock buf q) := by
  apply ns_of_type
  unfold lexBlock mkTok
  simp only []
  repeat' split
  all_goals rfl

theorem ns_string (buf : Bytes) (q : Nat) : NS buf (lexString buf q) := by
  apply ns_of_type
  unfold lexString mkTok
  simp only []
  repeat' split
  all_goals rfl

theorem ns_characterData (buf : Bytes) (q : Nat) : NS buf (lexCharacterProgramData buf q) := by
  apply ns_of_type
  unfold lexCharacterProgramData mkTok
  simp only []
  repeat' split
  all_goals rfl

theorem decimalMant_first {s : Bytes} (h : (decimalMant s).2 ≠ 0) :
    hd s (fun b => isPlusMn b || isDigit b || b == 46) = true := by
  by_cases hs : hd s isPlusMn = true
  · exact hd_imp (by intro b hb; simp [hb]) hs
  · unfold decimalMant at h
    simp only [hs, Bool.false_eq_true, if_false, List.drop_zero, Nat.zero_add] at h
    by_cases hd1 : 0 < tw isDigit s
    · exact hd_imp (by intro b hb; simp [hb]) (tw_pos_iff.1 hd1)
    · have h0 : tw isDigit s = 0 := by omega
      rw [h0] at h
      simp only [List.drop_zero, Nat.zero_add] at h
      by_cases hdot : hd s (· == 46) = true
      · exact hd_imp (p := (· == 46)) (by intro b hb; simp at hb; simp [hb]) hdot
      · simp [hdot] at h

theorem decimal_first (buf : Bytes) (q : Nat) (h : (lexDecimal buf q).2.2 ≠ 0) :
    (lexDecimal buf q).2.1.ptr = q ∧ hd (buf.drop q) nsp = true := by
  rw [decimal_lexDecimal_eq] at h ⊢
  simp only at h ⊢
  refine ⟨trivial, ?_⟩
  have hm : (decimalMant (buf.drop q)).2 ≠ 0 := by
    intro h0
    apply h
    unfold decimalTotal
    simp [h0]
  exact hd_imp nsp_decimal (decimalMant_first hm)

theorem ns_dec (buf : Bytes) (q : Nat) (h : (lexDecimal buf q).2.2 ≠ 0) : NS buf (pdata_dec buf (lexDecimal buf q)) := by
  obtain ⟨h1, h2⟩ := decimal_first buf q h
  intro _
  unfold pdata_dec
  simp only []
  split
  · simp only []; rw [h1]; exact h2
  · simp only []; rw [h1]; exact h2

theorem ns_nondecimal (buf : Bytes) (q : Nat) : NS buf (lexNondecimal buf q) := by
  unfold NS lexNondecimal mkTok
  simp only [skipMany_eq]
  have key : ∀ (p : UInt8 → Bool), (∀ b, p b = true → nsp b = true) →
      q + 1 + 1 + tw p (buf.drop (q + 1 + 1)) > q + 1 + 1 → hd (buf.drop (q + 2)) nsp = true := by
    intro p hp hgt
    have : 0 < tw p (buf.drop (q + 1 + 1)) := by omega
    exact hd_imp hp (tw_pos_iff.1 this)
  by_cases h35 : (peekP buf q fun x => x == 35) = true
  · simp only [h35, if_true]
    by_cases hH : (peekP buf (q + 1) fun b => b == 104 || b == 72) = true
    · simp only [hH, if_true]
      by_cases hgt : q + 1 + 1 + tw isXDigit (buf.drop (q + 1 + 1)) > q + 1 + 1
      · simp only [hgt, if_true]; intro _; exact key _ nsp_xdigit hgt
      · simp only [hgt, if_false]; intro h; exact absurd h (by decide)
    · simp only [hH, Bool.false_eq_true, if_false]
      by_cases hQ : (peekP buf (q + 1) fun b => b == 113 || b == 81) = true
      · simp only [hQ, if_true]
        by_cases hgt : q + 1 + 1 + tw isQDigit (buf.drop (q + 1 + 1)) > q + 1 + 1
        · simp only [hgt, if_true]; intro _; exact key _ nsp_qdigit hgt
        · simp only [hgt, if_false]; intro h; exact absurd h (by decide)
      · simp only [hQ, Bool.false_eq_true, if_false]
        by_cases hB : (peekP buf (q + 1) fun b => b == 98 || b == 66) = true
        · simp only [hB, if_true]
          by_cases hgt : q + 1 + 1 + tw isBDigit (buf.drop (q + 1 + 1)) > q + 1 + 1
          · simp only [hgt, if_true]; intro _; exact key _ nsp_bdigit hgt
          · simp only [hgt, if_false]; intro h; exact absurd h (by decide)
        · simp only [hB, Bool.false_eq_true, if_false]; intro h; exact absurd h (by decide)
  · simp only [h35, Bool.false_eq_true, if_false]; intro h; exact absurd h (by decide)

/-! ### the cascade -/

theorem ns_core6 (buf : Bytes) (q : Nat) : NS buf (pdata_core6 buf q) := ns_expression buf q

theorem ns_core5 (buf : Bytes) (q : Nat) : NS buf (pdata_core5 buf q) := by
  unfold pdata_core5
  simp only []
  split
  · exact ns_block buf q
  · exact ns_core6 buf _

theorem ns_core4 (buf : Bytes) (q : Nat) : NS buf (pdata_core4 buf q) := by
  unfold pdata_core4
  simp only []
  split
  · exact ns_string buf q
  · exact ns_core5 buf _

theorem ns_core3 (buf : Bytes) (q : Nat) : NS buf (pdata_core3 buf q) := by
  unfold pdata_core3
  simp only []
  split
  · rename_i h
    exact ns_dec buf q (by simpa using h)
  · exact ns_core4 buf _

theorem ns_core2 (buf : Bytes) (q : Nat) : NS buf (pdata_core2 buf q) := by
  unfold pdata_core2
  simp only []
  split
  · exact ns_characterData buf q
  · exact ns_core3 buf _

theorem ns_core1 (buf : Bytes) (q : Nat) : NS buf (pdata_core1 buf q) := by
  unfold pdata_core1
  simp only []
  split
  · exact ns_nondecimal buf q
  · exact ns_core2 buf _

/-- a numeric token delivered by `parseProgramData` starts at a byte of `buf` that is not white space -/
theorem programData_num_first (buf : Bytes) (pos : Nat)
    (h : numType (parseProgramData buf pos).2.1.type = true) :
    ∃ b, buf[(parseProgramData buf pos).2.1.ptr]? = some b ∧ Prim.isSpace b = false := by
  rw [pdata_parse_eq] at h ⊢
  have := ns_core1 buf (lexWhiteSpace buf pos).1 h
  simp only at this ⊢
  rw [← peekP_eq] at this
  unfold peekP at this
  split at this
  · rename_i b hb
    exact ⟨b, hb, by simpa [nsp] using this⟩
  · cases this

end ScpiVerif.Lemmas.ParseLocalAux
