import ScpiVerif.Model.Regs
import ScpiVerif.Lemmas.Regs
import ScpiVerif.Gen.RegsC

set_option linter.unusedSimpArgs false
namespace ScpiVerif.Lemmas.RegsC
open ScpiVerif ScpiVerif.Regs ScpiVerif.Gen.RegsC

/-- the service requests among the logged control calls, oldest first -/
def srqOf (log : List (Nat × Reg)) : List Reg := (log.filter (fun e => e.1 == SCPI_CTRL_SRQ)).map (·.2)

@[simp] theorem srqOf_append (l1 l2 : List (Nat × Reg)) : srqOf (l1 ++ l2) = srqOf l1 ++ srqOf l2 := by
  simp [srqOf]
@[simp] theorem srqOf_srq (v : Reg) : srqOf [(1, v)] = [v] := by simp [srqOf, SCPI_CTRL_SRQ]
@[simp] theorem srqOf_nil : srqOf [] = [] := rfl

def toSt (c : CCtx) (b : St) : St :=
  { regs := c.registers, qn := b.qn, cap := b.cap, srq := srqOf c.ctrlLog, errcb := b.errcb }

@[simp] theorem clsSTB_eq : clsSTB = 0 := by decide
@[simp] theorem clsSRE_eq : clsSRE = 1 := by decide
@[simp] theorem clsEVEN_eq : clsEVEN = 2 := by decide
@[simp] theorem clsENAB_eq : clsENAB = 3 := by decide
@[simp] theorem clsCOND_eq : clsCOND = 4 := by decide
@[simp] theorem regNone_eq : regNone = 11 := by decide
@[simp] theorem regCount_eq' : regCount = 10 := by decide
@[simp] theorem STB_eq' : STB = 0 := by decide
@[simp] theorem SRE_eq' : SRE = 1 := by decide
@[simp] theorem stbSRQ_eq : stbSRQ = 64#16 := by decide

theorem det_type (n : Nat) : (scpi_reg_details_at n).type_c = (detailOf n).1 := rfl
theorem det_group (n : Nat) : (scpi_reg_details_at n).group = (detailOf n).2 := rfl

theorem grp_eq (g : Nat) : scpi_reg_group_details_at g =
    ⟨(groupOf g).event, (groupOf g).enable, (groupOf g).condition, (groupOf g).ptfilt, (groupOf g).ntfilt,
     (groupOf g).parentReg, (groupOf g).parentBit⟩ := by
  unfold scpi_reg_group_details_at groupOf
  cases Gen.regGroups[g]? with
  | none => rfl
  | some r => rfl

/-- table fact: every class in `scpi_reg_details[]` (and the all-zero row the model uses outside the table) is one of
STB, SRE, EVEN, ENAB, COND; the switch of SCPI_RegSet has no default label, so another class would leave the switch
and repeat the loop, where the hand model returns -/
theorem cls_le (n : Nat) : (detailOf n).1 ≤ 4 := by
  unfold detailOf
  by_cases h : n < 10
  · have : ∀ m, m < 10 → (Gen.regDetails.getD m (0, 0)).1 ≤ 4 := by decide
    exact this n h
  · have hl : Gen.regDetails.length ≤ n := by
      have : Gen.regDetails.length = 10 := by decide
      omega
    simp [List.getD_eq_getElem?_getD, List.getElem?_eq_none hl]

macro "prune" "[" hs:Lean.Parser.Tactic.simpLemma,* "]" : tactic =>
  `(tactic| simp only [$hs,*, ↓reduceIte, beq_iff_eq, bne_iff_ne, ne_eq, Bool.or_eq_true, Bool.and_eq_true, decide_eq_true_eq,
      not_true_eq_false, not_false_eq_true, Nat.reduceEqDiff, Bool.and_self, Bool.true_and, Bool.and_true, or_self, and_self])

theorem toSt_ite {c : Prop} {_ : Decidable c} (x y : CCtx) (b : St) :
    toSt (if c then x else y) b = if c then toSt x b else toSt y b := by split <;> rfl
theorem loop_ite {c : Prop} {_ : Decidable c} (n : Nat) (x y : CCtx) (name : Nat) (val : Reg) :
    SCPI_RegSet_loop1 n (if c then x else y) name val =
      if c then SCPI_RegSet_loop1 n x name val else SCPI_RegSet_loop1 n y name val := by split <;> rfl
theorem hand_ite {c : Prop} {_ : Decidable c} (n : Nat) (x y : St) (name : Nat) (val : Reg) :
    regSetLoop n (if c then x else y) name val = if c then regSetLoop n x name val else regSetLoop n y name val := by
  split <;> rfl

/-- `x & v & v = x & v` (`if (ptrans & val)` and `if (ptrans)` are the same test) -/
theorem and_and_self' (x v : Reg) : x &&& v &&& v = x &&& v := by
  ext i hi; simp

/-- `(x & k) & (y & k) = (x & k) & y`: once the status byte is masked (k = ~STB_SRQ), masking SRE as well changes
nothing, and the other way round (stated for any mask: `simp` evaluates `~~~64#16` to a literal) -/
theorem and_mask_right (x y k : Reg) : (x &&& k) &&& (y &&& k) = (x &&& k) &&& y := by
  ext i hi; simp; cases x[i] <;> cases y[i] <;> cases k[i] <;> simp
theorem and_mask_left (x y k : Reg) : x &&& (y &&& k) = (x &&& k) &&& y := by
  ext i hi; simp; cases x[i] <;> cases y[i] <;> cases k[i] <;> simp

/-- in a register file of SCPI_REG_COUNT entries the range test of SCPI_RegGet is redundant: a direct read
`context->registers[i]` and `SCPI_RegGet(context, i)` agree wherever the direct read is defined (and, in the model, also
outside: both yield 0) -/
theorem getD_guard (l : List Reg) (i : Nat) (h : l.length = 10) : (if i < 10 then l[i]?.getD 0#16 else 0#16) = l[i]?.getD 0#16 := by
  split
  · rfl
  · rw [List.getElem?_eq_none (by omega)]; rfl

macro "fin" ih:ident hlen:ident : tactic =>
  `(tactic| ((try simp only [toSt_ite, loop_ite, hand_ite])
             (try simp (disch := simp only [List.length_set, $hlen:ident]) [Regs.get, put, and_and_self', getD_guard, and_mask_right, and_mask_left])
             repeat' split
             all_goals (try simp (disch := simp only [List.length_set, $hlen:ident]) only [$ih:ident])
             all_goals (try simp [toSt])))

theorem loop_refines (b : St) : ∀ (fuel : Nat) (regs : List Reg) (log : List (Nat × Reg)) (ret : Int) (oof : Bool) (name : Nat) (val : Reg),
    regs.length = 10 →
    toSt (SCPI_RegSet_loop1 fuel ⟨regs, true, true, log, ret, oof⟩ name val) b =
      regSetLoop fuel ⟨regs, b.qn, b.cap, srqOf log, b.errcb⟩ name val := by
  intro fuel
  induction fuel with
  | zero => intros; simp [regsC, regSetLoop, toSt]
  | succ n ih =>
    intro regs log ret oof name val hlen
    simp only [regsC, regSetLoop, det_type, det_group, grp_eq]
    have hcls := cls_le name
    generalize detailOf name = d at hcls
    obtain ⟨cls, grp⟩ := d
    simp only at hcls
    generalize groupOf grp = g
    simp only [clsSTB_eq, clsSRE_eq, clsEVEN_eq, clsENAB_eq, clsCOND_eq, regNone_eq, stbSRQ_eq,
      regCount_eq', STB_eq', SRE_eq']
    by_cases h0 : regs.getD name 0 = val
    · prune [h0]; simp [toSt]
    by_cases hA : cls = 0 ∨ cls = 1
    · prune [h0, hA]; fin ih hlen
    by_cases hB : cls = 2
    · prune [h0, hA, hB]; fin ih hlen
    by_cases hC : cls = 4
    · prune [h0, hA, hB, hC]; fin ih hlen
    by_cases hD : cls = 3
    · prune [h0, hA, hB, hC, hD]; fin ih hlen
    · exfalso; omega


/-! ### fuel: the walk up the register hierarchy is at most three iterations for the generated tables -/

/-- iterations that can follow the one for `name`: a condition register is followed by its event register, an event or
enable register by the parent (the status byte), the status byte / SRE by nothing -/
def rank (n : Nat) : Nat :=
  if (detailOf n).1 = 4 then 2 else if (detailOf n).1 = 2 ∨ (detailOf n).1 = 3 then 1 else 0

/-- table fact (all rows of the generated tables, and the rows the model uses outside them): where one iteration of
SCPI_RegSet continues, it continues with a register of smaller rank -/
theorem table_desc (n : Nat) :
    (((detailOf n).1 = 0 ∨ (detailOf n).1 = 1) → (groupOf (detailOf n).2).parentReg = 11) ∧
    ((detailOf n).1 = 2 → rank (groupOf (detailOf n).2).parentReg < rank n) ∧
    ((detailOf n).1 = 3 → rank (groupOf (detailOf n).2).parentReg < rank n) ∧
    ((detailOf n).1 = 4 → rank (groupOf (detailOf n).2).event < rank n) := by
  by_cases h : n < 10
  · have : ∀ m, m < 10 →
        (((detailOf m).1 = 0 ∨ (detailOf m).1 = 1) → (groupOf (detailOf m).2).parentReg = 11) ∧
        ((detailOf m).1 = 2 → rank (groupOf (detailOf m).2).parentReg < rank m) ∧
        ((detailOf m).1 = 3 → rank (groupOf (detailOf m).2).parentReg < rank m) ∧
        ((detailOf m).1 = 4 → rank (groupOf (detailOf m).2).event < rank m) := by decide
    exact this n h
  · have hl : Gen.regDetails.length ≤ n := by
      have : Gen.regDetails.length = 10 := by decide
      omega
    have e : detailOf n = (0, 0) := by
      simp [detailOf, List.getD_eq_getElem?_getD, List.getElem?_eq_none hl]
    rw [e]
    exact ⟨fun _ => by decide, fun h => absurd h (by decide), fun h => absurd h (by decide), fun h => absurd h (by decide)⟩

section
attribute [local irreducible] regSetLoop
/-- the hand model does not depend on the fuel beyond the rank of the register -/
theorem hand_fuel : ∀ (f1 f2 : Nat) (s : St) (name : Nat) (val : Reg), rank name < f1 → rank name < f2 →
    regSetLoop f1 s name val = regSetLoop f2 s name val := by
  intro f1
  induction f1 with
  | zero => intros; omega
  | succ n ih =>
    intro f2 s name val h1 h2
    obtain ⟨m, rfl⟩ : ∃ m, f2 = m + 1 := ⟨f2 - 1, by omega⟩
    have hcls := cls_le name
    obtain ⟨t1, t2, t3, t4⟩ := table_desc name
    simp only [regSetLoop]
    generalize rank name = r at *
    generalize detailOf name = d at *
    obtain ⟨cls, grp⟩ := d
    generalize groupOf grp = g at *
    simp only [clsSTB_eq, clsSRE_eq, clsEVEN_eq, clsENAB_eq, clsCOND_eq, regNone_eq] at *
    by_cases hA : cls = 0 ∨ cls = 1
    · have := t1 hA; simp only [hA, this, ↓reduceIte, ne_eq, not_true_eq_false]
    by_cases hB : cls = 2
    · have := t2 hB
      have e := fun s v => ih m s g.parentReg v (by omega) (by omega)
      simp only [hA, hB, ↓reduceIte, Nat.reduceEqDiff, or_self, e]
    by_cases hC : cls = 4
    · have := t4 hC
      have e := fun s v => ih m s g.event v (by omega) (by omega)
      simp only [hA, hB, hC, ↓reduceIte, Nat.reduceEqDiff, or_self, e]
    by_cases hD : cls = 3
    · have := t3 hD
      have e := fun s v => ih m s g.parentReg v (by omega) (by omega)
      simp only [hA, hB, hC, hD, ↓reduceIte, Nat.reduceEqDiff, or_self, e]
    · exfalso; omega

end


theorem oof_ite {c : Prop} {_ : Decidable c} (x y : CCtx) : (if c then x else y).oof = if c then x.oof else y.oof := by
  split <;> rfl
theorem fst_ite {α β : Type} {c : Prop} {_ : Decidable c} (x y : α × β) : (if c then x else y).1 = if c then x.1 else y.1 := by
  split <;> rfl

macro "finoof" ih:ident : tactic =>
  `(tactic| ((try simp only [oof_ite, fst_ite, loop_ite])
             repeat' split
             all_goals (first | rfl | (simp (disch := omega) only [$ih:ident]))))

/-- the fuel the translator emits suffices: a walk that starts at a register of rank below the fuel never sets `oof`
(whatever callbacks are present) -/
theorem loop_oof : ∀ (fuel : Nat) (c : CCtx) (name : Nat) (val : Reg), rank name < fuel →
    (SCPI_RegSet_loop1 fuel c name val).oof = c.oof := by
  intro fuel
  induction fuel with
  | zero => intros; omega
  | succ n ih =>
    intro c name val hr
    obtain ⟨regs, hi, hc, log, ret, oof⟩ := c
    have hcls := cls_le name
    obtain ⟨t1, t2, t3, t4⟩ := table_desc name
    simp only [regsC, det_type, det_group, grp_eq]
    generalize rank name = r at *
    generalize detailOf name = d at *
    obtain ⟨cls, grp⟩ := d
    generalize groupOf grp = g at *
    simp only at hcls t1 t2 t3 t4
    by_cases h0 : regs.getD name 0 = val
    · prune [h0]
    by_cases hA : cls = 0 ∨ cls = 1
    · have := t1 hA; prune [h0, hA, this]; finoof ih
    by_cases hB : cls = 2
    · have := t2 hB; prune [h0, hA, hB]; finoof ih
    by_cases hC : cls = 4
    · have := t4 hC; prune [h0, hA, hB, hC]; finoof ih
    by_cases hD : cls = 3
    · have := t3 hD; prune [h0, hA, hB, hC, hD]; finoof ih
    · exfalso; omega

theorem rank_le (n : Nat) : rank n ≤ 2 := by unfold rank; split <;> (try split) <;> omega


/-! ### frame: the walk changes nothing but registers, log and (without fuel) `oof` -/

def flags (c : CCtx) : Bool × Bool × Int := (c.hasInterface, c.hasControl, c.ctrlRet)

theorem flags_ite {c : Prop} {_ : Decidable c} (x y : CCtx) : flags (if c then x else y) = if c then flags x else flags y := by
  split <;> rfl

theorem loop_flags : ∀ (fuel : Nat) (c : CCtx) (name : Nat) (val : Reg),
    flags (SCPI_RegSet_loop1 fuel c name val) = flags c := by
  intro fuel
  induction fuel with
  | zero => intros; rfl
  | succ n ih =>
    intro c name val
    obtain ⟨regs, hi, hc, log, ret, oof⟩ := c
    simp only [regsC, det_type, det_group, grp_eq]
    generalize detailOf name = d
    obtain ⟨cls, grp⟩ := d
    generalize groupOf grp = g
    (try simp only [flags_ite, fst_ite, loop_ite])
    repeat' split
    all_goals (first | rfl | (simp only [ih]; rfl))

/-! ### the four functions -/

/-- the control callback is installed (`context->interface` and `context->interface->control` are not NULL): what the
hand model assumes throughout -/
def CB (c : CCtx) : Prop := c.hasInterface = true ∧ c.hasControl = true

theorem regGet_refines (c : CCtx) (b : St) (name : Nat) : SCPI_RegGet c name = Regs.get (toSt c b) name := by
  simp only [regsC, Regs.get, toSt, regCount_eq', decide_eq_true_eq]
  rfl

theorem fuel_ok (name : Nat) : rank name < SCPI_RegSet_loop1_fuel ∧ rank name < 8 := by
  have := rank_le name
  have : 3 ≤ SCPI_RegSet_loop1_fuel := by decide
  omega

theorem regSet_unfold (c : CCtx) (name : Nat) (val : Reg) :
    SCPI_RegSet c name val = if name < 10 then SCPI_RegSet_loop1 SCPI_RegSet_loop1_fuel c name val else c := by
  by_cases hn : name < 10
  · have hn' : ¬ 10 ≤ name := by omega
    simp [SCPI_RegSet, hn, hn']
  · have hn' : 10 ≤ name := by omega
    simp [SCPI_RegSet, hn, hn']

theorem regSet_refines (c : CCtx) (b : St) (name : Nat) (val : Reg) (hcb : CB c) (hlen : c.registers.length = regCount) :
    toSt (SCPI_RegSet c name val) b = regSet (toSt c b) name val := by
  obtain ⟨regs, hi, hc, log, ret, oof⟩ := c
  obtain ⟨h1, h2⟩ := hcb
  simp only at h1 h2 hlen
  subst h1 h2
  rw [regSet_unfold]
  simp only [regSet, toSt_ite, regCount_eq', ge_iff_le]
  by_cases hn : name < 10
  · have hn' : ¬ 10 ≤ name := by omega
    simp only [hn, hn', ↓reduceIte]
    rw [loop_refines _ _ _ _ _ _ _ _ hlen, hand_fuel _ 8 _ _ _ (fuel_ok name).1 (fuel_ok name).2]; rfl
  · have hn' : 10 ≤ name := by omega
    simp only [hn, hn', ↓reduceIte]

theorem regSet_oof (c : CCtx) (name : Nat) (val : Reg) : (SCPI_RegSet c name val).oof = c.oof := by
  rw [regSet_unfold]
  split
  · exact loop_oof _ _ _ _ (fuel_ok name).1
  · rfl

theorem regSet_flags (c : CCtx) (name : Nat) (val : Reg) : flags (SCPI_RegSet c name val) = flags c := by
  rw [regSet_unfold]
  split
  · exact loop_flags _ _ _ _
  · rfl

theorem regSet_length (c : CCtx) (b : St) (name : Nat) (val : Reg) (hcb : CB c) (hlen : c.registers.length = regCount) :
    (SCPI_RegSet c name val).registers.length = regCount := by
  have h := congrArg (fun s => s.regs.length) (regSet_refines c b name val hcb hlen)
  have h2 : (regSet (toSt c b) name val).regs.length = (toSt c b).regs.length :=
    (Lemmas.Regs.regSet_spec (toSt c b) name val hlen).1.1
  exact (h.trans h2).trans hlen

theorem regSet_cb (c : CCtx) (name : Nat) (val : Reg) (h : CB c) : CB (SCPI_RegSet c name val) := by
  have := regSet_flags c name val
  simp only [flags, Prod.mk.injEq] at this
  exact ⟨this.1.trans h.1, this.2.1.trans h.2⟩

theorem regSetBits_refines (c : CCtx) (b : St) (name : Nat) (bits : Reg) (hcb : CB c) (hlen : c.registers.length = regCount) :
    toSt (SCPI_RegSetBits c name bits) b = regSetBits (toSt c b) name bits := by
  simp only [SCPI_RegSetBits, regSetBits, regSet_refines _ _ _ _ hcb hlen, regGet_refines c b]

theorem regClearBits_refines (c : CCtx) (b : St) (name : Nat) (bits : Reg) (hcb : CB c) (hlen : c.registers.length = regCount) :
    toSt (SCPI_RegClearBits c name bits) b = regClearBits (toSt c b) name bits := by
  simp only [SCPI_RegClearBits, regClearBits, regSet_refines _ _ _ _ hcb hlen, regGet_refines c b]

/-- the context that stands for a state of the hand model (callback installed, nothing out of fuel) -/
def ofSt (s : St) : CCtx :=
  { registers := s.regs, hasInterface := true, hasControl := true, ctrlLog := s.srq.map (fun v => (SCPI_CTRL_SRQ, v)),
    ctrlRet := 0, oof := false }

theorem srqOf_map (l : List Reg) : srqOf (l.map (fun v => (SCPI_CTRL_SRQ, v))) = l := by
  induction l with
  | nil => rfl
  | cons a l ih => simp [srqOf, List.filter_cons] at ih ⊢; exact ih

theorem toSt_ofSt (s : St) : toSt (ofSt s) s = s := by
  simp only [toSt, ofSt, srqOf_map]
theorem cb_ofSt (s : St) : CB (ofSt s) := ⟨rfl, rfl⟩


/-! ### without the callback (`context->interface` or `->control` NULL): same registers, nothing logged -/

theorem registers_ite {c : Prop} {_ : Decidable c} (x y : CCtx) :
    (if c then x else y).registers = if c then x.registers else y.registers := by split <;> rfl
theorem ctrlLog_ite {c : Prop} {_ : Decidable c} (x y : CCtx) :
    (if c then x else y).ctrlLog = if c then x.ctrlLog else y.ctrlLog := by split <;> rfl

/-- the registers the walk computes do not depend on the interface pointers, the log, the callback's answer or `oof` -/
theorem loop_regs_indep : ∀ (fuel : Nat) (regs : List Reg) (hi hc : Bool) (log : List (Nat × Reg)) (ret : Int) (oof : Bool)
    (hi' hc' : Bool) (log' : List (Nat × Reg)) (ret' : Int) (oof' : Bool) (name : Nat) (val : Reg),
    (SCPI_RegSet_loop1 fuel ⟨regs, hi, hc, log, ret, oof⟩ name val).registers =
      (SCPI_RegSet_loop1 fuel ⟨regs, hi', hc', log', ret', oof'⟩ name val).registers := by
  intro fuel
  induction fuel with
  | zero => intros; rfl
  | succ n ih =>
    intro regs hi hc log ret oof hi' hc' log' ret' oof' name val
    simp only [regsC, det_type, det_group, grp_eq]
    generalize detailOf name = d
    obtain ⟨cls, grp⟩ := d
    generalize groupOf grp = g
    by_cases h0 : regs.getD name 0 = val
    · prune [h0]
    by_cases hA : cls = 0 ∨ cls = 1
    · prune [h0, hA]
      (try simp only [registers_ite, fst_ite, loop_ite])
      repeat' split
      all_goals (first | rfl | apply ih)
    · prune [h0, hA]
      (try simp only [registers_ite, fst_ite, loop_ite])
      repeat' split
      all_goals (first | rfl | apply ih)

/-- without the callback nothing is logged -/
theorem loop_log_nocb : ∀ (fuel : Nat) (regs : List Reg) (hi hc : Bool) (log : List (Nat × Reg)) (ret : Int) (oof : Bool)
    (name : Nat) (val : Reg), ¬(hi = true ∧ hc = true) →
    (SCPI_RegSet_loop1 fuel ⟨regs, hi, hc, log, ret, oof⟩ name val).ctrlLog = log := by
  intro fuel
  induction fuel with
  | zero => intros; rfl
  | succ n ih =>
    intro regs hi hc log ret oof name val hcb
    simp only [regsC, det_type, det_group, grp_eq]
    generalize detailOf name = d
    obtain ⟨cls, grp⟩ := d
    generalize groupOf grp = g
    by_cases h0 : regs.getD name 0 = val
    · prune [h0]
    by_cases hA : cls = 0 ∨ cls = 1
    · prune [h0, hA, hcb]
      (try simp only [ctrlLog_ite, fst_ite, loop_ite])
      repeat' split
      all_goals (first | rfl | exact ih _ _ _ _ _ _ _ _ hcb)
    · prune [h0, hA, hcb]
      (try simp only [ctrlLog_ite, fst_ite, loop_ite])
      repeat' split
      all_goals (first | rfl | exact ih _ _ _ _ _ _ _ _ hcb)

/-- SCPI_RegSet without an installed callback: the registers are those of the model, no control call is made -/
theorem regSet_nocb (c : CCtx) (b : St) (name : Nat) (val : Reg) (h : ¬ CB c) (hlen : c.registers.length = regCount) :
    (SCPI_RegSet c name val).registers = (regSet (toSt c b) name val).regs ∧
    (SCPI_RegSet c name val).ctrlLog = c.ctrlLog := by
  obtain ⟨regs, hi, hc, log, ret, oof⟩ := c
  have e := regSet_refines ⟨regs, true, true, log, ret, oof⟩ b name val ⟨rfl, rfl⟩ hlen
  have e' := congrArg St.regs e
  simp only [toSt] at e'
  constructor
  · refine Eq.trans ?_ (e'.trans ?_)
    · rw [regSet_unfold, regSet_unfold]
      split
      · exact loop_regs_indep _ _ _ _ _ _ _ _ _ _ _ _ _ _
      · rfl
    · rfl
  · rw [regSet_unfold]
    split
    · exact loop_log_nocb _ _ _ _ _ _ _ _ _ (by simpa [CB] using h)
    · rfl

end ScpiVerif.Lemmas.RegsC
