import ScpiVerif.Model.Regs
import ScpiVerif.Lemmas.Regs
import ScpiVerif.Gen.RegsC

set_option linter.unusedSimpArgs false
namespace ScpiVerif.Lemmas.RegsC
open ScpiVerif ScpiVerif.Regs ScpiVerif.Gen.RegsC

/-- the service requests among the logged control calls, oldest first -/
def srqOf (log : List (Nat × Reg)) : List Reg := (log.filter (fun e => e.1 == SCPI_CTRL_SRQ)).map (·.2)

@[simp] theorem srqOf_append (l1 l2 : List (Nat × Reg)) : srqOf (l1 ++ l2) = srqOf l1 ++ srqOf l2 := by
  simp [srqOf]
@[simp] theorem srqOf_srq (v : Reg) : srqOf [(1, v)] = [v] := by simp [srqOf, SCPI_CTRL_SRQ]
@[simp] theorem srqOf_nil : srqOf [] = [] := rfl

def toSt (c : CCtx) (b : St) : St :=
  { regs := c.registers, qn := b.qn, cap := b.cap, srq := srqOf c.ctrlLog, errcb := b.errcb }

@[simp] theorem clsSTB_eq : clsSTB = 0 := by decide
@[simp] theorem clsSRE_eq : clsSRE = 1 := by decide
@[simp] theorem clsEVEN_eq : clsEVEN = 2 := by decide
@[simp] theorem clsENAB_eq : clsENAB = 3 := by decide
@[simp] theorem clsCOND_eq : clsCOND = 4 := by decide
@[simp] theorem regNone_eq : regNone = 11 := by decide
@[simp] theorem regCount_eq' : regCount = 10 := by decide
@[simp] theorem STB_eq' : STB = 0 := by decide
@[simp] theorem SRE_eq' : SRE = 1 := by decide
@[simp] theorem stbSRQ_eq : stbSRQ = 64#16 := by decide

theorem det_type (n : Nat) : (scpi_reg_details_at n).type_c = (detailOf n).1 := rfl
theorem det_group (n : Nat) : (scpi_reg_details_at n).group = (detailOf n).2 := rfl

theorem grp_eq (g : Nat) : scpi_reg_group_details_at g =
    ⟨(groupOf g).event, (groupOf g).enable, (groupOf g).condition, (groupOf g).ptfilt, (groupOf g).ntfilt,
     (groupOf g).parentReg, (groupOf g).parentBit⟩ := by
  unfold scpi_reg_group_details_at groupOf
  cases Gen.regGroups[g]? with
  | none => rfl
  | some r => rfl

/-- table fact: every class in `scpi_reg_details[]` (and the all-zero row the model uses outside the table) is one of
STB, SRE, EVEN, ENAB, COND; the switch of SCPI_RegSet has no default label, so another class would leave the switch
and repeat the loop, where the hand model returns -/
theorem cls_le (n : Nat) : (detailOf n).1 ≤ 4 := by
  unfold detailOf
  by_cases h : n < 10
  · have : ∀ m, m < 10 → (Gen.regDetails.getD m (0, 0)).1 ≤ 4 := by decide
    exact this n h
  · have hl : Gen.regDetails.length ≤ n := by
      have : Gen.regDetails.length = 10 := by decide
      omega
    simp [List.getD_eq_getElem?_getD, List.getElem?_eq_none hl]

macro "prune" "[" hs:Lean.Parser.Tactic.simpLemma,* "]" : tactic =>
  `(tactic| simp only [$hs,*, ↓reduceIte, beq_iff_eq, bne_iff_ne, ne_eq, Bool.or_eq_true, Bool.and_eq_true, decide_eq_true_eq,
      not_true_eq_false, not_false_eq_true, Bool.and_self, Bool.true_and, Bool.and_true, or_self, and_self])

theorem toSt_ite {c : Prop} {_ : Decidable c} (x y : CCtx) (b : St) :
    toSt (if c then x else y) b = if c then toSt x b else toSt y b := by split <;> rfl
theorem loop_ite {c : Prop} {_ : Decidable c} (n : Nat) (x y : CCtx) (name : Nat) (val : Reg) :
    SCPI_RegSet_loop1 n (if c then x else y) name val =
      if c then SCPI_RegSet_loop1 n x name val else SCPI_RegSet_loop1 n y name val := by split <;> rfl
theorem hand_ite {c : Prop} {_ : Decidable c} (n : Nat) (x y : St) (name : Nat) (val : Reg) :
    regSetLoop n (if c then x else y) name val = if c then regSetLoop n x name val else regSetLoop n y name val := by
  split <;> rfl

macro "fin" ih:ident : tactic =>
  `(tactic| ((try simp only [toSt_ite, loop_ite, hand_ite])
             (try simp [Regs.get, put])
             repeat' split
             all_goals (try simp only [$ih:ident])
             all_goals (try simp [toSt])))

theorem loop_refines (b : St) : ∀ (fuel : Nat) (regs : List Reg) (log : List (Nat × Reg)) (ret : Int) (oof : Bool) (name : Nat) (val : Reg),
    toSt (SCPI_RegSet_loop1 fuel ⟨regs, true, true, log, ret, oof⟩ name val) b =
      regSetLoop fuel ⟨regs, b.qn, b.cap, srqOf log, b.errcb⟩ name val := by
  intro fuel
  induction fuel with
  | zero => intros; simp [regsC, regSetLoop, toSt]
  | succ n ih =>
    intro regs log ret oof name val
    simp only [regsC, regSetLoop, det_type, det_group, grp_eq]
    have hcls := cls_le name
    generalize detailOf name = d at hcls
    obtain ⟨cls, grp⟩ := d
    simp only at hcls
    generalize groupOf grp = g
    simp only [clsSTB_eq, clsSRE_eq, clsEVEN_eq, clsENAB_eq, clsCOND_eq, regNone_eq, stbSRQ_eq,
      regCount_eq', STB_eq', SRE_eq']
    by_cases h0 : regs.getD name 0 = val
    · prune [h0]; simp [toSt]
    by_cases hA : cls = 0 ∨ cls = 1
    · prune [h0, hA]; fin ih
    by_cases hB : cls = 2
    · prune [h0, hA, hB]; fin ih
    by_cases hC : cls = 4
    · prune [h0, hA, hB, hC]; fin ih
    by_cases hD : cls = 3
    · prune [h0, hA, hB, hC, hD]; fin ih
    · exfalso; omega

end ScpiVerif.Lemmas.RegsC
