/-
C02 helper lemmas, part 2: what the context-level functions do to the dispatch-level trace.
Readers, result functions and handler scripts never change the command table and never add a
handler entry or a -113 to the event log (`dcore` is framed); `processCommand` adds exactly one
handler entry; events are only ever appended.
-/
import ScpiVerif.Lemmas.DispatchDefs
import ScpiVerif.Lemmas.Params
import ScpiVerif.Lemmas.Bounds

namespace ScpiVerif.Lemmas.Dispatch
open ScpiVerif ScpiVerif.Lexer ScpiVerif.Ctx ScpiVerif.Props.C02

/-- the events `dispatchTrace` keeps -/
def isDisp : Ev → Bool := fun e => match e with | .handler .. => true | .error (-113) _ => true | _ => false

theorem dispatchTrace_eq (evs : List Ev) : dispatchTrace evs = evs.filter isDisp := rfl

theorem dispatchTrace_append (a b : List Ev) : dispatchTrace (a ++ b) = dispatchTrace a ++ dispatchTrace b := by
  simp [dispatchTrace_eq]

theorem isDisp_error (code : Int) (info : Option Bytes) : isDisp (.error code info) = decide (code = -113) := by
  unfold isDisp
  split
  · rename_i h; cases h
  · rename_i h; cases h; simp
  · rename_i h1 h2
    by_cases hc : code = -113
    · subst hc; exact absurd rfl (h2 _)
    · simp [hc]

/-- command table and dispatch-level trace -/
def dcore (c : Ctx) : List Cmd × List Ev := (c.cmds, dispatchTrace c.events)

theorem dcore_emit (c : Ctx) (e : Ev) (h : isDisp e = false) : dcore (emit c e) = dcore c := by
  simp [dcore, emit, dispatchTrace_eq, List.filter_append, h]

theorem dcore_pushError (c : Ctx) (code : Int) (info : Option Bytes) (n : Nat) (h : code ≠ -113) :
    dcore (pushError c code info n) = dcore c := by
  have e1 : (pushError c code info n).cmds = c.cmds := by
    unfold pushError; simp only [emit]; split <;> rfl
  have e2 := Params.pushError_events c code info n
  unfold dcore
  rw [e1, e2, dispatchTrace_append]
  have : dispatchTrace (Params.pushEvents c code info n) = [] := by
    unfold Params.pushEvents
    simp only []
    split <;> simp [dispatchTrace_eq, List.filter_cons, isDisp_error, h, Fifo.overflowCode]
  rw [this, List.append_nil]

@[simp] theorem dcore_pushError_109 (c : Ctx) (info : Option Bytes) (n : Nat) : dcore (pushError c (-109) info n) = dcore c := dcore_pushError c _ info n (by decide)
@[simp] theorem dcore_pushError_103 (c : Ctx) (info : Option Bytes) (n : Nat) : dcore (pushError c (-103) info n) = dcore c := dcore_pushError c _ info n (by decide)
@[simp] theorem dcore_pushError_151 (c : Ctx) (info : Option Bytes) (n : Nat) : dcore (pushError c (-151) info n) = dcore c := dcore_pushError c _ info n (by decide)
@[simp] theorem dcore_pushError_104 (c : Ctx) (info : Option Bytes) (n : Nat) : dcore (pushError c (-104) info n) = dcore c := dcore_pushError c _ info n (by decide)
@[simp] theorem dcore_pushError_138 (c : Ctx) (info : Option Bytes) (n : Nat) : dcore (pushError c (-138) info n) = dcore c := dcore_pushError c _ info n (by decide)
@[simp] theorem dcore_pushError_224 (c : Ctx) (info : Option Bytes) (n : Nat) : dcore (pushError c (-224) info n) = dcore c := dcore_pushError c _ info n (by decide)
@[simp] theorem dcore_pushError_131 (c : Ctx) (info : Option Bytes) (n : Nat) : dcore (pushError c (-131) info n) = dcore c := dcore_pushError c _ info n (by decide)
@[simp] theorem dcore_pushError_310 (c : Ctx) (info : Option Bytes) (n : Nat) : dcore (pushError c (-310) info n) = dcore c := dcore_pushError c _ info n (by decide)
@[simp] theorem dcore_pushError_200 (c : Ctx) (info : Option Bytes) (n : Nat) : dcore (pushError c (-200) info n) = dcore c := dcore_pushError c _ info n (by decide)
@[simp] theorem dcore_pushError_108 (c : Ctx) (info : Option Bytes) (n : Nat) : dcore (pushError c (-108) info n) = dcore c := dcore_pushError c _ info n (by decide)
@[simp] theorem dcore_pushError_101 (c : Ctx) (info : Option Bytes) (n : Nat) : dcore (pushError c (-101) info n) = dcore c := dcore_pushError c _ info n (by decide)

/-- closes `dcore x = dcore c` goals: by computation, or after rewriting with the frame lemmas proved so far -/
macro "dcore_close" : tactic => `(tactic| first | rfl | (simp <;> rfl))

@[simp] theorem dcore_parameter (c : Ctx) (mand : Bool) : dcore (parameter c mand).1 = dcore c := by
  unfold parameter
  simp only []
  repeat' split
  all_goals dcore_close

@[simp] theorem dcore_paramInt (c : Ctx) (w : Nat) (s m : Bool) : dcore (paramInt c w s m).1 = dcore c := by
  unfold paramInt
  simp only []
  repeat' split
  all_goals dcore_close

@[simp] theorem dcore_paramFloat (c : Ctx) (d m : Bool) : dcore (paramFloat c d m).1 = dcore c := by
  unfold paramFloat
  simp only []
  repeat' split
  all_goals dcore_close

@[simp] theorem dcore_paramToChoice (c : Ctx) (t : Token) (o : List (Bytes × Int)) :
    dcore (paramToChoice c t o).1 = dcore c := by
  unfold paramToChoice
  simp only []
  repeat' split
  all_goals dcore_close

@[simp] theorem dcore_paramBool (c : Ctx) (m : Bool) : dcore (paramBool c m).1 = dcore c := by
  unfold paramBool
  simp only []
  repeat' split
  all_goals dcore_close

@[simp] theorem dcore_paramChoice (c : Ctx) (m : Bool) (o : List (Bytes × Int)) :
    dcore (paramChoice c m o).1 = dcore c := by
  unfold paramChoice
  simp only []
  repeat' split
  all_goals dcore_close

@[simp] theorem dcore_paramChars (c : Ctx) (m : Bool) : dcore (paramChars c m).1 = dcore c := by
  unfold paramChars
  simp only []
  repeat' split
  all_goals dcore_close

@[simp] theorem dcore_paramBlock (c : Ctx) (m : Bool) : dcore (paramBlock c m).1 = dcore c := by
  unfold paramBlock
  simp only []
  repeat' split
  all_goals dcore_close

@[simp] theorem dcore_paramText (c : Ctx) (m : Bool) (cap : Nat) : dcore (paramText c m cap).1 = dcore c := by
  unfold paramText
  simp only []
  repeat' split
  all_goals dcore_close

theorem dcore_paramArr_go (w : Nat) (s : Bool) : ∀ (n : Nat) (c : Ctx) (m : Bool) (acc : List Int),
    dcore (paramArrInt.go w s n c m acc).1 = dcore c := by
  intro n
  induction n with
  | zero => intro c m acc; rfl
  | succ n ih =>
    intro c m acc
    unfold paramArrInt.go
    simp only []
    split
    · rw [ih]; simp
    · simp

@[simp] theorem dcore_paramArrInt (c : Ctx) (w : Nat) (s : Bool) (cap : Nat) (m : Bool) :
    dcore (paramArrInt c w s cap m).1 = dcore c := dcore_paramArr_go w s cap c m []

@[simp] theorem dcore_paramNumber (c : Ctx) (m : Bool) : dcore (paramNumber c m).1 = dcore c := by
  unfold paramNumber
  simp only []
  repeat' split
  all_goals dcore_close


theorem paramNumber_isDisp (c : Ctx) (m : Bool) : isDisp (paramNumber c m).2 = false := by
  unfold paramNumber
  generalize parameter c m = p
  obtain ⟨c1, ok, t⟩ := p
  cases ok
  · rfl
  · simp only [Bool.not_true, Bool.false_eq_true, if_false]
    cases hty : t.type <;> dsimp only <;> try rfl
    split
    · rfl
    · split <;> rfl

@[simp] theorem isDisp_pInt (a : Bool) (b : Int) : isDisp (.pInt a b) = false := rfl
@[simp] theorem isDisp_pLit (a : Bool) (b : Bytes) : isDisp (.pLit a b) = false := rfl
@[simp] theorem isDisp_pBool (a : Bool) (b : Bool) : isDisp (.pBool a b) = false := rfl
@[simp] theorem isDisp_pChoice (a : Bool) (b : Int) : isDisp (.pChoice a b) = false := rfl
@[simp] theorem isDisp_pBytes (a : Bool) (b : Nat) (d : Bytes) : isDisp (.pBytes a b d) = false := rfl
@[simp] theorem isDisp_pText (a : Bool) (b : Bytes) (d : Bool) : isDisp (.pText a b d) = false := rfl
@[simp] theorem isDisp_pArr (a : Bool) (b : List Int) : isDisp (.pArr a b) = false := rfl
@[simp] theorem isDisp_tag (a : Int) : isDisp (.tag a) = false := rfl
@[simp] theorem isDisp_nums (a : Bool) (b : List Int) : isDisp (.nums a b) = false := rfl
@[simp] theorem isDisp_test (a : Bool) : isDisp (.test a) = false := rfl
@[simp] theorem isDisp_input (a : Bool) : isDisp (.input a) = false := rfl
@[simp] theorem isDisp_parseMsg (a : Bytes) : isDisp (.parseMsg a) = false := rfl
@[simp] theorem isDisp_handler (a : Int) (b : Bytes) : isDisp (.handler a b) = true := rfl

@[simp] theorem dcore_emit_pInt (c : Ctx) (a : Bool) (b : Int) : dcore (emit c (.pInt a b)) = dcore c := dcore_emit c _ rfl
@[simp] theorem dcore_emit_pLit (c : Ctx) (a : Bool) (b : Bytes) : dcore (emit c (.pLit a b)) = dcore c := dcore_emit c _ rfl
@[simp] theorem dcore_emit_pBool (c : Ctx) (a : Bool) (b : Bool) : dcore (emit c (.pBool a b)) = dcore c := dcore_emit c _ rfl
@[simp] theorem dcore_emit_pChoice (c : Ctx) (a : Bool) (b : Int) : dcore (emit c (.pChoice a b)) = dcore c := dcore_emit c _ rfl
@[simp] theorem dcore_emit_pBytes (c : Ctx) (a : Bool) (b : Nat) (d : Bytes) : dcore (emit c (.pBytes a b d)) = dcore c := dcore_emit c _ rfl
@[simp] theorem dcore_emit_pText (c : Ctx) (a : Bool) (b : Bytes) (d : Bool) : dcore (emit c (.pText a b d)) = dcore c := dcore_emit c _ rfl
@[simp] theorem dcore_emit_pArr (c : Ctx) (a : Bool) (b : List Int) : dcore (emit c (.pArr a b)) = dcore c := dcore_emit c _ rfl
@[simp] theorem dcore_emit_tag (c : Ctx) (a : Int) : dcore (emit c (.tag a)) = dcore c := dcore_emit c _ rfl
@[simp] theorem dcore_emit_nums (c : Ctx) (a : Bool) (b : List Int) : dcore (emit c (.nums a b)) = dcore c := dcore_emit c _ rfl
@[simp] theorem dcore_emit_test (c : Ctx) (a : Bool) : dcore (emit c (.test a)) = dcore c := dcore_emit c _ rfl
@[simp] theorem dcore_emit_parseMsg (c : Ctx) (a : Bytes) : dcore (emit c (.parseMsg a)) = dcore c := dcore_emit c _ rfl

theorem dispatchTrace_bEvs (r : Regs.St) (b : Builtin) : dispatchTrace (Lemmas.Builtin.bEvs r b) = [] := by
  cases b <;> simp only [Lemmas.Builtin.bEvs, Lemmas.Builtin.cbEvs] <;> (try split) <;> rfl

/-- the library's own handlers: no handler entry, no -113 -/
@[simp] theorem dcore_runBuiltin (c : Ctx) (b : Builtin) : dcore (runBuiltin c b).1 = dcore c := by
  cases hp : Lemmas.Builtin.paramReg b with
  | none =>
    rw [Lemmas.Builtin.runBuiltin_pure c b hp]
    simp only [dcore, dispatchTrace_append, dispatchTrace_bEvs, List.append_nil]
  | some p =>
    obtain ⟨reg, strict⟩ := p
    rw [Lemmas.Builtin.runBuiltin_param c b reg strict hp, Lemmas.Builtin.regFromParam_eq]
    have h := dcore_paramInt c 32 true true
    dsimp only
    split
    · exact h
    · exact h

/-- one script operation: nothing dispatch-level happens, provided it is not an explicit push of -113 -/
theorem dcore_runOp (h : HState) (op : SOp) (hop : ∀ code info, op = SOp.ePush code info → code ≠ -113) :
    dcore (runOp h op).c = dcore h.c := by
  unfold runOp
  split
  · rfl
  · simp only []
    cases op with
    | ePush code info => exact dcore_pushError _ _ _ _ (hop code info rfl)
    | pNumber m =>
      simp only []
      have h2 := paramNumber_isDisp h.c m
      have h1 := dcore_paramNumber h.c m
      generalize paramNumber h.c m = p at h1 h2 ⊢
      obtain ⟨c1, e⟩ := p
      simp only [apply_ite HState.c, ite_self]
      rw [dcore_emit _ _ h2]; exact h1
    | _ => simp only [] <;> (repeat' split) <;> first | rfl | (simp <;> rfl)

theorem dcore_foldl_runOp (s : List SOp) (hs : ∀ op ∈ s, ∀ code info, op = SOp.ePush code info → code ≠ -113) :
    ∀ h : HState, dcore (s.foldl runOp h).c = dcore h.c := by
  induction s with
  | nil => intro h; rfl
  | cons op s ih =>
    intro h
    rw [List.foldl_cons, ih (fun o ho => hs o (List.mem_cons_of_mem _ ho)), dcore_runOp _ _ (hs op List.mem_cons_self)]

theorem dcore_runScript (c : Ctx) (s : List SOp) (hs : ∀ op ∈ s, ∀ code info, op = SOp.ePush code info → code ≠ -113) :
    dcore (runScript c s).1 = dcore c := by
  unfold runScript
  exact dcore_foldl_runOp s hs _


/-! ### processCommand: exactly one handler entry -/

theorem trace_of_prefix {ev ev' es X : List Ev} (h1 : ev' = ev ++ es)
    (h2 : dispatchTrace ev' = dispatchTrace ev ++ X) : dispatchTrace es = X := by
  rw [h1, dispatchTrace_append] at h2
  exact List.append_cancel_left h2

theorem dcore_outFix (c : Ctx) : dcore (Params.outFix c) = dcore c := by
  unfold Params.outFix
  dsimp only
  split <;> rfl

theorem dcore_afterHandler (c2 : Ctx) (ok : Bool) : dcore (Params.afterHandler c2 ok).1 = dcore c2 := by
  unfold Params.afterHandler
  dsimp only
  repeat' split
  all_goals simp [dcore_outFix]

theorem afterScript_disp (c1 : Ctx) (script : List SOp)
    (hs : ∀ op ∈ script, ∀ code info, op = SOp.ePush code info → code ≠ -113) :
    (Params.afterHandler (runScript c1 script).1 (runScript c1 script).2).1.cmds = c1.cmds ∧
    ∃ es, (Params.afterHandler (runScript c1 script).1 (runScript c1 script).2).1.events = c1.events ++ es ∧
      dispatchTrace es = [] := by
  obtain ⟨es1, he1, -, -⟩ := Params.step_runScript (q := False) c1 script (fun h => h.elim)
  have d1 := dcore_runScript c1 script hs
  obtain ⟨es2, he2, -, -⟩ := Params.afterHandler_spec (runScript c1 script).1 (runScript c1 script).2
  have d2 := dcore_afterHandler (runScript c1 script).1 (runScript c1 script).2
  generalize Params.afterHandler (runScript c1 script).1 (runScript c1 script).2 = r at he2 d2 ⊢
  have d3 : dcore r.1 = dcore c1 := d2.trans d1
  simp only [dcore, Prod.mk.injEq] at d3
  refine ⟨d3.1, es1 ++ es2, ?_, ?_⟩
  · rw [he2, he1]; simp
  · apply trace_of_prefix (ev := c1.events) (ev' := r.1.events)
    · rw [he2, he1]; simp
    · rw [d3.2]; simp

theorem processCommand_disp (c : Ctx) (cmd : Cmd) (hc : c.cur = some cmd)
    (hs : ∀ op ∈ cmd.script, ∀ code info, op = SOp.ePush code info → code ≠ -113) :
    (processCommand c).1.cmds = c.cmds ∧
    ∃ es, (processCommand c).1.events = c.events ++ es ∧
      dispatchTrace es = [.handler cmd.tag ((c.buf.drop c.rawOff).take c.rawLen)] := by
  rw [Params.processCommand_eq c cmd hc]
  dsimp only
  obtain ⟨k, es, he, hd⟩ := afterScript_disp _ cmd.script hs
  refine ⟨k, [.handler cmd.tag ((c.buf.drop c.rawOff).take c.rawLen)] ++ es, ?_, ?_⟩
  · rw [he]; simp [emit]
  · rw [dispatchTrace_append, hd]; rfl

/-- the -113 of an undefined header, as it appears in the event log -/
theorem pushError113_disp (c : Ctx) (info : Bytes) (n : Nat) :
    (pushError c (-113) (some info) n).cmds = c.cmds ∧
    ∃ es, (pushError c (-113) (some info) n).events = c.events ++ es ∧
      dispatchTrace es = [.error (-113) (some (if n = 0 then info.takeWhile (· ≠ 0) else (info.takeWhile (· ≠ 0)).take n))] := by
  refine ⟨?_, Params.pushEvents c (-113) (some info) n, Params.pushError_events _ _ _ _, ?_⟩
  · unfold pushError; simp only [emit]; split <;> rfl
  · unfold Params.pushEvents
    simp only []
    split <;> simp [dispatchTrace_eq, List.filter_cons, isDisp_error, Fifo.overflowCode]

end ScpiVerif.Lemmas.Dispatch
