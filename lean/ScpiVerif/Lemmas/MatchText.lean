/-
Text-level lemmas for the C03 proof: reads inside a suffix, the separator searches, the short
form search and the case-insensitive comparison of the model, in terms of list operations.
-/
import ScpiVerif.Lemmas.MatchDefs

namespace ScpiVerif.Lemmas.Match
open ScpiVerif ScpiVerif.Match ScpiVerif.Spec.Pattern
open ScpiVerif.Lexer (Bytes isDigit isLower isUpper isAlpha)

theorem rd_off (s : Bytes) (off : Nat) (t : Bytes) (h : s.drop off = t) (i : Nat) :
    rd s (off + i) = rd t i := by
  subst h
  simp [rd, List.getD_eq_getElem?_getD, List.getElem?_drop]

theorem rd_app_left (x rest : Bytes) (i : Nat) (hi : i < x.length) : rd (x ++ rest) i = x[i] := by
  simp [rd, List.getD_eq_getElem?_getD, List.getElem?_append_left hi, List.getElem?_eq_getElem hi]

theorem rd_app_right (x rest : Bytes) (j : Nat) : rd (x ++ rest) (x.length + j) = rd rest j := by
  simp [rd, List.getD_eq_getElem?_getD, List.getElem?_append_right]

theorem rd_zero (t : Bytes) : rd t 0 = t.headD 0 := by
  cases t <;> simp [rd]

theorem rd_cons_succ (b : UInt8) (t : Bytes) (i : Nat) : rd (b :: t) (i + 1) = rd t i := by
  simp [rd]

theorem rd_nil (i : Nat) : rd [] i = 0 := by simp [rd]

/-- read inside the first part of a suffix -/
theorem rd_in (s : Bytes) (off : Nat) (x rest : Bytes) (h : s.drop off = x ++ rest) (i : Nat)
    (hi : i < x.length) : rd s (off + i) = x[i] := by
  rw [rd_off s off _ h, rd_app_left _ _ _ hi]

/-- read after the first part of a suffix -/
theorem rd_after (s : Bytes) (off : Nat) (x rest : Bytes) (h : s.drop off = x ++ rest) (j : Nat) :
    rd s (off + x.length + j) = rd rest j := by
  rw [Nat.add_assoc, rd_off s off _ h, rd_app_right]

theorem drop_add_of_drop (s : Bytes) (off : Nat) (x rest : Bytes) (h : s.drop off = x ++ rest) :
    s.drop (off + x.length) = rest := by
  rw [← List.drop_drop, h]; simp

/-! ### sepPos -/

theorem sepPos_go_found (s : Bytes) (off len : Nat) (set : List UInt8) (n : Nat)
    (hclean : ∀ j < n, rd s (off + j) ≠ 0 ∧ set.contains (rd s (off + j)) = false)
    (hsep : set.contains (rd s (off + n)) = true) (hnz : rd s (off + n) ≠ 0) :
    ∀ fuel i, i ≤ n → n < i + fuel → sepPos.go s off len set fuel i = n := by
  intro fuel
  induction fuel with
  | zero => intro i h1 h2; omega
  | succ f ih =>
    intro i h1 h2
    unfold sepPos.go
    by_cases hin : i = n
    · subst hin; simp only [beq_iff_eq, hnz, if_false, hsep, if_true]
    · have hc := hclean i (by omega)
      simp only [beq_iff_eq, hc.1, if_false, hc.2, Bool.false_eq_true]
      exact ih (i + 1) (by omega) (by omega)

theorem sepPos_go_none (s : Bytes) (off len : Nat) (set : List UInt8) :
    ∀ fuel i, (∀ j, i ≤ j → j < i + fuel → rd s (off + j) ≠ 0 ∧ set.contains (rd s (off + j)) = false) →
      sepPos.go s off len set fuel i = i + fuel := by
  intro fuel
  induction fuel with
  | zero => intro i _; simp [sepPos.go]
  | succ f ih =>
    intro i h
    unfold sepPos.go
    have hc := h i (by omega) (by omega)
    simp only [beq_iff_eq, hc.1, if_false, hc.2, Bool.false_eq_true]
    rw [ih (i + 1) (fun j h1 h2 => h j (by omega) (by omega))]; omega

/-- the separator search finds the end of a separator-free prefix `x` of the text at `off` -/
theorem sepPos_drop (s : Bytes) (off len : Nat) (set : List UInt8) (x rest : Bytes)
    (h : s.drop off = x ++ rest) (hx : ∀ b ∈ x, b ≠ 0 ∧ set.contains b = false)
    (hlen : len = x.length ∨ (x.length < len ∧ set.contains (rest.headD 0) = true ∧ rest.headD 0 ≠ 0)) :
    sepPos s off len set = x.length := by
  have hclean : ∀ j < x.length, rd s (off + j) ≠ 0 ∧ set.contains (rd s (off + j)) = false := by
    intro j hj; rw [rd_in s off x rest h j hj]; exact hx _ (List.getElem_mem hj)
  unfold sepPos
  rcases hlen with hl | ⟨hl, hs, hz⟩
  · subst hl
    by_cases h0 : x.length = 0
    · simp [h0]
    · have := sepPos_go_none s off x.length set x.length 0 (fun j _ h2 => hclean j (by omega))
      simp [h0, this]
  · have hr : rd s (off + x.length) = rest.headD 0 := by
      have := rd_after s off x rest h 0; simpa [rd_zero] using this
    have := sepPos_go_found s off len set x.length hclean (by rw [hr]; exact hs) (by rw [hr]; exact hz)
      len 0 (by omega) (by omega)
    have h0 : ¬ len = 0 := by omega
    simp [h0, this]; omega

/-! ### shortPos -/

theorem shortPos_go (s : Bytes) (off : Nat) (x rest : Bytes) (h : s.drop off = x ++ rest)
    (hx : ∀ b ∈ x, b ≠ 0) :
    ∀ fuel i, x.length ≤ i + fuel → i ≤ x.length →
      shortPos.go s off x.length fuel i = i + ((x.drop i).takeWhile (fun b => !isLower b)).length := by
  intro fuel
  induction fuel with
  | zero =>
    intro i h1 h2
    have : i = x.length := by omega
    subst this; simp [shortPos.go]
  | succ f ih =>
    intro i h1 h2
    unfold shortPos.go
    by_cases hi : i < x.length
    · have hr := rd_in s off x rest h i hi
      have hnz := hx _ (List.getElem_mem hi)
      have ht : (x.drop i).takeWhile (fun b => !isLower b) =
          if (!isLower x[i]) = true then x[i] :: (x.drop (i + 1)).takeWhile (fun b => !isLower b) else [] := by
        rw [List.drop_eq_getElem_cons hi, List.takeWhile_cons]
      rw [hr, ht]
      by_cases hl : isLower x[i] = true
      · simp [hi, hnz, hl]
      · simp only [Bool.not_eq_true] at hl
        simp only [hi, hnz, hl, ne_eq, not_false_eq_true, bne_iff_ne, and_self, if_true, Bool.false_eq_true,
          if_false, Bool.not_false, List.length_cons]
        rw [ih (i + 1) (by omega) (by omega)]; omega
    · have : i = x.length := by omega
      subst this; simp

/-- the short-form search returns the length of the part before the first lower-case letter -/
theorem shortPos_drop (s : Bytes) (off : Nat) (x rest : Bytes) (h : s.drop off = x ++ rest)
    (hx : ∀ b ∈ x, b ≠ 0) :
    shortPos s off x.length = (x.takeWhile (fun b => !isLower b)).length := by
  unfold shortPos
  rw [shortPos_go s off x rest h hx x.length 0 (by omega) (by omega)]; simp

/-! ### caseEq -/

theorem toLower_eq_lower (b : UInt8) : toLower b = lower b := rfl

/-- strncasecmp on two texts that have at least `n` bytes at the offsets, the first without NUL -/
theorem caseEq_drop (a b : Bytes) :
    ∀ (n ao bo : Nat) (x ra y rb : Bytes), a.drop ao = x ++ ra → b.drop bo = y ++ rb →
      x.length = n → y.length = n → (∀ c ∈ x, lower c ≠ 0) →
      caseEq a ao b bo n = ciEq x y := by
  intro n
  induction n with
  | zero =>
    intro ao bo x ra y rb _ _ hx hy _
    have : x = [] := List.eq_nil_of_length_eq_zero hx
    have : y = [] := List.eq_nil_of_length_eq_zero hy
    subst_vars; simp [caseEq, ciEq]
  | succ n ih =>
    intro ao bo x ra y rb ha hb hx hy hnz
    match x, y with
    | [], _ => simp at hx
    | _, [] => simp at hy
    | c :: x', d :: y' =>
      have h1 : rd a ao = c := by
        have := rd_in a ao (c :: x') ra ha 0 (by simp); simpa using this
      have h2 : rd b bo = d := by
        have := rd_in b bo (d :: y') rb hb 0 (by simp); simpa using this
      have ha' : a.drop (ao + 1) = x' ++ ra := by
        have := drop_add_of_drop a ao [c] (x' ++ ra) (by simpa using ha); simpa using this
      have hb' : b.drop (bo + 1) = y' ++ rb := by
        have := drop_add_of_drop b bo [d] (y' ++ rb) (by simpa using hb); simpa using this
      have hih := ih (ao + 1) (bo + 1) x' ra y' rb ha' hb' (by simpa using hx) (by simpa using hy)
        (fun c hc => hnz c (by simp [hc]))
      unfold caseEq
      simp only [h1, h2, toLower_eq_lower]
      have hc0 : lower c ≠ 0 := hnz c (by simp)
      by_cases hcd : lower c = lower d
      · simp [hcd, hih, ciEq] 
        rw [← hcd]; simp [hc0]
      · simp [hcd, ciEq]

end ScpiVerif.Lemmas.Match
