/-
Whole-instrument lemmas: the library's own command handlers (`Ctx.runBuiltin`) at message level.

Part 1  an invariant of (status registers, error queue) that is closed under the three ways the context
        model changes them (error push, a handler of the library, a register write by `*ESE` & co) is
        preserved by every function of the context model up to `input` — for every table and every script.
Part 2  the instance `StatusOK`: registers well formed and coherent (C11), queue ring invariant, and the queue
        count / capacity the status side keeps are those of the queue.
Part 3  one unit whose script is a single library handler: what `processCommand` leaves behind.
-/
import ScpiVerif.Lemmas.Builtin
import ScpiVerif.Spec.Instrument
import ScpiVerif.Lemmas.Bounds
import ScpiVerif.Lemmas.Params
import ScpiVerif.Lemmas.Regs
import ScpiVerif.Lemmas.Fifo
import ScpiVerif.Lemmas.Framing
import ScpiVerif.Lemmas.ErrorString
import ScpiVerif.Lemmas.Isolation

set_option linter.unusedSimpArgs false
set_option linter.unusedVariables false

namespace ScpiVerif.Lemmas.Instrument
open ScpiVerif ScpiVerif.Ctx ScpiVerif.Lexer ScpiVerif.Result ScpiVerif.Lemmas.Builtin ScpiVerif.Props.Instrument

/-! ## Part 1: lifting an invariant of (registers, queue) to `input` -/

/-- closure conditions: the only three ways the context model changes registers and queue -/
structure StatusInv (K : Regs.St → Fifo.EQ → Prop) : Prop where
  push : ∀ r q w code info n, K r q → K (Regs.errPush r code) (q.push w code info n true).1
  builtin : ∀ r q b, K r q → K (bRegs r b) (bEq q b)
  set : ∀ r q reg v, reg ≠ Regs.STB → K r q → K (Regs.step r (.set reg v)) q

/-- the invariant on a context -/
def KC (K : Regs.St → Fifo.EQ → Prop) (c : Ctx) : Prop := K c.regs c.eq

section lift
variable {K : Regs.St → Fifo.EQ → Prop} (hK : StatusInv K)
include hK

omit hK in
theorem kc_same {c c' : Ctx} (h1 : c'.regs = c.regs) (h2 : c'.eq = c.eq) (h : KC K c) : KC K c' := by
  unfold KC at *; rw [h1, h2]; exact h

omit hK in
theorem kc_emit (c : Ctx) (e : Ev) (h : KC K c) : KC K (emit c e) := h

theorem kc_pushError (c : Ctx) (code : Int) (info : Option Bytes) (n : Nat) (h : KC K c) :
    KC K (pushError c code info n) := by
  unfold pushError
  dsimp only
  split <;> exact hK.push _ _ _ _ _ _ h

theorem kc_parameter (c : Ctx) (m : Bool) (h : KC K c) : KC K (parameter c m).1 := by
  unfold parameter
  simp only []
  repeat' split
  all_goals first
    | exact h
    | exact kc_pushError hK _ _ _ _ h

theorem kc_paramInt (c : Ctx) (w : Nat) (s m : Bool) (h : KC K c) : KC K (paramInt c w s m).1 := by
  have h1 := kc_parameter hK c m h
  unfold paramInt
  simp only []
  repeat' split
  all_goals first
    | exact h1
    | exact kc_pushError hK _ _ _ _ h1

theorem kc_paramFloat (c : Ctx) (d m : Bool) (h : KC K c) : KC K (paramFloat c d m).1 := by
  have h1 := kc_parameter hK c m h
  unfold paramFloat
  simp only []
  repeat' split
  all_goals first
    | exact h1
    | exact kc_pushError hK _ _ _ _ h1

theorem kc_paramToChoice (c : Ctx) (t : Token) (o : List (Bytes × Int)) (h : KC K c) :
    KC K (paramToChoice c t o).1 := by
  unfold paramToChoice
  simp only []
  repeat' split
  all_goals first
    | exact h
    | exact kc_pushError hK _ _ _ _ h

theorem kc_paramBool (c : Ctx) (m : Bool) (h : KC K c) : KC K (paramBool c m).1 := by
  have h1 := kc_parameter hK c m h
  unfold paramBool
  simp only []
  repeat' split
  all_goals first
    | exact h1
    | exact kc_paramToChoice hK _ _ _ h1

theorem kc_paramChoice (c : Ctx) (m : Bool) (o : List (Bytes × Int)) (h : KC K c) : KC K (paramChoice c m o).1 := by
  have h1 := kc_parameter hK c m h
  unfold paramChoice
  simp only []
  repeat' split
  all_goals first
    | exact h1
    | exact kc_paramToChoice hK _ _ _ h1

theorem kc_paramChars (c : Ctx) (m : Bool) (h : KC K c) : KC K (paramChars c m).1 := by
  have h1 := kc_parameter hK c m h
  unfold paramChars
  simp only []
  repeat' split
  all_goals exact h1

theorem kc_paramBlock (c : Ctx) (m : Bool) (h : KC K c) : KC K (paramBlock c m).1 := by
  have h1 := kc_parameter hK c m h
  unfold paramBlock
  simp only []
  repeat' split
  all_goals first
    | exact h1
    | exact kc_pushError hK _ _ _ _ h1

theorem kc_paramText (c : Ctx) (m : Bool) (cap : Nat) (h : KC K c) : KC K (paramText c m cap).1 := by
  have h1 := kc_parameter hK c m h
  unfold paramText
  simp only []
  repeat' split
  all_goals first
    | exact h1
    | exact kc_pushError hK _ _ _ _ h1

theorem kc_paramArr_go (w : Nat) (s : Bool) : ∀ (n : Nat) (c : Ctx) (m : Bool) (acc : List Int),
    KC K c → KC K (paramArrInt.go w s n c m acc).1 := by
  intro n
  induction n with
  | zero => intro c m acc h; exact h
  | succ n ih =>
    intro c m acc h
    have h1 := kc_paramInt hK c w s m h
    unfold paramArrInt.go
    simp only []
    split
    · exact ih _ _ _ h1
    · exact h1

theorem kc_paramArrInt (c : Ctx) (w : Nat) (s : Bool) (cap : Nat) (m : Bool) (h : KC K c) :
    KC K (paramArrInt c w s cap m).1 := kc_paramArr_go hK w s cap c m [] h

theorem kc_paramNumber (c : Ctx) (m : Bool) (h : KC K c) : KC K (paramNumber c m).1 := by
  have h1 := kc_parameter hK c m h
  unfold paramNumber
  simp only []
  repeat' split
  all_goals first
    | exact h1
    | exact kc_pushError hK _ _ _ _ h1
    | exact kc_paramToChoice hK _ _ _ h1

theorem kc_runBuiltin (c : Ctx) (b : Builtin) (h : KC K c) : KC K (runBuiltin c b).1 := by
  cases hp : paramReg b with
  | none => rw [runBuiltin_pure c b hp]; exact hK.builtin _ _ b h
  | some p =>
    obtain ⟨reg, strict⟩ := p
    have hreg : reg ≠ Regs.STB := by
      cases b <;> simp only [paramReg, reduceCtorEq, Option.some.injEq, Prod.mk.injEq] at hp <;> obtain ⟨rfl, _⟩ := hp <;> decide
    rw [runBuiltin_param c b reg strict hp, regFromParam_eq]
    have h1 := kc_paramInt hK c 32 true true h
    dsimp only
    split
    · exact hK.set _ _ reg _ hreg h1
    · exact h1

theorem kc_runOp (hs : HState) (op : SOp) (h : KC K hs.c) : KC K (runOp hs op).c := by
  unfold runOp
  split
  · exact h
  · cases op <;> simp only []
    case pInt w s m => have := kc_paramInt hK hs.c w s m h; split <;> exact this
    case pFloat d m => have := kc_paramFloat hK hs.c d m h; split <;> exact this
    case pBool m => have := kc_paramBool hK hs.c m h; split <;> exact this
    case pChoice m k => have := kc_paramChoice hK hs.c m (hs.c.choices.getD k []) h; split <;> exact this
    case pNumber m => have := kc_paramNumber hK hs.c m h; (repeat' split) <;> exact this
    case pChars m => have := kc_paramChars hK hs.c m h; split <;> exact this
    case pBlock m => have := kc_paramBlock hK hs.c m h; split <;> exact this
    case pText m cap => have := kc_paramText hK hs.c m cap h; split <;> exact this
    case pArrInt w s cap m => have := kc_paramArrInt hK hs.c w s cap m h; split <;> exact this
    case rBlockData d =>
      split
      · exact kc_pushError hK _ _ _ _ h
      · exact h
    case rArrBin sz es same =>
      split
      · exact kc_pushError hK _ _ _ _ h
      · exact h
    case ePush code info => exact kc_pushError hK _ _ _ _ h
    case iNums n d => split <;> exact h
    case builtin b => have := kc_runBuiltin hK hs.c b h; split <;> exact this
    all_goals exact h

theorem kc_runScript (c : Ctx) (s : List SOp) (h : KC K c) : KC K (runScript c s).1 := by
  unfold runScript
  have : ∀ (s : List SOp) (hs : HState), KC K hs.c → KC K (s.foldl runOp hs).c := by
    intro s
    induction s with
    | nil => intro hs h; exact h
    | cons op s ih => intro hs h; exact ih _ (kc_runOp hK hs op h)
  exact this s _ h

theorem kc_pcBody (c : Ctx) (h : KC K c) : KC K (Lemmas.Isolation.pcBody c).1 := by
  unfold Lemmas.Isolation.pcBody
  cases hc : c.cur with
  | none => exact h
  | some cmd =>
    dsimp only
    have h2 : KC K (runScript (emit c (.handler cmd.tag ((c.buf.drop c.rawOff).take c.rawLen))) cmd.script).1 := by
      refine kc_runScript hK _ _ ?_
      exact h
    generalize runScript (emit c (.handler cmd.tag ((c.buf.drop c.rawOff).take c.rawLen))) cmd.script = rs at h2 ⊢
    obtain ⟨c2, ok⟩ := rs
    dsimp only at h2 ⊢
    cases ok
    · by_cases hce : (!c2.cmdError) = true
      · simp only [Bool.not_false, if_true, hce]
        exact kc_pushError hK _ _ _ _ h2
      · simp only [Bool.not_false, if_true, hce, if_false]
        exact h2
    · simp only [Bool.not_true, Bool.false_eq_true, if_false]
      exact h2

theorem kc_pcTail (x : Ctx × Bool) (h : KC K x.1) : KC K (Lemmas.Isolation.pcTail x).1 := by
  unfold Lemmas.Isolation.pcTail
  split
  · refine kc_pushError hK _ _ _ _ ?_
    exact h
  · exact h

theorem kc_processCommand (c : Ctx) (h : KC K c) : KC K (processCommand c).1 := by
  rw [Lemmas.Isolation.processCommand_eq]
  refine kc_pcTail hK _ ?_
  refine kc_pcBody hK _ ?_
  exact h

theorem kc_stepUnit (c : Ctx) (base len : Nat) (prev : Option (Nat × Nat)) (res : Bool) (h : KC K c) :
    KC K (Lemmas.Bounds.stepUnit c base len prev res).1 := by
  unfold Lemmas.Bounds.stepUnit
  simp only []
  repeat' split
  all_goals first
    | exact h
    | exact kc_pushError hK _ _ _ _ h
    | exact kc_processCommand hK _ h

theorem kc_parseLoop : ∀ (fuel : Nat) (c : Ctx) (base len : Nat) (prev : Option (Nat × Nat)) (res : Bool),
    KC K c → KC K (parseLoop fuel c base len prev res).1 := by
  intro fuel
  induction fuel with
  | zero => intro c base len prev res h; exact h
  | succ fuel ih =>
    intro c base len prev res h
    rw [Lemmas.Bounds.parseLoop_succ]
    have h1 := kc_stepUnit hK c base len prev res h
    split
    · exact ih _ _ _ _ _ h1
    · exact h1

theorem kc_parse (c : Ctx) (base len : Nat) (h : KC K c) : KC K (parse c base len).1 := by
  unfold parse
  dsimp only
  refine kc_same (c := (parseLoop (len + 2) (emit { c with out := { c.out with outputCount := 0, firstOutput := true, gCur := [], gItems := [], gUnits := [], gPartial := false } } (.parseMsg ((c.buf.drop base).take len))) base len none true).1) rfl rfl ?_
  refine kc_parseLoop hK _ _ _ _ _ _ ?_
  exact h

theorem kc_inputLoop : ∀ (fuel : Nat) (c : Ctx) (tot : Nat) (res : Bool),
    KC K c → KC K (inputLoop fuel c tot res).1 := by
  intro fuel
  induction fuel with
  | zero => intro c tot res h; exact h
  | succ fuel ih =>
    intro c tot res h
    unfold inputLoop
    simp only []
    generalize Parser.detectUnit ((c.buf.drop tot).take (c.position - tot)) = u
    split
    · have h1 := kc_parse hK c 0 (tot + u.consumed) h
      generalize parse c 0 (tot + u.consumed) = x at h1 ⊢
      obtain ⟨c1, r⟩ := x
      simp only at h1 ⊢
      refine ih _ _ _ ?_
      exact h1
    · split
      · exact h
      · split
        · exact h
        · refine ih _ _ _ ?_
          exact h

/-- every input call preserves the invariant — whatever the table, the scripts and the bytes -/
theorem kc_input (c : Ctx) (data : Bytes) (h : KC K c) : KC K (input c data) := by
  unfold input
  split
  · dsimp only
    apply kc_emit
    refine kc_same (c := (parse { c with buf := c.buf.set c.position 0 } 0 c.position).1) rfl rfl ?_
    refine kc_parse hK _ _ _ ?_
    exact h
  · dsimp only
    split
    · apply kc_emit
      refine kc_pushError hK _ _ _ _ ?_
      exact h
    · apply kc_emit
      refine kc_inputLoop hK _ _ _ _ ?_
      exact h

theorem kc_inputs (chunks : List Bytes) : ∀ (c : Ctx), KC K c → KC K (chunks.foldl input c) := by
  induction chunks with
  | nil => intro c h; exact h
  | cons d ds ih => intro c h; exact ih _ (kc_input hK c d h)

end lift

/-! ## Part 2: the invariant of every reachable instrument state -/

-- `QSync`, `StatusOK` are defined in Spec/Instrument.lean

theorem remove_size {α : Type} (f : Fifo.Fifo α) : (Fifo.remove f).1.size = f.size := by
  unfold Fifo.remove; split <;> rfl

theorem removeLast_size {α : Type} (f : Fifo.Fifo α) : (Fifo.removeLast f).1.size = f.size := by
  unfold Fifo.removeLast; split <;> rfl

theorem add_size {α : Type} (f : Fifo.Fifo α) (v : α) : (Fifo.add f v).1.size = f.size := by
  unfold Fifo.add; split <;> rfl

theorem add_count {α : Type} (f : Fifo.Fifo α) (v : α) :
    (Fifo.add f v).1.count = if f.count = f.size then f.count else f.count + 1 := by
  unfold Fifo.add Fifo.isFull
  by_cases h : f.count = f.size <;> simp [h]

/-- the queue side of SCPI_ErrorPushEx: ring invariant kept, capacity kept, one more entry unless full -/
theorem push_sync (q : Fifo.EQ) (w : Bool) (code : Int) (info : Option Bytes) (n : Nat) (hi : Fifo.Inv q.fifo) :
    Fifo.Inv (q.push w code info n true).1.fifo ∧ (q.push w code info n true).1.fifo.size = q.fifo.size ∧
    (q.push w code info n true).1.fifo.count = (if q.fifo.size ≤ q.fifo.count then q.fifo.count else q.fifo.count + 1) := by
  rw [Lemmas.Fifo.push_eq]
  have h1 := hi.1
  have h5 := hi.2.2.2.2.1
  by_cases hf : q.fifo.count = q.fifo.size
  · rw [if_pos hf]
    dsimp only
    refine ⟨Lemmas.Fifo.inv_add _ _ (Lemmas.Fifo.inv_removeLast _ hi), ?_, ?_⟩
    · rw [add_size, removeLast_size]
    · rw [add_count, Lemmas.Fifo.count_removeLast, removeLast_size]
      have : ¬ (q.fifo.count - 1 = q.fifo.size) := by omega
      rw [if_neg this, if_pos (by omega)]
      omega
  · rw [if_neg hf]
    dsimp only
    refine ⟨Lemmas.Fifo.inv_add _ _ hi, add_size _ _, ?_⟩
    rw [add_count, if_neg hf, if_neg (by omega)]

theorem clear_sync (q : Fifo.EQ) (hi : Fifo.Inv q.fifo) :
    Fifo.Inv q.clear.fifo ∧ q.clear.fifo.size = q.fifo.size ∧ q.clear.fifo.count = 0 := by
  obtain ⟨_, a, b, _⟩ := Lemmas.Fifo.step_refines q.fifo.size true q (Fifo.EQ.abs q) .clear ⟨hi, rfl, rfl⟩
  exact ⟨a, b, rfl⟩

theorem sysErrNext_sync (q : Fifo.EQ) (hi : Fifo.Inv q.fifo) :
    Fifo.Inv q.sysErrNext.1.fifo ∧ q.sysErrNext.1.fifo.size = q.fifo.size ∧
    q.sysErrNext.1.fifo.count = q.fifo.count - 1 :=
  ⟨Lemmas.Fifo.inv_remove _ hi, remove_size _, Lemmas.Fifo.count_remove _⟩

/-- register writes keep the queue bookkeeping of the status side -/
theorem regSet_sync (r : Regs.St) (n : Nat) (v : Regs.Reg) :
    (Regs.regSet r n v).qn = r.qn ∧ (Regs.regSet r n v).cap = r.cap := ⟨regSet_qn _ _ _, regSet_cap _ _ _⟩

theorem step_ok_of_status (r : Regs.St) (op : Regs.Op) (hop : op.ok = true) (hw : Regs.WF r) (hc : Regs.Coherent r) :
    Regs.WF (Regs.step r op) ∧ Regs.Coherent (Regs.step r op) :=
  ⟨Lemmas.Regs.wf_step r op hw, Lemmas.Regs.coherent_step r op hw hc hop⟩

theorem cls_sync (r : Regs.St) : (Regs.cls r).qn = 0 ∧ (Regs.cls r).cap = r.cap := by
  rw [Lemmas.Regs.cls_eq]
  refine ⟨?_, ?_⟩
  · rw [regSet_qn, regSet_qn, regSet_qn]; unfold Regs.errClear; rw [emitEmpty_qn]
  · rw [regSet_cap, regSet_cap, regSet_cap]; unfold Regs.errClear; rw [emitEmpty_cap]

theorem errPop_sync (r : Regs.St) : (Regs.errPop r).qn = r.qn - 1 ∧ (Regs.errPop r).cap = r.cap := by
  unfold Regs.errPop
  exact ⟨by rw [emitEmpty_qn], by rw [emitEmpty_cap]⟩

theorem statusOK_inv : StatusInv StatusOK := by
  refine ⟨?_, ?_, ?_⟩
  · -- error push
    intro r q w code info n ⟨hw, hc, hi, hq, hcap⟩
    obtain ⟨a, b⟩ := step_ok_of_status r (.errPush code) rfl hw hc
    obtain ⟨p1, p2, p3⟩ := push_sync q w code info n hi
    obtain ⟨t, e, _⟩ := Lemmas.Regs.errPush_spec r code (Lemmas.Regs.wfLen hw)
    refine ⟨a, b, p1, ?_, ?_⟩
    · rw [e, p3, hq, hcap]
    · rw [t.cap, p2, hcap]
  · -- a handler of the library
    intro r q b ⟨hw, hc, hi, hq, hcap⟩
    cases b
    case cls =>
      obtain ⟨a, b⟩ := step_ok_of_status r .cls rfl hw hc
      obtain ⟨p1, p2, p3⟩ := clear_sync q hi
      obtain ⟨s1, s2⟩ := cls_sync r
      refine ⟨a, b, p1, ?_, ?_⟩
      · show (Regs.cls r).qn = q.clear.fifo.count
        rw [p3]; exact s1
      · show (Regs.cls r).cap = q.clear.fifo.size
        rw [p2, ← hcap]; exact s2
    case errNextQ =>
      obtain ⟨a, b⟩ := step_ok_of_status r .errPop rfl hw hc
      obtain ⟨p1, p2, p3⟩ := sysErrNext_sync q hi
      obtain ⟨s1, s2⟩ := errPop_sync r
      refine ⟨a, b, p1, ?_, ?_⟩
      · show (Regs.errPop r).qn = q.sysErrNext.1.fifo.count
        rw [p3, ← hq]; exact s1
      · show (Regs.errPop r).cap = q.sysErrNext.1.fifo.size
        rw [p2, ← hcap]; exact s2
    case esrQ =>
      obtain ⟨a, b⟩ := step_ok_of_status r .esrQ rfl hw hc
      exact ⟨a, b, hi, (regSet_qn _ _ _).trans hq, (regSet_cap _ _ _).trans hcap⟩
    case quesEvenQ =>
      obtain ⟨a, b⟩ := step_ok_of_status r .quesQ rfl hw hc
      exact ⟨a, b, hi, (regSet_qn _ _ _).trans hq, (regSet_cap _ _ _).trans hcap⟩
    case operEvenQ =>
      obtain ⟨a, b⟩ := step_ok_of_status r .operQ rfl hw hc
      exact ⟨a, b, hi, (regSet_qn _ _ _).trans hq, (regSet_cap _ _ _).trans hcap⟩
    case pres =>
      obtain ⟨a, b⟩ := step_ok_of_status r .preset rfl hw hc
      exact ⟨a, b, hi, (regSet_qn _ _ _).trans hq, (regSet_cap _ _ _).trans hcap⟩
    case opc =>
      obtain ⟨a, b⟩ := step_ok_of_status r (.setBits Regs.ESR (Regs.bv Gen.ESR_OPC)) (by decide) hw hc
      exact ⟨a, b, hi, (regSet_qn _ _ _).trans hq, (regSet_cap _ _ _).trans hcap⟩
    all_goals exact ⟨hw, hc, hi, hq, hcap⟩
  · -- *ESE, *SRE, STAT:...:ENAB
    intro r q reg v hreg ⟨hw, hc, hi, hq, hcap⟩
    have hop : (Regs.Op.set reg v).ok = true := by
      show (reg != Regs.STB) = true
      exact bne_iff_ne.mpr hreg
    obtain ⟨a, b⟩ := step_ok_of_status r (.set reg v) hop hw hc
    exact ⟨a, b, hi, (regSet_qn _ _ _).trans hq, (regSet_cap _ _ _).trans hcap⟩

/-- a freshly initialised context -/
theorem statusOK_init (cmds : List Cmd) (choices : List (List (Bytes × Int))) (bufLen queueCap : Nat) (withInfo : Bool)
    (hcap : 1 ≤ queueCap) :
    KC StatusOK (Ctx.init cmds choices bufLen queueCap withInfo) :=
  ⟨Lemmas.Regs.wf_init queueCap hcap, Lemmas.Regs.coherent_init queueCap, Lemmas.Fifo.inv_init queueCap _ hcap, rfl, rfl⟩

/-- every state reachable by input calls is well formed and coherent, with the queue count in step -/
theorem statusOK_inputs (c : Ctx) (chunks : List Bytes) (h : KC StatusOK c) : KC StatusOK (chunks.foldl input c) :=
  kc_inputs statusOK_inv chunks c h

/-! ## Part 3: one unit whose script is a single handler of the library -/

open ScpiVerif.Lemmas.Isolation (pcReset pcBody pcTail pcOut)

/-- a script that is one library handler: the script's result is the handler's -/
theorem runScript_single (c : Ctx) (b : Builtin) : runScript c [.builtin b] = runBuiltin c b := by
  unfold runScript
  simp only [List.foldl, runOp, Bool.false_eq_true, if_false]
  generalize runBuiltin c b = r
  obtain ⟨c', ok⟩ := r
  cases ok <;> rfl

/-- the context in which the handler runs: per-unit fields reset, handler entry logged -/
def unitStart (c : Ctx) (cmd : Cmd) : Ctx :=
  emit (pcReset c) (.handler cmd.tag ((c.buf.drop c.rawOff).take c.rawLen))

theorem processCommand_single (c : Ctx) (cmd : Cmd) (b : Builtin) (hcur : c.cur = some cmd)
    (hs : cmd.script = [.builtin b]) :
    processCommand c = pcTail
      (let r := runBuiltin (unitStart c cmd) b
       if !r.2 then ((if !r.1.cmdError then pushError r.1 (-200) none else r.1), false) else (r.1, !r.1.cmdError)) := by
  rw [Lemmas.Isolation.processCommand_eq]
  congr 1
  have hc2 : (pcReset c).cur = some cmd := hcur
  unfold pcBody
  simp only [hc2, hs, runScript_single]
  rfl

/-- a handler that reads no parameter, in a unit without program data left over: the whole effect of the unit -/
theorem processCommand_pure (c : Ctx) (cmd : Cmd) (b : Builtin) (hcur : c.cur = some cmd)
    (hs : cmd.script = [.builtin b]) (hp : paramReg b = none) (hend : ¬ c.ppos < c.pbase + c.plen) :
    processCommand c =
      ({ c with cmdError := false, inputCount := 0, regs := bRegs c.regs b, eq := bEq c.eq b,
                out := pcOut (bOut c.regs c.eq b (pcReset c).out),
                events := c.events ++ [.handler cmd.tag ((c.buf.drop c.rawOff).take c.rawLen)] ++ bEvs c.regs b }, true) := by
  rw [processCommand_single c cmd b hcur hs, runBuiltin_pure _ b hp]
  unfold pcTail
  have hend' : ¬ (c.ppos < c.pbase + c.plen ∧ (!false) = true) := fun h => hend h.1
  simp only [unitStart, pcReset, emit, Bool.not_true, Bool.false_eq_true, if_false, Bool.not_false, and_true, hend]

/-! ### what the result writers append -/

/-- the separator `writeDelimiter` emits -/
def delim (o : Out) : Bytes := if o.outputCount > 0 then [44] else if o.outputCount < 0 then [59] else []

theorem pcOut_written (o : Out) : (pcOut o).written = o.written := by
  unfold pcOut endUnit
  split <;> rfl

theorem pcReset_delim (c : Ctx) : delim (pcReset c).out = unitSep c := by
  unfold delim pcReset unitSep
  cases c.out.firstOutput <;> simp

theorem pcReset_written (c : Ctx) : (pcReset c).out.written = c.out.written := rfl

theorem canon_small (n : Nat) (hn : n < 2^31) : IntFmt.canon 32 n 10 true = IntFmt.specDigits 10 n := by
  unfold IntFmt.canon IntFmt.effBase
  have : ¬ n ≥ 2^(32-1) := by omega
  simp [this]

/-- SCPI_ResultInt32 of 0 ≤ n < 2^31 appends the separator and the decimal text of n -/
theorem outNat_written (o : Out) (n : Nat) (hn : n < 2^31) :
    (outNat n o).written = o.written ++ delim o ++ Spec.Message.decimal n := by
  unfold outNat resultIntBaseSign
  dsimp only
  rw [Lemmas.Framing.toStr_chars 32 (Or.inl rfl) n (by omega) 10 true, canon_small n hn,
    Lemmas.Framing.basePrefix_eq, Lemmas.Framing.writeDelimiter_eq]
  simp [bump, writeData, delim, Spec.Message.decimal, charsToBytes]

theorem outReg_written (r : Regs.St) (reg : Nat) (o : Out) :
    (outReg r reg o).written = o.written ++ delim o ++ Spec.Message.decimal (Regs.get r reg).toNat := by
  unfold outReg
  exact outNat_written o _ (by have := (Regs.get r reg).isLt; omega)

theorem resultCharacters_written (o : Out) (d : Bytes) :
    (resultCharacters o d).written = o.written ++ delim o ++ d ∧ (resultCharacters o d).outputCount > 0 := by
  unfold resultCharacters
  rw [Lemmas.Framing.writeDelimiter_eq]
  simp only [bump, writeData, delim]
  refine ⟨by simp [List.append_assoc], ?_⟩
  split <;> omega

/-! ## Part 4: the message-level theorems (restated in Props/Instrument.lean) -/

/-- whatever the unit is, `processCommand` keeps the invariant -/
theorem unit_keeps_status (c : Ctx) (h : StatusOK c.regs c.eq) :
    StatusOK (processCommand c).1.regs (processCommand c).1.eq := kc_processCommand statusOK_inv c h

theorem runBuiltin_keeps_status (c : Ctx) (b : Builtin) (h : StatusOK c.regs c.eq) :
    StatusOK (runBuiltin c b).1.regs (runBuiltin c b).1.eq := kc_runBuiltin statusOK_inv c b h

/-! ### register facts -/

theorem get_regSet_simple (s : Regs.St) (n : Nat) (v : Regs.Reg) (m : Nat) (L : s.regs.length = 10) (hn : n < 10)
    (hn6 : n ≠ 6) (hn9 : n ≠ 9) (hm : m ≠ 0) :
    Regs.get (Regs.regSet s n v) m = if m = n then v else Regs.get s m := by
  rw [(Lemmas.Regs.regSet_spec s n v L).2.1 hn m hm]
  unfold Lemmas.Regs.expect
  simp [hn6, hn9]

theorem regSet_len (s : Regs.St) (n : Nat) (v : Regs.Reg) (L : s.regs.length = 10) :
    (Regs.regSet s n v).regs.length = 10 := ((Lemmas.Regs.regSet_spec s n v L).1).1.trans L

/-- *CLS on the registers: the three event registers are zero, every other register but the status byte is unchanged -/
theorem cls_regs (s : Regs.St) (L : s.regs.length = 10) :
    Regs.get (Regs.cls s) Regs.ESR = 0 ∧ Regs.get (Regs.cls s) Regs.OPER = 0 ∧ Regs.get (Regs.cls s) Regs.QUES = 0 ∧
    (∀ m, m ≠ 0 → m ≠ 2 → m ≠ 4 → m ≠ 7 → Regs.get (Regs.cls s) m = Regs.get s m) := by
  rw [Lemmas.Regs.cls_eq]
  obtain ⟨t, _, he, _⟩ := Lemmas.Regs.emitEmpty_spec (Lemmas.Regs.setQn s 0) L
  have Le : (Regs.errClear s).regs.length = 10 := t.len.trans L
  have he' : ∀ m, m ≠ 0 → Regs.get (Regs.errClear s) m = Regs.get s m := fun m hm => he m hm
  have L1 := regSet_len _ 2 0 Le
  have L2 := regSet_len _ 4 0 L1
  have g := fun (X : Regs.St) (n : Nat) (m : Nat) (LX : X.regs.length = 10) (hn : n < 10) (h6 : n ≠ 6) (h9 : n ≠ 9) (hm : m ≠ 0) =>
    get_regSet_simple X n 0 m LX hn h6 h9 hm
  refine ⟨?_, ?_, ?_, ?_⟩
  · show Regs.get _ 2 = 0
    rw [g _ 7 2 L2 (by decide) (by decide) (by decide) (by decide), if_neg (by decide),
      g _ 4 2 L1 (by decide) (by decide) (by decide) (by decide), if_neg (by decide),
      g _ 2 2 Le (by decide) (by decide) (by decide) (by decide), if_pos rfl]
  · show Regs.get _ 4 = 0
    rw [g _ 7 4 L2 (by decide) (by decide) (by decide) (by decide), if_neg (by decide),
      g _ 4 4 L1 (by decide) (by decide) (by decide) (by decide), if_pos rfl]
  · show Regs.get _ 7 = 0
    rw [g _ 7 7 L2 (by decide) (by decide) (by decide) (by decide), if_pos rfl]
  · intro m h0 h2 h4 h7
    rw [g _ 7 m L2 (by decide) (by decide) (by decide) h0, if_neg h7,
      g _ 4 m L1 (by decide) (by decide) (by decide) h0, if_neg h4,
      g _ 2 m Le (by decide) (by decide) (by decide) h0, if_neg h2]
    exact he' m h0

/-! ### queries -/

theorem pure_of_queryReg {b : Builtin} {reg : Nat} (h : queryReg b = some reg) : paramReg b = none := by
  cases b <;> first | rfl | cases h

/-- every register query of the library answers the decimal text of its register; queue untouched -/
theorem query_answers (c : Ctx) (cmd : Cmd) (b : Builtin) (reg : Nat) (hb : Bound c cmd b) (hq : queryReg b = some reg) :
    Answered c (processCommand c).1 (Spec.Message.decimal (Regs.get c.regs reg).toNat) ∧
    (processCommand c).2 = true ∧ (processCommand c).1.eq = c.eq ∧ (processCommand c).1.regs = bRegs c.regs b := by
  rw [processCommand_pure c cmd b hb.cur hb.script (pure_of_queryReg hq) hb.noData]
  unfold Answered
  dsimp only
  rw [pcOut_written]
  cases b <;> cases hq
  all_goals
    refine ⟨?_, rfl, rfl, rfl⟩
    show (outReg c.regs _ (pcReset c).out).written = _
    rw [outReg_written, pcReset_delim]
    rfl

/-- the three clearing queries: answer, then the event register is zero -/
theorem event_query_clears (c : Ctx) (cmd : Cmd) (b : Builtin) (reg : Nat) (hb : Bound c cmd b)
    (hq : (b = .esrQ ∧ reg = Regs.ESR) ∨ (b = .operEvenQ ∧ reg = Regs.OPER) ∨ (b = .quesEvenQ ∧ reg = Regs.QUES))
    (hs : StatusOK c.regs c.eq) :
    Answered c (processCommand c).1 (Spec.Message.decimal (Regs.get c.regs reg).toNat) ∧
    Regs.get (processCommand c).1.regs reg = 0 ∧
    (∀ m, m ≠ 0 → m ≠ reg → Regs.get (processCommand c).1.regs m = Regs.get c.regs m) ∧
    Regs.Coherent (processCommand c).1.regs ∧ (processCommand c).1.eq = c.eq := by
  have L := Lemmas.Regs.wfLen hs.1
  have hk := unit_keeps_status c hs
  rcases hq with ⟨rfl, rfl⟩ | ⟨rfl, rfl⟩ | ⟨rfl, rfl⟩
  · obtain ⟨a1, _, a3, a4⟩ := query_answers c cmd .esrQ Regs.ESR hb rfl
    refine ⟨a1, ?_, ?_, hk.2.1, a3⟩
    · rw [a4]; show Regs.get (Regs.regSet c.regs 2 0) 2 = 0
      rw [get_regSet_simple _ 2 0 2 L (by decide) (by decide) (by decide) (by decide), if_pos rfl]
    · intro m h0 hm
      rw [a4]; show Regs.get (Regs.regSet c.regs 2 0) m = _
      rw [get_regSet_simple _ 2 0 m L (by decide) (by decide) (by decide) h0]; exact if_neg hm
  · obtain ⟨a1, _, a3, a4⟩ := query_answers c cmd .operEvenQ Regs.OPER hb rfl
    refine ⟨a1, ?_, ?_, hk.2.1, a3⟩
    · rw [a4]; show Regs.get (Regs.regSet c.regs 4 0) 4 = 0
      rw [get_regSet_simple _ 4 0 4 L (by decide) (by decide) (by decide) (by decide), if_pos rfl]
    · intro m h0 hm
      rw [a4]; show Regs.get (Regs.regSet c.regs 4 0) m = _
      rw [get_regSet_simple _ 4 0 m L (by decide) (by decide) (by decide) h0]; exact if_neg hm
  · obtain ⟨a1, _, a3, a4⟩ := query_answers c cmd .quesEvenQ Regs.QUES hb rfl
    refine ⟨a1, ?_, ?_, hk.2.1, a3⟩
    · rw [a4]; show Regs.get (Regs.regSet c.regs 7 0) 7 = 0
      rw [get_regSet_simple _ 7 0 7 L (by decide) (by decide) (by decide) (by decide), if_pos rfl]
    · intro m h0 hm
      rw [a4]; show Regs.get (Regs.regSet c.regs 7 0) m = _
      rw [get_regSet_simple _ 7 0 m L (by decide) (by decide) (by decide) h0]; exact if_neg hm

/-- constant answers: *OPC? 1, *TST? 0, the query stub 0 -/
theorem const_query (c : Ctx) (cmd : Cmd) (b : Builtin) (n : Nat) (hb : Bound c cmd b)
    (hq : (b = .opcQ ∧ n = 1) ∨ (b = .tstQ ∧ n = 0) ∨ (b = .stubQ ∧ n = 0)) :
    Answered c (processCommand c).1 (Spec.Message.decimal n) ∧ (processCommand c).2 = true ∧
    (processCommand c).1.regs = c.regs ∧ (processCommand c).1.eq = c.eq := by
  have hp : paramReg b = none := by rcases hq with ⟨rfl, _⟩ | ⟨rfl, _⟩ | ⟨rfl, _⟩ <;> rfl
  rw [processCommand_pure c cmd b hb.cur hb.script hp hb.noData]
  unfold Answered
  dsimp only
  rw [pcOut_written]
  rcases hq with ⟨rfl, rfl⟩ | ⟨rfl, rfl⟩ | ⟨rfl, rfl⟩
  all_goals
    refine ⟨?_, rfl, rfl, rfl⟩
    show (outNat _ (pcReset c).out).written = _
    rw [outNat_written _ _ (by decide), pcReset_delim]
    rfl

/-- SYSTem:ERRor:COUNt? answers the number of queued entries -/
theorem err_count (c : Ctx) (cmd : Cmd) (hb : Bound c cmd .errCountQ) (hs : StatusOK c.regs c.eq)
    (hsz : c.eq.fifo.size < 2^31) :
    Answered c (processCommand c).1 (Spec.Message.decimal (Fifo.EQ.abs c.eq).length) ∧ (processCommand c).2 = true ∧
    (processCommand c).1.regs = c.regs ∧ (processCommand c).1.eq = c.eq := by
  rw [processCommand_pure c cmd .errCountQ hb.cur hb.script rfl hb.noData]
  unfold Answered
  dsimp only
  rw [pcOut_written]
  refine ⟨?_, rfl, rfl, rfl⟩
  have hi := hs.2.2.1
  have hlen : (Fifo.EQ.abs c.eq).length = c.eq.fifo.count := by
    rw [Lemmas.Fifo.eqabs_eq, List.length_map, Lemmas.Fifo.abs_length _ hi]
  have hle := hi.2.2.2.2.1
  show (outNat c.eq.count (pcReset c).out).written = _
  rw [outNat_written _ _ (by show c.eq.fifo.count < 2^31; omega), pcReset_delim, hlen]
  rfl

/-- *IDN?: the four identification fields, NULL fields as "0", separated by commas -/
theorem idn_answers (c : Ctx) (cmd : Cmd) (fields : List (Option Bytes)) (hb : Bound c cmd (.idnQ fields)) :
    Answered c (processCommand c).1
      (idnField fields 0 ++ [44] ++ idnField fields 1 ++ [44] ++ idnField fields 2 ++ [44] ++ idnField fields 3) ∧
    (processCommand c).2 = true ∧ (processCommand c).1.regs = c.regs ∧ (processCommand c).1.eq = c.eq := by
  rw [processCommand_pure c cmd _ hb.cur hb.script rfl hb.noData]
  unfold Answered
  dsimp only
  rw [pcOut_written]
  refine ⟨?_, rfl, rfl, rfl⟩
  show ((List.range 4).foldl (fun o i => resultCharacters o (idnField fields i)) (pcReset c).out).written = _
  have hr : List.range 4 = [0, 1, 2, 3] := by decide
  rw [hr]
  simp only [List.foldl]
  obtain ⟨w0, p0⟩ := resultCharacters_written (pcReset c).out (idnField fields 0)
  obtain ⟨w1, p1⟩ := resultCharacters_written (resultCharacters (pcReset c).out (idnField fields 0)) (idnField fields 1)
  obtain ⟨w2, p2⟩ := resultCharacters_written
    (resultCharacters (resultCharacters (pcReset c).out (idnField fields 0)) (idnField fields 1)) (idnField fields 2)
  obtain ⟨w3, _⟩ := resultCharacters_written
    (resultCharacters (resultCharacters (resultCharacters (pcReset c).out (idnField fields 0)) (idnField fields 1)) (idnField fields 2))
    (idnField fields 3)
  rw [w3, w2, w1, w0, pcReset_delim]
  have d1 : delim (resultCharacters (pcReset c).out (idnField fields 0)) = [44] := by unfold delim; rw [if_pos p0]
  have d2 : delim (resultCharacters (resultCharacters (pcReset c).out (idnField fields 0)) (idnField fields 1)) = [44] := by
    unfold delim; rw [if_pos p1]
  have d3 : delim (resultCharacters (resultCharacters (resultCharacters (pcReset c).out (idnField fields 0)) (idnField fields 1)) (idnField fields 2)) = [44] := by
    unfold delim; rw [if_pos p2]
  rw [d1, d2, d3]
  simp [List.append_assoc, pcReset_written]

/-- SYSTem:VERSion? -/
theorem vers_answers (c : Ctx) (cmd : Cmd) (hb : Bound c cmd .versQ) :
    Answered c (processCommand c).1 (bytesOf Gen.STD_VERSION) ∧ (processCommand c).2 = true := by
  rw [processCommand_pure c cmd _ hb.cur hb.script rfl hb.noData]
  unfold Answered
  dsimp only
  rw [pcOut_written]
  refine ⟨?_, rfl⟩
  show (resultCharacters (pcReset c).out (bytesOf Gen.STD_VERSION)).written = _
  rw [(resultCharacters_written _ _).1, pcReset_delim]
  rfl

/-! ### commands without parameters -/

/-- *CLS -/
theorem cls_unit (c : Ctx) (cmd : Cmd) (hb : Bound c cmd .cls) (hs : StatusOK c.regs c.eq) :
    let c' := (processCommand c).1
    Regs.get c'.regs Regs.ESR = 0 ∧ Regs.get c'.regs Regs.OPER = 0 ∧ Regs.get c'.regs Regs.QUES = 0 ∧
    Fifo.EQ.abs c'.eq = [] ∧ c'.eq.count = 0 ∧ c'.regs.qn = 0 ∧
    Regs.Coherent c'.regs ∧ Regs.get c'.regs Regs.STB &&& Regs.bit Gen.STB_QMA = 0 ∧
    (∀ m, m ≠ 0 → m ≠ 2 → m ≠ 4 → m ≠ 7 → Regs.get c'.regs m = Regs.get c.regs m) ∧
    c'.out.written = c.out.written ∧ (processCommand c).2 = true := by
  have hk := unit_keeps_status c hs
  have L := Lemmas.Regs.wfLen hs.1
  rw [processCommand_pure c cmd .cls hb.cur hb.script rfl hb.noData] at hk ⊢
  dsimp only at hk ⊢
  obtain ⟨r1, r2, r3, r4⟩ := cls_regs c.regs L
  obtain ⟨q1, q2, q3⟩ := clear_sync c.eq hs.2.2.1
  have habs : Fifo.EQ.abs c.eq.clear = [] := by
    obtain ⟨_, _, _, a⟩ := Lemmas.Fifo.step_refines c.eq.fifo.size true c.eq (Fifo.EQ.abs c.eq) .clear ⟨hs.2.2.1, rfl, rfl⟩
    exact a
  have hqn : (Regs.cls c.regs).qn = 0 := (cls_sync c.regs).1
  refine ⟨r1, r2, r3, habs, q3, hqn, hk.2.1, ?_, r4, ?_, rfl⟩
  · -- the error-available bit: coherent state with an empty queue
    have hcoh : Regs.Coherent (Regs.cls c.regs) := hk.2.1
    have h4 := hcoh.2.2.2.1
    apply Decidable.byContradiction
    intro hne
    exact (h4.1 hne) hqn
  · rw [pcOut_written]; rfl

/-- *OPC sets the operation-complete bit of the standard event register -/
theorem opc_unit (c : Ctx) (cmd : Cmd) (hb : Bound c cmd .opc) (hs : StatusOK c.regs c.eq) :
    let c' := (processCommand c).1
    Regs.get c'.regs Regs.ESR = Regs.get c.regs Regs.ESR ||| Regs.bit Gen.ESR_OPC ∧
    Regs.Coherent c'.regs ∧ c'.eq = c.eq ∧ c'.out.written = c.out.written ∧ (processCommand c).2 = true := by
  have hk := unit_keeps_status c hs
  have L := Lemmas.Regs.wfLen hs.1
  rw [processCommand_pure c cmd .opc hb.cur hb.script rfl hb.noData] at hk ⊢
  dsimp only at hk ⊢
  refine ⟨?_, hk.2.1, rfl, by rw [pcOut_written]; rfl, rfl⟩
  show Regs.get (Regs.regSet c.regs 2 (Regs.get c.regs 2 ||| Regs.bv Gen.ESR_OPC)) 2 = _
  rw [get_regSet_simple _ 2 _ 2 L (by decide) (by decide) (by decide) (by decide), if_pos rfl]
  rfl

/-- *RST calls the reset callback once and touches nothing else; *WAI and the command stub do nothing -/
theorem rst_unit (c : Ctx) (cmd : Cmd) (hb : Bound c cmd .rst) :
    let c' := (processCommand c).1
    c'.events = c.events ++ [.handler cmd.tag ((c.buf.drop c.rawOff).take c.rawLen), .reset] ∧
    c'.regs = c.regs ∧ c'.eq = c.eq ∧ c'.out.written = c.out.written ∧ (processCommand c).2 = true := by
  rw [processCommand_pure c cmd .rst hb.cur hb.script rfl hb.noData]
  dsimp only
  refine ⟨by simp [bEvs], rfl, rfl, by rw [pcOut_written]; rfl, rfl⟩

/-! ### SYSTem:ERRor[:NEXT]? -/

theorem errorList_no_nul : Gen.errorList.all (fun p => (bytesOf p.2).all (· ≠ 0)) = true := by decide +kernel

theorem errFallback_no_nul : (bytesOf Gen.errFallback).all (· ≠ 0) = true := by decide +kernel

/-- the generated descriptions are C strings -/
theorem errorTranslate_no_nul (code : Int) : (errorTranslate code).all (· ≠ 0) = true := by
  unfold errorTranslate
  cases hf : Gen.errorList.find? (fun p => p.1 == code) with
  | none => exact errFallback_no_nul
  | some p => exact List.all_eq_true.mp errorList_no_nul p (List.mem_of_find?_eq_some hf)

/-- C18 in the form used here: what SCPI_ResultError appends when it is the first item of the response -/
theorem resultError_response (o : Out) (code : Int) (hc : -32768 ≤ code ∧ code ≤ 32767) (desc : Bytes) (text : Option Bytes)
    (hd : desc.all (· ≠ 0) = true) (hdne : desc ≠ []) (ht : ∀ t, text = some t → t.all (· ≠ 0) = true) (ho : o.outputCount = 0) :
    (resultError o code desc [text]).written = o.written ++ Spec.ErrorString.response code desc text := by
  have h1 := Lemmas.ErrorString.resultError_written o code hc desc [text] (Lemmas.ErrorString.all_ne_zero hd)
    (by
      intro p hp d hpd
      rw [List.mem_singleton] at hp
      subst hp
      exact Lemmas.ErrorString.all_ne_zero (ht d hpd)) ho
  have h2 := Lemmas.ErrorString.resultError_one_part o code hc desc text hd hdne ht ho
  rw [h1] at h2 ⊢
  simp only [List.drop_left] at h2
  rw [h2]

/-- the oldest entry and the rest, as SCPI_ErrorPop delivers them -/
theorem sysErrNext_abs (q : Fifo.EQ) (hi : Fifo.Inv q.fifo) :
    (q.sysErrNext.2.code, q.sysErrNext.2.info.map (·.2)) = (Fifo.EQ.abs q).head?.getD (0, none) ∧
    Fifo.EQ.abs q.sysErrNext.1 = (Fifo.EQ.abs q).tail := by
  obtain ⟨o, _, _, a⟩ := Lemmas.Fifo.step_refines q.fifo.size true q (Fifo.EQ.abs q) .sysErr ⟨hi, rfl, rfl⟩
  simp only [Fifo.EQ.step, Fifo.specStep, Fifo.specPop] at o a
  obtain ⟨h1, h2⟩ := Fifo.Obs.popped.inj o
  exact ⟨by rw [h1, h2], a⟩

theorem pcReset_count_first (c : Ctx) (h : c.out.firstOutput = true) : (pcReset c).out.outputCount = 0 := by
  simp [pcReset, h]

/-- SYSTem:ERRor[:NEXT]? as the first response of a message -/
theorem err_next_unit (c : Ctx) (cmd : Cmd) (hb : Bound c cmd .errNextQ) (hs : StatusOK c.regs c.eq)
    (hfirst : c.out.firstOutput = true) (code : Int) (text : Option Bytes)
    (hq : (Fifo.EQ.abs c.eq).head?.getD (0, none) = (code, text))
    (hc : -32768 ≤ code ∧ code ≤ 32767) (ht : ∀ t, text = some t → t.all (· ≠ 0) = true) :
    let c' := (processCommand c).1
    c'.out.written = c.out.written ++ Spec.ErrorString.response code (errorTranslate code) text ∧
    Fifo.EQ.abs c'.eq = (Fifo.EQ.abs c.eq).tail ∧
    (Regs.get c'.regs Regs.STB &&& Regs.bit Gen.STB_QMA ≠ 0 ↔ (Fifo.EQ.abs c.eq).tail ≠ []) ∧
    Regs.Coherent c'.regs ∧ (processCommand c).2 = true := by
  have hk := unit_keeps_status c hs
  rw [processCommand_pure c cmd .errNextQ hb.cur hb.script rfl hb.noData] at hk ⊢
  dsimp only at hk ⊢
  obtain ⟨e1, e2⟩ := sysErrNext_abs c.eq hs.2.2.1
  rw [hq] at e1
  obtain ⟨ec, et⟩ := Prod.mk.inj e1
  refine ⟨?_, e2, ?_, hk.2.1, rfl⟩
  · rw [pcOut_written]
    show (resultError (pcReset c).out c.eq.sysErrNext.2.code (errorTranslate c.eq.sysErrNext.2.code)
      [c.eq.sysErrNext.2.info.map (·.2)]).written = _
    rw [ec, et, resultError_response _ code hc _ text (errorTranslate_no_nul code)
      (Lemmas.ErrorString.description_total code).2 ht (pcReset_count_first c hfirst)]
    rfl
  · have hcoh : Regs.Coherent (bRegs c.regs .errNextQ) := hk.2.1
    have h4 := hcoh.2.2.2.1
    have hqn : (bRegs c.regs .errNextQ).qn = ((Fifo.EQ.abs c.eq).tail).length := by
      have := hk.2.2
      have hinv : Fifo.Inv c.eq.sysErrNext.1.fifo := this.1
      rw [this.2.1]
      show c.eq.sysErrNext.1.fifo.count = _
      rw [← e2, Lemmas.Fifo.eqabs_eq, List.length_map, Lemmas.Fifo.abs_length _ hinv]
    rw [h4, hqn]
    exact ⟨fun h h0 => h (by rw [h0]; rfl), fun h h0 => h (List.eq_nil_of_length_eq_zero h0)⟩

theorem no_error_text : Spec.ErrorString.response 0 (errorTranslate 0) none = bytesOf "0,\"No error\"" := by
  decide +kernel

/-! ### *ESE, *SRE, STATus:QUEStionable:ENABle, STATus:OPERation:ENABle -/

/-- a successful SCPI_Parameter changes nothing but the parameter cursor -/
theorem parameter_ok_frame (c : Ctx) (m : Bool) :
    (parameter c m).2.1 = true →
    (parameter c m).1.regs = c.regs ∧ (parameter c m).1.eq = c.eq ∧ (parameter c m).1.out = c.out ∧
    (parameter c m).1.cmdError = c.cmdError ∧ (parameter c m).1.events = c.events ∧
    (parameter c m).1.pbase = c.pbase ∧ (parameter c m).1.plen = c.plen := by
  unfold parameter
  simp only []
  repeat' split
  all_goals
    intro h
    first
      | (cases h; done)
      | exact ⟨rfl, rfl, rfl, rfl, rfl, rfl, rfl⟩

/-- a successful SCPI_ParamInt32 changes nothing but the parameter cursor -/
theorem paramInt_ok_frame (c : Ctx) (w : Nat) (s m : Bool) :
    (paramInt c w s m).2.1 = true →
    (paramInt c w s m).1.regs = c.regs ∧ (paramInt c w s m).1.eq = c.eq ∧ (paramInt c w s m).1.out = c.out ∧
    (paramInt c w s m).1.cmdError = c.cmdError ∧ (paramInt c w s m).1.events = c.events ∧
    (paramInt c w s m).1.pbase = c.pbase ∧ (paramInt c w s m).1.plen = c.plen := by
  have hp := parameter_ok_frame c m
  unfold paramInt
  generalize parameter c m = x at hp ⊢
  obtain ⟨c1, ok, t⟩ := x
  cases ok
  · intro h; cases h
  · dsimp only at hp ⊢
    simp only [Bool.not_true, Bool.false_eq_true, if_false]
    repeat' split
    all_goals
      intro h
      first
        | (cases h; done)
        | exact hp rfl

/-- no program data: the mandatory reader queues -109 and fails -/
theorem paramInt_missing (c : Ctx) (w : Nat) (s : Bool) (h : c.ppos ≥ c.pbase + c.plen) :
    paramInt c w s true = (pushError c (-109) none, false, 0) := by
  unfold paramInt parameter
  simp [h]

theorem paramReg_of_enableReg {b : Builtin} {reg : Nat} {qb : Builtin} (h : enableReg b = some (reg, qb)) :
    ∃ strict, paramReg b = some (reg, strict) ∧ reg ≠ 0 ∧ reg < 10 ∧ reg ≠ 6 ∧ reg ≠ 9 ∧ reg ≠ 2 ∧ queryReg qb = some reg := by
  cases b <;> simp only [enableReg, reduceCtorEq, Option.some.injEq, Prod.mk.injEq] at h <;> obtain ⟨rfl, rfl⟩ := h
  · exact ⟨true, rfl, by decide, by decide, by decide, by decide, by decide, rfl⟩
  · exact ⟨true, rfl, by decide, by decide, by decide, by decide, by decide, rfl⟩
  · exact ⟨false, rfl, by decide, by decide, by decide, by decide, by decide, rfl⟩
  · exact ⟨false, rfl, by decide, by decide, by decide, by decide, by decide, rfl⟩

/-- `X v`: whatever 32-bit value the reader delivers, its low 16 bits are stored — no range check -/
theorem enable_write (c : Ctx) (cmd : Cmd) (b : Builtin) (reg : Nat) (qb : Builtin) (hcur : c.cur = some cmd)
    (hscr : cmd.script = [.builtin b]) (he : enableReg b = some (reg, qb)) (hs : StatusOK c.regs c.eq)
    (cP : Ctx) (v : Int) (hv : paramInt (unitStart c cmd) 32 true true = (cP, true, v))
    (hend : ¬ cP.ppos < cP.pbase + cP.plen) :
    let c' := (processCommand c).1
    c'.regs = Regs.regSet c.regs reg (BitVec.ofInt 16 v) ∧ Regs.get c'.regs reg = BitVec.ofInt 16 v ∧
    (∀ m, m ≠ 0 → m ≠ reg → Regs.get c'.regs m = Regs.get c.regs m) ∧
    Regs.Coherent c'.regs ∧ c'.eq = c.eq ∧ c'.out.written = c.out.written ∧ (processCommand c).2 = true := by
  obtain ⟨strict, hp, h0, h10, h6, h9, _, _⟩ := paramReg_of_enableReg he
  have hk := unit_keeps_status c hs
  have L := Lemmas.Regs.wfLen hs.1
  have hf := paramInt_ok_frame (unitStart c cmd) 32 true true
  rw [hv] at hf
  obtain ⟨f1, f2, f3, f4, f5, f6, f7⟩ := hf rfl
  dsimp only at f1 f2 f3 f4 f5 f6 f7
  have hpc : processCommand c = ({ regStep cP (.set reg (Regs.bv v)) with out := pcOut cP.out }, true) := by
    rw [processCommand_single c cmd b hcur hscr, runBuiltin_param _ b reg strict hp, regFromParam_eq, hv]
    have hce : cP.cmdError = false := f4
    unfold pcTail
    simp only [if_true, Bool.true_or, Bool.not_true, Bool.false_eq_true, if_false, regStep, hce, Bool.not_false, and_true, hend]
  rw [hpc] at hk ⊢
  dsimp only [regStep] at hk ⊢
  have hregs : Regs.step cP.regs (.set reg (Regs.bv v)) = Regs.regSet c.regs reg (BitVec.ofInt 16 v) := by
    rw [f1]; rfl
  refine ⟨hregs, ?_, ?_, ?_, f2, ?_, rfl⟩
  · rw [hregs, get_regSet_simple _ reg _ reg L h10 h6 h9 h0, if_pos rfl]
  · intro m hm0 hmr
    rw [hregs, get_regSet_simple _ reg _ m L h10 h6 h9 hm0, if_neg hmr]
  · exact hk.2.1
  · rw [pcOut_written, f3]; rfl

/-- `X n` with 0 ≤ n < 65536 stores n, and the matching query then answers the decimal text of n -/
theorem enable_roundtrip (c : Ctx) (cmd : Cmd) (b : Builtin) (reg : Nat) (qb : Builtin) (hcur : c.cur = some cmd)
    (hscr : cmd.script = [.builtin b]) (he : enableReg b = some (reg, qb)) (hs : StatusOK c.regs c.eq)
    (n : Nat) (hn : n < 65536) (cP : Ctx) (hv : paramInt (unitStart c cmd) 32 true true = (cP, true, (n : Int)))
    (hend : ¬ cP.ppos < cP.pbase + cP.plen) :
    let c' := (processCommand c).1
    Regs.get c'.regs reg = BitVec.ofNat 16 n ∧
    (∀ m, m ≠ 0 → m ≠ reg → Regs.get c'.regs m = Regs.get c.regs m) ∧
    Regs.Coherent c'.regs ∧ c'.eq = c.eq ∧ c'.out.written = c.out.written ∧ (processCommand c).2 = true ∧
    (∀ (d : Ctx) (cmdQ : Cmd), Bound d cmdQ qb → d.regs = c'.regs →
      Answered d (processCommand d).1 (Spec.Message.decimal n)) := by
  obtain ⟨_, w2, w3, w4, w5, w6, w7⟩ := enable_write c cmd b reg qb hcur hscr he hs cP n hv hend
  obtain ⟨_, _, _, _, _, _, _, hqr⟩ := paramReg_of_enableReg he
  have hcast : BitVec.ofInt 16 (n : Int) = BitVec.ofNat 16 n := BitVec.ofInt_natCast 16 n
  refine ⟨by rw [w2, hcast], w3, w4, w5, w6, w7, ?_⟩
  intro d cmdQ hbd hd
  have := (query_answers d cmdQ qb reg hbd hqr).1
  rw [hd, w2, hcast] at this
  have ht : (BitVec.ofNat 16 n).toNat = n := by
    rw [BitVec.toNat_ofNat]; exact Nat.mod_eq_of_lt hn
  rw [ht] at this
  exact this

/-- `X` without a parameter: -109 is queued, the register is untouched, the unit fails — for all four commands
(`*ESE` / `*SRE` return an error, the STATus commands return OK; `processCommand` reports the same) -/
theorem enable_missing (c : Ctx) (cmd : Cmd) (b : Builtin) (reg : Nat) (qb : Builtin) (hcur : c.cur = some cmd)
    (hscr : cmd.script = [.builtin b]) (he : enableReg b = some (reg, qb)) (hs : StatusOK c.regs c.eq)
    (hend : c.ppos ≥ c.pbase + c.plen) :
    let c' := (processCommand c).1
    c'.regs = Regs.errPush c.regs (-109) ∧ c'.eq = (c.eq.push c.withInfo (-109) none 0 true).1 ∧
    Regs.get c'.regs reg = Regs.get c.regs reg ∧ errorsSince c c' = [-109] ∧
    c'.out.written = c.out.written ∧ (processCommand c).2 = false := by
  obtain ⟨strict, hp, h0, h10, h6, h9, h2, _⟩ := paramReg_of_enableReg he
  have L := Lemmas.Regs.wfLen hs.1
  have hpc : processCommand c =
      ({ pushError (unitStart c cmd) (-109) none with out := pcOut (unitStart c cmd).out }, false) := by
    rw [processCommand_single c cmd b hcur hscr, runBuiltin_param _ b reg strict hp, regFromParam_eq,
      paramInt_missing _ 32 true (show (unitStart c cmd).ppos ≥ (unitStart c cmd).pbase + (unitStart c cmd).plen from hend)]
    unfold pcTail
    rw [Lemmas.Isolation.pushError_eq]
    cases strict <;> simp
  rw [hpc]
  dsimp only
  rw [Lemmas.Isolation.pushError_eq]
  dsimp only
  refine ⟨rfl, rfl, ?_, ?_, by rw [pcOut_written]; rfl, rfl⟩
  · exact (Lemmas.Regs.errPush_spec c.regs (-109) L).2.2.1 reg h0 h2
  · unfold errorsSince
    simp only [unitStart, pcReset, emit, List.append_assoc, List.drop_left]
    by_cases hl : (c.eq.push c.withInfo (-109) none 0 true).2.length > 1 <;>
      simp [hl, countedCode, Fifo.overflowCode, List.filterMap_cons]

end ScpiVerif.Lemmas.Instrument
