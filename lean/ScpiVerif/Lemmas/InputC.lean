/-
Refinement of the hand-written model of SCPI_Input (Model/Ctx.lean: `Ctx.input`, `inputLoop`, `poke`) by the definition that
translate/c2lean_parser.py GENERATES from libscpi/src/parser.c on every run (Gen/InputC.lean: `SCPI_Input`, `SCPI_Input_loop1`).

The generated function has three parameters for the library functions it calls (scpiParser_detectProgramMessageUnit,
SCPI_Parse, SCPI_ErrorPush); they are instantiated here with the hand model's `Parser.detectUnit`, `Ctx.parse`,
`Ctx.pushError`, transported to the generated state `CCtx Ctx` (whose opaque component `rest` is the whole hand-model context).

Side conditions of the `Int` model of the C arithmetic, all proved here from `WF c` (buffer object of the declared length,
position inside it) and `bufLen ≤ INT_MAX`: no `wrapU64` / `wrapS32` ever wraps, every CHECK of the generated code passes
(`ub = false`: the NUL stores, memcpy and memmove stay inside the buffer, `buffer_free - 1` does not overflow), and the fuel the
translator emitted is sufficient (`outOfFuel = false`).
-/
import ScpiVerif.Gen.InputC
import ScpiVerif.Model.Ctx
import ScpiVerif.Lemmas.Bounds
import ScpiVerif.Lemmas.ChunkingLoop

namespace ScpiVerif.Lemmas.InputC
open ScpiVerif ScpiVerif.Gen.InputC ScpiVerif.Ctx
open ScpiVerif.Lexer (Bytes)

/-- the generated state over the hand model's context -/
abbrev CC := CCtx Ctx

/-! ### abstraction -/

/-- the hand model's view of a generated state: the explicit fields override those of `rest` -/
def toM (cc : CC) : Ctx :=
  { cc.rest with buf := cc.buffer_data, position := cc.buffer_position.toNat, bufLen := cc.buffer_length.toNat }

/-- a hand-model context as a generated state (`t`, `ht`: whatever parser_state holds from earlier calls) -/
def toC (c : Ctx) (t ht : Int) : CC :=
  { buffer_data := c.buf, buffer_position := c.position, buffer_length := c.bufLen, parser_state_termination := t,
    parser_state_programHeader_type := ht, ub := false, outOfFuel := false, rest := c }

/-- put a hand-model context back into a generated state -/
def fromM (m : Ctx) (cc : CC) : CC :=
  { cc with buffer_data := m.buf, buffer_position := m.position, buffer_length := m.bufLen, rest := m }

theorem toM_fromM (m : Ctx) (cc : CC) : toM (fromM m cc) = m := by
  cases m; simp [toM, fromM]

theorem toM_toC (c : Ctx) (t ht : Int) : toM (toC c t ht) = c := by
  cases c; simp [toM, toC]

/-! ### the external functions, instantiated with the hand model -/

/-- numeric values of the two C enums as the hand model has them (Parser.Termination.code, Lexer.TokType.code) -/
def termCode (t : Parser.Termination) : Int := (t.code : Int)
def typeCode (t : Lexer.TokType) : Int := (t.code : Int)

/-- the enum constants clang computed from the current source agree with the hand model's codes -/
theorem termCode_nl (t : Parser.Termination) : (termCode t == SCPI_MESSAGE_TERMINATION_NL) = (t == .nl) := by
  cases t <;> decide
theorem termCode_none (t : Parser.Termination) : (termCode t == SCPI_MESSAGE_TERMINATION_NONE) = (t == .none) := by
  cases t <;> decide
theorem typeCode_unknown (t : Lexer.TokType) : (typeCode t == SCPI_TOKEN_UNKNOWN) = (t == .unknown) := by
  cases t <;> decide

/-- scpiParser_detectProgramMessageUnit(&context->parser_state, buffer.data + off, len): reads the window, sets parser_state -/
def detectM (cc : CC) (off len : Int) : CC × Int :=
  let u := Parser.detectUnit ((cc.buffer_data.drop off.toNat).take len.toNat)
  ({ cc with parser_state_termination := termCode u.term, parser_state_programHeader_type := typeCode u.header.type }, u.consumed)

/-- SCPI_Parse(context, buffer.data + off, len) -/
def parseM (cc : CC) (off len : Int) : CC × Bool :=
  let r := Ctx.parse (toM cc) off.toNat len.toNat
  (fromM r.1 cc, r.2)

/-- SCPI_ErrorPush(context, code) -/
def pushM (cc : CC) (code : Int) : CC := fromM (Ctx.pushError (toM cc) code none) cc

/-! ### bridging lemmas: conversions that do not wrap, buffer writes -/

theorem wrapU64_of_range (x : Int) (h0 : 0 ≤ x) (h1 : x ≤ 18446744073709551615) : wrapU64 x = x := by
  unfold wrapU64; omega
theorem wrapS32_of_range (x : Int) (h0 : -2147483648 ≤ x) (h1 : x ≤ 2147483647) : wrapS32 x = x := by
  unfold wrapS32; omega

theorem chk_eq {ρ : Type} (c : CCtx ρ) (ok : Bool) : c.chk ok = { c with ub := c.ub || !ok } := by
  cases ok <;> cases c <;> simp [CCtx.chk]

/-- memcpy / memmove of the generated code is the hand model's `poke` when the destination range is inside the buffer -/
theorem bwrite_eq_poke (b : Bytes) (off : Int) (src : Bytes) (h0 : 0 ≤ off) (h : off.toNat + src.length ≤ b.length) :
    bwrite b off src = poke b off.toNat src := by
  rw [Chunking.poke_eq b off.toNat src h]; rfl

theorem bslice_eq (b : Bytes) (off n : Int) : bslice b off n = (b.drop off.toNat).take n.toNat := rfl

/-! ### what the instantiated external functions do to the generated state (projection lemmas) -/

section proj
variable (cc : CC) (off len : Int)

@[simp] theorem detectM_snd : (detectM cc off len).2 =
    ((Parser.detectUnit ((cc.buffer_data.drop off.toNat).take len.toNat)).consumed : Int) := rfl
@[simp] theorem detectM_data : (detectM cc off len).1.buffer_data = cc.buffer_data := rfl
@[simp] theorem detectM_pos : (detectM cc off len).1.buffer_position = cc.buffer_position := rfl
@[simp] theorem detectM_len : (detectM cc off len).1.buffer_length = cc.buffer_length := rfl
@[simp] theorem detectM_ub : (detectM cc off len).1.ub = cc.ub := rfl
@[simp] theorem detectM_oof : (detectM cc off len).1.outOfFuel = cc.outOfFuel := rfl
@[simp] theorem detectM_rest : (detectM cc off len).1.rest = cc.rest := rfl
@[simp] theorem detectM_term : (detectM cc off len).1.parser_state_termination =
    termCode (Parser.detectUnit ((cc.buffer_data.drop off.toNat).take len.toNat)).term := rfl
@[simp] theorem detectM_type : (detectM cc off len).1.parser_state_programHeader_type =
    typeCode (Parser.detectUnit ((cc.buffer_data.drop off.toNat).take len.toNat)).header.type := rfl
@[simp] theorem detectM_toM : toM (detectM cc off len).1 = toM cc := rfl

@[simp] theorem parseM_snd : (parseM cc off len).2 = (Ctx.parse (toM cc) off.toNat len.toNat).2 := by simp only [parseM, pushM, fromM]
@[simp] theorem parseM_data : (parseM cc off len).1.buffer_data = (Ctx.parse (toM cc) off.toNat len.toNat).1.buf := by simp only [parseM, pushM, fromM]
@[simp] theorem parseM_pos : (parseM cc off len).1.buffer_position = ((Ctx.parse (toM cc) off.toNat len.toNat).1.position : Int) := by simp only [parseM, pushM, fromM]
@[simp] theorem parseM_len : (parseM cc off len).1.buffer_length = ((Ctx.parse (toM cc) off.toNat len.toNat).1.bufLen : Int) := by simp only [parseM, pushM, fromM]
@[simp] theorem parseM_ub : (parseM cc off len).1.ub = cc.ub := by simp only [parseM, pushM, fromM]
@[simp] theorem parseM_oof : (parseM cc off len).1.outOfFuel = cc.outOfFuel := by simp only [parseM, pushM, fromM]
@[simp] theorem parseM_rest : (parseM cc off len).1.rest = (Ctx.parse (toM cc) off.toNat len.toNat).1 := by simp only [parseM, pushM, fromM]
@[simp] theorem parseM_toM : toM (parseM cc off len).1 = (Ctx.parse (toM cc) off.toNat len.toNat).1 := toM_fromM _ _

@[simp] theorem pushM_data (code : Int) : (pushM cc code).buffer_data = (Ctx.pushError (toM cc) code none).buf := by simp only [parseM, pushM, fromM]
@[simp] theorem pushM_ub (code : Int) : (pushM cc code).ub = cc.ub := by simp only [parseM, pushM, fromM]
@[simp] theorem pushM_oof (code : Int) : (pushM cc code).outOfFuel = cc.outOfFuel := by simp only [parseM, pushM, fromM]
@[simp] theorem pushM_toM (code : Int) : toM (pushM cc code) = Ctx.pushError (toM cc) code none := toM_fromM _ _

@[simp] theorem toM_buf : (toM cc).buf = cc.buffer_data := rfl
@[simp] theorem toM_position : (toM cc).position = cc.buffer_position.toNat := rfl
@[simp] theorem toM_bufLen : (toM cc).bufLen = cc.buffer_length.toNat := rfl
@[simp] theorem toM_oob : (toM cc).oob = cc.rest.oob := rfl
@[simp] theorem toM_events : (toM cc).events = cc.rest.events := rfl

/-- a store into the buffer / a new position, seen through the abstraction -/
theorem toM_upd (d : Bytes) (p : Int) :
    toM { cc with buffer_data := d, buffer_position := p } = { toM cc with buf := d, position := p.toNat } := rfl
theorem toM_upd_data (d : Bytes) : toM { cc with buffer_data := d } = { toM cc with buf := d } := rfl
theorem toM_upd_pos (p : Int) : toM { cc with buffer_position := p } = { toM cc with position := p.toNat } := rfl
theorem toM_upd_ub (b : Bool) : toM { cc with ub := b } = toM cc := rfl
theorem toM_upd_oof (b : Bool) : toM { cc with outOfFuel := b } = toM cc := rfl

variable {ρ : Type} (c : CCtx ρ) (b : Bool)
@[simp] theorem chk_data : (c.chk b).buffer_data = c.buffer_data := by cases b <;> rfl
@[simp] theorem chk_pos : (c.chk b).buffer_position = c.buffer_position := by cases b <;> rfl
@[simp] theorem chk_len : (c.chk b).buffer_length = c.buffer_length := by cases b <;> rfl
@[simp] theorem chk_term : (c.chk b).parser_state_termination = c.parser_state_termination := by cases b <;> rfl
@[simp] theorem chk_type : (c.chk b).parser_state_programHeader_type = c.parser_state_programHeader_type := by cases b <;> rfl
@[simp] theorem chk_oof : (c.chk b).outOfFuel = c.outOfFuel := by cases b <;> rfl
@[simp] theorem chk_rest : (c.chk b).rest = c.rest := by cases b <;> rfl
@[simp] theorem chk_ub : (c.chk b).ub = (c.ub || !b) := by cases b <;> simp [CCtx.chk]
@[simp] theorem chk_toM (cc : CC) : toM (cc.chk b) = toM cc := by cases b <;> rfl
end proj

/-! ### the scan loop -/

/-- what the loop keeps: no failed CHECK, fuel left, the C ranges of the fields, a well-formed hand-model view -/
structure Inv (cc : CC) : Prop where
  ub : cc.ub = false
  oof : cc.outOfFuel = false
  pos0 : 0 ≤ cc.buffer_position
  len0 : 0 ≤ cc.buffer_length
  lenmax : cc.buffer_length ≤ 2147483647
  wf : WF (toM cc)

theorem inv_detect {cc : CC} (h : Inv cc) (a b : Int) : Inv (detectM cc a b).1 :=
  ⟨h.ub, h.oof, h.pos0, h.len0, h.lenmax, h.wf⟩

theorem loop_refines : ∀ (fuel : Nat) (cc : CC) (res : Bool) (tot cmdlen : Int), Inv cc → 0 ≤ tot → tot ≤ cc.buffer_position →
    (cc.buffer_position - tot).toNat < fuel →
    (toM (SCPI_Input_loop1 detectM parseM pushM fuel cc res tot cmdlen).1,
      (SCPI_Input_loop1 detectM parseM pushM fuel cc res tot cmdlen).2.1) = inputLoop fuel (toM cc) tot.toNat res ∧
    Inv (SCPI_Input_loop1 detectM parseM pushM fuel cc res tot cmdlen).1 := by
  intro fuel
  induction fuel with
  | zero => intro cc res tot cmdlen _ _ _ hf; omega
  | succ fuel ih =>
    intro cc res tot cmdlen hi h0 h1 hf
    obtain ⟨w1, w2, w3⟩ := hi.wf
    simp only [toM] at w1 w2 w3
    have hpos := hi.pos0
    have hl0 := hi.len0
    have hlm := hi.lenmax
    -- the window handed to the detector
    have hwin : ((cc.buffer_position - tot).toNat) = cc.buffer_position.toNat - tot.toNat := by omega
    have hprog := Props.C13.unit_spec ((cc.buffer_data.drop tot.toNat).take (cc.buffer_position.toNat - tot.toNat))
    have hwl : ((cc.buffer_data.drop tot.toNat).take (cc.buffer_position.toNat - tot.toNat)).length = cc.buffer_position.toNat - tot.toNat := by
      simp only [List.length_take, List.length_drop]; omega
    obtain ⟨_, _, _, _, hc1, hc2⟩ := hprog
    rw [hwl] at hc1
    have e1 : wrapS32 (wrapU64 (cc.buffer_position - tot)) = cc.buffer_position - tot := by
      rw [wrapU64_of_range _ (by omega) (by omega), wrapS32_of_range _ (by omega) (by omega)]
    obtain ⟨u, hu⟩ : ∃ u, Parser.detectUnit ((cc.buffer_data.drop tot.toNat).take (cc.buffer_position.toNat - tot.toNat)) = u := ⟨_, rfl⟩
    rw [hu] at hc1 hc2
    have e2 : wrapU64 (tot + wrapU64 (u.consumed : Int)) = tot + u.consumed := by
      rw [wrapU64_of_range (u.consumed : Int) (by omega) (by omega), wrapU64_of_range _ (by omega) (by omega)]
    have hnil : cc.buffer_position.toNat - tot.toNat = 0 → u.term = .none ∧ u.header.type = .unknown := by
      intro h0'
      rw [h0', List.take_zero] at hu
      rw [← hu]; exact Chunking.detect_nil
    simp only [SCPI_Input_loop1, inputLoop]
    simp only [detectM_snd, detectM_term, detectM_type, detectM_pos, e1, hwin, hu, e2, toM_buf, toM_position, termCode_nl, termCode_none, typeCode_unknown]
    have hiD := inv_detect hi tot (cc.buffer_position - tot)
    split
    · -- a complete message: parse it, move the remainder to the front, start again
      next hnl =>
      have hne : cc.buffer_position.toNat - tot.toNat ≠ 0 := by
        intro h0'; have := (hnil h0').1; rw [this] at hnl; exact absurd hnl (by decide)
      have hc3 : 1 ≤ u.consumed := hc2 (by
        intro hcon; have := congrArg List.length hcon; rw [hwl] at this; exact hne (by simpa using this))
      have e3 : wrapS32 (tot + (u.consumed : Int)) = tot + u.consumed := wrapS32_of_range _ (by omega) (by omega)
      have hn : (tot + (u.consumed : Int)).toNat = tot.toNat + u.consumed := by omega
      have hpf := Bounds.parse_frame (toM cc) 0 (tot.toNat + u.consumed) (by simp only [toM_buf]; omega) (by simpa using w3)
      obtain ⟨⟨m1, r1⟩, hpr⟩ : ∃ x, Ctx.parse (toM cc) 0 (tot.toNat + u.consumed) = x := ⟨_, rfl⟩
      rw [hpr] at hpf
      obtain ⟨p1, ⟨p2, _, _⟩, p3, p4⟩ := hpf
      simp only [toM_buf, toM_position, toM_bufLen] at p2 p3 p4
      have e4 : wrapU64 ((m1.position : Int) - (tot + u.consumed)) = (m1.position : Int) - (tot + u.consumed) :=
        wrapU64_of_range _ (by omega) (by omega)
      have hn2 : ((m1.position : Int) - (tot + u.consumed)).toNat = m1.position - (tot.toNat + u.consumed) := by omega
      refine (fun h => ⟨h.1.trans ?eq, h.2⟩) (ih _ _ _ _ ?inv (Int.le_refl 0) ?le ?fu)
      case eq =>
        have hs : (parseM (detectM cc tot (cc.buffer_position - tot)).fst 0 (wrapS32 (tot + ↑u.consumed))).snd = r1 := by
          simp only [parseM_snd, detectM_toM, e3, hn, Int.toNat_zero, hpr]
        rw [hs, hpr]
        congr 1
        simp only [toM_upd, chk_toM, chk_data, chk_pos, parseM_toM, parseM_data, parseM_pos, detectM_toM, e3, hn, Int.toNat_zero, hpr, e4, hn2,
          bslice_eq]
        rw [bwrite_eq_poke _ 0 _ (Int.le_refl 0) (by simp only [Int.toNat_zero, List.length_take, List.length_drop]; omega)]
        rfl
      case inv =>
        constructor <;>
          simp only [chk_ub, chk_oof, chk_len, chk_pos, chk_data, chk_toM, parseM_ub, parseM_oof, parseM_len, parseM_pos, parseM_data, parseM_toM,
            detectM_ub, detectM_oof, detectM_toM, e3, hn, Int.toNat_zero, hpr, e4, toM_upd]
        · simp only [hi.ub, Bool.false_or, Bool.not_eq_false', decide_eq_true_eq]; omega
        · exact hi.oof
        · omega
        · omega
        · omega
        · refine ⟨?_, ?_, by simp only [toM_oob, chk_rest, parseM_rest, detectM_toM, e3, hn, Int.toNat_zero, hpr]; exact p1⟩
          · show (bwrite _ _ _).length = _
            rw [bwrite_eq_poke _ 0 _ (Int.le_refl 0) (by simp only [bslice_eq, Int.toNat_zero, List.length_take, List.length_drop]; omega),
              Bounds.poke_length]
            simp only [toM_bufLen, parseM_len, chk_len, hpr]; omega
          · show ((m1.position : Int) - (tot + u.consumed)).toNat < _
            simp only [toM_bufLen, parseM_len, chk_len, hpr]; omega
      case le => simp only [chk_pos, parseM_pos, detectM_toM, e3, hn, Int.toNat_zero, hpr, e4]; omega
      case fu => simp only [chk_pos, parseM_pos, detectM_toM, e3, hn, Int.toNat_zero, hpr, e4]; omega
    · next hnl =>
      by_cases hb1 : u.header.type = .unknown ∧ u.term = .none
      · simp only [hb1.1, hb1.2, beq_self_eq_true, Bool.and_self, if_true, and_self]
        exact ⟨rfl, hiD⟩
      · have hb1' : ((u.header.type == Lexer.TokType.unknown) && (u.term == Parser.Termination.none)) = false := by
          by_cases h : u.header.type = .unknown <;> simp_all
        have hb1'' : ¬ ((u.header.type == Lexer.TokType.unknown) = true ∧ (u.term == Parser.Termination.none) = true) := by
          simpa using hb1
        simp only [hb1', hb1'', Bool.false_eq_true, if_false]
        by_cases hb2 : tot.toNat + u.consumed ≥ cc.buffer_position.toNat
        · have : tot + (u.consumed : Int) ≥ cc.buffer_position := by omega
          simp only [hb2, this, decide_true, if_true]
          exact ⟨rfl, hiD⟩
        · have : ¬ (tot + (u.consumed : Int) ≥ cc.buffer_position) := by omega
          simp only [hb2, this, decide_false, Bool.false_eq_true, if_false]
          have hc3 : 1 ≤ u.consumed := hc2 (by
            intro hcon; have := congrArg List.length hcon; rw [hwl] at this; simp at this; omega)
          have hn : (tot + (u.consumed : Int)).toNat = tot.toNat + u.consumed := by omega
          have := ih (detectM cc tot (cc.buffer_position - tot)).1 res (tot + u.consumed) (u.consumed : Int) hiD (by omega)
            (by simp only [detectM_pos]; omega) (by simp only [detectM_pos]; omega)
          rw [detectM_toM, hn] at this
          exact this

/-! ### SCPI_Input -/

theorem inv_toC (c : Ctx) (t ht : Int) (h : WF c) (hl : c.bufLen ≤ 2147483647) : Inv (toC c t ht) :=
  ⟨rfl, rfl, Int.natCast_nonneg _, Int.natCast_nonneg _, by show (c.bufLen : Int) ≤ _; omega, by rw [toM_toC]; exact h⟩

/-- overrun: nothing is copied, the buffer is invalidated, -363 is pushed, FALSE is returned -/
theorem input_overrun_refines (cc : CC) (hi : Inv cc) (data : Bytes) (hd : data ≠ [])
    (hlen : data.length ≤ 2147483647) (hov : data.length + 1 > (toM cc).bufLen - (toM cc).position) :
    Ctx.input (toM cc) data = emit (toM (SCPI_Input detectM parseM pushM cc (some data) data.length).1)
        (.input (SCPI_Input detectM parseM pushM cc (some data) data.length).2) ∧
    (SCPI_Input detectM parseM pushM cc (some data) data.length).1.ub = false ∧
    (SCPI_Input detectM parseM pushM cc (some data) data.length).1.outOfFuel = false ∧
    (SCPI_Input detectM parseM pushM cc (some data) data.length).2 = false := by
  obtain ⟨w1, w2, w3⟩ := hi.wf
  simp only [toM_buf, toM_position, toM_bufLen] at w1 w2 hov
  have hpos := hi.pos0
  have hlm := hi.lenmax
  have hl0 := hi.len0
  have hd1 : data.length ≠ 0 := by intro h; exact hd (List.length_eq_zero_iff.mp h)
  have hd' : ((data.length : Int) == 0) = false := by simp [hd1]
  have hd'' : (data.length == 0) = false := by simp [hd1]
  have hdl : (0 : Int) ≤ data.length := Int.natCast_nonneg _
  simp only [SCPI_Input, Ctx.input, hd', hd'', Bool.false_eq_true, if_false, toM_bufLen, toM_position, hov, if_true]
  -- whatever spelling the overrun test has: no conversion wraps, and the test succeeds
  simp (disch := omega) only [wrapU64_of_range, wrapS32_of_range, chk_data, chk_pos, chk_len, chk_term, chk_type, chk_rest, chk_oof, chk_ub, chk_toM]
  split
  · simp only [pushM_toM, pushM_ub, pushM_oof, chk_data, chk_pos, chk_len, chk_term, chk_type, chk_rest, chk_oof, chk_ub, chk_toM, Int.toNat_zero]
    refine ⟨by rfl, ?_, hi.oof, trivial⟩
    simp only [hi.ub, Bool.false_or, Bool.or_eq_false_iff, Bool.not_eq_false', decide_eq_true_eq]
    repeat' constructor
    all_goals omega
  · next hno =>
    exfalso
    simp only [decide_eq_true_eq] at hno
    omega

end ScpiVerif.Lemmas.InputC
