/-
Refinement of the hand-written model of SCPI_Input (Model/Ctx.lean: `Ctx.input`, `inputLoop`, `poke`) by the definition that
translate/c2lean_parser.py GENERATES from libscpi/src/parser.c on every run (Gen/InputC.lean: `SCPI_Input`, `SCPI_Input_loop1`).

The generated function has three parameters for the library functions it calls (scpiParser_detectProgramMessageUnit,
SCPI_Parse, SCPI_ErrorPush); they are instantiated here with the hand model's `Parser.detectUnit`, `Ctx.parse`,
`Ctx.pushError`, transported to the generated state `CCtx Ctx` (whose opaque component `rest` is the whole hand-model context).

Side conditions of the `Int` model of the C arithmetic, all proved here from `WF c` (buffer object of the declared length,
position inside it) and `bufLen ≤ INT_MAX`: no `wrapU64` / `wrapS32` ever wraps, every CHECK of the generated code passes
(`ub = false`: the NUL stores, memcpy and memmove stay inside the buffer, `buffer_free - 1` does not overflow), and the fuel the
translator emitted is sufficient (`outOfFuel = false`).
-/
import ScpiVerif.Gen.InputC
import ScpiVerif.Model.Ctx
import ScpiVerif.Lemmas.Bounds
import ScpiVerif.Lemmas.ChunkingLoop

namespace ScpiVerif.Lemmas.InputC
open ScpiVerif ScpiVerif.Gen.InputC ScpiVerif.Ctx
open ScpiVerif.Lexer (Bytes)

/-- the generated state over the hand model's context -/
abbrev CC := CCtx Ctx

/-! ### abstraction -/

/-- the hand model's view of a generated state: the explicit fields override those of `rest` -/
def toM (cc : CC) : Ctx :=
  { cc.rest with buf := cc.buffer_data, position := cc.buffer_position.toNat, bufLen := cc.buffer_length.toNat }

/-- a hand-model context as a generated state (`t`, `ht`: whatever parser_state holds from earlier calls) -/
def toC (c : Ctx) (t ht : Int) : CC :=
  { buffer_data := c.buf, buffer_position := c.position, buffer_length := c.bufLen, parser_state_termination := t,
    parser_state_programHeader_type := ht, ub := false, outOfFuel := false, rest := c }

/-- put a hand-model context back into a generated state -/
def fromM (m : Ctx) (cc : CC) : CC :=
  { cc with buffer_data := m.buf, buffer_position := m.position, buffer_length := m.bufLen, rest := m }

theorem toM_fromM (m : Ctx) (cc : CC) : toM (fromM m cc) = m := by
  cases m; simp [toM, fromM]

theorem toM_toC (c : Ctx) (t ht : Int) : toM (toC c t ht) = c := by
  cases c; simp [toM, toC]

/-! ### the external functions, instantiated with the hand model -/

/-- numeric values of the two C enums as the hand model has them (Parser.Termination.code, Lexer.TokType.code) -/
def termCode (t : Parser.Termination) : Int := (t.code : Int)
def typeCode (t : Lexer.TokType) : Int := (t.code : Int)

/-- the enum constants clang computed from the current source agree with the hand model's codes -/
theorem termCode_nl (t : Parser.Termination) : (termCode t == SCPI_MESSAGE_TERMINATION_NL) = (t == .nl) := by
  cases t <;> decide
theorem termCode_none (t : Parser.Termination) : (termCode t == SCPI_MESSAGE_TERMINATION_NONE) = (t == .none) := by
  cases t <;> decide
theorem typeCode_unknown (t : Lexer.TokType) : (typeCode t == SCPI_TOKEN_UNKNOWN) = (t == .unknown) := by
  cases t <;> decide

/-- scpiParser_detectProgramMessageUnit(&context->parser_state, buffer.data + off, len): reads the window, sets parser_state -/
def detectM (cc : CC) (off len : Int) : CC × Int :=
  let u := Parser.detectUnit ((cc.buffer_data.drop off.toNat).take len.toNat)
  ({ cc with parser_state_termination := termCode u.term, parser_state_programHeader_type := typeCode u.header.type }, u.consumed)

/-- SCPI_Parse(context, buffer.data + off, len) -/
def parseM (cc : CC) (off len : Int) : CC × Bool :=
  let r := Ctx.parse (toM cc) off.toNat len.toNat
  (fromM r.1 cc, r.2)

/-- SCPI_ErrorPush(context, code) -/
def pushM (cc : CC) (code : Int) : CC := fromM (Ctx.pushError (toM cc) code none) cc

/-! ### bridging lemmas: conversions that do not wrap, buffer writes -/

theorem wrapU64_of_range (x : Int) (h0 : 0 ≤ x) (h1 : x ≤ 18446744073709551615) : wrapU64 x = x := by
  unfold wrapU64; omega
theorem wrapS32_of_range (x : Int) (h0 : -2147483648 ≤ x) (h1 : x ≤ 2147483647) : wrapS32 x = x := by
  unfold wrapS32; omega

theorem chk_eq {ρ : Type} (c : CCtx ρ) (ok : Bool) : c.chk ok = { c with ub := c.ub || !ok } := by
  cases ok <;> cases c <;> simp [CCtx.chk]

/-- memcpy / memmove of the generated code is the hand model's `poke` when the destination range is inside the buffer -/
theorem bwrite_eq_poke (b : Bytes) (off : Int) (src : Bytes) (h0 : 0 ≤ off) (h : off.toNat + src.length ≤ b.length) :
    bwrite b off src = poke b off.toNat src := by
  rw [Chunking.poke_eq b off.toNat src h]; rfl

theorem bslice_eq (b : Bytes) (off n : Int) : bslice b off n = (b.drop off.toNat).take n.toNat := rfl

/-! ### what the instantiated external functions do to the generated state (projection lemmas) -/

section proj
variable (cc : CC) (off len : Int)

@[simp] theorem detectM_snd : (detectM cc off len).2 =
    ((Parser.detectUnit ((cc.buffer_data.drop off.toNat).take len.toNat)).consumed : Int) := rfl
@[simp] theorem detectM_data : (detectM cc off len).1.buffer_data = cc.buffer_data := rfl
@[simp] theorem detectM_pos : (detectM cc off len).1.buffer_position = cc.buffer_position := rfl
@[simp] theorem detectM_len : (detectM cc off len).1.buffer_length = cc.buffer_length := rfl
@[simp] theorem detectM_ub : (detectM cc off len).1.ub = cc.ub := rfl
@[simp] theorem detectM_oof : (detectM cc off len).1.outOfFuel = cc.outOfFuel := rfl
@[simp] theorem detectM_rest : (detectM cc off len).1.rest = cc.rest := rfl
@[simp] theorem detectM_term : (detectM cc off len).1.parser_state_termination =
    termCode (Parser.detectUnit ((cc.buffer_data.drop off.toNat).take len.toNat)).term := rfl
@[simp] theorem detectM_type : (detectM cc off len).1.parser_state_programHeader_type =
    typeCode (Parser.detectUnit ((cc.buffer_data.drop off.toNat).take len.toNat)).header.type := rfl
@[simp] theorem detectM_toM : toM (detectM cc off len).1 = toM cc := rfl

@[simp] theorem parseM_snd : (parseM cc off len).2 = (Ctx.parse (toM cc) off.toNat len.toNat).2 := by simp only [parseM, pushM, fromM]
@[simp] theorem parseM_data : (parseM cc off len).1.buffer_data = (Ctx.parse (toM cc) off.toNat len.toNat).1.buf := by simp only [parseM, pushM, fromM]
@[simp] theorem parseM_pos : (parseM cc off len).1.buffer_position = ((Ctx.parse (toM cc) off.toNat len.toNat).1.position : Int) := by simp only [parseM, pushM, fromM]
@[simp] theorem parseM_len : (parseM cc off len).1.buffer_length = ((Ctx.parse (toM cc) off.toNat len.toNat).1.bufLen : Int) := by simp only [parseM, pushM, fromM]
@[simp] theorem parseM_ub : (parseM cc off len).1.ub = cc.ub := by simp only [parseM, pushM, fromM]
@[simp] theorem parseM_oof : (parseM cc off len).1.outOfFuel = cc.outOfFuel := by simp only [parseM, pushM, fromM]
@[simp] theorem parseM_rest : (parseM cc off len).1.rest = (Ctx.parse (toM cc) off.toNat len.toNat).1 := by simp only [parseM, pushM, fromM]
@[simp] theorem parseM_toM : toM (parseM cc off len).1 = (Ctx.parse (toM cc) off.toNat len.toNat).1 := toM_fromM _ _

@[simp] theorem pushM_data (code : Int) : (pushM cc code).buffer_data = (Ctx.pushError (toM cc) code none).buf := by simp only [parseM, pushM, fromM]
@[simp] theorem pushM_ub (code : Int) : (pushM cc code).ub = cc.ub := by simp only [parseM, pushM, fromM]
@[simp] theorem pushM_oof (code : Int) : (pushM cc code).outOfFuel = cc.outOfFuel := by simp only [parseM, pushM, fromM]
@[simp] theorem pushM_toM (code : Int) : toM (pushM cc code) = Ctx.pushError (toM cc) code none := toM_fromM _ _

@[simp] theorem toM_buf : (toM cc).buf = cc.buffer_data := rfl
@[simp] theorem toM_position : (toM cc).position = cc.buffer_position.toNat := rfl
@[simp] theorem toM_bufLen : (toM cc).bufLen = cc.buffer_length.toNat := rfl
@[simp] theorem toM_oob : (toM cc).oob = cc.rest.oob := rfl
@[simp] theorem toM_events : (toM cc).events = cc.rest.events := rfl

/-- a store into the buffer / a new position, seen through the abstraction -/
theorem toM_upd (d : Bytes) (p : Int) :
    toM { cc with buffer_data := d, buffer_position := p } = { toM cc with buf := d, position := p.toNat } := rfl
theorem toM_upd_data (d : Bytes) : toM { cc with buffer_data := d } = { toM cc with buf := d } := rfl
theorem toM_upd_pos (p : Int) : toM { cc with buffer_position := p } = { toM cc with position := p.toNat } := rfl
theorem toM_upd_ub (b : Bool) : toM { cc with ub := b } = toM cc := rfl
theorem toM_upd_oof (b : Bool) : toM { cc with outOfFuel := b } = toM cc := rfl

variable {ρ : Type} (c : CCtx ρ) (b : Bool)
@[simp] theorem chk_data : (c.chk b).buffer_data = c.buffer_data := by cases b <;> rfl
@[simp] theorem chk_pos : (c.chk b).buffer_position = c.buffer_position := by cases b <;> rfl
@[simp] theorem chk_len : (c.chk b).buffer_length = c.buffer_length := by cases b <;> rfl
@[simp] theorem chk_term : (c.chk b).parser_state_termination = c.parser_state_termination := by cases b <;> rfl
@[simp] theorem chk_type : (c.chk b).parser_state_programHeader_type = c.parser_state_programHeader_type := by cases b <;> rfl
@[simp] theorem chk_oof : (c.chk b).outOfFuel = c.outOfFuel := by cases b <;> rfl
@[simp] theorem chk_rest : (c.chk b).rest = c.rest := by cases b <;> rfl
@[simp] theorem chk_ub : (c.chk b).ub = (c.ub || !b) := by cases b <;> simp [CCtx.chk]
@[simp] theorem chk_toM (cc : CC) : toM (cc.chk b) = toM cc := by cases b <;> rfl
end proj

/-! ### the scan loop -/

/-- what the loop keeps: no failed CHECK, fuel left, the C ranges of the fields, a well-formed hand-model view -/
structure Inv (cc : CC) : Prop where
  ub : cc.ub = false
  oof : cc.outOfFuel = false
  pos0 : 0 ≤ cc.buffer_position
  len0 : 0 ≤ cc.buffer_length
  lenmax : cc.buffer_length ≤ 2147483647
  wf : WF (toM cc)

theorem inv_detect {cc : CC} (h : Inv cc) (a b : Int) : Inv (detectM cc a b).1 :=
  ⟨h.ub, h.oof, h.pos0, h.len0, h.lenmax, h.wf⟩

theorem loop_refines : ∀ (fuel : Nat) (cc : CC) (res : Bool) (tot cmdlen : Int), Inv cc → 0 ≤ tot → tot ≤ cc.buffer_position →
    (cc.buffer_position - tot).toNat < fuel →
    (toM (SCPI_Input_loop1 detectM parseM pushM fuel cc res tot cmdlen).1,
      (SCPI_Input_loop1 detectM parseM pushM fuel cc res tot cmdlen).2.1) = inputLoop fuel (toM cc) tot.toNat res ∧
    Inv (SCPI_Input_loop1 detectM parseM pushM fuel cc res tot cmdlen).1 := by
  intro fuel
  induction fuel with
  | zero => intro cc res tot cmdlen _ _ _ hf; omega
  | succ fuel ih =>
    intro cc res tot cmdlen hi h0 h1 hf
    obtain ⟨w1, w2, w3⟩ := hi.wf
    simp only [toM] at w1 w2 w3
    have hpos := hi.pos0
    have hl0 := hi.len0
    have hlm := hi.lenmax
    -- the window handed to the detector
    have hwin : ((cc.buffer_position - tot).toNat) = cc.buffer_position.toNat - tot.toNat := by omega
    have hprog := Props.C13.unit_spec ((cc.buffer_data.drop tot.toNat).take (cc.buffer_position.toNat - tot.toNat))
    have hwl : ((cc.buffer_data.drop tot.toNat).take (cc.buffer_position.toNat - tot.toNat)).length = cc.buffer_position.toNat - tot.toNat := by
      simp only [List.length_take, List.length_drop]; omega
    obtain ⟨_, _, _, _, hc1, hc2⟩ := hprog
    rw [hwl] at hc1
    have e1 : wrapS32 (wrapU64 (cc.buffer_position - tot)) = cc.buffer_position - tot := by
      rw [wrapU64_of_range _ (by omega) (by omega), wrapS32_of_range _ (by omega) (by omega)]
    obtain ⟨u, hu⟩ : ∃ u, Parser.detectUnit ((cc.buffer_data.drop tot.toNat).take (cc.buffer_position.toNat - tot.toNat)) = u := ⟨_, rfl⟩
    rw [hu] at hc1 hc2
    have e2 : wrapU64 (tot + wrapU64 (u.consumed : Int)) = tot + u.consumed := by
      rw [wrapU64_of_range (u.consumed : Int) (by omega) (by omega), wrapU64_of_range _ (by omega) (by omega)]
    have hnil : cc.buffer_position.toNat - tot.toNat = 0 → u.term = .none ∧ u.header.type = .unknown := by
      intro h0'
      rw [h0', List.take_zero] at hu
      rw [← hu]; exact Chunking.detect_nil
    simp only [SCPI_Input_loop1, inputLoop]
    simp only [detectM_snd, detectM_term, detectM_type, detectM_pos, e1, hwin, hu, e2, toM_buf, toM_position, termCode_nl, termCode_none, typeCode_unknown]
    have hiD := inv_detect hi tot (cc.buffer_position - tot)
    split
    · -- a complete message: parse it, move the remainder to the front, start again
      next hnl =>
      have hne : cc.buffer_position.toNat - tot.toNat ≠ 0 := by
        intro h0'; have := (hnil h0').1; rw [this] at hnl; exact absurd hnl (by decide)
      have hc3 : 1 ≤ u.consumed := hc2 (by
        intro hcon; have := congrArg List.length hcon; rw [hwl] at this; exact hne (by simpa using this))
      have e3 : wrapS32 (tot + (u.consumed : Int)) = tot + u.consumed := wrapS32_of_range _ (by omega) (by omega)
      have hn : (tot + (u.consumed : Int)).toNat = tot.toNat + u.consumed := by omega
      have hpf := Bounds.parse_frame (toM cc) 0 (tot.toNat + u.consumed) (by simp only [toM_buf]; omega) (by simpa using w3)
      obtain ⟨⟨m1, r1⟩, hpr⟩ : ∃ x, Ctx.parse (toM cc) 0 (tot.toNat + u.consumed) = x := ⟨_, rfl⟩
      rw [hpr] at hpf
      obtain ⟨p1, ⟨p2, _, _⟩, p3, p4⟩ := hpf
      simp only [toM_buf, toM_position, toM_bufLen] at p2 p3 p4
      have e4 : wrapU64 ((m1.position : Int) - (tot + u.consumed)) = (m1.position : Int) - (tot + u.consumed) :=
        wrapU64_of_range _ (by omega) (by omega)
      have hn2 : ((m1.position : Int) - (tot + u.consumed)).toNat = m1.position - (tot.toNat + u.consumed) := by omega
      refine (fun h => ⟨h.1.trans ?eq, h.2⟩) (ih _ _ _ _ ?inv (Int.le_refl 0) ?le ?fu)
      case eq =>
        have hs : (parseM (detectM cc tot (cc.buffer_position - tot)).fst 0 (wrapS32 (tot + ↑u.consumed))).snd = r1 := by
          simp only [parseM_snd, detectM_toM, e3, hn, Int.toNat_zero, hpr]
        rw [hs, hpr]
        congr 1
        simp only [toM_upd, chk_toM, chk_data, chk_pos, parseM_toM, parseM_data, parseM_pos, detectM_toM, e3, hn, Int.toNat_zero, hpr, e4, hn2,
          bslice_eq]
        rw [bwrite_eq_poke _ 0 _ (Int.le_refl 0) (by simp only [Int.toNat_zero, List.length_take, List.length_drop]; omega)]
        rfl
      case inv =>
        constructor <;>
          simp only [chk_ub, chk_oof, chk_len, chk_pos, chk_data, chk_toM, parseM_ub, parseM_oof, parseM_len, parseM_pos, parseM_data, parseM_toM,
            detectM_ub, detectM_oof, detectM_toM, e3, hn, Int.toNat_zero, hpr, e4, toM_upd]
        · simp only [hi.ub, Bool.false_or, Bool.not_eq_false', decide_eq_true_eq]; omega
        · exact hi.oof
        · omega
        · omega
        · omega
        · refine ⟨?_, ?_, by simp only [toM_oob, chk_rest, parseM_rest, detectM_toM, e3, hn, Int.toNat_zero, hpr]; exact p1⟩
          · show (bwrite _ _ _).length = _
            rw [bwrite_eq_poke _ 0 _ (Int.le_refl 0) (by simp only [bslice_eq, Int.toNat_zero, List.length_take, List.length_drop]; omega),
              Bounds.poke_length]
            simp only [toM_bufLen, parseM_len, chk_len, hpr]; omega
          · show ((m1.position : Int) - (tot + u.consumed)).toNat < _
            simp only [toM_bufLen, parseM_len, chk_len, hpr]; omega
      case le => simp only [chk_pos, parseM_pos, detectM_toM, e3, hn, Int.toNat_zero, hpr, e4]; omega
      case fu => simp only [chk_pos, parseM_pos, detectM_toM, e3, hn, Int.toNat_zero, hpr, e4]; omega
    · next hnl =>
      by_cases hb1 : u.header.type = .unknown ∧ u.term = .none
      · simp only [hb1.1, hb1.2, beq_self_eq_true, Bool.and_self, if_true, and_self]
        exact ⟨rfl, hiD⟩
      · have hb1' : ((u.header.type == Lexer.TokType.unknown) && (u.term == Parser.Termination.none)) = false := by
          by_cases h : u.header.type = .unknown <;> simp_all
        have hb1'' : ¬ ((u.header.type == Lexer.TokType.unknown) = true ∧ (u.term == Parser.Termination.none) = true) := by
          simpa using hb1
        simp only [hb1', hb1'', Bool.false_eq_true, if_false]
        by_cases hb2 : tot.toNat + u.consumed ≥ cc.buffer_position.toNat
        · have : tot + (u.consumed : Int) ≥ cc.buffer_position := by omega
          simp only [hb2, this, decide_true, if_true]
          exact ⟨rfl, hiD⟩
        · have : ¬ (tot + (u.consumed : Int) ≥ cc.buffer_position) := by omega
          simp only [hb2, this, decide_false, Bool.false_eq_true, if_false]
          have hc3 : 1 ≤ u.consumed := hc2 (by
            intro hcon; have := congrArg List.length hcon; rw [hwl] at this; simp at this; omega)
          have hn : (tot + (u.consumed : Int)).toNat = tot.toNat + u.consumed := by omega
          have := ih (detectM cc tot (cc.buffer_position - tot)).1 res (tot + u.consumed) (u.consumed : Int) hiD (by omega)
            (by simp only [detectM_pos]; omega) (by simp only [detectM_pos]; omega)
          rw [detectM_toM, hn] at this
          exact this

/-! ### SCPI_Input -/

theorem inv_toC (c : Ctx) (t ht : Int) (h : WF c) (hl : c.bufLen ≤ 2147483647) : Inv (toC c t ht) :=
  ⟨rfl, rfl, Int.natCast_nonneg _, Int.natCast_nonneg _, by show (c.bufLen : Int) ≤ _; omega, by rw [toM_toC]; exact h⟩

/-- overrun: nothing is copied, the buffer is invalidated, -363 is pushed, FALSE is returned -/
theorem input_overrun_refines (cc : CC) (hi : Inv cc) (data : Bytes) (hd : data ≠ [])
    (hlen : data.length ≤ 2147483647) (hov : data.length + 1 > (toM cc).bufLen - (toM cc).position) :
    Ctx.input (toM cc) data = emit (toM (SCPI_Input detectM parseM pushM cc (some data) data.length).1)
        (.input (SCPI_Input detectM parseM pushM cc (some data) data.length).2) ∧
    (SCPI_Input detectM parseM pushM cc (some data) data.length).1.ub = false ∧
    (SCPI_Input detectM parseM pushM cc (some data) data.length).1.outOfFuel = false ∧
    (SCPI_Input detectM parseM pushM cc (some data) data.length).2 = false := by
  obtain ⟨w1, w2, w3⟩ := hi.wf
  simp only [toM_buf, toM_position, toM_bufLen] at w1 w2 hov
  have hpos := hi.pos0
  have hlm := hi.lenmax
  have hl0 := hi.len0
  have hd1 : data.length ≠ 0 := by intro h; exact hd (List.length_eq_zero_iff.mp h)
  have hd' : ((data.length : Int) == 0) = false := by simp [hd1]
  have hd'' : (data.length == 0) = false := by simp [hd1]
  have hdl : (0 : Int) ≤ data.length := Int.natCast_nonneg _
  simp only [SCPI_Input, Ctx.input, hd', hd'', Bool.false_eq_true, if_false, toM_bufLen, toM_position, hov, if_true]
  -- whatever spelling the overrun test has: no conversion wraps, and the test succeeds
  simp (disch := omega) only [wrapU64_of_range, wrapS32_of_range, chk_data, chk_pos, chk_len, chk_term, chk_type, chk_rest, chk_oof, chk_ub, chk_toM]
  split
  · simp only [pushM_toM, pushM_ub, pushM_oof, chk_data, chk_pos, chk_len, chk_term, chk_type, chk_rest, chk_oof, chk_ub, chk_toM, Int.toNat_zero]
    refine ⟨by rfl, ?_, hi.oof, trivial⟩
    simp only [hi.ub, Bool.false_or, Bool.or_eq_false_iff, Bool.not_eq_false', decide_eq_true_eq]
    repeat' constructor
    all_goals omega
  · next hno =>
    exfalso
    simp only [decide_eq_true_eq] at hno
    omega

/-! ### the flush path and the path of a chunk that fits; the general refinement -/

/-- `context->buffer.data[context->buffer.position] = 0;` with its CHECK, as the translator emits it -/
def storeNul (cc : CC) : CC :=
  let c := cc.chk (decide (0 ≤ cc.buffer_position ∧ cc.buffer_position < cc.buffer_data.length))
  { c with buffer_data := c.buffer_data.set c.buffer_position.toNat 0 }

theorem storeNul_toM (cc : CC) : toM (storeNul cc) = { toM cc with buf := (toM cc).buf.set (toM cc).position 0 } := by
  unfold storeNul; rw [toM_upd_data, chk_toM, chk_data, chk_pos]; rfl
@[simp] theorem storeNul_pos (cc : CC) : (storeNul cc).buffer_position = cc.buffer_position := chk_pos _ _
@[simp] theorem storeNul_len (cc : CC) : (storeNul cc).buffer_length = cc.buffer_length := chk_len _ _
@[simp] theorem storeNul_oof (cc : CC) : (storeNul cc).outOfFuel = cc.outOfFuel := chk_oof _ _
@[simp] theorem storeNul_data (cc : CC) : (storeNul cc).buffer_data = cc.buffer_data.set cc.buffer_position.toNat 0 := by
  unfold storeNul; simp only [chk_data, chk_pos]
@[simp] theorem storeNul_ub (cc : CC) : (storeNul cc).ub =
    (cc.ub || !decide (0 ≤ cc.buffer_position ∧ cc.buffer_position < cc.buffer_data.length)) := chk_ub _ _

theorem storeNul_ub_inv {cc : CC} (hi : Inv cc) : (storeNul cc).ub = false := by
  obtain ⟨w1, w2, w3⟩ := hi.wf
  simp only [toM_buf, toM_position, toM_bufLen] at w1 w2
  have := hi.pos0
  simp only [storeNul_ub, hi.ub, Bool.false_or, Bool.not_eq_false', decide_eq_true_eq]; omega

attribute [local irreducible] Ctx.parse Parser.detectUnit in
theorem input_flush_eq (cc : CC) : SCPI_Input detectM parseM pushM cc (some []) 0 =
    ({ (parseM (storeNul cc) 0 (wrapS32 (storeNul cc).buffer_position)).1 with buffer_position := 0 },
      (parseM (storeNul cc) 0 (wrapS32 (storeNul cc).buffer_position)).2) := by
  simp only [SCPI_Input, beq_self_eq_true, if_true]
  rfl

attribute [local irreducible] Ctx.parse in
theorem input_nil (m : Ctx) : Ctx.input m [] =
    emit { (Ctx.parse { m with buf := m.buf.set m.position 0 } 0 m.position).1 with position := 0 }
      (.input (Ctx.parse { m with buf := m.buf.set m.position 0 } 0 m.position).2) := rfl

attribute [local irreducible] Ctx.parse in
/-- flush: a zero-length call terminates the pending bytes, parses them as one message and empties the buffer -/
theorem input_flush_refines (cc : CC) (hi : Inv cc) :
    Ctx.input (toM cc) [] = emit (toM (SCPI_Input detectM parseM pushM cc (some []) 0).1)
        (.input (SCPI_Input detectM parseM pushM cc (some []) 0).2) ∧
    (SCPI_Input detectM parseM pushM cc (some []) 0).1.ub = false ∧
    (SCPI_Input detectM parseM pushM cc (some []) 0).1.outOfFuel = false := by
  obtain ⟨w1, w2, w3⟩ := hi.wf
  simp only [toM_buf, toM_position, toM_bufLen] at w1 w2
  have hpos := hi.pos0
  have hlm := hi.lenmax
  have e1 : wrapS32 cc.buffer_position = cc.buffer_position := wrapS32_of_range _ (by omega) (by omega)
  rw [input_flush_eq, storeNul_pos, e1, input_nil]
  refine ⟨?_, ?_, ?_⟩
  · show _ = emit (toM { (parseM (storeNul cc) 0 cc.buffer_position).1 with buffer_position := 0 }) (.input (parseM (storeNul cc) 0 cc.buffer_position).2)
    rw [toM_upd_pos (parseM (storeNul cc) 0 cc.buffer_position).1 0, parseM_toM (storeNul cc), parseM_snd (storeNul cc), storeNul_toM cc]
    rfl
  · show (parseM (storeNul cc) 0 cc.buffer_position).1.ub = false
    rw [parseM_ub]; exact storeNul_ub_inv hi
  · show (parseM (storeNul cc) 0 cc.buffer_position).1.outOfFuel = false
    rw [parseM_oof, storeNul_oof]; exact hi.oof

theorem inv_storeNul {cc : CC} (hi : Inv cc) : Inv (storeNul cc) := by
  refine ⟨storeNul_ub_inv hi, ?_, ?_, ?_, ?_, ?_, ?_, ?_⟩
  · rw [storeNul_oof]; exact hi.oof
  · rw [storeNul_pos]; exact hi.pos0
  · rw [storeNul_len]; exact hi.len0
  · rw [storeNul_len]; exact hi.lenmax
  · rw [storeNul_toM]; show (List.set _ _ _).length = _
    rw [List.length_set]; exact hi.wf.1
  · rw [storeNul_toM]; exact hi.wf.2.1
  · rw [storeNul_toM]; exact hi.wf.2.2

/-- `memcpy(&context->buffer.data[context->buffer.position], data, len); context->buffer.position += len;` with the CHECK -/
def copyIn (cc : CC) (data : Option Bytes) (len : Int) : CC :=
  let c := cc.chk (data.isSome && decide (0 ≤ cc.buffer_position ∧ cc.buffer_position + (wrapU64 len) ≤ cc.buffer_data.length ∧ 0 ≤ 0 ∧ 0 + (wrapU64 len) ≤ (data.getD []).length))
  let c := { c with buffer_data := bwrite c.buffer_data c.buffer_position (bslice (data.getD []) 0 (wrapU64 len)) }
  { c with buffer_position := wrapU64 (c.buffer_position + (wrapU64 len)) }

theorem copyIn_toM (cc : CC) (data : Option Bytes) (len : Int) : toM (copyIn cc data len) =
    { toM cc with buf := bwrite cc.buffer_data cc.buffer_position (bslice (data.getD []) 0 (wrapU64 len)),
                  position := (wrapU64 (cc.buffer_position + wrapU64 len)).toNat } := by
  unfold copyIn
  simp only [chk_data, chk_pos]
  rw [toM_upd, chk_toM]
@[simp] theorem copyIn_pos (cc : CC) (data : Option Bytes) (len : Int) :
    (copyIn cc data len).buffer_position = wrapU64 (cc.buffer_position + wrapU64 len) := by
  unfold copyIn; simp only [chk_pos]
@[simp] theorem copyIn_len (cc : CC) (data : Option Bytes) (len : Int) : (copyIn cc data len).buffer_length = cc.buffer_length := chk_len _ _
@[simp] theorem copyIn_oof (cc : CC) (data : Option Bytes) (len : Int) : (copyIn cc data len).outOfFuel = cc.outOfFuel := chk_oof _ _
@[simp] theorem copyIn_data (cc : CC) (data : Option Bytes) (len : Int) : (copyIn cc data len).buffer_data =
    bwrite cc.buffer_data cc.buffer_position (bslice (data.getD []) 0 (wrapU64 len)) := by
  unfold copyIn; simp only [chk_data, chk_pos]
@[simp] theorem copyIn_ub (cc : CC) (data : Option Bytes) (len : Int) : (copyIn cc data len).ub =
    (cc.ub || !(data.isSome && decide (0 ≤ cc.buffer_position ∧ cc.buffer_position + (wrapU64 len) ≤ cc.buffer_data.length ∧ 0 ≤ 0 ∧ 0 + (wrapU64 len) ≤ (data.getD []).length))) := chk_ub _ _

/-- the path of a chunk that fits, from the state after the overrun test: copy, terminate, scan -/
def fitsPath (c0 : CC) (data : Option Bytes) (len : Int) : CC × Bool :=
  let c2 := storeNul (copyIn c0 data len)
  let L := SCPI_Input_loop1 detectM parseM pushM ((c2.buffer_position + 2).toNat) c2 true 0 0
  (L.1, L.2.1)

attribute [local irreducible] Ctx.parse Parser.detectUnit inputLoop in
theorem input_nonempty_fits (m : Ctx) (data : Bytes) (hd : (data.length == 0) = false)
    (hov : ¬ data.length + 1 > m.bufLen - m.position) : Ctx.input m data =
    emit (inputLoop (m.position + data.length + 2)
        { m with buf := (poke m.buf m.position data).set (m.position + data.length) 0, position := m.position + data.length } 0 true).1
      (.input (inputLoop (m.position + data.length + 2)
        { m with buf := (poke m.buf m.position data).set (m.position + data.length) 0, position := m.position + data.length } 0 true).2) := by
  simp only [Ctx.input, hd, Bool.false_eq_true, if_false, hov]

attribute [local irreducible] Ctx.parse Parser.detectUnit inputLoop SCPI_Input_loop1 in
theorem fitsPath_refines (c0 : CC) (hi : Inv c0) (data : Bytes) (hd : data ≠ [])
    (hov : ¬ data.length + 1 > (toM c0).bufLen - (toM c0).position) :
    Ctx.input (toM c0) data = emit (toM (fitsPath c0 (some data) data.length).1) (.input (fitsPath c0 (some data) data.length).2) ∧
    (fitsPath c0 (some data) data.length).1.ub = false ∧ (fitsPath c0 (some data) data.length).1.outOfFuel = false ∧
    Inv (fitsPath c0 (some data) data.length).1 := by
  obtain ⟨w1, w2, w3⟩ := hi.wf
  simp only [toM_buf, toM_position, toM_bufLen] at w1 w2
  have hpos := hi.pos0
  have hlm := hi.lenmax
  have hl0 := hi.len0
  have hd1 : data.length ≠ 0 := by intro h; exact hd (List.length_eq_zero_iff.mp h)
  have hd'' : (data.length == 0) = false := by simp [hd1]
  have hov' : ¬ data.length + 1 > c0.buffer_length.toNat - c0.buffer_position.toNat := hov
  have e2 : wrapU64 (data.length : Int) = data.length := wrapU64_of_range _ (by omega) (by omega)
  have e3 : wrapU64 (c0.buffer_position + data.length) = c0.buffer_position + data.length := wrapU64_of_range _ (by omega) (by omega)
  have hsl : bslice data 0 (data.length : Int) = data := by
    simp only [bslice_eq, Int.toNat_zero, List.drop_zero, Int.toNat_natCast, List.take_length]
  have hbw : bwrite c0.buffer_data c0.buffer_position data = poke c0.buffer_data c0.buffer_position.toNat data :=
    bwrite_eq_poke _ _ _ hpos (by omega)
  have hn : (c0.buffer_position + (data.length : Int)).toNat = c0.buffer_position.toNat + data.length := by omega
  -- the state the loop starts from
  have hc1 : toM (copyIn c0 (some data) data.length) =
      { toM c0 with buf := poke (toM c0).buf (toM c0).position data, position := (toM c0).position + data.length } := by
    rw [copyIn_toM, e2, e3, Option.getD_some, hsl, hbw, hn]; rfl
  have hi1 : Inv (copyIn c0 (some data) data.length) := by
    refine ⟨?_, ?_, ?_, ?_, ?_, ?_, ?_, ?_⟩
    · simp only [copyIn_ub, hi.ub, Bool.false_or, e2, Option.isSome_some, Bool.true_and, Option.getD_some, Bool.not_eq_false',
        decide_eq_true_eq]
      omega
    · rw [copyIn_oof]; exact hi.oof
    · rw [copyIn_pos, e2, e3]; omega
    · rw [copyIn_len]; exact hl0
    · rw [copyIn_len]; exact hlm
    · rw [hc1]; show (poke _ _ _).length = _
      rw [Bounds.poke_length]; exact hi.wf.1
    · rw [hc1]; show c0.buffer_position.toNat + data.length < c0.buffer_length.toNat; omega
    · rw [hc1]; exact w3
  have hi2 := inv_storeNul hi1
  have hc2 : toM (storeNul (copyIn c0 (some data) data.length)) =
      { toM c0 with buf := (poke (toM c0).buf (toM c0).position data).set ((toM c0).position + data.length) 0,
                    position := (toM c0).position + data.length } := by
    rw [storeNul_toM, hc1]
  have hp2 : (storeNul (copyIn c0 (some data) data.length)).buffer_position = c0.buffer_position + data.length := by
    rw [storeNul_pos, copyIn_pos, e2, e3]
  have hL := loop_refines ((storeNul (copyIn c0 (some data) data.length)).buffer_position + 2).toNat _ true 0 0 hi2 (Int.le_refl 0)
    (by rw [hp2]; omega) (by rw [hp2]; omega)
  rw [input_nonempty_fits _ _ hd'' hov]
  have hfu : ((storeNul (copyIn c0 (some data) data.length)).buffer_position + 2).toNat = (toM c0).position + data.length + 2 := by
    rw [hp2]; show _ = c0.buffer_position.toNat + data.length + 2; omega
  have h1 := hL.1
  rw [hc2, Int.toNat_zero] at h1
  refine ⟨?_, hL.2.ub, hL.2.oof, hL.2⟩
  rw [← hfu, ← h1]
  rfl

theorem inv_chk {cc : CC} (hi : Inv cc) {b : Bool} (hb : b = true) : Inv (cc.chk b) := by
  subst hb; exact hi

attribute [local irreducible] Ctx.parse Parser.detectUnit inputLoop SCPI_Input_loop1 in
/-- the text of the generated SCPI_Input on the path of a chunk that fits: whatever spelling the overrun test has and whether or
not it comes with a CHECK (`b`), the test fails, the CHECK passes, and the statements after it are `fitsPath` -/
theorem input_fits_eq (cc : CC) (hi : Inv cc) (data : Bytes) (hd : data ≠ [])
    (hov : ¬ data.length + 1 > (toM cc).bufLen - (toM cc).position) :
    ∃ b : Bool, b = true ∧ SCPI_Input detectM parseM pushM cc (some data) data.length = fitsPath (cc.chk b) (some data) data.length := by
  obtain ⟨w1, w2, w3⟩ := hi.wf
  simp only [toM_buf, toM_position, toM_bufLen] at w1 w2 hov
  have hpos := hi.pos0
  have hlm := hi.lenmax
  have hl0 := hi.len0
  have hd1 : data.length ≠ 0 := by intro h; exact hd (List.length_eq_zero_iff.mp h)
  have hd' : ((data.length : Int) == 0) = false := by simp [hd1]
  have hdl : (0 : Int) ≤ data.length := Int.natCast_nonneg _
  simp only [SCPI_Input, hd', Bool.false_eq_true, if_false]
  split
  · next hno =>
    exfalso
    simp (disch := omega) only [wrapU64_of_range, wrapS32_of_range, decide_eq_true_eq] at hno
    omega
  · first
    | exact ⟨true, rfl, rfl⟩          -- the test comes without a CHECK (`cc.chk true` is `cc`)
    | refine ⟨_, ?_, rfl⟩
      simp (disch := omega) only [wrapU64_of_range, wrapS32_of_range, decide_eq_true_eq]
      omega

/-- the chunk fits: it is copied behind the pending bytes, terminated, and the scan loop runs -/
theorem input_fits_refines (cc : CC) (hi : Inv cc) (data : Bytes) (hd : data ≠ [])
    (hov : ¬ data.length + 1 > (toM cc).bufLen - (toM cc).position) :
    Ctx.input (toM cc) data = emit (toM (SCPI_Input detectM parseM pushM cc (some data) data.length).1)
        (.input (SCPI_Input detectM parseM pushM cc (some data) data.length).2) ∧
    (SCPI_Input detectM parseM pushM cc (some data) data.length).1.ub = false ∧
    (SCPI_Input detectM parseM pushM cc (some data) data.length).1.outOfFuel = false ∧
    Inv (SCPI_Input detectM parseM pushM cc (some data) data.length).1 := by
  obtain ⟨b, hb, hX⟩ := input_fits_eq cc hi data hd hov
  rw [hX]
  have := fitsPath_refines _ (inv_chk hi hb) data hd (by rw [chk_toM]; exact hov)
  rw [chk_toM] at this
  exact this

/-- generated SCPI_Input = hand model `Ctx.input` (the hand model logs the return value as an event), for every state `Inv`
describes and every chunk whose length is a C `int` - the empty one (flush) and over-long ones included; no CHECK fails and
the loop does not run out of fuel -/
theorem input_refines_inv (cc : CC) (hi : Inv cc) (data : Bytes) (hlen : data.length ≤ 2147483647) :
    Ctx.input (toM cc) data = emit (toM (SCPI_Input detectM parseM pushM cc (some data) data.length).1)
        (.input (SCPI_Input detectM parseM pushM cc (some data) data.length).2) ∧
    (SCPI_Input detectM parseM pushM cc (some data) data.length).1.ub = false ∧
    (SCPI_Input detectM parseM pushM cc (some data) data.length).1.outOfFuel = false := by
  by_cases hd : data = []
  · subst hd; exact input_flush_refines cc hi
  · by_cases hov : data.length + 1 > (toM cc).bufLen - (toM cc).position
    · have := input_overrun_refines cc hi data hd hlen hov
      exact ⟨this.1, this.2.1, this.2.2.1⟩
    · have := input_fits_refines cc hi data hd hov
      exact ⟨this.1, this.2.1, this.2.2.1⟩

/-- the same from a well-formed hand-model context whose buffer length fits an `int`, whatever parser_state holds -/
theorem input_refines (c : Ctx) (data : Bytes) (t ht : Int) (h : WF c) (hl : c.bufLen ≤ 2147483647)
    (hlen : data.length ≤ 2147483647) :
    Ctx.input c data = emit (toM (SCPI_Input detectM parseM pushM (toC c t ht) (some data) data.length).1)
        (.input (SCPI_Input detectM parseM pushM (toC c t ht) (some data) data.length).2) ∧
    (SCPI_Input detectM parseM pushM (toC c t ht) (some data) data.length).1.ub = false ∧
    (SCPI_Input detectM parseM pushM (toC c t ht) (some data) data.length).1.outOfFuel = false := by
  have := input_refines_inv (toC c t ht) (inv_toC c t ht h hl) data hlen
  rw [toM_toC] at this
  exact this

/-! ### `Inv` after the call, sequences of calls -/

theorem natCast_toNat_of_nonneg (x : Int) (h : 0 ≤ x) : ((x.toNat : Nat) : Int) = x := by omega

attribute [local irreducible] Ctx.parse in
theorem input_flush_inv (cc : CC) (hi : Inv cc) : Inv (SCPI_Input detectM parseM pushM cc (some []) 0).1 := by
  have hr := input_flush_refines cc hi
  have hw : WF (Ctx.input (toM cc) []) := Bounds.input_wf _ _ hi.wf
  rw [hr.1] at hw
  refine ⟨hr.2.1, hr.2.2, ?_, ?_, ?_, hw⟩
  all_goals rw [input_flush_eq]
  · exact Int.le_refl 0
  · show 0 ≤ (parseM (storeNul cc) 0 _).1.buffer_length
    rw [parseM_len]; exact Int.natCast_nonneg _
  · show (parseM (storeNul cc) 0 _).1.buffer_length ≤ _
    have hs := inv_storeNul hi
    obtain ⟨w1, w2, w3⟩ := hi.wf
    simp only [toM_buf, toM_position, toM_bufLen] at w1 w2
    have hpos := hi.pos0
    have hlm := hi.lenmax
    have e1 : wrapS32 cc.buffer_position = cc.buffer_position := wrapS32_of_range _ (by omega) (by omega)
    have := (Bounds.parse_frame (toM (storeNul cc)) 0 (wrapS32 (storeNul cc).buffer_position).toNat
      (by rw [storeNul_pos, e1, toM_buf, storeNul_data, List.length_set]; omega) hs.wf.2.2).2.2.1
    rw [parseM_len, Int.toNat_zero, this, toM_bufLen, storeNul_len]
    have := hi.lenmax; have := hi.len0; omega

theorem input_overrun_inv (cc : CC) (hi : Inv cc) (data : Bytes) (hd : data ≠ [])
    (hlen : data.length ≤ 2147483647) (hov : data.length + 1 > (toM cc).bufLen - (toM cc).position) :
    Inv (SCPI_Input detectM parseM pushM cc (some data) data.length).1 := by
  have hr := input_overrun_refines cc hi data hd hlen hov
  have hw : WF (Ctx.input (toM cc) data) := Bounds.input_wf _ _ hi.wf
  rw [hr.1] at hw
  obtain ⟨w1, w2, w3⟩ := hi.wf
  simp only [toM_buf, toM_position, toM_bufLen] at w1 w2 hov
  have hpos := hi.pos0
  have hlm := hi.lenmax
  have hl0 := hi.len0
  have hd1 : data.length ≠ 0 := by intro h; exact hd (List.length_eq_zero_iff.mp h)
  have hd' : ((data.length : Int) == 0) = false := by simp [hd1]
  have hdl : (0 : Int) ≤ data.length := Int.natCast_nonneg _
  refine ⟨hr.2.1, hr.2.2.1, ?_, ?_, ?_, hw⟩
  all_goals
    simp only [SCPI_Input, hd', Bool.false_eq_true, if_false]
    simp (disch := omega) only [wrapU64_of_range, wrapS32_of_range, chk_data, chk_pos, chk_len]
    split
    · simp only [pushM, fromM, Bounds.pushError_position, Bounds.pushError_bufLen, toM_bufLen, toM_position]
      omega
    · next hno =>
      exfalso
      simp only [decide_eq_true_eq] at hno
      omega

/-- `Inv` is kept by every call -/
theorem input_inv (cc : CC) (hi : Inv cc) (data : Bytes) (hlen : data.length ≤ 2147483647) :
    Inv (SCPI_Input detectM parseM pushM cc (some data) data.length).1 := by
  by_cases hd : data = []
  · subst hd; exact input_flush_inv cc hi
  · by_cases hov : data.length + 1 > (toM cc).bufLen - (toM cc).position
    · exact input_overrun_inv cc hi data hd hlen hov
    · exact (input_fits_refines cc hi data hd hov).2.2.2

/-- one call of the generated SCPI_Input as the hand model counts it: the caller appends the return value to the ghost log -/
def cstep (cc : CC) (d : Bytes) : CC :=
  let R := SCPI_Input detectM parseM pushM cc (some d) d.length
  fromM (emit (toM R.1) (.input R.2)) R.1

theorem cstep_refines (cc : CC) (hi : Inv cc) (d : Bytes) (hlen : d.length ≤ 2147483647) :
    toM (cstep cc d) = Ctx.input (toM cc) d ∧ Inv (cstep cc d) := by
  have hr := input_refines_inv cc hi d hlen
  have hI := input_inv cc hi d hlen
  have ht : toM (cstep cc d) = Ctx.input (toM cc) d := by rw [hr.1]; exact toM_fromM _ _
  refine ⟨ht, hI.ub, hI.oof, Int.natCast_nonneg _, Int.natCast_nonneg _, ?_, ?_⟩
  · show (((toM (SCPI_Input detectM parseM pushM cc (some d) d.length).1).bufLen : Nat) : Int) ≤ _
    have := hI.lenmax; have := hI.len0
    rw [toM_bufLen]; omega
  · rw [ht]; exact Bounds.input_wf _ _ hi.wf

/-- a sequence of calls: the generated function, called chunk by chunk, is the hand model's fold -/
theorem csteps_refine (chunks : List Bytes) : ∀ (cc : CC), Inv cc → (∀ d ∈ chunks, d.length ≤ 2147483647) →
    toM (chunks.foldl cstep cc) = chunks.foldl Ctx.input (toM cc) ∧ Inv (chunks.foldl cstep cc) := by
  induction chunks with
  | nil => intro cc hi _; exact ⟨rfl, hi⟩
  | cons d ds ih =>
    intro cc hi hl
    have h1 := cstep_refines cc hi d (hl d (List.mem_cons_self))
    have h2 := ih (cstep cc d) h1.2 (fun x hx => hl x (List.mem_cons_of_mem _ hx))
    rw [h1.1] at h2
    exact h2

end ScpiVerif.Lemmas.InputC
