/-
C08 helper lemmas, part 3: prefix stability of the scan of `SCPI_Input`.  When the scan finds a
complete message in `s`, it finds the same message in `s ++ y`, for streams without quote characters
and without CR.  Proved on the specification side (`Spec.specUnit`, which `detectUnit` agrees with,
C13): no word of a token language contains a line feed, so no token that starts before the line feed
ending the message can reach beyond it, and a definite-length block that is complete in `s` is the
same block in `s ++ y`.
-/
import ScpiVerif.Lemmas.ChunkingDefs
import ScpiVerif.Lemmas.ChunkingLoop
import ScpiVerif.Lemmas.ChunkingQuote
import ScpiVerif.Lemmas.Params
import ScpiVerif.Props.C13

namespace ScpiVerif.Lemmas.Chunking
open ScpiVerif ScpiVerif.Lexer ScpiVerif.Spec ScpiVerif.Props.C08 ScpiVerif.Parser

/-! ## regular-expression tokens -/

/-- no word of `r` contains a line feed or a carriage return -/
def NlFree (r : Re) : Prop := Params.reAll (fun b => b ≠ 10 ∧ b ≠ 13) r

/-- a line feed or a carriage return at index `i` -/
def NLat (s : Bytes) (i : Nat) : Prop := s[i]? = some 10 ∨ s[i]? = some 13

theorem mem_take_of_getElem? {s : Bytes} {i m : Nat} {b : UInt8} (h : s[i]? = some b) (hm : i < m) : b ∈ s.take m := by
  rw [List.mem_iff_getElem?]
  exact ⟨i, by rw [List.getElem?_take, if_pos hm]; exact h⟩

theorem getElem?_lt {s : Bytes} {i : Nat} {b : UInt8} (h : s[i]? = some b) : i < s.length := by
  by_cases hl : i < s.length
  · exact hl
  · rw [List.getElem?_eq_none (by omega)] at h; cases h

theorem NLat.lt {s : Bytes} {i : Nat} (h : NLat s i) : i < s.length := by
  rcases h with h | h <;> exact getElem?_lt h

theorem NLat.ne_nil {s : Bytes} {i : Nat} (h : NLat s i) : s ≠ [] := by
  intro h0; subst h0; rcases h with h | h <;> simp at h

/-- no word of a line-terminator-free language reaches over a line terminator -/
theorem NLat.kill {r : Re} (hr : NlFree r) {s : Bytes} {i m : Nat} (h : NLat s i) (hm : i < m) :
    ¬ Matches r (s.take m) := by
  intro hmat
  rcases h with h | h
  · exact (Params.matches_all hmat hr 10 (mem_take_of_getElem? h hm)).1 rfl
  · exact (Params.matches_all hmat hr 13 (mem_take_of_getElem? h hm)).2 rfl

theorem NLat.append {s : Bytes} {i : Nat} (h : NLat s i) (y : Bytes) : NLat (s ++ y) i := by
  have hl := h.lt
  rcases h with h | h
  · left; rw [List.getElem?_append_left hl]; exact h
  · right; rw [List.getElem?_append_left hl]; exact h

/-- a line terminator in `s` stops every match: the longest match in `s ++ y` is the one in `s` -/
theorem longest_stable (r : Re) (hr : NlFree r) (s y : Bytes) (i : Nat) (hi : NLat s i) :
    r.longest (s ++ y) = r.longest s := by
  have hil := hi.lt
  have kill : ∀ m, s.length < m → ¬ Matches r ((s ++ y).take m) := by
    intro m hm
    exact NLat.kill hr (hi.append y) (by omega)
  cases h : r.longest s with
  | some n =>
    rw [Regex.longest_is_longest] at h ⊢
    obtain ⟨h1, h2, h3⟩ := h
    refine ⟨by rw [List.length_append]; omega, by rw [List.take_append_of_le_length h1]; exact h2, ?_⟩
    intro m hm hml
    by_cases hms : m ≤ s.length
    · rw [List.take_append_of_le_length hms]; exact h3 m hm hms
    · exact kill m (by omega)
  | none =>
    rw [Regex.longest_none] at h ⊢
    intro m hml
    by_cases hms : m ≤ s.length
    · rw [List.take_append_of_le_length hms]; exact h m hms
    · exact kill m (by omega)

/-- every character class of the expression excludes the line feed -/
macro "nlfree" : tactic =>
  `(tactic| (repeat' apply And.intro) <;> first | trivial | (intro b h; constructor <;> (intro h0; subst h0; exact absurd h (by decide))))

theorem nlFree_ws : NlFree wsRe := by
  simp only [NlFree, wsRe, Re.plus, Params.reAll]; nlfree
theorem nlFree_mnemonic : NlFree mnemonic := by
  simp only [NlFree, mnemonic, Params.reAll]; nlfree
theorem nlFree_decimal : NlFree decimal := by
  simp only [NlFree, decimal, mantissa, exponent, digits, Re.opt, Re.plus, Re.c, Params.reAll]; nlfree
theorem nlFree_suffix : NlFree Spec.suffix := by
  simp only [NlFree, Spec.suffix, suffixTail, Re.opt, Re.plus, Re.c, Params.reAll]; nlfree
theorem nlFree_expression : NlFree expression := by
  simp only [NlFree, expression, Re.c, Params.reAll]; nlfree
theorem nlFree_hexnum : NlFree hexnum := by
  simp only [NlFree, hexnum, Re.plus, Re.c, Params.reAll]; nlfree
theorem nlFree_octnum : NlFree octnum := by
  simp only [NlFree, octnum, Re.plus, Re.c, Params.reAll]; nlfree
theorem nlFree_binnum : NlFree binnum := by
  simp only [NlFree, binnum, Re.plus, Re.c, Params.reAll]; nlfree
theorem nlFree_headerComplete : NlFree headerComplete := by
  simp only [NlFree, headerComplete, mnemonic, Re.opt, Re.c, Params.reAll]; nlfree
theorem nlFree_headerIncC : NlFree headerIncompleteCommon := by
  simp only [NlFree, headerIncompleteCommon, Re.c, Params.reAll]; nlfree
theorem nlFree_headerIncP : NlFree headerIncompleteCompound := by
  simp only [NlFree, headerIncompleteCompound, mnemonic, Re.opt, Re.c, Params.reAll]; nlfree

theorem head_append_of_ne (s y : Bytes) (h : s ≠ []) : (s ++ y).head? = s.head? := by
  cases s with
  | nil => exact absurd rfl h
  | cons a t => rfl

theorem ne_nil_of_getElem? {s : Bytes} {i : Nat} {b : UInt8} (h : s[i]? = some b) : s ≠ [] := by
  intro h0; subst h0; simp at h

theorem longest_le {r : Re} {s : Bytes} {n : Nat} (h : r.longest s = some n) : n ≤ s.length :=
  ((Regex.longest_is_longest r s n).1 h).1

theorem best_le (a b c : Option Nat) (L : Nat) (ha : ∀ n, a = some n → n ≤ L) (hb : ∀ n, b = some n → n ≤ L)
    (hc : ∀ n, c = some n → n ≤ L) : List.foldl max 0 (List.filterMap id [a, b, c]) ≤ L := by
  cases a <;> cases b <;> cases c <;> simp at ha hb hc ⊢ <;> omega

theorem specToken_header_stable (s y : Bytes) (i : Nat) (hi : NLat s i) :
    specToken .header (s ++ y) = specToken .header s := by
  have hne := hi.ne_nil
  have hl := hi.lt
  have hb := best_le (headerComplete.longest s) (headerIncompleteCommon.longest s) (headerIncompleteCompound.longest s)
    s.length (fun n h => longest_le h) (fun n h => longest_le h) (fun n h => longest_le h)
  simp only [specToken, longest_stable _ nlFree_headerComplete s y i hi, longest_stable _ nlFree_headerIncC s y i hi,
    longest_stable _ nlFree_headerIncP s y i hi, head_append_of_ne s y hne]
  rw [List.getElem?_append_left (by omega)]

theorem specToken_plain_stable (s y : Bytes) (i : Nat) (hi : NLat s i) :
    specToken .ws (s ++ y) = specToken .ws s ∧ specToken .chr (s ++ y) = specToken .chr s ∧
    specToken .decimal (s ++ y) = specToken .decimal s ∧ specToken .suffix (s ++ y) = specToken .suffix s ∧
    specToken .expression (s ++ y) = specToken .expression s ∧ specToken .nondecimal (s ++ y) = specToken .nondecimal s := by
  refine ⟨?_, ?_, ?_, ?_, ?_, ?_⟩
  · simp only [specToken, longest_stable _ nlFree_ws s y i hi]
  · simp only [specToken, longest_stable _ nlFree_mnemonic s y i hi]
  · simp only [specToken, longest_stable _ nlFree_decimal s y i hi]
  · simp only [specToken, longest_stable _ nlFree_suffix s y i hi]
  · simp only [specToken, longest_stable _ nlFree_expression s y i hi]
  · simp only [specToken, longest_stable _ nlFree_hexnum s y i hi, longest_stable _ nlFree_octnum s y i hi,
      longest_stable _ nlFree_binnum s y i hi]

/-- a token of one of the line-feed-free languages ends before the line feed -/
theorem longest_before {r : Re} (hr : NlFree r) {s : Bytes} {i n : Nat} (hi : NLat s i)
    (h : r.longest s = some n) : n ≤ i := by
  obtain ⟨h1, h2, _⟩ := (Regex.longest_is_longest r s n).1 h
  apply Classical.byContradiction
  intro hn
  exact NLat.kill hr hi (by omega) h2

/-! ## strings: nothing without a quote character -/

theorem quoted_head {q : UInt8} {u : Bytes} (h : Matches (quoted q) u) : q ∈ u := by
  unfold quoted at h
  obtain ⟨a, b, rfl, ha, _⟩ := Regex.matches_seq.1 h
  obtain ⟨x, rfl, hx⟩ := Regex.matches_chr.1 ha
  have : x = q := by simpa using hx
  subst this
  simp

theorem longestString_none (q : UInt8) (s : Bytes) (hq : q ∉ s) : longestString q s = none := by
  unfold longestString
  have : (List.range (s.length + 1)).filter (fun n => (quoted q).accepts (s.take n) && s[n]? != some q) = [] := by
    rw [List.filter_eq_nil_iff]
    intro n _ hn
    rw [Bool.and_eq_true] at hn
    have hm := (Regex.accepts_iff_matches _ _).1 hn.1
    exact hq (List.mem_of_mem_take (quoted_head hm))
  rw [this]
  rfl

theorem specToken_string_none (s : Bytes) (hq : NoQuotes s) : specToken .string s = none := by
  have h34 : (34 : UInt8) ∉ s := fun h => (hq 34 h).1 rfl
  have h39 : (39 : UInt8) ∉ s := fun h => (hq 39 h).2 rfl
  simp only [specToken, longestString_none 34 s h34, longestString_none 39 s h39]

/-! ## the line terminator -/

theorem longestAux_isNone (r : Re) (h : r.isNone = true) (t : Bytes) (n : Nat) (best : Option Nat) :
    r.longestAux t n best = best := by
  have hn : r.nullable = false := by
    cases hh : r.nullable with
    | false => rfl
    | true => exact absurd ((Regex.nullable_iff r).1 hh) (Regex.isNone_sound r [] h)
  cases t with
  | nil => simp [Re.longestAux, hn]
  | cons b t => simp [Re.longestAux, hn, h]

theorem newline_lf (t : Bytes) : newline.longest (10 :: t) = some 1 := by
  cases t with
  | nil => decide
  | cons b t =>
    simp [Re.longest, Re.longestAux, newline, Re.c, Re.deriv, Re.nullable, Re.isNone]
    exact longestAux_isNone _ (by decide) _ _ _

theorem newline_none (s : Bytes) (h10 : s.head? ≠ some 10) (h13 : s.head? ≠ some 13) : newline.longest s = none := by
  cases s with
  | nil => decide
  | cons b t =>
    have e10 : b ≠ 10 := by simpa using h10
    have e13 : b ≠ 13 := by simpa using h13
    simp [Re.longest, Re.longestAux, newline, Re.c, Re.deriv, Re.nullable, Re.isNone, e10, e13]
    exact longestAux_isNone _ (by decide) _ _ _

theorem newline_crlf (t : Bytes) : newline.longest (13 :: 10 :: t) = some 2 := by
  cases t with
  | nil => decide
  | cons b t =>
    simp [Re.longest, Re.longestAux, newline, Re.c, Re.deriv, Re.nullable, Re.isNone]
    exact longestAux_isNone _ (by decide) _ _ _

theorem newline_cr (b : UInt8) (t : Bytes) (hb : b ≠ 10) : newline.longest (13 :: b :: t) = some 1 := by
  simp [Re.longest, Re.longestAux, newline, Re.c, Re.deriv, Re.nullable, Re.isNone, hb]
  exact longestAux_isNone _ (by decide) _ _ _

/-! ## definite-length blocks -/

theorem specBlock_ne35 (a : UInt8) (t : Bytes) (h : a ≠ 35) : specBlock (a :: t) = .invalid := by
  unfold specBlock
  split
  · rename_i heq; cases heq; exact absurd rfl h
  · rfl

theorem specBlock_stable (s y : Bytes) (hne : s ≠ []) :
    (∀ h n, specBlock s = .valid h n → specBlock (s ++ y) = .valid h n) ∧
    (specBlock s = .invalid → specBlock (s ++ y) = .invalid) := by
  cases s with
  | nil => exact absurd rfl hne
  | cons a rest =>
    by_cases ha : a = 35
    · subst ha
      cases rest with
      | nil => constructor <;> (intros; simp [specBlock] at *)
      | cons d rest2 =>
        simp only [List.cons_append, specBlock]
        by_cases hd : (isDigit d && d != 48) = true
        · simp only [hd, if_true]
          by_cases hall : ((rest2.take (d.toNat - 48)).all isDigit) = true
          · simp only [hall, if_true]
            by_cases hlen : (rest2.take (d.toNat - 48)).length = d.toNat - 48
            · have ht : (rest2 ++ y).take (d.toNat - 48) = rest2.take (d.toNat - 48) := by
                rw [List.length_take] at hlen
                rw [List.take_append_of_le_length (by omega)]
              simp only [ht, hall, hlen, if_true]
              constructor
              · intro h n
                split
                · intro he
                  rw [if_pos (by rw [List.length_append]; omega)]
                  exact he
                · intro he; cases he
              · split <;> intro he <;> cases he
            · simp only [hlen, if_false]
              constructor
              · intro h n he; cases he
              · intro he; cases he
          · simp only [hall, Bool.false_eq_true, if_false]
            have hall' : ((rest2 ++ y).take (d.toNat - 48)).all isDigit = false := by
              rw [List.take_append, List.all_append]
              have : (rest2.take (d.toNat - 48)).all isDigit = false := by simpa using hall
              rw [this]; rfl
            simp [hall']
        · simp only [hd, Bool.false_eq_true, if_false]
          simp
    · rw [List.cons_append, specBlock_ne35 a rest ha, specBlock_ne35 a (rest ++ y) ha]
      simp

/-! ## one program data element -/

theorem noQuotes_left {s y : Bytes} (h : NoQuotes (s ++ y)) : NoQuotes s := fun b hb => h b (List.mem_append_left _ hb)

theorem noQuotes_drop {s : Bytes} (h : NoQuotes s) (n : Nat) : NoQuotes (s.drop n) := fun b hb => h b (List.mem_of_mem_drop hb)

theorem plain_le {r : Re} (hr : NlFree r) {ty : TokType} {s : Bytes} {i : Nat} {e : Expect} (hi : NLat s i)
    (h : (match r.longest s with
          | some n => if n > 0 then some (Expect.mk n ty 0 n) else none
          | none => none) = some e) : e.consumed ≤ i := by
  cases hl : r.longest s with
  | none => rw [hl] at h; cases h
  | some n =>
    rw [hl] at h
    dsimp only at h
    split at h
    · cases h; exact longest_before hr hi hl
    · cases h

theorem decimal_le {s : Bytes} {i : Nat} {e : Expect} (hi : NLat s i) (h : specToken .decimal s = some e) :
    e.consumed ≤ i := by
  simp only [specToken] at h
  exact plain_le nlFree_decimal hi h

theorem wsLen_le {s : Bytes} {i : Nat} (hi : NLat s i) : wsLen s ≤ i := by
  unfold wsLen
  cases h : specToken .ws s with
  | none => simp
  | some e =>
    simp only [specToken] at h
    have := plain_le nlFree_ws hi h
    simpa using this

/-- position `n ≤ i` of `s ++ y` seen from `n`: the rest of `s`, still with its line feed, then `y` -/
theorem drop_view (s y : Bytes) (i n : Nat) (hi : NLat s i) (hn : n ≤ i) :
    (s ++ y).drop n = s.drop n ++ y ∧ NLat (s.drop n) (i - n) := by
  have hl := hi.lt
  refine ⟨List.drop_append_of_le_length (by omega), ?_⟩
  unfold NLat
  rw [List.getElem?_drop]
  rw [show n + (i - n) = i by omega]; exact hi

theorem wsLen_stable (s y : Bytes) (i : Nat) (hi : NLat s i) : wsLen (s ++ y) = wsLen s := by
  unfold wsLen; rw [(specToken_plain_stable s y i hi).1]

theorem specData_stable (s y : Bytes) (i : Nat) (hi : NLat s i) (hq : StrOK (s ++ y))
    (hsw : specData s ≠ .swallow) : specData (s ++ y) = specData s := by
  obtain ⟨hws, hchr, hdec, hsuf, hexp, hnd⟩ := specToken_plain_stable s y i hi
  have hstr := specToken_string_stable s y i hi hq
  have hne := hi.ne_nil
  unfold specData at hsw ⊢
  simp only [hnd, hchr, hdec, hstr, hexp] at hsw ⊢
  cases h1 : specToken .nondecimal s with
  | some e => simp only
  | none =>
    cases h2 : specToken .chr s with
    | some e => simp only
    | none =>
      cases h3 : specToken .decimal s with
      | some e =>
        have hle := decimal_le hi h3
        obtain ⟨v1, v2⟩ := drop_view s y i e.consumed hi hle
        have hw := wsLen_stable _ y _ v2
        have hwl := wsLen_le v2
        obtain ⟨v3, v4⟩ := drop_view s y i (e.consumed + wsLen (s.drop e.consumed)) hi (by omega)
        have hs := (specToken_plain_stable _ y _ v4).2.2.2.1
        simp only [v1, hw, v3, hs]
      | none =>
        cases h5 : specToken .string s with
        | some e => simp only
        | none =>
          simp only [h1, h2, h3, h5] at hsw ⊢
          obtain ⟨b1, b2⟩ := specBlock_stable s y hne
          cases h4 : specBlock s with
          | valid h n => rw [b1 h n h4]
          | incomplete => rw [h4] at hsw; exact absurd rfl hsw
          | invalid => rw [b2 h4]

/-! ## the data list -/

def endpos : ListSpec → Nat
  | .ok c _ => c
  | .bad c => c

theorem specList_succ (fuel : Nat) (s : Bytes) (off cnt : Nat) :
    specList (fuel + 1) s off cnt =
      match specData (s.drop (off + wsLen (s.drop off))) with
      | .item n _ _ _ =>
        if (s.drop (off + wsLen (s.drop off) + n + wsLen (s.drop (off + wsLen (s.drop off) + n)))).head? == some 44 then
          specList fuel s (off + wsLen (s.drop off) + n + wsLen (s.drop (off + wsLen (s.drop off) + n)) + 1) (cnt + 1)
        else .ok (off + wsLen (s.drop off) + n + wsLen (s.drop (off + wsLen (s.drop off) + n))) (cnt + 1)
      | .swallow => .bad s.length
      | .none => if cnt == 0 then .ok (off + wsLen (s.drop off)) 0 else .bad (off + wsLen (s.drop off)) := rfl

theorem head_some_lt {s : Bytes} {n : Nat} {b : UInt8} (h : ((s.drop n).head? == some b) = true) : n < s.length := by
  apply Classical.byContradiction
  intro hn
  rw [List.drop_of_length_le (by omega)] at h
  simp at h

/-- the list ends at or after the offset it starts from -/
theorem specList_mono : ∀ (fuel : Nat) (s : Bytes) (off cnt : Nat), off ≤ s.length →
    off ≤ endpos (specList fuel s off cnt) := by
  intro fuel
  induction fuel with
  | zero => intro s off cnt _; exact Nat.le_refl _
  | succ fuel ih =>
    intro s off cnt hoff
    rw [specList_succ]
    split
    · split
      · rename_i n _ _ _ _ hc
        have hlt := head_some_lt hc
        have := ih s (off + wsLen (s.drop off) + n + wsLen (s.drop (off + wsLen (s.drop off) + n)) + 1) (cnt + 1) (by omega)
        omega
      · simp only [endpos]; omega
    · exact hoff
    · split
      · simp only [endpos]; omega
      · simp only [endpos]; omega

/-- with enough fuel the list does not depend on the fuel -/
theorem specList_fuel : ∀ (f1 f2 : Nat) (s : Bytes) (off cnt : Nat), off ≤ s.length → s.length - off < f1 → s.length - off < f2 →
    specList f1 s off cnt = specList f2 s off cnt := by
  intro f1
  induction f1 with
  | zero => intro f2 s off cnt _ h; omega
  | succ f1 ih =>
    intro f2 s off cnt hoff h1 h2
    cases f2 with
    | zero => omega
    | succ f2 =>
      rw [specList_succ, specList_succ]
      split
      · split
        · rename_i hc
          have := head_some_lt hc
          exact ih f2 s _ _ (by omega) (by omega) (by omega)
        · rfl
      · rfl
      · rfl

theorem specList_stable (w y : Bytes) (J : Nat) (hJ : NLat w J) (hq : QuotesLineLocal (w ++ y)) :
    ∀ (fuel off cnt : Nat), off ≤ J → SepBefore w off → endpos (specList fuel w off cnt) ≤ J →
    specList fuel (w ++ y) off cnt = specList fuel w off cnt := by
  have hJl := hJ.lt
  intro fuel
  induction fuel with
  | zero => intro off cnt _ _ _; rfl
  | succ fuel ih =>
    intro off cnt hoff hsep hend
    rw [specList_succ] at hend
    rw [specList_succ, specList_succ]
    obtain ⟨v1, v2⟩ := drop_view w y J off hJ hoff
    have e0 : wsLen ((w ++ y).drop off) = wsLen (w.drop off) := by rw [v1]; exact wsLen_stable _ y _ v2
    have l0 := wsLen_le v2
    obtain ⟨v3, v4⟩ := drop_view w y J (off + wsLen (w.drop off)) hJ (by omega)
    have hsw : specData (w.drop (off + wsLen (w.drop off))) ≠ .swallow := by
      intro h; rw [h] at hend; simp only [endpos] at hend; omega
    -- the data element starts directly after a blank or a comma
    have hsep' : SepBefore w (off + wsLen (w.drop off)) := by
      by_cases hw0 : 0 < wsLen (w.drop off)
      · obtain ⟨b, hb, hs⟩ := wsLen_last hw0
        rw [List.getElem?_drop] at hb
        have := SepBefore.of_get hb hs
        rwa [show off + (wsLen (w.drop off) - 1) + 1 = off + wsLen (w.drop off) by omega] at this
      · rwa [show wsLen (w.drop off) = 0 by omega, Nat.add_zero]
    have ed : specData ((w ++ y).drop (off + wsLen (w.drop off))) = specData (w.drop (off + wsLen (w.drop off))) := by
      rw [v3]; exact specData_stable _ y _ v4 (by rw [← v3]; exact qll_strOK hq (SepBefore.append hsep' y)) hsw
    rw [e0, ed]
    cases hd : specData (w.drop (off + wsLen (w.drop off))) with
    | swallow => exact absurd hd hsw
    | none => rfl
    | item n t po pl =>
      rw [hd] at hend
      dsimp only at hend ⊢
      have hpw : off + wsLen (w.drop off) + n + wsLen (w.drop (off + wsLen (w.drop off) + n)) ≤ J := by
        split at hend
        · rename_i hc
          have := head_some_lt hc
          have := specList_mono fuel w (off + wsLen (w.drop off) + n + wsLen (w.drop (off + wsLen (w.drop off) + n)) + 1)
            (cnt + 1) (by omega)
          omega
        · exact hend
      obtain ⟨v5, v6⟩ := drop_view w y J (off + wsLen (w.drop off) + n) hJ (by omega)
      have e1 : wsLen ((w ++ y).drop (off + wsLen (w.drop off) + n)) = wsLen (w.drop (off + wsLen (w.drop off) + n)) := by
        rw [v5]; exact wsLen_stable _ y _ v6
      obtain ⟨v7, v8⟩ := drop_view w y J _ hJ hpw
      rw [e1, v7, head_append_of_ne _ y (v8.ne_nil)]
      split
      · rename_i hc
        rw [if_pos hc] at hend
        have := head_some_lt hc
        have hm := specList_mono fuel w (off + wsLen (w.drop off) + n + wsLen (w.drop (off + wsLen (w.drop off) + n)) + 1)
          (cnt + 1) (by omega)
        have h44 : w[off + wsLen (w.drop off) + n + wsLen (w.drop (off + wsLen (w.drop off) + n))]? = some 44 := by
          have : (w.drop (off + wsLen (w.drop off) + n + wsLen (w.drop (off + wsLen (w.drop off) + n)))).head? = some 44 := by
            simpa using hc
          rw [List.head?_drop] at this
          exact this
        exact ih _ _ (by omega) (SepBefore.of_get h44 (by decide)) hend
      · rfl

/-! ## the message unit -/

def uHdr (s : Bytes) : Nat × TokType :=
  match specToken .header (s.drop (wsLen s)) with
  | some e => (e.consumed, e.type)
  | none => (0, TokType.unknown)
def uP1 (s : Bytes) : Nat := wsLen s + (uHdr s).1
def uW1 (s : Bytes) : Nat := wsLen (s.drop (uP1 s))
def uData (s : Bytes) : Nat × Int :=
  if uW1 s > 0 then
    match specList (s.length + 1) s (uP1 s + uW1 s) 0 with
    | .ok c k => (c, k)
    | .bad c => (c, -1)
  else (uP1 s, 0)

theorem specUnit_eq (s : Bytes) : specUnit s =
    match specToken .nl (s.drop (uData s).1) with
    | some e => ⟨(uData s).1 + e.consumed, .nl, true, wsLen s, (uHdr s).1, (uHdr s).2, (uData s).2⟩
    | none =>
      if (s.drop (uData s).1).head? == some 59 then ⟨(uData s).1 + 1, .semicolon, true, wsLen s, (uHdr s).1, (uHdr s).2, (uData s).2⟩
      else if (s.drop (uData s).1).isEmpty then ⟨(uData s).1, .none, true, wsLen s, (uHdr s).1, (uHdr s).2, (uData s).2⟩
      else ⟨(uData s).1 + 1, .none, false, wsLen s, 1, .invalid, (uData s).2⟩ := by
  unfold specUnit uData uW1 uP1 uHdr
  dsimp only
  generalize specToken .header (s.drop (wsLen s)) = hh
  cases hh with
  | none =>
    dsimp only
    by_cases hw : wsLen (s.drop (wsLen s + 0)) > 0
    · simp only [hw, if_true]
      generalize specList (s.length + 1) s _ 0 = l
      cases l <;> rfl
    · simp only [hw, if_false]
      rfl
  | some e =>
    dsimp only
    by_cases hw : wsLen (s.drop (wsLen s + e.consumed)) > 0
    · simp only [hw, if_true]
      generalize specList (s.length + 1) s _ 0 = l
      cases l <;> rfl
    · simp only [hw, if_false]
      rfl

theorem wsLen_le_length (s : Bytes) : wsLen s ≤ s.length := by
  unfold wsLen
  cases h : specToken .ws s with
  | none => simp
  | some e =>
    simp only [specToken] at h
    cases hl : wsRe.longest s with
    | none => rw [hl] at h; cases h
    | some n =>
      rw [hl] at h
      dsimp only at h
      split at h
      · cases h; simpa using longest_le hl
      · cases h

theorem header_le_length {s : Bytes} {e : Expect} (h : specToken .header s = some e) : e.consumed ≤ s.length := by
  have hb := best_le (headerComplete.longest s) (headerIncompleteCommon.longest s) (headerIncompleteCompound.longest s)
    s.length (fun n h => longest_le h) (fun n h => longest_le h) (fun n h => longest_le h)
  simp only [specToken] at h
  split at h
  · cases h
  · split at h
    · cases h; exact hb
    · split at h
      · cases h; exact hb
      · cases h; exact hb

theorem uP1_le (s : Bytes) : uP1 s ≤ s.length := by
  unfold uP1 uHdr
  have h0 := wsLen_le_length s
  cases h : specToken .header (s.drop (wsLen s)) with
  | none => simpa using h0
  | some e =>
    have := header_le_length h
    rw [List.length_drop] at this
    dsimp only
    omega

theorem uW1_le (s : Bytes) : uP1 s + uW1 s ≤ s.length := by
  have h1 := uP1_le s
  have h2 := wsLen_le_length (s.drop (uP1 s))
  rw [List.length_drop] at h2
  unfold uW1
  omega

theorem uData_ge (s : Bytes) : uP1 s + uW1 s ≤ (uData s).1 := by
  unfold uData
  split
  · have := specList_mono (s.length + 1) s (uP1 s + uW1 s) 0 (uW1_le s)
    cases h : specList (s.length + 1) s (uP1 s + uW1 s) 0 <;> rw [h] at this <;> simpa [endpos] using this
  · rename_i h
    have : uW1 s = 0 := by omega
    simp [this]

/-- the terminator token at the start of `r` is the same when more bytes follow, unless `r` is a lone CR
and a line feed follows (which extends it to CR LF) -/
theorem newline_stable (r y : Bytes) (hne : r ≠ []) (hend : r ≠ [13] ∨ y.head? ≠ some 10) :
    specToken .nl (r ++ y) = specToken .nl r := by
  cases r with
  | nil => exact absurd rfl hne
  | cons b t =>
    by_cases hb : b = 10
    · subst hb
      simp only [specToken, List.cons_append, newline_lf]
    · by_cases hc : b = 13
      · subst hc
        cases t with
        | nil =>
          cases y with
          | nil => rfl
          | cons b' y' =>
            have hb' : b' ≠ 10 := by
              rcases hend with h | h
              · exact absurd rfl h
              · simpa using h
            simp only [specToken, List.cons_append, List.nil_append, newline_cr _ _ hb']
            rw [show newline.longest [13] = some 1 by decide]
        | cons b' t' =>
          by_cases hb' : b' = 10
          · subst hb'
            simp only [specToken, List.cons_append, newline_crlf]
          · simp only [specToken, List.cons_append, newline_cr _ _ hb']
      · simp only [specToken, List.cons_append]
        rw [newline_none (b :: (t ++ y)) (by simpa using hb) (by simpa using hc),
          newline_none (b :: t) (by simpa using hb) (by simpa using hc)]

theorem nl_consumed_pos {s : Bytes} {e : Expect} (h : specToken .nl s = some e) : 1 ≤ e.consumed := by
  simp only [specToken] at h
  cases hl : newline.longest s with
  | none => rw [hl] at h; cases h
  | some n =>
    rw [hl] at h
    dsimp only at h
    split at h
    · cases h; assumption
    · cases h

/-- where the terminator of a terminated (or invalid) unit starts -/
theorem unit_P2_le (w : Bytes) (J : Nat) (hend : (specUnit w).consumed ≤ J + 1)
    (hterm : (specUnit w).term ≠ .none ∨ (specUnit w).wellFormed = false) : (uData w).1 ≤ J := by
  rw [specUnit_eq] at hend hterm
  split at hend
  · rename_i e he
    have := nl_consumed_pos he
    dsimp only at hend
    omega
  · rename_i he
    rw [he] at hterm
    dsimp only at hend hterm
    split at hend
    · dsimp only at hend; omega
    · rename_i h59
      rw [if_neg h59] at hterm
      split at hend
      · rename_i hemp
        rw [if_pos hemp] at hterm
        rcases hterm with h | h
        · exact absurd rfl h
        · cases h
      · dsimp only at hend; omega

/-- header, blanks and data list of a unit whose terminator starts at or before a line terminator of `w`
are the same when more bytes follow -/
theorem unit_parts_stable (w y : Bytes) (J : Nat) (hJ : NLat w J) (hq : QuotesLineLocal (w ++ y)) (hP2 : (uData w).1 ≤ J) :
    wsLen (w ++ y) = wsLen w ∧ uHdr (w ++ y) = uHdr w ∧ uP1 (w ++ y) = uP1 w ∧ uW1 (w ++ y) = uW1 w ∧
    uData (w ++ y) = uData w ∧
    (uW1 w > 0 → specList ((w ++ y).length + 1) (w ++ y) (uP1 w + uW1 w) 0 = specList (w.length + 1) w (uP1 w + uW1 w) 0) := by
  have hge := uData_ge w
  have hP1 : uP1 w ≤ J := by omega
  have hW0 : wsLen w ≤ J := by unfold uP1 at hP1; omega
  have e0 : wsLen (w ++ y) = wsLen w := wsLen_stable w y J hJ
  obtain ⟨v1, v2⟩ := drop_view w y J (wsLen w) hJ hW0
  have eH : uHdr (w ++ y) = uHdr w := by
    unfold uHdr
    rw [e0, v1, specToken_header_stable _ y _ v2]
  have eP : uP1 (w ++ y) = uP1 w := by unfold uP1; rw [e0, eH]
  obtain ⟨v3, v4⟩ := drop_view w y J (uP1 w) hJ hP1
  have eW : uW1 (w ++ y) = uW1 w := by
    unfold uW1; rw [eP, v3, wsLen_stable _ y _ v4]
  have eL : uW1 w > 0 → specList ((w ++ y).length + 1) (w ++ y) (uP1 w + uW1 w) 0 = specList (w.length + 1) w (uP1 w + uW1 w) 0 := by
    intro hw
    have hl := hJ.lt
    have hf : specList ((w ++ y).length + 1) w (uP1 w + uW1 w) 0 = specList (w.length + 1) w (uP1 w + uW1 w) 0 :=
      specList_fuel _ _ w _ 0 (uW1_le w) (by rw [List.length_append]; omega) (by omega)
    have hE : endpos (specList (w.length + 1) w (uP1 w + uW1 w) 0) = (uData w).1 := by
      unfold uData; rw [if_pos hw]
      cases specList (w.length + 1) w (uP1 w + uW1 w) 0 <;> rfl
    have hsep : SepBefore w (uP1 w + uW1 w) := by
      obtain ⟨b, hb, hs⟩ := wsLen_last (s := w.drop (uP1 w)) hw
      rw [List.getElem?_drop] at hb
      have := SepBefore.of_get hb hs
      unfold uW1
      rwa [show uP1 w + (wsLen (w.drop (uP1 w)) - 1) + 1 = uP1 w + wsLen (w.drop (uP1 w)) by
        have : 0 < wsLen (w.drop (uP1 w)) := hw
        omega] at this
    rw [specList_stable w y J hJ hq _ _ 0 (by omega) hsep (by rw [hf, hE]; exact hP2), hf]
  have eD : uData (w ++ y) = uData w := by
    unfold uData
    rw [eW, eP]
    split
    · rename_i hw
      rw [eL hw]
    · rfl
  exact ⟨e0, eH, eP, eW, eD, eL⟩

/-- a unit that ends — in a terminator or at a byte that cannot continue it — at or before a line
terminator of `w` is the same unit when more bytes follow, unless its terminator is a CR at the very end of
`w` and the next byte is a line feed -/
theorem specUnit_stable (w y : Bytes) (J : Nat) (hJ : NLat w J) (hq : QuotesLineLocal (w ++ y))
    (hx : w.drop (uData w).1 ≠ [13] ∨ y.head? ≠ some 10)
    (hend : (specUnit w).consumed ≤ J + 1)
    (hterm : (specUnit w).term ≠ .none ∨ (specUnit w).wellFormed = false) : specUnit (w ++ y) = specUnit w := by
  have hP2 := unit_P2_le w J hend hterm
  obtain ⟨e0, eH, _, _, eD, _⟩ := unit_parts_stable w y J hJ hq hP2
  obtain ⟨v5, v6⟩ := drop_view w y J (uData w).1 hJ hP2
  have hne := v6.ne_nil
  rw [specUnit_eq (w ++ y), specUnit_eq w, e0, eH, eD, v5, newline_stable _ y hne hx, head_append_of_ne _ y hne]
  have i1 : (w.drop (uData w).1 ++ y).isEmpty = false := by
    cases hh : w.drop (uData w).1 with
    | nil => exact absurd hh hne
    | cons a t => rfl
  have i2 : (w.drop (uData w).1).isEmpty = false := by
    cases hh : w.drop (uData w).1 with
    | nil => exact absurd hh hne
    | cons a t => rfl
  rw [i1, i2]

/-- the exception: a unit terminated by a CR at the very end of `w`, followed by a line feed — the terminator
becomes CR LF, nothing else changes -/
theorem specUnit_crlf (w y : Bytes) (hq : QuotesLineLocal (w ++ 10 :: y)) (hr : w.drop (uData w).1 = [13]) :
    specUnit (w ++ 10 :: y) = { specUnit w with consumed := (specUnit w).consumed + 1 } ∧
    (specUnit w).term = .nl ∧ (specUnit w).consumed = w.length ∧ (uData w).1 + 1 = w.length := by
  have hlen : (uData w).1 + 1 = w.length := by
    have := congrArg List.length hr
    rw [List.length_drop] at this
    simp at this
    omega
  have hJ : NLat w (uData w).1 := by
    right
    have := congrArg (fun l => l[0]?) hr
    simp only [List.getElem?_drop, Nat.add_zero, List.getElem?_cons_zero] at this
    exact this
  obtain ⟨e0, eH, _, _, eD, _⟩ := unit_parts_stable w (10 :: y) _ hJ hq (Nat.le_refl _)
  have v5 : (w ++ 10 :: y).drop (uData w).1 = 13 :: 10 :: y := by
    rw [List.drop_append_of_le_length (by omega), hr]; rfl
  have n1 : specToken .nl (13 :: 10 :: y) = some ⟨2, .nl, 0, 2⟩ := by
    simp only [specToken, newline_crlf]; rfl
  have n2 : specToken .nl [13] = some ⟨1, .nl, 0, 1⟩ := by decide
  rw [specUnit_eq (w ++ 10 :: y), specUnit_eq w, e0, eH, eD, v5, hr, n1, n2]
  exact ⟨rfl, rfl, by dsimp only; omega, hlen⟩

/-! ## the scan -/

theorem term_of_code {t : Termination} {e : TermSpec}
    (h : t.code = match e with | .none => 0 | .nl => 1 | .semicolon => 2) :
    (t = .nl ↔ e = .nl) ∧ (t = .none ↔ e = .none) := by
  cases t <;> cases e <;> simp [Termination.code] at h ⊢

/-- term and "no header" of a detected unit, from three fields of its specification -/
theorem key_of_fields {a b : Bytes} (ht : (specUnit a).term = (specUnit b).term)
    (hw : (specUnit a).wellFormed = (specUnit b).wellFormed) (hh : (specUnit a).headerType = (specUnit b).headerType) :
    (detectUnit a).term = (detectUnit b).term ∧
    ((detectUnit a).header.type == .unknown) = ((detectUnit b).header.type == .unknown) := by
  obtain ⟨a1, a2, a3, a4, _, _⟩ := Props.C13.unit_spec a
  obtain ⟨b1, b2, b3, b4, _, _⟩ := Props.C13.unit_spec b
  rw [ht] at a2
  rw [hw] at a3 a4
  rw [hh] at a4
  refine ⟨?_, ?_⟩
  · have := a2.trans b2.symm
    revert this
    cases (detectUnit a).term <;> cases (detectUnit b).term <;> simp [Termination.code]
  · cases hw' : (specUnit b).wellFormed with
    | true =>
      rw [(a4 hw').1, (b4 hw').1]
    | false =>
      have ha := a3.2 hw'
      have hb := b3.2 hw'
      rw [ha, hb]

/-- what the scan looks at in a unit is determined by the specification of the unit -/
theorem key_of_spec {a b : Bytes} (h : specUnit a = specUnit b) :
    (detectUnit a).consumed = (detectUnit b).consumed ∧ (detectUnit a).term = (detectUnit b).term ∧
    ((detectUnit a).header.type == .unknown) = ((detectUnit b).header.type == .unknown) := by
  obtain ⟨a1, a2, a3, a4, _, _⟩ := Props.C13.unit_spec a
  obtain ⟨b1, b2, b3, b4, _, _⟩ := Props.C13.unit_spec b
  rw [h] at a1 a2 a3 a4
  refine ⟨a1.trans b1.symm, ?_, ?_⟩
  · have := a2.trans b2.symm
    revert this
    cases (detectUnit a).term <;> cases (detectUnit b).term <;> simp [Termination.code]
  · cases hw : (specUnit b).wellFormed with
    | true =>
      rw [(a4 hw).1, (b4 hw).1]
    | false =>
      have ha := a3.2 hw
      have hb := b3.2 hw
      rw [ha, hb]

/-- a terminator token is LF, CR LF or CR: it ends in a line feed or a carriage return -/
theorem nl_token {r : Bytes} {e : Expect} (he : specToken .nl r = some e) :
    1 ≤ e.consumed ∧ NLat r (e.consumed - 1) := by
  cases r with
  | nil => simp only [specToken] at he; rw [newline_none [] (by simp) (by simp)] at he; cases he
  | cons b t =>
    by_cases hb : b = 10
    · subst hb
      simp only [specToken, newline_lf] at he
      simp at he
      rw [← he]
      exact ⟨Nat.le_refl _, Or.inl rfl⟩
    · by_cases hc : b = 13
      · subst hc
        cases t with
        | nil =>
          simp only [specToken] at he
          rw [show newline.longest [13] = some 1 by decide] at he
          simp at he
          rw [← he]
          exact ⟨Nat.le_refl _, Or.inr rfl⟩
        | cons b' t' =>
          by_cases hb' : b' = 10
          · subst hb'
            simp only [specToken, newline_crlf] at he
            simp at he
            rw [← he]
            exact ⟨by decide, Or.inl rfl⟩
          · simp only [specToken, newline_cr _ _ hb'] at he
            simp at he
            rw [← he]
            exact ⟨Nat.le_refl _, Or.inr rfl⟩
      · simp only [specToken] at he
        rw [newline_none (b :: t) (by simpa using hb) (by simpa using hc)] at he
        cases he

/-- a unit that ends in a terminator ends in a line feed or a carriage return -/
theorem nl_unit (w : Bytes) (h : (detectUnit w).term = .nl) :
    ∃ p, (detectUnit w).consumed = p + 1 ∧ NLat w p := by
  obtain ⟨a1, a2, _⟩ := Props.C13.unit_spec w
  have ht := (term_of_code a2).1.1 h
  rw [a1]
  rw [specUnit_eq] at ht ⊢
  split at ht
  · rename_i e he
    obtain ⟨c1, c2⟩ := nl_token he
    refine ⟨(uData w).1 + (e.consumed - 1), by dsimp only; omega, ?_⟩
    unfold NLat at c2 ⊢
    rw [List.getElem?_drop] at c2
    exact c2
  · rename_i he
    split at ht
    · cases ht
    · split at ht <;> cases ht

theorem noCR_drop {s : Bytes} (h : NoCR s) (n : Nat) : NoCR (s.drop n) := fun b hb => h b (List.mem_of_mem_drop hb)
theorem noCR_left {s y : Bytes} (h : NoCR (s ++ y)) : NoCR s := fun b hb => h b (List.mem_append_left _ hb)

/-- the message the scan finds ends in a line feed or a carriage return -/
theorem scanFrom_nl (s : Bytes) : ∀ (fuel tot k f : Nat), scanFrom fuel s tot = some (k, f) →
    0 < k ∧ NLat s (k - 1) := by
  intro fuel
  induction fuel with
  | zero => intro tot k f h; simp [scanFrom] at h
  | succ fuel ih =>
    intro tot k f h
    rw [scanFrom_succ] at h
    split at h
    · rename_i hnl
      simp only [Option.some.injEq, Prod.mk.injEq] at h
      obtain ⟨p, hp1, hp2⟩ := nl_unit (s.drop tot) (by simpa using hnl)
      unfold NLat at hp2 ⊢
      rw [List.getElem?_drop] at hp2
      refine ⟨by omega, ?_⟩
      rw [← h.1, hp1]
      rw [show tot + (p + 1) - 1 = tot + p by omega]
      exact hp2
    · split at h
      · cases h
      · split at h
        · cases h
        · exact ih _ k f h

/-- a well-formed unit without terminator takes the whole input -/
theorem wf_none_all (w : Bytes) (hw : (specUnit w).wellFormed = true) (ht : (specUnit w).term = .none) :
    w.length ≤ (specUnit w).consumed := by
  rw [specUnit_eq] at hw ht ⊢
  split
  · rename_i e he; rw [he] at ht; cases ht
  · rename_i he
    rw [he] at hw ht
    dsimp only at hw ht ⊢
    split
    · rename_i h59; rw [if_pos h59] at ht; cases ht
    · rename_i h59
      rw [if_neg h59] at hw
      split
      · rename_i hemp
        dsimp only
        have : w.drop (uData w).1 = [] := by simpa using hemp
        have := congrArg List.length this
        rw [List.length_drop] at this
        simp at this
        omega
      · rename_i hemp; rw [if_neg hemp] at hw; cases hw

/-- the bytes from `tot` on end like the whole -/
theorem getLast?_drop_ne {s : Bytes} {tot : Nat} {b : UInt8} (h : s.getLast? ≠ some b) : (s.drop tot).getLast? ≠ some b := by
  rw [List.getLast?_drop]
  split
  · intro h0; cases h0
  · exact h

/-- a unit whose terminator is a CR at the very end of `w` -/
theorem unit_cr_end (w : Bytes) (hr : w.drop (uData w).1 = [13]) :
    (specUnit w).term = .nl ∧ (specUnit w).consumed = w.length := by
  have hlen : (uData w).1 + 1 = w.length := by
    have := congrArg List.length hr
    rw [List.length_drop] at this
    simp at this
    omega
  have n2 : specToken .nl [13] = some ⟨1, .nl, 0, 1⟩ := by decide
  rw [specUnit_eq w, hr, n2]
  exact ⟨rfl, hlen⟩

/-- a terminator token that reaches the end of the input and ends in CR is a lone CR -/
theorem nl_all {r : Bytes} {e : Expect} (he : specToken .nl r = some e) (hl : e.consumed = r.length)
    (h13 : r.getLast? = some 13) : r = [13] := by
  cases r with
  | nil => simp at h13
  | cons b t =>
    by_cases hb : b = 10
    · subst hb
      simp only [specToken, newline_lf] at he
      simp at he
      rw [← he] at hl
      simp at hl
      subst hl
      simp at h13
    · by_cases hc : b = 13
      · subst hc
        cases t with
        | nil => rfl
        | cons b' t' =>
          by_cases hb' : b' = 10
          · subst hb'
            simp only [specToken, newline_crlf] at he
            simp at he
            rw [← he] at hl
            simp at hl
            subst hl
            simp at h13
          · simp only [specToken, newline_cr _ _ hb'] at he
            simp at he
            rw [← he] at hl
            simp at hl
      · simp only [specToken] at he
        rw [newline_none (b :: t) (by simpa using hb) (by simpa using hc)] at he
        cases he

theorem getLast?_drop_of_ne {w : Bytes} {n : Nat} (h : w.drop n ≠ []) : (w.drop n).getLast? = w.getLast? := by
  rw [List.getLast?_drop]
  split
  · rename_i hle
    exact absurd (List.drop_of_length_le hle) h
  · rfl

/-- a unit that ends in a terminator and takes the whole input, which ends in CR: the terminator is that CR -/
theorem unit_nl_end (w : Bytes) (ht : (specUnit w).term = .nl) (hc : (specUnit w).consumed = w.length)
    (h13 : w.getLast? = some 13) : w.drop (uData w).1 = [13] := by
  rw [specUnit_eq] at ht hc
  split at ht
  · rename_i e he
    rw [he] at hc
    dsimp only at hc
    have hpos := nl_consumed_pos he
    have hne : w.drop (uData w).1 ≠ [] := by
      intro h0
      have := congrArg List.length h0
      rw [List.length_drop] at this
      simp at this
      omega
    refine nl_all he ?_ (by rw [getLast?_drop_of_ne hne]; exact h13)
    rw [List.length_drop]; omega
  · rename_i he
    split at ht
    · cases ht
    · split at ht <;> cases ht

theorem scanFrom_stable (s y : Bytes) (hq : QuotesLineLocal (s ++ y)) (k : Nat)
    (hx : k < s.length ∨ s.getLast? ≠ some 13 ∨ y.head? ≠ some 10) (hk : 0 < k)
    (hJ : NLat s (k - 1)) : ∀ (fuel tot f : Nat), scanFrom fuel s tot = some (k, f) →
    scanFrom fuel (s ++ y) tot = some (k, f) := by
  have hJl := hJ.lt
  intro fuel
  induction fuel with
  | zero => intro tot f h; simp [scanFrom] at h
  | succ fuel ih =>
    intro tot f h
    obtain ⟨g1, g2, _, _⟩ := scanFrom_some _ _ _ _ _ h
    rw [scanFrom_succ] at h ⊢
    obtain ⟨v1, v2⟩ := drop_view s y (k - 1) tot hJ (by omega)
    have hq' : QuotesLineLocal (s.drop tot ++ y) := by rw [← v1]; exact qll_drop hq _
    obtain ⟨a1, a2, a3, _⟩ := Props.C13.unit_spec (s.drop tot)
    have hstab : (specUnit (s.drop tot)).consumed ≤ k - 1 - tot + 1 →
        ((s.drop tot).drop (uData (s.drop tot)).1 ≠ [13] ∨ y.head? ≠ some 10) →
        ((specUnit (s.drop tot)).term ≠ .none ∨ (specUnit (s.drop tot)).wellFormed = false) →
        (detectUnit (s.drop tot ++ y)).consumed = (detectUnit (s.drop tot)).consumed ∧
        (detectUnit (s.drop tot ++ y)).term = (detectUnit (s.drop tot)).term ∧
        ((detectUnit (s.drop tot ++ y)).header.type == .unknown) = ((detectUnit (s.drop tot)).header.type == .unknown) :=
      fun h1 h0 h2 => key_of_spec (specUnit_stable _ y _ v2 hq' h0 h1 h2)
    rw [v1]
    split at h
    · rename_i hnl
      simp only [Option.some.injEq, Prod.mk.injEq] at h
      have hnl' : (detectUnit (s.drop tot)).term = .nl := by simpa using hnl
      have h0 : (s.drop tot).drop (uData (s.drop tot)).1 ≠ [13] ∨ y.head? ≠ some 10 := by
        rcases hx with hx | hx | hx
        · left
          intro hr
          have := (unit_cr_end _ hr).2
          rw [← a1, List.length_drop] at this
          omega
        · left
          intro hr
          apply getLast?_drop_ne (tot := tot) hx
          rw [← List.take_append_drop (uData (s.drop tot)).1 (s.drop tot), hr]
          simp
        · right; exact hx
      obtain ⟨k1, k2, k3⟩ := hstab (by rw [← a1]; omega) h0
        (Or.inl (fun hn => by rw [(term_of_code a2).1.1 hnl'] at hn; cases hn))
      rw [k1, k2, if_pos hnl]
      simp only [Option.some.injEq, Prod.mk.injEq]
      exact h
    · rename_i hnl
      split at h
      · cases h
      · rename_i hstop
        split at h
        · cases h
        · rename_i hlt
          obtain ⟨r1, _, _, _⟩ := scanFrom_some _ _ _ _ _ h
          have hterm : (specUnit (s.drop tot)).term ≠ .none ∨ (specUnit (s.drop tot)).wellFormed = false := by
            cases hw : (specUnit (s.drop tot)).wellFormed with
            | false => exact Or.inr rfl
            | true =>
              left
              intro hn
              have := wf_none_all _ hw hn
              rw [← a1, List.length_drop] at this
              omega
          have h0 : (s.drop tot).drop (uData (s.drop tot)).1 ≠ [13] ∨ y.head? ≠ some 10 := by
            left
            intro hr
            have := (unit_cr_end _ hr).2
            rw [← a1, List.length_drop] at this
            omega
          obtain ⟨k1, k2, k3⟩ := hstab (by rw [← a1]; omega) h0 hterm
          rw [k1, k2, k3, if_neg hnl, if_neg hstop, if_neg (by rw [List.length_append]; omega)]
          exact ih _ f h

/-- the exception: the message found is all of `s`, it ends in CR, and a line feed follows: the message
found in `s ++ LF ++ y` is one byte longer -/
theorem scanFrom_crlf (s y : Bytes) (hq : QuotesLineLocal (s ++ 10 :: y)) (h13 : s.getLast? = some 13) :
    ∀ (fuel tot f : Nat), scanFrom fuel s tot = some (s.length, f) →
    scanFrom fuel (s ++ 10 :: y) tot = some (s.length + 1, f) := by
  have hne : s ≠ [] := by intro h0; subst h0; simp at h13
  have hlen : 0 < s.length := List.length_pos_iff.2 hne
  have hJ : NLat s (s.length - 1) := by
    right
    rw [List.getLast?_eq_getElem?] at h13
    exact h13
  intro fuel
  induction fuel with
  | zero => intro tot f h; simp [scanFrom] at h
  | succ fuel ih =>
    intro tot f h
    obtain ⟨g1, g2, _, _⟩ := scanFrom_some _ _ _ _ _ h
    rw [scanFrom_succ] at h ⊢
    obtain ⟨v1, v2⟩ := drop_view s (10 :: y) (s.length - 1) tot hJ (by omega)
    have hq' : QuotesLineLocal (s.drop tot ++ 10 :: y) := by rw [← v1]; exact qll_drop hq _
    obtain ⟨a1, a2, a3, _⟩ := Props.C13.unit_spec (s.drop tot)
    obtain ⟨b1, _⟩ := Props.C13.unit_spec (s.drop tot ++ 10 :: y)
    rw [v1]
    split at h
    · rename_i hnl
      simp only [Option.some.injEq, Prod.mk.injEq] at h
      have hnl' : (detectUnit (s.drop tot)).term = .nl := by simpa using hnl
      have hne' : s.drop tot ≠ [] := v2.ne_nil
      have hr := unit_nl_end (s.drop tot) ((term_of_code a2).1.1 hnl')
        (by rw [← a1, List.length_drop]; omega) (by rw [getLast?_drop_of_ne hne']; exact h13)
      obtain ⟨c1, _, _, _⟩ := specUnit_crlf (s.drop tot) y hq' hr
      obtain ⟨k2, _⟩ := key_of_fields (a := s.drop tot ++ 10 :: y) (b := s.drop tot)
        (by rw [c1]) (by rw [c1]) (by rw [c1])
      have k1 : (detectUnit (s.drop tot ++ 10 :: y)).consumed = (detectUnit (s.drop tot)).consumed + 1 := by
        rw [b1, c1, a1]
      rw [k1, k2, if_pos hnl]
      simp only [Option.some.injEq, Prod.mk.injEq]
      exact ⟨by omega, h.2⟩
    · rename_i hnl
      split at h
      · cases h
      · rename_i hstop
        split at h
        · cases h
        · rename_i hlt
          have hterm : (specUnit (s.drop tot)).term ≠ .none ∨ (specUnit (s.drop tot)).wellFormed = false := by
            cases hw : (specUnit (s.drop tot)).wellFormed with
            | false => exact Or.inr rfl
            | true =>
              left
              intro hn
              have := wf_none_all _ hw hn
              rw [← a1, List.length_drop] at this
              omega
          have h0 : (s.drop tot).drop (uData (s.drop tot)).1 ≠ [13] ∨ (10 :: y).head? ≠ some 10 := by
            left
            intro hr
            have := (unit_cr_end _ hr).2
            rw [← a1, List.length_drop] at this
            omega
          obtain ⟨k1, k2, k3⟩ := key_of_spec (specUnit_stable _ (10 :: y) _ v2 hq' h0 (by rw [← a1]; omega) hterm)
          rw [k1, k2, k3, if_neg hnl, if_neg hstop, if_neg (by rw [List.length_append]; omega)]
          exact ih _ f h

/-! ## streams with a stable scan -/

theorem scan_exists {s : Bytes} {k : Nat} (fuel : Nat) (hf : s.length < fuel) (h : scan s = some k) :
    ∃ f, scanFrom fuel s 0 = some (k, f) := by
  have := scan_of_scanFrom fuel s hf
  rw [h] at this
  cases hs : scanFrom fuel s 0 with
  | none => rw [hs] at this; cases this
  | some p =>
    obtain ⟨k', f⟩ := p
    rw [hs] at this
    simp only [Option.map_some, Option.some.injEq] at this
    subst this
    exact ⟨f, rfl⟩

/-- the message found by the scan ends in LF or CR -/
theorem scan_last {s : Bytes} {k : Nat} (hs : scan s = some k) :
    (s.take k).getLast? = some 10 ∨ (s.take k).getLast? = some 13 := by
  obtain ⟨f, hf⟩ := scan_exists (s.length + 1) (by omega) hs
  obtain ⟨h1, h2⟩ := scanFrom_nl s _ _ _ _ hf
  have hl := h2.lt
  rw [List.getLast?_eq_getElem?, List.length_take, List.getElem?_take]
  rw [show min k s.length - 1 = k - 1 by omega, if_pos (by omega)]
  exact h2

/-- prefix stability of the scan: the message found in `s` is found in `s ++ y`, unless `s` ends in a CR
(which a following LF would extend) -/
theorem scan_stable (s y : Bytes) (k : Nat) (hq : QuotesLineLocal (s ++ y)) (hlast : s.getLast? ≠ some 13)
    (hs : scan s = some k) : scan (s ++ y) = some k := by
  obtain ⟨f, hf⟩ := scan_exists ((s ++ y).length + 1) (by rw [List.length_append]; omega) hs
  obtain ⟨h1, h2⟩ := scanFrom_nl s _ _ _ _ hf
  have := scanFrom_stable s y hq k (Or.inr (Or.inl hlast)) h1 h2 _ _ _ hf
  unfold scan
  rw [this]
  rfl

/-- does not end in CR -/
def NoCRLast (s : Bytes) : Prop := s.getLast? ≠ some 13

/-- streams without quote characters, cut anywhere but directly after a CR -/
theorem good_cr : Good MsgNL NoQuotes NoCRLast where
  drop := fun s k h => noQuotes_drop h k
  drop1 := fun s k h => getLast?_drop_ne h
  app1 := by
    intro p x hx h
    unfold NoCRLast at h ⊢
    rw [List.getLast?_append]
    cases hh : x.getLast? with
    | none => exact absurd (List.getLast?_eq_none_iff.1 hh) hx
    | some b => rw [hh] at h; simpa using h
  msg := fun s k h hs => ⟨scan_last hs, fun b hb => h b (List.mem_of_mem_take hb)⟩
  stable := fun s y k h h1 hs => scan_stable s y k (noQuotes_qll h) h1 hs

/-- messages ending in LF or CR -/
def MsgEnd (m : Bytes) : Prop := m.getLast? = some 10 ∨ m.getLast? = some 13

/-- streams in which no quoted string contains a line terminator, cut anywhere but directly after a CR -/
theorem good_quotes : Good MsgEnd QuotesLineLocal NoCRLast where
  drop := fun _ k h => qll_drop h k
  drop1 := good_cr.drop1
  app1 := good_cr.app1
  msg := fun _ _ _ hs => scan_last hs
  stable := fun s y k h h1 hs => scan_stable s y k h h1 hs

/-- neither quote characters nor CR -/
def Clean (s : Bytes) : Prop := NoQuotes s ∧ NoCR s

theorem noCR_last {s : Bytes} (h : NoCR s) : s.getLast? ≠ some 13 := by
  intro h0
  exact h 13 (List.mem_of_getLast? h0) rfl

/-- streams without quote characters and without CR, cut anywhere -/
theorem good_clean : Good MsgLF Clean (fun _ => True) where
  drop := fun s k h => ⟨noQuotes_drop h.1 k, noCR_drop h.2 k⟩
  drop1 := fun _ _ _ => trivial
  app1 := fun _ _ _ _ => trivial
  msg := by
    intro s k h hs
    refine ⟨?_, fun b hb => ⟨(h.1 b (List.mem_of_mem_take hb)).1, (h.1 b (List.mem_of_mem_take hb)).2,
      h.2 b (List.mem_of_mem_take hb)⟩⟩
    rcases scan_last hs with h1 | h1
    · exact h1
    · exact absurd rfl (h.2 13 (List.mem_of_mem_take (List.mem_of_getLast? h1)))
  stable := fun s y k h _ hs => scan_stable s y k (noQuotes_qll h.1) (noCR_last (noCR_left h.2)) hs

end ScpiVerif.Lemmas.Chunking
