/-
Refinement of the hand model's `Heap.strndup` (Model/Heap.lean) by the GENERATED `scpiheap_strndup`
(translate/c2lean_heap.py -> Gen/HeapC.lean, scalar replacement of the state structure), for all heap states, sources and n.
-/
import ScpiVerif.Lemmas.HeapC

set_option linter.unusedSimpArgs false

namespace ScpiVerif.Lemmas.HeapC
open ScpiVerif ScpiVerif.Heap ScpiVerif.Gen.HeapC
open ScpiVerif.Fifo (Bytes)

/-! ### facts about the source text -/

theorem cstr_take_prefix (src : Bytes) (n : Nat) : src.take ((cstr src).take n).length = (cstr src).take n := by
  have h : (cstr src).take n <+: src := (List.take_prefix n _).trans (List.takeWhile_prefix _)
  exact (List.prefix_iff_eq_take.mp h).symm

/-- the bytes the generated memcpy reads: the text and the byte after it -/
theorem src_take_succ (src : Bytes) (n : Nat) (h : ((cstr src).take n).length < src.length) :
    src.take (((cstr src).take n).length + 1) = (cstr src).take n ++ [src.getD ((cstr src).take n).length 0] := by
  generalize hL : ((cstr src).take n).length = L at h
  rw [List.take_add_one, ← hL, cstr_take_prefix, hL]
  simp [List.getD, List.getElem?_eq_getElem h]

theorem cstr_isEmpty_iff (src : Bytes) (h : 0 < src.length) : ((cstr src).isEmpty = true) ↔ rd src 0 = 0 := by
  cases src with
  | nil => simp at h
  | cons a l =>
    simp only [cstr, rd, List.getD, List.getElem?_cons_zero, Option.getD_some, List.takeWhile_cons]
    by_cases ha : a = 0 <;> simp [ha]

theorem strnlen_src_ub (src : Bytes) (n : Nat) (h : ((cstr src).take n).length < src.length) :
    (strnlen src 0 n).2 = false := by
  rw [strnlen_ub, strnlen_src]
  simp only [Nat.zero_add, decide_eq_false_iff_not, Nat.not_lt]
  split <;> omega

/-- overwriting the byte after `T` inside a splice -/
theorem set_mid (pre T rest : List UInt8) (a x : UInt8) (i : Nat) (hi : i = pre.length + T.length) :
    (pre ++ (T ++ a :: rest)).set i x = pre ++ (T ++ x :: rest) := by
  subst hi
  rw [← List.append_assoc, show pre.length + T.length = (pre ++ T).length by simp, List.set_append_right _ _ (Nat.le_refl _)]
  simp

theorem set_mid0 (T rest : List UInt8) (a x : UInt8) (i : Nat) (hi : i = T.length) :
    (T ++ a :: rest).set i x = T ++ x :: rest := by
  have := set_mid [] T rest a x i (by simpa using hi)
  simpa using this

/-- `storeAll_eq` for a state given by its fields -/
theorem storeAll_mk (w cn sz : Nat) (d : List UInt8) (o : Bool) (at_ : Nat) (src : List UInt8) (hlen : d.length = sz)
    (hfit : at_ + src.length ≤ sz) :
    storeAll { wr := w, count := cn, size := sz, data := d, oob := o } at_ src =
      { wr := w, count := cn, size := sz, data := d.take at_ ++ src ++ d.drop (at_ + src.length), oob := o } :=
  storeAll_eq _ at_ src hlen hfit

/-! ### the refusals -/

theorem cheap_eta (c : CHeap) : ({ wr := c.wr, count := c.count, size := c.size, data := c.data } : CHeap) = c := rfl

theorem strndup_null_src (c : Option CHeap) (n : Nat) : scpiheap_strndup c none n = (c, none, false) := by
  simp [scpiheap_strndup]

theorem strndup_null_heap (s : Option (List UInt8)) (n : Nat) : scpiheap_strndup none s n = (none, none, false) := by
  cases s <;> simp [scpiheap_strndup]

theorem strndup_size_zero (c : CHeap) (src : Bytes) (n : Nat) (h : c.size = 0) :
    scpiheap_strndup (some c) (some src) n = (some c, none, false) := by
  cases c; simp_all [scpiheap_strndup]

theorem strndup_refines (c : CHeap) (src : Bytes) (n : Nat) (hc : CWF c) (hs : SrcOK src n) :
    scpiheap_strndup (some c) (some src) n =
      (some (ofModel (strndup (toModel c) src n).1), (strndup (toModel c) src n).2, false) := by
  obtain ⟨hlen, hsz, hcnt, hwr⟩ := hc
  obtain ⟨hsl, hsrc⟩ := hs
  by_cases h0 : c.size = 0
  · rw [strndup_size_zero c src n h0]; simp [strndup, toModel_size, h0, ofModel_toModel]
  have hwr : c.wr < c.size := by omega
  have hpos : 0 < src.length := by omega
  have e1 := strnlen_src src n
  have e2 := strnlen_src_ub src n hsrc
  have e3 := cstr_isEmpty_iff src hpos
  have e4 := src_take_succ src n hsrc
  have hLn : ((cstr src).take n).length ≤ n := by simp; omega
  generalize hT : (cstr src).take n = T at *
  have hne : src ≠ [] := by intro h; simp [h] at hpos
  have hb : (rd src 0 == 0) = (cstr src).isEmpty := by
    rw [Bool.eq_iff_iff]; simp only [beq_iff_eq]; exact e3.symm
  by_cases h1 : ¬ rd c.data c.wr = 0
  · simp only [scpiheap_strndup, strndup, toModel_size, toModel_data, toModel_wr, rd_def]
    simp [h0, h1, hlen, hwr, hne, ofModel_toModel]
  replace h1 : rd c.data c.wr = 0 := by simpa using h1
  by_cases h2 : (cstr src).isEmpty = true
  · simp only [scpiheap_strndup, strndup, toModel_size, toModel_data, toModel_wr, rd_def, hb]
    simp [h0, h1, hlen, h2, hwr, hne, ofModel_toModel]
  by_cases h3 : T.length + 1 > c.count
  · simp only [scpiheap_strndup, strndup, toModel_size, toModel_data, toModel_wr, toModel_count, rd_def, hb, hT, e1, e2,
      szadd_eq T.length 1 (by omega)]
    simp [h0, h1, hlen, h2, h3, hwr, hne, ofModel_toModel]
  have h3' : T.length + 1 ≤ c.count := by omega
  have h2' : (cstr src).isEmpty = false := by simpa using h2
  by_cases hA : T.length + 1 < c.size - c.wr
  · have hst := storeAll_eq (toModel c) c.wr (T ++ [0]) hlen (by simp [toModel_size]; omega)
    simp only [toModel_wr] at hst
    simp only [scpiheap_strndup, strndup, toModel_size, toModel_data, toModel_wr, toModel_count, rd_def, hb, hT, e1, e2,
      szadd_eq T.length 1 (by omega), szsub_zero c.wr (by omega), szsub_eq c.size c.wr (by omega) hsz, hst]
    simp [h0, h1, hlen, h2', h3, hA, hwr, hne, ofModel_toModel, show ¬ (c.size - c.wr ≤ T.length + 1) by omega,
      toModel_size, toModel_data, toModel_wr, toModel_count, toModel_oob, hst, memcpy, e4, store,
      szadd_eq c.wr (T.length + 1) (by omega), szsub_eq c.count (T.length + 1) (by omega) (by omega),
      szsub_eq (c.wr + (T.length + 1)) 1 (by omega) (by omega),
      show c.wr + (T.length + 1) ≤ c.size by omega, show T.length + 1 ≤ src.length by omega, ofModel,
      show c.wr + T.length < c.size by omega, Nat.min_eq_left (Nat.le_of_lt hwr), set_mid,
      show 0 < c.wr + (T.length + 1) by omega]
    omega
  have hB : c.size - c.wr ≤ T.length + 1 := by omega
  have hst1 := storeAll_eq (toModel c) c.wr ((T ++ [0]).take (c.size - c.wr)) hlen (by simp [toModel_size]; omega)
  simp only [toModel_wr, toModel_data, toModel_size, toModel_count, toModel_oob] at hst1
  generalize hbb : src.getD T.length 0 = b at e4
  have f1 : src.take (c.size - c.wr) = (T ++ [b]).take (c.size - c.wr) := by
    rw [← e4, List.take_take, Nat.min_eq_left hB]
  have f2 : (src.drop (c.size - c.wr)).take (T.length + 1 - (c.size - c.wr)) = (T ++ [b]).drop (c.size - c.wr) := by
    rw [← e4, List.drop_take]
  by_cases hC : c.size - c.wr = T.length + 1
  · have hst1 := storeAll_eq (toModel c) c.wr (T ++ [0]) hlen (by simp [toModel_size]; omega)
    simp only [toModel_wr, toModel_data, toModel_size, toModel_count, toModel_oob] at hst1
    have ht : ∀ x : UInt8, List.take (T.length + 1) (T ++ [x]) = T ++ [x] := fun x => List.take_of_length_le (by simp)
    simp only [scpiheap_strndup, strndup, toModel_size, toModel_data, toModel_wr, toModel_count, rd_def, hb, hT, e1, e2,
      szadd_eq T.length 1 (by omega), szsub_zero c.wr (by omega), szsub_eq c.size c.wr (by omega) hsz]
    simp only [hC] at f1 f2 ⊢
    simp [h0, h1, hlen, h2', h3, hwr, hne, toModel_size, toModel_data, toModel_wr, toModel_count, toModel_oob, hst1,
      memcpy, f1, f2, show c.wr + (T.length + 1) ≤ c.size by omega,
      show T.length + 1 ≤ src.length by omega,
      show szsub (T.length + 1) (T.length + 1) = 0 by unfold szsub; omega,
      show szadd 0 0 = 0 by unfold szadd; omega,
      szsub_eq c.count (T.length + 1) (by omega) (by omega),
      szsub_zero (c.count - (T.length + 1)) (by omega), szsub_eq c.size 1 (by omega) hsz, ht,
      show ∀ X : Heap, storeAll X 0 [] = X from fun X => rfl, store, ofModel, Nat.min_eq_left (Nat.le_of_lt hwr), set_mid,
      show c.size - 1 = c.wr + T.length by omega, show c.wr + T.length < c.size by omega]
    omega
  · have hB' : c.size - c.wr ≤ T.length := by omega
    have hst1 := storeAll_eq (toModel c) c.wr (T.take (c.size - c.wr)) hlen (by simp [toModel_size]; omega)
    simp only [toModel_wr, toModel_data, toModel_size, toModel_count, toModel_oob] at hst1
    simp only [scpiheap_strndup, strndup, toModel_size, toModel_data, toModel_wr, toModel_count, rd_def, hb, hT, e1, e2,
      szadd_eq T.length 1 (by omega), szsub_zero c.wr (by omega), szsub_eq c.size c.wr (by omega) hsz]
    simp [h0, h1, hlen, h2', h3, hB, hwr, hne, toModel_size, toModel_data, toModel_wr, toModel_count, toModel_oob, hst1,
      List.take_append_of_le_length hB', List.drop_append_of_le_length hB',
      szsub_eq (T.length + 1) (c.size - c.wr) hB (by omega),
      show szadd 0 (T.length + 1 - (c.size - c.wr)) = T.length + 1 - (c.size - c.wr) by unfold szadd; omega,
      szsub_eq c.count (c.size - c.wr) (by omega) (by omega),
      szsub_eq (c.count - (c.size - c.wr)) (T.length + 1 - (c.size - c.wr)) (by omega) (by omega),
      szsub_eq (T.length + 1 - (c.size - c.wr)) 1 (by omega) (by omega),
      show 0 < T.length + 1 - (c.size - c.wr) by omega, memcpy, f1, f2,
      show c.wr + (c.size - c.wr) ≤ c.size by omega, show c.size - c.wr ≤ src.length by omega]
    rw [storeAll_mk]
    · have g1 : c.wr + (c.size - c.wr) = c.size := by omega
      have g2 : List.drop c.size c.data = [] := by simp [← hlen]
      simp [store, ofModel, Nat.min_eq_left (Nat.le_of_lt hwr), Nat.min_eq_left hB', g1, g2,
        show 0 < T.length + 1 - (c.size - c.wr) by omega, show T.length + 1 ≤ src.length by omega,
        show T.length + 1 - (c.size - c.wr) - 1 < c.size by omega,
        show T.length + 1 ≤ c.size + (c.size - c.wr) by omega,
        show T.length + 1 - (c.size - c.wr) - 1 = T.length - (c.size - c.wr) by omega,
        show T.length + 1 - (c.size - c.wr) = T.length - (c.size - c.wr) + 1 by omega, set_mid0,
        show T.length - (c.size - c.wr) < c.size by omega]
      omega
    · simp; omega
    · simp; omega

end ScpiVerif.Lemmas.HeapC
