/-
Refinement of the hand-written ring buffer model `ScpiVerif.Fifo` (Model/Fifo.lean) by the definitions that
translate/c2lean.py GENERATES from libscpi/src/fifo.c on every run (Gen/FifoC.lean).

The proofs do not depend on the shape of the generated text: every generated function, the hand model and the abstraction
are unfolded, `Int.tmod` (C's `%`), `wrap16` (the store into an int16_t field) and `%` on `Nat` (the hand model) are
rewritten once into case distinctions that `omega` can decide, every `if`/`match` is split, and the leaves are closed by
`simp` and `omega`.  A behaviour-preserving rewrite of fifo.c leaves them intact; a semantic change does not.

Side conditions of the `Int` model of int16_t arithmetic (all proved here, under `CWF`): every value stored into a field is
within [-32768, 32767], so `wrap16` is the identity (`wrap16_of_range` is only ever applied with both bounds discharged by
`omega`); every `%` has a positive right operand and a non-negative left operand below twice the right one.  That int
arithmetic cannot overflow 32 bits is checked by the translator itself (interval arithmetic over int16_t leaves).
-/
import ScpiVerif.Gen.FifoC
import ScpiVerif.Model.Fifo
import ScpiVerif.Lemmas.Fifo

namespace ScpiVerif.Lemmas.FifoC
open ScpiVerif ScpiVerif.Gen.FifoC

variable {α : Type}

/-! ### abstraction and well-formedness -/

/-- the hand model's view of a C state: the int16_t fields as natural numbers -/
def toModel (f : CFifo α) : Fifo.Fifo α :=
  { wr := f.wr.toNat, rd := f.rd.toNat, count := f.count.toNat, size := f.size.toNat, data := f.data }

/-- well-formed C state: non-negative indices, a capacity that an int16_t can hold, and the ring invariant of the model -/
def CWF (f : CFifo α) : Prop :=
  0 ≤ f.wr ∧ 0 ≤ f.rd ∧ 0 ≤ f.count ∧ 1 ≤ f.size ∧ f.size ≤ 32767 ∧ Fifo.Inv (toModel f)

/-! ### bridging lemmas (proved once): C remainder, int16_t store, remainder on Nat -/

/-- `Int.tmod` outside the three ranges below (never reached from a well-formed state) -/
def tmodFar (a b : Int) : Int := Int.tmod a b
/-- `wrap16` outside the int16_t range (never reached from a well-formed state) -/
def wrap16Far (x : Int) : Int := wrap16 x
/-- `%` on Nat for a dividend of at least twice the divisor (never reached from a well-formed state) -/
def modFar (a b : Nat) : Nat := a % b

/-- C99 truncated remainder on the ranges a ring index can be in; the third case is where it differs from the
mathematical remainder (a negative dividend keeps its sign) -/
theorem tmod_ring (a b : Int) : Int.tmod a b =
    if 0 ≤ a ∧ a < b then a
    else if b ≤ a ∧ a < 2 * b ∧ 0 ≤ a then a - b
    else if a < 0 ∧ -b < a then a
    else tmodFar a b := by
  split
  · next h => exact Int.tmod_eq_of_lt h.1 h.2
  · split
    · next h =>
      rw [Int.tmod_eq_emod_of_nonneg h.2.2, ← Int.sub_emod_right a b, Int.emod_eq_of_lt] <;> omega
    · split
      · next h =>
        have : Int.tmod (-a) b = -a := Int.tmod_eq_of_lt (by omega) (by omega)
        rw [Int.neg_tmod] at this; omega
      · rfl

theorem wrap16_of_range (x : Int) (h1 : -32768 ≤ x) (h2 : x ≤ 32767) : wrap16 x = x := by
  unfold wrap16; omega

theorem nat_mod_ring (a b : Nat) : a % b = if a < b then a else if a < 2 * b then a - b else modFar a b := by
  split
  · next h => exact Nat.mod_eq_of_lt h
  · split
    · rw [Nat.mod_eq_sub_mod (by omega), Nat.mod_eq_of_lt (by omega)]
    · rfl

/-- an in-bounds read of the generated code is the model's read -/
theorem getD_eq_getElem? [Inhabited α] (l : List α) (n : Nat) (h : n < l.length) : some (l.getD n default) = l[n]? := by
  simp [List.getD_eq_getElem?_getD, List.getElem?_eq_getElem h]

theorem getElem?_idx (l : List α) (i j : Nat) (h : i = j) : l[i]? = l[j]? := by rw [h]

/-! ### proof automation shared by all refinement theorems -/

/-- unfold every generated function, the hand model, the abstraction; rewrite the three remainders / conversions into case
distinctions; turn Boolean tests into propositions -/
macro "c_unfold" : tactic => `(tactic|
  simp only [fifo_init, fifo_clear, fifo_is_empty, fifo_is_full, fifo_add, fifo_remove, fifo_remove_last, fifo_count, aget, aset,
    toModel, Fifo.init, Fifo.clear, Fifo.isEmpty, Fifo.isFull, Fifo.add, Fifo.remove, Fifo.removeLast, Fifo.cnt,
    tmod_ring, nat_mod_ring, beq_iff_eq, bne_iff_ne, decide_eq_true_eq, Bool.and_eq_true, Bool.or_eq_true, Bool.not_eq_true',
    decide_eq_false_iff_not, List.getD_eq_getElem?_getD])

/-- the well-formedness hypothesis as linear facts -/
macro "c_wf" h:ident : tactic => `(tactic| simp only [CWF, Fifo.Inv, toModel] at $h:ident)

/-- split every case distinction and close the leaves -/
macro "c_close" : tactic => `(tactic| (
  repeat' (split <;> try omega)
  all_goals (try simp (disch := omega) only [wrap16_of_range] at *)
  all_goals (try simp (disch := omega) only [List.getElem?_eq_getElem, Option.getD_some, Option.map_some, Option.map_none,
    Option.isSome_some, Option.isSome_none])
  all_goals (try simp)
  all_goals (try omega)
  all_goals (try (rw [Bool.eq_iff_iff]; simp only [beq_iff_eq, bne_iff_ne, decide_eq_true_eq]; omega))
  all_goals (try (refine ⟨?_, ?_⟩ <;> first | omega | (apply getElem?_idx; omega) | (congr 1; omega)))
  all_goals (try (first | (apply getElem?_idx; omega) | (congr 1; omega)))))

/-! ### fifo_init -/

theorem init_refines (f : CFifo α) (data : List α) (size : Int) :
    toModel (fifo_init f data size) = { wr := 0, rd := 0, count := 0, size := size.toNat, data := data } := by
  c_unfold; c_close

theorem init_replicate (f : CFifo α) (n : Nat) (d : α) :
    toModel (fifo_init f (List.replicate n d) (n : Int)) = Fifo.init n d := by
  c_unfold; c_close

theorem cwf_init (f : CFifo α) (data : List α) (size : Int) (h1 : 1 ≤ size) (h2 : size ≤ 32767)
    (hl : data.length = size.toNat) : CWF (fifo_init f data size) := by
  simp only [CWF, Fifo.Inv]; c_unfold; c_close

/-! ### fifo_clear -/

theorem clear_refines (f : CFifo α) : toModel (fifo_clear f) = Fifo.clear (toModel f) := by
  c_unfold; c_close

theorem cwf_clear (f : CFifo α) (h : CWF f) : CWF (fifo_clear f) := by
  c_wf h; simp only [CWF, Fifo.Inv]; c_unfold; c_close

/-! ### fifo_is_empty, fifo_is_full, fifo_count -/

theorem is_empty_refines (f : CFifo α) (h : CWF f) : fifo_is_empty f = Fifo.isEmpty (toModel f) := by
  c_wf h; c_unfold; c_close

theorem is_full_refines (f : CFifo α) (h : CWF f) : fifo_is_full f = Fifo.isFull (toModel f) := by
  c_wf h; c_unfold; c_close

/-- `*value` receives the count, the function returns TRUE (its pointer must not be NULL: it is dereferenced without a test) -/
theorem count_refines (f : CFifo α) (old : Int) (h : CWF f) :
    fifo_count f old = (Int.ofNat (Fifo.cnt (toModel f)), true) := by
  c_wf h; c_unfold; c_close

/-! ### fifo_add -/

theorem add_refines (f : CFifo α) (v : α) (h : CWF f) :
    toModel (fifo_add f (some v)).1 = (Fifo.add (toModel f) v).1 ∧ (fifo_add f (some v)).2 = (Fifo.add (toModel f) v).2 := by
  c_wf h; c_unfold; c_close

/-- NULL value: FALSE, nothing changes (no well-formedness needed) -/
theorem add_null (f : CFifo α) : fifo_add f none = (f, false) := by
  c_unfold; c_close

theorem add_signs (f : CFifo α) (p : Option α) (h : CWF f) :
    0 ≤ (fifo_add f p).1.wr ∧ 0 ≤ (fifo_add f p).1.rd ∧ 0 ≤ (fifo_add f p).1.count ∧
    (fifo_add f p).1.size = f.size := by
  c_wf h; cases p <;> (c_unfold; c_close)

theorem cwf_add (f : CFifo α) (p : Option α) (h : CWF f) : CWF (fifo_add f p).1 := by
  obtain ⟨s1, s2, s3, s4⟩ := add_signs f p h
  refine ⟨s1, s2, s3, by rw [s4]; exact h.2.2.2.1, by rw [s4]; exact h.2.2.2.2.1, ?_⟩
  cases p with
  | none => rw [add_null]; exact h.2.2.2.2.2
  | some v => rw [(add_refines f v h).1]; exact Lemmas.Fifo.inv_add _ _ h.2.2.2.2.2

/-! ### fifo_remove -/

/-- state and return value as in the model; the out pointer `p` (`none` = NULL, `some old` = points to an object holding
`old`) ends up holding the model's value, or what it held when the queue was empty; NULL delivers nothing -/
theorem remove_refines [Inhabited α] (f : CFifo α) (p : Option α) (h : CWF f) :
    toModel (fifo_remove f p).1 = (Fifo.remove (toModel f)).1 ∧
    (fifo_remove f p).2.2 = (Fifo.remove (toModel f)).2.isSome ∧
    (fifo_remove f p).2.1 = p.map (fun old => (Fifo.remove (toModel f)).2.getD old) := by
  c_wf h; cases p <;> (c_unfold; c_close)

theorem remove_signs [Inhabited α] (f : CFifo α) (p : Option α) (h : CWF f) :
    0 ≤ (fifo_remove f p).1.wr ∧ 0 ≤ (fifo_remove f p).1.rd ∧ 0 ≤ (fifo_remove f p).1.count ∧
    (fifo_remove f p).1.size = f.size := by
  c_wf h; cases p <;> (c_unfold; c_close)

theorem cwf_remove [Inhabited α] (f : CFifo α) (p : Option α) (h : CWF f) : CWF (fifo_remove f p).1 := by
  obtain ⟨s1, s2, s3, s4⟩ := remove_signs f p h
  refine ⟨s1, s2, s3, by rw [s4]; exact h.2.2.2.1, by rw [s4]; exact h.2.2.2.2.1, ?_⟩
  rw [(remove_refines f p h).1]; exact Lemmas.Fifo.inv_remove _ h.2.2.2.2.2

/-! ### fifo_remove_last -/

theorem remove_last_refines [Inhabited α] (f : CFifo α) (p : Option α) (h : CWF f) :
    toModel (fifo_remove_last f p).1 = (Fifo.removeLast (toModel f)).1 ∧
    (fifo_remove_last f p).2.2 = (Fifo.removeLast (toModel f)).2.isSome ∧
    (fifo_remove_last f p).2.1 = p.map (fun old => (Fifo.removeLast (toModel f)).2.getD old) := by
  c_wf h; cases p <;> (c_unfold; c_close)

theorem remove_last_signs [Inhabited α] (f : CFifo α) (p : Option α) (h : CWF f) :
    0 ≤ (fifo_remove_last f p).1.wr ∧ 0 ≤ (fifo_remove_last f p).1.rd ∧ 0 ≤ (fifo_remove_last f p).1.count ∧
    (fifo_remove_last f p).1.size = f.size := by
  c_wf h; cases p <;> (c_unfold; c_close)

theorem cwf_remove_last [Inhabited α] (f : CFifo α) (p : Option α) (h : CWF f) : CWF (fifo_remove_last f p).1 := by
  obtain ⟨s1, s2, s3, s4⟩ := remove_last_signs f p h
  refine ⟨s1, s2, s3, by rw [s4]; exact h.2.2.2.1, by rw [s4]; exact h.2.2.2.2.1, ?_⟩
  rw [(remove_last_refines f p h).1]; exact Lemmas.Fifo.inv_removeLast _ h.2.2.2.2.2

/-! ### every state the C functions can produce from `fifo_init` is well-formed -/

/-- states reachable by calling the functions of fifo.c, starting from `fifo_init` with a capacity an int16_t can hold and an
array of that length -/
inductive Reachable [Inhabited α] : CFifo α → Prop
  | init (f : CFifo α) (data : List α) (size : Int) (h1 : 1 ≤ size) (h2 : size ≤ 32767) (hl : data.length = size.toNat) :
      Reachable (fifo_init f data size)
  | clear {f : CFifo α} : Reachable f → Reachable (fifo_clear f)
  | add {f : CFifo α} (p : Option α) : Reachable f → Reachable (fifo_add f p).1
  | remove {f : CFifo α} (p : Option α) : Reachable f → Reachable (fifo_remove f p).1
  | remove_last {f : CFifo α} (p : Option α) : Reachable f → Reachable (fifo_remove_last f p).1

theorem reachable_cwf [Inhabited α] {f : CFifo α} (h : Reachable f) : CWF f := by
  induction h with
  | init f data size h1 h2 hl => exact cwf_init f data size h1 h2 hl
  | clear _ ih => exact cwf_clear _ ih
  | add p _ ih => exact cwf_add _ p ih
  | remove p _ ih => exact cwf_remove _ p ih
  | remove_last p _ ih => exact cwf_remove_last _ p ih

end ScpiVerif.Lemmas.FifoC
