/-
Helper lemmas of C07 (Props/C07.lean): what the result writers emit reads back as the same value.
-/
import ScpiVerif.Model.Ctx
import ScpiVerif.Model.Result
import ScpiVerif.Spec.Message
import ScpiVerif.Lemmas.Lexer
import ScpiVerif.Lemmas.IntFmt

namespace ScpiVerif.Lemmas.RoundTrip
open ScpiVerif ScpiVerif.Lexer ScpiVerif.Spec ScpiVerif.Spec.Message ScpiVerif.Lemmas.Lexer
open ScpiVerif.IntFmt (specDigits digitChar canon effBase)
open ScpiVerif.Lemmas.IntFmt (pad)

/-! ### kit: terminated tails, runs of bytes -/

/-- what may follow a result item in a response: nothing, ',', ';', LF, CR -/
def Term (tail : Bytes) : Prop :=
  tail = [] ∨ tail.head? = some 44 ∨ tail.head? = some 59 ∨ tail.head? = some 10 ∨ tail.head? = some 13

theorem hd_term {tail : Bytes} (h : Term tail) (p : UInt8 → Bool)
    (hp : p 44 = false ∧ p 59 = false ∧ p 10 = false ∧ p 13 = false) : hd tail p = false := by
  cases tail with
  | nil => rfl
  | cons x t =>
    simp only [Term, List.head?_cons, Option.some.injEq] at h
    rcases h with h | rfl | rfl | rfl | rfl
    · cases h
    all_goals simp [hp]

theorem tw_all_append {p : UInt8 → Bool} {ds rest : Bytes} (h : ∀ x ∈ ds, p x = true) (hr : hd rest p = false) :
    tw p (ds ++ rest) = ds.length := by
  induction ds with
  | nil => simpa using tw_eq_zero_iff.2 hr
  | cons x ds ih =>
    rw [List.cons_append, tw_cons, if_pos (h x (by simp)), ih (fun y hy => h y (by simp [hy]))]
    simp; omega

def toB (c : Char) : UInt8 := UInt8.ofNat c.toNat

/-! ### digits -/

theorem specDigits_pad {b : Nat} (hb : 2 ≤ b) (n : Nat) :
    ∃ k, specDigits b n = pad b (k+1) n ∧ n < b^(k+1) ∧ (n ≠ 0 → b^k ≤ n) := by
  by_cases hn : n = 0
  · subst hn
    refine ⟨0, ?_, by simp; omega, by simp⟩
    rw [IntFmt.specDigits_zero]; simp [pad, IntFmt.digitChar_zero]
  · obtain ⟨k, a, c⟩ := IntFmt.exists_pow_bracket hb n (by omega)
    exact ⟨k, IntFmt.specDigits_eq hb a c, c, fun _ => a⟩

theorem pad_mem (b : Nat) (hb : 0 < b) (k : Nat) : ∀ n, ∀ c ∈ pad b k n, ∃ d, d < b ∧ c = digitChar d := by
  induction k with
  | zero => intro n c h; simp [pad] at h
  | succ k ih =>
    intro n c h
    simp only [pad, List.mem_append, List.mem_singleton] at h
    rcases h with h | h
    · exact ih _ c h
    · exact ⟨n % b, Nat.mod_lt _ hb, h⟩

theorem foldl_pad (b : Nat) (g : UInt8 → Nat) (hg : ∀ d, d < b → g (toB (digitChar d)) = d) (hb : 0 < b) (k : Nat) :
    ∀ n acc, ((pad b k n).map toB).foldl (fun a x => a * b + g x) acc = acc * b^k + n % b^k := by
  induction k with
  | zero => intro n acc; simp [pad, Nat.mod_one]
  | succ k ih =>
    intro n acc
    have hlt : n % b < b := Nat.mod_lt _ hb
    rw [pad, List.map_append, List.foldl_append, ih]
    simp only [List.map_cons, List.map_nil, List.foldl_cons, List.foldl_nil, hg _ hlt]
    have e : n % b^(k+1) = n % b + b * (n / b % b^k) := by
      rw [Nat.pow_succ, Nat.mul_comm, Nat.mod_mul]
    rw [e, Nat.add_mul, Nat.mul_assoc, Nat.mul_comm (n / b % b^k) b, Nat.pow_succ]
    omega

/-- the digit bytes of `n` in base `b` -/
def digs (b n : Nat) : Bytes := (specDigits b n).map toB

theorem byte_facts : ∀ d, d < 16 →
    Prim.digitVal (toB (digitChar d)) = some d ∧ isXDigit (toB (digitChar d)) = true ∧
    (d < 8 → isQDigit (toB (digitChar d)) = true) ∧ (d < 2 → isBDigit (toB (digitChar d)) = true) ∧
    (d < 10 → isDigit (toB (digitChar d)) = true ∧ (toB (digitChar d)).toNat - 48 = d) ∧
    (toB (digitChar d) = 48 → d = 0) ∧ Prim.isSpace (toB (digitChar d)) = false ∧
    toB (digitChar d) ≠ 45 ∧ toB (digitChar d) ≠ 43 := by decide +kernel

structure DigsOK (b n : Nat) (ds : Bytes) : Prop where
  ne : ds ≠ []
  mem : ∀ x ∈ ds, ∃ d, d < b ∧ x = toB (digitChar d)
  val : ∀ (g : UInt8 → Nat), (∀ d, d < b → g (toB (digitChar d)) = d) → ∀ acc, ds.foldl (fun a x => a * b + g x) acc = acc * b ^ ds.length + n
  lead : ds.head? = some 48 → ds = [48]

theorem digs_ok {b : Nat} (hb : 2 ≤ b) (hb16 : b ≤ 16) (n : Nat) : DigsOK b n (digs b n) := by
  obtain ⟨k, e, hlt, hge⟩ := specDigits_pad hb n
  have hx : 0 < b^k := Nat.pow_pos (by omega)
  unfold digs
  rw [e]
  refine ⟨?_, ?_, ?_, ?_⟩
  · intro h; have := congrArg List.length h; simp at this
  · intro x hx
    obtain ⟨c, hc, rfl⟩ := List.mem_map.1 hx
    obtain ⟨d, hd, rfl⟩ := pad_mem b (by omega) _ _ c hc
    exact ⟨d, hd, rfl⟩
  · intro g hg acc
    rw [foldl_pad b g hg (by omega), Nat.mod_eq_of_lt hlt]; simp
  · rw [IntFmt.pad_succ_msd]
    intro h
    simp only [List.map_cons, List.head?_cons, Option.some.injEq] at h
    have hq2 : n / b^k < b := by
      rw [Nat.div_lt_iff_lt_mul hx]
      have := hlt; rw [Nat.pow_succ, Nat.mul_comm] at this; rwa [Nat.mul_comm]
    rw [Nat.mod_eq_of_lt hq2] at h
    have h0 := (byte_facts _ (by omega)).2.2.2.2.2.1 h
    have hn0 : n = 0 := by
      apply Decidable.byContradiction
      intro hne
      have := hge hne
      have : 1 ≤ n / b^k := (Nat.le_div_iff_mul_le hx).2 (by simpa using this)
      omega
    subst hn0
    have hk : k = 0 := by
      apply Decidable.byContradiction
      intro hk
      -- n = 0 was bracketed with k = 0
      have : specDigits b 0 = ['0'] := IntFmt.specDigits_zero b
      rw [e] at this
      have := congrArg List.length this
      simp at this; omega
    subst hk
    simp [pad, IntFmt.digitChar_zero, toB]
    decide

/-! ### narrow widths, booleans -/

theorem narrow_roundtrip (n : Nat) (hn : n = 8 ∨ n = 16) (pat : Nat) (hv : pat < 2^n) :
    Prim.wrapSigned 32 (Result.signExtend n 32 pat) = Prim.wrapSigned n pat ∧ Result.signExtend n 32 pat < 2^32 := by
  rcases hn with rfl | rfl <;>
  · unfold Prim.wrapSigned Result.signExtend
    simp only [ge_iff_le, Nat.reducePow, Nat.reduceSub, Int.reducePow] at hv ⊢
    by_cases h : 2^7 ≤ pat <;> by_cases h' : 2^15 ≤ pat <;>
      simp only [Nat.reducePow] at h h' <;> simp only [h, h', if_true, if_false] <;>
      constructor <;> (try split) <;> omega

theorem bool_roundtrip (b : Bool) :
    intText 32 (if b then 1 else 0) 10 false = (if b then [49] else [48]) := by
  cases b <;> decide

end ScpiVerif.Lemmas.RoundTrip
