/-
Helper lemmas of C07 (Props/C07.lean): what the result writers emit reads back as the same value.
-/
import ScpiVerif.Model.Ctx
import ScpiVerif.Model.Result
import ScpiVerif.Spec.Message
import ScpiVerif.Lemmas.Lexer
import ScpiVerif.Lemmas.IntFmt

namespace ScpiVerif.Lemmas.RoundTrip
open ScpiVerif ScpiVerif.Lexer ScpiVerif.Spec ScpiVerif.Spec.Message ScpiVerif.Lemmas.Lexer

/-! ### narrow widths, booleans -/

theorem narrow_roundtrip (n : Nat) (hn : n = 8 ∨ n = 16) (pat : Nat) (hv : pat < 2^n) :
    Prim.wrapSigned 32 (Result.signExtend n 32 pat) = Prim.wrapSigned n pat ∧ Result.signExtend n 32 pat < 2^32 := by
  rcases hn with rfl | rfl <;>
  · unfold Prim.wrapSigned Result.signExtend
    simp only [ge_iff_le, Nat.reducePow, Nat.reduceSub, Int.reducePow] at hv ⊢
    by_cases h : 2^7 ≤ pat <;> by_cases h' : 2^15 ≤ pat <;>
      simp only [Nat.reducePow] at h h' <;> simp only [h, h', if_true, if_false] <;>
      constructor <;> (try split) <;> omega

theorem bool_roundtrip (b : Bool) :
    intText 32 (if b then 1 else 0) 10 false = (if b then [49] else [48]) := by
  cases b <;> decide

end ScpiVerif.Lemmas.RoundTrip
