/-
Helper lemmas of C07 (Props/C07.lean): what the result writers emit reads back as the same value.
-/
import ScpiVerif.Model.Ctx
import ScpiVerif.Model.Result
import ScpiVerif.Spec.Message
import ScpiVerif.Lemmas.Lexer
import ScpiVerif.Lemmas.IntFmt

namespace ScpiVerif.Lemmas.RoundTrip
open ScpiVerif ScpiVerif.Lexer ScpiVerif.Spec ScpiVerif.Spec.Message ScpiVerif.Lemmas.Lexer
open ScpiVerif.IntFmt (specDigits digitChar canon effBase)
open ScpiVerif.Lemmas.IntFmt (pad)

/-! ### kit: terminated tails, runs of bytes -/

/-- what may follow a result item in a response: nothing, ',', ';', LF, CR -/
def Term (tail : Bytes) : Prop :=
  tail = [] ∨ tail.head? = some 44 ∨ tail.head? = some 59 ∨ tail.head? = some 10 ∨ tail.head? = some 13

theorem hd_term {tail : Bytes} (h : Term tail) (p : UInt8 → Bool)
    (hp : p 44 = false ∧ p 59 = false ∧ p 10 = false ∧ p 13 = false) : hd tail p = false := by
  cases tail with
  | nil => rfl
  | cons x t =>
    simp only [Term, List.head?_cons, Option.some.injEq] at h
    rcases h with h | rfl | rfl | rfl | rfl
    · cases h
    all_goals simp [hp]

theorem tw_all_append {p : UInt8 → Bool} {ds rest : Bytes} (h : ∀ x ∈ ds, p x = true) (hr : hd rest p = false) :
    tw p (ds ++ rest) = ds.length := by
  induction ds with
  | nil => simpa using tw_eq_zero_iff.2 hr
  | cons x ds ih =>
    rw [List.cons_append, tw_cons, if_pos (h x (by simp)), ih (fun y hy => h y (by simp [hy]))]
    simp; omega

def toB (c : Char) : UInt8 := UInt8.ofNat c.toNat

/-- a statement about all bytes checked on the 256 values -/
theorem forall_byte (P : UInt8 → Prop) (h : ∀ n : Fin 256, P (UInt8.ofNat n.val)) (b : UInt8) : P b := by
  have := h ⟨b.toNat, UInt8.toNat_lt b⟩
  simpa using this

/-! ### digits -/

theorem specDigits_pad {b : Nat} (hb : 2 ≤ b) (n : Nat) :
    ∃ k, specDigits b n = pad b (k+1) n ∧ n < b^(k+1) ∧ (n ≠ 0 → b^k ≤ n) := by
  by_cases hn : n = 0
  · subst hn
    refine ⟨0, ?_, by simp; omega, by simp⟩
    rw [IntFmt.specDigits_zero]; simp [pad, IntFmt.digitChar_zero]
  · obtain ⟨k, a, c⟩ := IntFmt.exists_pow_bracket hb n (by omega)
    exact ⟨k, IntFmt.specDigits_eq hb a c, c, fun _ => a⟩

theorem pad_mem (b : Nat) (hb : 0 < b) (k : Nat) : ∀ n, ∀ c ∈ pad b k n, ∃ d, d < b ∧ c = digitChar d := by
  induction k with
  | zero => intro n c h; simp [pad] at h
  | succ k ih =>
    intro n c h
    simp only [pad, List.mem_append, List.mem_singleton] at h
    rcases h with h | h
    · exact ih _ c h
    · exact ⟨n % b, Nat.mod_lt _ hb, h⟩

theorem foldl_pad (b : Nat) (g : UInt8 → Nat) (hg : ∀ d, d < b → g (toB (digitChar d)) = d) (hb : 0 < b) (k : Nat) :
    ∀ n acc, ((pad b k n).map toB).foldl (fun a x => a * b + g x) acc = acc * b^k + n % b^k := by
  induction k with
  | zero => intro n acc; simp [pad, Nat.mod_one]
  | succ k ih =>
    intro n acc
    have hlt : n % b < b := Nat.mod_lt _ hb
    rw [pad, List.map_append, List.foldl_append, ih]
    simp only [List.map_cons, List.map_nil, List.foldl_cons, List.foldl_nil, hg _ hlt]
    have e : n % b^(k+1) = n % b + b * (n / b % b^k) := by
      rw [Nat.pow_succ, Nat.mul_comm, Nat.mod_mul]
    rw [e, Nat.add_mul, Nat.mul_assoc, Nat.mul_comm (n / b % b^k) b, Nat.pow_succ]
    omega

/-- the digit bytes of `n` in base `b` -/
def digs (b n : Nat) : Bytes := (specDigits b n).map toB

theorem byte_facts : ∀ d, d < 16 →
    Prim.digitVal (toB (digitChar d)) = some d ∧ isXDigit (toB (digitChar d)) = true ∧
    (d < 8 → isQDigit (toB (digitChar d)) = true) ∧ (d < 2 → isBDigit (toB (digitChar d)) = true) ∧
    (d < 10 → isDigit (toB (digitChar d)) = true ∧ (toB (digitChar d)).toNat - 48 = d) ∧
    (toB (digitChar d) = 48 → d = 0) ∧ Prim.isSpace (toB (digitChar d)) = false ∧
    toB (digitChar d) ≠ 45 ∧ toB (digitChar d) ≠ 43 := by decide +kernel

structure DigsOK (b n : Nat) (ds : Bytes) : Prop where
  ne : ds ≠ []
  mem : ∀ x ∈ ds, ∃ d, d < b ∧ x = toB (digitChar d)
  val : ∀ (g : UInt8 → Nat), (∀ d, d < b → g (toB (digitChar d)) = d) → ∀ acc, ds.foldl (fun a x => a * b + g x) acc = acc * b ^ ds.length + n
  lead : ds.head? = some 48 → ds = [48]

theorem digs_ok {b : Nat} (hb : 2 ≤ b) (hb16 : b ≤ 16) (n : Nat) : DigsOK b n (digs b n) := by
  obtain ⟨k, e, hlt, hge⟩ := specDigits_pad hb n
  have hx : 0 < b^k := Nat.pow_pos (by omega)
  unfold digs
  rw [e]
  refine ⟨?_, ?_, ?_, ?_⟩
  · intro h; have := congrArg List.length h; simp at this
  · intro x hx
    obtain ⟨c, hc, rfl⟩ := List.mem_map.1 hx
    obtain ⟨d, hd, rfl⟩ := pad_mem b (by omega) _ _ c hc
    exact ⟨d, hd, rfl⟩
  · intro g hg acc
    rw [foldl_pad b g hg (by omega), Nat.mod_eq_of_lt hlt]; simp
  · rw [IntFmt.pad_succ_msd]
    intro h
    simp only [List.map_cons, List.head?_cons, Option.some.injEq] at h
    have hq2 : n / b^k < b := by
      rw [Nat.div_lt_iff_lt_mul hx]
      have := hlt; rw [Nat.pow_succ, Nat.mul_comm] at this; rwa [Nat.mul_comm]
    rw [Nat.mod_eq_of_lt hq2] at h
    have h0 := (byte_facts _ (by omega)).2.2.2.2.2.1 h
    have hn0 : n = 0 := by
      apply Decidable.byContradiction
      intro hne
      have := hge hne
      have : 1 ≤ n / b^k := (Nat.le_div_iff_mul_le hx).2 (by simpa using this)
      omega
    subst hn0
    have hk : k = 0 := by
      apply Decidable.byContradiction
      intro hk
      -- n = 0 was bracketed with k = 0
      have : specDigits b 0 = ['0'] := IntFmt.specDigits_zero b
      rw [e] at this
      have := congrArg List.length this
      simp at this; omega
    subst hk
    simp [pad, IntFmt.digitChar_zero, toB]

/-! ### blocks -/

theorem blockDigits_run (buf : Bytes) : ∀ (l : Bytes) (pos acc : Nat) (rest : Bytes), buf.drop pos = l ++ rest →
    (∀ x ∈ l, isDigit x = true) →
    blockDigits buf l.length pos acc = (pos + l.length, 0, l.foldl (fun a x => a * 10 + (x.toNat - 48)) acc) := by
  intro l
  induction l with
  | nil => intro pos acc rest _ _; simp [blockDigits]
  | cons x l ih =>
    intro pos acc rest hm hd
    have h0 : buf[pos]? = some x := by rw [getElem?_eq_head_drop, hm]; rfl
    have h1 : buf.drop (pos + 1) = l ++ rest := by rw [drop_add, hm]; rfl
    simp only [List.length_cons, blockDigits, h0, hd x (by simp), if_true, List.foldl_cons]
    rw [ih (pos + 1) _ rest h1 (fun y hy => hd y (by simp [hy]))]
    congr 1; omega

theorem count_byte : ∀ n, n < 10 → 1 ≤ n →
    isDigit (UInt8.ofNat (48 + n)) = true ∧ UInt8.ofNat (48 + n) ≠ 48 ∧ (UInt8.ofNat (48 + n)).toNat - 48 = n := by
  decide +kernel

theorem decimal_ok (n : Nat) : DigsOK 10 n (Message.decimal n) := digs_ok (by omega) (by omega) n

theorem decimal_length_le (n : Nat) (hn : n < 10^9) : (Message.decimal n).length ≤ 9 := by
  obtain ⟨k, e, hlt, hge⟩ := specDigits_pad (b := 10) (by omega) n
  unfold Message.decimal; rw [e]; simp
  apply Decidable.byContradiction
  intro hk
  have h9 : 9 ≤ k := by omega
  have hn0 : n ≠ 0 := by
    intro h0; subst h0
    have := IntFmt.specDigits_zero 10
    rw [e] at this
    have := congrArg List.length this
    simp at this; omega
  have h1 : 10^9 ≤ 10^k := Nat.pow_le_pow_right (by omega) h9
  have := hge hn0
  omega

theorem block_roundtrip (d : Bytes) (hd : d.length < 10^9) (tail : Bytes) :
    let text := encodeBlock d
    let (p, tok, _) := Lexer.lexBlock (text ++ tail) 0
    p = text.length ∧ tok.type = .block ∧ ((text ++ tail).drop tok.ptr).take tok.len.toNat = d := by
  have ok := decimal_ok d.length
  have hle := decimal_length_le d.length hd
  generalize hl : Message.decimal d.length = l at ok hle
  have hpos : 1 ≤ l.length := by
    cases l with
    | nil => exact absurd rfl ok.ne
    | cons _ _ => simp
  obtain ⟨c1, c2, c3⟩ := count_byte l.length (by omega) hpos
  have hdig : ∀ x ∈ l, isDigit x = true := by
    intro x hx
    obtain ⟨dd, hdd, rfl⟩ := ok.mem x hx
    exact ((byte_facts dd (by omega)).2.2.2.2.1 hdd).1
  have hval : l.foldl (fun a x => a * 10 + (x.toNat - 48)) 0 = d.length := by
    have := ok.val (fun x => x.toNat - 48) (fun dd hdd => ((byte_facts dd (by omega)).2.2.2.2.1 hdd).2) 0
    simpa using this
  have hbuf : encodeBlock d ++ tail = 35 :: UInt8.ofNat (48 + l.length) :: (l ++ (d ++ tail)) := by
    simp [encodeBlock, hl]
  have hlen : (encodeBlock d).length = 2 + l.length + d.length := by
    simp [encodeBlock, hl]; omega
  have key : lexBlock (35 :: UInt8.ofNat (48 + l.length) :: (l ++ (d ++ tail))) 0 =
      (2 + l.length + d.length, mkTok .block (2 + l.length) d.length, (d.length : Int) + (((2 + l.length : Nat) : Int) - (0 : Nat))) := by
    have hrun := blockDigits_run (35 :: UInt8.ofNat (48 + l.length) :: (l ++ (d ++ tail))) l 2 0 (d ++ tail) rfl hdig
    have hc : (isDigit (UInt8.ofNat (48 + l.length)) && UInt8.ofNat (48 + l.length) != 48) = true := by
      rw [c1, Bool.true_and]; exact bne_iff_ne.2 c2
    unfold lexBlock
    simp only [peekP, List.getElem?_cons_zero, beq_self_eq_true, if_true, Nat.zero_add, List.getElem?_cons_succ,
      hc, c3, Nat.reduceAdd, hrun, hval]
    rw [if_pos (by simp; omega)]
  dsimp only
  rw [hbuf, key, hlen]
  refine ⟨rfl, rfl, ?_⟩
  simp only [mkTok, Int.toNat_natCast]
  rw [show 2 + l.length = l.length + 1 + 1 by omega]
  simp

/-! ### strings -/

def esc (s : Bytes) : Bytes := s.flatMap (fun b => if b == 34 then [34, 34] else [b])

theorem quote_eq (s : Bytes) : quote s = 34 :: (esc s ++ [34]) := by simp [quote, esc]

theorem esc_cons (x : UInt8) (s : Bytes) : esc (x :: s) = (if x == 34 then [34, 34] else [x]) ++ esc s := by
  simp [esc]

theorem esc_length_ge (s : Bytes) : s.length ≤ (esc s).length := by
  induction s with
  | nil => simp [esc]
  | cons x s ih => rw [esc_cons]; split <;> simp <;> omega

theorem skipQuote_run (buf : Bytes) : ∀ (s : Bytes) (fuel pos : Nat) (rest : Bytes),
    buf.drop pos = esc s ++ 34 :: rest → hd rest (· == 34) = false → (∀ b ∈ s, 1 ≤ b ∧ b ≤ 127) → s.length < fuel →
    skipQuote buf 34 fuel pos = pos + (esc s).length := by
  intro s
  induction s with
  | nil =>
    intro fuel pos rest hm hr _ hf
    obtain ⟨f, rfl⟩ : ∃ f, fuel = f + 1 := ⟨fuel - 1, by simp at hf; omega⟩
    have h0 : buf[pos]? = some 34 := by rw [getElem?_eq_head_drop, hm]; rfl
    have h1 : peekP buf (pos + 1) (· == 34) = false := by
      rw [peekP_eq, drop_add, hm]; simpa [esc] using hr
    simp [skipQuote, h0, h1, esc, isAscii7]
  | cons x s ih =>
    intro fuel pos rest hm hr hs hf
    obtain ⟨f, rfl⟩ : ∃ f, fuel = f + 1 := ⟨fuel - 1, by simp at hf; omega⟩
    have hs' : ∀ b ∈ s, 1 ≤ b ∧ b ≤ 127 := fun b hb => hs b (by simp [hb])
    have hf' : s.length < f := by simp at hf; omega
    rw [esc_cons] at hm ⊢
    by_cases hx : x = 34
    · subst hx
      simp only [beq_self_eq_true, if_true] at hm ⊢
      have h0 : buf[pos]? = some 34 := by rw [getElem?_eq_head_drop, hm]; rfl
      have h1 : peekP buf (pos + 1) (· == 34) = true := by
        rw [peekP_eq, drop_add, hm]; rfl
      have h2 : buf.drop (pos + 2) = esc s ++ 34 :: rest := by rw [drop_add, hm]; rfl
      simp only [skipQuote, h0, h1]
      rw [ih f (pos + 2) rest h2 hr hs' hf']
      simp [isAscii7]; omega
    · have hx' : (x == 34) = false := by simpa using hx
      simp only [hx'] at hm ⊢
      have h0 : buf[pos]? = some x := by rw [getElem?_eq_head_drop, hm]; rfl
      have h2 : buf.drop (pos + 1) = esc s ++ 34 :: rest := by rw [drop_add, hm]; rfl
      have ha : (isAscii7 x && x != 34) = true := by
        have := (hs x (by simp)).2
        simp [isAscii7, this, hx]
      simp only [skipQuote, h0, ha]
      rw [ih f (pos + 1) rest h2 hr hs' hf']
      simp; omega

theorem copy_run (tok : Bytes) (cap : Nat) : ∀ (s : Bytes) (fuel iFrom : Nat) (acc : Bytes),
    tok.drop iFrom = esc s ++ [34] → iFrom + (esc s).length < cap → s.length < fuel →
    Ctx.copyText.go tok 34 cap fuel iFrom acc = acc ++ s := by
  intro s
  induction s with
  | nil =>
    intro fuel iFrom acc hm _ hf
    obtain ⟨f, rfl⟩ : ∃ f, fuel = f + 1 := ⟨fuel - 1, by simp at hf; omega⟩
    have hl := congrArg List.length hm
    simp [esc] at hl
    unfold Ctx.copyText.go
    rw [if_neg (by omega)]; simp
  | cons x s ih =>
    intro fuel iFrom acc hm hc hf
    obtain ⟨f, rfl⟩ : ∃ f, fuel = f + 1 := ⟨fuel - 1, by simp at hf; omega⟩
    have hf' : s.length < f := by simp at hf; omega
    have hl := congrArg List.length hm
    rw [esc_cons] at hm hl hc
    have hget : ∀ y r, tok.drop iFrom = y :: r → tok.getD iFrom 0 = y := by
      intro y r h
      rw [List.getD_eq_getElem?_getD, getElem?_eq_head_drop, h]; rfl
    by_cases hx : x = 34
    · subst hx
      simp only [beq_self_eq_true, if_true] at hm hl hc
      simp only [List.length_drop, List.length_append, List.length_cons, List.length_nil] at hl hc
      have h2 : tok.drop (iFrom + 2) = esc s ++ [34] := by rw [drop_add, hm]; rfl
      unfold Ctx.copyText.go
      rw [if_pos (by omega), if_neg (by omega)]
      simp only [hget _ _ hm, beq_self_eq_true, if_true]
      rw [ih f (iFrom + 2) _ h2 (by omega) hf']
      simp
    · have hx' : (x == 34) = false := by simpa using hx
      simp only [hx', Bool.false_eq_true, if_false] at hm hl hc
      simp only [List.length_drop, List.length_append, List.length_cons, List.length_nil] at hl hc
      have h2 : tok.drop (iFrom + 1) = esc s ++ [34] := by rw [drop_add, hm]; rfl
      unfold Ctx.copyText.go
      rw [if_pos (by omega), if_neg (by omega)]
      simp only [hget _ _ hm, hx', Bool.false_eq_true, if_false]
      rw [ih f (iFrom + 1) _ h2 (by omega) hf']
      simp

theorem text_roundtrip (s : Bytes) (hs : ∀ b ∈ s, 1 ≤ b ∧ b ≤ 127) (cap : Nat) (hcap : (quote s).length < cap) (tail : Bytes)
    (htail : tail = [] ∨ tail.head? = some 44 ∨ tail.head? = some 59 ∨ tail.head? = some 10 ∨ tail.head? = some 13) :
    let text := quote s
    let (p, tok, _) := Lexer.lexString (text ++ tail) 0
    p = text.length ∧ tok = ⟨.doubleQuote, 0, text.length⟩ ∧ Ctx.copyText text 34 cap = (s, true) := by
  have hT : Term tail := htail
  have hr : hd tail (· == 34) = false := hd_term hT _ (by decide)
  have hge := esc_length_ge s
  have hlen : (quote s).length = (esc s).length + 2 := by rw [quote_eq]; simp
  have hbuf : quote s ++ tail = 34 :: (esc s ++ 34 :: tail) := by rw [quote_eq]; simp
  have key : lexString (34 :: (esc s ++ 34 :: tail)) 0 =
      ((esc s).length + 2, mkTok .doubleQuote 0 ((((esc s).length + 2 : Nat) : Int) - (0 : Nat)),
        (((esc s).length + 2 : Nat) : Int) - (0 : Nat)) := by
    have hsk := skipQuote_run (34 :: (esc s ++ 34 :: tail)) s ((34 :: (esc s ++ 34 :: tail)).length - 0) (0 + 1) tail
      rfl hr hs (by simp; omega)
    have hp : peekP (34 :: (esc s ++ 34 :: tail)) (0 + 1 + (esc s).length) (· == 34) = true := by
      rw [peekP_eq, show 0 + 1 + (esc s).length = (esc s).length + 1 by omega]
      simp
    unfold lexString
    simp only [hsk, hp, if_true]
    have h0 : peekP (34 :: (esc s ++ 34 :: tail)) 0 (· == 34) = true := rfl
    rw [if_pos h0]
    simp only [show 0 + 1 + (esc s).length + 1 = (esc s).length + 2 by omega]
  have hcopy : Ctx.copyText (quote s) 34 cap = (s, true) := by
    have := copy_run (quote s) cap s ((quote s).length + 1) 1 []
      (by rw [quote_eq]; rfl) (by omega) (by omega)
    unfold Ctx.copyText
    simp only [this, List.nil_append]
    have : s.length < cap := by omega
    simp [this]
  dsimp only
  rw [hbuf, key, hlen]
  refine ⟨rfl, ?_, hcopy⟩
  simp [mkTok]

/-! ### strtod on a decimal literal -/
section Strtod
open ScpiVerif.Prim

/-- first byte of a list, NUL when empty -/
def h0 (s : Bytes) : UInt8 := (s.head?).getD 0

theorem rd_eq (mem : Bytes) (i : Nat) : rd mem i = h0 (mem.drop i) := by
  simp [rd, h0, List.getD_eq_getElem?_getD, List.head?_drop]

theorem hd_eq_h0 {p : UInt8 → Bool} (hp : p 0 = false) (s : Bytes) : hd s p = p (h0 s) := by
  cases s <;> simp [h0, hp]

theorem run_eq (mem : Bytes) (p : UInt8 → Bool) (hp : p 0 = false) : ∀ (f i : Nat), (mem.drop i).length < f →
    strtodLen.run mem p f i = i + tw p (mem.drop i) := by
  intro f
  induction f with
  | zero => intro i h; omega
  | succ f ih =>
    intro i h
    rw [strtodLen.run, rd_eq, ← hd_eq_h0 hp]
    by_cases hh : hd (mem.drop i) p = true
    · have hl := hd_length hh
      rw [if_pos hh, ih (i + 1) (by rw [drop_add]; simp at hl h ⊢; omega), tw_succ hh, drop_add]; omega
    · rw [if_neg hh]
      have : tw p (mem.drop i) = 0 := tw_eq_zero_iff.2 (by simpa using hh)
      omega

theorem strtodLen_decimal (mem : Bytes) (i1 : Nat) (hsp : isSpace (rd mem 0) = false)
    (hi1 : i1 = if rd mem 0 == 45 ∨ rd mem 0 == 43 then 0 + 1 else 0)
    (hdig : isDigit (rd mem i1) = true) (hx : rd mem (i1 + 1) ≠ 120 ∧ rd mem (i1 + 1) ≠ 88) :
    strtodLen mem 0 =
      let a := i1 + tw isDigit (mem.drop i1)
      let b := if rd mem a == 46 then a + 1 + tw isDigit (mem.drop (a + 1)) else a
      if rd mem b == 101 ∨ rd mem b == 69 then
        let s := if rd mem (b + 1) == 45 ∨ rd mem (b + 1) == 43 then b + 2 else b + 1
        if isDigit (rd mem s) then s + tw isDigit (mem.drop s) else b
      else b := by
  have hskip : skipSpaces mem (mem.length - 0 + 1) 0 = 0 := by simp [skipSpaces, hsp]
  have hlow : (if 65 ≤ rd mem i1 ∧ rd mem i1 ≤ 90 then rd mem i1 + 32 else rd mem i1) = rd mem i1 := by
    rw [if_neg]
    intro h
    simp only [isDigit, Bool.and_eq_true, decide_eq_true_eq] at hdig
    have := UInt8.le_trans h.1 hdig.2
    exact absurd this (by decide)
  have hne : rd mem i1 ≠ 105 ∧ rd mem i1 ≠ 110 := by
    constructor <;> intro h <;> rw [h] at hdig <;> exact absurd hdig (by decide)
  have hd0 : hd (mem.drop i1) isDigit = true := by rw [hd_eq_h0 rfl, ← rd_eq]; exact hdig
  have hpos : 0 < tw isDigit (mem.drop i1) := tw_pos_iff.2 hd0
  have hle : i1 ≤ 1 := by rw [hi1]; split <;> omega
  have hrun : ∀ i, strtodLen.run mem isDigit (mem.length - i1 + 2) i = i + tw isDigit (mem.drop i) := by
    intro i
    apply run_eq mem isDigit rfl
    simp; omega
  unfold strtodLen
  simp only [hskip, ← hi1]
  simp only [List.zipIdx_cons, List.zipIdx_nil, List.all_cons, Nat.add_zero, hlow]
  rw [if_neg (by simp [hne.1]), if_neg (by simp [hne.2]), if_neg (by simp [hx.1, hx.2])]
  simp only [hrun, Nat.sub_zero]
  generalize tw isDigit (mem.drop i1) = n at hpos ⊢
  rw [if_neg (by simp; omega)]

end Strtod

/-! ### the shape  -?d+(.d+)?(e[+-]d+)?  -/
section Shape
open ScpiVerif.Prim

theorem drop2 (a b c : Bytes) : (a ++ (b ++ c)).drop (a.length + b.length) = c := by
  rw [← List.append_assoc]; exact List.drop_left' (by simp)

theorem drop2c (a b c : Bytes) (x : UInt8) : (a ++ (b ++ x :: c)).drop (a.length + b.length + 1) = c := by
  have : a ++ (b ++ x :: c) = (a ++ b ++ [x]) ++ c := by simp
  rw [this]; exact List.drop_left' (by simp; omega)

theorem h0_term {tail : Bytes} (h : Term tail) : h0 tail = 0 ∨ h0 tail = 44 ∨ h0 tail = 59 ∨ h0 tail = 10 ∨ h0 tail = 13 := by
  rcases h with rfl | h | h | h | h
  · left; rfl
  all_goals simp [h0, h]

/-- every byte at an index up to the end of the text is a byte of the text or the terminating byte -/
theorem rd_cases (text tail : Bytes) (i : Nat) (hi : i ≤ text.length) :
    rd (text ++ tail) i ∈ text ∨ rd (text ++ tail) i = h0 tail := by
  by_cases h : i < text.length
  · left
    have : rd (text ++ tail) i = text[i] := by
      simp [rd, List.getD_eq_getElem?_getD, List.getElem?_append_left h, List.getElem?_eq_getElem h]
    rw [this]; exact List.getElem_mem h
  · right
    have : i = text.length := by omega
    subst this
    rw [rd_eq, List.drop_left]

def okb (b : UInt8) : Bool := isDigit b || b == 45 || b == 43 || b == 46 || b == 101

theorem okb_facts : ∀ b : UInt8, okb b = true → b ≠ 120 ∧ b ≠ 88 := by
  apply forall_byte
  decide +kernel
theorem digit_facts : ∀ b : UInt8, isDigit b = true →
    isSpace b = false ∧ b ≠ 45 ∧ b ≠ 43 ∧ b ≠ 46 ∧ b ≠ 101 ∧ b ≠ 69 ∧ okb b = true ∧ b ≠ 35 ∧ isAlpha b = false ∧ isWs b = false := by
  apply forall_byte
  decide +kernel

theorem shape_core (sg ip fpp exx tail fp ex : Bytes) (es : UInt8)
    (hsg : sg = [] ∨ sg = [45]) (hip : ip ≠ []) (hipd : ∀ b ∈ ip, isDigit b = true)
    (hfpd : ∀ b ∈ fp, isDigit b = true) (hexd : ∀ b ∈ ex, isDigit b = true)
    (hfpp : fpp = if fp = [] then [] else 46 :: fp)
    (hexx : exx = if ex = [] then [] else 101 :: es :: ex) (hes : es = 45 ∨ es = 43)
    (hT : Term tail) :
    decimalTotal (sg ++ (ip ++ (fpp ++ (exx ++ tail)))) = sg.length + ip.length + fpp.length + exx.length ∧
    strtodLen (sg ++ (ip ++ (fpp ++ (exx ++ tail)))) 0 = sg.length + ip.length + fpp.length + exx.length := by
  obtain ⟨c, ip', hipe⟩ : ∃ c ip', ip = c :: ip' := by
    cases ip with
    | nil => exact absurd rfl hip
    | cons c t => exact ⟨c, t, rfl⟩
  have hc : isDigit c = true := hipd c (by simp [hipe])
  have hipl : 1 ≤ ip.length := by rw [hipe]; simp
  -- the rests
  have hR2 : hd (exx ++ tail) isDigit = false ∧ hd (exx ++ tail) (· == 46) = false ∧ hd (exx ++ tail) isWs = false := by
    rw [hexx]; split
    · exact ⟨hd_term hT _ (by decide), hd_term hT _ (by decide), hd_term hT _ (by decide)⟩
    · exact ⟨rfl, rfl, rfl⟩
  have hR1 : hd (fpp ++ (exx ++ tail)) isDigit = false := by
    rw [hfpp]; split
    · exact hR2.1
    · rfl
  have hsgl : (if hd (sg ++ (ip ++ (fpp ++ (exx ++ tail)))) isPlusMn = true then 1 else 0) = sg.length := by
    rcases hsg with rfl | rfl
    · have : isPlusMn c = false := by
        cases hh : isPlusMn c
        · rfl
        · rw [decimal_sign_not_digit c hh] at hc; cases hc
      simp [hipe, this]
    · rfl
  have hd1 : tw isDigit (ip ++ (fpp ++ (exx ++ tail))) = ip.length := tw_all_append hipd hR1
  have hd2 : tw isDigit (fp ++ (exx ++ tail)) = fp.length := tw_all_append hfpd hR2.1
  have hd3 : tw isDigit (ex ++ tail) = ex.length := tw_all_append hexd (hd_term hT _ (by decide))
  have hdropM : (sg ++ (ip ++ (fpp ++ (exx ++ tail)))).drop (sg.length + ip.length + fpp.length) = exx ++ tail := by
    have : sg ++ (ip ++ (fpp ++ (exx ++ tail))) = (sg ++ ip ++ fpp) ++ (exx ++ tail) := by simp
    rw [this]; exact List.drop_left' (by simp; omega)
  constructor
  · have hMant : decimalMant (sg ++ (ip ++ (fpp ++ (exx ++ tail)))) =
        (sg.length + ip.length + fpp.length, ip.length + fp.length) := by
      unfold decimalMant
      simp only [hsgl, List.drop_left, hd1, drop2]
      by_cases hfp : fp = []
      · subst hfp
        simp only [if_true] at hfpp
        subst hfpp
        simp [hR2.2.1]
      · simp only [if_neg hfp] at hfpp
        subst hfpp
        have h46 : hd (46 :: fp ++ (exx ++ tail)) (· == 46) = true := rfl
        rw [if_pos h46]
        have := drop2c sg ip (fp ++ (exx ++ tail)) 46
        simp only [List.cons_append, this, hd2, List.length_cons]
        refine Prod.ext ?_ ?_ <;> simp only <;> omega
    have hExp : decimalExp (exx ++ tail) = (exx.length, ex.length) := by
      unfold decimalExp
      by_cases hex : ex = []
      · subst hex
        simp only [if_true] at hexx
        subst hexx
        simp [hd_term hT isE (by decide)]
      · simp only [if_neg hex] at hexx
        subst hexx
        have hE : hd (101 :: es :: (ex ++ tail)) isE = true := rfl
        have hw : tw isWs (es :: (ex ++ tail)) = 0 := by
          apply tw_eq_zero_iff.2
          rcases hes with rfl | rfl <;> rfl
        have hs : hd (es :: (ex ++ tail)) isPlusMn = true := by rcases hes with rfl | rfl <;> rfl
        simp only [List.cons_append, hE, if_true, List.drop_succ_cons, List.drop_zero, hw, hs, hd3, List.length_cons]
        refine Prod.ext ?_ ?_ <;> simp only <;> omega
    have hws : tw isWs (exx ++ tail) = 0 := tw_eq_zero_iff.2 hR2.2.2
    unfold decimalTotal
    simp only [hMant, hdropM, hws, List.drop_zero, hExp]
    rw [if_pos (by omega)]
    split <;> rename_i h
    · omega
    · have : ex = [] := by simpa using h
      subst this
      simp only [if_true] at hexx
      subst hexx; simp
  · have hmem0 : h0 (sg ++ (ip ++ (fpp ++ (exx ++ tail)))) = if sg = [] then c else 45 := by
      rcases hsg with rfl | rfl <;> simp [h0, hipe]
    have hcf := digit_facts c hc
    have hsp : isSpace (rd (sg ++ (ip ++ (fpp ++ (exx ++ tail)))) 0) = false := by
      rw [rd_eq, List.drop_zero, hmem0]; split
      · exact hcf.1
      · rfl
    have hi1 : sg.length = if rd (sg ++ (ip ++ (fpp ++ (exx ++ tail)))) 0 == 45 ∨ rd (sg ++ (ip ++ (fpp ++ (exx ++ tail)))) 0 == 43
        then 0 + 1 else 0 := by
      rw [rd_eq, List.drop_zero, hmem0]
      rcases hsg with rfl | rfl
      · simp [hcf.2.1, hcf.2.2.1]
      · simp
    have hdig : isDigit (rd (sg ++ (ip ++ (fpp ++ (exx ++ tail)))) sg.length) = true := by
      rw [rd_eq, List.drop_left, hipe]; exact hc
    have hx : rd (sg ++ (ip ++ (fpp ++ (exx ++ tail)))) (sg.length + 1) ≠ 120 ∧
        rd (sg ++ (ip ++ (fpp ++ (exx ++ tail)))) (sg.length + 1) ≠ 88 := by
      have hm : sg ++ (ip ++ (fpp ++ (exx ++ tail))) = (sg ++ ip ++ fpp ++ exx) ++ tail := by simp
      have hall : ∀ b ∈ sg ++ ip ++ fpp ++ exx, okb b = true := by
        intro b hb
        simp only [List.mem_append] at hb
        rcases hb with ((hb | hb) | hb) | hb
        · rcases hsg with rfl | rfl
          · simp at hb
          · simp at hb; subst hb; rfl
        · exact (digit_facts b (hipd b hb)).2.2.2.2.2.2.1
        · rw [hfpp] at hb; split at hb
          · simp at hb
          · simp at hb; rcases hb with rfl | hb
            · rfl
            · exact (digit_facts b (hfpd b hb)).2.2.2.2.2.2.1
        · rw [hexx] at hb; split at hb
          · simp at hb
          · simp at hb; rcases hb with rfl | rfl | hb
            · rfl
            · rcases hes with rfl | rfl <;> rfl
            · exact (digit_facts b (hexd b hb)).2.2.2.2.2.2.1
      rw [hm]
      rcases rd_cases (sg ++ ip ++ fpp ++ exx) tail (sg.length + 1) (by simp; omega) with h | h
      · exact okb_facts _ (hall _ h)
      · rw [h]
        rcases h0_term hT with e | e | e | e | e <;> rw [e] <;> decide
    rw [strtodLen_decimal _ sg.length hsp hi1 hdig hx]
    simp only [rd_eq, List.drop_left, hd1, drop2]
    have hb : (if (h0 (fpp ++ (exx ++ tail)) == 46) = true then
        sg.length + ip.length + 1 + tw isDigit ((sg ++ (ip ++ (fpp ++ (exx ++ tail)))).drop (sg.length + ip.length + 1))
        else sg.length + ip.length) = sg.length + ip.length + fpp.length := by
      by_cases hfp : fp = []
      · subst hfp
        simp only [if_true] at hfpp
        subst hfpp
        have := hR2.2.1
        rw [hd_eq_h0 rfl] at this
        simp [this]
      · simp only [if_neg hfp] at hfpp
        subst hfpp
        have := drop2c sg ip (fp ++ (exx ++ tail)) 46
        simp only [List.cons_append, this, hd2, List.length_cons, h0, List.head?_cons, Option.getD_some,
          beq_self_eq_true, if_true]
        omega
    simp only [hb, hdropM]
    by_cases hex : ex = []
    · subst hex
      simp only [if_true] at hexx
      subst hexx
      simp only [List.nil_append, List.length_nil, Nat.add_zero]
      rw [if_neg]
      rcases h0_term hT with e | e | e | e | e <;> rw [e] <;> decide
    · simp only [if_neg hex] at hexx
      subst hexx
      have hdr1 : (sg ++ (ip ++ (fpp ++ (101 :: es :: ex ++ tail)))).drop (sg.length + ip.length + fpp.length + 1) = es :: (ex ++ tail) := by
        rw [drop_add, hdropM]; rfl
      have hdr2 : (sg ++ (ip ++ (fpp ++ (101 :: es :: ex ++ tail)))).drop (sg.length + ip.length + fpp.length + 2) = ex ++ tail := by
        rw [drop_add, hdropM]; rfl
      obtain ⟨x, ex', hexe⟩ : ∃ x ex', ex = x :: ex' := by
        cases ex with
        | nil => exact absurd rfl hex
        | cons c t => exact ⟨c, t, rfl⟩
      have hxd : isDigit x = true := hexd x (by simp [hexe])
      have hes' : ((es == 45) = true ∨ (es == 43) = true) := by rcases hes with rfl | rfl <;> simp
      have h101 : h0 (101 :: es :: ex ++ tail) = 101 := rfl
      have hh2 : isDigit (h0 (ex ++ tail)) = true := by rw [hexe]; exact hxd
      simp only [hdr1, if_true, h0, List.head?_cons, Option.getD_some, hes']
      simp only [hdr2]
      change (if isDigit (h0 (ex ++ tail)) = true then _ else _) = _
      rw [if_pos hh2, hd3]
      simp; omega

theorem isDigit_iff (b : UInt8) : (48 ≤ b ∧ b ≤ 57) ↔ isDigit b = true := by simp [isDigit]

theorem float_text_accepted (neg : Bool) (ip fp ex : Bytes) (eneg : Bool)
    (hip : ip ≠ [] ∧ ∀ b ∈ ip, 48 ≤ b ∧ b ≤ 57) (hfp : ∀ b ∈ fp, 48 ≤ b ∧ b ≤ 57) (hex : ∀ b ∈ ex, 48 ≤ b ∧ b ≤ 57) (tail : Bytes)
    (htail : tail = [] ∨ tail.head? = some 44 ∨ tail.head? = some 59 ∨ tail.head? = some 10 ∨ tail.head? = some 13) :
    let text : Bytes := (if neg then [45] else []) ++ ip ++ (if fp = [] then [] else [46] ++ fp) ++
                        (if ex = [] then [] else [101] ++ (if eneg then [45] else [43]) ++ ex)
    (Lexer.lexDecimal (text ++ tail) 0).2.2 = text.length ∧ Prim.strtodLen (text ++ tail) 0 = text.length := by
  have hcore := shape_core (if neg then [45] else []) ip (if fp = [] then [] else 46 :: fp)
    (if ex = [] then [] else 101 :: (if eneg then 45 else 43) :: ex) tail fp ex (if eneg then 45 else 43)
    (by cases neg <;> simp) hip.1 (fun b hb => (isDigit_iff b).1 (hip.2 b hb)) (fun b hb => (isDigit_iff b).1 (hfp b hb))
    (fun b hb => (isDigit_iff b).1 (hex b hb)) rfl rfl (by cases eneg <;> simp) htail
  have e1 : (if fp = [] then [] else [46] ++ fp) = (if fp = [] then [] else 46 :: fp) := rfl
  have e2 : (if ex = [] then [] else [101] ++ (if eneg then [45] else [43]) ++ ex) =
      (if ex = [] then [] else 101 :: (if eneg then 45 else 43) :: ex) := by
    cases eneg <;> rfl
  dsimp only
  rw [e1, e2, decimal_lexDecimal_eq]
  simp only [List.append_assoc, List.length_append, List.drop_zero] at hcore ⊢
  rw [hcore.1, hcore.2]
  simp only [Nat.add_assoc]
  exact ⟨trivial, trivial⟩

end Shape

/-! ### one program data element -/
section Parse
open ScpiVerif.Parser

theorem lexWhiteSpace_none (mem : Bytes) (n : Nat) (h : hd (mem.drop n) isWs = false) :
    lexWhiteSpace mem n = (n, mkTok .unknown n 0, 0) := by
  unfold lexWhiteSpace
  lex_rel [tw_eq_zero_iff.2 h]
  simp

theorem lexSuffix_none (mem : Bytes) (n : Nat) (h1 : hd (mem.drop n) (· == 47) = false) (h2 : hd (mem.drop n) isAlpha = false) :
    lexSuffix mem n = (n, mkTok .unknown n 0, 0) := by
  unfold lexSuffix
  lex_rel [h1]
  simp [tw_eq_zero_iff.2 h2]

theorem sd_facts : ∀ b : UInt8, (isPlusMn b || isDigit b) = true →
    isWs b = false ∧ (b == 35) = false ∧ isAlpha b = false := by
  apply forall_byte
  decide +kernel

theorem parse_decimal (mem : Bytes) (n : Nat) (hn : 0 < n)
    (h1 : hd mem (fun b => isPlusMn b || isDigit b) = true)
    (hT : decimalTotal mem = n) (hr : Term (mem.drop n)) :
    parseProgramData mem 0 = (n, Token.mk .decimal 0 n, (n : Int)) := by
  have hws : hd (mem.drop 0) isWs = false := hd_disj (fun b hb => (sd_facts b hb).1) h1
  have h35 : hd (mem.drop 0) (· == 35) = false := hd_disj (fun b hb => (sd_facts b hb).2.1) h1
  have hal : hd (mem.drop 0) isAlpha = false := hd_disj (fun b hb => (sd_facts b hb).2.2) h1
  have e1 := lexWhiteSpace_none mem 0 hws
  have e2 : lexNondecimal mem 0 = (0, mkTok .unknown 0 0, 0) := by
    unfold lexNondecimal; rw [peekP_eq, h35]; rfl
  have e3 : lexCharacterProgramData mem 0 = (0, mkTok .unknown 0 0, 0) := by
    unfold lexCharacterProgramData; rw [peekP_eq, hal]; rfl
  have e4 : lexDecimal mem 0 = (n, ⟨.decimal, 0, n⟩, (n : Int)) := by
    rw [decimal_lexDecimal_eq, List.drop_zero, hT]; simp [hn]
  have e5 := lexWhiteSpace_none mem n (hd_term hr _ (by decide))
  have e6 := lexSuffix_none mem n (hd_term hr _ (by decide)) (hd_term hr _ (by decide))
  have hn0 : ((n : Int) != 0) = true := by simp; omega
  unfold parseProgramData
  simp only [e1, e2, e3, e4, hn0, if_true, bne_self_eq_false, Bool.false_eq_true, if_false, e5, e6]
  simp [e5]

theorem parse_nondec (L : UInt8) (ds tail : Bytes) (pd : UInt8 → Bool) (ty : TokType)
    (hL : (L = 72 ∧ pd = isXDigit ∧ ty = .hexnum) ∨ (L = 81 ∧ pd = isQDigit ∧ ty = .octnum) ∨ (L = 66 ∧ pd = isBDigit ∧ ty = .binnum))
    (hds : ds ≠ []) (hall : ∀ x ∈ ds, pd x = true) (hpt : hd tail pd = false) (hT : Term tail) :
    parseProgramData (35 :: L :: (ds ++ tail)) 0 = (2 + ds.length, Token.mk ty 2 ds.length, (ds.length : Int) + 2) := by
  have hlen : 1 ≤ ds.length := by
    cases ds with
    | nil => exact absurd rfl hds
    | cons _ _ => simp
  have e1 := lexWhiteSpace_none (35 :: L :: (ds ++ tail)) 0 rfl
  have htw : tw pd (ds ++ tail) = ds.length := tw_all_append hall hpt
  have e2 : lexNondecimal (35 :: L :: (ds ++ tail)) 0 = (2 + ds.length, mkTok ty 2 ds.length, (ds.length : Int) + 2) := by
    unfold lexNondecimal
    rcases hL with ⟨rfl, rfl, rfl⟩ | ⟨rfl, rfl, rfl⟩ | ⟨rfl, rfl, rfl⟩
    all_goals
      simp only [peekP, List.getElem?_cons_zero, List.getElem?_cons_succ, Nat.zero_add]
      simp only [skipMany_eq, Nat.reduceAdd, List.drop_succ_cons, List.drop_zero, htw]
      simp +decide
      rw [if_pos (by omega)]
      refine Prod.ext rfl (Prod.ext ?_ ?_)
      · simp only [mkTok]; congr 1; omega
      · simp only; omega
  have hdrop : (35 :: L :: (ds ++ tail)).drop (2 + ds.length) = tail := by
    rw [Nat.add_comm, drop_add]; simp
  have e5 := lexWhiteSpace_none (35 :: L :: (ds ++ tail)) (2 + ds.length) (by rw [hdrop]; exact hd_term hT _ (by decide))
  have hn0 : (((ds.length : Int) + 2) != 0) = true := by simp; omega
  unfold parseProgramData
  simp only [e1, e2, hn0, if_true, e5]
  simp [mkTok]

end Parse

/-! ### strtol / strtoul on canonical digits -/
section Strto
open ScpiVerif.Prim

theorem digitsOfBase_run (mem : Bytes) (base : Nat) : ∀ (ds : Bytes) (f i acc : Nat) (rest : Bytes),
    mem.drop i = ds ++ rest → (∀ x ∈ ds, ∃ d, digitVal x = some d ∧ d < base) → digitVal (h0 rest) = none → ds.length < f →
    digitsOfBase mem base f i acc = (i + ds.length, ds.foldl (fun a x => a * base + (digitVal x).getD 0) acc) := by
  intro ds
  induction ds with
  | nil =>
    intro f i acc rest hm _ hstop hf
    obtain ⟨f, rfl⟩ : ∃ f', f = f' + 1 := ⟨f - 1, by simp at hf; omega⟩
    have : rd mem i = h0 rest := by rw [rd_eq, hm]; rfl
    simp [digitsOfBase, this, hstop]
  | cons x ds ih =>
    intro f i acc rest hm hall hstop hf
    obtain ⟨f, rfl⟩ : ∃ f', f = f' + 1 := ⟨f - 1, by simp at hf; omega⟩
    have hx : rd mem i = x := by rw [rd_eq, hm]; rfl
    obtain ⟨d, hd, hlt⟩ := hall x (by simp)
    have h1 : mem.drop (i + 1) = ds ++ rest := by rw [drop_add, hm]; rfl
    simp only [digitsOfBase, hx, hd, hlt, if_true]
    rw [ih f (i + 1) _ rest h1 (fun y hy => hall y (by simp [hy])) hstop (by simp at hf; omega)]
    simp [hd]; omega

theorem term_facts : ∀ b : UInt8, (b = 0 ∨ b = 44 ∨ b = 59 ∨ b = 10 ∨ b = 13) →
    digitVal b = none ∧ b ≠ 120 ∧ b ≠ 88 := by
  apply forall_byte
  decide +kernel

theorem strtoSyntax_run (mem : Bytes) (off base n : Nat) (sg ds tail : Bytes)
    (hm : mem.drop off = sg ++ (ds ++ tail)) (hsg : sg = [] ∨ sg = [45]) (hok : DigsOK base n ds)
    (hb16 : base ≤ 16) (hT : Term tail) :
    strtoSyntax mem off base = (sg.length + ds.length, decide (sg = [45]), n) := by
  obtain ⟨c, ds', hdse⟩ : ∃ c ds', ds = c :: ds' := by
    cases ds with
    | nil => exact absurd rfl hok.ne
    | cons c t => exact ⟨c, t, rfl⟩
  obtain ⟨d0, hd0, hce⟩ := hok.mem c (by simp [hdse])
  have hcf := byte_facts d0 (by omega)
  rw [← hce] at hcf
  have hlen : 1 ≤ ds.length := by rw [hdse]; simp
  have hmlen : mem.length - off = sg.length + ds.length + tail.length := by
    have := congrArg List.length hm
    simp at this; omega
  have ht := term_facts _ (h0_term hT)
  -- white space and sign
  have hr0 : rd mem off = if sg = [] then c else 45 := by
    rw [rd_eq, hm]
    rcases hsg with rfl | rfl <;> simp [h0, hdse]
  have hskip : skipSpaces mem (mem.length - off + 1) off = off := by
    have : isSpace (rd mem off) = false := by
      rw [hr0]; split
      · exact hcf.2.2.2.2.2.2.1
      · rfl
    simp [skipSpaces, this]
  have hsign : (if rd mem off == 45 then (true, off + 1) else if rd mem off == 43 then (false, off + 1) else (false, off))
      = (decide (sg = [45]), off + sg.length) := by
    rw [hr0]
    rcases hsg with rfl | rfl
    · simp [hcf.2.2.2.2.2.2.2.1, hcf.2.2.2.2.2.2.2.2]
    · simp
  have hd1 : mem.drop (off + sg.length) = ds ++ tail := by rw [drop_add, hm, List.drop_left]
  have hr1 : rd mem (off + sg.length) = c := by rw [rd_eq, hd1, hdse]; rfl
  have hpre : ¬ (base == 16 ∧ rd mem (off + sg.length) == 48 ∧
      (rd mem (off + sg.length + 1) == 120 ∨ rd mem (off + sg.length + 1) == 88) ∧
      isHexDigit (rd mem (off + sg.length + 2))) := by
    intro ⟨_, h48, hxx, _⟩
    rw [hr1] at h48
    have h48' : c = 48 := by simpa using h48
    have := hok.lead (by rw [hdse, h48']; rfl)
    have hr2 : rd mem (off + sg.length + 1) = h0 tail := by
      rw [rd_eq, drop_add, hd1, this]; rfl
    rw [hr2] at hxx
    rcases hxx with h | h
    · exact ht.2.1 (by simpa using h)
    · exact ht.2.2 (by simpa using h)
  have hrun := digitsOfBase_run mem base ds (mem.length - (off + sg.length) + 2) (off + sg.length) 0 tail hd1
    (by
      intro x hx
      obtain ⟨d, hd, rfl⟩ := hok.mem x hx
      exact ⟨d, (byte_facts d (by omega)).1, hd⟩)
    ht.1 (by omega)
  have hval : ds.foldl (fun a x => a * base + (digitVal x).getD 0) 0 = n := by
    have := hok.val (fun x => (digitVal x).getD 0) (fun d hd => by rw [(byte_facts d (by omega)).1]; rfl) 0
    simpa using this
  unfold strtoSyntax
  simp only [hskip, hsign, if_neg hpre, hrun, hval]
  rw [if_neg (by rw [beq_iff_eq]; omega)]
  refine Prod.ext ?_ rfl
  simp only; omega

end Strto

/-! ### integers -/
section Ints
open ScpiVerif.Prim ScpiVerif.Parser

theorem strtoulTo_run (w : Nat) (hw : w = 32 ∨ w = 64) (v : Nat) (hv : v < 2^w) (mem : Bytes) (off base : Nat)
    (ds tail : Bytes) (hm : mem.drop off = ds ++ tail) (hok : DigsOK base v ds) (hb16 : base ≤ 16) (hT : Term tail) :
    strtoulTo w mem off base = (ds.length, v) := by
  have hlen : ds.length ≠ 0 := by
    intro h; exact hok.ne (List.length_eq_zero_iff.1 h)
  have := strtoSyntax_run mem off base v [] ds tail (by simpa using hm) (.inl rfl) hok hb16 hT
  unfold strtoulTo
  simp only [this, List.length_nil, Nat.zero_add]
  rw [if_neg (by rw [beq_iff_eq]; exact hlen)]
  have h64 : v < 2^64 := by
    rcases hw with rfl | rfl
    · exact Nat.lt_trans hv (by decide)
    · exact hv
  have hd : decide (([] : Bytes) = [45]) = false := by decide
  simp only [hd, Bool.false_eq_true, if_false]
  rw [if_neg (by omega), Nat.mod_eq_of_lt hv]

theorem strtolTo_run (w : Nat) (mem : Bytes) (sg ds tail : Bytes) (m : Nat)
    (hm : mem.drop 0 = sg ++ (ds ++ tail)) (hsg : sg = [] ∨ sg = [45]) (hok : DigsOK 10 m ds) (hT : Term tail)
    (hlim : m ≤ 2^63 - (if sg = [45] then 0 else 1)) :
    strtolTo w mem 0 10 = (sg.length + ds.length, wrapSigned w (if sg = [45] then -(m : Int) else m)) := by
  have hlen : ds.length ≠ 0 := by
    intro h; exact hok.ne (List.length_eq_zero_iff.1 h)
  have := strtoSyntax_run mem 0 10 m sg ds tail hm hsg hok (by omega) hT
  unfold strtolTo
  simp only [this]
  rw [if_neg (by rw [beq_iff_eq]; omega)]
  rcases hsg with rfl | rfl
  · have hd' : ¬ (([] : Bytes) = [45]) := by decide
    simp only [hd', decide_false, Bool.false_eq_true, if_false] at hlim ⊢
    rw [if_neg (by omega)]
  · simp only [decide_true, if_true] at hlim ⊢
    rw [if_neg (by omega)]

theorem pre_eq : bytesOf "#B" = [35, 66] ∧ bytesOf "#Q" = [35, 81] ∧ bytesOf "#H" = [35, 72] := by decide +kernel

theorem intText_unsigned (w v : Nat) (base : Int) :
    intText w v base false =
      (if base = 2 then [35, 66] else if base = 8 then [35, 81] else if base = 16 then [35, 72] else []) ++
        digs (effBase base) v := by
  simp only [intText, canon, Bool.false_and, Bool.false_eq_true, if_false, pre_eq.1, pre_eq.2.1, pre_eq.2.2]
  rfl

theorem term_classes : ∀ b : UInt8, (b = 0 ∨ b = 44 ∨ b = 59 ∨ b = 10 ∨ b = 13) →
    isXDigit b = false ∧ isQDigit b = false ∧ isBDigit b = false := by
  apply forall_byte
  decide +kernel

theorem nondec_roundtrip (w : Nat) (hw : w = 32 ∨ w = 64) (v : Nat) (hv : v < 2^w) (b : Nat) (L : UInt8)
    (pd : UInt8 → Bool) (ty : TokType)
    (hL : (L = 72 ∧ pd = isXDigit ∧ ty = .hexnum ∧ b = 16) ∨ (L = 81 ∧ pd = isQDigit ∧ ty = .octnum ∧ b = 8) ∨
          (L = 66 ∧ pd = isBDigit ∧ ty = .binnum ∧ b = 2))
    (tail : Bytes) (hT : Term tail) :
    parseProgramData (35 :: L :: (digs b v ++ tail)) 0 = (2 + (digs b v).length, Token.mk ty 2 (digs b v).length, ((digs b v).length : Int) + 2) ∧
    strtoulTo w (35 :: L :: (digs b v ++ tail)) 2 b = ((digs b v).length, v) := by
  have hb : 2 ≤ b ∧ b ≤ 16 := by rcases hL with ⟨_, _, _, rfl⟩ | ⟨_, _, _, rfl⟩ | ⟨_, _, _, rfl⟩ <;> omega
  have hok := digs_ok hb.1 hb.2 v
  have hall : ∀ x ∈ digs b v, pd x = true := by
    intro x hx
    obtain ⟨d, hd, rfl⟩ := hok.mem x hx
    have := byte_facts d (by omega)
    rcases hL with ⟨_, rfl, _, rfl⟩ | ⟨_, rfl, _, rfl⟩ | ⟨_, rfl, _, rfl⟩
    · exact this.2.1
    · exact this.2.2.1 hd
    · exact this.2.2.2.1 hd
  have hpt : hd tail pd = false := by
    have hc := term_classes _ (h0_term hT)
    rcases hL with ⟨_, rfl, _, _⟩ | ⟨_, rfl, _, _⟩ | ⟨_, rfl, _, _⟩
    · rw [hd_eq_h0 rfl]; exact hc.1
    · rw [hd_eq_h0 rfl]; exact hc.2.1
    · rw [hd_eq_h0 rfl]; exact hc.2.2
  refine ⟨parse_nondec L (digs b v) tail pd ty ?_ hok.ne hall hpt hT, ?_⟩
  · rcases hL with ⟨a, b, c, _⟩ | ⟨a, b, c, _⟩ | ⟨a, b, c, _⟩
    · exact .inl ⟨a, b, c⟩
    · exact .inr (.inl ⟨a, b, c⟩)
    · exact .inr (.inr ⟨a, b, c⟩)
  · exact strtoulTo_run w hw v hv _ 2 b (digs b v) tail rfl hok hb.2 hT

theorem dec_parse (sg : Bytes) (hsg : sg = [] ∨ sg = [45]) (m : Nat) (tail : Bytes) (hT : Term tail) :
    parseProgramData (sg ++ (digs 10 m ++ tail)) 0 =
      (sg.length + (digs 10 m).length, Token.mk .decimal 0 ((sg.length + (digs 10 m).length : Nat) : Int),
        ((sg.length + (digs 10 m).length : Nat) : Int)) := by
  have hok := digs_ok (b := 10) (by omega) (by omega) m
  have hdig : ∀ x ∈ digs 10 m, isDigit x = true := by
    intro x hx
    obtain ⟨d, hd, rfl⟩ := hok.mem x hx
    exact ((byte_facts d (by omega)).2.2.2.2.1 hd).1
  have hcore := (shape_core sg (digs 10 m) [] [] tail [] [] 45 hsg hok.ne hdig (by simp) (by simp) rfl rfl (.inl rfl) hT).1
  simp only [List.nil_append, List.length_nil, Nat.add_zero] at hcore
  obtain ⟨c, ds', hdse⟩ : ∃ c ds', digs 10 m = c :: ds' := by
    cases h : digs 10 m with
    | nil => exact absurd h hok.ne
    | cons c t => exact ⟨c, t, rfl⟩
  have hlen : 1 ≤ (digs 10 m).length := by rw [hdse]; simp
  apply parse_decimal _ _ (by omega)
  · rcases hsg with rfl | rfl
    · have := hdig c (by simp [hdse])
      simp [hdse, this]
    · rfl
  · exact hcore
  · have : (sg ++ (digs 10 m ++ tail)).drop (sg.length + (digs 10 m).length) = tail := drop2 _ _ _
    rw [this]; exact hT

theorem unsigned_roundtrip (w : Nat) (hw : w = 32 ∨ w = 64) (v : Nat) (hv : v < 2^w) (base : Int)
    (hb : base = 2 ∨ base = 8 ∨ base = 10 ∨ base = 16) (tail : Bytes)
    (htail : tail = [] ∨ tail.head? = some 44 ∨ tail.head? = some 59 ∨ tail.head? = some 10 ∨ tail.head? = some 13) :
    let text := intText w v base false
    let mem := text ++ tail
    let (p, tok, _) := Parser.parseProgramData mem 0
    p = text.length ∧
    tok.type = (if base = 2 then TokType.binnum else if base = 8 then .octnum else if base = 16 then .hexnum else .decimal) ∧
    Prim.strtoulTo w mem tok.ptr (if base = 2 then 2 else if base = 8 then 8 else if base = 16 then 16 else 10) =
      (text.length - tok.ptr, v) := by
  have hT : Term tail := htail
  dsimp only
  rw [intText_unsigned]
  rcases hb with rfl | rfl | rfl | rfl
  · obtain ⟨h1, h2⟩ := nondec_roundtrip w hw v hv 2 66 isBDigit .binnum (.inr (.inr ⟨rfl, rfl, rfl, rfl⟩)) tail hT
    have e : effBase 2 = 2 := rfl
    simp only [e, if_true, List.cons_append, List.nil_append, h1, List.length_cons]
    exact ⟨by omega, trivial, by rw [h2]; congr 1⟩
  · obtain ⟨h1, h2⟩ := nondec_roundtrip w hw v hv 8 81 isQDigit .octnum (.inr (.inl ⟨rfl, rfl, rfl, rfl⟩)) tail hT
    have e : effBase 8 = 8 := rfl
    have e2 : ¬ ((8 : Int) = 2) := by decide
    simp only [e, e2, if_true, if_false, List.cons_append, List.nil_append, h1, List.length_cons]
    exact ⟨by omega, trivial, by rw [h2]; congr 1⟩
  · have e : effBase 10 = 10 := rfl
    have e2 : ¬ ((10 : Int) = 2) := by decide
    have e8 : ¬ ((10 : Int) = 8) := by decide
    have e16 : ¬ ((10 : Int) = 16) := by decide
    have hp := dec_parse [] (.inl rfl) v tail hT
    have hok := digs_ok (b := 10) (by omega) (by omega) v
    have hs := strtoulTo_run w hw v hv (digs 10 v ++ tail) 0 10 (digs 10 v) tail rfl hok (by omega) hT
    simp only [List.nil_append, List.length_nil, Nat.zero_add] at hp
    simp only [e, e2, e8, e16, if_false, List.nil_append, hp]
    exact ⟨trivial, trivial, by rw [hs]; rfl⟩
  · obtain ⟨h1, h2⟩ := nondec_roundtrip w hw v hv 16 72 isXDigit .hexnum (.inl ⟨rfl, rfl, rfl, rfl⟩) tail hT
    have e : effBase 16 = 16 := rfl
    have e2 : ¬ ((16 : Int) = 2) := by decide
    have e8 : ¬ ((16 : Int) = 8) := by decide
    simp only [e, e2, e8, if_true, if_false, List.cons_append, List.nil_append, h1, List.length_cons]
    exact ⟨by omega, trivial, by rw [h2]; congr 1⟩

theorem intText_signed (w pat : Nat) :
    intText w pat 10 true = if pat ≥ 2^(w-1) then 45 :: digs 10 (2^w - pat) else digs 10 pat := by
  have e : effBase 10 = 10 := rfl
  have e2 : ¬ ((10 : Int) = 2) := by decide
  have e8 : ¬ ((10 : Int) = 8) := by decide
  have e16 : ¬ ((10 : Int) = 16) := by decide
  simp only [intText, canon, e, e2, e8, e16, if_false, List.nil_append, Bool.true_and, decide_true, Bool.and_true,
    decide_eq_true_eq]
  split
  · rfl
  · rfl

theorem signed_roundtrip (w : Nat) (hw : w = 32 ∨ w = 64) (pat : Nat) (hv : pat < 2^w) (tail : Bytes)
    (htail : tail = [] ∨ tail.head? = some 44 ∨ tail.head? = some 59 ∨ tail.head? = some 10 ∨ tail.head? = some 13) :
    let text := intText w pat 10 true
    let mem := text ++ tail
    let (p, tok, _) := Parser.parseProgramData mem 0
    p = text.length ∧ tok.type = .decimal ∧ tok.ptr = 0 ∧
    Prim.strtolTo w mem 0 10 = (text.length, Prim.wrapSigned w pat) := by
  have hT : Term tail := htail
  have h63 : (2:Nat)^(w-1) ≤ 2^63 ∧ 2^w = 2 * 2^(w-1) := by rcases hw with rfl | rfl <;> decide
  dsimp only
  rw [intText_signed]
  by_cases hneg : pat ≥ 2^(w-1)
  · rw [if_pos hneg]
    have hok := digs_ok (b := 10) (by omega) (by omega) (2^w - pat)
    have hp := dec_parse [45] (.inr rfl) (2^w - pat) tail hT
    have hs := strtolTo_run w (45 :: (digs 10 (2^w - pat) ++ tail)) [45] (digs 10 (2^w - pat)) tail (2^w - pat) rfl (.inr rfl) hok hT
      (by simp only [if_true]; omega)
    simp only [List.cons_append, List.nil_append, List.length_cons, List.length_nil, Nat.zero_add] at hp hs
    simp only [List.cons_append, hp, List.length_cons, hs, if_true]
    refine ⟨by omega, trivial, trivial, ?_⟩
    refine Prod.ext (by simp only; omega) ?_
    simp only [wrapSigned]
    have : (-((2^w - pat : Nat) : Int)) % (2^w : Int) = (pat : Int) % (2^w : Int) := by
      rcases hw with rfl | rfl <;> omega
    rw [this]
  · rw [if_neg hneg]
    have hok := digs_ok (b := 10) (by omega) (by omega) pat
    have hp := dec_parse [] (.inl rfl) pat tail hT
    have hd' : ¬ (([] : Bytes) = [45]) := by decide
    have hs := strtolTo_run w (digs 10 pat ++ tail) [] (digs 10 pat) tail pat rfl (.inl rfl) hok hT
      (by simp only [hd', if_false]; omega)
    simp only [List.nil_append, List.length_nil, Nat.zero_add, hd', if_false] at hp hs
    simp only [hp, hs]
    exact ⟨trivial, trivial, trivial, trivial⟩

end Ints

/-! ### narrow widths, booleans -/

theorem narrow_roundtrip (n : Nat) (hn : n = 8 ∨ n = 16) (pat : Nat) (hv : pat < 2^n) :
    Prim.wrapSigned 32 (Result.signExtend n 32 pat) = Prim.wrapSigned n pat ∧ Result.signExtend n 32 pat < 2^32 := by
  rcases hn with rfl | rfl <;>
  · unfold Prim.wrapSigned Result.signExtend
    simp only [ge_iff_le, Nat.reducePow, Nat.reduceSub, Int.reducePow] at hv ⊢
    by_cases h : 2^7 ≤ pat <;> by_cases h' : 2^15 ≤ pat <;>
      simp only [Nat.reducePow] at h h' <;> simp only [h, h', if_true, if_false] <;>
      constructor <;> (try split) <;> omega

theorem bool_roundtrip (b : Bool) :
    intText 32 (if b then 1 else 0) 10 false = (if b then [49] else [48]) := by
  cases b <;> decide

end ScpiVerif.Lemmas.RoundTrip
