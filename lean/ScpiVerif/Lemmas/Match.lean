/-
C03: `matchCommand` accepts exactly the headers of the pattern's language (helper lemmas for
ScpiVerif/Props/C03.lean; the layers are in the ScpiVerif/Lemmas/Match*.lean files).
-/
import ScpiVerif.Lemmas.MatchRun
import ScpiVerif.Lemmas.MatchCommon

namespace ScpiVerif.Lemmas.Match
open ScpiVerif ScpiVerif.Match ScpiVerif.Spec.Pattern
open ScpiVerif.Lexer (Bytes isDigit isLower isUpper isAlpha)

theorem keyText_nz63 {k : Kw} (hk : KwW k) : ∀ b ∈ keyText k, b ≠ 0 ∧ b ≠ 63 := by
  intro b hb
  have := keyText_clean hk b hb
  refine ⟨this.1, ?_⟩
  intro h; subst h; simp at this

theorem item_nz63 {k : Kw} (hk : KwW k) : ∀ b ∈ item k, b ≠ 0 ∧ b ≠ 63 := by
  intro b hb
  cases hopt : k.optional <;> simp [item, hopt] at hb
  · rcases hb with rfl | hb
    · decide
    · exact keyText_nz63 hk b hb
  · rcases hb with rfl | rfl | hb | rfl
    · decide
    · decide
    · exact keyText_nz63 hk b hb
    · decide

theorem renderRest_nz63 (ks : List Kw) (hks : ∀ k ∈ ks, KwW k) : ∀ b ∈ renderRest ks, b ≠ 0 ∧ b ≠ 63 := by
  induction ks with
  | nil => intro b hb; simp [renderRest] at hb
  | cons k ks ih =>
    intro b hb
    simp only [renderRest, List.mem_append] at hb
    rcases hb with hb | hb
    · exact item_nz63 (hks k (by simp)) b hb
    · exact ih (fun k' hk' => hks k' (by simp [hk'])) b hb

theorem renderRest_length (ks : List Kw) : ks.length ≤ (renderRest ks).length := by
  induction ks with
  | nil => simp [renderRest]
  | cons k ks ih => cases hopt : k.optional <;> simp [renderRest, item, hopt] <;> omega

/-- the pattern prelude puts the walker at the start of the first keyword -/
theorem pat_start (pat : Bytes) (k : Kw) (ks : List Kw) (qt : Bytes) (hk : KwW k)
    (hvar : pat = item k ++ renderRest ks ++ qt ∨ (k.optional = false ∧ pat = keyText k ++ renderRest ks ++ qt))
    (cl : Nat) (nums : List Int) :
    ∃ pp0 : Nat,
      patPrelude pat ⟨0, ((pat.length - qt.length : Nat) : Int), 0, cl, 0, nums, 0, false⟩ =
        ⟨pp0, ((pat.length - qt.length : Nat) : Int) - pp0, 0, cl, brOf k, nums, 0, false⟩ ∧
      pat.drop pp0 = kwText k ks ++ qt ∧
      ((pat.length - qt.length : Nat) : Int) - pp0 = ((kwText k ks).length : Int) := by
  rcases hvar with hpat | ⟨hopt, hpat⟩
  · obtain ⟨h1, h2⟩ := patPrelude_item pat k hk (renderRest ks ++ qt) ((pat.length - qt.length : Nat) : Int)
      cl nums false (by rw [hpat, List.append_assoc])
    refine ⟨_, h1, by rw [h2]; simp [kwText, List.append_assoc], ?_⟩
    rw [hpat]
    cases hopt : k.optional <;> simp [item, closeB, kwText, hopt] <;> omega
  · have h1 := patPrelude_bare pat k hk hopt (renderRest ks ++ qt) ((pat.length - qt.length : Nat) : Int)
      cl nums false (by rw [hpat, List.append_assoc])
    refine ⟨0, by simpa using h1, by rw [hpat]; simp [kwText, closeB, hopt, List.append_assoc], ?_⟩
    rw [hpat]; simp [kwText, closeB, hopt]; omega

/-- everything after the query check, on a rendered pattern and a header body -/
theorem bodyStage_eval (pat : Bytes) (k : Kw) (ks : List Kw) (qt : Bytes) (hq : qt = [] ∨ qt = [63])
    (hkws : ∀ k' ∈ k :: ks, KwW k')
    (hvar : pat = item k ++ renderRest ks ++ qt ∨ (k.optional = false ∧ pat = keyText k ++ renderRest ks ++ qt))
    (numbers : Option (List Int)) (d : Int) (hdr body ct : Bytes) (hhdr : hdr = body ++ ct)
    (hct : ct = [] ∨ ct = [63]) (hbytes : ∀ b ∈ body, HdrByte b)
    (hsmall : numbers.isSome = true → ∀ sol, modelGreedy (k :: ks) body = some sol →
      ∀ o ∈ sol, ∀ v, o = some v → v < 2^31) :
    (bodyStage pat hdr numbers d ((pat.length - qt.length : Nat) : Int) body.length).1 =
      (modelGreedy (k :: ks) body).isSome ∧
    (bodyStage pat hdr numbers d ((pat.length - qt.length : Nat) : Int) body.length).2.2 = false ∧
    ∀ sol, modelGreedy (k :: ks) body = some sol →
      (bodyStage pat hdr numbers d ((pat.length - qt.length : Nat) : Int) body.length).2.1 =
        if numbers.isSome then fill (numbers.getD []) 0 (want sol d) else numbers.getD [] := by
  have hk := hkws k (by simp)
  have hpos := keyText_pos hk
  have hpne : pat ≠ [] := by
    rcases hvar with h | ⟨_, h⟩ <;> rw [h]
    · cases hopt : k.optional <;> simp [item, hopt]
    · intro h0; simp at h0; rw [h0.1] at hpos; simp at hpos
  have hlen : ks.length < pat.length + hdr.length + 4 := by
    have h1 := renderRest_length ks
    have h2 : (renderRest ks).length ≤ pat.length := by
      rcases hvar with h | ⟨_, h⟩ <;> rw [h] <;> simp <;> omega
    omega
  obtain ⟨pp0, hp1, hp2, hp3⟩ := pat_start pat k ks qt hk hvar body.length (numbers.getD [])
  have hoob : (decide ((((pat.length - qt.length : Nat) : Int) == 0) = true ∧ pat.isEmpty = true)) = false := by
    have : pat.isEmpty = false := by cases pat with
      | nil => exact absurd rfl hpne
      | cons a t => rfl
    simp [this]
  obtain ⟨E, hE, h1, h2, h3⟩ := model_run pat k ks hkws qt hq pp0 hp2
    (((pat.length - qt.length : Nat) : Int) - pp0) hp3 numbers.isSome d (numbers.getD []) hdr body ct hhdr hct
    hbytes (pat.length + hdr.length + 4) hlen hsmall
  have hbs : bodyStage pat hdr numbers d ((pat.length - qt.length : Nat) : Int) body.length = E := by
    unfold bodyStage
    simp only [hoob, hp1]
    exact hE
  rw [hbs]
  exact ⟨h1, h2, h3⟩

theorem finish (r : Bool × List Int × Bool) (acc : List (List (Option Nat))) (mg : Option (List (Option Nat)))
    (W : List (Option Nat) → List Int)
    (hacc : acc = mg.toList) (h1 : r.1 = mg.isSome) (h2 : r.2.2 = false)
    (h3 : ∀ sol, mg = some sol → r.2.1 = W sol) :
    r.1 = !acc.isEmpty ∧ r.2.2 = false ∧ ∀ sol ∈ acc, r.2.1 = W sol := by
  subst hacc
  cases mg with
  | none => simp [h1, h2]
  | some s => simp [h1, h2]; exact h3 s rfl

theorem rd_last_mem (B : Bytes) (hB : B ≠ []) : rd B (B.length - 1) ∈ B := by
  have : B = B.dropLast ++ [B.getLast hB] := (List.dropLast_concat_getLast hB).symm
  have h2 := rd_last B.dropLast (B.getLast hB)
  rw [← this] at h2
  rw [h2]; exact List.getLast_mem hB

/-- the whole of `matchCommand` on a rendered pattern, given the list-level description `acc` of the
language in terms of what the model looks for -/
theorem match_flow (pat : Bytes) (k : Kw) (ks : List Kw) (q : Bool) (hkws : ∀ k' ∈ k :: ks, KwW k')
    (hvar : pat = item k ++ renderRest ks ++ qtail q ∨
      (k.optional = false ∧ pat = keyText k ++ renderRest ks ++ qtail q))
    (hdr : Bytes) (hh : hdr.all hdrAlpha = true) (numbers : Option (List Int)) (d : Int)
    (acc : List (List (Option Nat)))
    (am1 : q = true → ∀ body, hdr = body ++ [63] → acc = (modelGreedy (k :: ks) body).toList)
    (am2 : q = true → hdr.getLast? ≠ some 63 → acc = [])
    (am3 : q = false → acc = (modelGreedy (k :: ks) hdr).toList)
    (hsmall : numbers.isSome = true → ∀ sol ∈ acc, ∀ o ∈ sol, ∀ v, o = some v → v < 2^31) :
    (matchCommand pat hdr hdr.length numbers d).1 = !acc.isEmpty ∧
    (matchCommand pat hdr hdr.length numbers d).2.2 = false ∧
    ∀ sol ∈ acc, (matchCommand pat hdr hdr.length numbers d).2.1 =
      if numbers.isSome then fill (numbers.getD []) 0 (want sol d) else numbers.getD [] := by
  have hk := hkws k (by simp)
  have hks : ∀ k' ∈ ks, KwW k' := fun k' h => hkws k' (by simp [h])
  -- the pattern text without its '?'
  obtain ⟨B, hB, hBne, hBb⟩ : ∃ B : Bytes, pat = B ++ qtail q ∧ B ≠ [] ∧ ∀ b ∈ B, b ≠ 0 ∧ b ≠ 63 := by
    rcases hvar with h | ⟨_, h⟩
    · refine ⟨item k ++ renderRest ks, h, ?_, ?_⟩
      · cases hopt : k.optional <;> simp [item, hopt]
      · intro b hb
        rcases List.mem_append.mp hb with hb | hb
        · exact item_nz63 hk b hb
        · exact renderRest_nz63 ks hks b hb
    · refine ⟨keyText k ++ renderRest ks, h, ?_, ?_⟩
      · have := keyText_pos hk
        intro h0; simp at h0; rw [h0.1] at this; simp at this
      · intro b hb
        rcases List.mem_append.mp hb with hb | hb
        · exact keyText_nz63 hk b hb
        · exact renderRest_nz63 ks hks b hb
  have hpz : ∀ b ∈ pat, b ≠ 0 := by
    intro b hb; rw [hB] at hb
    rcases List.mem_append.mp hb with hb | hb
    · exact (hBb b hb).1
    · cases hq : q <;> simp [qtail, hq] at hb
      subst hb; decide
  have hhb : ∀ b ∈ hdr, HdrByte b := fun b hb => hdrByte_of_alpha b (List.all_eq_true.mp hh b hb)
  have hhz : ∀ b ∈ hdr, b ≠ 0 := fun b hb => (hhb b hb).1
  have hpne : pat ≠ [] := by rw [hB]; simp [hBne]
  have hF3 : (rd pat (pat.length - 1) == 63) = q := by
    cases hq : q with
    | true => rw [hB, hq]; simp only [qtail, if_true]; rw [rd_last]; rfl
    | false =>
      have : pat = B := by rw [hB, hq]; simp [qtail]
      rw [this]
      have := (hBb _ (rd_last_mem B hBne)).2
      simpa using this
  have hqt : qtail q = [] ∨ qtail q = [63] := by cases q <;> simp [qtail]
  rw [matchCommand_stages, qStage_eval pat hdr hpz hhz, hF3]
  cases hq : q with
  | false =>
    simp only [Bool.false_eq_true, if_false]
    have hacc := am3 hq
    have hlen0 : ((pat.length - (qtail q).length : Nat) : Int) = (pat.length : Int) := by
      rw [hq]; simp [qtail]
    have := bodyStage_eval pat k ks (qtail q) hqt hkws hvar numbers d hdr hdr [] (by simp) (Or.inl rfl)
      hhb (by
        intro hnn sol hsol
        apply hsmall hnn sol
        rw [hacc, hsol]; simp)
    rw [hlen0] at this
    exact finish _ _ _ _ hacc this.1 this.2.1 this.2.2
  | true =>
    simp only [if_true]
    by_cases hl : hdr.getLast? = some 63
    · obtain ⟨body, hbody⟩ : ∃ body, hdr = body ++ [63] := by
        obtain ⟨ys, hys⟩ := List.getLast?_eq_some_iff.mp hl; exact ⟨ys, hys⟩
      have hcond : hdr.length > 0 ∧ (rd hdr (hdr.length - 1) == 63) = true := by
        rw [hbody]; rw [rd_last]; simp
      rw [if_pos hcond]
      have hacc := am1 hq body hbody
      have hlen0 : ((pat.length - (qtail q).length : Nat) : Int) = (pat.length : Int) - 1 := by
        rw [hq]; simp only [qtail, if_true, List.length_singleton]
        have : 0 < pat.length := List.length_pos_iff.mpr hpne
        omega
      have hlen1 : hdr.length - 1 = body.length := by rw [hbody]; simp
      have := bodyStage_eval pat k ks (qtail q) hqt hkws hvar numbers d hdr body [63] hbody
        (Or.inr rfl) (fun b hb => hhb b (by rw [hbody]; exact List.mem_append_left _ hb)) (by
        intro hnn sol hsol
        apply hsmall hnn sol
        rw [hacc, hsol]; simp)
      rw [hlen0] at this
      rw [hlen1]
      exact finish _ _ _ _ hacc this.1 this.2.1 this.2.2
    · have hcond : ¬ (hdr.length > 0 ∧ (rd hdr (hdr.length - 1) == 63) = true) := by
        intro ⟨h1, h2⟩
        have hne : hdr ≠ [] := List.length_pos_iff.mp h1
        have : hdr = hdr.dropLast ++ [hdr.getLast hne] := (List.dropLast_concat_getLast hne).symm
        have h3 := rd_last hdr.dropLast (hdr.getLast hne)
        rw [← this] at h3
        rw [h3] at h2
        apply hl
        rw [List.getLast?_eq_some_getLast hne]; simpa using h2
      rw [if_neg hcond]
      have hacc := am2 hq hl
      rw [hacc]
      have : 0 < pat.length := List.length_pos_iff.mpr hpne
      rw [takeWhile_nz pat hpz]
      simp; omega

/-- non-common patterns: the walker accepts exactly the language and reports the suffixes -/
theorem match_core (pat : Bytes) (p : Pat) (hp : parsePattern pat = some p) (hc : p.common = false)
    (hwf : wellFormed p.kws = true)
    (hdr : Bytes) (hs : (∀ k ∈ p.kws, k.short ≠ []) ∨ (hdr ≠ [] ∧ hdr ≠ [58] ∧ hdr ≠ [63] ∧ hdr ≠ [58, 63]))
    (hh : hdr.all hdrAlpha = true) (numbers : Option (List Int)) (d : Int)
    (hsmall : numbers.isSome = true → ∀ sol ∈ accepts p hdr, ∀ o ∈ sol, ∀ v, o = some v → v < 2^31) :
    (matchCommand pat hdr hdr.length numbers d).1 = !(accepts p hdr).isEmpty ∧
    (matchCommand pat hdr hdr.length numbers d).2.2 = false ∧
    ∀ sol ∈ accepts p hdr, (matchCommand pat hdr hdr.length numbers d).2.1 =
      if numbers.isSome then fill (numbers.getD []) 0 (want sol d) else numbers.getD [] := by
  obtain ⟨k, ks, hkeq, hok, hvar⟩ := parsePattern_render pat p hp hc
  have hkws : ∀ k' ∈ k :: ks, KwW k' := fun k' h => (hok k' (hkeq ▸ h)).toW
  obtain ⟨am1, am2, am3⟩ := accepts_model p hc hwf hok hdr hs
  rw [hkeq] at am1 am3
  exact match_flow pat k ks p.query hkws hvar hdr hh numbers d (accepts p hdr) am1 am2 am3 hsmall

/-- common patterns written without lower-case letters -/
theorem match_common (pat : Bytes) (p : Pat) (hp : parsePattern pat = some p) (hc : p.common = true)
    (hup : ∀ k ∈ p.kws, k.long.all (fun b => !isLower b) = true)
    (hdr : Bytes) (hh : hdr.all hdrAlpha = true) (numbers : Option (List Int)) (d : Int)
    (hsmall : numbers.isSome = true → ∀ sol ∈ accepts p hdr, ∀ o ∈ sol, ∀ v, o = some v → v < 2^31) :
    (matchCommand pat hdr hdr.length numbers d).1 = !(accepts p hdr).isEmpty ∧
    (matchCommand pat hdr hdr.length numbers d).2.2 = false ∧
    ∀ sol ∈ accepts p hdr, (matchCommand pat hdr hdr.length numbers d).2.1 =
      if numbers.isSome then fill (numbers.getD []) 0 (want sol d) else numbers.getD [] := by
  obtain ⟨name, hne, hchars, _, hkws, hpat⟩ := parsePattern_common pat p hp hc
  have hpe : p = ⟨true, p.query, [commonKw name]⟩ := by
    cases p with
    | mk c q kws => simp at hc hkws ⊢; exact ⟨hc, hkws⟩
  have hW : KwW (commonKw name) :=
    commonKw_W name hchars (by have := hup (commonKw name) (by rw [hkws]; simp [commonKw]); simpa [commonKw] using this)
  obtain ⟨am1, am2, am3⟩ := accepts_common p.query name hchars hW hdr
  simp only [← hpe] at am1 am2 am3
  have hvar : pat = item (commonKw name) ++ renderRest [] ++ qtail p.query ∨
      ((commonKw name).optional = false ∧ pat = keyText (commonKw name) ++ renderRest [] ++ qtail p.query) := by
    right; refine ⟨rfl, ?_⟩
    rw [hpat]; simp [keyText, commonKw, renderRest]
  exact match_flow pat (commonKw name) [] p.query (by intro k hk; simp at hk; subst hk; exact hW) hvar hdr hh
    numbers d (accepts p hdr) am1 am2 am3 hsmall

/-- all supported patterns: non-common ones whose keywords have a non-empty short form, and common
ones written without lower-case letters -/
theorem match_all (pat : Bytes) (p : Pat) (hp : parsePattern pat = some p)
    (hwf : wellFormed p.kws = true)
    (hdr : Bytes)
    (hshort : (∀ k ∈ p.kws, k.short ≠ []) ∨ (hdr ≠ [] ∧ hdr ≠ [58] ∧ hdr ≠ [63] ∧ hdr ≠ [58, 63]))
    (hupper : p.common = true → ∀ k ∈ p.kws, k.long.all (fun b => !isLower b) = true)
    (hh : hdr.all hdrAlpha = true) (numbers : Option (List Int)) (d : Int)
    (hsmall : numbers.isSome = true → ∀ sol ∈ accepts p hdr, ∀ o ∈ sol, ∀ v, o = some v → v < 2^31) :
    (matchCommand pat hdr hdr.length numbers d).1 = !(accepts p hdr).isEmpty ∧
    (matchCommand pat hdr hdr.length numbers d).2.2 = false ∧
    ∀ sol ∈ accepts p hdr, (matchCommand pat hdr hdr.length numbers d).2.1 =
      if numbers.isSome then fill (numbers.getD []) 0 (want sol d) else numbers.getD [] := by
  cases hc : p.common with
  | true => exact match_common pat p hp hc (hupper hc) hdr hh numbers d hsmall
  | false => exact match_core pat p hp hc hwf hdr hshort hh numbers d hsmall

/-! ### numbers[] bookkeeping in closed form -/

theorem fill_nil (idx : Nat) (ws : List Int) : fill [] idx ws = [] := by
  induction ws generalizing idx with
  | nil => rfl
  | cons w ws ih => simp [fill, ih]

theorem fill_cons_succ (a : Int) (nums : List Int) (idx : Nat) (ws : List Int) :
    fill (a :: nums) (idx + 1) ws = a :: fill nums idx ws := by
  induction ws generalizing nums idx with
  | nil => rfl
  | cons w ws ih => simp [fill, ih]

theorem fill_zero (nums : List Int) (ws : List Int) :
    fill nums 0 ws = ws.take nums.length ++ nums.drop ws.length := by
  induction ws generalizing nums with
  | nil => simp [fill]
  | cons w ws ih =>
    cases nums with
    | nil => simp [fill, fill_nil]
    | cons a t => simp [fill, fill_cons_succ, ih]

/-- the closed form used by the property statement -/
theorem fill_zero_map (nums : List Int) (sol : List (Option Nat)) (d : Int) (f : Option Nat → Int)
    (hf : ∀ o, f o = wantOne o d) :
    (sol.map f).take nums.length ++ nums.drop (sol.map f).length = fill nums 0 (want sol d) := by
  have : sol.map f = want sol d := by
    unfold want
    apply List.map_congr_left
    intro o _; rw [hf o]; cases o <;> rfl
  rw [this, fill_zero]

/-! ### the statements used by Props/C03.lean -/

/-- acceptance, for patterns whose keywords have a non-empty short form and whose common-command
form is written without lower-case letters -/
theorem match_iff_language_partial (pat : Bytes) (p : Pat) (hp : parsePattern pat = some p)
    (hwf : wellFormed p.kws = true)
    (hdr : Bytes)
    (hshort : (∀ k ∈ p.kws, k.short ≠ []) ∨ (hdr ≠ [] ∧ hdr ≠ [58] ∧ hdr ≠ [63] ∧ hdr ≠ [58, 63]))
    (hupper : p.common = true → ∀ k ∈ p.kws, k.long.all (fun b => !isLower b) = true)
    (hh : hdr.all hdrAlpha = true) :
    (matchCommand pat hdr hdr.length none 0).1 = !(accepts p hdr).isEmpty ∧
    (matchCommand pat hdr hdr.length none 0).2.2 = false := by
  have := match_all pat p hp hwf hdr hshort hupper hh none 0 (by intro h; simp at h)
  exact ⟨this.1, this.2.1⟩

/-- numeric suffixes, same side conditions; `E` is the closed form of the expected array -/
theorem numbers_spec_partial (pat : Bytes) (p : Pat) (hp : parsePattern pat = some p)
    (hwf : wellFormed p.kws = true)
    (hdr : Bytes)
    (hshort : (∀ k ∈ p.kws, k.short ≠ []) ∨ (hdr ≠ [] ∧ hdr ≠ [58] ∧ hdr ≠ [63] ∧ hdr ≠ [58, 63]))
    (hupper : p.common = true → ∀ k ∈ p.kws, k.long.all (fun b => !isLower b) = true)
    (hh : hdr.all hdrAlpha = true)
    (nums : List Int) (dflt : Int)
    (hsmall : ∀ sol ∈ accepts p hdr, ∀ o ∈ sol, ∀ v, o = some v → v < 2^31)
    (E : List Int → List (Option Nat) → Int → List Int)
    (hE : ∀ nums sol d, E nums sol d = fill nums 0 (want sol d)) :
    (matchCommand pat hdr hdr.length (some nums) dflt).1 = !(accepts p hdr).isEmpty ∧
    ((matchCommand pat hdr hdr.length (some nums) dflt).1 = true →
      ∃ sol ∈ accepts p hdr, (matchCommand pat hdr hdr.length (some nums) dflt).2.1 = E nums sol dflt) ∧
    (matchCommand pat hdr hdr.length (some nums) dflt).2.2 = false := by
  have := match_all pat p hp hwf hdr hshort hupper hh (some nums) dflt (fun _ => hsmall)
  refine ⟨this.1, ?_, this.2.1⟩
  intro hr
  rw [this.1] at hr
  cases hacc : accepts p hdr with
  | nil => simp [hacc] at hr
  | cons sol rest =>
    refine ⟨sol, by simp, ?_⟩
    have := this.2.2 sol (by rw [hacc]; simp)
    rw [this, hE]; simp

/-! ### the grammar guarantees the two side conditions -/

/-- a keyword of the grammar starts with an upper-case letter, so its short form is not empty -/
theorem KwOK.short_ne {k : Kw} (hk : KwOK k) : k.short ≠ [] := by
  rw [hk.short_eq]
  cases hl : k.long with
  | nil => exact absurd hl hk.ne
  | cons a t =>
    have hu : isUpper a = true := by have := hk.upper; rwa [hl] at this
    have hlow : isLower a = false := by
      revert hu
      apply forall_byte (fun a => isUpper a = true → isLower a = false)
      set_option maxRecDepth 100000 in decide
    simp [List.takeWhile_cons, hlow]

/-- every pattern of the grammar has non-empty short forms, and its common form has no lower-case letter -/
theorem parsePattern_side (pat : Bytes) (p : Pat) (hp : parsePattern pat = some p) :
    (∀ k ∈ p.kws, k.short ≠ []) ∧
    (p.common = true → ∀ k ∈ p.kws, k.long.all (fun b => !isLower b) = true) := by
  rcases parsePattern_cases pat p hp with ⟨_, name, _, _, hlow, hkws, _⟩ | ⟨hc, k, ks, _, hok, _⟩
  · rw [hkws]
    refine ⟨by intro k hk; simp at hk; subst hk; simp, ?_⟩
    intro _ k hk
    simp at hk; subst hk
    have : ∀ b ∈ name, isLower b = false := by
      intro b hb
      cases hb' : isLower b with
      | false => rfl
      | true =>
        have : name.any isLower = true := List.any_eq_true.mpr ⟨b, hb, hb'⟩
        rw [hlow] at this; exact absurd this (by simp)
    simp only [List.all_cons, List.all_eq_true, Bool.and_eq_true]
    exact ⟨by decide, fun b hb => by simp [this b hb]⟩
  · exact ⟨fun k hk => (hok k hk).short_ne, fun h => by rw [hc] at h; contradiction⟩

/-- Full statement (acceptance) -/
theorem match_iff_language (pat : Bytes) (p : Pat) (hp : parsePattern pat = some p)
    (hwf : wellFormed p.kws = true) (hdr : Bytes) (hh : hdr.all hdrAlpha = true) :
    (matchCommand pat hdr hdr.length none 0).1 = !(accepts p hdr).isEmpty ∧
    (matchCommand pat hdr hdr.length none 0).2.2 = false :=
  match_iff_language_partial pat p hp hwf hdr (Or.inl (parsePattern_side pat p hp).1)
    (parsePattern_side pat p hp).2 hh

/-- Full statement (numeric suffixes); `E` is the closed form of the expected array -/
theorem numbers_spec (pat : Bytes) (p : Pat) (hp : parsePattern pat = some p)
    (hwf : wellFormed p.kws = true) (hdr : Bytes) (hh : hdr.all hdrAlpha = true)
    (nums : List Int) (dflt : Int)
    (hsmall : ∀ sol ∈ accepts p hdr, ∀ o ∈ sol, ∀ v, o = some v → v < 2^31)
    (E : List Int → List (Option Nat) → Int → List Int)
    (hE : ∀ nums sol d, E nums sol d = fill nums 0 (want sol d)) :
    (matchCommand pat hdr hdr.length (some nums) dflt).1 = !(accepts p hdr).isEmpty ∧
    ((matchCommand pat hdr hdr.length (some nums) dflt).1 = true →
      ∃ sol ∈ accepts p hdr, (matchCommand pat hdr hdr.length (some nums) dflt).2.1 = E nums sol dflt) ∧
    (matchCommand pat hdr hdr.length (some nums) dflt).2.2 = false :=
  numbers_spec_partial pat p hp hwf hdr (Or.inl (parsePattern_side pat p hp).1)
    (parsePattern_side pat p hp).2 hh nums dflt hsmall E hE

end ScpiVerif.Lemmas.Match
