/-
`strtol10` on a digit string: consumes exactly the digits and returns their value.
-/
import ScpiVerif.Lemmas.MatchDefs
namespace ScpiVerif.Lemmas.Match
open ScpiVerif ScpiVerif.Match ScpiVerif.Spec.Pattern
open ScpiVerif.Lexer (Bytes isDigit isLower isUpper isAlpha)

/-- reading inside a suffix -/
theorem rd_drop (s : Bytes) (off i : Nat) : rd (s.drop off) i = rd s (off + i) := by
  simp [rd, List.getD_eq_getElem?_getD, List.getElem?_drop]

/-- a read is the head of the suffix (0 at the end) -/
theorem rd_eq_headD (s : Bytes) (i : Nat) : rd s i = (s.drop i).headD 0 := by
  simp [rd, List.getD_eq_getElem?_getD, List.headD_eq_head?_getD, List.head?_drop]

theorem rd_of_drop_cons (s : Bytes) (i : Nat) (d : UInt8) (t : Bytes) (h : s.drop i = d :: t) :
    rd s i = d := by
  rw [rd_eq_headD, h]; rfl

theorem drop_succ_of_drop_cons (s : Bytes) (i : Nat) (d : UInt8) (t : Bytes)
    (h : s.drop i = d :: t) : s.drop (i + 1) = t := by
  have : s.drop (i + 1) = (s.drop i).drop 1 := by simp [List.drop_drop]
  rw [this, h]; rfl

/-- the digit loop consumes exactly a digit string that ends on a non-digit -/
theorem strtol10_dg_spec (s : Bytes) (rest : Bytes) (hrest : isDigit (rest.headD 0) = false) :
    ∀ (ds : Bytes) (fuel i acc : Nat), fuel > ds.length → s.drop i = ds ++ rest →
      ds.all isDigit = true →
      strtol10.dg s fuel i acc
        = (i + ds.length, ds.foldl (fun a b => a * 10 + (b.toNat - 48)) acc) := by
  intro ds
  induction ds with
  | nil =>
    intro fuel i acc hf h _
    obtain ⟨f, rfl⟩ : ∃ f, fuel = f + 1 := ⟨fuel - 1, by simp at hf; omega⟩
    have hr : rd s i = rest.headD 0 := by rw [rd_eq_headD, h]; rfl
    rw [strtol10.dg, hr, if_neg (by rw [hrest]; decide)]
    rfl
  | cons d ds ih =>
    intro fuel i acc hf h hd
    obtain ⟨f, rfl⟩ : ∃ f, fuel = f + 1 := ⟨fuel - 1, by simp at hf; omega⟩
    have h' : s.drop i = d :: (ds ++ rest) := by simpa using h
    have hr : rd s i = d := rd_of_drop_cons s i d _ h'
    have hd' : isDigit d = true ∧ ds.all isDigit = true := by simpa using hd
    have hnext := drop_succ_of_drop_cons s i d _ h'
    have hf' : f > ds.length := by simp at hf; omega
    rw [strtol10.dg, hr, if_pos hd'.1, ih f (i + 1) _ hf' hnext hd'.2]
    simp only [List.length_cons, List.foldl_cons]
    congr 1; omega

/-- the white-space loop stops at once on a byte that is no white space -/
theorem strtol10_ws_stop (s : Bytes) (f i : Nat)
    (h : ¬ (rd s i = 32 ∨ (9 ≤ rd s i ∧ rd s i ≤ 13))) : strtol10.ws s f i = i := by
  cases f with
  | zero => simp [strtol10.ws]
  | succ f => simp only [strtol10.ws, beq_iff_eq]; rw [if_neg h]

theorem nonNumStart_elim (c : UInt8) (h : nonNumStart c = true) :
    isDigit c = false ∧ ¬ (c = 32 ∨ (9 ≤ c ∧ c ≤ 13)) ∧ c ≠ 45 ∧ c ≠ 43 := by
  simp only [nonNumStart, Bool.and_eq_true, Bool.not_eq_true', bne_iff_ne, ne_eq,
    Bool.and_eq_false_imp, decide_eq_true_eq, decide_eq_false_iff_not] at h
  obtain ⟨⟨⟨⟨h1, h2⟩, h3⟩, h4⟩, h5⟩ := h
  refine ⟨h1, ?_, h4, h5⟩
  rintro (h | ⟨ha, hb⟩)
  · exact h2 h
  · exact absurd hb (h3 ha)

theorem isDigit_elim (c : UInt8) (h : isDigit c = true) :
    ¬ (c = 32 ∨ (9 ≤ c ∧ c ≤ 13)) ∧ c ≠ 45 ∧ c ≠ 43 := by
  simp only [isDigit, Bool.and_eq_true, decide_eq_true_eq] at h
  obtain ⟨h1, h2⟩ := h
  have h1' : 48 ≤ c.toNat := by simpa [UInt8.le_iff_toNat_le] using h1
  refine ⟨?_, ?_, ?_⟩
  · rintro (h | ⟨_, hb⟩)
    · subst h; simp at h1'
    · have : c.toNat ≤ 13 := by simpa [UInt8.le_iff_toNat_le] using hb
      omega
  · rintro rfl; simp at h1'
  · rintro rfl; simp at h1'

/-- the general shape of `strtol10` when the first byte is no white space and no sign -/
theorem strtol10_of_start (s : Bytes) (off : Nat)
    (hws : ¬ (rd s off = 32 ∨ (9 ≤ rd s off ∧ rd s off ≤ 13)))
    (hm : rd s off ≠ 45) (hp : rd s off ≠ 43) (i2 v : Nat)
    (hdg : strtol10.dg s (s.length - off + 1) off 0 = (i2, v)) :
    strtol10 s off =
      if i2 = off then (0, 0)
      else
        let v' : Nat := if v > 2^63 - 1 then 2^63 - 1 else v
        let m : Int := (v' : Int) % (2^32 : Int)
        (i2 - off, if m ≥ 2^31 then m - 2^32 else m) := by
  unfold strtol10
  simp only [strtol10_ws_stop s _ off hws, beq_iff_eq, if_neg hm, if_neg hp, hdg]
  simp

/-- `strtol10` on a (possibly empty) digit string followed by a byte that is no digit, white space
or sign (or by the end of the list, where `rd` yields 0): it consumes exactly the digits, and
returns their value when it is below 2^31 -/
theorem strtol10_spec (s : Bytes) (off : Nat) (ds rest : Bytes)
    (h : s.drop off = ds ++ rest) (hds : ds.all isDigit = true)
    (hrest : nonNumStart (rest.headD 0) = true) :
    (strtol10 s off).1 = ds.length ∧
    (natOfDigits ds < 2^31 → (strtol10 s off).2 = (natOfDigits ds : Int)) := by
  obtain ⟨hnd, hnws, hnm, hnp⟩ := nonNumStart_elim _ hrest
  -- the first byte
  have hstart : ¬ (rd s off = 32 ∨ (9 ≤ rd s off ∧ rd s off ≤ 13)) ∧ rd s off ≠ 45 ∧ rd s off ≠ 43 := by
    cases ds with
    | nil =>
      have hr : rd s off = rest.headD 0 := by rw [rd_eq_headD, h]; rfl
      rw [hr]; exact ⟨hnws, hnm, hnp⟩
    | cons d ds =>
      have h' : s.drop off = d :: (ds ++ rest) := by simpa using h
      rw [rd_of_drop_cons s off d _ h']
      have hd' : isDigit d = true ∧ ds.all isDigit = true := by simpa using hds
      exact isDigit_elim d hd'.1
  -- fuel
  have hlen : ds.length ≤ s.length - off := by
    have := congrArg List.length h
    simp only [List.length_drop, List.length_append] at this
    omega
  have hdg := strtol10_dg_spec s rest hnd ds (s.length - off + 1) off 0 (by omega) h hds
  rw [strtol10_of_start s off hstart.1 hstart.2.1 hstart.2.2 _ _ hdg]
  by_cases hz : ds.length = 0
  · have : ds = [] := List.eq_nil_of_length_eq_zero hz
    subst this
    simp [natOfDigits]
  · rw [if_neg (by omega)]
    refine ⟨by simp, ?_⟩
    intro hv
    change natOfDigits ds < 2^31 at hv
    have hfold : List.foldl (fun a b => a * 10 + (b.toNat - 48)) 0 ds = natOfDigits ds := rfl
    simp only [hfold]
    have h1 : ¬ natOfDigits ds > 2^63 - 1 := by omega
    rw [if_neg h1]
    have h2 : ((natOfDigits ds : Nat) : Int) % (2^32 : Int) = (natOfDigits ds : Int) :=
      Int.emod_eq_of_lt (by omega) (by omega)
    rw [h2, if_neg (by omega)]

end ScpiVerif.Lemmas.Match
