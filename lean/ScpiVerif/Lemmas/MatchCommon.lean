/-
Spec side for common command patterns (`*NAME`, written without lower-case letters): `accepts` in
terms of the list-level walker on the mnemonics the model sees.
-/
import ScpiVerif.Lemmas.MatchSpec

namespace ScpiVerif.Lemmas.Match
open ScpiVerif ScpiVerif.Match ScpiVerif.Spec.Pattern
open ScpiVerif.Lexer (Bytes isDigit isLower isUpper isAlpha)

/-- the keyword of a common pattern -/
def commonKw (name : Bytes) : Kw := ⟨42 :: name, 42 :: name, false, false⟩

theorem commonKw_W (name : Bytes) (hchars : name.all isKwChar = true)
    (hup : (42 :: name).all (fun b => !isLower b) = true) : KwW (commonKw name) := by
  refine ⟨by simp [commonKw], ?_, ?_⟩
  · have hc := List.all_eq_true.mp hchars
    simp only [commonKw, List.all_eq_true]
    intro b hb
    rcases List.mem_cons.mp hb with rfl | hb
    · decide
    · simp [hc b hb]
  · simp only [commonKw]
    exact (takeWhile_eq_self _ _ hup).symm

theorem kwMatch_common (name m : Bytes) :
    kwMatch (commonKw name) m = if ciEq m (42 :: name) then some none else none := by
  simp only [kwMatch, commonKw]
  by_cases h : ciEq m (42 :: name) = true <;> simp [h]

theorem greedy_common (name : Bytes) (ms : List Bytes) :
    greedy [commonKw name] ms =
      match ms with
      | [m] => if ciEq m (42 :: name) then some [] else none
      | _ => none := by
  match ms with
  | [] => simp [greedy, commonKw]
  | [m] =>
    simp only [greedy, kwMatch_common]
    by_cases h : ciEq m (42 :: name) = true <;> simp [h, consNum, commonKw]
  | m :: m' :: ms' =>
    simp only [greedy, kwMatch_common]
    by_cases h : ciEq m (42 :: name) = true <;> simp [h, commonKw]

theorem lower_eq_42 (b : UInt8) (h : lower b = 42) : b = 42 := by
  revert h
  apply forall_byte (fun b => lower b = 42 → b = 42)
  set_option maxRecDepth 100000 in decide

/-- a text that starts with something else than '*' is not the common mnemonic -/
theorem ciEq_head_ne (x name : Bytes) (h : x.headD 0 ≠ 42) : ciEq x (42 :: name) = false := by
  cases x with
  | nil => simp [ciEq]
  | cons a t =>
    rw [Bool.eq_false_iff]; intro hc
    rw [ciEq_iff] at hc
    simp only [List.map_cons, List.cons.injEq] at hc
    have : lower 42 = 42 := by decide
    rw [this] at hc
    exact h (by simpa using lower_eq_42 a hc.1)

/-- a text containing ':' is not the common mnemonic -/
theorem ciEq_colon (x name : Bytes) (hchars : name.all isKwChar = true) (h : (58 : UInt8) ∈ x) :
    ciEq x (42 :: name) = false := by
  rw [Bool.eq_false_iff]; intro hc
  rw [ciEq_iff] at hc
  have hm : lower 58 ∈ x.map lower := List.mem_map_of_mem h
  rw [hc] at hm
  obtain ⟨c, hcm, hlc⟩ := List.mem_map.mp hm
  have hcw : (isKwChar c || c == 42) = true := by
    rcases List.mem_cons.mp hcm with rfl | hcn
    · decide
    · simp [List.all_eq_true.mp hchars c hcn]
  have := (kwc_ne c hcw).2.2.2.2.1
  exact this (by rw [hlc]; decide)

/-- the spec's treatment of a header body for a common pattern is what the model looks for -/
theorem common_body (name : Bytes) (hchars : name.all isKwChar = true) (body : Bytes) :
    (if ciEq body (42 :: name) then [[]] else []) = (modelGreedy [commonKw name] body).toList := by
  by_cases hstrip : body.headD 0 = 58 ∧ 2 ≤ body.length
  · have hl : ciEq body (42 :: name) = false := ciEq_head_ne body name (by rw [hstrip.1]; decide)
    have hmg : modelGreedy [commonKw name] body = none := by
      unfold modelGreedy
      rw [if_pos hstrip]
      split
      · rfl
      · rename_i h42
        obtain ⟨m, ms, h1, h2, _⟩ := splitColon_spec (body.drop 1)
        rw [h1, greedy_common]
        cases ms with
        | cons m' ms' => rfl
        | nil =>
          have : body.drop 1 = m := by simpa [hdrRest] using h2
          rw [← this]; simp only []; rw [ciEq_head_ne _ name h42]; rfl
    rw [hl, hmg]; rfl
  · have hmg : modelGreedy [commonKw name] body = greedy [commonKw name] (splitColon body) := by
      unfold modelGreedy; rw [if_neg hstrip]
    obtain ⟨m, ms, h1, h2, _⟩ := splitColon_spec body
    rw [hmg, h1, greedy_common]
    cases ms with
    | nil =>
      have : body = m := by simpa [hdrRest] using h2
      rw [this]
      by_cases h : ciEq m (42 :: name) = true <;> simp [h]
    | cons m' ms' =>
      have : (58 : UInt8) ∈ body := by rw [h2, hdrRest_cons]; simp
      rw [ciEq_colon body name hchars this]; rfl

/-- a '?' left in the header body makes it unreadable -/
theorem greedy_none_of_63 (kws : List Kw) (hkws : ∀ k ∈ kws, KwW k) (X : Bytes) (h63 : (63 : UInt8) ∈ X) :
    greedy kws (splitColon X) = none := by
  obtain ⟨m, ms, h1, h2, _⟩ := splitColon_spec X
  rw [h2] at h63
  obtain ⟨x, hx, hbx⟩ := piece_of_mem_hdr m ms 63 h63 (by decide)
  rw [h1]
  exact greedy_none_of_unmatchable kws (m :: ms) x hx (fun k hk => kwMatch_no63 k (hkws k hk) x hbx)

/-- `accepts` of a common pattern in terms of what the model looks for -/
theorem accepts_common (q : Bool) (name : Bytes) (hchars : name.all isKwChar = true)
    (hW : KwW (commonKw name)) (hdr : Bytes) :
    let p : Pat := ⟨true, q, [commonKw name]⟩
    (q = true → ∀ body, hdr = body ++ [63] → accepts p hdr = (modelGreedy [commonKw name] body).toList) ∧
    (q = true → hdr.getLast? ≠ some 63 → accepts p hdr = []) ∧
    (q = false → accepts p hdr = (modelGreedy [commonKw name] hdr).toList) := by
  intro p
  refine ⟨?_, ?_, ?_⟩
  · intro hq body hb
    subst hb
    have := common_body name hchars body
    simp only [accepts, p, hq] at this ⊢
    simpa [commonKw] using this
  · intro hq hl
    have : (hdr.getLast? == some 63) = false := by simpa using hl
    simp [accepts, this, hq, p]
  · intro hq
    by_cases hl : hdr.getLast? = some 63
    · have hacc : accepts p hdr = [] := by simp [accepts, hl, hq, p]
      rw [hacc]
      have h63 : (63 : UInt8) ∈ hdr := List.mem_of_getLast? hl
      have hmg : modelGreedy [commonKw name] hdr = none := by
        unfold modelGreedy
        split
        · rename_i h2
          split
          · rfl
          · apply greedy_none_of_63 [commonKw name] (by intro k hk; simp at hk; subst hk; exact hW)
            obtain ⟨body, rfl⟩ : ∃ body, hdr = body ++ [63] := by
              obtain ⟨ys, hys⟩ := List.getLast?_eq_some_iff.mp hl; exact ⟨ys, hys⟩
            cases body with
            | nil => simp at h2
            | cons a t => simp
        · exact greedy_none_of_63 [commonKw name] (by intro k hk; simp at hk; subst hk; exact hW) _ h63
      rw [hmg]; rfl
    · have : (hdr.getLast? == some 63) = false := by simpa using hl
      have hb := common_body name hchars hdr
      simp only [accepts, hq, this, p] at hb ⊢
      simpa [commonKw] using hb

end ScpiVerif.Lemmas.Match
