/-
Helper lemmas for C17 (binary results are valid definite-length blocks in the requested byte order):
the models `Result.resultBlockHeader/Data/Block` and `Result.resultArrayBinary` write exactly
`Spec.Message.encodeBlock`.

Only the fields `written`, `outputCount`, `arbRemaining` and `pushed` of `Result.Out` are mentioned
(no ghost state).
-/
import ScpiVerif.Model.Result
import ScpiVerif.Spec.Message
import ScpiVerif.Lemmas.IntFmt

namespace ScpiVerif.Lemmas.Blocks
open ScpiVerif ScpiVerif.Lexer ScpiVerif.Result ScpiVerif.Spec.Message

/-- same bodies as the definitions of Props/C17.lean (which imports this file) -/
def emitted (o o' : Out) : Bytes := o'.written.drop o.written.length

def sepOf (o : Out) : Bytes := if o.outputCount > 0 then [44] else if o.outputCount < 0 then [59] else []

def wire (hostLittle : Bool) (wantLittle : Bool) (e : Bytes) : Bytes := if hostLittle == wantLittle then e else e.reverse

theorem emitted_eq {o o' : Out} {x : Bytes} (h : o'.written = o.written ++ x) : emitted o o' = x := by
  unfold emitted; rw [h]; simp

/-! ### the delimiter -/

theorem writeDelimiter_spec (o : Out) :
    (writeDelimiter o).written = o.written ++ sepOf o ∧
    (writeDelimiter o).outputCount = (if o.outputCount < 0 then 0 else o.outputCount) ∧
    (writeDelimiter o).arbRemaining = o.arbRemaining ∧ (writeDelimiter o).pushed = o.pushed := by
  unfold writeDelimiter sepOf writeSep
  by_cases h1 : o.outputCount > 0
  · have h2 : ¬ o.outputCount < 0 := by omega
    simp [h1, h2]
  · by_cases h2 : o.outputCount < 0
    · simp [h1, h2]
    · simp [h1, h2]

/-! ### the decimal length -/

theorem specDigits_len (n : Nat) (hn : n < 10^9) :
    1 ≤ (IntFmt.specDigits 10 n).length ∧ (IntFmt.specDigits 10 n).length ≤ 9 := by
  by_cases h0 : n = 0
  · subst h0; rw [Lemmas.IntFmt.specDigits_zero]; simp
  · obtain ⟨k, a, c⟩ := Lemmas.IntFmt.exists_pow_bracket (b := 10) (by omega) n (by omega)
    rw [Lemmas.IntFmt.specDigits_eq (by omega) a c, Lemmas.IntFmt.pad_length]
    have h1 : 10^k < 10^9 := by omega
    have := (Nat.pow_lt_pow_iff_right (a := 10) (by omega)).1 h1
    omega

theorem decimal_len (n : Nat) (hn : n < 10^9) : 1 ≤ (decimal n).length ∧ (decimal n).length ≤ 9 := by
  unfold decimal; rw [List.length_map]; exact specDigits_len n hn

theorem canon_unsigned (n : Nat) : IntFmt.canon 32 n (Gen.blockHeaderBase : Nat) false = IntFmt.specDigits 10 n := by
  have he : IntFmt.effBase (Gen.blockHeaderBase : Nat) = 10 := by decide
  unfold IntFmt.canon
  simp only [he, Bool.false_and]
  rfl

/-- the header digits are never truncated by the 10-byte limit -/
theorem header_digits (n : Nat) (hn : n < 10^9) :
    charsToBytes (IntFmt.toStrBaseSign 32 tbl32 (n % 2^32) Gen.blockHeaderLen (Gen.blockHeaderBase : Nat) false).1.chars
      = decimal n := by
  have hmod : n % 2^32 = n := Nat.mod_eq_of_lt (by omega)
  have hspec := Lemmas.IntFmt.toStr_spec 32 tbl32 (Or.inl rfl) (by decide) n Gen.blockHeaderLen
    (Gen.blockHeaderBase : Nat) false (by omega)
  have hl : Gen.blockHeaderLen = 10 := by decide
  have hlen := (specDigits_len n hn).2
  rw [hmod, hspec.1, canon_unsigned, List.take_of_length_le (by omega)]
  rfl

/-! ### the header -/

/-- the header as a delimiter followed by one data write; the state handed to the delimiter is only
described through the four non-ghost fields -/
theorem resultBlockHeader_eq (o : Out) (len : Nat) :
    ∃ o2 : Out, resultBlockHeader o len =
      writeData (writeDelimiter o2)
        ([35, UInt8.ofNat ((charsToBytes (IntFmt.toStrBaseSign 32 tbl32 (len % 2^32) Gen.blockHeaderLen
            (Gen.blockHeaderBase : Nat) false).1.chars).length + 48)] ++
          charsToBytes (IntFmt.toStrBaseSign 32 tbl32 (len % 2^32) Gen.blockHeaderLen
            (Gen.blockHeaderBase : Nat) false).1.chars) ∧
      o2.written = o.written ∧ o2.outputCount = o.outputCount ∧ o2.arbRemaining = len ∧ o2.pushed = o.pushed :=
  ⟨_, rfl, rfl, rfl, rfl, rfl⟩

theorem writeData_fields (o : Out) (d : Bytes) :
    (writeData o d).written = o.written ++ d ∧ (writeData o d).outputCount = o.outputCount ∧
    (writeData o d).arbRemaining = o.arbRemaining ∧ (writeData o d).pushed = o.pushed := ⟨rfl, rfl, rfl, rfl⟩

theorem header_state (o : Out) (n : Nat) (hn : n < 10^9) :
    (resultBlockHeader o n).written = o.written ++ (sepOf o ++ [35, UInt8.ofNat (48 + (decimal n).length)] ++ decimal n) ∧
    (resultBlockHeader o n).arbRemaining = n ∧
    (resultBlockHeader o n).outputCount = (if o.outputCount < 0 then 0 else o.outputCount) ∧
    (resultBlockHeader o n).pushed = o.pushed := by
  obtain ⟨o2, he, e1, e2, e3, e4⟩ := resultBlockHeader_eq o n
  rw [he, header_digits n hn]
  obtain ⟨h1, h2, h3, h4⟩ := writeDelimiter_spec o2
  obtain ⟨w1, w2, w3, w4⟩ := writeData_fields (writeDelimiter o2)
    ([35, UInt8.ofNat ((decimal n).length + 48)] ++ decimal n)
  have hsep : sepOf o2 = sepOf o := by unfold sepOf; rw [e2]
  refine ⟨?_, ?_, ?_, ?_⟩
  · rw [w1, h1, hsep, e1, Nat.add_comm]
    simp [List.append_assoc]
  · rw [w3, h3, e3]
  · rw [w2, h2, e2]
  · rw [w4, h4, e4]

theorem header_spec (o : Out) (n : Nat) (hn : n < 10^9) :
    let o' := resultBlockHeader o n
    emitted o o' = sepOf o ++ [35, UInt8.ofNat (48 + (decimal n).length)] ++ decimal n ∧
    1 ≤ (decimal n).length ∧ (decimal n).length ≤ 9 ∧ 2 + (decimal n).length + 1 ≤ Gen.bufBlockHeader ∧
    o'.arbRemaining = n ∧ o'.outputCount = (if o.outputCount < 0 then 0 else o.outputCount) := by
  intro o'
  obtain ⟨h1, h2, h3, _⟩ := header_state o n hn
  obtain ⟨l1, l2⟩ := decimal_len n hn
  have hb : Gen.bufBlockHeader = 12 := by decide
  exact ⟨emitted_eq h1, l1, l2, by omega, h2, h3⟩

/-! ### block data -/

theorem data_ok (o : Out) (d : Bytes) (h : d.length ≤ o.arbRemaining) :
    (resultBlockData o d).written = o.written ++ d ∧
    (resultBlockData o d).arbRemaining = o.arbRemaining - d.length ∧
    (resultBlockData o d).pushed = o.pushed ∧
    (resultBlockData o d).outputCount = o.outputCount + (if o.arbRemaining - d.length = 0 then 1 else 0) := by
  unfold resultBlockData
  rw [if_neg (by omega)]
  by_cases h0 : o.arbRemaining - d.length = 0
  · simp [h0, writeData, bump]
  · simp [h0, writeData]

theorem over_length_refused (o : Out) (d : Bytes) (h : o.arbRemaining < d.length) :
    let o' := resultBlockData o d
    o'.written = o.written ∧ o'.pushed = o.pushed ++ [-310] ∧ o'.arbRemaining = o.arbRemaining ∧ o'.outputCount = o.outputCount := by
  intro o'
  show (resultBlockData o d).written = _ ∧ (resultBlockData o d).pushed = _ ∧
    (resultBlockData o d).arbRemaining = _ ∧ (resultBlockData o d).outputCount = _
  unfold resultBlockData
  rw [if_pos h]
  exact ⟨rfl, rfl, rfl, rfl⟩

theorem block_spec (o : Out) (d : Bytes) (hd : d.length < 10^9) :
    let o' := resultBlock o d
    emitted o o' = sepOf o ++ encodeBlock d ∧ o'.arbRemaining = 0 ∧
    o'.outputCount = (if o.outputCount < 0 then 0 else o.outputCount) + 1 ∧ o'.pushed = o.pushed := by
  intro o'
  obtain ⟨h1, h2, h3, h4⟩ := header_state o d.length hd
  obtain ⟨d1, d2, d3, d4⟩ := data_ok (resultBlockHeader o d.length) d (by omega)
  refine ⟨?_, ?_, ?_, ?_⟩
  · apply emitted_eq
    show (resultBlockData (resultBlockHeader o d.length) d).written = _
    rw [d1, h1]
    simp [encodeBlock, List.append_assoc]
  · show (resultBlockData (resultBlockHeader o d.length) d).arbRemaining = _
    rw [d2, h2]; omega
  · show (resultBlockData (resultBlockHeader o d.length) d).outputCount = _
    rw [d4, h3, h2]; simp
  · show (resultBlockData (resultBlockHeader o d.length) d).pushed = _
    rw [d3, h4]

/-! ### streamed data -/

theorem flatten_nonempty : ∀ (cs : List Bytes), (∀ c ∈ cs, c ≠ []) → cs.flatten.length = 0 → cs = []
  | [], _, _ => rfl
  | c :: cs, hne, h => by
    have : c ≠ [] := hne c (by simp)
    have hc : 0 < c.length := List.length_pos_iff.mpr this
    simp at h
    exact absurd h.1 this

theorem foldl_spec : ∀ (chunks : List Bytes) (o1 : Out), (∀ c ∈ chunks, c ≠ []) →
    chunks.flatten.length ≤ o1.arbRemaining →
    (chunks.foldl resultBlockData o1).written = o1.written ++ chunks.flatten ∧
    (chunks.foldl resultBlockData o1).arbRemaining = o1.arbRemaining - chunks.flatten.length ∧
    (chunks.foldl resultBlockData o1).pushed = o1.pushed ∧
    (chunks.foldl resultBlockData o1).outputCount =
      o1.outputCount + (if chunks ≠ [] ∧ chunks.flatten.length = o1.arbRemaining then 1 else 0)
  | [], o1, _, _ => by simp
  | c :: cs, o1, hne, hle => by
    have hc : c ≠ [] := hne c (by simp)
    have hcl : 0 < c.length := List.length_pos_iff.mpr hc
    have hne' : ∀ x ∈ cs, x ≠ [] := fun x hx => hne x (by simp [hx])
    have hfl : (c :: cs).flatten.length = c.length + cs.flatten.length := by simp
    rw [hfl] at hle
    obtain ⟨d1, d2, d3, d4⟩ := data_ok o1 c (by omega)
    obtain ⟨i1, i2, i3, i4⟩ := foldl_spec cs (resultBlockData o1 c) hne' (by rw [d2]; omega)
    rw [List.foldl_cons, hfl]
    refine ⟨?_, ?_, ?_, ?_⟩
    · rw [i1, d1]; simp [List.append_assoc]
    · rw [i2, d2]; omega
    · rw [i3, d3]
    · rw [i4, d4, d2]
      by_cases hcs : cs = []
      · subst hcs; simp
        by_cases h0 : o1.arbRemaining - c.length = 0
        · rw [if_pos h0, if_pos (by omega)]
        · rw [if_neg h0, if_neg (by omega)]
      · have hpos : 0 < cs.flatten.length := by
          rcases Nat.eq_zero_or_pos cs.flatten.length with h | h
          · exact absurd (flatten_nonempty cs hne' h) hcs
          · exact h
        rw [if_neg (by omega)]
        by_cases h0 : cs.flatten.length = o1.arbRemaining - c.length
        · rw [if_pos ⟨hcs, h0⟩, if_pos ⟨by simp, by omega⟩]; simp
        · rw [if_neg (by intro h; exact h0 h.2), if_neg (by intro h; exact h0 (by omega))]; simp

theorem block_stream (o : Out) (chunks : List Bytes) (n : Nat) (hn : n < 10^9) (hsum : chunks.flatten.length = n)
    (hne : ∀ c ∈ chunks, c ≠ []) :
    let o1 := resultBlockHeader o n
    let o' := chunks.foldl resultBlockData o1
    emitted o o' = sepOf o ++ encodeBlock chunks.flatten ∧ o'.arbRemaining = 0 ∧ o'.pushed = o.pushed ∧
    (n > 0 → o'.outputCount = o1.outputCount + 1) ∧
    (∀ k, k < chunks.length → (chunks.take k).flatten.length < n → ((chunks.take k).foldl resultBlockData o1).outputCount = o1.outputCount) := by
  intro o1 o'
  obtain ⟨h1, h2, h3, h4⟩ := header_state o n hn
  obtain ⟨f1, f2, f3, f4⟩ := foldl_spec chunks o1 hne (by show _ ≤ (resultBlockHeader o n).arbRemaining; omega)
  refine ⟨?_, ?_, ?_, ?_, ?_⟩
  · apply emitted_eq
    show (chunks.foldl resultBlockData o1).written = _
    rw [f1]
    show (resultBlockHeader o n).written ++ _ = _
    rw [h1, ← hsum]
    simp [encodeBlock, List.append_assoc]
  · show (chunks.foldl resultBlockData o1).arbRemaining = _
    rw [f2]
    show (resultBlockHeader o n).arbRemaining - _ = _
    omega
  · show (chunks.foldl resultBlockData o1).pushed = _
    rw [f3]; exact h4
  · intro hpos
    show (chunks.foldl resultBlockData o1).outputCount = _
    rw [f4, if_pos]
    refine ⟨?_, ?_⟩
    · intro h; rw [h] at hsum; simp at hsum; omega
    · show _ = (resultBlockHeader o n).arbRemaining
      omega
  · intro k _ hlt
    obtain ⟨_, _, _, g4⟩ := foldl_spec (chunks.take k) o1 (fun c hc => hne c (List.mem_of_mem_take hc))
      (by show _ ≤ (resultBlockHeader o n).arbRemaining; omega)
    rw [g4, if_neg]
    · simp
    · intro h
      have : (chunks.take k).flatten.length = (resultBlockHeader o n).arbRemaining := h.2
      omega

/-! ### binary arrays -/

theorem flatten_length_const : ∀ (elems : List Bytes) (sz : Nat), (∀ e ∈ elems, e.length = sz) →
    elems.flatten.length = elems.length * sz
  | [], _, _ => by simp
  | e :: es, sz, h => by
    have := flatten_length_const es sz (fun x hx => h x (by simp [hx]))
    have he := h e (by simp)
    simp only [List.flatten_cons, List.length_append, List.length_cons, this, he]
    rw [Nat.add_mul]; omega

theorem flatMap_reverse_one : ∀ (elems : List Bytes), (∀ e ∈ elems, e.length = 1) →
    elems.flatMap List.reverse = elems.flatten
  | [], _ => rfl
  | e :: es, h => by
    have := flatMap_reverse_one es (fun x hx => h x (by simp [hx]))
    have he := h e (by simp)
    obtain ⟨a, rfl⟩ := List.length_eq_one_iff.mp he
    simp [this]

theorem array_bad_size (o : Out) (elems : List Bytes) (sz : Nat) (same : Bool) (h : ¬(sz = 1 ∨ sz = 2 ∨ sz = 4 ∨ sz = 8)) :
    (resultArrayBinary o elems sz same).written = o.written ∧ (resultArrayBinary o elems sz same).pushed = o.pushed ++ [-310] := by
  unfold resultArrayBinary
  rw [if_pos (by simpa using h)]
  exact ⟨rfl, rfl⟩

theorem array_binary (o : Out) (elems : List Bytes) (sz : Nat) (hsz : sz = 1 ∨ sz = 2 ∨ sz = 4 ∨ sz = 8)
    (hel : ∀ e ∈ elems, e.length = sz) (hlen : elems.length * sz < 10^9) (hostLittle wantLittle : Bool) :
    let o' := resultArrayBinary o elems sz (hostLittle == wantLittle)
    emitted o o' = sepOf o ++ encodeBlock (elems.flatMap (wire hostLittle wantLittle)) ∧
    o'.outputCount = (if o.outputCount < 0 then 0 else o.outputCount) + 1 ∧ o'.arbRemaining = 0 ∧ o'.pushed = o.pushed := by
  intro o'
  have hfl := flatten_length_const elems sz hel
  have hgood : (!decide (sz == 1 ∨ sz == 2 ∨ sz == 4 ∨ sz == 8)) = false := by
    simp only [beq_iff_eq, Bool.not_eq_false', decide_eq_true_eq]; exact hsz
  by_cases hs : (hostLittle == wantLittle) = true
  · -- same order: one whole block
    have ho' : o' = resultBlock o elems.flatten := by
      show resultArrayBinary o elems sz (hostLittle == wantLittle) = _
      unfold resultArrayBinary
      rw [hgood, hs]; simp
    have hw : elems.flatMap (wire hostLittle wantLittle) = elems.flatten := by
      unfold wire; simp [hs, List.flatMap_def]
    obtain ⟨b1, b2, b3, b4⟩ := block_spec o elems.flatten (by omega)
    rw [ho', hw]
    exact ⟨b1, b3, b2, b4⟩
  · have hs' : (hostLittle == wantLittle) = false := by simpa using hs
    have hw : elems.flatMap (wire hostLittle wantLittle) = elems.flatMap List.reverse := by
      unfold wire; simp [hs']
    by_cases h1 : sz = 1
    · -- one data call with all (one-byte) elements
      subst h1
      have ho' : o' = resultBlock o elems.flatten := by
        show resultArrayBinary o elems 1 (hostLittle == wantLittle) = _
        unfold resultArrayBinary resultBlock
        rw [hgood, hs', hfl]; simp
      obtain ⟨b1, b2, b3, b4⟩ := block_spec o elems.flatten (by omega)
      rw [ho', hw, flatMap_reverse_one elems hel]
      exact ⟨b1, b3, b2, b4⟩
    · have hsz1 : (sz == 1) = false := by simpa using h1
      cases elems with
      | nil =>
        have ho' : o' = resultBlock o [] := by
          show resultArrayBinary o [] sz (hostLittle == wantLittle) = _
          unfold resultArrayBinary resultBlock
          rw [hgood, hs', hsz1]; simp
        obtain ⟨b1, b2, b3, b4⟩ := block_spec o [] (by simp)
        rw [ho', hw]
        exact ⟨b1, b3, b2, b4⟩
      | cons e es =>
        have ho' : o' = ((e :: es).map List.reverse).foldl resultBlockData
            (resultBlockHeader o ((e :: es).length * sz)) := by
          show resultArrayBinary o (e :: es) sz (hostLittle == wantLittle) = _
          unfold resultArrayBinary
          rw [hgood, hs', hsz1, List.foldl_map]; simp
        have hfm : ((e :: es).map List.reverse).flatten = (e :: es).flatMap List.reverse := by
          rw [List.flatMap_def]
        have hsum : ((e :: es).map List.reverse).flatten.length = (e :: es).length * sz := by
          rw [← hfl, hfm]; simp [List.flatMap_def, List.length_flatten, List.map_map, Function.comp_def]
        have hne : ∀ c ∈ (e :: es).map List.reverse, c ≠ [] := by
          intro c hc
          obtain ⟨x, hx, rfl⟩ := List.mem_map.mp hc
          have := hel x hx
          intro h
          rw [List.reverse_eq_nil_iff] at h
          rw [h] at this
          simp at this
          omega
        obtain ⟨s1, s2, s3, s4, _⟩ := block_stream o _ _ hlen hsum hne
        obtain ⟨_, _, g3, _⟩ := header_state o ((e :: es).length * sz) hlen
        have hpos : (e :: es).length * sz > 0 := by
          have : 0 < sz := by omega
          simp only [List.length_cons]
          exact Nat.mul_pos (by omega) this
        rw [ho', hw, ← hfm]
        exact ⟨s1, by rw [s4 hpos, g3], s2, s3⟩

end ScpiVerif.Lemmas.Blocks
