/-
Helper lemmas for C10 (ring buffer fifo.c and the error-queue layer of error.c).
-/
import ScpiVerif.Model.Fifo

namespace ScpiVerif.Lemmas.Fifo
open ScpiVerif ScpiVerif.Fifo

variable {α : Type}

/-! ### index arithmetic -/

theorem mod_wrap {a n : Nat} (h : a < n + n) : a % n = if a < n then a else a - n := by
  split
  · exact Nat.mod_eq_of_lt ‹_›
  · rw [Nat.mod_eq_sub_mod (by omega), Nat.mod_eq_of_lt (by omega)]

theorem filterMap_range_length (g : Nat → Option α) (n : Nat) (hg : ∀ i, i < n → (g i).isSome) :
    ((List.range n).filterMap g).length = n := by
  induction n with
  | zero => simp
  | succ n ih =>
    have h1 := hg n (by omega)
    obtain ⟨v, hv⟩ := Option.isSome_iff_exists.mp h1
    rw [List.range_succ, List.filterMap_append, List.length_append, ih (fun i hi => hg i (by omega))]
    simp [hv]

theorem filterMap_range_getElem? (g : Nat → Option α) (n : Nat) (hg : ∀ i, i < n → (g i).isSome) (i : Nat) :
    ((List.range n).filterMap g)[i]? = if i < n then g i else none := by
  induction n with
  | zero => simp
  | succ n ih =>
    have h1 := hg n (by omega)
    have hg' : ∀ i, i < n → (g i).isSome := fun i hi => hg i (by omega)
    obtain ⟨v, hv⟩ := Option.isSome_iff_exists.mp h1
    rw [List.range_succ, List.filterMap_append, List.getElem?_append, filterMap_range_length g n hg', ih hg']
    by_cases h : i < n
    · simp [h, show i < n + 1 by omega]
    · by_cases h2 : i = n
      · subst h2; simp [hv]
      · simp [h, hv, show ¬ i < n + 1 by omega]; omega

/-! ### characterisation of `abs` under the invariant -/

theorem data_isSome (f : Fifo α) (h : Inv f) (i : Nat) : (f.data[(f.rd + i) % f.size]?).isSome := by
  obtain ⟨h1, h2, _⟩ := h
  have : (f.rd + i) % f.size < f.size := Nat.mod_lt _ (by omega)
  simp [h2, this]

theorem abs_length (f : Fifo α) (h : Inv f) : (abs f).length = f.count :=
  filterMap_range_length _ _ (fun i _ => data_isSome f h i)

theorem abs_getElem? (f : Fifo α) (h : Inv f) (i : Nat) :
    (abs f)[i]? = if i < f.count then f.data[(f.rd + i) % f.size]? else none :=
  filterMap_range_getElem? _ _ (fun i _ => data_isSome f h i) i

/-! ### invariant -/

theorem inv_init (n : Nat) (d : α) (hn : 1 ≤ n) : Inv (Fifo.init n d) := by
  simp [Fifo.Inv, Fifo.init]; omega

theorem inv_add (f : Fifo α) (v : α) (h : Inv f) : Inv (add f v).1 := by
  unfold add
  split
  · exact h
  · rename_i hf
    obtain ⟨h1, h2, h3, h4, h5, h6⟩ := h
    simp [isFull] at hf
    refine ⟨h1, by simpa using h2, h3, Nat.mod_lt _ (by omega), by simp; omega, ?_⟩
    simp only [h6, Nat.mod_add_mod]
    rfl

theorem inv_remove (f : Fifo α) (h : Inv f) : Inv (remove f).1 := by
  unfold remove
  split
  · exact h
  · rename_i hf
    obtain ⟨h1, h2, h3, h4, h5, h6⟩ := h
    simp [isEmpty] at hf
    refine ⟨h1, h2, Nat.mod_lt _ (by omega), h4, by simp; omega, ?_⟩
    simp only [h6, Nat.mod_add_mod]
    congr 1; omega

theorem inv_removeLast (f : Fifo α) (h : Inv f) : Inv (removeLast f).1 := by
  unfold removeLast
  split
  · exact h
  · rename_i hf
    obtain ⟨h1, h2, h3, h4, h5, h6⟩ := h
    simp [isEmpty] at hf
    refine ⟨h1, h2, h3, Nat.mod_lt _ (by omega), by simp; omega, ?_⟩
    simp only
    rw [mod_wrap (show f.rd + (f.count - 1) < f.size + f.size by omega),
      mod_wrap (show f.wr + f.size - 1 < f.size + f.size by omega)]
    rw [mod_wrap (show f.rd + f.count < f.size + f.size by omega)] at h6
    split at h6 <;> split <;> split <;> omega

theorem inv_clear (f : Fifo α) (h : Inv f) : Inv (Fifo.clear f) := by
  obtain ⟨h1, h2, h3, h4, h5, h6⟩ := h
  refine ⟨h1, h2, ?_, ?_, ?_, ?_⟩ <;> simp [Fifo.clear] <;> omega

/-! ### abstraction -/

theorem abs_init (n : Nat) (d : α) : abs (Fifo.init n d) = [] := by
  simp [abs, Fifo.init]

theorem abs_clear (f : Fifo α) : abs (Fifo.clear f) = [] := by
  simp [abs, Fifo.clear]

theorem abs_count (f : Fifo α) (h : Inv f) : cnt f = (abs f).length := by
  rw [abs_length f h]; rfl

theorem abs_add (f : Fifo α) (v : α) (h : Inv f) :
    (add f v).2 = decide ((abs f).length < f.size) ∧
    abs (add f v).1 = if (abs f).length < f.size then abs f ++ [v] else abs f := by
  have hinv' := inv_add f v h
  rw [abs_length f h]
  obtain ⟨h1, h2, h3, h4, h5, h6⟩ := h
  unfold add at hinv' ⊢
  by_cases hf : f.count = f.size
  · simp [isFull, hf]
  · have hlt : f.count < f.size := by omega
    simp only [isFull, beq_iff_eq, hf, if_false, hlt, decide_true, if_true, true_and] at hinv' ⊢
    apply List.ext_getElem?
    intro i
    rw [abs_getElem? _ hinv', List.getElem?_append, abs_length f ⟨h1, h2, h3, h4, h5, h6⟩,
      abs_getElem? f ⟨h1, h2, h3, h4, h5, h6⟩]
    simp only
    rw [List.getElem?_set]
    by_cases hi : i < f.count
    · have hne : f.wr ≠ (f.rd + i) % f.size := by
        rw [h6, mod_wrap (show f.rd + f.count < f.size + f.size by omega),
          mod_wrap (show f.rd + i < f.size + f.size by omega)]
        split <;> split <;> omega
      simp [hi, hne, show i < f.count + 1 by omega]
    · by_cases hi2 : i = f.count
      · subst hi2
        simp [← h6, h2, h4]
      · simp [hi, show ¬ i < f.count + 1 by omega]
        omega

theorem abs_eq_nil (f : Fifo α) (h : Inv f) (h0 : f.count = 0) : abs f = [] :=
  List.eq_nil_of_length_eq_zero (by rw [abs_length f h, h0])

theorem abs_remove (f : Fifo α) (h : Inv f) :
    (remove f).2 = (abs f).head? ∧ abs (remove f).1 = (abs f).tail := by
  have hinv' := inv_remove f h
  unfold remove at hinv' ⊢
  by_cases hf : f.count = 0
  · simp [isEmpty, hf, abs_eq_nil f h hf]
  · simp only [isEmpty, beq_iff_eq, hf, if_false] at hinv' ⊢
    have hh := h
    obtain ⟨h1, h2, h3, h4, h5, h6⟩ := h
    constructor
    · rw [List.head?_eq_getElem?, abs_getElem? f hh]
      simp [show 0 < f.count by omega, Nat.mod_eq_of_lt h3]
    · apply List.ext_getElem?
      intro i
      rw [List.getElem?_tail, abs_getElem? _ hinv', abs_getElem? f hh]
      simp only [Nat.mod_add_mod]
      by_cases hi : i < f.count - 1
      · simp [hi, show i + 1 < f.count by omega]
        congr 2; omega
      · simp [hi, show ¬ i + 1 < f.count by omega]

theorem abs_removeLast (f : Fifo α) (h : Inv f) :
    (removeLast f).2 = (abs f).getLast? ∧ abs (removeLast f).1 = (abs f).dropLast := by
  have hinv' := inv_removeLast f h
  unfold removeLast at hinv' ⊢
  by_cases hf : f.count = 0
  · simp [isEmpty, hf, abs_eq_nil f h hf]
  · simp only [isEmpty, beq_iff_eq, hf, if_false] at hinv' ⊢
    have hh := h
    obtain ⟨h1, h2, h3, h4, h5, h6⟩ := h
    have hwr : (f.wr + f.size - 1) % f.size = (f.rd + (f.count - 1)) % f.size := hinv'.2.2.2.2.2
    constructor
    · rw [List.getLast?_eq_getElem?, abs_length f hh, abs_getElem? f hh]
      simp [show f.count - 1 < f.count by omega, hwr]
    · apply List.ext_getElem?
      intro i
      rw [List.dropLast_eq_take, List.getElem?_take, abs_length f hh, abs_getElem? _ hinv', abs_getElem? f hh]
      simp only
      by_cases hi : i < f.count - 1
      · simp [hi, show i < f.count by omega]
      · simp [hi]

/-! ### size and count bookkeeping -/

@[simp] theorem size_add (f : Fifo α) (v : α) : (add f v).1.size = f.size := by
  unfold add; split <;> rfl
@[simp] theorem size_remove (f : Fifo α) : (remove f).1.size = f.size := by
  unfold remove; split <;> rfl
@[simp] theorem size_removeLast (f : Fifo α) : (removeLast f).1.size = f.size := by
  unfold removeLast; split <;> rfl
@[simp] theorem size_clear (f : Fifo α) : (Fifo.clear f).size = f.size := rfl
@[simp] theorem count_clear (f : Fifo α) : (Fifo.clear f).count = 0 := rfl
theorem count_remove (f : Fifo α) : (remove f).1.count = f.count - 1 := by
  unfold remove; split
  · rename_i h; simp [isEmpty] at h; simp [h]
  · rfl
theorem count_removeLast (f : Fifo α) : (removeLast f).1.count = f.count - 1 := by
  unfold removeLast; split
  · rename_i h; simp [isEmpty] at h; simp [h]
  · rfl

/-! ### ownership at list level -/

def idsOf (l : List Entry) : List Nat := l.filterMap (fun e => e.info.map (·.1))

def OwnedL (l : List Entry) (a : Alloc) : Prop :=
  (idsOf l).Nodup ∧ (∀ id, id ∈ idsOf l ↔ id ∈ a.live) ∧ a.live.Nodup ∧ a.doubleFree = false ∧
  (∀ id ∈ a.live, id < a.next)

theorem owned_iff (q : EQ) : EQ.Owned q ↔ OwnedL (Fifo.abs q.fifo) q.alloc := Iff.rfl

theorem idsOf_append (l1 l2 : List Entry) : idsOf (l1 ++ l2) = idsOf l1 ++ idsOf l2 := by
  simp [idsOf]

theorem ownedL_append_none (l : List Entry) (a : Alloc) (c : Int) (h : OwnedL l a) :
    OwnedL (l ++ [⟨c, none⟩]) a := by
  have : idsOf (l ++ [⟨c, none⟩]) = idsOf l := by simp [idsOf]
  unfold OwnedL; rw [this]; exact h

theorem ownedL_append_malloc (l : List Entry) (a : Alloc) (c : Int) (t : Bytes) (h : OwnedL l a) :
    OwnedL (l ++ [⟨c, some (a.next, t)⟩]) a.malloc.1 := by
  have : idsOf (l ++ [⟨c, some (a.next, t)⟩]) = idsOf l ++ [a.next] := by simp [idsOf]
  obtain ⟨h1, h2, h3, h4, h5⟩ := h
  have hn : a.next ∉ a.live := fun hm => Nat.lt_irrefl _ (h5 _ hm)
  unfold OwnedL; rw [this]
  simp only [Alloc.malloc]
  refine ⟨?_, ?_, ?_, h4, ?_⟩
  · grind
  · grind
  · grind
  · intro id hid
    simp at hid
    rcases hid with rfl | hid
    · omega
    · have := h5 id hid; omega

theorem ownedL_bump (l : List Entry) (a : Alloc) (t : Bytes) (h : OwnedL l a) :
    OwnedL l (a.malloc.1.free (some (a.next, t))) := by
  obtain ⟨h1, h2, h3, h4, h5⟩ := h
  have hn : a.next ∉ a.live := fun hm => Nat.lt_irrefl _ (h5 _ hm)
  have : a.malloc.1.free (some (a.next, t)) = { a with next := a.next + 1 } := by
    simp [Alloc.malloc, Alloc.free]
  rw [this]
  exact ⟨h1, h2, h3, h4, fun id hid => by have := h5 id hid; simp; omega⟩

theorem ownedL_remove_free (l1 l2 : List Entry) (e : Entry) (a : Alloc) (h : OwnedL (l1 ++ e :: l2) a) :
    OwnedL (l1 ++ l2) (a.free e.info) := by
  obtain ⟨c, info⟩ := e
  cases info with
  | none =>
    have : idsOf (l1 ++ ⟨c, none⟩ :: l2) = idsOf (l1 ++ l2) := by simp [idsOf]
    unfold OwnedL at h; rw [this] at h; exact h
  | some p =>
    obtain ⟨id, t⟩ := p
    have e1 : idsOf (l1 ++ ⟨c, some (id, t)⟩ :: l2) = idsOf l1 ++ id :: idsOf l2 := by simp [idsOf]
    have e2 : idsOf (l1 ++ l2) = idsOf l1 ++ idsOf l2 := idsOf_append _ _
    obtain ⟨h1, h2, h3, h4, h5⟩ := h
    rw [e1] at h1 h2
    have hm : id ∈ a.live := (h2 id).mp (by simp)
    have hf : a.free (some (id, t)) = { a with live := a.live.erase id } := by
      simp [Alloc.free, hm]
    unfold OwnedL; rw [e2, hf]
    refine ⟨?_, ?_, h3.erase _, h4, ?_⟩
    · grind
    · intro x
      simp only [h3.mem_erase_iff]
      have := h2 x
      grind
    · intro x hx
      exact h5 x (List.mem_of_mem_erase hx)

/-! ### the error-queue operations in normal form -/

/-- allocator effect and stored pointer of a push -/
def pushAlloc (a : Alloc) (w : Bool) (info : Option Bytes) (l : Nat) (ok : Bool) : Alloc × Info :=
  match specText w info l ok with
  | some t => (a.malloc.1, some (a.next, t))
  | none => (a, none)

theorem push_eq (q : EQ) (w : Bool) (c : Int) (info : Option Bytes) (l : Nat) (ok : Bool) :
    q.push w c info l ok =
      if q.fifo.count = q.fifo.size then
        (⟨(add (removeLast q.fifo).1 ⟨overflowCode, none⟩).1,
          ((pushAlloc q.alloc w info l ok).1.free (pushAlloc q.alloc w info l ok).2).free
            (match (removeLast q.fifo).2 with
              | some e => e.info
              | none => (pushAlloc q.alloc w info l ok).2)⟩, [c, overflowCode])
      else (⟨(add q.fifo ⟨c, (pushAlloc q.alloc w info l ok).2⟩).1, (pushAlloc q.alloc w info l ok).1⟩, [c]) := by
  cases info with
  | none =>
    by_cases hf : q.fifo.count = q.fifo.size <;>
      (simp [EQ.push, pushAlloc, specText, add, isFull, hf]; try rfl)
  | some s =>
    by_cases hf : q.fifo.count = q.fifo.size <;> by_cases hw : (w && ok) = true <;>
      (simp [EQ.push, pushAlloc, specText, add, isFull, hf, hw, Alloc.malloc]; try rfl)

theorem sysErrNext_eq (q : EQ) :
    q.sysErrNext = (⟨(remove q.fifo).1, q.alloc.free ((remove q.fifo).2.getD ⟨0, none⟩).info⟩,
      (remove q.fifo).2.getD ⟨0, none⟩) := rfl

theorem clear_eq (q : EQ) :
    q.clear = ⟨Fifo.clear (EQ.clearLoop q.fifo.count q.fifo q.alloc).1,
      (EQ.clearLoop q.fifo.count q.fifo q.alloc).2⟩ := rfl

/-! ### fifo-level facts used by push -/

theorem abs_add_notfull (f : Fifo α) (v : α) (h : Inv f) (hf : f.count ≠ f.size) :
    abs (add f v).1 = abs f ++ [v] := by
  have := (abs_add f v h).2
  rw [abs_length f h] at this
  have hlt : f.count < f.size := by have := h.2.2.2.2.1; omega
  simpa [hlt] using this

theorem abs_overflow (f : Fifo α) (v : α) (h : Inv f) (hf : f.count = f.size) :
    abs (add (removeLast f).1 v).1 = (abs f).dropLast ++ [v] := by
  have hr := inv_removeLast f h
  rw [abs_add_notfull _ v hr, (abs_removeLast f h).2]
  rw [count_removeLast, size_removeLast]
  have := h.1; omega

theorem removeLast_some (f : Fifo α) (h : Inv f) (hf : f.count ≠ 0) :
    ∃ e, (removeLast f).2 = some e ∧ abs f = (abs f).dropLast ++ [e] := by
  have hl := abs_length f h
  have hne : abs f ≠ [] := by intro h0; rw [h0] at hl; simp at hl; omega
  refine ⟨(abs f).getLast hne, ?_, (List.dropLast_concat_getLast hne).symm⟩
  rw [(abs_removeLast f h).1, List.getLast?_eq_some_getLast hne]

theorem remove_some (f : Fifo α) (h : Inv f) (hf : f.count ≠ 0) :
    ∃ e, (remove f).2 = some e ∧ abs f = e :: (abs f).tail := by
  have hl := abs_length f h
  rw [(abs_remove f h).1]
  cases hab : abs f with
  | nil => rw [hab] at hl; simp at hl; omega
  | cons e t => exact ⟨e, rfl, rfl⟩

theorem remove_none (f : Fifo α) (hf : f.count = 0) : remove f = (f, none) := by
  simp [remove, isEmpty, hf]

/-! ### clear loop -/

theorem clearLoop_inv (n : Nat) (f : Fifo Entry) (a : Alloc) (h : Inv f) :
    Inv (EQ.clearLoop n f a).1 ∧ (EQ.clearLoop n f a).1.size = f.size := by
  induction n generalizing f a with
  | zero => exact ⟨h, rfl⟩
  | succ n ih =>
    unfold EQ.clearLoop
    have hi := inv_remove f h
    have hs := size_remove f
    cases hr : remove f with
    | mk f' o =>
      rw [hr] at hi hs
      cases o with
      | none => exact ⟨hi, hs⟩
      | some e =>
        have := ih f' (a.free e.info) hi
        exact ⟨this.1, this.2.trans hs⟩

theorem clearLoop_owned (n : Nat) (f : Fifo Entry) (a : Alloc) (h : Inv f) (hc : f.count = n)
    (ho : OwnedL (abs f) a) :
    (EQ.clearLoop n f a).1.count = 0 ∧ OwnedL (abs (EQ.clearLoop n f a).1) (EQ.clearLoop n f a).2 := by
  induction n generalizing f a with
  | zero => exact ⟨hc, ho⟩
  | succ n ih =>
    unfold EQ.clearLoop
    obtain ⟨e, he, hab⟩ := remove_some f h (by omega)
    have hi := inv_remove f h
    have hcnt := count_remove f
    have htl := (abs_remove f h).2
    cases hr : remove f with
    | mk f' o =>
      rw [hr] at hi hcnt htl he
      simp only at he hi hcnt htl
      subst he
      simp only
      apply ih f' (a.free e.info) hi (by omega)
      rw [htl]
      rw [hab] at ho
      exact ownedL_remove_free [] _ e a ho

/-! ### refinement -/

def toSpec (e : Entry) : Int × Option Bytes := (e.code, e.info.map (·.2))

theorem eqabs_eq (q : EQ) : EQ.abs q = (abs q.fifo).map toSpec := rfl

theorem pushAlloc_text (a : Alloc) (w : Bool) (info : Option Bytes) (l : Nat) (ok : Bool) :
    (pushAlloc a w info l ok).2.map (·.2) = specText w info l ok := by
  unfold pushAlloc; split <;> simp [*]

def R (n : Nat) (q : EQ) (s : SpecQ) : Prop := Fifo.Inv q.fifo ∧ q.fifo.size = n ∧ EQ.abs q = s

theorem step_refines (n : Nat) (w : Bool) (q : EQ) (s : SpecQ) (op : Op) (h : R n q s) :
    (EQ.step w q op).2 = (specStep n w s op).2 ∧ R n (EQ.step w q op).1 (specStep n w s op).1 := by
  obtain ⟨hinv, hsz, habs⟩ := h
  have hlen : s.length = q.fifo.count := by rw [← habs, eqabs_eq, List.length_map, abs_length _ hinv]
  cases op with
  | push c i l ok =>
    simp only [EQ.step, specStep, push_eq]
    by_cases hf : q.fifo.count = q.fifo.size
    · have hnl : ¬ s.length < n := by omega
      simp only [hf, if_true, hnl, if_false, true_and, specPush]
      refine ⟨inv_add _ _ (inv_removeLast _ hinv), by simpa using hsz, ?_⟩
      rw [eqabs_eq]
      simp only
      rw [abs_overflow _ _ hinv hf, ← habs, eqabs_eq]
      simp [toSpec, List.map_dropLast]
    · have hnl : s.length < n := by have := hinv.2.2.2.2.1; omega
      simp only [hf, if_false, hnl, if_true, true_and, specPush]
      refine ⟨inv_add _ _ hinv, by simpa using hsz, ?_⟩
      rw [eqabs_eq]
      simp only
      rw [abs_add_notfull _ _ hinv hf, ← habs, eqabs_eq]
      simp [toSpec, pushAlloc_text]
  | pop =>
    simp only [EQ.step, specStep, specPop, sysErrNext_eq]
    have hr := abs_remove q.fifo hinv
    refine ⟨?_, inv_remove _ hinv, by simpa using hsz, ?_⟩
    · rw [hr.1, ← habs, eqabs_eq]
      cases abs q.fifo <;> simp [toSpec]
    · rw [eqabs_eq]; simp only; rw [hr.2, ← habs, eqabs_eq]; simp
  | sysErr =>
    simp only [EQ.step, specStep, specPop, sysErrNext_eq]
    have hr := abs_remove q.fifo hinv
    refine ⟨?_, inv_remove _ hinv, by simpa using hsz, ?_⟩
    · rw [hr.1, ← habs, eqabs_eq]
      cases abs q.fifo <;> simp [toSpec]
    · rw [eqabs_eq]; simp only; rw [hr.2, ← habs, eqabs_eq]; simp
  | clear =>
    simp only [EQ.step, specStep, clear_eq, true_and]
    have hc := clearLoop_inv q.fifo.count q.fifo q.alloc hinv
    refine ⟨inv_clear _ hc.1, by simpa [hc.2] using hsz, ?_⟩
    rw [eqabs_eq]; simp only; rw [abs_clear]; rfl
  | count =>
    simp only [EQ.step, specStep, EQ.count, hlen, true_and]
    exact ⟨hinv, hsz, habs⟩

theorem run_nil {σ : Type} (step : σ → Op → σ × Obs) (s : σ) : run step s [] = (s, []) := rfl
theorem run_cons {σ : Type} (step : σ → Op → σ × Obs) (s : σ) (op : Op) (ops : List Op) :
    run step s (op :: ops) =
      ((run step (step s op).1 ops).1, (step s op).2 :: (run step (step s op).1 ops).2) := rfl

theorem run_refines (n : Nat) (w : Bool) (ops : List Op) (q : EQ) (s : SpecQ) (h : R n q s) :
    (run (EQ.step w) q ops).2 = (run (specStep n w) s ops).2 ∧
    R n (run (EQ.step w) q ops).1 (run (specStep n w) s ops).1 := by
  induction ops generalizing q s with
  | nil => exact ⟨rfl, h⟩
  | cons op ops ih =>
    have hs := step_refines n w q s op h
    have := ih _ _ hs.2
    simp only [run_cons]
    exact ⟨by rw [hs.1, this.1], this.2⟩

theorem queue_refines (n : Nat) (hn : 1 ≤ n) (withInfo : Bool) (ops : List Op) :
    (run (EQ.step withInfo) (EQ.init n) ops).2 = (run (specStep n withInfo) [] ops).2 ∧
    EQ.abs (run (EQ.step withInfo) (EQ.init n) ops).1 = (run (specStep n withInfo) [] ops).1 := by
  have h0 : R n (EQ.init n) [] :=
    ⟨inv_init n _ hn, rfl, by rw [eqabs_eq]; simp [EQ.init, abs_init]⟩
  have := run_refines n withInfo ops _ _ h0
  exact ⟨this.1, this.2.2.2⟩

/-! ### ownership -/

def P (n : Nat) (q : EQ) : Prop := Fifo.Inv q.fifo ∧ q.fifo.size = n ∧ OwnedL (abs q.fifo) q.alloc

theorem step_owned (n : Nat) (w : Bool) (q : EQ) (op : Op) (h : P n q) : P n (EQ.step w q op).1 := by
  obtain ⟨hinv, hsz, ho⟩ := h
  cases op with
  | push c i l ok =>
    simp only [EQ.step, push_eq]
    by_cases hf : q.fifo.count = q.fifo.size
    · simp only [hf, if_true]
      refine ⟨inv_add _ _ (inv_removeLast _ hinv), by simpa using hsz, ?_⟩
      simp only
      obtain ⟨e, he, hab⟩ := removeLast_some q.fifo hinv (by have := hinv.1; omega)
      rw [abs_overflow _ _ hinv hf, he]
      simp only
      apply ownedL_append_none
      have hb : OwnedL (abs q.fifo) ((pushAlloc q.alloc w i l ok).1.free (pushAlloc q.alloc w i l ok).2) := by
        unfold pushAlloc; split
        · exact ownedL_bump _ _ _ ho
        · exact ho
      rw [hab] at hb
      simpa using ownedL_remove_free _ [] e _ hb
    · simp only [hf, if_false]
      refine ⟨inv_add _ _ hinv, by simpa using hsz, ?_⟩
      simp only
      rw [abs_add_notfull _ _ hinv hf]
      unfold pushAlloc; split
      · exact ownedL_append_malloc _ _ _ _ ho
      · exact ownedL_append_none _ _ _ ho
  | pop =>
    simp only [EQ.step, sysErrNext_eq]
    refine ⟨inv_remove _ hinv, by simpa using hsz, ?_⟩
    simp only
    by_cases hc : q.fifo.count = 0
    · rw [remove_none _ hc]; exact ho
    · obtain ⟨e, he, hab⟩ := remove_some q.fifo hinv hc
      rw [(abs_remove _ hinv).2, he]
      rw [hab] at ho
      exact ownedL_remove_free [] _ e _ ho
  | sysErr =>
    simp only [EQ.step, sysErrNext_eq]
    refine ⟨inv_remove _ hinv, by simpa using hsz, ?_⟩
    simp only
    by_cases hc : q.fifo.count = 0
    · rw [remove_none _ hc]; exact ho
    · obtain ⟨e, he, hab⟩ := remove_some q.fifo hinv hc
      rw [(abs_remove _ hinv).2, he]
      rw [hab] at ho
      exact ownedL_remove_free [] _ e _ ho
  | clear =>
    simp only [EQ.step, clear_eq]
    have hc := clearLoop_inv q.fifo.count q.fifo q.alloc hinv
    have hw := clearLoop_owned q.fifo.count q.fifo q.alloc hinv rfl ho
    refine ⟨inv_clear _ hc.1, by simpa [hc.2] using hsz, ?_⟩
    simp only
    rw [abs_clear, ← abs_eq_nil _ hc.1 hw.1]
    exact hw.2
  | count => exact ⟨hinv, hsz, ho⟩

theorem run_owned (n : Nat) (w : Bool) (ops : List Op) (q : EQ) (h : P n q) :
    P n (run (EQ.step w) q ops).1 := by
  induction ops generalizing q with
  | nil => exact h
  | cons op ops ih =>
    simp only [run_cons]
    exact ih _ (step_owned n w q op h)

theorem queue_owned (n : Nat) (hn : 1 ≤ n) (withInfo : Bool) (ops : List Op) :
    let q := (run (EQ.step withInfo) (EQ.init n) ops).1
    EQ.Owned q ∧ (EQ.abs q = [] → q.alloc.live = []) := by
  intro q
  have h0 : P n (EQ.init n) := by
    refine ⟨inv_init n _ hn, rfl, ?_⟩
    simp [EQ.init, abs_init, OwnedL, idsOf]
  have hp : P n q := run_owned n withInfo ops _ h0
  refine ⟨(owned_iff q).mpr hp.2.2, ?_⟩
  intro he
  have hnil : abs q.fifo = [] := by simpa [eqabs_eq] using he
  have hiff := hp.2.2.2.1
  rw [hnil] at hiff
  apply List.eq_nil_iff_forall_not_mem.mpr
  intro id hid
  have := (hiff id).mpr hid
  simp [idsOf] at this

end ScpiVerif.Lemmas.Fifo
