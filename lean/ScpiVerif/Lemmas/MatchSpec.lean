/-
Spec side of the C03 proof: `splitColon`, and `accepts` in terms of the list-level walker on the
mnemonics the model sees.
-/
import ScpiVerif.Lemmas.MatchTop

namespace ScpiVerif.Lemmas.Match
open ScpiVerif ScpiVerif.Match ScpiVerif.Spec.Pattern
open ScpiVerif.Lexer (Bytes isDigit isLower isUpper isAlpha)

theorem splitColon_go (bs : Bytes) :
    ∀ (cur : Bytes) (acc : List Bytes), (58 : UInt8) ∉ cur →
      ∃ m ms, splitColon.go bs cur acc = acc.reverse ++ (m :: ms) ∧
        cur.reverse ++ bs = m ++ hdrRest ms ∧ ∀ x ∈ m :: ms, (58 : UInt8) ∉ x := by
  induction bs with
  | nil =>
    intro cur acc hcur
    refine ⟨cur.reverse, [], by simp [splitColon.go], by simp [hdrRest], ?_⟩
    intro x hx; simp at hx; subst hx; simpa using hcur
  | cons b bs ih =>
    intro cur acc hcur
    by_cases hb : b = 58
    · subst hb
      obtain ⟨m', ms', h1, h2, h3⟩ := ih [] (cur.reverse :: acc) (by simp)
      refine ⟨cur.reverse, m' :: ms', ?_, ?_, ?_⟩
      · simp [splitColon.go, h1]
      · simp at h2; simp [hdrRest, h2]
      · intro x hx
        rcases List.mem_cons.mp hx with rfl | hx
        · simpa using hcur
        · exact h3 x hx
    · obtain ⟨m', ms', h1, h2, h3⟩ := ih (b :: cur) acc (by simp [hcur, Ne.symm hb])
      refine ⟨m', ms', ?_, ?_, h3⟩
      · simp [splitColon.go, hb, h1]
      · simpa using h2

/-- `splitColon` cuts the text at every ':' -/
theorem splitColon_spec (s : Bytes) :
    ∃ m ms, splitColon s = m :: ms ∧ s = m ++ hdrRest ms ∧ ∀ x ∈ m :: ms, (58 : UInt8) ∉ x := by
  obtain ⟨m, ms, h1, h2, h3⟩ := splitColon_go s [] [] (by simp)
  exact ⟨m, ms, by simpa [splitColon] using h1, by simpa using h2, h3⟩

theorem hdrRest_cons (m : Bytes) (ms : List Bytes) : hdrRest (m :: ms) = 58 :: (m ++ hdrRest ms) := rfl

theorem mem_hdr_of_mem_piece (m : Bytes) (ms : List Bytes) (x : Bytes) (hx : x ∈ m :: ms) (b : UInt8)
    (hb : b ∈ x) : b ∈ m ++ hdrRest ms := by
  induction ms generalizing m with
  | nil => simp at hx; subst hx; simp [hdrRest, hb]
  | cons m' ms' ih =>
    rcases List.mem_cons.mp hx with rfl | hx
    · simp [hb]
    · have := ih m' hx
      rw [hdrRest_cons]
      exact List.mem_append_right _ (List.mem_cons_of_mem _ this)

theorem piece_of_mem_hdr (m : Bytes) (ms : List Bytes) (b : UInt8) (hb : b ∈ m ++ hdrRest ms) (h58 : b ≠ 58) :
    ∃ x ∈ m :: ms, b ∈ x := by
  induction ms generalizing m with
  | nil => exact ⟨m, by simp, by simpa [hdrRest] using hb⟩
  | cons m' ms' ih =>
    rw [hdrRest_cons] at hb
    rcases List.mem_append.mp hb with h | h
    · exact ⟨m, by simp, h⟩
    · rcases List.mem_cons.mp h with h | h
      · exact absurd h h58
      · obtain ⟨x, hx, hbx⟩ := ih m' h
        exact ⟨x, List.mem_cons_of_mem _ hx, hbx⟩

/-- the readings the model looks for in a header body -/
def modelGreedy (kws : List Kw) (body : Bytes) : Option (List (Option Nat)) :=
  if body.headD 0 = 58 ∧ 2 ≤ body.length then
    (if (body.drop 1).headD 0 = 42 then none else greedy kws (splitColon (body.drop 1)))
  else greedy kws (splitColon body)

/-- keywords of a non-common pattern: made of keyword characters -/
theorem kw_unmatchable (kws : List Kw) (hkws : ∀ k ∈ kws, KwOK k) (m : Bytes) (b : UInt8) (hb : b ∈ m)
    (hnk : isKwChar b = false) : ∀ k ∈ kws, kwMatch k m = none := by
  intro k hk
  have hok := hkws k hk
  cases hx : kwMatch k m with
  | none => rfl
  | some r =>
    have := kwMatch_chars k m r hok.chars
      (by rw [List.all_eq_true]; intro c hc
          exact List.all_eq_true.mp hok.chars c (hok.toW.short_mem c hc)) hx
    have := List.all_eq_true.mp this b hb
    rw [hnk] at this; exact absurd this (by simp)

/-- the empty mnemonic spells no keyword with a non-empty short form -/
theorem kwMatch_nil (k : Kw) (hk : KwOK k) (hs : k.short ≠ []) : kwMatch k [] = none := by
  have hl : k.long ≠ [] := hk.ne
  have h1 : ciEq [] k.long = false := by
    cases hkl : k.long with
    | nil => exact absurd hkl hl
    | cons a t => simp [ciEq]
  have h2 : ciEq [] k.short = false := by
    cases hks : k.short with
    | nil => exact absurd hks hs
    | cons a t => simp [ciEq]
  simp [kwMatch, h1, h2]

/-- a byte that is no keyword character (and no ':') makes the header unreadable -/
theorem greedy_none_of_bad_byte (kws : List Kw) (hkws : ∀ k ∈ kws, KwOK k) (X : Bytes) (b : UInt8)
    (hb : b ∈ X) (h58 : b ≠ 58) (hnk : isKwChar b = false) : greedy kws (splitColon X) = none := by
  obtain ⟨m, ms, h1, h2, _⟩ := splitColon_spec X
  rw [h2] at hb
  obtain ⟨x, hx, hbx⟩ := piece_of_mem_hdr m ms b hb h58
  rw [h1]
  exact greedy_none_of_unmatchable kws (m :: ms) x hx (kw_unmatchable kws hkws x b hbx hnk)

theorem greedy_none_of_nil_piece (kws : List Kw) (hkws : ∀ k ∈ kws, KwOK k) (hs : ∀ k ∈ kws, k.short ≠ [])
    (ms : List Bytes) (h : [] ∈ ms) : greedy kws ms = none :=
  greedy_none_of_unmatchable kws ms [] h (fun k hk => kwMatch_nil k (hkws k hk) (hs k hk))

/-- the spec's treatment of a header body is what the model looks for -/
theorem body_spec (kws : List Kw) (hwf : wellFormed kws = true) (hkws : ∀ k ∈ kws, KwOK k)
    (body : Bytes) (hs : (∀ k ∈ kws, k.short ≠ []) ∨ (body ≠ [] ∧ body ≠ [58])) :
    (let b' := if body.head? = some 58 then body.drop 1 else body
     if b'.isEmpty then [] else solutions kws (splitColon b')) = (modelGreedy kws body).toList := by
  match body with
  | [] =>
    have hs : ∀ k ∈ kws, k.short ≠ [] := by
      rcases hs with h | h
      · exact h
      · exact absurd rfl h.1
    have : greedy kws (splitColon []) = none :=
      greedy_none_of_nil_piece kws hkws hs _ (by simp [splitColon, splitColon.go])
    simp [modelGreedy, this]
  | [b] =>
    by_cases hb : b = 58
    · subst hb
      have hs : ∀ k ∈ kws, k.short ≠ [] := by
        rcases hs with h | h
        · exact h
        · exact absurd rfl h.2
      have : greedy kws (splitColon [58]) = none :=
        greedy_none_of_nil_piece kws hkws hs _ (by simp [splitColon, splitColon.go])
      simp [modelGreedy, this]
    · simp [modelGreedy, hb, greedy_eq_spec kws hwf]
  | b :: b2 :: rest =>
    by_cases hb : b = 58
    · subst hb
      by_cases hb2 : b2 = 42
      · subst hb2
        have : greedy kws (splitColon (42 :: rest)) = none :=
          greedy_none_of_bad_byte kws hkws _ 42 (by simp) (by decide) (by decide)
        simp [modelGreedy, greedy_eq_spec kws hwf, this]
      · simp [modelGreedy, hb2, greedy_eq_spec kws hwf]
    · simp [modelGreedy, hb, greedy_eq_spec kws hwf]

/-- `accepts` of a non-common pattern in terms of what the model looks for -/
theorem accepts_model (p : Pat) (hc : p.common = false) (hwf : wellFormed p.kws = true)
    (hkws : ∀ k ∈ p.kws, KwOK k) (hdr : Bytes)
    (hs : (∀ k ∈ p.kws, k.short ≠ []) ∨ (hdr ≠ [] ∧ hdr ≠ [58] ∧ hdr ≠ [63] ∧ hdr ≠ [58, 63])) :
    (p.query = true → ∀ body, hdr = body ++ [63] → accepts p hdr = (modelGreedy p.kws body).toList) ∧
    (p.query = true → hdr.getLast? ≠ some 63 → accepts p hdr = []) ∧
    (p.query = false → accepts p hdr = (modelGreedy p.kws hdr).toList) := by
  refine ⟨?_, ?_, ?_⟩
  · intro hq body hb
    subst hb
    have := body_spec p.kws hwf hkws body (by
      rcases hs with h | h
      · exact Or.inl h
      · right; constructor
        · intro h0; subst h0; exact h.2.2.1 rfl
        · intro h0; subst h0; exact h.2.2.2 rfl)
    simp only [accepts, hc, hq] at this ⊢
    simpa using this
  · intro hq hl
    have : (hdr.getLast? == some 63) = false := by simpa using hl
    simp [accepts, this, hq]
  · intro hq
    by_cases hl : hdr.getLast? = some 63
    · -- header is a query, pattern is not: the '?' makes the header unreadable
      have hacc : accepts p hdr = [] := by simp [accepts, hl, hq]
      rw [hacc]
      have h63 : (63 : UInt8) ∈ hdr := List.mem_of_getLast? hl
      have hmg : modelGreedy p.kws hdr = none := by
        unfold modelGreedy
        split
        · rename_i h2
          split
          · rfl
          · apply greedy_none_of_bad_byte p.kws hkws _ 63 _ (by decide) (by decide)
            -- the last byte survives dropping the first
            obtain ⟨body, rfl⟩ : ∃ body, hdr = body ++ [63] := by
              have := List.getLast?_eq_some_iff.mp hl
              obtain ⟨ys, hys⟩ := this; exact ⟨ys, hys⟩
            cases body with
            | nil => simp at h2
            | cons a t => simp
        · exact greedy_none_of_bad_byte p.kws hkws _ 63 h63 (by decide) (by decide)
      rw [hmg]; rfl
    · have : (hdr.getLast? == some 63) = false := by simpa using hl
      have hb := body_spec p.kws hwf hkws hdr (by
        rcases hs with h | h
        · exact Or.inl h
        · exact Or.inr ⟨h.1, h.2.1⟩)
      simp only [accepts, hc, hq, this] at hb ⊢
      simpa using hb

end ScpiVerif.Lemmas.Match
