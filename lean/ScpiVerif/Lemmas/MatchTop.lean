/-
`matchCommand` as a composition of stages, and the evaluation of the stages before the main loop
(C03 proof, text level).
-/
import ScpiVerif.Lemmas.MatchMain
import ScpiVerif.Lemmas.MatchParse

namespace ScpiVerif.Lemmas.Match
open ScpiVerif ScpiVerif.Match ScpiVerif.Spec.Pattern
open ScpiVerif.Lexer (Bytes isDigit isLower isUpper isAlpha)

/-- "both commands are query commands?" -/
def qStage (pattern cmd : Bytes) (len : Nat) : Option (Int × Nat) :=
  let plen : Int := (pattern.takeWhile (· ≠ 0)).length
  let clen := min ((cmd.takeWhile (· ≠ 0)).length) len
  if rd pattern (plen.toNat - 1) == 63 then
    if clen > 0 ∧ rd cmd (clen - 1) == 63 then some (plen - 1, clen - 1) else none
  else some (plen, clen)

/-- skip the first '[' and ':' of the pattern -/
def patPrelude (pattern : Bytes) (st : MState) : MState :=
  let st : MState := if rd pattern st.pp == 91 then { st with pp := st.pp + 1, pl := st.pl - 1, brackets := 1 } else st
  if rd pattern st.pp == 58 then { st with pp := st.pp + 1, pl := st.pl - 1 } else st

/-- skip the leading ':' of the header; ":*" is refused -/
def cmdPrelude (cmd : Bytes) (st : MState) : Option MState :=
  if rd cmd st.cp == 58 then
    if st.cl ≥ 2 then
      if rd cmd (st.cp + 1) != 42 then some { st with cp := st.cp + 1, cl := st.cl - 1 } else none
    else some st
  else some st

/-- the main loop, unless the header prelude refused the header -/
def runStage (pattern cmd : Bytes) (hn : Bool) (dflt : Int) (fuel : Nat) (nums : List Int) (oob0 : Bool)
    (o : Option MState) : Bool × List Int × Bool :=
  match o with
  | none => (false, nums, oob0)
  | some st =>
    ((mainLoop pattern cmd hn dflt fuel st).1, (mainLoop pattern cmd hn dflt fuel st).2.numbers,
     (mainLoop pattern cmd hn dflt fuel st).2.oob)

/-- everything after the query check -/
def bodyStage (pattern cmd : Bytes) (numbers : Option (List Int)) (dflt : Int) (plen : Int) (clen : Nat) :
    Bool × List Int × Bool :=
  let st := patPrelude pattern ⟨0, plen, 0, clen, 0, numbers.getD [], 0, plen == 0 ∧ pattern.isEmpty⟩
  runStage pattern cmd numbers.isSome dflt (pattern.length + cmd.length + 4) (numbers.getD []) st.oob
    (cmdPrelude cmd st)

theorem matchCommand_stages (pattern cmd : Bytes) (len : Nat) (numbers : Option (List Int)) (dflt : Int) :
    matchCommand pattern cmd len numbers dflt =
      match qStage pattern cmd len with
      | none => (false, numbers.getD [], ((pattern.takeWhile (· ≠ 0)).length : Int) == 0)
      | some (plen, clen) => bodyStage pattern cmd numbers dflt plen clen := by
  unfold matchCommand qStage bodyStage runStage patPrelude cmdPrelude
  rfl

theorem takeWhile_nz (s : Bytes) (h : ∀ b ∈ s, b ≠ 0) : s.takeWhile (· ≠ 0) = s := by
  induction s with
  | nil => rfl
  | cons a s ih =>
    rw [List.takeWhile_cons, if_pos (by simpa using h a (by simp)), ih (fun b hb => h b (by simp [hb]))]

theorem rd_last (b : Bytes) (x : UInt8) : rd (b ++ [x]) ((b ++ [x]).length - 1) = x := by
  have : (b ++ [x]).length - 1 = b.length + 0 := by simp
  rw [this, rd_app_right]; simp [rd]

theorem qStage_eval (pat hdr : Bytes) (hpz : ∀ b ∈ pat, b ≠ 0) (hhz : ∀ b ∈ hdr, b ≠ 0) :
    qStage pat hdr hdr.length =
      if rd pat (pat.length - 1) == 63 then
        (if hdr.length > 0 ∧ rd hdr (hdr.length - 1) == 63 then some ((pat.length : Int) - 1, hdr.length - 1)
         else none)
      else some ((pat.length : Int), hdr.length) := by
  unfold qStage
  rw [takeWhile_nz pat hpz, takeWhile_nz hdr hhz]
  simp

/-- the pattern prelude on the three ways to write the first keyword -/
theorem patPrelude_item (pat : Bytes) (k : Kw) (hk : KwW k) (rest : Bytes) (pl : Int) (cl : Nat)
    (nums : List Int) (oob : Bool) (hpat : pat = item k ++ rest) :
    patPrelude pat ⟨0, pl, 0, cl, 0, nums, 0, oob⟩ =
      ⟨(item k).length - (keyText k ++ closeB k).length, pl - ((item k).length - (keyText k ++ closeB k).length : Nat),
        0, cl, brOf k, nums, 0, oob⟩ ∧
    pat.drop ((item k).length - (keyText k ++ closeB k).length) = keyText k ++ closeB k ++ rest := by
  subst hpat
  have hh := keyText_head hk (closeB k ++ rest)
  cases hopt : k.optional with
  | true =>
    simp [patPrelude, item, hopt, rd, closeB, brOf]
    omega
  | false =>
    simp [patPrelude, item, hopt, rd, closeB, brOf]

theorem patPrelude_bare (pat : Bytes) (k : Kw) (hk : KwW k) (hopt : k.optional = false) (rest : Bytes)
    (pl : Int) (cl : Nat) (nums : List Int) (oob : Bool) (hpat : pat = keyText k ++ rest) :
    patPrelude pat ⟨0, pl, 0, cl, 0, nums, 0, oob⟩ = ⟨0, pl, 0, cl, brOf k, nums, 0, oob⟩ := by
  subst hpat
  have hpos := keyText_pos hk
  cases hkt : keyText k with
  | nil => simp [hkt] at hpos
  | cons a t =>
    have := keyText_clean hk a (by simp [hkt])
    simp at this
    simp [patPrelude, rd, this, brOf, hopt]

/-- the header prelude: nothing to strip -/
theorem cmdPrelude_nostrip (hdr body ct : Bytes) (hhdr : hdr = body ++ ct) (hct : ct = [] ∨ ct = [63])
    (hb : body = [] ∨ body = [58] ∨ body.headD 0 ≠ 58)
    (pp : Nat) (pl : Int) (br : Int) (nums : List Int) (idx : Nat) (oob : Bool) :
    cmdPrelude hdr ⟨pp, pl, 0, body.length, br, nums, idx, oob⟩ =
      some ⟨pp, pl, 0, body.length, br, nums, idx, oob⟩ := by
  subst hhdr
  unfold cmdPrelude
  rcases hb with rfl | rfl | hb
  · rcases hct with rfl | rfl <;> simp [rd]
  · simp [rd]
  · cases body with
    | nil => rcases hct with rfl | rfl <;> simp [rd]
    | cons b t =>
      have : b ≠ 58 := by simpa using hb
      simp [rd, this]

/-- the header prelude refuses ":*" -/
theorem cmdPrelude_star (hdr body ct rest : Bytes) (hhdr : hdr = body ++ ct) (hb : body = 58 :: 42 :: rest)
    (pp : Nat) (pl : Int) (br : Int) (nums : List Int) (idx : Nat) (oob : Bool) :
    cmdPrelude hdr ⟨pp, pl, 0, body.length, br, nums, idx, oob⟩ = none := by
  subst hhdr; subst hb
  simp [cmdPrelude, rd]

/-- the header prelude strips the leading ':' -/
theorem cmdPrelude_strip (hdr body ct rest : Bytes) (b : UInt8) (hhdr : hdr = body ++ ct)
    (hb : body = 58 :: b :: rest) (hb42 : b ≠ 42)
    (pp : Nat) (pl : Int) (br : Int) (nums : List Int) (idx : Nat) (oob : Bool) :
    cmdPrelude hdr ⟨pp, pl, 0, body.length, br, nums, idx, oob⟩ =
      some ⟨pp, pl, 1, body.length - 1, br, nums, idx, oob⟩ := by
  subst hhdr; subst hb
  simp [cmdPrelude, rd, hb42]

end ScpiVerif.Lemmas.Match
