/-
Isolation (C09) for the C-library primitives of `Model/Prim.lean`: `strtol`/`strtoul`/`strtod`
read the memory only through `rd`, from an offset `≤ P`, and never step over a NUL, so on two
buffers that agree up to a NUL at `P` (`Agree P b1 b2`) they return the same result.
-/
import ScpiVerif.Lemmas.IsoBase
namespace ScpiVerif.Lemmas.Isolation
open ScpiVerif ScpiVerif.Lexer

section
variable {P : Nat} {b1 b2 : Bytes}

/-- a non-NUL byte read at `i ≤ P` leaves the next index `≤ P` -/
theorem Agree.rd_next (h : Agree P b1 b2) {i : Nat} (hi : i ≤ P) (hne : Prim.rd b1 i ≠ 0) :
    i + 1 ≤ P := h.lt_of_ne hi hne

theorem Agree.rd_next_of_eq (h : Agree P b1 b2) {i : Nat} (hi : i ≤ P) {c : UInt8}
    (hc : Prim.rd b1 i = c) (hc0 : c ≠ 0) : i + 1 ≤ P :=
  h.rd_next hi (by rw [hc]; exact hc0)

/-! ### scans -/

theorem skipSpaces_agree (h : Agree P b1 b2) : ∀ (f i : Nat), i ≤ P →
    Prim.skipSpaces b1 f i = Prim.skipSpaces b2 f i ∧ Prim.skipSpaces b1 f i ≤ P := by
  intro f
  induction f with
  | zero => intro i hi; exact ⟨rfl, hi⟩
  | succ f ih =>
    intro i hi
    simp only [Prim.skipSpaces]
    rw [← h.prd hi]
    by_cases hs : Prim.isSpace (Prim.rd b1 i) = true
    · have hne : Prim.rd b1 i ≠ 0 := by
        intro h0; rw [h0] at hs; exact absurd hs (by decide)
      simp only [hs, if_true]
      exact ih (i + 1) (h.rd_next hi hne)
    · simp only [hs]
      exact ⟨rfl, hi⟩

theorem run_agree (h : Agree P b1 b2) (p : UInt8 → Bool) (hp : p 0 = false) : ∀ (f i : Nat), i ≤ P →
    Prim.strtodLen.run b1 p f i = Prim.strtodLen.run b2 p f i ∧ Prim.strtodLen.run b1 p f i ≤ P := by
  intro f
  induction f with
  | zero => intro i hi; exact ⟨rfl, hi⟩
  | succ f ih =>
    intro i hi
    simp only [Prim.strtodLen.run]
    rw [← h.prd hi]
    by_cases hs : p (Prim.rd b1 i) = true
    · have hne : Prim.rd b1 i ≠ 0 := by
        intro h0; rw [h0, hp] at hs; exact absurd hs (by decide)
      simp only [hs, if_true]
      exact ih (i + 1) (h.rd_next hi hne)
    · simp only [hs]
      exact ⟨rfl, hi⟩

theorem digitsOfBase_agree (h : Agree P b1 b2) (base : Nat) : ∀ (f i acc : Nat), i ≤ P →
    Prim.digitsOfBase b1 base f i acc = Prim.digitsOfBase b2 base f i acc ∧
      (Prim.digitsOfBase b1 base f i acc).1 ≤ P := by
  intro f
  induction f with
  | zero => intro i acc hi; exact ⟨rfl, hi⟩
  | succ f ih =>
    intro i acc hi
    simp only [Prim.digitsOfBase]
    rw [← h.prd hi]
    cases hd : Prim.digitVal (Prim.rd b1 i) with
    | none => exact ⟨rfl, hi⟩
    | some d =>
      have hne : Prim.rd b1 i ≠ 0 := by
        intro h0
        have h00 : Prim.digitVal 0 = none := by decide
        rw [h0, h00] at hd; cases hd
      simp only
      by_cases hlt : d < base
      · simp only [hlt, if_true]
        exact ih (i + 1) _ (h.rd_next hi hne)
      · simp only [hlt, if_false]
        exact ⟨trivial, hi⟩

/-! ### `strtoSyntax` -/

def sgnStep (mem : Bytes) (i0 : Nat) : Bool × Nat :=
  if Prim.rd mem i0 == 45 then (true, i0 + 1) else if Prim.rd mem i0 == 43 then (false, i0 + 1) else (false, i0)

def pfxStep (mem : Bytes) (base i1 : Nat) : Nat :=
  if base == 16 ∧ Prim.rd mem i1 == 48 ∧ (Prim.rd mem (i1 + 1) == 120 ∨ Prim.rd mem (i1 + 1) == 88) ∧
     Prim.isHexDigit (Prim.rd mem (i1 + 2)) then i1 + 2 else i1

theorem strtoSyntax_eq (mem : Bytes) (off base : Nat) :
    Prim.strtoSyntax mem off base =
      (let s := sgnStep mem (Prim.skipSpaces mem (mem.length - off + 1) off)
       let i2 := pfxStep mem base s.2
       let r := Prim.digitsOfBase mem base (mem.length - i2 + 2) i2 0
       if r.1 == i2 then (0, false, 0) else (r.1 - off, s.1, r.2)) := rfl

theorem sgnStep_agree (h : Agree P b1 b2) {i0 : Nat} (hi : i0 ≤ P) :
    sgnStep b1 i0 = sgnStep b2 i0 ∧ (sgnStep b1 i0).2 ≤ P := by
  unfold sgnStep
  rw [← h.prd hi]
  by_cases h45 : Prim.rd b1 i0 = 45
  · have := h.rd_next_of_eq hi h45 (by decide)
    simp [h45, this]
  · by_cases h43 : Prim.rd b1 i0 = 43
    · have := h.rd_next_of_eq hi h43 (by decide)
      simp [h43, this]
    · simp [h45, h43, hi]

theorem pfxStep_agree (h : Agree P b1 b2) (base : Nat) {i1 : Nat} (hi : i1 ≤ P) :
    pfxStep b1 base i1 = pfxStep b2 base i1 ∧ pfxStep b1 base i1 ≤ P := by
  unfold pfxStep
  rw [← h.prd hi]
  by_cases h48 : Prim.rd b1 i1 = 48
  · have hi1 := h.rd_next_of_eq hi h48 (by decide)
    rw [← h.prd hi1]
    by_cases hx : Prim.rd b1 (i1 + 1) = 120 ∨ Prim.rd b1 (i1 + 1) = 88
    · have hi2 : i1 + 1 + 1 ≤ P := by
        rcases hx with hx | hx
        · exact h.rd_next_of_eq hi1 hx (by decide)
        · exact h.rd_next_of_eq hi1 hx (by decide)
      rw [← h.prd (i := i1 + 2) hi2]
      refine ⟨rfl, ?_⟩
      split
      · exact hi2
      · exact hi
    · simp [hx, hi]
  · simp [h48, hi]

theorem strtoSyntax_agree (h : Agree P b1 b2) (off base : Nat) (ho : off ≤ P) :
    Prim.strtoSyntax b1 off base = Prim.strtoSyntax b2 off base := by
  rw [strtoSyntax_eq, strtoSyntax_eq]
  have h0 := skipSpaces_agree h (b1.length - off + 1) off ho
  rw [← h.len, ← h0.1]
  have h1 := sgnStep_agree h h0.2
  rw [← h1.1]
  have h2 := pfxStep_agree h base h1.2
  simp only
  rw [← h2.1]
  have h3 := digitsOfBase_agree h base (b1.length - pfxStep b1 base (sgnStep b1
    (Prim.skipSpaces b1 (b1.length - off + 1) off)).2 + 2) _ 0 h2.2
  rw [← h3.1]

theorem strtoulTo_agree (h : Agree P b1 b2) (w off base : Nat) (ho : off ≤ P) :
    Prim.strtoulTo w b1 off base = Prim.strtoulTo w b2 off base := by
  unfold Prim.strtoulTo
  rw [strtoSyntax_agree h off base ho]

theorem strtolTo_agree (h : Agree P b1 b2) (w off base : Nat) (ho : off ≤ P) :
    Prim.strtolTo w b1 off base = Prim.strtolTo w b2 off base := by
  unfold Prim.strtolTo
  rw [strtoSyntax_agree h off base ho]

/-! ### `strtodLen` -/

def dLower (b : UInt8) : UInt8 := if 65 ≤ b ∧ b ≤ 90 then b + 32 else b

def dWord (mem : Bytes) (w : List UInt8) (at_ : Nat) : Bool :=
  (w.zipIdx).all (fun (c, k) => dLower (Prim.rd mem (at_ + k)) == c)

def dSign (mem : Bytes) (i0 : Nat) : Nat :=
  if Prim.rd mem i0 == 45 ∨ Prim.rd mem i0 == 43 then i0 + 1 else i0

def dFrac (mem : Bytes) (p : UInt8 → Bool) (fuel a : Nat) : Nat :=
  if Prim.rd mem a == 46 then Prim.strtodLen.run mem p fuel (a + 1) else a

def dExp (mem : Bytes) (c1 c2 : UInt8) (fuel b : Nat) : Nat :=
  if Prim.rd mem b == c1 ∨ Prim.rd mem b == c2 then
    let s := if Prim.rd mem (b + 1) == 45 ∨ Prim.rd mem (b + 1) == 43 then b + 2 else b + 1
    if isDigit (Prim.rd mem s) then Prim.strtodLen.run mem isDigit fuel s else b
  else b

def dHexCond (mem : Bytes) (i1 : Nat) : Prop :=
  Prim.rd mem i1 == 48 ∧ (Prim.rd mem (i1 + 1) == 120 ∨ Prim.rd mem (i1 + 1) == 88) ∧
    (Prim.isHexDigit (Prim.rd mem (i1 + 2)) ∨
      (Prim.rd mem (i1 + 2) == 46 ∧ Prim.isHexDigit (Prim.rd mem (i1 + 3))))

instance (mem : Bytes) (i1 : Nat) : Decidable (dHexCond mem i1) := by
  unfold dHexCond; infer_instance

def dBody (mem : Bytes) (off i1 : Nat) : Nat :=
  if dWord mem [105, 110, 102] i1 then
    (if dWord mem [105, 110, 102, 105, 110, 105, 116, 121] i1 then i1 + 8 else i1 + 3) - off
  else if dWord mem [110, 97, 110] i1 then i1 + 3 - off
  else
    let fuel := mem.length - i1 + 2
    if dHexCond mem i1 then
      let a := Prim.strtodLen.run mem Prim.isHexDigit fuel (i1 + 2)
      let b := dFrac mem Prim.isHexDigit fuel a
      dExp mem 112 80 fuel b - off
    else
      let a := Prim.strtodLen.run mem isDigit fuel i1
      let b := dFrac mem isDigit fuel a
      let nd := (a - i1) + (if Prim.rd mem a == 46 then b - (a + 1) else 0)
      if nd == 0 then 0 else dExp mem 101 69 fuel b - off

theorem strtodLen_eq (mem : Bytes) (off : Nat) :
    Prim.strtodLen mem off = dBody mem off (dSign mem (Prim.skipSpaces mem (mem.length - off + 1) off)) := rfl

theorem dLower_ne_zero {b c : UInt8} (hc : c ≠ 0) (h : (dLower b == c) = true) : b ≠ 0 := by
  intro h0
  subst h0
  have : dLower 0 = 0 := by decide
  rw [this] at h
  have h' : (0 : UInt8) = c := by simpa using h
  exact hc h'.symm

theorem wordAux_agree (h : Agree P b1 b2) (at_ : Nat) : ∀ (w : List UInt8) (k : Nat),
    (∀ c ∈ w, c ≠ 0) → at_ + k ≤ P →
    ((w.zipIdx k).all (fun (c, j) => dLower (Prim.rd b1 (at_ + j)) == c) =
      (w.zipIdx k).all (fun (c, j) => dLower (Prim.rd b2 (at_ + j)) == c)) ∧
    ((w.zipIdx k).all (fun (c, j) => dLower (Prim.rd b1 (at_ + j)) == c) = true →
      at_ + k + w.length ≤ P) := by
  intro w
  induction w with
  | nil => intro k _ hk; simp [hk]
  | cons c t ih =>
    intro k hw hk
    simp only [List.zipIdx_cons, List.all_cons, List.length_cons]
    rw [← h.prd hk]
    by_cases hc : (dLower (Prim.rd b1 (at_ + k)) == c) = true
    · have hne := dLower_ne_zero (hw c (by simp)) hc
      have hk1 : at_ + (k + 1) ≤ P := h.rd_next hk hne
      have := ih (k + 1) (fun c hc => hw c (by simp [hc])) hk1
      rw [hc]
      simp only [Bool.true_and]
      refine ⟨this.1, fun hh => ?_⟩
      have := this.2 hh
      omega
    · simp [hc]

theorem dWord_agree (h : Agree P b1 b2) (w : List UInt8) (hw : ∀ c ∈ w, c ≠ 0) {i : Nat} (hi : i ≤ P) :
    dWord b1 w i = dWord b2 w i ∧ (dWord b1 w i = true → i + w.length ≤ P) := by
  have := wordAux_agree h i w 0 hw (by omega)
  exact this

theorem dSign_agree (h : Agree P b1 b2) {i0 : Nat} (hi : i0 ≤ P) :
    dSign b1 i0 = dSign b2 i0 ∧ dSign b1 i0 ≤ P := by
  unfold dSign
  rw [← h.prd hi]
  by_cases h45 : Prim.rd b1 i0 = 45
  · have := h.rd_next_of_eq hi h45 (by decide)
    simp [h45, this]
  · by_cases h43 : Prim.rd b1 i0 = 43
    · have := h.rd_next_of_eq hi h43 (by decide)
      simp [h43, this]
    · simp [h45, h43, hi]

theorem dFrac_agree (h : Agree P b1 b2) (p : UInt8 → Bool) (hp : p 0 = false) (fuel : Nat) {a : Nat}
    (ha : a ≤ P) : dFrac b1 p fuel a = dFrac b2 p fuel a ∧ dFrac b1 p fuel a ≤ P := by
  unfold dFrac
  rw [← h.prd ha]
  by_cases h46 : Prim.rd b1 a = 46
  · have ha1 := h.rd_next_of_eq ha h46 (by decide)
    simp only [h46, beq_self_eq_true, if_true]
    exact run_agree h p hp fuel (a + 1) ha1
  · simp [h46, ha]

theorem dExp_agree (h : Agree P b1 b2) (c1 c2 : UInt8) (h1 : c1 ≠ 0) (h2 : c2 ≠ 0) (fuel : Nat) {b : Nat}
    (hb : b ≤ P) : dExp b1 c1 c2 fuel b = dExp b2 c1 c2 fuel b ∧ dExp b1 c1 c2 fuel b ≤ P := by
  unfold dExp
  rw [← h.prd hb]
  by_cases hc : Prim.rd b1 b = c1 ∨ Prim.rd b1 b = c2
  · have hb1 : b + 1 ≤ P := by
      rcases hc with hc | hc
      · exact h.rd_next_of_eq hb hc h1
      · exact h.rd_next_of_eq hb hc h2
    have hc' : (Prim.rd b1 b == c1) = true ∨ (Prim.rd b1 b == c2) = true := by simpa using hc
    simp only [hc', if_true]
    rw [← h.prd hb1]
    have hs : (if (Prim.rd b1 (b + 1) == 45) = true ∨ (Prim.rd b1 (b + 1) == 43) = true then b + 2
        else b + 1) ≤ P := by
      by_cases h45 : Prim.rd b1 (b + 1) = 45
      · have := h.rd_next_of_eq hb1 h45 (by decide)
        simp [h45]; omega
      · by_cases h43 : Prim.rd b1 (b + 1) = 43
        · have := h.rd_next_of_eq hb1 h43 (by decide)
          simp [h43]; omega
        · simp [h45, h43, hb1]
    generalize (if (Prim.rd b1 (b + 1) == 45) = true ∨ (Prim.rd b1 (b + 1) == 43) = true then b + 2
        else b + 1) = s at hs
    rw [← h.prd hs]
    by_cases hd : isDigit (Prim.rd b1 s) = true
    · simp only [hd, if_true]
      exact run_agree h isDigit (by decide) fuel s hs
    · simp [hd, hb]
  · have hc' : ¬ ((Prim.rd b1 b == c1) = true ∨ (Prim.rd b1 b == c2) = true) := by simpa using hc
    simp only [hc', if_false]
    exact ⟨trivial, hb⟩

theorem dHexCond_agree (h : Agree P b1 b2) {i1 : Nat} (hi : i1 ≤ P) :
    (dHexCond b1 i1 ↔ dHexCond b2 i1) ∧ (dHexCond b1 i1 → i1 + 2 ≤ P) := by
  unfold dHexCond
  rw [← h.prd hi]
  by_cases h48 : Prim.rd b1 i1 = 48
  · have hi1 := h.rd_next_of_eq hi h48 (by decide)
    rw [← h.prd hi1]
    by_cases hx : Prim.rd b1 (i1 + 1) = 120 ∨ Prim.rd b1 (i1 + 1) = 88
    · have hi2 : i1 + 2 ≤ P := by
        rcases hx with hx | hx
        · exact h.rd_next_of_eq hi1 hx (by decide)
        · exact h.rd_next_of_eq hi1 hx (by decide)
      rw [← h.prd hi2]
      by_cases h46 : Prim.rd b1 (i1 + 2) = 46
      · have hi3 : i1 + 3 ≤ P := h.rd_next_of_eq hi2 h46 (by decide)
        rw [← h.prd hi3]
        exact ⟨Iff.rfl, fun _ => hi2⟩
      · simp [h46, hi2]
    · simp [hx]
  · simp [h48]

theorem dBody_hex_agree (h : Agree P b1 b2) (off : Nat) (ho : off ≤ P) (fuel : Nat) {i1 : Nat}
    (hi2 : i1 + 2 ≤ P) :
    (dExp b1 112 80 fuel (dFrac b1 Prim.isHexDigit fuel (Prim.strtodLen.run b1 Prim.isHexDigit fuel (i1 + 2))) - off =
      dExp b2 112 80 fuel (dFrac b2 Prim.isHexDigit fuel (Prim.strtodLen.run b2 Prim.isHexDigit fuel (i1 + 2))) - off) ∧
    off + (dExp b1 112 80 fuel (dFrac b1 Prim.isHexDigit fuel
      (Prim.strtodLen.run b1 Prim.isHexDigit fuel (i1 + 2))) - off) ≤ P := by
  have ha := run_agree h Prim.isHexDigit (by decide) fuel (i1 + 2) hi2
  rw [← ha.1]
  have hb := dFrac_agree h Prim.isHexDigit (by decide) fuel ha.2
  rw [← hb.1]
  have he := dExp_agree h 112 80 (by decide) (by decide) fuel hb.2
  rw [← he.1]
  exact ⟨rfl, by omega⟩

theorem dBody_dec_agree (h : Agree P b1 b2) (off : Nat) (ho : off ≤ P) (fuel : Nat) {i1 : Nat}
    (hi : i1 ≤ P) :
    ((let a := Prim.strtodLen.run b1 isDigit fuel i1
      let b := dFrac b1 isDigit fuel a
      let nd := (a - i1) + (if Prim.rd b1 a == 46 then b - (a + 1) else 0)
      if nd == 0 then 0 else dExp b1 101 69 fuel b - off) =
     (let a := Prim.strtodLen.run b2 isDigit fuel i1
      let b := dFrac b2 isDigit fuel a
      let nd := (a - i1) + (if Prim.rd b2 a == 46 then b - (a + 1) else 0)
      if nd == 0 then 0 else dExp b2 101 69 fuel b - off)) ∧
    off + (let a := Prim.strtodLen.run b1 isDigit fuel i1
      let b := dFrac b1 isDigit fuel a
      let nd := (a - i1) + (if Prim.rd b1 a == 46 then b - (a + 1) else 0)
      if nd == 0 then 0 else dExp b1 101 69 fuel b - off) ≤ P := by
  have ha := run_agree h isDigit (by decide) fuel i1 hi
  simp only
  rw [← ha.1]
  have hb := dFrac_agree h isDigit (by decide) fuel ha.2
  rw [← hb.1, ← h.prd ha.2]
  have he := dExp_agree h 101 69 (by decide) (by decide) fuel hb.2
  rw [← he.1]
  refine ⟨rfl, ?_⟩
  have := he.2
  repeat' split
  all_goals omega

theorem dBody_agree (h : Agree P b1 b2) (off : Nat) (ho : off ≤ P) {i1 : Nat} (hi : i1 ≤ P) :
    dBody b1 off i1 = dBody b2 off i1 ∧ off + dBody b1 off i1 ≤ P := by
  unfold dBody
  have w3 := dWord_agree h [105, 110, 102] (by decide) hi
  have w8 := dWord_agree h [105, 110, 102, 105, 110, 105, 116, 121] (by decide) hi
  have wn := dWord_agree h [110, 97, 110] (by decide) hi
  rw [← w3.1, ← w8.1, ← wn.1, ← h.len]
  by_cases c3 : dWord b1 [105, 110, 102] i1 = true
  · have l3 := w3.2 c3
    simp only [List.length_cons, List.length_nil] at l3
    simp only [c3, if_true]
    by_cases c8 : dWord b1 [105, 110, 102, 105, 110, 105, 116, 121] i1 = true
    · have l8 := w8.2 c8
      simp only [List.length_cons, List.length_nil] at l8
      simp only [c8, if_true]
      exact ⟨by first | rfl | trivial, by omega⟩
    · simp only [c8, Bool.false_eq_true, if_false]
      exact ⟨by first | rfl | trivial, by omega⟩
  · simp only [c3, Bool.false_eq_true, if_false]
    by_cases cn : dWord b1 [110, 97, 110] i1 = true
    · have ln := wn.2 cn
      simp only [List.length_cons, List.length_nil] at ln
      simp only [cn, if_true]
      exact ⟨by first | rfl | trivial, by omega⟩
    · simp only [cn, Bool.false_eq_true, if_false]
      have hx := dHexCond_agree h hi
      by_cases cx : dHexCond b1 i1
      · have cx2 := hx.1.1 cx
        simp only [cx, cx2, if_true]
        exact dBody_hex_agree h off ho _ (hx.2 cx)
      · have cx2 : ¬ dHexCond b2 i1 := fun c => cx (hx.1.2 c)
        simp only [cx, cx2, if_false]
        exact dBody_dec_agree h off ho _ hi

theorem strtodLen_agree (h : Agree P b1 b2) (off : Nat) (ho : off ≤ P) :
    Prim.strtodLen b1 off = Prim.strtodLen b2 off ∧ off + Prim.strtodLen b1 off ≤ P := by
  rw [strtodLen_eq, strtodLen_eq]
  have h0 := skipSpaces_agree h (b1.length - off + 1) off ho
  rw [← h.len, ← h0.1]
  have h1 := dSign_agree h h0.2
  rw [← h1.1]
  exact dBody_agree h off ho h1.2

end

end ScpiVerif.Lemmas.Isolation
