/-
C08 helper lemmas, part 2: one chunk against two, and any partition against the whole stream, for
streams with a stable scan (`Good`) and under the model lemma `ParseLocal`.
-/
import ScpiVerif.Lemmas.ChunkingLoop

namespace ScpiVerif.Lemmas.Chunking
open ScpiVerif ScpiVerif.Ctx ScpiVerif.Lexer ScpiVerif.Props.C08

/-- the two runs are in step: same persistent state, same visible events, same pending bytes -/
def R (c1 c2 : Ctx) : Prop := Q c1 c2 ∧ content c1 = content c2

theorem Pers.trans {c1 c2 c3 : Ctx} (h1 : Pers c1 c2) (h2 : Pers c2 c3) : Pers c1 c3 := by
  cases c1; cases c2; cases c3
  simp only [Pers, Ctx.mk.injEq] at h1 h2 ⊢
  simp_all

theorem R.refl {c : Ctx} (h : WF c) : R c c := ⟨⟨Pers.refl c, h, h, rfl⟩, rfl⟩

theorem R.trans {c1 c2 c3 : Ctx} (h1 : R c1 c2) (h2 : R c2 c3) : R c1 c3 :=
  ⟨⟨h1.1.pers.trans h2.1.pers, h1.1.wf1, h2.1.wf2, h1.1.ev.trans h2.1.ev⟩, h1.2.trans h2.2⟩

theorem obs_eq (c : Ctx) :
    Observable c = (vis c.events, c.out.written, c.out.flushes, c.regs.regs, Fifo.EQ.abs c.eq, content c) := by
  unfold Observable vis content
  rfl

theorem R.obs {c1 c2 : Ctx} (h : R c1 c2) : Observable c1 = Observable c2 := by
  obtain ⟨⟨hp, _, _, hev⟩, hc⟩ := h
  rw [obs_eq, obs_eq, hev, hp.out, hp.regs, hp.eq, hc]

theorem emit_position (c : Ctx) (e : Ev) : (emit c e).position = c.position := rfl
theorem emit_bufLen (c : Ctx) (e : Ev) : (emit c e).bufLen = c.bufLen := rfl
theorem content_emit (c : Ctx) (e : Ev) : content (emit c e) = content c := rfl
theorem store_bufLen (c : Ctx) (y : Bytes) : (store c y).bufLen = c.bufLen := rfl

theorem R.emit {c1 c2 : Ctx} (hq : Q c1 c2) (hc : content c1 = content c2) (r1 r2 : Bool) :
    R (emit c1 (.input r1)) (emit c2 (.input r2)) := by
  refine ⟨⟨?_, Bounds.wf_emit _ hq.wf1, Bounds.wf_emit _ hq.wf2, ?_⟩, hc⟩
  · exact Pers.upd hq.pers c1.buf c1.position _ c2.buf c2.position _
  · show vis (c1.events ++ [.input r1]) = vis (c2.events ++ [.input r2])
    rw [vis_input, vis_input]; exact hq.ev

/-- a non-empty chunk that fits: store it, run the loop, record the return value -/
theorem input_eq (c : Ctx) (a : Bytes) (ha : a ≠ []) (hf : c.position + a.length + 1 ≤ c.bufLen) :
    input c a = emit (inputLoop (c.position + a.length + 2) (store c a) 0 true).1
      (.input (inputLoop (c.position + a.length + 2) (store c a) 0 true).2) := by
  have h0 : (a.length == 0) = false := by
    cases a with
    | nil => exact absurd rfl ha
    | cons x xs => rfl
  have h1 : ¬ (a.length + 1 > c.bufLen - c.position) := by omega
  unfold input
  simp only [h0, Bool.false_eq_true, if_false, h1]
  rfl

/-- the pending bytes after a call are a suffix of what was pending plus what arrived -/
theorem inputLoop_content : ∀ (fuel : Nat) (c : Ctx) (tot : Nat) (r : Bool), WF c → tot ≤ c.position →
    ∃ j, j ≤ (content c).length ∧ content (inputLoop fuel c tot r).1 = (content c).drop j := by
  intro fuel
  induction fuel with
  | zero => intro c tot r _ _; exact ⟨0, Nat.zero_le _, rfl⟩
  | succ fuel ih =>
    intro c tot r h ht
    have hcons : (Parser.detectUnit ((c.buf.drop tot).take (c.position - tot))).consumed ≤ c.position - tot :=
      Nat.le_trans (detect_consumed_le _) (Bounds.window_length_le _ _ _)
    rw [inputLoop_succ]
    split
    · obtain ⟨s1, s2, _, _⟩ := step_content c (tot + (Parser.detectUnit ((c.buf.drop tot).take (c.position - tot))).consumed) h (by omega)
      obtain ⟨j, hjl, hj⟩ := ih (step c (tot + (Parser.detectUnit ((c.buf.drop tot).take (c.position - tot))).consumed)) 0
        (parse c 0 (tot + (Parser.detectUnit ((c.buf.drop tot).take (c.position - tot))).consumed)).2 s1 (Nat.zero_le _)
      have hl := content_length c (wf_pos_le h)
      rw [s2, List.length_drop] at hjl
      exact ⟨(tot + (Parser.detectUnit ((c.buf.drop tot).take (c.position - tot))).consumed) + j, by omega,
        by rw [hj, s2, List.drop_drop]⟩
    · split
      · exact ⟨0, Nat.zero_le _, rfl⟩
      · split
        · exact ⟨0, Nat.zero_le _, rfl⟩
        · exact ih c _ r h (by omega)

theorem input_facts (c : Ctx) (a : Bytes) (h : WF c) (ha : a ≠ []) (hf : c.position + a.length + 1 ≤ c.bufLen) :
    (input c a).position ≤ c.position + a.length ∧ (input c a).bufLen = c.bufLen ∧
    ∃ j, j ≤ (content c ++ a).length ∧ content (input c a) = (content c ++ a).drop j := by
  obtain ⟨t1, t2, t3⟩ := store_content c a h hf
  obtain ⟨p1, p2⟩ := inputLoop_pos (c.position + a.length + 2) (store c a) 0 true t1 (Nat.zero_le _)
  obtain ⟨j, hjl, hj⟩ := inputLoop_content (c.position + a.length + 2) (store c a) 0 true t1 (Nat.zero_le _)
  rw [input_eq c a ha hf, emit_position, emit_bufLen, content_emit]
  rw [t3] at p1
  rw [store_bufLen] at p2
  exact ⟨p1, p2, j, by rw [← t2]; exact hjl, by rw [hj, t2]⟩

theorem input_split_R {M G G1 : Bytes → Prop} (hloc : ParseLocalOn M) (hG : Good M G G1) (c : Ctx) (h : WF c) (a b : Bytes)
    (ha : a ≠ []) (hb : b ≠ []) (hfit : Fits c (a.length + b.length)) (hg : G (content c ++ a ++ b))
    (hg1 : G1 (content c ++ a)) :
    R (input (input c a) b) (input c (a ++ b)) := by
  unfold Fits at hfit
  have hab : a ++ b ≠ [] := by
    intro he; exact ha (List.append_eq_nil_iff.1 he).1
  have hfa : c.position + a.length + 1 ≤ c.bufLen := by omega
  have hfab : c.position + (a ++ b).length + 1 ≤ c.bufLen := by rw [List.length_append]; omega
  obtain ⟨i1, i2, _, _, _⟩ := input_facts c a h ha hfa
  have hfb : (input c a).position + b.length + 1 ≤ (input c a).bufLen := by rw [i2]; omega
  rw [input_eq (input c a) b hb hfb, input_eq c (a ++ b) hab hfab]
  obtain ⟨t1, t2, t3⟩ := store_content c a h hfa
  obtain ⟨u1, u2, u3⟩ := store_content c (a ++ b) h hfab
  have hq : Q (store c a) (store c (a ++ b)) :=
    ⟨Pers.upd (Pers.refl c) _ _ c.events _ _ c.events, t1, u1, rfl⟩
  have hc : content (store c (a ++ b)) = content (store c a) ++ b := by rw [t2, u2, List.append_assoc]
  have hl1 : (content (store c a)).length = c.position + a.length := by
    rw [content_length _ (wf_pos_le t1), t3]
  have key := loop_split hloc hG _ (store c a) (store c (a ++ b)) b (c.position + a.length + 2)
    (c.position + (a ++ b).length + 2) true true hq hc (by rw [u2, ← List.append_assoc]; exact hg) (by rw [t2]; exact hg1) (Nat.le_refl _)
    (by omega) (by rw [hl1, List.length_append]; omega) (by rw [t3, store_bufLen]; omega)
  rw [input_eq c a ha hfa] at i1 ⊢
  rw [emit_position]
  obtain ⟨k1, k2⟩ := key (inputLoop (c.position + a.length + 2) (store c a) 0 true).2 true
    ((inputLoop (c.position + a.length + 2) (store c a) 0 true).1.position + b.length + 2) (by omega)
  exact R.emit k1 k2 _ _

/-- every partition into non-empty chunks against the whole stream in one call -/
theorem chunks_R {M G G1 : Bytes → Prop} (hloc : ParseLocalOn M) (hG : Good M G G1) : ∀ (cs : List Bytes) (c : Ctx), WF c →
    cs ≠ [] → (∀ x ∈ cs, x ≠ []) → Fits c cs.flatten.length → G (content c ++ cs.flatten) → (∀ x ∈ cs, G1 x) →
    R (cs.foldl input c) (input c cs.flatten) := by
  intro cs
  induction cs with
  | nil => intro c _ h; exact absurd rfl h
  | cons x rest ih =>
    intro c h _ hne hfit hg hl1
    cases rest with
    | nil =>
      simp only [List.foldl_cons, List.foldl_nil, List.flatten_cons, List.flatten_nil, List.append_nil]
      exact R.refl (Bounds.input_wf c x h)
    | cons y rest =>
      have hx : x ≠ [] := hne x (by simp)
      have hy : y ≠ [] := hne y (by simp)
      have hfl : (x :: y :: rest).flatten = x ++ (y :: rest).flatten := by simp
      have hrne : (y :: rest).flatten ≠ [] := by
        intro he
        rw [List.flatten_cons] at he
        exact hy (List.append_eq_nil_iff.1 he).1
      unfold Fits at hfit
      rw [hfl, List.length_append] at hfit
      obtain ⟨i1, i2, j, i4, i3⟩ := input_facts c x h hx (by omega)
      rw [List.foldl_cons]
      have hg' : G (content c ++ x ++ (y :: rest).flatten) := by
        rw [List.append_assoc, ← hfl]; exact hg
      have h1 := ih (input c x) (Bounds.input_wf c x h) (by simp) (fun z hz => hne z (by simp [hz]))
        (by unfold Fits; rw [i2]; omega)
        (by rw [i3, ← List.drop_append_of_le_length i4]
            exact hG.drop _ _ hg')
        (fun z hz => hl1 z (by simp [hz]))
      have h2 := input_split_R hloc hG c h x (y :: rest).flatten hx hrne (by unfold Fits; omega) hg'
        (hG.app1 _ x hx (hl1 x (by simp)))
      rw [hfl]
      exact h1.trans h2

end ScpiVerif.Lemmas.Chunking
