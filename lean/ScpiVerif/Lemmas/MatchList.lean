import ScpiVerif.Lemmas.MatchDefs
namespace ScpiVerif.Lemmas.Match
open ScpiVerif ScpiVerif.Match ScpiVerif.Spec.Pattern
open ScpiVerif.Lexer (Bytes isDigit isLower isUpper isAlpha)

/-! ### byte facts -/

theorem isDigit_lower (x : UInt8) : isDigit (lower x) = isDigit x := by
  by_cases h : isUpper x = true
  · simp only [lower, h, if_true]
    simp only [isUpper, Bool.and_eq_true, decide_eq_true_eq, UInt8.le_iff_toNat_le] at h
    rw [Bool.eq_iff_iff]
    simp only [isDigit, Bool.and_eq_true, decide_eq_true_eq, UInt8.le_iff_toNat_le, UInt8.toNat_add]
    simp at h ⊢
    omega
  · simp [lower, h]

theorem isKwChar_lower (x : UInt8) : isKwChar (lower x) = isKwChar x := by
  by_cases h : isUpper x = true
  · simp only [lower, h, if_true]
    simp only [isUpper, Bool.and_eq_true, decide_eq_true_eq, UInt8.le_iff_toNat_le] at h
    rw [Bool.eq_iff_iff]
    simp only [isKwChar, isAlpha, isUpper, isLower, isDigit, Bool.or_eq_true, Bool.and_eq_true,
      decide_eq_true_eq, UInt8.le_iff_toNat_le, UInt8.toNat_add, beq_iff_eq, ← UInt8.toNat_inj]
    simp at h ⊢
    omega
  · simp [lower, h]

theorem isKwChar_of_isDigit (x : UInt8) (h : isDigit x = true) : isKwChar x = true := by
  simp [isKwChar, h]

theorem all_isDigit_map_lower (l : Bytes) : (l.map lower).all isDigit = l.all isDigit := by
  induction l with
  | nil => rfl
  | cons a l ih => simp only [List.map_cons, List.all_cons, isDigit_lower, ih]

theorem all_isKwChar_map_lower (l : Bytes) : (l.map lower).all isKwChar = l.all isKwChar := by
  induction l with
  | nil => rfl
  | cons a l ih => simp only [List.map_cons, List.all_cons, isKwChar_lower, ih]

theorem all_isKwChar_of_all_isDigit (l : Bytes) (h : l.all isDigit = true) :
    l.all isKwChar = true := by
  rw [List.all_eq_true] at h ⊢
  exact fun x hx => isKwChar_of_isDigit x (h x hx)

theorem ciEq_iff (a b : Bytes) : ciEq a b = true ↔ a.map lower = b.map lower := by
  simp [ciEq]

/-! ### spelling -/

/-- `m` is `form` (up to case) followed by digits; a nonempty digit string needs `num` -/
def Spells (num : Bool) (form m : Bytes) : Prop :=
  ∃ d : Bytes, m.map lower = form.map lower ++ d ∧ d.all isDigit = true ∧ (d ≠ [] → num = true)

theorem spells_of_tryForm (num : Bool) (form m : Bytes)
    (h : ciEq m form = true ∨ (num = true ∧ m.length > form.length ∧
      ciEq (m.take form.length) form = true ∧ (m.drop form.length).all isDigit = true)) :
    Spells num form m := by
  rcases h with h | ⟨hn, hl, hc, hd⟩
  · exact ⟨[], by simpa [ciEq_iff] using h, rfl, fun h => absurd rfl h⟩
  · refine ⟨(m.drop form.length).map lower, ?_, ?_, fun _ => hn⟩
    · rw [ciEq_iff] at hc
      rw [← hc, ← List.map_append, List.take_append_drop]
    · rw [all_isDigit_map_lower]; exact hd

theorem spells_of_kwMatch (k : Kw) (m : Bytes) (r : Option Nat) (h : kwMatch k m = some r) :
    Spells k.numeric k.long m ∨ Spells k.numeric k.short m := by
  unfold kwMatch at h
  simp only [] at h
  split at h
  · rename_i r' hr
    left
    apply spells_of_tryForm
    split at hr
    · left; assumption
    · split at hr
      · rename_i h2; exact Or.inr h2
      · cases hr
  · right
    apply spells_of_tryForm
    split at h
    · left; assumption
    · split at h
      · rename_i h2; exact Or.inr h2
      · cases h

theorem confusable_half (na : Bool) (fa fb c : Bytes)
    (hB : fb.map lower = fa.map lower ++ c) (hc : c.all isDigit = true)
    (hna : c ≠ [] → na = true) :
    ciEq fa fb = true ∨ (na = true ∧ fb.length > fa.length ∧
      ciEq (fb.take fa.length) fa = true ∧ (fb.drop fa.length).all isDigit = true) := by
  by_cases hce : c = []
  · subst hce
    left
    rw [ciEq_iff]
    simpa using hB.symm
  · right
    have hlen : fb.length = fa.length + c.length := by
      have := congrArg List.length hB
      simpa using this
    have hcl : 0 < c.length := List.length_pos_iff.mpr hce
    refine ⟨hna hce, by omega, ?_, ?_⟩
    · rw [ciEq_iff, List.map_take, hB]
      have : fa.length = (fa.map lower).length := by simp
      rw [this, List.take_left]
    · rw [← all_isDigit_map_lower, List.map_drop, hB]
      have : fa.length = (fa.map lower).length := by simp
      rw [this, List.drop_left]
      exact hc

theorem confusable_inner (na nb : Bool) (fa fb m : Bytes)
    (ha : Spells na fa m) (hb : Spells nb fb m) :
    (ciEq fa fb ||
      (na && decide (fb.length > fa.length) && ciEq (fb.take fa.length) fa &&
        (fb.drop fa.length).all isDigit) ||
      (nb && decide (fa.length > fb.length) && ciEq (fa.take fb.length) fb &&
        (fa.drop fb.length).all isDigit)) = true := by
  obtain ⟨da, hma, hda, hna⟩ := ha
  obtain ⟨db, hmb, hdb, hnb⟩ := hb
  have heq : fa.map lower ++ da = fb.map lower ++ db := hma.symm.trans hmb
  rcases List.append_eq_append_iff.mp heq with ⟨c, hB, hd⟩ | ⟨c, hA, hd⟩
  · -- fb = fa ++ c
    have hc : c.all isDigit = true := by
      rw [hd, List.all_append, Bool.and_eq_true] at hda; exact hda.1
    have hn : c ≠ [] → na = true := fun h => hna (by rw [hd]; simp [h])
    rcases confusable_half na fa fb c hB hc hn with h | ⟨h1, h2, h3, h4⟩
    · simp [h]
    · simp [h1, h2, h3, h4]
  · have hc : c.all isDigit = true := by
      rw [hd, List.all_append, Bool.and_eq_true] at hdb; exact hdb.1
    have hn : c ≠ [] → nb = true := fun h => hnb (by rw [hd]; simp [h])
    rcases confusable_half nb fb fa c hA hc hn with h | ⟨h1, h2, h3, h4⟩
    · have : ciEq fa fb = true := by rw [ciEq_iff] at h ⊢; exact h.symm
      simp [this]
    · simp [h1, h2, h3, h4]

/-- a mnemonic spelling two keywords makes them confusable -/
theorem confusable_of_kwMatch (a b : Kw) (m : Bytes) (x y : Option Nat)
    (ha : kwMatch a m = some x) (hb : kwMatch b m = some y) : confusable a b = true := by
  have hsa := spells_of_kwMatch a m x ha
  have hsb := spells_of_kwMatch b m y hb
  unfold confusable
  simp only [List.any_cons, List.any_nil, Bool.or_false]
  rcases hsa with hsa | hsa <;> rcases hsb with hsb | hsb
  all_goals
    have := confusable_inner _ _ _ _ _ hsa hsb
    simp only [this, Bool.or_true, Bool.true_or]

/-! ### the walker and the specification -/

theorem solutions_cons_nil (k : Kw) (ks : List Kw) :
    solutions (k :: ks) [] =
      if k.optional then (solutions ks []).map (consNum k none) else [] := by
  rw [solutions]; rfl

theorem solutions_cons_cons (k : Kw) (ks : List Kw) (m : Bytes) (ms : List Bytes) :
    solutions (k :: ks) (m :: ms) =
      (match kwMatch k m with
        | some n => (solutions ks ms).map (consNum k n)
        | none => []) ++
      (if k.optional then (solutions ks (m :: ms)).map (consNum k none) else []) := by
  rw [solutions]; rfl

/-- a reading of `m :: ms` starts by spelling one of the followers -/
theorem follower_of_solutions (ks : List Kw) (m : Bytes) (ms : List Bytes)
    (h : solutions ks (m :: ms) ≠ []) : ∃ f ∈ followers ks, (kwMatch f m).isSome = true := by
  induction ks with
  | nil => exact absurd (by rw [solutions]) h
  | cons k ks ih =>
    rw [solutions_cons_cons] at h
    cases hk : kwMatch k m with
    | some n =>
      refine ⟨k, ?_, by simp [hk]⟩
      rw [followers]; split <;> simp
    | none =>
      rw [hk] at h
      by_cases ho : k.optional = true
      · simp only [ho, if_true, List.nil_append] at h
        have h' : solutions ks (m :: ms) ≠ [] := fun e => h (by rw [e]; rfl)
        obtain ⟨f, hf, hm⟩ := ih h'
        exact ⟨f, by rw [followers, if_pos ho]; exact List.mem_cons_of_mem _ hf, hm⟩
      · simp [ho] at h

theorem solutions_skip_nil (k : Kw) (ks : List Kw) (m : Bytes) (ms : List Bytes) (n : Option Nat)
    (ho : k.optional = true) (hk : kwMatch k m = some n)
    (hwf : wellFormed (k :: ks) = true) : solutions ks (m :: ms) = [] := by
  apply Classical.byContradiction
  intro hne
  obtain ⟨f, hf, hm⟩ := follower_of_solutions ks m ms hne
  obtain ⟨y, hy⟩ := Option.isSome_iff_exists.mp hm
  have hc := confusable_of_kwMatch k f m n y hk hy
  rw [wellFormed] at hwf
  simp only [ho, Bool.not_true, Bool.false_or, Bool.and_eq_true, List.all_eq_true] at hwf
  have := hwf.1 f hf
  simp [hc] at this

theorem toList_map {α β : Type} (f : α → β) (o : Option α) :
    (o.map f).toList = o.toList.map f := by
  cases o <;> rfl

/-- under the side condition, the spec's list of readings is what the greedy walker finds -/
theorem greedy_eq_spec (kws : List Kw) (hwf : wellFormed kws = true) (ms : List Bytes) :
    solutions kws ms = (greedy kws ms).toList := by
  induction kws generalizing ms with
  | nil =>
    cases ms with
    | nil => rw [solutions, greedy]; rfl
    | cons m ms => rw [solutions, greedy]; rfl
  | cons k ks ih =>
    have hwf' : wellFormed ks = true := by
      rw [wellFormed, Bool.and_eq_true] at hwf; exact hwf.2
    cases ms with
    | nil =>
      rw [solutions_cons_nil, greedy]
      split
      · rw [toList_map, ih hwf']
      · rfl
    | cons m ms =>
      rw [solutions_cons_cons, greedy]
      cases hk : kwMatch k m with
      | some n =>
        simp only []
        rw [toList_map, ih hwf']
        by_cases ho : k.optional = true
        · rw [if_pos ho, solutions_skip_nil k ks m ms n ho hk hwf]; simp
        · rw [if_neg ho]; simp
      | none =>
        simp only [List.nil_append]
        split
        · rw [toList_map, ih hwf']
        · rfl

theorem solutions_length_le_one (kws : List Kw) (hwf : wellFormed kws = true) (ms : List Bytes) :
    (solutions kws ms).length ≤ 1 := by
  rw [greedy_eq_spec kws hwf ms]
  cases greedy kws ms <;> simp

theorem reading_unique (p : Pat) (hwf : wellFormed p.kws = true) (hdr : Bytes) :
    (accepts p hdr).length ≤ 1 := by
  unfold accepts
  generalize (if hdr.getLast? == some 63 then (hdr.dropLast, true) else (hdr, false)) = bq
  obtain ⟨body, q⟩ := bq
  simp only []
  generalize (if body.head? == some 58 then body.drop 1 else body) = body'
  by_cases h1 : (q != p.query) = true
  · rw [if_pos h1]; simp
  · rw [if_neg h1]
    by_cases h2 : p.common = true
    · rw [if_pos h2]
      split
      · split <;> simp
      · simp
    · rw [if_neg h2]
      by_cases h3 : body'.isEmpty = true
      · rw [if_pos h3]; simp
      · rw [if_neg h3]; exact solutions_length_le_one _ hwf _

/-- a mnemonic that spells a keyword made of keyword characters is itself made of keyword characters -/
theorem kwMatch_chars (k : Kw) (m : Bytes) (r : Option Nat)
    (hl : k.long.all isKwChar = true) (hs : k.short.all isKwChar = true)
    (h : kwMatch k m = some r) : m.all isKwChar = true := by
  have key : ∀ form : Bytes, form.all isKwChar = true → Spells k.numeric form m →
      m.all isKwChar = true := by
    intro form hf ⟨d, hm, hd, _⟩
    rw [← all_isKwChar_map_lower, hm, List.all_append, all_isKwChar_map_lower, hf,
      all_isKwChar_of_all_isDigit d hd]
    rfl
  rcases spells_of_kwMatch k m r h with h | h
  · exact key _ hl h
  · exact key _ hs h

/-- a mnemonic that no keyword can spell kills the walk (all mnemonics must be consumed) -/
theorem greedy_none_of_unmatchable (kws : List Kw) (ms : List Bytes) (m : Bytes) (hm : m ∈ ms)
    (hbad : ∀ k ∈ kws, kwMatch k m = none) : greedy kws ms = none := by
  induction kws generalizing ms with
  | nil =>
    cases ms with
    | nil => cases hm
    | cons m' ms' => rw [greedy]
  | cons k ks ih =>
    have hbad' : ∀ k ∈ ks, kwMatch k m = none := fun k' hk' => hbad k' (List.mem_cons_of_mem _ hk')
    cases ms with
    | nil => cases hm
    | cons m' ms' =>
      rw [greedy]
      cases hk : kwMatch k m' with
      | some n =>
        simp only []
        have hne : m ≠ m' := by
          intro e; subst e
          rw [hbad k List.mem_cons_self] at hk; cases hk
        have hm' : m ∈ ms' := by
          rcases List.mem_cons.mp hm with e | h
          · exact absurd e hne
          · exact h
        rw [ih ms' hm' hbad']; rfl
      | none =>
        simp only []
        split
        · rw [ih (m' :: ms') hm hbad']; rfl
        · rfl

/-- a non-numeric keyword never yields a suffix -/
theorem kwMatch_nonnumeric (k : Kw) (m : Bytes) (v : Nat) (hk : k.numeric = false) :
    kwMatch k m ≠ some (some v) := by
  unfold kwMatch
  simp only [hk, Bool.false_eq_true, false_and, if_false]
  intro h
  split at h
  · rename_i r hr
    split at hr
    · cases hr; cases h
    · cases hr
  · split at h <;> cases h

end ScpiVerif.Lemmas.Match
