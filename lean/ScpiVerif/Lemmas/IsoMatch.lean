import ScpiVerif.Lemmas.IsoBase
namespace ScpiVerif.Lemmas.Isolation
open ScpiVerif ScpiVerif.Lexer

/-!
Isolation of the pattern matcher: `Match.matchCommand` never reads the command buffer beyond its
first NUL, so two buffers that agree up to and including an index holding a NUL give the same
result.
-/

/-! ### the length of the C string is bounded by the index of any NUL -/

theorem takeWhile_len_le_of_getD_zero : ∀ (c : Bytes) (Q : Nat), c.getD Q 0 = 0 →
    (c.takeWhile (· ≠ 0)).length ≤ Q := by
  intro c
  induction c with
  | nil => intro Q _; simp
  | cons a t ih =>
    intro Q hQ
    rw [List.takeWhile_cons]
    cases Q with
    | zero =>
      have : a = 0 := by simpa using hQ
      subst this; simp
    | succ Q =>
      have h' : t.getD Q 0 = 0 := by simpa using hQ
      have := ih Q h'
      split
      · simp only [List.length_cons]; omega
      · simp

/-! ### caseEq -/

theorem caseEq_agree {Q : Nat} {c1 c2 : Bytes} (h : Agree Q c1 c2) (a : Bytes) :
    ∀ (n ao bo : Nat), bo + n ≤ Q + 1 → Match.caseEq a ao c1 bo n = Match.caseEq a ao c2 bo n := by
  intro n
  induction n with
  | zero => intros; rfl
  | succ n ih =>
    intro ao bo hb
    simp only [Match.caseEq]
    rw [h.mrd (show bo ≤ Q by omega), ih (ao + 1) (bo + 1) (by omega)]

/-! ### sepPos -/

theorem sepPos_go_agree {Q : Nat} {c1 c2 : Bytes} (h : Agree Q c1 c2) (off len : Nat) (set : List UInt8) :
    ∀ (fuel i : Nat), off + i + fuel ≤ Q + 1 →
      Match.sepPos.go c1 off len set fuel i = Match.sepPos.go c2 off len set fuel i := by
  intro fuel
  induction fuel with
  | zero => intros; rfl
  | succ f ih =>
    intro i hb
    simp only [Match.sepPos.go]
    rw [h.mrd (show off + i ≤ Q by omega), ih (i + 1) (by omega)]

theorem sepPos_agree {Q : Nat} {c1 c2 : Bytes} (h : Agree Q c1 c2) (off len : Nat) (set : List UInt8)
    (hb : off + len ≤ Q + 1) : Match.sepPos c1 off len set = Match.sepPos c2 off len set := by
  simp only [Match.sepPos]
  rw [sepPos_go_agree h off len set len 0 (by omega)]

theorem sepPos_le (s : Bytes) (off len : Nat) (set : List UInt8) : Match.sepPos s off len set ≤ len := by
  simp only [Match.sepPos]
  split
  · omega
  · split <;> omega

/-! ### strtol10 -/

theorem ws_agree {Q : Nat} {c1 c2 : Bytes} (h : Agree Q c1 c2) :
    ∀ (f i : Nat), i ≤ Q → Match.strtol10.ws c1 f i = Match.strtol10.ws c2 f i ∧ Match.strtol10.ws c1 f i ≤ Q := by
  intro f
  induction f with
  | zero => intro i hi; exact ⟨rfl, hi⟩
  | succ f ih =>
    intro i hi
    simp only [Match.strtol10.ws]
    rw [← h.mrd hi]
    split
    · rename_i hc
      have hne : c1.getD i 0 ≠ 0 := by
        intro h0
        have : Match.rd c1 i = 0 := h0
        rw [this] at hc
        revert hc; decide
      exact ih (i + 1) (h.lt_of_ne hi hne)
    · exact ⟨rfl, hi⟩

theorem isDigit_ne_zero {b : UInt8} (hb : isDigit b = true) : b ≠ 0 := by
  intro h0; subst h0; revert hb; decide

theorem dg_agree {Q : Nat} {c1 c2 : Bytes} (h : Agree Q c1 c2) :
    ∀ (f i acc : Nat), i ≤ Q → Match.strtol10.dg c1 f i acc = Match.strtol10.dg c2 f i acc := by
  intro f
  induction f with
  | zero => intros; rfl
  | succ f ih =>
    intro i acc hi
    simp only [Match.strtol10.dg]
    rw [← h.mrd hi]
    split
    · rename_i hc
      exact ih (i + 1) _ (h.lt_of_ne hi (isDigit_ne_zero hc))
    · rfl

theorem strtol10_agree {Q : Nat} {c1 c2 : Bytes} (h : Agree Q c1 c2) (off : Nat) (ho : off ≤ Q) :
    Match.strtol10 c1 off = Match.strtol10 c2 off := by
  have hws := ws_agree h (c1.length - off) off ho
  simp only [Match.strtol10]
  rw [← h.len, ← hws.1]
  have hle := hws.2
  generalize Match.strtol10.ws c1 (c1.length - off) off = i0 at hle
  rw [← h.mrd hle]
  by_cases h45 : (Match.rd c1 i0 == 45) = true
  · have hne : c1.getD i0 0 ≠ 0 := by
      intro h0
      have : Match.rd c1 i0 = 0 := h0
      rw [this] at h45
      revert h45; decide
    have hlt := h.lt_of_ne hle hne
    simp only [h45, if_true]
    rw [dg_agree h _ (i0 + 1) 0 (by omega)]
  · simp only [h45, Bool.false_eq_true, if_false]
    by_cases h43 : (Match.rd c1 i0 == 43) = true
    · have hne : c1.getD i0 0 ≠ 0 := by
        intro h0
        have : Match.rd c1 i0 = 0 := h0
        rw [this] at h43
        revert h43; decide
      have hlt := h.lt_of_ne hle hne
      simp only [h43, if_true, Bool.false_eq_true, if_false]
      rw [dg_agree h _ (i0 + 1) 0 (by omega)]
    · simp only [h43, Bool.false_eq_true, if_false]
      rw [dg_agree h _ i0 0 hle]

/-! ### compareStr, compareStrAndNum, matchPattern -/

theorem compareStr_agree {Q : Nat} {c1 c2 : Bytes} (h : Agree Q c1 c2) (a : Bytes) (ao len1 bo len2 : Nat)
    (hb : bo + len2 ≤ Q) :
    Match.compareStr a ao len1 c1 bo len2 = Match.compareStr a ao len1 c2 bo len2 := by
  simp only [Match.compareStr]
  rw [caseEq_agree h a len2 ao bo (by omega)]

theorem all_digits_agree {Q : Nat} {c1 c2 : Bytes} (h : Agree Q c1 c2) (base n : Nat) (hb : base + n ≤ Q + 1) :
    (List.range n).all (fun i => isDigit (Match.rd c1 (base + i))) =
    (List.range n).all (fun i => isDigit (Match.rd c2 (base + i))) := by
  rw [Bool.eq_iff_iff, List.all_eq_true, List.all_eq_true]
  constructor
  · intro H i hi
    have : i < n := List.mem_range.mp hi
    rw [← h.mrd (show base + i ≤ Q by omega)]; exact H i hi
  · intro H i hi
    have : i < n := List.mem_range.mp hi
    rw [h.mrd (show base + i ≤ Q by omega)]; exact H i hi

theorem compareStrAndNum_agree {Q : Nat} {c1 c2 : Bytes} (h : Agree Q c1 c2) (a : Bytes)
    (ao len1 bo len2 : Nat) (num : Bool) (hb : bo + len2 ≤ Q) :
    Match.compareStrAndNum a ao len1 c1 bo len2 num = Match.compareStrAndNum a ao len1 c2 bo len2 num := by
  simp only [Match.compareStrAndNum]
  by_cases hl : len2 < len1
  · simp only [hl, if_true]
  · simp only [hl, if_false]
    rw [caseEq_agree h a len1 ao bo (by omega), strtol10_agree h (bo + len1) (by omega),
      all_digits_agree h (bo + len1) (len2 - len1) (by omega)]

theorem matchPattern_agree {Q : Nat} {c1 c2 : Bytes} (h : Agree Q c1 c2) (p : Bytes)
    (po plen so slen : Nat) (num : Bool) (hb : so + slen ≤ Q) :
    Match.matchPattern p po plen c1 so slen num = Match.matchPattern p po plen c2 so slen num := by
  simp only [Match.matchPattern]
  simp only [compareStrAndNum_agree h p _ _ so slen num hb, compareStr_agree h p _ _ so slen hb]

/-! ### mainLoop

One iteration of `Match.mainLoop` is factored into pieces that do not mention the command buffer:
the buffer enters only through `csp`, the result `mp` of `matchPattern` and the byte `c0` at the new
command position, and through the continuation `k`. -/

/-- the default-number bookkeeping at the start of an iteration -/
def numStep (p : Bytes) (hasNumbers : Bool) (dflt : Int) (psp : Nat) (st : Match.MState) : Match.MState × Option Nat :=
  if psp > 0 ∧ Match.rd p (st.pp + psp - 1) == 35 then
    if hasNumbers ∧ st.idx < st.numbers.length then
      ({ (Match.setNum st hasNumbers st.idx dflt) with idx := st.idx + 1 }, some st.idx)
    else ({ st with idx := st.idx + 1 }, none)
  else (st, none)

/-- storing the parsed number -/
def upd (hasNumbers : Bool) (st : Match.MState) (numPtr : Option Nat) (v : Option Int) : Match.MState :=
  match numPtr, v with
  | some i, some x => Match.setNum st hasNumbers i x
  | _, _ => st

/-- the rest of an iteration, given the result of `matchPattern` and the next command byte -/
def loopTail (p : Bytes) (hasNumbers : Bool) (dflt : Int) (k : Match.MState → Bool × Match.MState)
    (psp csp : Nat) (st : Match.MState) (numPtr : Option Nat) (mp : Bool × Option Int) (c0 : UInt8) : Bool × Match.MState :=
  if mp.1 then
    let st : Match.MState := upd hasNumbers st numPtr mp.2
    let st : Match.MState := { st with pp := st.pp + psp, pl := st.pl - psp, cp := st.cp + csp, cl := st.cl - csp }
    if st.pl == 0 ∧ st.cl == 0 then (true, st)
    else if st.pl == 0 ∧ st.cl > 0 then (false, st)
    else if st.cl == 0 then
      let st : Match.MState := Match.trailingLoop p hasNumbers dflt (p.length + 2) st
      (st.pl == 0, st)
    else
      let p0 := Match.rd p st.pp; let p1 := Match.rd p (st.pp + 1); let p2 := Match.rd p (st.pp + 2)
      if st.pl > 0 ∧ p0 == c0 ∧ p0 == 58 then
        k { st with pp := st.pp + 1, pl := st.pl - 1, cp := st.cp + 1, cl := st.cl - 1 }
      else if st.pl > 1 ∧ p1 == c0 ∧ p0 == 91 ∧ p1 == 58 then
        k { st with pp := st.pp + 2, pl := st.pl - 2, cp := st.cp + 1, cl := st.cl - 1, brackets := st.brackets + 1 }
      else if st.pl > 1 ∧ p1 == c0 ∧ p0 == 93 ∧ p1 == 58 then
        k { st with pp := st.pp + 2, pl := st.pl - 2, cp := st.cp + 1, cl := st.cl - 1, brackets := st.brackets - 1 }
      else if st.pl > 2 ∧ p2 == c0 ∧ p0 == 93 ∧ p1 == 91 ∧ p2 == 58 then
        k { st with pp := st.pp + 3, pl := st.pl - 3, cp := st.cp + 1, cl := st.cl - 1 }
      else (false, st)
  else
    let st : Match.MState := { st with pp := st.pp + psp, pl := st.pl - psp }
    let p0 := Match.rd p st.pp; let p1 := Match.rd p (st.pp + 1); let p2 := Match.rd p (st.pp + 2)
    if p0 == 93 ∧ p1 == 58 then
      k { st with pp := st.pp + 2, pl := st.pl - 2, brackets := st.brackets - 1 }
    else if st.pl > 2 ∧ p0 == 93 ∧ p1 == 91 ∧ p2 == 58 then
      k { st with pp := st.pp + 3, pl := st.pl - 3 }
    else (false, st)

theorem mainLoop_succ (p c : Bytes) (hasNumbers : Bool) (dflt : Int) (fuel : Nat) (st : Match.MState) :
    Match.mainLoop p c hasNumbers dflt (fuel + 1) st =
      if st.pl < 0 then (false, { st with oob := true }) else
      let psp := Match.patternSeparatorPos p st.pp st.pl.toNat
      let csp := Match.cmdSeparatorPos c st.cp st.cl
      let x := numStep p hasNumbers dflt psp st
      let mp := Match.matchPattern p x.1.pp psp c x.1.cp csp x.2.isSome
      loopTail p hasNumbers dflt (Match.mainLoop p c hasNumbers dflt fuel) psp csp x.1 x.2 mp
        (Match.rd c ((upd hasNumbers x.1 x.2 mp.2).cp + csp)) := by
  rfl

theorem setNum_cp_cl (st : Match.MState) (hn : Bool) (i : Nat) (v : Int) :
    (Match.setNum st hn i v).cp = st.cp ∧ (Match.setNum st hn i v).cl = st.cl := by
  simp only [Match.setNum]
  split <;> exact ⟨rfl, rfl⟩

theorem numStep_cp_cl (p : Bytes) (hn : Bool) (d : Int) (psp : Nat) (st : Match.MState) :
    (numStep p hn d psp st).1.cp = st.cp ∧ (numStep p hn d psp st).1.cl = st.cl := by
  simp only [numStep]
  split
  · split
    · exact setNum_cp_cl st hn st.idx d
    · exact ⟨rfl, rfl⟩
  · exact ⟨rfl, rfl⟩

theorem upd_cp_cl (hn : Bool) (st : Match.MState) (numPtr : Option Nat) (v : Option Int) :
    (upd hn st numPtr v).cp = st.cp ∧ (upd hn st numPtr v).cl = st.cl := by
  simp only [upd]
  split
  · exact setNum_cp_cl _ _ _ _
  · exact ⟨rfl, rfl⟩

theorem loopTail_congr (p : Bytes) (hn : Bool) (d : Int) (k1 k2 : Match.MState → Bool × Match.MState)
    (psp csp : Nat) (st : Match.MState) (numPtr : Option Nat) (mp : Bool × Option Int) (c0 : UInt8)
    (hcsp : csp ≤ st.cl)
    (hk : ∀ st' : Match.MState, st'.cp + st'.cl = st.cp + st.cl → k1 st' = k2 st') :
    loopTail p hn d k1 psp csp st numPtr mp c0 = loopTail p hn d k2 psp csp st numPtr mp c0 := by
  have hu := upd_cp_cl hn st numPtr mp.2
  simp only [loopTail]
  generalize upd hn st numPtr mp.2 = st2 at hu ⊢
  obtain ⟨hu1, hu2⟩ := hu
  split
  · split
    · rfl
    · split
      · rfl
      · split
        · rfl
        · rename_i hcl
          have hcl' : st2.cl - csp ≠ 0 := by simpa using hcl
          split
          · apply hk; simp only []; omega
          · split
            · apply hk; simp only []; omega
            · split
              · apply hk; simp only []; omega
              · split
                · apply hk; simp only []; omega
                · rfl
  · split
    · apply hk; rfl
    · split
      · apply hk; rfl
      · rfl

theorem mainLoop_agree {Q : Nat} {c1 c2 : Bytes} (h : Agree Q c1 c2) (p : Bytes) (hn : Bool) (d : Int) :
    ∀ (fuel : Nat) (st : Match.MState), st.cp + st.cl ≤ Q →
      Match.mainLoop p c1 hn d fuel st = Match.mainLoop p c2 hn d fuel st := by
  intro fuel
  induction fuel with
  | zero => intros; rfl
  | succ fuel ih =>
    intro st hst
    rw [mainLoop_succ, mainLoop_succ]
    by_cases hpl : st.pl < 0
    · simp only [hpl, if_true]
    · simp only [hpl, if_false]
      have hcsp : Match.cmdSeparatorPos c2 st.cp st.cl = Match.cmdSeparatorPos c1 st.cp st.cl :=
        (sepPos_agree h st.cp st.cl _ (by omega)).symm
      have hle : Match.cmdSeparatorPos c1 st.cp st.cl ≤ st.cl := sepPos_le _ _ _ _
      rw [hcsp]
      generalize Match.cmdSeparatorPos c1 st.cp st.cl = csp at hle
      generalize Match.patternSeparatorPos p st.pp st.pl.toNat = psp
      have hx := numStep_cp_cl p hn d psp st
      generalize numStep p hn d psp st = x at hx
      obtain ⟨hx1, hx2⟩ := hx
      rw [← matchPattern_agree h p x.1.pp psp x.1.cp csp x.2.isSome (by omega)]
      generalize Match.matchPattern p x.1.pp psp c1 x.1.cp csp x.2.isSome = mp
      have hu := upd_cp_cl hn x.1 x.2 mp.2
      rw [← h.mrd (show (upd hn x.1 x.2 mp.2).cp + csp ≤ Q by omega)]
      apply loopTail_congr
      · omega
      · intro st' hst'
        exact ih st' (by omega)

/-! ### matchCommand -/

/-- the walker state after the optional leading `[` and `:` of the pattern -/
def mcStart (pattern : Bytes) (nums : List Int) (plen : Int) (clen : Nat) : Match.MState :=
  let st : Match.MState := { pp := 0, pl := plen, cp := 0, cl := clen, brackets := 0, numbers := nums, idx := 0,
                             oob := plen == 0 ∧ pattern.isEmpty }
  let st : Match.MState := if Match.rd pattern st.pp == 91 then { st with pp := st.pp + 1, pl := st.pl - 1, brackets := 1 } else st
  let st : Match.MState := if Match.rd pattern st.pp == 58 then { st with pp := st.pp + 1, pl := st.pl - 1 } else st
  st

/-- the leading-colon handling and the main loop -/
def mcTail (pattern cmd : Bytes) (hasNumbers : Bool) (nums : List Int) (dflt : Int) (st : Match.MState) :
    Bool × List Int × Bool :=
  let go : Option Match.MState :=
    if Match.rd cmd st.cp == 58 then
      if st.cl ≥ 2 then
        if Match.rd cmd (st.cp + 1) != 42 then some { st with cp := st.cp + 1, cl := st.cl - 1 } else none
      else some st
    else some st
  match go with
  | none => (false, nums, st.oob)
  | some st =>
    let (r, st) := Match.mainLoop pattern cmd hasNumbers dflt (pattern.length + cmd.length + 4) st
    (r, st.numbers, st.oob)

theorem matchCommand_eq (pattern cmd : Bytes) (len : Nat) (numbers : Option (List Int)) (dflt : Int) :
    Match.matchCommand pattern cmd len numbers dflt =
      let plen : Int := (pattern.takeWhile (· ≠ 0)).length
      let clen := min ((cmd.takeWhile (· ≠ 0)).length) len
      let q : Option (Int × Nat) :=
        if Match.rd pattern (plen.toNat - 1) == 63 then
          if clen > 0 ∧ Match.rd cmd (clen - 1) == 63 then some (plen - 1, clen - 1) else none
        else some (plen, clen)
      match q with
      | none => (false, numbers.getD [], plen == 0)
      | some (plen, clen) =>
        mcTail pattern cmd numbers.isSome (numbers.getD []) dflt (mcStart pattern (numbers.getD []) plen clen) := by
  rfl

theorem mcStart_cp_cl (pattern : Bytes) (nums : List Int) (plen : Int) (clen : Nat) :
    (mcStart pattern nums plen clen).cp = 0 ∧ (mcStart pattern nums plen clen).cl = clen := by
  simp only [mcStart]
  split <;> split <;> exact ⟨rfl, rfl⟩

theorem mcTail_agree {Q : Nat} {c1 c2 : Bytes} (h : Agree Q c1 c2) (pattern : Bytes) (hn : Bool)
    (nums : List Int) (dflt : Int) (st : Match.MState) (hst : st.cp + st.cl ≤ Q) :
    mcTail pattern c1 hn nums dflt st = mcTail pattern c2 hn nums dflt st := by
  simp only [mcTail]
  rw [← h.mrd (show st.cp ≤ Q by omega), ← h.len]
  by_cases h58 : (Match.rd c1 st.cp == 58) = true
  · simp only [h58, if_true]
    by_cases h2 : st.cl ≥ 2
    · simp only [h2, if_true]
      rw [← h.mrd (show st.cp + 1 ≤ Q by omega)]
      by_cases h42 : (Match.rd c1 (st.cp + 1) != 42) = true
      · simp only [h42, if_true]
        rw [mainLoop_agree h pattern hn dflt _ _ (show (st.cp + 1) + (st.cl - 1) ≤ Q by omega)]
      · simp only [h42, Bool.false_eq_true, if_false]
    · simp only [h2, if_false]
      rw [mainLoop_agree h pattern hn dflt _ _ hst]
  · simp only [h58, Bool.false_eq_true, if_false]
    rw [mainLoop_agree h pattern hn dflt _ _ hst]

theorem matchCommand_agree {Q : Nat} {c1 c2 : Bytes} (h : Agree Q c1 c2) (pattern : Bytes) (len : Nat)
    (numbers : Option (List Int)) (dflt : Int) :
    Match.matchCommand pattern c1 len numbers dflt = Match.matchCommand pattern c2 len numbers dflt := by
  have hcs : c1.takeWhile (· ≠ 0) = c2.takeWhile (· ≠ 0) := by
    have := h.cstr 0 (Nat.zero_le _)
    simpa only [List.drop_zero] using this
  have hlen : (c1.takeWhile (· ≠ 0)).length ≤ Q := takeWhile_len_le_of_getD_zero c1 Q h.nul
  rw [matchCommand_eq, matchCommand_eq]
  simp only []
  rw [← hcs]
  have hclen : min (c1.takeWhile (· ≠ 0)).length len ≤ Q := by omega
  generalize min (c1.takeWhile (· ≠ 0)).length len = clen at hclen
  rw [← h.mrd (show clen - 1 ≤ Q by omega)]
  generalize ((pattern.takeWhile (· ≠ 0)).length : Int) = plen
  have key : ∀ (pl : Int) (cl : Nat), cl ≤ clen →
      mcTail pattern c1 numbers.isSome (numbers.getD []) dflt (mcStart pattern (numbers.getD []) pl cl) =
      mcTail pattern c2 numbers.isSome (numbers.getD []) dflt (mcStart pattern (numbers.getD []) pl cl) := by
    intro pl cl hcl
    have hs := mcStart_cp_cl pattern (numbers.getD []) pl cl
    exact mcTail_agree h pattern _ _ dflt _ (by omega)
  by_cases hq : (Match.rd pattern (plen.toNat - 1) == 63) = true
  · simp only [hq, if_true]
    by_cases h2 : clen > 0 ∧ (Match.rd c1 (clen - 1) == 63) = true
    · simp only [h2, and_self, if_true]
      exact key _ _ (by omega)
    · simp only [h2, if_false]
  · simp only [hq, Bool.false_eq_true, if_false]
    exact key _ _ (Nat.le_refl _)

end ScpiVerif.Lemmas.Isolation
