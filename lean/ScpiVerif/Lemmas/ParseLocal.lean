/-
`ParseLocal` (Lemmas/ChunkingDefs.lean): `SCPI_Parse` of a message `[0, k)` whose last byte is a line
feed (or a carriage return) does not depend on the buffer bytes behind the message.

Two-run simulation of the context-level model, after `Lemmas/Isolation.lean` (C09).  There the two
buffers share a NUL behind the message; here the stopper is the last byte of the message itself, at
index `P = k - 1`:

* ParseLocalPrim.lean   buffers that agree on `[0, P]` with a line terminator at `P` (`AgreeL`); the
                        strtol/strtoul/strtod models started at a non-space byte `≤ P` stay `≤ P`;
* ParseLocalMatch.lean  `Match.matchCommand` on a header window that ends at or before `P + 1`;
* ParseLocalLex.lean    numeric program-data tokens start with a non-space byte;
* this file             the simulation: `parameter`, the typed readers, the handler scripts,
                        `processCommand`, the in-place header composition, the unit loop, `parse`.

The two contexts are equal outside `buf`, `position`, `events` (`rest c2 = rest c1`), so registers,
error queue and output state are simply equal.  Neither the "no quote characters" nor the "no CR"
hypothesis of `ParseLocal` is used.
-/
import ScpiVerif.Lemmas.ChunkingDefs
import ScpiVerif.Lemmas.Isolation
import ScpiVerif.Lemmas.ParseLocalMatch
import ScpiVerif.Lemmas.ParseLocalLex

set_option linter.unusedSimpArgs false
set_option linter.unusedVariables false

namespace ScpiVerif.Lemmas.ParseLocalAux
open ScpiVerif ScpiVerif.Lexer ScpiVerif.Ctx ScpiVerif.Result
open ScpiVerif.Lemmas.Isolation (pushError_eq pgo parameter_eq pgo_tok parameter_tok finX pcReset pcBody pcOut pcTail
  processCommand_eq find?_congr' detect_data_inside unitCmd unitCmd_prev stepUnit_eq)

/-! ## the relations -/

/-- a context without what may differ between the two runs: buffer bytes, write position, event log -/
def rest (c : Ctx) : Ctx := { c with buf := [], position := 0, events := [] }

/-- both runs append the same events -/
def Step (c1 c2 c1' c2' : Ctx) : Prop := ∃ e, c1'.events = c1.events ++ e ∧ c2'.events = c2.events ++ e

theorem Step.refl (c1 c2 : Ctx) : Step c1 c2 c1 c2 := ⟨[], by simp, by simp⟩

theorem Step.of_eq {c1 c2 c1' c2' : Ctx} (h1 : c1'.events = c1.events) (h2 : c2'.events = c2.events) :
    Step c1 c2 c1' c2' := ⟨[], by simp [h1], by simp [h2]⟩

theorem Step.trans {c1 c2 d1 d2 e1 e2 : Ctx} (h : Step c1 c2 d1 d2) (h' : Step d1 d2 e1 e2) : Step c1 c2 e1 e2 := by
  obtain ⟨e, a1, b1⟩ := h
  obtain ⟨e', a1', b1'⟩ := h'
  exact ⟨e ++ e', by rw [a1', a1, List.append_assoc], by rw [b1', b1, List.append_assoc]⟩

/-- equal outside buffer / position / events, buffers agree up to the line terminator at `P` -/
structure SimW (P : Nat) (c1 c2 : Ctx) : Prop where
  rst : rest c2 = rest c1
  buf : AgreeL P c1.buf c2.buf
  inb : P < c1.buf.length

/-- ... and the parameter window and the effective header lie inside the message -/
structure Sim (P : Nat) (c1 c2 : Ctx) : Prop where
  w : SimW P c1 c2
  win : c1.pbase + c1.plen ≤ P + 1
  rawo : c1.rawOff ≤ P
  raw : c1.rawOff + c1.rawLen ≤ P + 1

section
variable {P : Nat} {c1 c2 : Ctx}
theorem SimW.cmds (h : SimW P c1 c2) : c2.cmds = c1.cmds :=
  show (rest c2).cmds = (rest c1).cmds from congrArg Ctx.cmds h.rst
theorem SimW.choices (h : SimW P c1 c2) : c2.choices = c1.choices :=
  show (rest c2).choices = (rest c1).choices from congrArg Ctx.choices h.rst
theorem SimW.cmdError (h : SimW P c1 c2) : c2.cmdError = c1.cmdError :=
  show (rest c2).cmdError = (rest c1).cmdError from congrArg Ctx.cmdError h.rst
theorem SimW.inputCount (h : SimW P c1 c2) : c2.inputCount = c1.inputCount :=
  show (rest c2).inputCount = (rest c1).inputCount from congrArg Ctx.inputCount h.rst
theorem SimW.pbase (h : SimW P c1 c2) : c2.pbase = c1.pbase :=
  show (rest c2).pbase = (rest c1).pbase from congrArg Ctx.pbase h.rst
theorem SimW.plen (h : SimW P c1 c2) : c2.plen = c1.plen :=
  show (rest c2).plen = (rest c1).plen from congrArg Ctx.plen h.rst
theorem SimW.ppos (h : SimW P c1 c2) : c2.ppos = c1.ppos :=
  show (rest c2).ppos = (rest c1).ppos from congrArg Ctx.ppos h.rst
theorem SimW.cur (h : SimW P c1 c2) : c2.cur = c1.cur :=
  show (rest c2).cur = (rest c1).cur from congrArg Ctx.cur h.rst
theorem SimW.rawOff (h : SimW P c1 c2) : c2.rawOff = c1.rawOff :=
  show (rest c2).rawOff = (rest c1).rawOff from congrArg Ctx.rawOff h.rst
theorem SimW.rawLen (h : SimW P c1 c2) : c2.rawLen = c1.rawLen :=
  show (rest c2).rawLen = (rest c1).rawLen from congrArg Ctx.rawLen h.rst
theorem SimW.out (h : SimW P c1 c2) : c2.out = c1.out :=
  show (rest c2).out = (rest c1).out from congrArg Ctx.out h.rst
end

/-- an update that reads and writes nothing of buffer / position, and appends events that depend only
on the rest -/
structure LocW (g : Ctx → Ctx) : Prop where
  hr : ∀ c, rest (g c) = rest (g (rest c))
  hb : ∀ c, (g c).buf = c.buf
  he : ∃ ev : Ctx → List Ev, ∀ c, (g c).events = c.events ++ ev (rest c)

/-- ... and leaves the parameter window and the effective header alone -/
structure Loc (g : Ctx → Ctx) : Prop extends LocW g where
  hw : ∀ c, (g c).pbase = c.pbase ∧ (g c).plen = c.plen ∧ (g c).rawOff = c.rawOff ∧ (g c).rawLen = c.rawLen

theorem SimW.map {P : Nat} {c1 c2 : Ctx} (h : SimW P c1 c2) {g : Ctx → Ctx} (hg : LocW g) :
    SimW P (g c1) (g c2) ∧ Step c1 c2 (g c1) (g c2) := by
  obtain ⟨ev, hev⟩ := hg.he
  refine ⟨⟨?_, ?_, ?_⟩, ev (ParseLocalAux.rest c1), hev c1, ?_⟩
  · rw [hg.hr c2, hg.hr c1, h.rst]
  · rw [hg.hb, hg.hb]; exact h.buf
  · rw [hg.hb]; exact h.inb
  · rw [hev c2, h.rst]

theorem Sim.map {P : Nat} {c1 c2 : Ctx} (h : Sim P c1 c2) {g : Ctx → Ctx} (hg : Loc g) :
    Sim P (g c1) (g c2) ∧ Step c1 c2 (g c1) (g c2) := by
  obtain ⟨a, b⟩ := h.w.map hg.toLocW
  obtain ⟨w1, w2, w3, w4⟩ := hg.hw c1
  exact ⟨⟨a, by rw [w1, w2]; exact h.win, by rw [w3]; exact h.rawo, by rw [w3, w4]; exact h.raw⟩, b⟩

/-! ### the updates that occur -/

theorem loc_pushError (code : Int) (info : Option Bytes) (n : Nat) : Loc (fun c => pushError c code info n) := by
  refine ⟨⟨?_, ?_, ?_⟩, ?_⟩
  · intro c; simp only [pushError_eq]; rfl
  · intro c; simp only [pushError_eq]
  · refine ⟨fun r => [.error code (info.map (fun s => if n = 0 then s.takeWhile (· ≠ 0) else (s.takeWhile (· ≠ 0)).take n))] ++
        (if (r.eq.push r.withInfo code info n true).2.length > 1 then [.error Fifo.overflowCode none] else []), ?_⟩
    intro c; simp only [pushError_eq]; rfl
  · intro c; simp only [pushError_eq]; exact ⟨trivial, trivial, trivial, trivial⟩

theorem loc_emit (e : Ev) : Loc (fun c => emit c e) :=
  ⟨⟨fun _ => rfl, fun _ => rfl, fun _ => [e], fun _ => rfl⟩, fun _ => ⟨rfl, rfl, rfl, rfl⟩⟩

theorem loc_param (p : Nat) : Loc (fun c => { c with inputCount := c.inputCount + 1, ppos := c.pbase + p }) :=
  ⟨⟨fun _ => rfl, fun _ => rfl, fun _ => [], fun _ => by simp⟩, fun _ => ⟨rfl, rfl, rfl, rfl⟩⟩

theorem loc_ppos (p : Nat) : Loc (fun c => { c with ppos := c.pbase + p }) :=
  ⟨⟨fun _ => rfl, fun _ => rfl, fun _ => [], fun _ => by simp⟩, fun _ => ⟨rfl, rfl, rfl, rfl⟩⟩

theorem loc_out (f : Out → Out) : Loc (fun c => { c with out := f c.out }) :=
  ⟨⟨fun _ => rfl, fun _ => rfl, fun _ => [], fun _ => by simp⟩, fun _ => ⟨rfl, rfl, rfl, rfl⟩⟩

theorem loc_pcReset : Loc pcReset :=
  ⟨⟨fun _ => rfl, fun _ => rfl, fun _ => [], fun _ => by simp [pcReset]⟩, fun _ => ⟨rfl, rfl, rfl, rfl⟩⟩

/-! ## SCPI_Parameter -/

/-- two runs of a reader: related results, same new events, same return value -/
def RR {α : Type} (P : Nat) (c1 c2 : Ctx) (x1 x2 : Ctx × α) : Prop :=
  Sim P x1.1 x2.1 ∧ Step c1 c2 x1.1 x2.1 ∧ x1.2 = x2.2

theorem RR.same {α : Type} {P : Nat} {c1 c2 : Ctx} (h : Sim P c1 c2) (v : α) : RR P c1 c2 (c1, v) (c2, v) :=
  ⟨h, Step.refl _ _, rfl⟩

theorem RR.err {α : Type} {P : Nat} {c1 c2 : Ctx} (h : Sim P c1 c2) (code : Int) (v : α) :
    RR P c1 c2 (pushError c1 code none, v) (pushError c2 code none, v) :=
  ⟨(h.map (loc_pushError code none 0)).1, (h.map (loc_pushError code none 0)).2, rfl⟩

/-- continue after a first reader -/
theorem RR.trans {α : Type} {P : Nat} {c1 c2 d1 d2 : Ctx} {x1 x2 : Ctx × α} (hst : Step c1 c2 d1 d2)
    (h : RR P d1 d2 x1 x2) : RR P c1 c2 x1 x2 := ⟨h.1, hst.trans h.2.1, h.2.2⟩

theorem RR.map {α β : Type} {P : Nat} {c1 c2 : Ctx} {x1 x2 : Ctx × α} (f : α → β) (h : RR P c1 c2 x1 x2) :
    RR P c1 c2 (x1.1, f x1.2) (x2.1, f x2.2) := ⟨h.1, h.2.1, congrArg f h.2.2⟩

theorem pwin_eq {P : Nat} {c1 c2 : Ctx} (h : Sim P c1 c2) : pwin c2 = pwin c1 := by
  unfold pwin
  rw [h.w.pbase, h.w.plen]
  exact (h.w.buf.window _ _ h.win).symm

theorem pgo_sim {P : Nat} {c1 c2 : Ctx} (h : Sim P c1 c2) (rel : Nat) : RR P c1 c2 (pgo c1 rel) (pgo c2 rel) := by
  unfold pgo
  simp only []
  rw [pwin_eq h]
  generalize Parser.parseProgramData (pwin c1) rel = x
  obtain ⟨p, tok, r⟩ := x
  simp only []
  obtain ⟨hs, hst⟩ := h.map (loc_param p)
  cases tok.type <;> simp only [] <;>
    first
    | exact ⟨hs, hst, by simp [h.w.pbase]⟩
    | exact RR.trans hst (RR.err hs _ _)

theorem parameter_sim {P : Nat} {c1 c2 : Ctx} (h : Sim P c1 c2) (mand : Bool) :
    RR P c1 c2 (parameter c1 mand) (parameter c2 mand) := by
  rw [parameter_eq, parameter_eq]
  have e0 : (c2.ppos ≥ c2.pbase + c2.plen) = (c1.ppos ≥ c1.pbase + c1.plen) := by
    rw [h.w.ppos, h.w.pbase, h.w.plen]
  have e1 : (c2.inputCount != 0) = (c1.inputCount != 0) := by rw [h.w.inputCount]
  have e2 : c2.ppos - c2.pbase = c1.ppos - c1.pbase := by rw [h.w.ppos, h.w.pbase]
  simp only [e0, e1, e2, pwin_eq h]
  by_cases h1 : c1.ppos ≥ c1.pbase + c1.plen
  · rw [if_pos h1, if_pos h1]
    cases mand
    · exact RR.same h _
    · exact RR.err h _ _
  · rw [if_neg h1, if_neg h1]
    by_cases h2 : (c1.inputCount != 0) = true
    · rw [if_pos h2, if_pos h2]
      obtain ⟨hs, hst⟩ := h.map (loc_ppos (Lexer.lexComma (pwin c1) (c1.ppos - c1.pbase)).1)
      by_cases h3 : ((Lexer.lexComma (pwin c1) (c1.ppos - c1.pbase)).2.1.type != .comma) = true
      · rw [if_pos h3, if_pos h3]
        exact RR.trans hst (RR.err hs _ _)
      · rw [if_neg h3, if_neg h3]
        exact RR.trans hst (pgo_sim hs _)
    · rw [if_neg h2, if_neg h2]
      exact pgo_sim h _

theorem parameter_tokP {P : Nat} {c1 c2 : Ctx} (h : Sim P c1 c2) (mand : Bool) :
    (parameter c1 mand).2.1 = true →
      (parameter c1 mand).2.2.ptr + (parameter c1 mand).2.2.len.toNat ≤ P + 1 := by
  intro hh
  have := parameter_tok c1 mand (by have := h.win; have := h.w.inb; omega) hh
  have := h.win
  omega

/-! ### a numeric token starts at a non-space byte inside the window -/

theorem pwin_get (c : Ctx) (i : Nat) (b : UInt8) (h : (pwin c)[i]? = some b) :
    i < c.plen ∧ Prim.rd c.buf (c.pbase + i) = b := by
  unfold pwin at h
  simp only [List.getElem?_take, List.getElem?_drop] at h
  split at h
  · refine ⟨by assumption, ?_⟩
    simp only [Prim.rd, List.getD_eq_getElem?_getD, h, Option.getD_some]
  · cases h

theorem pgo_num (c : Ctx) (rel : Nat) :
    (pgo c rel).2.1 = true → numType (pgo c rel).2.2.type = true →
      (pgo c rel).2.2.ptr < c.pbase + c.plen ∧ Prim.isSpace (Prim.rd c.buf (pgo c rel).2.2.ptr) = false := by
  have hn := programData_num_first (pwin c) rel
  unfold pgo
  simp only []
  generalize Parser.parseProgramData (pwin c) rel = x at hn
  obtain ⟨p, tok, r⟩ := x
  simp only at hn ⊢
  cases htt : tok.type <;> simp only [] <;> intro hh <;>
    first
    | (exact absurd hh (by decide))
    | (intro ht; exact absurd ht (by decide))
    | (intro _
       obtain ⟨b, hb, hsp⟩ := hn (by rw [htt]; rfl)
       obtain ⟨g1, g2⟩ := pwin_get c tok.ptr b hb
       exact ⟨by omega, by rw [g2]; exact hsp⟩)

theorem parameter_num (c : Ctx) (mand : Bool) :
    (parameter c mand).2.1 = true → numType (parameter c mand).2.2.type = true →
      (parameter c mand).2.2.ptr < c.pbase + c.plen ∧
      Prim.isSpace (Prim.rd (parameter c mand).1.buf (parameter c mand).2.2.ptr) = false := by
  have hbuf : (parameter c mand).1.buf = c.buf := (Bounds.core_proj (Bounds.core_parameter c mand)).1
  rw [hbuf]
  rw [parameter_eq]
  split
  · split <;> intro hh <;> simp at hh
  · split
    · split
      · intro hh; simp at hh
      · exact pgo_num { c with ppos := c.pbase + (Lexer.lexComma (pwin c) (c.ppos - c.pbase)).1 } _
    · exact pgo_num c _

theorem parameter_numP {P : Nat} {c1 c2 : Ctx} (h : Sim P c1 c2) (mand : Bool) :
    (parameter c1 mand).2.1 = true → numType (parameter c1 mand).2.2.type = true →
      (parameter c1 mand).2.2.ptr ≤ P ∧
      Prim.isSpace (Prim.rd (parameter c1 mand).1.buf (parameter c1 mand).2.2.ptr) = false := by
  intro h1 h2
  obtain ⟨a, b⟩ := parameter_num c1 mand h1 h2
  have := h.win
  exact ⟨by omega, b⟩

/-! ## the typed readers -/

theorem AgreeL.window' {P : Nat} {b1 b2 : Bytes} (h : AgreeL P b1 b2) (a n : Nat) (hb : n = 0 ∨ a + n ≤ P + 1) :
    (b1.drop a).take n = (b2.drop a).take n := by
  rcases hb with hb | hb
  · subst hb; simp
  · exact h.window a n hb

-- opens a reader: both runs of `parameter` are replaced by related results `(d1, ok1, t1)`, `(d2, ok1, t1)`
set_option hygiene false in
macro "open_param" h:ident m:ident : tactic => `(tactic|
  (have hp := parameter_sim $h $m
   have hb := parameter_tokP $h $m
   have hn := parameter_numP $h $m
   generalize parameter _ $m = x1 at hp hb hn
   generalize parameter _ $m = x2 at hp
   obtain ⟨d1, ok1, t1⟩ := x1
   obtain ⟨d2, ok2, t2⟩ := x2
   obtain ⟨hs, hst, hv⟩ := hp
   simp only [Prod.mk.injEq] at hv
   obtain ⟨hv1, hv2⟩ := hv
   subst hv1
   subst hv2
   simp only [] at hs hst hb hn ⊢
   apply RR.trans hst))

theorem paramToInt_eq {P : Nat} {c1 c2 : Ctx} (h : Sim P c1 c2) (t : Token) (w : Nat) (s : Bool)
    (ht : numType t.type = true → t.ptr ≤ P ∧ Prim.isSpace (Prim.rd c1.buf t.ptr) = false) :
    paramToInt c2 t w s = paramToInt c1 t w s := by
  by_cases hnum : numType t.type = true
  · obtain ⟨a, b⟩ := ht hnum
    have e1 : ∀ base, Prim.strtoulTo w c2.buf t.ptr base = Prim.strtoulTo w c1.buf t.ptr base :=
      fun bs => (strtoulTo_agree h.w.buf w t.ptr bs a b).symm
    have e2 : ∀ base, Prim.strtolTo w c2.buf t.ptr base = Prim.strtolTo w c1.buf t.ptr base :=
      fun bs => (strtolTo_agree h.w.buf w t.ptr bs a b).symm
    unfold paramToInt
    simp only [e1, e2]
  · unfold paramToInt
    simp only []
    cases htt : t.type <;> simp only [] <;> first | rfl | (exfalso; apply hnum; rw [htt]; rfl)

theorem isNumber_numType (t : Token) (b : Bool) (h : isNumber t b = true) : numType t.type = true := by
  unfold isNumber at h
  unfold numType
  cases htt : t.type <;> simp only [htt] at h ⊢ <;> first | rfl | (exact absurd h (by decide)) | skip
  all_goals trivial

theorem paramInt_sim {P : Nat} {c1 c2 : Ctx} (h : Sim P c1 c2) (w : Nat) (s m : Bool) :
    RR P c1 c2 (paramInt c1 w s m) (paramInt c2 w s m) := by
  unfold paramInt
  open_param h m
  cases ok1
  · exact RR.same hs _
  · simp only [Bool.not_true, Bool.false_eq_true, if_false]
    rw [paramToInt_eq hs t1 w s (hn rfl)]
    split
    · generalize paramToInt d1 t1 w s = y
      obtain ⟨r, v⟩ := y
      simp only []
      split
      · exact RR.same hs _
      · exact RR.err hs _ _
    · split
      · exact RR.err hs _ _
      · exact RR.err hs _ _

theorem paramFloat_sim {P : Nat} {c1 c2 : Ctx} (h : Sim P c1 c2) (dbl m : Bool) :
    RR P c1 c2 (paramFloat c1 dbl m) (paramFloat c2 dbl m) := by
  unfold paramFloat
  open_param h m
  cases ok1
  · exact RR.same hs _
  · simp only [Bool.not_true, Bool.false_eq_true, if_false]
    rw [paramToInt_eq hs t1 _ false (hn rfl)]
    split
    · rename_i hnum
      obtain ⟨ht, hsp⟩ := hn rfl (isNumber_numType _ _ hnum)
      obtain ⟨f1, f2⟩ := strtodLen_agree hs.w.buf t1.ptr ht hsp
      have f3 : (d2.buf.drop t1.ptr).take (Prim.strtodLen d1.buf t1.ptr) =
          (d1.buf.drop t1.ptr).take (Prim.strtodLen d1.buf t1.ptr) := (hs.w.buf.window _ _ (by omega)).symm
      rw [← f1, f3]
      split
      · exact RR.same hs _
      · exact RR.same hs _
    · split
      · exact RR.err hs _ _
      · exact RR.err hs _ _

theorem paramToChoice_sim {P : Nat} {c1 c2 : Ctx} (h : Sim P c1 c2) (t : Token) (opts : List (Bytes × Int))
    (ht : t.ptr + t.len.toNat ≤ P + 1) :
    RR P c1 c2 (paramToChoice c1 t opts) (paramToChoice c2 t opts) := by
  unfold paramToChoice
  have e : (c2.buf.drop t.ptr).take t.len.toNat = (c1.buf.drop t.ptr).take t.len.toNat :=
    (h.w.buf.window _ _ ht).symm
  simp only [e]
  split
  · split
    · exact RR.same h _
    · exact RR.err h _ _
  · exact RR.err h _ _

theorem paramBool_sim {P : Nat} {c1 c2 : Ctx} (h : Sim P c1 c2) (m : Bool) :
    RR P c1 c2 (paramBool c1 m) (paramBool c2 m) := by
  unfold paramBool
  open_param h m
  cases ok1
  · exact RR.same hs _
  · have ht := hb rfl
    simp only [Bool.not_true, Bool.false_eq_true, if_false]
    rw [paramToInt_eq hs t1 32 true (hn rfl)]
    split
    · exact RR.same hs _
    · exact RR.map (fun p : Bool × Int => (p.1, p.2 != 0)) (paramToChoice_sim hs t1 boolDef (by omega))

theorem paramChoice_sim {P : Nat} {c1 c2 : Ctx} (h : Sim P c1 c2) (m : Bool) (opts : List (Bytes × Int)) :
    RR P c1 c2 (paramChoice c1 m opts) (paramChoice c2 m opts) := by
  unfold paramChoice
  open_param h m
  cases ok1
  · exact RR.same hs _
  · have ht := hb rfl
    simp only [Bool.not_true, Bool.false_eq_true, if_false]
    exact paramToChoice_sim hs t1 opts (by omega)

theorem paramChars_sim {P : Nat} {c1 c2 : Ctx} (h : Sim P c1 c2) (m : Bool) :
    RR P c1 c2 (paramChars c1 m) (paramChars c2 m) := by
  unfold paramChars
  open_param h m
  cases ok1
  · exact RR.same hs _
  · have ht := hb rfl
    simp only [Bool.not_true, Bool.false_eq_true, if_false]
    have e1 : (d2.buf.drop t1.ptr).take t1.len.toNat = (d1.buf.drop t1.ptr).take t1.len.toNat :=
      (hs.w.buf.window _ _ (by omega)).symm
    have e2 : (d2.buf.drop (t1.ptr + 1)).take (t1.len.toNat - 2) = (d1.buf.drop (t1.ptr + 1)).take (t1.len.toNat - 2) :=
      (hs.w.buf.window' _ _ (by omega)).symm
    rw [e1, e2]
    split <;> exact RR.same hs _

theorem paramBlock_sim {P : Nat} {c1 c2 : Ctx} (h : Sim P c1 c2) (m : Bool) :
    RR P c1 c2 (paramBlock c1 m) (paramBlock c2 m) := by
  unfold paramBlock
  open_param h m
  cases ok1
  · exact RR.same hs _
  · have ht := hb rfl
    simp only [Bool.not_true, Bool.false_eq_true, if_false]
    have e1 : (d2.buf.drop t1.ptr).take t1.len.toNat = (d1.buf.drop t1.ptr).take t1.len.toNat :=
      (hs.w.buf.window _ _ (by omega)).symm
    rw [e1]
    split
    · exact RR.same hs _
    · exact RR.err hs _ _

theorem paramText_sim {P : Nat} {c1 c2 : Ctx} (h : Sim P c1 c2) (m : Bool) (cap : Nat) :
    RR P c1 c2 (paramText c1 m cap) (paramText c2 m cap) := by
  unfold paramText
  open_param h m
  cases ok1
  · exact RR.same hs _
  · have ht := hb rfl
    simp only [Bool.not_true, Bool.false_eq_true, if_false]
    have e1 : (d2.buf.drop t1.ptr).take t1.len.toNat = (d1.buf.drop t1.ptr).take t1.len.toNat :=
      (hs.w.buf.window _ _ (by omega)).symm
    rw [e1]
    split
    · exact RR.same hs _
    · exact RR.same hs _
    · exact RR.err hs _ _

theorem paramArr_go_sim {P : Nat} (w : Nat) (s : Bool) : ∀ (n : Nat) (c1 c2 : Ctx) (m : Bool) (acc : List Int),
    Sim P c1 c2 → RR P c1 c2 (paramArrInt.go w s n c1 m acc) (paramArrInt.go w s n c2 m acc) := by
  intro n
  induction n with
  | zero => intro c1 c2 m acc h; exact RR.same h _
  | succ n ih =>
    intro c1 c2 m acc h
    unfold paramArrInt.go
    have hp := paramInt_sim h w s m
    generalize paramInt c1 w s m = x1 at hp
    generalize paramInt c2 w s m = x2 at hp
    obtain ⟨d1, ok1, v1⟩ := x1
    obtain ⟨d2, ok2, v2⟩ := x2
    obtain ⟨hs, hst, hv⟩ := hp
    simp only [Prod.mk.injEq] at hv
    obtain ⟨hv1, hv2⟩ := hv
    subst hv1
    subst hv2
    simp only [] at hs hst ⊢
    apply RR.trans hst
    split
    · exact ih d1 d2 false _ hs
    · exact RR.same hs _

theorem paramArrInt_sim {P : Nat} {c1 c2 : Ctx} (h : Sim P c1 c2) (w : Nat) (s : Bool) (cap : Nat) (m : Bool) :
    RR P c1 c2 (paramArrInt c1 w s cap m) (paramArrInt c2 w s cap m) :=
  paramArr_go_sim w s cap c1 c2 m [] h

theorem paramNumber_sim {P : Nat} {c1 c2 : Ctx} (h : Sim P c1 c2) (m : Bool) :
    RR P c1 c2 (paramNumber c1 m) (paramNumber c2 m) := by
  unfold paramNumber
  open_param h m
  cases ok1
  · exact RR.same hs _
  · have ht := hb rfl
    simp only [Bool.not_true, Bool.false_eq_true, if_false]
    have e1 : (d2.buf.drop t1.ptr).take t1.len.toNat = (d1.buf.drop t1.ptr).take t1.len.toNat :=
      (hs.w.buf.window _ _ (by omega)).symm
    have hd : numType t1.type = true →
        Prim.strtodLen d2.buf t1.ptr = Prim.strtodLen d1.buf t1.ptr ∧
        (d2.buf.drop t1.ptr).take (Prim.strtodLen d1.buf t1.ptr) =
          (d1.buf.drop t1.ptr).take (Prim.strtodLen d1.buf t1.ptr) := by
      intro hnum
      obtain ⟨ht', hsp⟩ := hn rfl hnum
      obtain ⟨f1, f2⟩ := strtodLen_agree hs.w.buf t1.ptr ht' hsp
      exact ⟨f1.symm, (hs.w.buf.window _ _ (by omega)).symm⟩
    rw [e1, paramToInt_eq hs t1 64 false (hn rfl)]
    generalize htb : (d1.buf.drop t1.ptr).take t1.len.toNat = tokBytes
    have hlen : tokBytes.length ≤ t1.len.toNat := by rw [← htb]; exact Bounds.window_length_le _ _ _
    cases htt : t1.type <;> simp only []
    all_goals first
      | exact RR.err hs _ _
      | exact RR.same hs _
      | skip
    case decimal =>
      obtain ⟨f1, f3⟩ := hd (by rw [htt]; rfl)
      rw [f1, f3]
      exact RR.same hs _
    case decimalWithSuffix =>
      obtain ⟨f1, f3⟩ := hd (by rw [htt]; rfl)
      rw [f1, f3]
      split
      · exact RR.same hs _
      · split
        · exact RR.same hs _
        · exact RR.err hs _ _
    case programMnemonic =>
      have hw := Bounds.lb_whiteSpace tokBytes 0 (Nat.zero_le _)
      have hc := (Bounds.lb_characterData tokBytes _ hw.2.1).2.2.2
      generalize Lexer.lexCharacterProgramData tokBytes (Lexer.lexWhiteSpace tokBytes 0).1 = ct at hc ⊢
      obtain ⟨cp, ctok, cr⟩ := ct
      simp only [] at hc ⊢
      exact RR.map (fun p : Bool × Int => Ev.pNumber p.1 true p.2 [] 0 1 1 10)
        (paramToChoice_sim hs _ specialDef (by simp only []; omega))

/-! ## handler scripts -/

/-- related handler states -/
structure HS (P : Nat) (h1 h2 : HState) : Prop where
  sim : Sim P h1.c h2.c
  stopOnFail : h2.stopOnFail = h1.stopOnFail
  result : h2.result = h1.result
  done : h2.done = h1.done

def HR (P : Nat) (h1 h2 r1 r2 : HState) : Prop := HS P r1 r2 ∧ Step h1.c h2.c r1.c r2.c

theorem fin_sim {α : Type} {P : Nat} {h1 h2 : HState} (hh : HS P h1 h2) {x1 x2 : Ctx × α}
    (hr : RR P h1.c h2.c x1 x2) (okf : α → Bool) (E : α → Ev) :
    HR P h1 h2 (finX h1 x1.1 (okf x1.2) (E x1.2)) (finX h2 x2.1 (okf x2.2) (E x2.2)) := by
  obtain ⟨d1, v1⟩ := x1
  obtain ⟨d2, v2⟩ := x2
  obtain ⟨hs, hst, hv⟩ := hr
  simp only at hs hst hv
  subst hv
  obtain ⟨hse, hste⟩ := hs.map (loc_emit (E v1))
  have hst2 : Step h1.c h2.c (emit d1 (E v1)) (emit d2 (E v1)) := hst.trans hste
  unfold finX
  by_cases hc : (!okf v1) = true ∧ h1.stopOnFail = true
  · have hc2 : (!okf v1) = true ∧ h2.stopOnFail = true := by rw [hh.stopOnFail]; exact hc
    rw [if_pos hc, if_pos hc2]
    exact ⟨⟨hse, hh.stopOnFail, rfl, rfl⟩, hst2⟩
  · have hc2 : ¬ ((!okf v1) = true ∧ h2.stopOnFail = true) := by rw [hh.stopOnFail]; exact hc
    rw [if_neg hc, if_neg hc2]
    exact ⟨⟨hse, hh.stopOnFail, hh.result, hh.done⟩, hst2⟩

theorem out_sim {P : Nat} {h1 h2 : HState} (hh : HS P h1 h2) (f : Out → Out) :
    HR P h1 h2 { h1 with c := { h1.c with out := f h1.c.out } } { h2 with c := { h2.c with out := f h2.c.out } } := by
  obtain ⟨a, b⟩ := hh.sim.map (loc_out f)
  exact ⟨⟨a, hh.stopOnFail, hh.result, hh.done⟩, b⟩

theorem out_err_sim {P : Nat} {h1 h2 : HState} (hh : HS P h1 h2) (f : Out → Out) :
    HR P h1 h2
      { h1 with c := if (f h1.c.out).pushed.length > h1.c.out.pushed.length
                     then pushError { h1.c with out := f h1.c.out } (-310) none else { h1.c with out := f h1.c.out } }
      { h2 with c := if (f h2.c.out).pushed.length > h2.c.out.pushed.length
                     then pushError { h2.c with out := f h2.c.out } (-310) none else { h2.c with out := f h2.c.out } } := by
  obtain ⟨hs, hst⟩ := hh.sim.map (loc_out f)
  have e : ((f h2.c.out).pushed.length > h2.c.out.pushed.length) = ((f h1.c.out).pushed.length > h1.c.out.pushed.length) := by
    rw [hh.sim.w.out]
  simp only [e]
  split
  · obtain ⟨a, b⟩ := hs.map (loc_pushError (-310) none 0)
    exact ⟨⟨a, hh.stopOnFail, hh.result, hh.done⟩, hst.trans b⟩
  · exact ⟨⟨hs, hh.stopOnFail, hh.result, hh.done⟩, hst⟩

/-! ## the library's own handlers -/

/-- what a handler that reads no parameter does to the context (`Lemmas.Builtin.runBuiltin_pure`) -/
def pureBuiltin (b : Builtin) (c : Ctx) : Ctx :=
  { c with regs := Lemmas.Builtin.bRegs c.regs b, eq := Lemmas.Builtin.bEq c.eq b,
           out := Lemmas.Builtin.bOut c.regs c.eq b c.out, events := c.events ++ Lemmas.Builtin.bEvs c.regs b }

theorem loc_pureBuiltin (b : Builtin) : Loc (pureBuiltin b) :=
  ⟨⟨fun _ => rfl, fun _ => rfl, fun r => Lemmas.Builtin.bEvs r.regs b, fun _ => rfl⟩, fun _ => ⟨rfl, rfl, rfl, rfl⟩⟩

theorem loc_regStep (op : Regs.Op) : Loc (fun c => regStep c op) :=
  ⟨⟨fun _ => rfl, fun _ => rfl, fun _ => [], fun _ => by simp [regStep]⟩, fun _ => ⟨rfl, rfl, rfl, rfl⟩⟩

theorem runBuiltin_sim {P : Nat} {c1 c2 : Ctx} (h : Sim P c1 c2) (b : Builtin) :
    RR P c1 c2 (runBuiltin c1 b) (runBuiltin c2 b) := by
  cases hp : Lemmas.Builtin.paramReg b with
  | none =>
    rw [Lemmas.Builtin.runBuiltin_pure c1 b hp, Lemmas.Builtin.runBuiltin_pure c2 b hp]
    obtain ⟨a, b'⟩ := h.map (loc_pureBuiltin b)
    exact ⟨a, b', rfl⟩
  | some pr =>
    obtain ⟨reg, strict⟩ := pr
    rw [Lemmas.Builtin.runBuiltin_param c1 b reg strict hp, Lemmas.Builtin.runBuiltin_param c2 b reg strict hp,
      Lemmas.Builtin.regFromParam_eq, Lemmas.Builtin.regFromParam_eq]
    have hpi := paramInt_sim h 32 true true
    generalize paramInt c1 32 true true = x1 at hpi
    generalize paramInt c2 32 true true = x2 at hpi
    obtain ⟨d1, ok1, v1⟩ := x1
    obtain ⟨d2, ok2, v2⟩ := x2
    obtain ⟨hs, hst, hv⟩ := hpi
    simp only [Prod.mk.injEq] at hv
    obtain ⟨hv1, hv2⟩ := hv
    subst hv1
    subst hv2
    dsimp only at hs hst ⊢
    cases ok1
    · exact ⟨hs, hst, rfl⟩
    · obtain ⟨a, b'⟩ := hs.map (loc_regStep (.set reg (Regs.bv v1)))
      exact ⟨a, hst.trans b', rfl⟩

theorem runOp_sim {P : Nat} {h1 h2 : HState} (hh : HS P h1 h2) (op : SOp) :
    HR P h1 h2 (runOp h1 op) (runOp h2 op) := by
  unfold runOp
  by_cases hd : h1.done = true
  · have hd2 : h2.done = true := by rw [hh.done]; exact hd
    rw [if_pos hd, if_pos hd2]; exact ⟨hh, Step.refl _ _⟩
  · have hd2 : ¬ h2.done = true := by rw [hh.done]; exact hd
    rw [if_neg hd, if_neg hd2]
    cases op <;> simp only []
    case pInt w s m => exact fin_sim hh (paramInt_sim hh.sim w s m) (fun p => p.1) (fun p => .pInt p.1 p.2)
    case pFloat d m => exact fin_sim hh (paramFloat_sim hh.sim d m) (fun p => p.1) (fun p => .pLit p.1 p.2)
    case pBool m => exact fin_sim hh (paramBool_sim hh.sim m) (fun p => p.1) (fun p => .pBool p.1 p.2)
    case pChoice m k =>
      rw [hh.sim.w.choices]
      exact fin_sim hh (paramChoice_sim hh.sim m _) (fun p => p.1) (fun p => .pChoice p.1 p.2)
    case pNumber m =>
      exact fin_sim hh (paramNumber_sim hh.sim m) (fun e => match e with | .pNumber ok .. => ok | _ => false) (fun e => e)
    case pChars m => exact fin_sim hh (paramChars_sim hh.sim m) (fun p => p.1) (fun p => .pBytes p.1 p.2.1 p.2.2)
    case pBlock m => exact fin_sim hh (paramBlock_sim hh.sim m) (fun p => p.1) (fun p => .pBytes p.1 p.2.1 p.2.2)
    case pText m cap => exact fin_sim hh (paramText_sim hh.sim m cap) (fun p => p.1) (fun p => .pText p.1 p.2.1 p.2.2)
    case pArrInt w s cap m => exact fin_sim hh (paramArrInt_sim hh.sim w s cap m) (fun p => p.1) (fun p => .pArr p.1 p.2)
    case rInt w s v b => exact out_sim hh (fun o => Result.resultIntBaseSign o w v b s)
    case rIntN n s v b => exact out_sim hh (fun o => Result.resultIntBaseSign o 32 _ b s)
    case rFloatText t => exact out_sim hh (fun o => Result.resultFloatText o t)
    case rBool b => exact out_sim hh (fun o => Result.resultBool o b)
    case rText d => exact out_sim hh (fun o => Result.resultText o d)
    case rChars d => exact out_sim hh (fun o => Result.resultCharacters o d)
    case rBlock d => exact out_sim hh (fun o => Result.resultBlock o d)
    case rBlockHeader n => exact out_sim hh (fun o => Result.resultBlockHeader o n)
    case rBlockData d => exact out_err_sim hh (fun o => Result.resultBlockData o d)
    case rArrBin sz es same => exact out_err_sim hh (fun o => Result.resultArrayBinary o es sz same)
    case ePush code info =>
      obtain ⟨a, b⟩ := hh.sim.map (loc_pushError code info 0)
      exact ⟨⟨a, hh.stopOnFail, hh.result, hh.done⟩, b⟩
    case iTag =>
      rw [hh.sim.w.cur]
      obtain ⟨a, b⟩ := hh.sim.map (loc_emit (.tag (match h1.c.cur with | some cmd => cmd.tag | none => 0)))
      exact ⟨⟨a, hh.stopOnFail, hh.result, hh.done⟩, b⟩
    case iIsCmd s =>
      rw [hh.sim.w.cur]
      obtain ⟨a, b⟩ := hh.sim.map (loc_emit (.test (match h1.c.cur with
        | some cmd => (Match.matchCommand cmd.pattern (s.takeWhile (· ≠ 0)) (s.takeWhile (· ≠ 0)).length none 0).1 | none => false)))
      exact ⟨⟨a, hh.stopOnFail, hh.result, hh.done⟩, b⟩
    case iMatch pat s =>
      obtain ⟨a, b⟩ := hh.sim.map (loc_emit (.test (Match.matchCommand pat s s.length none 0).1))
      exact ⟨⟨a, hh.stopOnFail, hh.result, hh.done⟩, b⟩
    case iNums n d =>
      rw [hh.sim.w.cur]
      split
      · rename_i cmd _
        have hr := hh.sim.raw
        have hro := hh.sim.rawo
        have := matchCommand_agree (hh.sim.w.buf.drop h1.c.rawOff hro) cmd.pattern h1.c.rawLen
          (some (List.replicate n (-777))) d (by omega)
        rw [hh.sim.w.rawOff, hh.sim.w.rawLen, ← this]
        obtain ⟨a, b⟩ := hh.sim.map (loc_emit (.nums
          (Match.matchCommand cmd.pattern (h1.c.buf.drop h1.c.rawOff) h1.c.rawLen (some (List.replicate n (-777))) d).1
          (Match.matchCommand cmd.pattern (h1.c.buf.drop h1.c.rawOff) h1.c.rawLen (some (List.replicate n (-777))) d).2.1))
        exact ⟨⟨a, hh.stopOnFail, hh.result, hh.done⟩, b⟩
      · exact ⟨hh, Step.refl _ _⟩
    case onFail s => exact ⟨⟨hh.sim, rfl, hh.result, hh.done⟩, Step.refl _ _⟩
    case ret ok => exact ⟨⟨hh.sim, hh.stopOnFail, rfl, rfl⟩, Step.refl _ _⟩
    case builtin b =>
      obtain ⟨hs, hst, hv⟩ := runBuiltin_sim hh.sim b
      rw [← hv]
      split
      · exact ⟨⟨hs, hh.stopOnFail, hh.result, hh.done⟩, hst⟩
      · exact ⟨⟨hs, hh.stopOnFail, rfl, rfl⟩, hst⟩

theorem foldl_runOp_sim {P : Nat} (s : List SOp) : ∀ {h1 h2 : HState}, HS P h1 h2 →
    HR P h1 h2 (s.foldl runOp h1) (s.foldl runOp h2) := by
  induction s with
  | nil => intro h1 h2 hh; exact ⟨hh, Step.refl _ _⟩
  | cons op s ih =>
    intro h1 h2 hh
    rw [List.foldl_cons, List.foldl_cons]
    obtain ⟨a, b⟩ := runOp_sim hh op
    obtain ⟨a', b'⟩ := ih a
    exact ⟨a', b.trans b'⟩

theorem runScript_sim {P : Nat} {c1 c2 : Ctx} (h : Sim P c1 c2) (s : List SOp) :
    RR P c1 c2 (runScript c1 s) (runScript c2 s) := by
  unfold runScript
  obtain ⟨a, b⟩ := foldl_runOp_sim (P := P) s (h1 := { c := c1 }) (h2 := { c := c2 }) ⟨h, rfl, rfl, rfl⟩
  exact ⟨a.sim, b, a.result.symm⟩

/-! ## processCommand -/

theorem pcBody_tail {P : Nat} {c1 c2 : Ctx} {x1 x2 : Ctx × Bool} (h : RR P c1 c2 x1 x2) :
    RR P c1 c2
      (if !x1.2 then ((if !x1.1.cmdError then pushError x1.1 (-200) none else x1.1), false) else (x1.1, !x1.1.cmdError))
      (if !x2.2 then ((if !x2.1.cmdError then pushError x2.1 (-200) none else x2.1), false) else (x2.1, !x2.1.cmdError)) := by
  obtain ⟨d1, r1⟩ := x1
  obtain ⟨d2, r2⟩ := x2
  obtain ⟨hs, hst, hv⟩ := h
  simp only at hs hst hv
  subst hv
  simp only []
  apply RR.trans hst
  rw [hs.w.cmdError]
  split
  · split
    · exact RR.err hs _ _
    · exact RR.same hs _
  · exact RR.same hs _

theorem pcBody_sim {P : Nat} {c1 c2 : Ctx} (h : Sim P c1 c2) : RR P c1 c2 (pcBody c1) (pcBody c2) := by
  unfold pcBody
  rw [h.w.cur]
  split
  · rename_i cmd _
    have hr := h.raw
    have e : (c2.buf.drop c2.rawOff).take c2.rawLen = (c1.buf.drop c1.rawOff).take c1.rawLen := by
      rw [h.w.rawOff, h.w.rawLen]; exact (h.w.buf.window _ _ hr).symm
    rw [e]
    obtain ⟨hs0, hst0⟩ := h.map (loc_emit (.handler cmd.tag ((c1.buf.drop c1.rawOff).take c1.rawLen)))
    have hp := runScript_sim hs0 cmd.script
    exact pcBody_tail (RR.trans hst0 hp)
  · exact RR.same h _

theorem pcTail_sim {P : Nat} {c1 c2 : Ctx} {x1 x2 : Ctx × Bool} (h : RR P c1 c2 x1 x2) :
    RR P c1 c2 (pcTail x1) (pcTail x2) := by
  obtain ⟨d1, r1⟩ := x1
  obtain ⟨d2, r2⟩ := x2
  obtain ⟨hs, hst, hv⟩ := h
  simp only at hs hst hv
  subst hv
  unfold pcTail
  simp only []
  obtain ⟨hs', hst0⟩ := hs.map (loc_out pcOut)
  have hst' : Step c1 c2 { d1 with out := pcOut d1.out } { d2 with out := pcOut d2.out } := hst.trans hst0
  have e : (d2.ppos < d2.pbase + d2.plen ∧ (!d2.cmdError) = true) = (d1.ppos < d1.pbase + d1.plen ∧ (!d1.cmdError) = true) := by
    rw [hs.w.ppos, hs.w.pbase, hs.w.plen, hs.w.cmdError]
  by_cases hc : d1.ppos < d1.pbase + d1.plen ∧ (!d1.cmdError) = true
  · rw [if_pos hc, if_pos (e ▸ hc)]
    exact RR.trans hst' (RR.err hs' _ _)
  · rw [if_neg hc, if_neg (e ▸ hc)]
    exact ⟨hs', hst', rfl⟩

theorem processCommand_sim {P : Nat} {c1 c2 : Ctx} (h : Sim P c1 c2) :
    RR P c1 c2 (processCommand c1) (processCommand c2) := by
  rw [processCommand_eq, processCommand_eq]
  obtain ⟨a, b⟩ := h.map loc_pcReset
  exact pcTail_sim (RR.trans b (pcBody_sim a))

/-! ## in-place composition of compound headers -/

theorem AgreeL.foldl_set {P : Nat} {α : Type} (g : α → Nat) (v : α → UInt8) :
    ∀ (l : List α) (b1 b2 : Bytes), AgreeL P b1 b2 → (∀ a ∈ l, g a < P) →
      AgreeL P (l.foldl (fun b a => b.set (g a) (v a)) b1) (l.foldl (fun b a => b.set (g a) (v a)) b2) := by
  intro l
  induction l with
  | nil => intro b1 b2 h _; exact h
  | cons a l ih =>
    intro b1 b2 h hl
    rw [List.foldl_cons, List.foldl_cons]
    exact ih _ _ (h.set _ _ (hl a (List.mem_cons_self))) (fun a' h' => hl a' (List.mem_cons_of_mem _ h'))

theorem AgreeL.store {P : Nat} {b1 b2 : Bytes} (h : AgreeL P b1 b2) (src : Bytes) (start : Nat)
    (hb : start + src.length ≤ P) :
    AgreeL P ((src.zipIdx).foldl (fun b (x, k) => b.set (start + k) x) b1)
            ((src.zipIdx).foldl (fun b (x, k) => b.set (start + k) x) b2) := by
  apply AgreeL.foldl_set (fun (p : UInt8 × Nat) => start + p.2) (fun p => p.1) src.zipIdx b1 b2 h
  intro a ha
  have := List.snd_lt_of_mem_zipIdx ha
  show start + a.2 < P
  omega

theorem composeCompound_agree {P : Nat} {b1 b2 : Bytes} (h : AgreeL P b1 b2) (prev : Option (Nat × Nat))
    (cur : Nat × Nat) (hcur : cur.1 ≤ P) (hprev : ∀ pp pl, prev = some (pp, pl) → pp + pl ≤ cur.1) :
    (Match.composeCompound b1 prev cur).2 = (Match.composeCompound b2 prev cur).2 ∧
    AgreeL P (Match.composeCompound b1 prev cur).1 (Match.composeCompound b2 prev cur).1 := by
  unfold Match.composeCompound
  by_cases h0 : (cur.2 == 0) = true
  · simp only [h0, ↓reduceIte]; exact ⟨by first | trivial | rfl, h⟩
  · simp only [h0, ↓reduceIte]
    cases prev with
    | none => exact ⟨by first | trivial | rfl, h⟩
    | some p =>
      obtain ⟨pp, pl⟩ := p
      have hp := hprev pp pl rfl
      simp only []
      have e1 : Match.rd b2 cur.1 = Match.rd b1 cur.1 := (h.mrd hcur).symm
      have e2 : Match.rd b2 pp = Match.rd b1 pp := (h.mrd (by omega)).symm
      have e3 : (List.range pl).reverse.find? (fun k => Match.rd b2 (pp + k) == 58) =
          (List.range pl).reverse.find? (fun k => Match.rd b1 (pp + k) == 58) := by
        apply find?_congr'
        intro k hk
        simp only [List.mem_reverse, List.mem_range] at hk
        rw [h.mrd (i := pp + k) (by omega)]
      rw [e1, e2, e3]
      by_cases h1 : (pl == 0) = true
      · simp only [h1, ↓reduceIte]; exact ⟨by first | trivial | rfl, h⟩
      · simp only [h1, ↓reduceIte]
        by_cases h2 : Match.rd b1 cur.1 == 42 ∨ Match.rd b1 cur.1 == 58
        · simp only [h2, ↓reduceIte]; exact ⟨by first | trivial | rfl, h⟩
        · simp only [h2, ↓reduceIte]
          by_cases h3 : (Match.rd b1 pp == 42) = true
          · simp only [h3, ↓reduceIte]; exact ⟨by first | trivial | rfl, h⟩
          · simp only [h3, ↓reduceIte]
            cases hf : (List.range pl).reverse.find? (fun k => Match.rd b1 (pp + k) == 58) with
            | none => simp only [Option.map_none, Option.getD_none]; exact ⟨by first | trivial | rfl, h⟩
            | some k =>
              have hk := List.mem_of_find?_eq_some hf
              simp only [List.mem_reverse, List.mem_range] at hk
              simp only [Option.map_some, Option.getD_some]
              have hk0 : ((k + 1 == 0) = true) = False := by simp
              simp only [hk0, ↓reduceIte]
              by_cases h4 : cur.1 < k + 1
              · simp only [h4, ↓reduceIte]; exact ⟨by first | trivial | rfl, h⟩
              · simp only [h4, ↓reduceIte]
                have e4 : (List.range (k + 1)).map (fun j => Match.rd b2 (pp + j)) =
                    (List.range (k + 1)).map (fun j => Match.rd b1 (pp + j)) := by
                  apply List.map_congr_left
                  intro j hj
                  simp only [List.mem_range] at hj
                  exact (h.mrd (by omega)).symm
                rw [e4]
                refine ⟨by first | trivial | rfl, ?_⟩
                apply h.store
                simp only [List.length_map, List.length_range]
                omega

/-- the composed header starts at or before the current one -/
theorem composeCompound_start_le (buf : Bytes) (prev : Option (Nat × Nat)) (cur : Nat × Nat) :
    (Match.composeCompound buf prev cur).2.1.1 ≤ cur.1 := by
  unfold Match.composeCompound
  split
  · exact Nat.le_refl _
  · split
    · exact Nat.le_refl _
    · simp only []
      generalize ((List.range _).reverse.find? _ |>.map (· + 1) |>.getD 0) = i
      repeat' split
      all_goals first | exact Nat.le_refl _ | (simp only []; omega)

/-! ## the unit loop of SCPI_Parse -/

theorem findCommand_eq {P : Nat} {c1 c2 : Ctx} (hw : SimW P c1 c2) (off len : Nat) (ho : off ≤ P)
    (hl : off + len ≤ P + 1) :
    findCommand c2 off len = findCommand c1 off len := by
  unfold findCommand
  rw [hw.cmds]
  apply find?_congr'
  intro cmd _
  rw [matchCommand_agree (hw.buf.drop off ho) cmd.pattern len none 0 (by omega)]

/-- what the unit loop sets before it calls `processCommand` -/
def setUnit (base dptr dlen : Nat) (cmd : Cmd) (cur : Nat × Nat) (c : Ctx) : Ctx :=
  { c with pbase := base + dptr, ppos := base + dptr, plen := dlen, cur := some cmd, rawOff := cur.1, rawLen := cur.2 }

/-- what `parse` resets first -/
def outReset (o : Out) : Out :=
  { o with outputCount := 0, firstOutput := true, gCur := [], gItems := [], gUnits := [], gPartial := false }

theorem unitCmd_sim {P : Nat} {c1 c2 : Ctx} (h : SimW P c1 c2) (base r dptr dlen : Nat) (cur : Nat × Nat) (res : Bool)
    (hcur0 : cur.1 ≤ P) (hcur : cur.1 + cur.2 ≤ P + 1) (hd : base + dptr + dlen ≤ P + 1) (hr : base + r ≤ P + 1) :
    SimW P (unitCmd c1 base r dptr dlen cur res).1 (unitCmd c2 base r dptr dlen cur res).1 ∧
    Step c1 c2 (unitCmd c1 base r dptr dlen cur res).1 (unitCmd c2 base r dptr dlen cur res).1 ∧
    (unitCmd c1 base r dptr dlen cur res).2 = (unitCmd c2 base r dptr dlen cur res).2 := by
  unfold unitCmd
  rw [findCommand_eq h cur.1 cur.2 hcur0 hcur]
  split
  · rename_i cmd _
    obtain ⟨hw, hst0⟩ := h.map (g := setUnit base dptr dlen cmd cur)
      ⟨fun _ => rfl, fun _ => rfl, fun _ => [], fun _ => by simp [setUnit]⟩
    have hs : Sim P { c1 with pbase := base + dptr, ppos := base + dptr, plen := dlen, cur := some cmd, rawOff := cur.1, rawLen := cur.2 }
        { c2 with pbase := base + dptr, ppos := base + dptr, plen := dlen, cur := some cmd, rawOff := cur.1, rawLen := cur.2 } :=
      ⟨hw, hd, hcur0, hcur⟩
    obtain ⟨hs', hst, hv⟩ := processCommand_sim hs
    simp only []
    refine ⟨hs'.w, hst0.trans hst, ?_⟩
    rw [hv]
  · simp only []
    have e : (c2.buf.drop base).take r = (c1.buf.drop base).take r := (h.buf.window _ _ hr).symm
    rw [e]
    obtain ⟨a, b⟩ := h.map (loc_pushError (-113)
      (some (((c1.buf.drop base).take r).take (((c1.buf.drop base).take r).reverse.dropWhile (fun b => b == 13 || b == 10)).length))
      (((c1.buf.drop base).take r).reverse.dropWhile (fun b => b == 13 || b == 10)).length).toLocW
    exact ⟨a, b, by first | trivial | rfl⟩

theorem SimW.setBuf {P : Nat} {c1 c2 : Ctx} (h : SimW P c1 c2) {b1 b2 : Bytes} (ha : AgreeL P b1 b2)
    (hl : b1.length = c1.buf.length) (ok : Bool) :
    SimW P { c1 with buf := b1, oob := c1.oob || !ok } { c2 with buf := b2, oob := c2.oob || !ok } := by
  refine ⟨?_, ha, by rw [hl]; exact h.inb⟩
  show ({ ParseLocalAux.rest c2 with oob := (ParseLocalAux.rest c2).oob || !ok } : Ctx) =
    { ParseLocalAux.rest c1 with oob := (ParseLocalAux.rest c1).oob || !ok }
  rw [h.rst]

theorem stepUnit_sim {P : Nat} {c1 c2 : Ctx} (h : SimW P c1 c2) (base len : Nat) (prev : Option (Nat × Nat)) (res : Bool)
    (hbl : base + len ≤ P + 1) (hprev : ∀ pp pl, prev = some (pp, pl) → pp + pl ≤ base) :
    SimW P (Bounds.stepUnit c1 base len prev res).1 (Bounds.stepUnit c2 base len prev res).1 ∧
    Step c1 c2 (Bounds.stepUnit c1 base len prev res).1 (Bounds.stepUnit c2 base len prev res).1 ∧
    (Bounds.stepUnit c1 base len prev res).2 = (Bounds.stepUnit c2 base len prev res).2 ∧
    (∀ pp pl, (Bounds.stepUnit c1 base len prev res).2.1 = some (pp, pl) →
      pp + pl ≤ base + (Parser.detectUnit ((c1.buf.drop base).take len)).consumed) := by
  have ew : (c2.buf.drop base).take len = (c1.buf.drop base).take len := (h.buf.window _ _ hbl).symm
  have hcons : (Parser.detectUnit ((c1.buf.drop base).take len)).consumed ≤ len :=
    Nat.le_trans (Props.C13.unit_spec _).2.2.2.2.1 (Bounds.window_length_le _ _ _)
  have hdata := detect_data_inside ((c1.buf.drop base).take len)
  have hhdr := Bounds.detect_header_inside ((c1.buf.drop base).take len)
  have hprev' : ∀ pp pl, prev = some (pp, pl) →
      pp + pl ≤ base + (Parser.detectUnit ((c1.buf.drop base).take len)).consumed := by
    intro pp pl hh; have := hprev pp pl hh; omega
  rw [stepUnit_eq, stepUnit_eq, ew]
  generalize Parser.detectUnit ((c1.buf.drop base).take len) = u at hcons hdata hhdr hprev' ⊢
  by_cases h1 : (u.header.type == .invalid) = true
  · simp only [h1, Bool.false_eq_true, if_false, if_true]
    obtain ⟨a, b⟩ := h.map (loc_pushError (-101) none 0).toLocW
    exact ⟨a, b, by first | trivial | rfl, hprev'⟩
  · simp only [h1, Bool.false_eq_true, if_false, if_true]
    by_cases h2 : u.header.len > 0 ∧ u.nParams < 0
    · simp only [h2, and_self, if_false, if_true]
      obtain ⟨a, b⟩ := h.map (loc_pushError (-103) none 0).toLocW
      exact ⟨a, b, by first | trivial | rfl, hprev'⟩
    · simp only [h2, if_false, if_true]
      by_cases h3 : u.header.len > 0
      · simp only [h3, if_false, if_true]
        have hinv : u.header.type ≠ .invalid := by
          intro hh; apply h1; rw [hh]; rfl
        have hin := hhdr hinv h3
        have hag := composeCompound_agree h.buf prev (base + u.header.ptr, u.header.len.toNat)
          (by simp only; omega) (by intro pp pl hh; have := hprev pp pl hh; simp only; omega)
        have hci := Bounds.compose_inv c1.buf prev (base + u.header.ptr, u.header.len.toNat) 0
          (by simp only; omega) (by simp only; omega)
          (by intro pp pl hh; have := hprev pp pl hh; simp only; omega)
        have hle := composeCompound_start_le c1.buf prev (base + u.header.ptr, u.header.len.toNat)
        generalize Match.composeCompound c1.buf prev (base + u.header.ptr, u.header.len.toNat) = cc1 at hag hci hle ⊢
        generalize Match.composeCompound c2.buf prev (base + u.header.ptr, u.header.len.toNat) = cc2 at hag ⊢
        obtain ⟨b1, cur1, ok1⟩ := cc1
        obtain ⟨b2, cur2, ok2⟩ := cc2
        obtain ⟨hag1, hag2⟩ := hag
        simp only [Prod.mk.injEq] at hag1
        obtain ⟨hcur, hok⟩ := hag1
        subst hcur
        subst hok
        obtain ⟨_, k2, _, k4⟩ := hci
        simp only at hag2 k2 k4 hle ⊢
        have hsu : SimW P { c1 with buf := b1, oob := c1.oob || !ok1 } { c2 with buf := b2, oob := c2.oob || !ok1 } :=
          h.setBuf hag2 k2.1 _
        obtain ⟨a1, a2, a3⟩ := unitCmd_sim hsu base u.consumed u.data.ptr u.data.len.toNat cur1 res
          (by omega) (by omega) (by omega) (by omega)
        refine ⟨a1, (Step.of_eq rfl rfl).trans a2, a3, ?_⟩
        intro pp pl hh
        rw [unitCmd_prev] at hh
        cases hh
        omega
      · simp only [h3, if_false, if_true]
        exact ⟨h, Step.refl _ _, by first | trivial | rfl, hprev'⟩

theorem parseLoop_sim {P : Nat} : ∀ (fuel : Nat) (c1 c2 : Ctx) (base len : Nat) (prev : Option (Nat × Nat)) (res : Bool),
    SimW P c1 c2 → base + len ≤ P + 1 → (∀ pp pl, prev = some (pp, pl) → pp + pl ≤ base) →
    SimW P (parseLoop fuel c1 base len prev res).1 (parseLoop fuel c2 base len prev res).1 ∧
    Step c1 c2 (parseLoop fuel c1 base len prev res).1 (parseLoop fuel c2 base len prev res).1 ∧
    (parseLoop fuel c1 base len prev res).2 = (parseLoop fuel c2 base len prev res).2 := by
  intro fuel
  induction fuel with
  | zero =>
    intro c1 c2 base len prev res h _ _
    obtain ⟨a, b⟩ := h.map (g := fun c => { c with oob := true }) ⟨fun _ => rfl, fun _ => rfl, fun _ => [], fun _ => by simp⟩
    exact ⟨a, b, rfl⟩
  | succ fuel ih =>
    intro c1 c2 base len prev res h hbl hprev
    have ew : (c2.buf.drop base).take len = (c1.buf.drop base).take len := (h.buf.window _ _ hbl).symm
    obtain ⟨a1, a2, a3, a4⟩ := stepUnit_sim h base len prev res hbl hprev
    rw [Bounds.parseLoop_succ, Bounds.parseLoop_succ, ew, ← a3]
    split
    · obtain ⟨b1, b2, b3⟩ := ih _ _ (base + (Parser.detectUnit ((c1.buf.drop base).take len)).consumed)
        (len - (Parser.detectUnit ((c1.buf.drop base).take len)).consumed)
        (Bounds.stepUnit c1 base len prev res).2.1 (Bounds.stepUnit c1 base len prev res).2.2 a1 (by omega) a4
      exact ⟨b1, a2.trans b2, b3⟩
    · exact ⟨a1, a2, rfl⟩

/-- the end of `parse` -/
def parseFin (x : Ctx × Bool) : Ctx × Bool := ({ x.1 with out := writeNewLine x.1.out }, x.2)

theorem parse_eq (c : Ctx) (base len : Nat) :
    parse c base len =
      parseFin (parseLoop (len + 2) (emit { c with out := outReset c.out } (.parseMsg ((c.buf.drop base).take len)))
        base len none true) := by
  unfold parse parseFin outReset
  simp only []

theorem parseFin_sim {P : Nat} {c1 c2 : Ctx} {x1 x2 : Ctx × Bool} (a1 : SimW P x1.1 x2.1) (a2 : Step c1 c2 x1.1 x2.1)
    (a3 : x1.2 = x2.2) :
    SimW P (parseFin x1).1 (parseFin x2).1 ∧ Step c1 c2 (parseFin x1).1 (parseFin x2).1 ∧
    (parseFin x1).2 = (parseFin x2).2 := by
  obtain ⟨b1, b2⟩ := a1.map (loc_out writeNewLine).toLocW
  exact ⟨b1, a2.trans b2, a3⟩

theorem parse_sim {P : Nat} {c1 c2 : Ctx} (h : SimW P c1 c2) (base len : Nat) (hbl : base + len ≤ P + 1) :
    SimW P (parse c1 base len).1 (parse c2 base len).1 ∧
    Step c1 c2 (parse c1 base len).1 (parse c2 base len).1 ∧
    (parse c1 base len).2 = (parse c2 base len).2 := by
  rw [parse_eq, parse_eq]
  have ew : (c2.buf.drop base).take len = (c1.buf.drop base).take len := (h.buf.window _ _ hbl).symm
  rw [ew]
  obtain ⟨h0, hst0⟩ := h.map (loc_out outReset).toLocW
  obtain ⟨h1, hst1⟩ := h0.map (loc_emit (.parseMsg ((c1.buf.drop base).take len))).toLocW
  obtain ⟨a1, a2, a3⟩ := parseLoop_sim (len + 2) _ _ base len none true h1 hbl (by intro pp pl hh; cases hh)
  exact parseFin_sim a1 ((hst0.trans hst1).trans a2) a3

end ScpiVerif.Lemmas.ParseLocalAux

/-! ## the statements of ChunkingDefs.lean -/

namespace ScpiVerif.Lemmas.Chunking
open ScpiVerif ScpiVerif.Lexer ScpiVerif.Ctx ScpiVerif.Lemmas.ParseLocalAux

theorem rest_of_pers {c1 c2 : Ctx} (h : Pers c1 c2) : rest c2 = rest c1 := by
  have := congrArg rest h
  exact this

theorem pers_of_rest {c1 c2 : Ctx} (h : rest c2 = rest c1) : Pers c1 c2 := by
  unfold Pers
  show ({ rest c2 with buf := c1.buf, position := c1.position, events := c1.events } : Ctx) = c1
  rw [h]
  rfl

/-- `SCPI_Parse` of a message `[0, k)` whose last byte is a line feed or a carriage return is local:
no hypothesis on the other bytes of the message -/
theorem parse_local (c1 c2 : Ctx) (k : Nat) (hp : Pers c1 c2)
    (hl1 : c1.buf.length = c1.bufLen) (hl2 : c2.buf.length = c2.bufLen) (hk : k < c1.bufLen)
    (ht : c1.buf.take k = c2.buf.take k)
    (hlast : (c1.buf.take k).getLast? = some 10 ∨ (c1.buf.take k).getLast? = some 13) :
    Pers (parse c1 0 k).1 (parse c2 0 k).1 ∧
    ∃ es, (parse c1 0 k).1.events = c1.events ++ es ∧ (parse c2 0 k).1.events = c2.events ++ es := by
  have hr := rest_of_pers hp
  have hbl : c2.bufLen = c1.bufLen :=
    show (rest c2).bufLen = (rest c1).bufLen from congrArg Ctx.bufLen hr
  have hlen : c1.buf.length = c2.buf.length := by rw [hl1, hl2, hbl]
  have hag : 0 < k ∧ AgreeL (k - 1) c1.buf c2.buf := by
    rcases hlast with hlast | hlast
    · exact AgreeL.of_take hlen (by omega) ht hlast (by decide)
    · exact AgreeL.of_take hlen (by omega) ht hlast (by decide)
  obtain ⟨hk0, hag⟩ := hag
  have hw : SimW (k - 1) c1 c2 := ⟨hr, hag, by omega⟩
  obtain ⟨a, ⟨es, e1, e2⟩, _⟩ := parse_sim hw 0 k (by omega)
  exact ⟨pers_of_rest a.rst, es, e1, e2⟩

theorem parseLocalCR : ParseLocalCR :=
  fun c1 c2 k hp hl1 hl2 hk _ ht hlast _ => parse_local c1 c2 k hp hl1 hl2 hk ht hlast

theorem parseLocal : ParseLocal := parseLocalCR.toLF

/-- for any class of messages that end in a line feed or a carriage return -/
theorem parseLocalOn_of {M : Bytes → Prop} (hM : ∀ m, M m → m.getLast? = some 10 ∨ m.getLast? = some 13) :
    ParseLocalOn M :=
  fun c1 c2 k hp hl1 hl2 hk _ ht hm => parse_local c1 c2 k hp hl1 hl2 hk ht (hM _ hm)

end ScpiVerif.Lemmas.Chunking
