/-
Refinement of the hand-written model of UInt32ToStrBaseSign / UInt64ToStrBaseSign (Model/IntFmt.lean) by the Lean text that
translate/c2lean_intfmt.py GENERATES from libscpi/src/utils.c on every run (Gen/IntFmtC.lean).
-/
import ScpiVerif.Gen.Tables
import ScpiVerif.Gen.IntFmtC
import ScpiVerif.Model.IntFmt
import ScpiVerif.Lemmas.IntFmt

namespace ScpiVerif.Lemmas.IntFmtC
open ScpiVerif ScpiVerif.IntFmt ScpiVerif.Gen.IntFmtC ScpiVerif.Lemmas.IntFmt

/-! ### store logs -/

/-- the store log of writing `cs` to consecutive indices from `start` -/
def logOf : Nat → List Char → List (Nat × Char)
  | _, [] => []
  | start, c :: cs => (start, c) :: logOf (start + 1) cs

theorem logOf_append (s : Nat) (a b : List Char) : logOf s (a ++ b) = logOf s a ++ logOf (s + a.length) b := by
  induction a generalizing s with
  | nil => simp [logOf]
  | cons c cs ih => simp [logOf, ih, Nat.add_assoc, Nat.add_comm 1]

/-! ### the C arithmetic of the generated text, where nothing wraps -/

theorem toU_ofNat {w n : Nat} (h : n < 2 ^ w) : toU w (Int.ofNat n) = n := by
  unfold toU
  have : (Int.ofNat n) % ((2 ^ w : Nat) : Int) = Int.ofNat n := Int.emod_eq_of_lt (by simp) (by simpa using Int.ofNat_lt.2 h)
  rw [this]; rfl

theorem uadd_small {w a b : Nat} (h : a + b < 2 ^ w) : uadd w a b = a + b := Nat.mod_eq_of_lt h
theorem umul_small {w a b : Nat} (h : a * b < 2 ^ w) : umul w a b = a * b := Nat.mod_eq_of_lt h
theorem usub_small {w a b : Nat} (hb : b ≤ a) (ha : a < 2 ^ w) : usub w a b = a - b := by
  unfold usub
  rw [Nat.mod_eq_of_lt (by omega : b < 2 ^ w)]
  have : a + 2 ^ w - b = 2 ^ w + (a - b) := by omega
  rw [this, Nat.add_mod_left]; exact Nat.mod_eq_of_lt (by omega)
theorem usub_zero_pos {w a : Nat} (h0 : 0 < a) (ha : a < 2 ^ w) : usub w 0 a = 2 ^ w - a := by
  unfold usub
  rw [Nat.mod_eq_of_lt ha, Nat.zero_add]; exact Nat.mod_eq_of_lt (by omega)
theorem uneg_pos {w a : Nat} (h0 : 0 < a) (ha : a < 2 ^ w) : uneg w a = 2 ^ w - a := by
  unfold uneg
  rw [Nat.mod_eq_of_lt ha]; exact Nat.mod_eq_of_lt (by omega)

/-- `(intN_t) v` for an unsigned N-bit `v` (two's complement) -/
theorem toS_ofNat {w v : Nat} (hw : 0 < w) (hv : v < 2 ^ w) :
    toS w (Int.ofNat v) = if v < 2 ^ (w - 1) then (v : Int) else (v : Int) - ((2 ^ w : Nat) : Int) := by
  unfold toS
  obtain ⟨n, rfl⟩ : ∃ n, w = n + 1 := ⟨w - 1, by omega⟩
  simp only [Nat.add_sub_cancel, Int.ofNat_eq_natCast]
  have hp : (2 : Nat) ^ (n + 1) = 2 ^ n + 2 ^ n := by rw [Nat.pow_succ]; omega
  rw [hp] at hv ⊢
  generalize (2 : Nat) ^ n = p at *
  have hc : ((p + p : Nat) : Int) = (p : Int) + (p : Int) := by omega
  rw [hc]
  split
  · rw [Int.emod_eq_of_lt (by omega) (by omega)]; omega
  · have : (v : Int) + (p : Int) = ((v : Int) - (p : Int)) + ((p : Int) + (p : Int)) := by omega
    rw [this, Int.add_emod_right, Int.emod_eq_of_lt (by omega) (by omega)]; omega

/-- `(intN_t) v < 0` for an unsigned N-bit `v`: the top bit -/
theorem toS_neg_iff {w v : Nat} (hw : 0 < w) (hv : v < 2 ^ w) : toS w (Int.ofNat v) < 0 ↔ 2 ^ (w - 1) ≤ v := by
  rw [toS_ofNat hw hv]
  split <;> omega

/-- `(int_fast8_t)(uint8_t) d` for a digit -/
theorem toS8_digit {d : Nat} (h : d < 16) : toS 8 (Int.ofNat (d % 2 ^ 8)) = Int.ofNat d := by
  unfold toS
  simp only [Int.ofNat_eq_natCast]
  omega

theorem cget_digit : ∀ d, d < 16 → cget (cstr "0123456789ABCDEF") (Int.ofNat d) = digitChar d := by decide
theorem cinb_digit : ∀ d, d < 16 → cinb (cstr "0123456789ABCDEF") (Int.ofNat d) = true := by decide

/-! ### the two loops, for ANY step function that does what one iteration of the C loop does

The generated step functions enter only through the one-iteration hypotheses `hstep`; the inductions below are done once
for both widths and do not look at the generated text. -/

theorem loopFuel_succ {σ : Type} (step : σ → σ × Bool) (fuel : Nat) (s : σ) :
    loopFuel step (fuel + 1) s = if (step s).2 then loopFuel step fuel (step s).1 else ((step s).1, false) := rfl

/-- `while ((uval / x) == 0) x /= base;` started at a power of the base: ends at the top digit's power, without running
out of fuel and without touching `ub` -/
theorem skip_sim {b uval : Nat} (hb : 2 ≤ b) (hu : 0 < uval) (step : Nat × Bool → (Nat × Bool) × Bool)
    (hstep : ∀ x ub, x ≠ 0 → step (x, ub) = if uval / x = 0 then ((x / b, ub), true) else ((x, ub), false))
    (k : Nat) : ∀ fuel ub, k < fuel → uval < b ^ (k + 1) →
      ∃ j, j ≤ k ∧ loopFuel step fuel (b ^ k, ub) = ((b ^ j, ub), false) ∧ b ^ j ≤ uval ∧ uval < b ^ (j + 1) := by
  induction k with
  | zero =>
    intro fuel ub hf h
    obtain ⟨f, rfl⟩ : ∃ f, fuel = f + 1 := ⟨fuel - 1, by omega⟩
    refine ⟨0, Nat.le_refl _, ?_, by rw [Nat.pow_zero]; exact hu, h⟩
    have : uval ≠ 0 := by omega
    rw [loopFuel_succ, hstep _ _ (by simp)]
    simp [this]
  | succ k ih =>
    intro fuel ub hf h
    obtain ⟨f, rfl⟩ : ∃ f, fuel = f + 1 := ⟨fuel - 1, by omega⟩
    have hx : 0 < b ^ (k + 1) := Nat.pow_pos (by omega)
    by_cases hq : uval / b ^ (k + 1) = 0
    · have hlt : uval < b ^ (k + 1) := by
        rcases Nat.div_eq_zero_iff.1 hq with h0 | h0
        · omega
        · exact h0
      obtain ⟨j, hj, e, a, c⟩ := ih f ub (by omega) hlt
      refine ⟨j, by omega, ?_, a, c⟩
      have hdiv : b ^ (k + 1) / b = b ^ k := by
        rw [Nat.pow_succ]; exact Nat.mul_div_cancel _ (by omega)
      rw [loopFuel_succ, hstep _ _ (by omega), if_pos hq]
      simp only [if_true, hdiv]
      exact e
    · refine ⟨k + 1, Nat.le_refl _, ?_, ?_, h⟩
      · rw [loopFuel_succ, hstep _ _ (by omega), if_neg hq]
        simp
      · apply Nat.le_of_not_lt
        intro hlt
        exact hq (Nat.div_eq_of_lt hlt)

/-- state of the digit loop: `(str, x, digit, pos, uval, ub)` -/
abbrev DState := List (Nat × Char) × Nat × Int × Nat × Nat × Bool

/-- what one iteration of `do { digit = uval / x; ADD_CHAR(digits[digit]); uval -= digit * x; x /= base; } while (x && pos < len)`
does when nothing is undefined and nothing wraps -/
def emitStepSpec (b len : Nat) (s : DState) : DState × Bool :=
  let x := s.2.1
  let pos := s.2.2.2.1
  let uval := s.2.2.2.2.1
  let d := uval / x
  let str' := if pos < len then s.1 ++ [(pos, digitChar d)] else s.1
  let pos' := if pos < len then pos + 1 else pos
  ((str', x / b, Int.ofNat d, pos', uval % x, s.2.2.2.2.2), (x / b != 0) && decide (pos' < len))

/-- what the caller looks at after the digit loop: `(str, pos, ub, out of fuel)` -/
def fin (r : DState × Bool) : List (Nat × Char) × Nat × Bool × Bool := (r.1.1, r.1.2.2.2.1, r.1.2.2.2.2.2, r.2)

theorem emit_sim {w b len : Nat} (hb : 2 ≤ b) (hb16 : b ≤ 16) (step : DState → DState × Bool)
    (hstep : ∀ str x digit pos uval ub, x ≠ 0 → uval / x < 16 → uval < 2 ^ w → pos ≤ len →
      step (str, x, digit, pos, uval, ub) = emitStepSpec b len (str, x, digit, pos, uval, ub))
    (k : Nat) : ∀ fuel str digit pos uval ub, k < fuel → uval < b ^ (k + 1) → uval < 2 ^ w → pos ≤ len →
      fin (loopFuel step fuel (str, b ^ k, digit, pos, uval, ub)) =
        (str ++ logOf pos ((pad b (k + 1) uval).take (len - pos)), min len (pos + (k + 1)), ub, false) := by
  induction k with
  | zero =>
    intro fuel str digit pos uval ub hf hu hw hp
    obtain ⟨f, rfl⟩ : ∃ f, fuel = f + 1 := ⟨fuel - 1, by omega⟩
    have hub : uval < b := by simpa using hu
    have hxb : 1 / b = 0 := Nat.div_eq_of_lt (by omega)
    rw [loopFuel_succ, Nat.pow_zero, hstep _ _ _ _ _ _ (by omega) (by simp; omega) hw hp]
    simp only [emitStepSpec, fin, Nat.div_one, hxb, bne_self_eq_false, Bool.false_and,
      Bool.false_eq_true, if_false, pad, List.nil_append, Nat.mod_eq_of_lt hub]
    by_cases hpl : pos < len
    · have : len - pos = (len - pos - 1) + 1 := by omega
      rw [if_pos hpl, if_pos hpl, this, List.take_succ_cons]
      simp [logOf]; omega
    · have : len - pos = 0 := by omega
      rw [if_neg hpl, if_neg hpl, this]
      simp [logOf]; omega
  | succ k ih =>
    intro fuel str digit pos uval ub hf hu hw hp
    obtain ⟨f, rfl⟩ : ∃ f, fuel = f + 1 := ⟨fuel - 1, by omega⟩
    have hx : 0 < b ^ (k + 1) := Nat.pow_pos (by omega)
    have hk : 0 < b ^ k := Nat.pow_pos (by omega)
    have hq : uval / b ^ (k + 1) < b := by
      rw [Nat.div_lt_iff_lt_mul hx]
      have := hu; rw [Nat.pow_succ, Nat.mul_comm] at this; exact this
    have hdiv : b ^ (k + 1) / b = b ^ k := by
      rw [Nat.pow_succ]; exact Nat.mul_div_cancel _ (by omega)
    have hk0 : (b ^ k != 0) = true := by simp; omega
    have hmod : uval % b ^ (k + 1) < b ^ (k + 1) := Nat.mod_lt _ hx
    have hmodw : uval % b ^ (k + 1) < 2 ^ w := Nat.lt_of_le_of_lt (Nat.mod_le _ _) hw
    have hqb : uval / b ^ (k + 1) % b = uval / b ^ (k + 1) := Nat.mod_eq_of_lt hq
    rw [loopFuel_succ, hstep _ _ _ _ _ _ (by omega) (by omega) hw hp]
    simp only [emitStepSpec, hdiv, hk0, Bool.true_and, decide_eq_true_eq]
    rw [pad_succ_msd, hqb]
    by_cases hpl : pos < len
    · have hl : len - pos = (len - (pos + 1)) + 1 := by omega
      simp only [if_pos hpl]
      rw [hl, List.take_succ_cons]
      by_cases hpl' : pos + 1 < len
      · rw [if_pos hpl', ih f _ _ _ _ _ (by omega) hmod hmodw (by omega)]
        simp [logOf, List.append_assoc]; omega
      · rw [if_neg hpl']
        have : len - (pos + 1) = 0 := by omega
        rw [this]; simp [fin, logOf]; omega
    · simp only [if_neg hpl]
      have : len - pos = 0 := by omega
      rw [this]
      simp [fin, logOf]; omega

/-- both loops, started at the switch's divisor `x0` (a table entry): the digits of `uval`, cut to the room left -/
theorem loops_sim {w b len : Nat} (hb : 2 ≤ b) (hb16 : b ≤ 16)
    (step1 : Nat × Bool → (Nat × Bool) × Bool) (step2 : DState → DState × Bool) {uval : Nat}
    (hstep1 : ∀ x ub, x ≠ 0 → step1 (x, ub) = if uval / x = 0 then ((x / b, ub), true) else ((x, ub), false))
    (hstep2 : ∀ str x digit pos uval ub, x ≠ 0 → uval / x < 16 → uval < 2 ^ w → pos ≤ len →
      step2 (str, x, digit, pos, uval, ub) = emitStepSpec b len (str, x, digit, pos, uval, ub))
    {x0 : Nat} (he : entryOK w b x0 = true) (hu0 : 0 < uval) (hu : uval < 2 ^ w) {f1 f2 : Nat} (hf1 : w < f1) (hf2 : w < f2)
    (str : List (Nat × Char)) (digit : Int) {pos : Nat} (hp : pos ≤ len) (ub : Bool) :
    fin (loopFuel step2 f2 (str, (loopFuel step1 f1 (x0, ub)).1.1, digit, pos, uval,
        (loopFuel step1 f1 (x0, ub)).1.2 || (loopFuel step1 f1 (x0, ub)).2)) =
      (str ++ logOf pos ((specDigits b uval).take (len - pos)), min len (pos + (specDigits b uval).length), ub, false) := by
  obtain ⟨k, hk, rfl, _, hhi⟩ := entryOK_spec he
  obtain ⟨j, hj, e, a, c⟩ := skip_sim hb hu0 step1 hstep1 k f1 ub (by omega) (Nat.lt_of_lt_of_le hu hhi)
  rw [e]
  simp only [Bool.or_false]
  rw [emit_sim hb hb16 step2 hstep2 j f2 str digit pos uval ub (by omega) c hu hp, specDigits_eq hb a c, pad_length]

/-! ### results: `fin`, and what the function leaves behind -/

theorem fin_str {r : DState × Bool} {A B C D} (h : fin r = (A, B, C, D)) : r.1.1 = A := congrArg (·.1) h
theorem fin_pos {r : DState × Bool} {A B C D} (h : fin r = (A, B, C, D)) : r.1.2.2.2.1 = B := congrArg (·.2.1) h
theorem fin_ub {r : DState × Bool} {A B C D} (h : fin r = (A, B, C, D)) : r.1.2.2.2.2.2 = C := congrArg (·.2.2.1) h
theorem fin_oof {r : DState × Bool} {A B C D} (h : fin r = (A, B, C, D)) : r.2 = D := congrArg (·.2.2.2) h

/-- what the C function leaves behind when the text `cs` is written into `len` bytes: the stores, the return value, ub -/
def written (cs : List Char) (len : Nat) : List (Nat × Char) × Nat × Bool :=
  (logOf 0 (cs.take len) ++ (if min len cs.length < len then [(min len cs.length, Char.ofNat 0)] else []),
    min len cs.length, false)


theorem written_pos0 (ds : List Char) (len : Nat) (ub : Bool) (hub : ub = false) :
    ((if min len (0 + ds.length) < len then ([] ++ logOf 0 (ds.take (len - 0))) ++ [(min len (0 + ds.length), Char.ofNat 0)]
        else [] ++ logOf 0 (ds.take (len - 0))), min len (0 + ds.length), ub) = written ds len := by
  subst hub; simp [written]; split <;> simp

theorem written_pos1 (ds : List Char) (len : Nat) (h0 : 0 < len) (ub : Bool) (hub : ub = false) :
    ((if min len (1 + ds.length) < len then ([(0, Char.ofNat 45)] ++ logOf 1 (ds.take (len - 1))) ++ [(min len (1 + ds.length), Char.ofNat 0)]
        else [(0, Char.ofNat 45)] ++ logOf 1 (ds.take (len - 1))), min len (1 + ds.length), ub) = written ('-' :: ds) len := by
  subst hub
  obtain ⟨l, rfl⟩ : ∃ l, len = l + 1 := ⟨len - 1, by omega⟩
  have : Char.ofNat 45 = '-' := by decide
  simp [written, logOf, this, Nat.add_comm 1]
  split <;> simp



theorem take_one (c : Char) {len : Nat} (h : 0 < len) : List.take len [c] = [c] := by
  obtain ⟨l, rfl⟩ : ∃ l, len = l + 1 := ⟨len - 1, by omega⟩
  simp

theorem written_zero (len : Nat) :
    ((if (if 0 < len then 1 else 0) < len then (if 0 < len then [(0, Char.ofNat 48)] else []) ++ [((if 0 < len then 1 else 0), Char.ofNat 0)]
      else (if 0 < len then [(0, Char.ofNat 48)] else [])), (if 0 < len then 1 else 0), false) = written ['0'] len := by
  have : Char.ofNat 48 = '0' := by decide
  by_cases h0 : 0 < len
  · by_cases h1 : 1 < len
    · have : min len 1 = 1 := by omega
      simp [written, logOf, h0, h1, take_one, *]
    · have : len = 1 := by omega
      subst this
      simp [written, logOf, *]
  · have : len = 0 := by omega
    subst this
    simp [written, logOf]


/-! ### 32 bit: the generated text (the only part of this file that looks at it)

`step1_32` / `step2_32`: one iteration of each generated loop is the iteration the generic lemmas expect (unfold, the bridging
lemmas above, `simp`).  `gen32_written`: case analysis over zero / the four bases / the sign, `simp` on the unfolded
function, the loops rewritten by `loops32_*` with their side conditions (table entry, value ranges) discharged by `decide` /
`omega`. -/

theorem step1_32 (base : Int) (uval : Nat) (hb : toU 32 base ≠ 0) (x : Nat) (ub : Bool) (hx : x ≠ 0) :
    UInt32ToStrBaseSign_loop1_step base uval (x, ub) =
      if uval / x = 0 then ((x / toU 32 base, ub), true) else ((x, ub), false) := by
  have e1 : (x == 0) = false := by simp [hx]
  have e2 : (toU 32 base == 0) = false := by simp [hb]
  by_cases hq : uval / x = 0 <;> simp [UInt32ToStrBaseSign_loop1_step, hq, e1, e2]

theorem step2_32 (len : Nat) (base : Int) (hb : toU 32 base ≠ 0) (hl : len < 2 ^ 64)
    (str : List (Nat × Char)) (x : Nat) (digit : Int) (pos uval : Nat) (ub : Bool)
    (hx : x ≠ 0) (hd : uval / x < 16) (hu : uval < 2 ^ 32) (_hp : pos ≤ len) :
    UInt32ToStrBaseSign_loop2_step len base (str, x, digit, pos, uval, ub) =
      emitStepSpec (toU 32 base) len (str, x, digit, pos, uval, ub) := by
  have e1 : (x == 0) = false := by simp [hx]
  have e2 : (toU 32 base == 0) = false := by simp [hb]
  have h1 : uval / x * x ≤ uval := Nat.div_mul_le_self uval x
  have h2 : uval / x * x + uval % x = uval := by rw [Nat.mul_comm]; exact Nat.div_add_mod uval x
  have h3 : uval / x < 2 ^ 32 := by omega
  have h4 : usub 32 uval (umul 32 (uval / x) x) = uval % x := by
    rw [umul_small (by omega), usub_small h1 hu]; omega
  have h5 : pos < len → uadd 64 pos 1 = pos + 1 := fun h => uadd_small (by omega)
  simp only [UInt32ToStrBaseSign_loop2_step, emitStepSpec]
  simp only [toS8_digit hd, cget_digit _ hd, cinb_digit _ hd, toU_ofNat h3, h4, e1, e2, Bool.or_false, Bool.not_true]
  by_cases hpl : pos < len <;> simp [hpl, h5] <;> (try split) <;> simp_all <;> omega

theorem loops32 {len : Nat} {base : Int} (hb : 2 ≤ toU 32 base) (hb16 : toU 32 base ≤ 16) (hl : len < 2 ^ 64)
    {x0 : Nat} (he : entryOK 32 (toU 32 base) x0 = true) {uval : Nat} (hu0 : 0 < uval) (hu : uval < 2 ^ 32)
    (str : List (Nat × Char)) (digit : Int) {pos : Nat} (hp : pos ≤ len) (ub : Bool) :
    fin (loopFuel (UInt32ToStrBaseSign_loop2_step len base) 66 (str,
        (loopFuel (UInt32ToStrBaseSign_loop1_step base uval) 34 (x0, ub)).1.1, digit, pos, uval,
        (loopFuel (UInt32ToStrBaseSign_loop1_step base uval) 34 (x0, ub)).1.2 ||
          (loopFuel (UInt32ToStrBaseSign_loop1_step base uval) 34 (x0, ub)).2)) =
      (str ++ logOf pos ((specDigits (toU 32 base) uval).take (len - pos)),
        min len (pos + (specDigits (toU 32 base) uval).length), ub, false) :=
  loops_sim hb hb16 _ _ (step1_32 base uval (by omega))
    (fun str x digit pos uval ub hx hd hu hp => step2_32 len base (by omega) hl str x digit pos uval ub hx hd hu hp)
    he hu0 hu (by decide) (by decide) str digit hp ub


abbrev L32 (len : Nat) (base : Int) (x0 uval : Nat) (str : List (Nat × Char)) (digit : Int) (pos : Nat) (ub : Bool) : DState × Bool :=
  loopFuel (UInt32ToStrBaseSign_loop2_step len base) 66 (str,
        (loopFuel (UInt32ToStrBaseSign_loop1_step base uval) 34 (x0, ub)).1.1, digit, pos, uval,
        (loopFuel (UInt32ToStrBaseSign_loop1_step base uval) 34 (x0, ub)).1.2 ||
          (loopFuel (UInt32ToStrBaseSign_loop1_step base uval) 34 (x0, ub)).2)

theorem loops32_str {len : Nat} {base : Int} (hb : 2 ≤ toU 32 base) (hb16 : toU 32 base ≤ 16) (hl : len < 2 ^ 64)
    {x0 : Nat} (he : entryOK 32 (toU 32 base) x0 = true) {uval : Nat} (hu0 : 0 < uval) (hu : uval < 2 ^ 32)
    (str : List (Nat × Char)) (digit : Int) {pos : Nat} (hp : pos ≤ len) (ub : Bool) :
    (L32 len base x0 uval str digit pos ub).1.1 = str ++ logOf pos ((specDigits (toU 32 base) uval).take (len - pos)) :=
  fin_str (loops32 hb hb16 hl he hu0 hu str digit hp ub)
theorem loops32_pos {len : Nat} {base : Int} (hb : 2 ≤ toU 32 base) (hb16 : toU 32 base ≤ 16) (hl : len < 2 ^ 64)
    {x0 : Nat} (he : entryOK 32 (toU 32 base) x0 = true) {uval : Nat} (hu0 : 0 < uval) (hu : uval < 2 ^ 32)
    (str : List (Nat × Char)) (digit : Int) {pos : Nat} (hp : pos ≤ len) (ub : Bool) :
    (L32 len base x0 uval str digit pos ub).1.2.2.2.1 = min len (pos + (specDigits (toU 32 base) uval).length) :=
  fin_pos (loops32 hb hb16 hl he hu0 hu str digit hp ub)
theorem loops32_ub {len : Nat} {base : Int} (hb : 2 ≤ toU 32 base) (hb16 : toU 32 base ≤ 16) (hl : len < 2 ^ 64)
    {x0 : Nat} (he : entryOK 32 (toU 32 base) x0 = true) {uval : Nat} (hu0 : 0 < uval) (hu : uval < 2 ^ 32)
    (str : List (Nat × Char)) (digit : Int) {pos : Nat} (hp : pos ≤ len) (ub : Bool) :
    (L32 len base x0 uval str digit pos ub).1.2.2.2.2.2 = ub :=
  fin_ub (loops32 hb hb16 hl he hu0 hu str digit hp ub)
theorem loops32_oof {len : Nat} {base : Int} (hb : 2 ≤ toU 32 base) (hb16 : toU 32 base ≤ 16) (hl : len < 2 ^ 64)
    {x0 : Nat} (he : entryOK 32 (toU 32 base) x0 = true) {uval : Nat} (hu0 : 0 < uval) (hu : uval < 2 ^ 32)
    (str : List (Nat × Char)) (digit : Int) {pos : Nat} (hp : pos ≤ len) (ub : Bool) :
    (L32 len base x0 uval str digit pos ub).2 = false :=
  fin_oof (loops32 hb hb16 hl he hu0 hu str digit hp ub)

macro "c_loops32" : tactic => `(tactic|
  simp (disch := first | assumption | omega | decide) only [loops32_str, loops32_pos, loops32_ub, loops32_oof])

theorem gen32_written (val len : Nat) (base : Int) (sign : Bool) (hv : val < 2 ^ 32) (hl : len < 2 ^ 64) :
    UInt32ToStrBaseSign val len base sign = written (canon 32 val base sign) len := by
  have hU : uadd 64 0 1 = 1 := by decide
  have hP : (2 : Nat) ^ 32 = 4294967296 := by decide
  by_cases hv0 : val = 0
  · subst hv0
    have hc : canon 32 0 base sign = ['0'] := by simp [canon, specDigits_zero]
    rw [hc, ← written_zero]
    by_cases h0 : 0 < len <;> simp [UInt32ToStrBaseSign, h0, hU]
  · have e0 : (val == 0) = false := by simp [hv0]
    have hS : decide (toS 32 (Int.ofNat val) < 0) = decide (2 ^ 31 ≤ val) := by
      rw [decide_eq_decide]; exact toS_neg_iff (by decide) hv
    have hS' : decide (toS 32 (Int.ofNat val) ≤ 0) = decide (2 ^ 31 ≤ val) := by
      rw [decide_eq_decide, toS_ofNat (by decide) hv]; split <;> omega
    by_cases h2 : base = 2
    · subst h2
      have hc : canon 32 val 2 sign = specDigits 2 val := by simp [canon, effBase]
      have hb : toU 32 2 = 2 := by decide
      simp only [UInt32ToStrBaseSign, e0]
      simp
      c_loops32
      rw [hb, hc]
      exact written_pos0 _ _ _ (by simp)
    · by_cases h8 : base = 8
      · subst h8
        have hc : canon 32 val 8 sign = specDigits 8 val := by simp [canon, effBase]
        have hb : toU 32 8 = 8 := by decide
        simp only [UInt32ToStrBaseSign, e0]
        simp
        c_loops32
        rw [hb, hc]
        exact written_pos0 _ _ _ (by simp)
      · by_cases h16 : base = 16
        · subst h16
          have hc : canon 32 val 16 sign = specDigits 16 val := by simp [canon, effBase]
          have hb : toU 32 16 = 16 := by decide
          simp only [UInt32ToStrBaseSign, e0]
          simp
          c_loops32
          rw [hb, hc]
          exact written_pos0 _ _ _ (by simp)
        · have hb : toU 32 10 = 10 := by decide
          have e2 : (base == 2) = false := by simp [h2]
          have e8 : (base == 8) = false := by simp [h8]
          have e16 : (base == 16) = false := by simp [h16]
          have heff : effBase base = 10 := by simp [effBase, h2, h8, h16]
          by_cases hneg : sign = true ∧ 2 ^ 31 ≤ val
          · obtain ⟨rfl, hge⟩ := hneg
            have hc : canon 32 val base true = '-' :: specDigits 10 (4294967296 - val) := by
              simp [canon, heff, hge]
            have hn : uneg 32 val = 4294967296 - val := by rw [uneg_pos (by omega) hv]
            have hn' : usub 32 0 val = 4294967296 - val := by rw [usub_zero_pos (by omega) hv]
            simp only [UInt32ToStrBaseSign, e0, e2, e8, e16, hS, hS']
            by_cases h0 : 0 < len
            · simp [hge, h0, hn, hn', hU]
              c_loops32
              rw [hb, hc]
              exact written_pos1 _ _ h0 _ (by simp)
            · have : len = 0 := by omega
              subst this
              simp [hge, hn, hn']
              c_loops32
              rw [hb, hc]
              simp [written, logOf]
          · have hc : canon 32 val base sign = specDigits 10 val := by
              simp only [canon, heff]
              simp
              intro a b
              exact absurd ⟨a, by omega⟩ hneg
            have hcond : (sign && decide (2 ^ 31 ≤ val)) = false := by
              cases sign <;> simp at hneg ⊢ <;> omega
            simp only [UInt32ToStrBaseSign, e0, e2, e8, e16, hS, hS']
            simp [hcond]
            c_loops32
            rw [hb, hc]
            exact written_pos0 _ _ _ (by simp)

/-! ### 64 bit: the same proofs at the other width -/

theorem step1_64 (base : Int) (uval : Nat) (hb : toU 64 base ≠ 0) (x : Nat) (ub : Bool) (hx : x ≠ 0) :
    UInt64ToStrBaseSign_loop1_step base uval (x, ub) =
      if uval / x = 0 then ((x / toU 64 base, ub), true) else ((x, ub), false) := by
  have e1 : (x == 0) = false := by simp [hx]
  have e2 : (toU 64 base == 0) = false := by simp [hb]
  by_cases hq : uval / x = 0 <;> simp [UInt64ToStrBaseSign_loop1_step, hq, e1, e2]

theorem step2_64 (len : Nat) (base : Int) (hb : toU 64 base ≠ 0) (hl : len < 2 ^ 64)
    (str : List (Nat × Char)) (x : Nat) (digit : Int) (pos uval : Nat) (ub : Bool)
    (hx : x ≠ 0) (hd : uval / x < 16) (hu : uval < 2 ^ 64) (_hp : pos ≤ len) :
    UInt64ToStrBaseSign_loop2_step len base (str, x, digit, pos, uval, ub) =
      emitStepSpec (toU 64 base) len (str, x, digit, pos, uval, ub) := by
  have e1 : (x == 0) = false := by simp [hx]
  have e2 : (toU 64 base == 0) = false := by simp [hb]
  have h1 : uval / x * x ≤ uval := Nat.div_mul_le_self uval x
  have h2 : uval / x * x + uval % x = uval := by rw [Nat.mul_comm]; exact Nat.div_add_mod uval x
  have h3 : uval / x < 2 ^ 64 := by omega
  have h4 : usub 64 uval (umul 64 (uval / x) x) = uval % x := by
    rw [umul_small (by omega), usub_small h1 hu]; omega
  have h5 : pos < len → uadd 64 pos 1 = pos + 1 := fun h => uadd_small (by omega)
  simp only [UInt64ToStrBaseSign_loop2_step, emitStepSpec]
  simp only [toS8_digit hd, cget_digit _ hd, cinb_digit _ hd, toU_ofNat h3, h4, e1, e2, Bool.or_false, Bool.not_true]
  by_cases hpl : pos < len <;> simp [hpl, h5] <;> (try split) <;> simp_all <;> omega

theorem loops64 {len : Nat} {base : Int} (hb : 2 ≤ toU 64 base) (hb16 : toU 64 base ≤ 16) (hl : len < 2 ^ 64)
    {x0 : Nat} (he : entryOK 64 (toU 64 base) x0 = true) {uval : Nat} (hu0 : 0 < uval) (hu : uval < 2 ^ 64)
    (str : List (Nat × Char)) (digit : Int) {pos : Nat} (hp : pos ≤ len) (ub : Bool) :
    fin (loopFuel (UInt64ToStrBaseSign_loop2_step len base) 66 (str,
        (loopFuel (UInt64ToStrBaseSign_loop1_step base uval) 66 (x0, ub)).1.1, digit, pos, uval,
        (loopFuel (UInt64ToStrBaseSign_loop1_step base uval) 66 (x0, ub)).1.2 ||
          (loopFuel (UInt64ToStrBaseSign_loop1_step base uval) 66 (x0, ub)).2)) =
      (str ++ logOf pos ((specDigits (toU 64 base) uval).take (len - pos)),
        min len (pos + (specDigits (toU 64 base) uval).length), ub, false) :=
  loops_sim hb hb16 _ _ (step1_64 base uval (by omega))
    (fun str x digit pos uval ub hx hd hu hp => step2_64 len base (by omega) hl str x digit pos uval ub hx hd hu hp)
    he hu0 hu (by decide) (by decide) str digit hp ub


abbrev L64 (len : Nat) (base : Int) (x0 uval : Nat) (str : List (Nat × Char)) (digit : Int) (pos : Nat) (ub : Bool) : DState × Bool :=
  loopFuel (UInt64ToStrBaseSign_loop2_step len base) 66 (str,
        (loopFuel (UInt64ToStrBaseSign_loop1_step base uval) 66 (x0, ub)).1.1, digit, pos, uval,
        (loopFuel (UInt64ToStrBaseSign_loop1_step base uval) 66 (x0, ub)).1.2 ||
          (loopFuel (UInt64ToStrBaseSign_loop1_step base uval) 66 (x0, ub)).2)

theorem loops64_str {len : Nat} {base : Int} (hb : 2 ≤ toU 64 base) (hb16 : toU 64 base ≤ 16) (hl : len < 2 ^ 64)
    {x0 : Nat} (he : entryOK 64 (toU 64 base) x0 = true) {uval : Nat} (hu0 : 0 < uval) (hu : uval < 2 ^ 64)
    (str : List (Nat × Char)) (digit : Int) {pos : Nat} (hp : pos ≤ len) (ub : Bool) :
    (L64 len base x0 uval str digit pos ub).1.1 = str ++ logOf pos ((specDigits (toU 64 base) uval).take (len - pos)) :=
  fin_str (loops64 hb hb16 hl he hu0 hu str digit hp ub)
theorem loops64_pos {len : Nat} {base : Int} (hb : 2 ≤ toU 64 base) (hb16 : toU 64 base ≤ 16) (hl : len < 2 ^ 64)
    {x0 : Nat} (he : entryOK 64 (toU 64 base) x0 = true) {uval : Nat} (hu0 : 0 < uval) (hu : uval < 2 ^ 64)
    (str : List (Nat × Char)) (digit : Int) {pos : Nat} (hp : pos ≤ len) (ub : Bool) :
    (L64 len base x0 uval str digit pos ub).1.2.2.2.1 = min len (pos + (specDigits (toU 64 base) uval).length) :=
  fin_pos (loops64 hb hb16 hl he hu0 hu str digit hp ub)
theorem loops64_ub {len : Nat} {base : Int} (hb : 2 ≤ toU 64 base) (hb16 : toU 64 base ≤ 16) (hl : len < 2 ^ 64)
    {x0 : Nat} (he : entryOK 64 (toU 64 base) x0 = true) {uval : Nat} (hu0 : 0 < uval) (hu : uval < 2 ^ 64)
    (str : List (Nat × Char)) (digit : Int) {pos : Nat} (hp : pos ≤ len) (ub : Bool) :
    (L64 len base x0 uval str digit pos ub).1.2.2.2.2.2 = ub :=
  fin_ub (loops64 hb hb16 hl he hu0 hu str digit hp ub)
theorem loops64_oof {len : Nat} {base : Int} (hb : 2 ≤ toU 64 base) (hb16 : toU 64 base ≤ 16) (hl : len < 2 ^ 64)
    {x0 : Nat} (he : entryOK 64 (toU 64 base) x0 = true) {uval : Nat} (hu0 : 0 < uval) (hu : uval < 2 ^ 64)
    (str : List (Nat × Char)) (digit : Int) {pos : Nat} (hp : pos ≤ len) (ub : Bool) :
    (L64 len base x0 uval str digit pos ub).2 = false :=
  fin_oof (loops64 hb hb16 hl he hu0 hu str digit hp ub)

macro "c_loops64" : tactic => `(tactic|
  simp (disch := first | assumption | omega | decide) only [loops64_str, loops64_pos, loops64_ub, loops64_oof])

theorem gen64_written (val len : Nat) (base : Int) (sign : Bool) (hv : val < 2 ^ 64) (hl : len < 2 ^ 64) :
    UInt64ToStrBaseSign val len base sign = written (canon 64 val base sign) len := by
  have hU : uadd 64 0 1 = 1 := by decide
  have hP : (2 : Nat) ^ 64 = 18446744073709551616 := by decide
  by_cases hv0 : val = 0
  · subst hv0
    have hc : canon 64 0 base sign = ['0'] := by simp [canon, specDigits_zero]
    rw [hc, ← written_zero]
    by_cases h0 : 0 < len <;> simp [UInt64ToStrBaseSign, h0, hU]
  · have e0 : (val == 0) = false := by simp [hv0]
    have hS : decide (toS 64 (Int.ofNat val) < 0) = decide (2 ^ 63 ≤ val) := by
      rw [decide_eq_decide]; exact toS_neg_iff (by decide) hv
    have hS' : decide (toS 64 (Int.ofNat val) ≤ 0) = decide (2 ^ 63 ≤ val) := by
      rw [decide_eq_decide, toS_ofNat (by decide) hv]; split <;> omega
    by_cases h2 : base = 2
    · subst h2
      have hc : canon 64 val 2 sign = specDigits 2 val := by simp [canon, effBase]
      have hb : toU 64 2 = 2 := by decide
      simp only [UInt64ToStrBaseSign, e0]
      simp
      c_loops64
      rw [hb, hc]
      exact written_pos0 _ _ _ (by simp)
    · by_cases h8 : base = 8
      · subst h8
        have hc : canon 64 val 8 sign = specDigits 8 val := by simp [canon, effBase]
        have hb : toU 64 8 = 8 := by decide
        simp only [UInt64ToStrBaseSign, e0]
        simp
        c_loops64
        rw [hb, hc]
        exact written_pos0 _ _ _ (by simp)
      · by_cases h16 : base = 16
        · subst h16
          have hc : canon 64 val 16 sign = specDigits 16 val := by simp [canon, effBase]
          have hb : toU 64 16 = 16 := by decide
          simp only [UInt64ToStrBaseSign, e0]
          simp
          c_loops64
          rw [hb, hc]
          exact written_pos0 _ _ _ (by simp)
        · have hb : toU 64 10 = 10 := by decide
          have e2 : (base == 2) = false := by simp [h2]
          have e8 : (base == 8) = false := by simp [h8]
          have e16 : (base == 16) = false := by simp [h16]
          have heff : effBase base = 10 := by simp [effBase, h2, h8, h16]
          by_cases hneg : sign = true ∧ 2 ^ 63 ≤ val
          · obtain ⟨rfl, hge⟩ := hneg
            have hc : canon 64 val base true = '-' :: specDigits 10 (18446744073709551616 - val) := by
              simp [canon, heff, hge]
            have hn : uneg 64 val = 18446744073709551616 - val := by rw [uneg_pos (by omega) hv]
            have hn' : usub 64 0 val = 18446744073709551616 - val := by rw [usub_zero_pos (by omega) hv]
            simp only [UInt64ToStrBaseSign, e0, e2, e8, e16, hS, hS']
            by_cases h0 : 0 < len
            · simp [hge, h0, hn, hn', hU]
              c_loops64
              rw [hb, hc]
              exact written_pos1 _ _ h0 _ (by simp)
            · have : len = 0 := by omega
              subst this
              simp [hge, hn, hn']
              c_loops64
              rw [hb, hc]
              simp [written, logOf]
          · have hc : canon 64 val base sign = specDigits 10 val := by
              simp only [canon, heff]
              simp
              intro a b
              exact absurd ⟨a, by omega⟩ hneg
            have hcond : (sign && decide (2 ^ 63 ≤ val)) = false := by
              cases sign <;> simp at hneg ⊢ <;> omega
            simp only [UInt64ToStrBaseSign, e0, e2, e8, e16, hS, hS']
            simp [hcond]
            c_loops64
            rw [hb, hc]
            exact written_pos0 _ _ _ (by simp)

/-! ### refinement of the hand-written model -/

/-- the hand model's result in the vocabulary of the generated functions: store log, return value, ub -/
def expected (r : Out × Bool) : List (Nat × Char) × Nat × Bool :=
  (logOf 0 r.1.chars ++ (if r.2 then [(r.1.pos, Char.ofNat 0)] else []), r.1.pos, r.1.ub)

theorem expected_toStr (w : Nat) (t : DivTable) (hw : w = 32 ∨ w = 64) (ht : tableOK w t = true)
    (val len : Nat) (base : Int) (sign : Bool) (hv : val < 2 ^ w) :
    expected (toStrBaseSign w t val len base sign) = written (canon w val base sign) len := by
  obtain ⟨h1, h2, h3, h4⟩ := toStr_spec w t hw ht val len base sign hv
  simp only [expected, written, h1, h2, h3, h4, decide_eq_true_eq]

theorem toStr32_refines (t : DivTable) (ht : tableOK 32 t = true) (val len : Nat) (base : Int) (sign : Bool)
    (hv : val < 2 ^ 32) (hl : len < 2 ^ 64) :
    UInt32ToStrBaseSign val len base sign = expected (toStrBaseSign 32 t val len base sign) := by
  rw [expected_toStr 32 t (Or.inl rfl) ht val len base sign hv]; exact gen32_written val len base sign hv hl

theorem toStr64_refines (t : DivTable) (ht : tableOK 64 t = true) (val len : Nat) (base : Int) (sign : Bool)
    (hv : val < 2 ^ 64) (hl : len < 2 ^ 64) :
    UInt64ToStrBaseSign val len base sign = expected (toStrBaseSign 64 t val len base sign) := by
  rw [expected_toStr 64 t (Or.inr rfl) ht val len base sign hv]; exact gen64_written val len base sign hv hl

/-! ### the four public wrappers -/

theorem toU_lt (w : Nat) (v : Int) : toU w v < 2 ^ w := by
  unfold toU
  have hp : (0 : Int) < ((2 ^ w : Nat) : Int) := by
    have : 0 < 2 ^ w := Nat.pow_pos (by omega)
    omega
  have h1 := Int.emod_lt_of_pos v hp
  have h2 := Int.emod_nonneg v (Int.ne_of_gt hp)
  omega

theorem int32ToStr_eq (val : Int) (len : Nat) :
    SCPI_Int32ToStr val len = UInt32ToStrBaseSign (toU 32 val) len 10 true := by simp [SCPI_Int32ToStr]
theorem uint32ToStrBase_eq (val len : Nat) (base : Int) :
    SCPI_UInt32ToStrBase val len base = UInt32ToStrBaseSign val len base false := by simp [SCPI_UInt32ToStrBase]
theorem int64ToStr_eq (val : Int) (len : Nat) :
    SCPI_Int64ToStr val len = UInt64ToStrBaseSign (toU 64 val) len 10 true := by simp [SCPI_Int64ToStr]
theorem uint64ToStrBase_eq (val len : Nat) (base : Int) :
    SCPI_UInt64ToStrBase val len base = UInt64ToStrBaseSign val len base false := by simp [SCPI_UInt64ToStrBase]

end ScpiVerif.Lemmas.IntFmtC
