/-
Helper lemmas for the application-owned part of Props/C11.lean: direct writes to the status byte
(SCPI_RegSet / SCPI_RegSetBits / SCPI_RegClearBits on SCPI_REG_STB) that leave the library-owned summary
bits QMA (0x04), QES (0x08), ESB (0x20), OPS (0x80) as they are.  Everything else of the written value is
free: bits 0, 1, 4 (MAV), bit 6 (recomputed by SCPI_RegSet) and bits 8..15 of the 16-bit register.

`0xAC` below is the mask of the four summary bits (`Props.C11.summaryMask`).
-/
import ScpiVerif.Lemmas.Regs
namespace ScpiVerif.Lemmas.RegsStb
open ScpiVerif ScpiVerif.Regs ScpiVerif.Lemmas.Regs

/-! ### bit facts -/

/-- equal under a mask, hence equal under every sub-mask -/
theorem and_of_mask (x y m b : Reg) (h : x &&& m = y &&& m) (hb : b &&& ~~~m = 0) : x &&& b = y &&& b := by
  ext i hi
  have a := congrArg (·[i]) h
  have c := congrArg (·[i]) hb
  simp at a c ⊢
  revert a c; cases x[i] <;> cases y[i] <;> cases m[i] <;> cases b[i] <;> simp

/-- setting bits leaves the masked part as it is iff the masked new bits are already set -/
theorem or_mask_iff (x v m : Reg) : (x ||| v) &&& m = x &&& m ↔ (v &&& m) &&& ~~~x = 0 := by
  constructor <;> intro h <;> ext i hi <;> have a := congrArg (·[i]) h <;> simp at a ⊢ <;>
    revert a <;> cases x[i] <;> cases v[i] <;> cases m[i] <;> simp

/-- clearing bits leaves the masked part as it is iff none of the masked bits to clear is set -/
theorem andn_mask_iff (x v m : Reg) : (x &&& ~~~v) &&& m = x &&& m ↔ (v &&& m) &&& x = 0 := by
  constructor <;> intro h <;> ext i hi <;> have a := congrArg (·[i]) h <;> simp at a ⊢ <;>
    revert a <;> cases x[i] <;> cases v[i] <;> cases m[i] <;> simp

theorem and_twoPow_ne (x : Reg) (i : Nat) (hi : i < 16) : x &&& BitVec.twoPow 16 i ≠ 0 ↔ x[i] = true := by
  rw [BitVec.and_twoPow, BitVec.getLsbD_eq_getElem hi]
  cases h : x[i]
  · simp
  · simp only [if_true]
    refine ⟨fun _ => trivial, fun _ e => ?_⟩
    have := congrArg (·[i]) e
    simp [BitVec.getElem_twoPow] at this

/-- the four summary bits agree one by one, hence under the mask -/
theorem mask_of_bits (x y : Reg)
    (h2 : x &&& 4 ≠ 0 ↔ y &&& 4 ≠ 0) (h3 : x &&& 8 ≠ 0 ↔ y &&& 8 ≠ 0)
    (h5 : x &&& 32 ≠ 0 ↔ y &&& 32 ≠ 0) (h7 : x &&& 128 ≠ 0 ↔ y &&& 128 ≠ 0) :
    x &&& 0xAC = y &&& 0xAC := by
  have t2 : (4 : Reg) = BitVec.twoPow 16 2 := by decide
  have t3 : (8 : Reg) = BitVec.twoPow 16 3 := by decide
  have t5 : (32 : Reg) = BitVec.twoPow 16 5 := by decide
  have t7 : (128 : Reg) = BitVec.twoPow 16 7 := by decide
  rw [t2, and_twoPow_ne _ 2 (by decide), and_twoPow_ne _ 2 (by decide)] at h2
  rw [t3, and_twoPow_ne _ 3 (by decide), and_twoPow_ne _ 3 (by decide)] at h3
  rw [t5, and_twoPow_ne _ 5 (by decide), and_twoPow_ne _ 5 (by decide)] at h5
  rw [t7, and_twoPow_ne _ 7 (by decide), and_twoPow_ne _ 7 (by decide)] at h7
  have b2 : x[2] = y[2] := Bool.eq_iff_iff.2 h2
  have b3 : x[3] = y[3] := Bool.eq_iff_iff.2 h3
  have b5 : x[5] = y[5] := Bool.eq_iff_iff.2 h5
  have b7 : x[7] = y[7] := Bool.eq_iff_iff.2 h7
  ext i hi
  have hcases : i = 0 ∨ i = 1 ∨ i = 2 ∨ i = 3 ∨ i = 4 ∨ i = 5 ∨ i = 6 ∨ i = 7 ∨ i = 8 ∨ i = 9 ∨ i = 10 ∨
      i = 11 ∨ i = 12 ∨ i = 13 ∨ i = 14 ∨ i = 15 := by omega
  rcases hcases with rfl | rfl | rfl | rfl | rfl | rfl | rfl | rfl | rfl | rfl | rfl | rfl | rfl | rfl | rfl | rfl <;>
    simp [b2, b3, b5, b7] <;> decide

/-! ### SCPI_RegSet on the status byte -/

/-- what a direct write of `v` leaves in the status byte of a coherent state: `v` with bit 6 recomputed;
no other register changes -/
theorem regSet_stb_value (s : St) (v : Reg) (L : s.regs.length = 10) (hc : Coherent s) :
    get (regSet s 0 v) 0 = fixSRQ v (get s 1) ∧ (∀ m, m ≠ 0 → get (regSet s 0 v) m = get s m) ∧
    (regSet s 0 v).qn = s.qn := by
  obtain ⟨a, b, c⟩ := setTop_STB s v L
  exact ⟨(c ((coherent_iff s).1 hc).1.2.2.2).1, b, a.2.1⟩

/-- a direct write keeps the state coherent exactly when it keeps the four summary bits -/
theorem coherent_regSet_stb_iff (s : St) (v : Reg) (L : s.regs.length = 10) (hc : Coherent s) :
    Coherent (regSet s 0 v) ↔ v &&& 0xAC = get s 0 &&& 0xAC := by
  obtain ⟨e0, em, eq⟩ := regSet_stb_value s v L hc
  have hc' := (coherent_iff s).1 hc
  obtain ⟨⟨g1, g2, g3, _⟩, g4⟩ := hc'
  unfold GrpOK at g1 g2 g3
  constructor
  · intro h
    obtain ⟨⟨k1, k2, k3, _⟩, k4⟩ := (coherent_iff _).1 h
    unfold GrpOK at k1 k2 k3
    rw [e0, em 2 (by decide), em 3 (by decide), fixSRQ_and _ _ 32 (by decide)] at k1
    rw [e0, em 4 (by decide), em 5 (by decide), fixSRQ_and _ _ 128 (by decide)] at k2
    rw [e0, em 7 (by decide), em 8 (by decide), fixSRQ_and _ _ 8 (by decide)] at k3
    rw [e0, eq, fixSRQ_and _ _ 4 (by decide)] at k4
    exact mask_of_bits _ _ (k4.trans g4.symm) (k3.trans g3.symm) (k1.trans g1.symm) (k2.trans g2.symm)
  · intro h
    rw [coherent_iff]
    refine ⟨coh3_of_stb s _ v e0 em ?_ ?_ ?_, ?_⟩
    · rw [and_of_mask _ _ _ 32 h (by decide)]; exact g1
    · rw [and_of_mask _ _ _ 128 h (by decide)]; exact g2
    · rw [and_of_mask _ _ _ 8 h (by decide)]; exact g3
    · rw [e0, eq, fixSRQ_and _ _ 4 (by decide), and_of_mask _ _ _ 4 h (by decide)]; exact g4

theorem coherent_set_stb (s : St) (v : Reg) (L : s.regs.length = 10) (hc : Coherent s)
    (h : v &&& 0xAC = get s 0 &&& 0xAC) : Coherent (regSet s 0 v) :=
  (coherent_regSet_stb_iff s v L hc).2 h

theorem coherent_setBits_stb_iff (s : St) (v : Reg) (L : s.regs.length = 10) (hc : Coherent s) :
    Coherent (regSetBits s 0 v) ↔ (v &&& 0xAC) &&& ~~~get s 0 = 0 := by
  unfold regSetBits
  rw [coherent_regSet_stb_iff s _ L hc, or_mask_iff]

theorem coherent_clearBits_stb_iff (s : St) (v : Reg) (L : s.regs.length = 10) (hc : Coherent s) :
    Coherent (regClearBits s 0 v) ↔ (v &&& 0xAC) &&& get s 0 = 0 := by
  unfold regClearBits
  rw [coherent_regSet_stb_iff s _ L hc, andn_mask_iff]

end ScpiVerif.Lemmas.RegsStb
