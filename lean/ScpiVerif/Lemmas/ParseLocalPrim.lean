/-
Helper lemmas for `ParseLocal` (Lemmas/ParseLocal.lean), part 1 and 2: two byte buffers that agree
up to and including an index `P` holding a line feed (or a carriage return), and the C-library number readers of
`Model/Prim.lean` on such buffers.

Compare `Lemmas/Isolation.lean` (`Agree`): there the stopper at `P` is a NUL; here it is the line
feed that terminates the message.  A line feed is white space for `strtol`/`strtod`, so the reader
lemmas carry the extra hypothesis that the byte the reader is started at is not white space.
-/
import ScpiVerif.Lemmas.Isolation

set_option linter.unusedSimpArgs false

namespace ScpiVerif.Lemmas.ParseLocalAux
open ScpiVerif ScpiVerif.Lexer
open ScpiVerif.Lemmas.Isolation (getD_drop sgnStep pfxStep strtoSyntax_eq dLower dWord dSign dFrac dExp dHexCond
  dBody strtodLen_eq)

/-- the stopper bytes: line feed and carriage return (the last byte of a terminated message) -/
def stp (b : UInt8) : Bool := b == 10 || b == 13

theorem stp_cases {b : UInt8} (h : stp b = true) : b = 10 ∨ b = 13 := by
  simpa [stp] using h

/-- a byte of a class that contains neither stopper is not a stopper -/
theorem not_stp_of {p : UInt8 → Bool} (h10 : p 10 = false) (h13 : p 13 = false) {b : UInt8}
    (hb : p b = true) : stp b = false := by
  cases hs : stp b with
  | false => rfl
  | true =>
    rcases stp_cases hs with rfl | rfl
    · rw [h10] at hb; cases hb
    · rw [h13] at hb; cases hb

/-- same length, same bytes at every index `≤ P`, and a line feed (or CR) at index `P` -/
structure AgreeL (P : Nat) (b1 b2 : Bytes) : Prop where
  len : b1.length = b2.length
  eq : ∀ i, i ≤ P → b1.getD i 0 = b2.getD i 0
  lf : stp (b1.getD P 0) = true

theorem AgreeL.lf2 {P : Nat} {b1 b2 : Bytes} (h : AgreeL P b1 b2) : stp (b2.getD P 0) = true := by
  rw [← h.eq P (Nat.le_refl _)]; exact h.lf

theorem AgreeL.symm {P : Nat} {b1 b2 : Bytes} (h : AgreeL P b1 b2) : AgreeL P b2 b1 :=
  ⟨h.len.symm, fun i hi => (h.eq i hi).symm, h.lf2⟩

theorem AgreeL.prd {P : Nat} {b1 b2 : Bytes} (h : AgreeL P b1 b2) {i : Nat} (hi : i ≤ P) :
    Prim.rd b1 i = Prim.rd b2 i := h.eq i hi

theorem AgreeL.mrd {P : Nat} {b1 b2 : Bytes} (h : AgreeL P b1 b2) {i : Nat} (hi : i ≤ P) :
    Match.rd b1 i = Match.rd b2 i := h.eq i hi

/-- a byte other than the line feed at an index `≤ P` is strictly before `P` -/
theorem AgreeL.lt_of_ne {P : Nat} {b1 b2 : Bytes} (h : AgreeL P b1 b2) {i : Nat} (hi : i ≤ P)
    (hne : stp (b1.getD i 0) = false) : i < P := by
  rcases Nat.lt_or_ge i P with h1 | h1
  · exact h1
  · have : i = P := by omega
    subst this; rw [h.lf] at hne; cases hne

/-- the tail from `off` agrees up to the (shifted) line feed -/
theorem AgreeL.drop {P : Nat} {b1 b2 : Bytes} (h : AgreeL P b1 b2) (off : Nat) (ho : off ≤ P) :
    AgreeL (P - off) (b1.drop off) (b2.drop off) := by
  refine ⟨?_, ?_, ?_⟩
  · simp [h.len]
  · intro i hi
    rw [getD_drop, getD_drop]; exact h.eq _ (by omega)
  · rw [getD_drop]
    have : off + (P - off) = P := by omega
    rw [this]; exact h.lf

/-- windows that end at or before the line feed (inclusive) are equal -/
theorem AgreeL.window {P : Nat} {b1 b2 : Bytes} (h : AgreeL P b1 b2) (a n : Nat) (hb : a + n ≤ P + 1) :
    (b1.drop a).take n = (b2.drop a).take n := by
  apply List.ext_getElem?
  intro i
  simp only [List.getElem?_take, List.getElem?_drop]
  split
  · have h1 := h.eq (a + i) (by omega)
    simp only [List.getD_eq_getElem?_getD] at h1
    have hl := h.len
    by_cases hlt : a + i < b1.length
    · have hlt2 : a + i < b2.length := by omega
      rw [List.getElem?_eq_getElem hlt, List.getElem?_eq_getElem hlt2] at h1 ⊢
      simpa using h1
    · rw [List.getElem?_eq_none (by omega), List.getElem?_eq_none (by omega)]
  · rfl

theorem AgreeL.take {P : Nat} {b1 b2 : Bytes} (h : AgreeL P b1 b2) (n : Nat) (hn : n ≤ P + 1) :
    b1.take n = b2.take n := by
  have := h.window 0 n (by omega)
  simpa using this

/-- a store strictly below `P` of the same byte at the same index keeps agreement -/
theorem AgreeL.set {P : Nat} {b1 b2 : Bytes} (h : AgreeL P b1 b2) (i : Nat) (x : UInt8) (hi : i < P) :
    AgreeL P (b1.set i x) (b2.set i x) := by
  refine ⟨by simp [h.len], ?_, ?_⟩
  · intro j hj
    simp only [List.getD_eq_getElem?_getD, List.getElem?_set]
    have hl := h.len
    have hj' := h.eq j hj
    simp only [List.getD_eq_getElem?_getD] at hj'
    by_cases hij : i = j
    · subst hij
      simp only [if_true]
      by_cases hlt : i < b1.length
      · have : i < b2.length := by omega
        simp [hlt, this]
      · have : ¬ i < b2.length := by omega
        simp [hlt, this]
    · simp only [hij, if_false]; exact hj'
  · have := h.lf
    simp only [List.getD_eq_getElem?_getD, List.getElem?_set] at this ⊢
    have hne : ¬ i = P := by omega
    simp only [hne, if_false]; exact this

/-- from the hypotheses of `ParseLocal` -/
theorem AgreeL.of_take {b1 b2 : Bytes} {k : Nat} (hl : b1.length = b2.length) (hk : k ≤ b1.length)
    (ht : b1.take k = b2.take k) {x : UInt8} (hlast : (b1.take k).getLast? = some x) (hx : stp x = true) :
    0 < k ∧ AgreeL (k - 1) b1 b2 := by
  have hk0 : 0 < k := by
    rcases Nat.eq_zero_or_pos k with h0 | h0
    · subst h0; simp at hlast
    · exact h0
  refine ⟨hk0, hl, ?_, ?_⟩
  · intro i hi
    have h1 : (b1.take k)[i]? = (b2.take k)[i]? := by rw [ht]
    simp only [List.getElem?_take] at h1
    rw [if_pos (by omega), if_pos (by omega)] at h1
    simp only [List.getD_eq_getElem?_getD, h1]
  · rw [List.getLast?_eq_getElem?] at hlast
    simp only [List.length_take, List.getElem?_take] at hlast
    have e : min k b1.length - 1 = k - 1 := by omega
    rw [e, if_pos (by omega)] at hlast
    simp only [List.getD_eq_getElem?_getD, hlast, Option.getD_some]
    exact hx

/-! # strtol / strtoul / strtod -/

section
variable {P : Nat} {b1 b2 : Bytes}

/-- a byte other than the line feed read at `i ≤ P` leaves the next index `≤ P` -/
theorem AgreeL.rd_next (h : AgreeL P b1 b2) {i : Nat} (hi : i ≤ P) (hne : stp (Prim.rd b1 i) = false) :
    i + 1 ≤ P := h.lt_of_ne hi hne

theorem AgreeL.rd_next_of_eq (h : AgreeL P b1 b2) {i : Nat} (hi : i ≤ P) {c : UInt8}
    (hc : Prim.rd b1 i = c) (hc0 : stp c = false) : i + 1 ≤ P :=
  h.rd_next hi (by rw [hc]; exact hc0)

/-! ### scans -/

/-- started at a byte that is not white space, the white-space skip does nothing -/
theorem skipSpaces_of_not_space (b : Bytes) (f i : Nat) (h : Prim.isSpace (Prim.rd b i) = false) :
    Prim.skipSpaces b f i = i := by
  cases f with
  | zero => rfl
  | succ f => simp only [Prim.skipSpaces, h, Bool.false_eq_true, if_false]

theorem run_agree (h : AgreeL P b1 b2) (p : UInt8 → Bool) (hp : p 10 = false) (hp' : p 13 = false) :
    ∀ (f i : Nat), i ≤ P →
    Prim.strtodLen.run b1 p f i = Prim.strtodLen.run b2 p f i ∧ Prim.strtodLen.run b1 p f i ≤ P := by
  intro f
  induction f with
  | zero => intro i hi; exact ⟨rfl, hi⟩
  | succ f ih =>
    intro i hi
    simp only [Prim.strtodLen.run]
    rw [← h.prd hi]
    by_cases hs : p (Prim.rd b1 i) = true
    · have hne : stp (Prim.rd b1 i) = false := not_stp_of hp hp' hs
      simp only [hs, if_true]
      exact ih (i + 1) (h.rd_next hi hne)
    · simp only [hs]
      exact ⟨rfl, hi⟩

theorem digitsOfBase_agree (h : AgreeL P b1 b2) (base : Nat) : ∀ (f i acc : Nat), i ≤ P →
    Prim.digitsOfBase b1 base f i acc = Prim.digitsOfBase b2 base f i acc ∧
      (Prim.digitsOfBase b1 base f i acc).1 ≤ P := by
  intro f
  induction f with
  | zero => intro i acc hi; exact ⟨rfl, hi⟩
  | succ f ih =>
    intro i acc hi
    simp only [Prim.digitsOfBase]
    rw [← h.prd hi]
    cases hd : Prim.digitVal (Prim.rd b1 i) with
    | none => exact ⟨rfl, hi⟩
    | some d =>
      have hne : stp (Prim.rd b1 i) = false :=
        not_stp_of (p := fun b => (Prim.digitVal b).isSome) (by decide) (by decide) (by simp [hd])
      simp only
      by_cases hlt : d < base
      · simp only [hlt, if_true]
        exact ih (i + 1) _ (h.rd_next hi hne)
      · simp only [hlt, if_false]
        exact ⟨trivial, hi⟩

/-! ### `strtoSyntax` -/

theorem sgnStep_agree (h : AgreeL P b1 b2) {i0 : Nat} (hi : i0 ≤ P) :
    sgnStep b1 i0 = sgnStep b2 i0 ∧ (sgnStep b1 i0).2 ≤ P := by
  unfold sgnStep
  rw [← h.prd hi]
  by_cases h45 : Prim.rd b1 i0 = 45
  · have := h.rd_next_of_eq hi h45 (by decide)
    simp [h45, this]
  · by_cases h43 : Prim.rd b1 i0 = 43
    · have := h.rd_next_of_eq hi h43 (by decide)
      simp [h43, this]
    · simp [h45, h43, hi]

theorem pfxStep_agree (h : AgreeL P b1 b2) (base : Nat) {i1 : Nat} (hi : i1 ≤ P) :
    pfxStep b1 base i1 = pfxStep b2 base i1 ∧ pfxStep b1 base i1 ≤ P := by
  unfold pfxStep
  rw [← h.prd hi]
  by_cases h48 : Prim.rd b1 i1 = 48
  · have hi1 := h.rd_next_of_eq hi h48 (by decide)
    rw [← h.prd hi1]
    by_cases hx : Prim.rd b1 (i1 + 1) = 120 ∨ Prim.rd b1 (i1 + 1) = 88
    · have hi2 : i1 + 1 + 1 ≤ P := by
        rcases hx with hx | hx
        · exact h.rd_next_of_eq hi1 hx (by decide)
        · exact h.rd_next_of_eq hi1 hx (by decide)
      rw [← h.prd (i := i1 + 2) hi2]
      refine ⟨rfl, ?_⟩
      split
      · exact hi2
      · exact hi
    · simp [hx, hi]
  · simp [h48, hi]

theorem strtoSyntax_agree (h : AgreeL P b1 b2) (off base : Nat) (ho : off ≤ P)
    (hns : Prim.isSpace (Prim.rd b1 off) = false) :
    Prim.strtoSyntax b1 off base = Prim.strtoSyntax b2 off base := by
  rw [strtoSyntax_eq, strtoSyntax_eq]
  have hns2 : Prim.isSpace (Prim.rd b2 off) = false := by rw [← h.prd ho]; exact hns
  rw [skipSpaces_of_not_space b1 _ off hns, skipSpaces_of_not_space b2 _ off hns2]
  have h1 := sgnStep_agree h ho
  rw [← h1.1]
  have h2 := pfxStep_agree h base h1.2
  simp only
  rw [← h2.1, ← h.len]
  have h3 := digitsOfBase_agree h base (b1.length - pfxStep b1 base (sgnStep b1 off).2 + 2) _ 0 h2.2
  rw [← h3.1]

theorem strtoulTo_agree (h : AgreeL P b1 b2) (w off base : Nat) (ho : off ≤ P)
    (hns : Prim.isSpace (Prim.rd b1 off) = false) :
    Prim.strtoulTo w b1 off base = Prim.strtoulTo w b2 off base := by
  unfold Prim.strtoulTo
  rw [strtoSyntax_agree h off base ho hns]

theorem strtolTo_agree (h : AgreeL P b1 b2) (w off base : Nat) (ho : off ≤ P)
    (hns : Prim.isSpace (Prim.rd b1 off) = false) :
    Prim.strtolTo w b1 off base = Prim.strtolTo w b2 off base := by
  unfold Prim.strtolTo
  rw [strtoSyntax_agree h off base ho hns]

/-! ### `strtodLen` -/

theorem dLower_ne_lf {b c : UInt8} (hc : stp c = false) (h : (dLower b == c) = true) : stp b = false := by
  cases hs : stp b with
  | false => rfl
  | true =>
    have h' : dLower b = c := by simpa using h
    rcases stp_cases hs with rfl | rfl
    · have : dLower 10 = 10 := by decide
      rw [this] at h'; subst h'; exact absurd hc (by decide)
    · have : dLower 13 = 13 := by decide
      rw [this] at h'; subst h'; exact absurd hc (by decide)

theorem wordAux_agree (h : AgreeL P b1 b2) (at_ : Nat) : ∀ (w : List UInt8) (k : Nat),
    (∀ c ∈ w, stp c = false) → at_ + k ≤ P →
    ((w.zipIdx k).all (fun (c, j) => dLower (Prim.rd b1 (at_ + j)) == c) =
      (w.zipIdx k).all (fun (c, j) => dLower (Prim.rd b2 (at_ + j)) == c)) ∧
    ((w.zipIdx k).all (fun (c, j) => dLower (Prim.rd b1 (at_ + j)) == c) = true →
      at_ + k + w.length ≤ P) := by
  intro w
  induction w with
  | nil => intro k _ hk; simp [hk]
  | cons c t ih =>
    intro k hw hk
    simp only [List.zipIdx_cons, List.all_cons, List.length_cons]
    rw [← h.prd hk]
    by_cases hc : (dLower (Prim.rd b1 (at_ + k)) == c) = true
    · have hne := dLower_ne_lf (hw c (by simp)) hc
      have hk1 : at_ + (k + 1) ≤ P := h.rd_next hk hne
      have := ih (k + 1) (fun c hc => hw c (by simp [hc])) hk1
      rw [hc]
      simp only [Bool.true_and]
      refine ⟨this.1, fun hh => ?_⟩
      have := this.2 hh
      omega
    · simp [hc]

theorem dWord_agree (h : AgreeL P b1 b2) (w : List UInt8) (hw : ∀ c ∈ w, stp c = false) {i : Nat} (hi : i ≤ P) :
    dWord b1 w i = dWord b2 w i ∧ (dWord b1 w i = true → i + w.length ≤ P) := by
  have := wordAux_agree h i w 0 hw (by omega)
  exact this

theorem dSign_agree (h : AgreeL P b1 b2) {i0 : Nat} (hi : i0 ≤ P) :
    dSign b1 i0 = dSign b2 i0 ∧ dSign b1 i0 ≤ P := by
  unfold dSign
  rw [← h.prd hi]
  by_cases h45 : Prim.rd b1 i0 = 45
  · have := h.rd_next_of_eq hi h45 (by decide)
    simp [h45, this]
  · by_cases h43 : Prim.rd b1 i0 = 43
    · have := h.rd_next_of_eq hi h43 (by decide)
      simp [h43, this]
    · simp [h45, h43, hi]

theorem dFrac_agree (h : AgreeL P b1 b2) (p : UInt8 → Bool) (hp : p 10 = false) (hp' : p 13 = false) (fuel : Nat) {a : Nat}
    (ha : a ≤ P) : dFrac b1 p fuel a = dFrac b2 p fuel a ∧ dFrac b1 p fuel a ≤ P := by
  unfold dFrac
  rw [← h.prd ha]
  by_cases h46 : Prim.rd b1 a = 46
  · have ha1 := h.rd_next_of_eq ha h46 (by decide)
    simp only [h46, beq_self_eq_true, if_true]
    exact run_agree h p hp hp' fuel (a + 1) ha1
  · simp [h46, ha]

theorem dExp_agree (h : AgreeL P b1 b2) (c1 c2 : UInt8) (h1 : stp c1 = false) (h2 : stp c2 = false) (fuel : Nat) {b : Nat}
    (hb : b ≤ P) : dExp b1 c1 c2 fuel b = dExp b2 c1 c2 fuel b ∧ dExp b1 c1 c2 fuel b ≤ P := by
  unfold dExp
  rw [← h.prd hb]
  by_cases hc : Prim.rd b1 b = c1 ∨ Prim.rd b1 b = c2
  · have hb1 : b + 1 ≤ P := by
      rcases hc with hc | hc
      · exact h.rd_next_of_eq hb hc h1
      · exact h.rd_next_of_eq hb hc h2
    have hc' : (Prim.rd b1 b == c1) = true ∨ (Prim.rd b1 b == c2) = true := by simpa using hc
    simp only [hc', if_true]
    rw [← h.prd hb1]
    have hs : (if (Prim.rd b1 (b + 1) == 45) = true ∨ (Prim.rd b1 (b + 1) == 43) = true then b + 2
        else b + 1) ≤ P := by
      by_cases h45 : Prim.rd b1 (b + 1) = 45
      · have := h.rd_next_of_eq hb1 h45 (by decide)
        simp [h45]; omega
      · by_cases h43 : Prim.rd b1 (b + 1) = 43
        · have := h.rd_next_of_eq hb1 h43 (by decide)
          simp [h43]; omega
        · simp [h45, h43, hb1]
    generalize (if (Prim.rd b1 (b + 1) == 45) = true ∨ (Prim.rd b1 (b + 1) == 43) = true then b + 2
        else b + 1) = s at hs
    rw [← h.prd hs]
    by_cases hd : isDigit (Prim.rd b1 s) = true
    · simp only [hd, if_true]
      exact run_agree h isDigit (by decide) (by decide) fuel s hs
    · simp [hd, hb]
  · have hc' : ¬ ((Prim.rd b1 b == c1) = true ∨ (Prim.rd b1 b == c2) = true) := by simpa using hc
    simp only [hc', if_false]
    exact ⟨trivial, hb⟩

theorem dHexCond_agree (h : AgreeL P b1 b2) {i1 : Nat} (hi : i1 ≤ P) :
    (dHexCond b1 i1 ↔ dHexCond b2 i1) ∧ (dHexCond b1 i1 → i1 + 2 ≤ P) := by
  unfold dHexCond
  rw [← h.prd hi]
  by_cases h48 : Prim.rd b1 i1 = 48
  · have hi1 := h.rd_next_of_eq hi h48 (by decide)
    rw [← h.prd hi1]
    by_cases hx : Prim.rd b1 (i1 + 1) = 120 ∨ Prim.rd b1 (i1 + 1) = 88
    · have hi2 : i1 + 2 ≤ P := by
        rcases hx with hx | hx
        · exact h.rd_next_of_eq hi1 hx (by decide)
        · exact h.rd_next_of_eq hi1 hx (by decide)
      rw [← h.prd hi2]
      by_cases h46 : Prim.rd b1 (i1 + 2) = 46
      · have hi3 : i1 + 3 ≤ P := h.rd_next_of_eq hi2 h46 (by decide)
        rw [← h.prd hi3]
        exact ⟨Iff.rfl, fun _ => hi2⟩
      · simp [h46, hi2]
    · simp [hx]
  · simp [h48]

theorem dBody_hex_agree (h : AgreeL P b1 b2) (off : Nat) (ho : off ≤ P) (fuel : Nat) {i1 : Nat}
    (hi2 : i1 + 2 ≤ P) :
    (dExp b1 112 80 fuel (dFrac b1 Prim.isHexDigit fuel (Prim.strtodLen.run b1 Prim.isHexDigit fuel (i1 + 2))) - off =
      dExp b2 112 80 fuel (dFrac b2 Prim.isHexDigit fuel (Prim.strtodLen.run b2 Prim.isHexDigit fuel (i1 + 2))) - off) ∧
    off + (dExp b1 112 80 fuel (dFrac b1 Prim.isHexDigit fuel
      (Prim.strtodLen.run b1 Prim.isHexDigit fuel (i1 + 2))) - off) ≤ P := by
  have ha := run_agree h Prim.isHexDigit (by decide) (by decide) fuel (i1 + 2) hi2
  rw [← ha.1]
  have hb := dFrac_agree h Prim.isHexDigit (by decide) (by decide) fuel ha.2
  rw [← hb.1]
  have he := dExp_agree h 112 80 (by decide) (by decide) fuel hb.2
  rw [← he.1]
  exact ⟨rfl, by omega⟩

theorem dBody_dec_agree (h : AgreeL P b1 b2) (off : Nat) (ho : off ≤ P) (fuel : Nat) {i1 : Nat}
    (hi : i1 ≤ P) :
    ((let a := Prim.strtodLen.run b1 isDigit fuel i1
      let b := dFrac b1 isDigit fuel a
      let nd := (a - i1) + (if Prim.rd b1 a == 46 then b - (a + 1) else 0)
      if nd == 0 then 0 else dExp b1 101 69 fuel b - off) =
     (let a := Prim.strtodLen.run b2 isDigit fuel i1
      let b := dFrac b2 isDigit fuel a
      let nd := (a - i1) + (if Prim.rd b2 a == 46 then b - (a + 1) else 0)
      if nd == 0 then 0 else dExp b2 101 69 fuel b - off)) ∧
    off + (let a := Prim.strtodLen.run b1 isDigit fuel i1
      let b := dFrac b1 isDigit fuel a
      let nd := (a - i1) + (if Prim.rd b1 a == 46 then b - (a + 1) else 0)
      if nd == 0 then 0 else dExp b1 101 69 fuel b - off) ≤ P := by
  have ha := run_agree h isDigit (by decide) (by decide) fuel i1 hi
  simp only
  rw [← ha.1]
  have hb := dFrac_agree h isDigit (by decide) (by decide) fuel ha.2
  rw [← hb.1, ← h.prd ha.2]
  have he := dExp_agree h 101 69 (by decide) (by decide) fuel hb.2
  rw [← he.1]
  refine ⟨rfl, ?_⟩
  have := he.2
  repeat' split
  all_goals omega

theorem dBody_agree (h : AgreeL P b1 b2) (off : Nat) (ho : off ≤ P) {i1 : Nat} (hi : i1 ≤ P) :
    dBody b1 off i1 = dBody b2 off i1 ∧ off + dBody b1 off i1 ≤ P := by
  unfold dBody
  have w3 := dWord_agree h [105, 110, 102] (by decide) hi
  have w8 := dWord_agree h [105, 110, 102, 105, 110, 105, 116, 121] (by decide) hi
  have wn := dWord_agree h [110, 97, 110] (by decide) hi
  rw [← w3.1, ← w8.1, ← wn.1, ← h.len]
  by_cases c3 : dWord b1 [105, 110, 102] i1 = true
  · have l3 := w3.2 c3
    simp only [List.length_cons, List.length_nil] at l3
    simp only [c3, if_true]
    by_cases c8 : dWord b1 [105, 110, 102, 105, 110, 105, 116, 121] i1 = true
    · have l8 := w8.2 c8
      simp only [List.length_cons, List.length_nil] at l8
      simp only [c8, if_true]
      exact ⟨by first | rfl | trivial, by omega⟩
    · simp only [c8, Bool.false_eq_true, if_false]
      exact ⟨by first | rfl | trivial, by omega⟩
  · simp only [c3, Bool.false_eq_true, if_false]
    by_cases cn : dWord b1 [110, 97, 110] i1 = true
    · have ln := wn.2 cn
      simp only [List.length_cons, List.length_nil] at ln
      simp only [cn, if_true]
      exact ⟨by first | rfl | trivial, by omega⟩
    · simp only [cn, Bool.false_eq_true, if_false]
      have hx := dHexCond_agree h hi
      by_cases cx : dHexCond b1 i1
      · have cx2 := hx.1.1 cx
        simp only [cx, cx2, if_true]
        exact dBody_hex_agree h off ho _ (hx.2 cx)
      · have cx2 : ¬ dHexCond b2 i1 := fun c => cx (hx.1.2 c)
        simp only [cx, cx2, if_false]
        exact dBody_dec_agree h off ho _ hi

theorem strtodLen_agree (h : AgreeL P b1 b2) (off : Nat) (ho : off ≤ P)
    (hns : Prim.isSpace (Prim.rd b1 off) = false) :
    Prim.strtodLen b1 off = Prim.strtodLen b2 off ∧ off + Prim.strtodLen b1 off ≤ P := by
  rw [strtodLen_eq, strtodLen_eq]
  have hns2 : Prim.isSpace (Prim.rd b2 off) = false := by rw [← h.prd ho]; exact hns
  rw [skipSpaces_of_not_space b1 _ off hns, skipSpaces_of_not_space b2 _ off hns2]
  have h1 := dSign_agree h ho
  rw [← h1.1]
  exact dBody_agree h off ho h1.2

end

end ScpiVerif.Lemmas.ParseLocalAux
