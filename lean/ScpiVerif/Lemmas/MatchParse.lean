/-
What a pattern text accepted by `parsePattern` looks like (C03 support lemmas).
-/
import ScpiVerif.Lemmas.MatchDefs
namespace ScpiVerif.Lemmas.Match
open ScpiVerif ScpiVerif.Match ScpiVerif.Spec.Pattern
open ScpiVerif.Lexer (Bytes isDigit isLower isUpper isAlpha)

theorem drop_takeWhile_length {α : Type} (p : α → Bool) (s : List α) :
    s.drop (s.takeWhile p).length = s.dropWhile p := by
  induction s with
  | nil => rfl
  | cons a t ih =>
    simp only [List.takeWhile_cons, List.dropWhile_cons]
    split <;> simp [ih]

theorem takeWhile_append_drop {α : Type} (p : α → Bool) (s : List α) :
    s.takeWhile p ++ s.drop (s.takeWhile p).length = s := by
  rw [drop_takeWhile_length, List.takeWhile_append_dropWhile]

theorem all_takeWhile_self {α : Type} (p : α → Bool) (s : List α) :
    (s.takeWhile p).all p = true := by
  induction s with
  | nil => rfl
  | cons a t ih =>
    simp only [List.takeWhile_cons]
    split
    · simp_all
    · rfl

theorem eq_cons_of_head? {α : Type} (l : List α) (a : α) (h : l.head? = some a) :
    l = a :: l.drop 1 := by
  cases l with
  | nil => simp at h
  | cons b t => simp at h; simp [h]

theorem parseKey_spec (s : Bytes) (opt : Bool) (k : Kw) (rest : Bytes)
    (h : parseKey s opt = some (k, rest)) :
    s = keyText k ++ rest ∧ KwOK k ∧ k.optional = opt := by
  unfold parseKey at h
  simp only at h
  split at h
  · contradiction
  · rename_i hne
    have hsplit := takeWhile_append_drop isKwChar s
    have hall := all_takeWhile_self isKwChar s
    generalize s.takeWhile isKwChar = name at *
    generalize hr : s.drop name.length = r at *
    have hne1 : name ≠ [] := by
      intro e; apply hne; left; simp [e]
    have halpha : isUpper (name.headD 0) = true := by
      cases hh : isUpper (name.headD 0) with
      | true => rfl
      | false => exact absurd (Or.inr (by rw [hh]; rfl)) hne
    by_cases h35 : r.head? = some 35
    · simp only [h35, beq_self_eq_true, if_true] at h
      injection h with h
      injection h with hk hrest
      subst hk; subst hrest
      refine ⟨?_, ⟨hne1, hall, halpha, rfl⟩, rfl⟩
      simp only [keyText, if_true]
      have := eq_cons_of_head? r 35 h35
      rw [← hsplit]
      conv => lhs; rw [this]
      simp
    · have : (r.head? == some 35) = false := by simpa using h35
      simp only [this, Bool.false_eq_true, if_false] at h
      injection h with h
      injection h with hk hrest
      subst hk; subst hrest
      refine ⟨?_, ⟨hne1, hall, halpha, rfl⟩, rfl⟩
      simp [keyText, hsplit]

theorem parseItems_spec (fuel : Nat) (s : Bytes) (acc kws : List Kw) (rest : Bytes)
    (h : parseItems fuel s acc = some (kws, rest)) :
    ∃ ks, kws = acc.reverse ++ ks ∧ s = renderRest ks ++ rest ∧ ∀ k ∈ ks, KwOK k := by
  induction fuel generalizing s acc with
  | zero =>
    simp only [parseItems] at h
    injection h with h; injection h with h1 h2
    exact ⟨[], by simp [h1], by simp [renderRest, h2], by simp⟩
  | succ n ih =>
    unfold parseItems at h
    split at h
    · rename_i r0
      split at h
      · rename_i k r hk
        obtain ⟨ks, e1, e2, e3⟩ := ih _ _ h
        obtain ⟨p1, p2, p3⟩ := parseKey_spec _ _ _ _ hk
        refine ⟨k :: ks, by simp [e1], ?_, ?_⟩
        · simp [renderRest, item, p3, p1, e2]
        · intro k' hk'
          rcases List.mem_cons.1 hk' with e | e
          · exact e ▸ p2
          · exact e3 _ e
      · contradiction
    · rename_i r0
      split at h
      · rename_i k r hk
        obtain ⟨ks, e1, e2, e3⟩ := ih _ _ h
        obtain ⟨p1, p2, p3⟩ := parseKey_spec _ _ _ _ hk
        refine ⟨k :: ks, by simp [e1], ?_, ?_⟩
        · simp [renderRest, item, p3, p1, e2]
        · intro k' hk'
          rcases List.mem_cons.1 hk' with e | e
          · exact e ▸ p2
          · exact e3 _ e
      · contradiction
    · injection h with h; injection h with h1 h2
      exact ⟨[], by simp [h1], by simp [renderRest, h2], by simp⟩

/-- keyword characters are not separators, '#', '*' or NUL -/
theorem isKwChar_ne (b : UInt8) (h : isKwChar b = true) :
    b ≠ 0 ∧ b ≠ 35 ∧ b ≠ 42 ∧ b ≠ 58 ∧ b ≠ 63 ∧ b ≠ 91 ∧ b ≠ 93 := by
  refine ⟨?_, ?_, ?_, ?_, ?_, ?_, ?_⟩ <;> (intro e; subst e; revert h; decide)

theorem parsePattern_cases (pat : Bytes) (p : Pat) (hp : parsePattern pat = some p) :
    (p.common = true ∧ ∃ name : Bytes, name ≠ [] ∧ name.all isKwChar = true ∧ name.any isLower = false ∧
      p.kws = [⟨42 :: name, 42 :: name, false, false⟩] ∧ pat = 42 :: name ++ qtail p.query) ∨
    (p.common = false ∧ ∃ k ks, p.kws = k :: ks ∧ (∀ k' ∈ p.kws, KwOK k') ∧
      (pat = item k ++ renderRest ks ++ qtail p.query ∨
       (k.optional = false ∧ pat = keyText k ++ renderRest ks ++ qtail p.query))) := by
  unfold parsePattern at hp
  split at hp
  · rename_i rest
    left
    simp only at hp
    have hsplit := takeWhile_append_drop isKwChar rest
    have hall := all_takeWhile_self isKwChar rest
    generalize rest.takeWhile isKwChar = name at *
    generalize rest.drop name.length = tail at *
    split at hp
    · contradiction
    · rename_i hne
      have hne1 : name ≠ [] := by intro e; apply hne; simp [e]
      split at hp
      · contradiction
      · rename_i hlow
        have hlow : name.any isLower = false := by simpa using hlow
        split at hp
        · rename_i ht
          have ht : tail = [] := by simpa using ht
          injection hp with hp; subst hp; subst ht
          exact ⟨rfl, name, hne1, hall, hlow, rfl, by simp [qtail, ← hsplit]⟩
        · split at hp
          · rename_i ht
            have ht : tail = [63] := by simpa using ht
            injection hp with hp; subst hp; subst ht
            exact ⟨rfl, name, hne1, hall, hlow, rfl, by simp [qtail, ← hsplit]⟩
          · contradiction
  · right
    simp only at hp
    split at hp
    · contradiction
    · rename_i k r hfirst
      have hk : KwOK k ∧ (pat = item k ++ r ∨ (k.optional = false ∧ pat = keyText k ++ r)) := by
        split at hfirst
        · split at hfirst
          · rename_i hk
            injection hfirst with e; injection e with e1 e2
            subst e1; subst e2
            obtain ⟨p1, p2, p3⟩ := parseKey_spec _ _ _ _ hk
            exact ⟨p2, Or.inl (by simp [item, p3, p1])⟩
          · contradiction
        · obtain ⟨p1, p2, p3⟩ := parseKey_spec _ _ _ _ hfirst
          exact ⟨p2, Or.inl (by simp [item, p3, p1])⟩
        · obtain ⟨p1, p2, p3⟩ := parseKey_spec _ _ _ _ hfirst
          exact ⟨p2, Or.inr ⟨p3, p1⟩⟩
      obtain ⟨hk1, hk2⟩ := hk
      have key : ∀ (kws : List Kw) (rest : Bytes) (q : Bool),
          parseItems (r.length + 1) r [k] = some (kws, rest) → rest = qtail q →
          p = ⟨false, q, kws⟩ →
          p.common = false ∧ ∃ k ks, p.kws = k :: ks ∧ (∀ k' ∈ p.kws, KwOK k') ∧
            (pat = item k ++ renderRest ks ++ qtail p.query ∨
             (k.optional = false ∧ pat = keyText k ++ renderRest ks ++ qtail p.query)) := by
        intro kws rest q hi hrest hpe
        obtain ⟨ks, e1, e2, e3⟩ := parseItems_spec _ _ _ _ _ hi
        subst hpe; subst hrest
        refine ⟨rfl, k, ks, by simp [e1], ?_, ?_⟩
        · intro k' hk'
          simp only [e1, List.reverse_cons, List.reverse_nil, List.nil_append, List.cons_append,
            List.mem_cons] at hk'
          rcases hk' with e | e
          · exact e ▸ hk1
          · exact e3 _ e
        · simp only [List.append_assoc]
          rw [← e2]
          exact hk2
      split at hp
      · rename_i kws hi
        injection hp with hp
        exact key kws [] false hi rfl hp.symm
      · rename_i kws hi
        injection hp with hp
        exact key kws [63] true hi rfl hp.symm
      · contradiction

theorem parsePattern_render (pat : Bytes) (p : Pat) (hp : parsePattern pat = some p)
    (hc : p.common = false) :
    ∃ k ks, p.kws = k :: ks ∧ (∀ k' ∈ p.kws, KwOK k') ∧
      (pat = item k ++ renderRest ks ++ qtail p.query ∨
       (k.optional = false ∧ pat = keyText k ++ renderRest ks ++ qtail p.query)) := by
  rcases parsePattern_cases pat p hp with ⟨h, _⟩ | ⟨_, h⟩
  · rw [hc] at h; contradiction
  · exact h

/-- a common pattern is '*' NAME '?'? -/
theorem parsePattern_common (pat : Bytes) (p : Pat) (hp : parsePattern pat = some p)
    (hc : p.common = true) :
    ∃ name : Bytes, name ≠ [] ∧ name.all isKwChar = true ∧ name.any isLower = false ∧
      p.kws = [⟨42 :: name, 42 :: name, false, false⟩] ∧ pat = 42 :: name ++ qtail p.query := by
  rcases parsePattern_cases pat p hp with ⟨_, h⟩ | ⟨h, _⟩
  · exact h
  · rw [hc] at h; contradiction


end ScpiVerif.Lemmas.Match
