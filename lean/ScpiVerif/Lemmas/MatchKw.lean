/-
`matchPattern` on (keyword text, mnemonic) computes `kwMatch` (C03 proof, text level).
-/
import ScpiVerif.Lemmas.MatchText
import ScpiVerif.Lemmas.MatchStrtol
import ScpiVerif.Lemmas.MatchParse

namespace ScpiVerif.Lemmas.Match
open ScpiVerif ScpiVerif.Match ScpiVerif.Spec.Pattern
open ScpiVerif.Lexer (Bytes isDigit isLower isUpper isAlpha)

/-- one form of `kwMatch` -/
def tryForm (numeric : Bool) (m form : Bytes) : Option (Option Nat) :=
  if ciEq m form then some none
  else if numeric ∧ m.length > form.length ∧ ciEq (m.take form.length) form ∧ (m.drop form.length).all isDigit
  then some (some (natOfDigits (m.drop form.length)))
  else none

theorem kwMatch_eq (k : Kw) (m : Bytes) :
    kwMatch k m = match tryForm k.numeric m k.long with
      | some r => some r
      | none => tryForm k.numeric m k.short := rfl

/-- how the model reports a `kwMatch` result -/
def mpRes (r : Option (Option Nat)) (num : Bool) : Bool × Option Int :=
  match r with
  | none => (false, none)
  | some none => (true, none)
  | some (some v) => (true, if num then some (v : Int) else none)

/-- a statement about all bytes checked on the 256 values -/
theorem forall_byte (P : UInt8 → Prop) (h : ∀ n : Fin 256, P (UInt8.ofNat n.val)) (b : UInt8) : P b := by
  have := h ⟨b.toNat, UInt8.toNat_lt b⟩
  simpa using this

theorem kwc_ne (b : UInt8) (h : (isKwChar b || b == 42) = true) :
    b ≠ 0 ∧ lower b ≠ 0 ∧ b ≠ 35 ∧ lower b ≠ 63 ∧ lower b ≠ 58 ∧ [63, 58, 91, 93].contains b = false := by
  revert h
  apply forall_byte (fun b => (isKwChar b || b == 42) = true →
    b ≠ 0 ∧ lower b ≠ 0 ∧ b ≠ 35 ∧ lower b ≠ 63 ∧ lower b ≠ 58 ∧ [63, 58, 91, 93].contains b = false)
  set_option maxRecDepth 100000 in decide

theorem ciEq_comm (x y : Bytes) : ciEq x y = ciEq y x := by
  simp only [ciEq]; exact BEq.comm

theorem ciEq_length (x y : Bytes) (h : ciEq x y = true) : x.length = y.length := by
  simp only [ciEq, beq_iff_eq] at h
  have := congrArg List.length h; simpa using this

theorem range_all_rd (t : Bytes) (o : Nat) (y r : Bytes) (h : t.drop o = y ++ r) (p : UInt8 → Bool) :
    (List.range y.length).all (fun i => p (rd t (o + i))) = y.all p := by
  rw [Bool.eq_iff_iff]
  simp only [List.all_eq_true, List.mem_range]
  constructor
  · intro hh c hc
    obtain ⟨i, hi, rfl⟩ := List.mem_iff_getElem.mp hc
    have := hh i hi; rwa [rd_in t o y r h i hi] at this
  · intro hh i hi
    rw [rd_in t o y r h i hi]; exact hh _ (List.getElem_mem hi)

theorem takeWhile_length_eq_iff (p : UInt8 → Bool) (l : Bytes) :
    (l.takeWhile p).length = l.length ↔ l.all p = true := by
  induction l with
  | nil => simp
  | cons a l ih =>
    by_cases ha : p a = true
    · simp [List.takeWhile_cons, ha, ih]
    · simp [List.takeWhile_cons, ha]

theorem takeWhile_all (p : UInt8 → Bool) (l : Bytes) : (l.takeWhile p).all p = true := by
  induction l with
  | nil => simp
  | cons a l ih =>
    by_cases ha : p a = true
    · simp_all [List.takeWhile_cons]
    · simp [List.takeWhile_cons, ha]

theorem takeWhile_eq_self (p : UInt8 → Bool) (l : Bytes) (h : l.all p = true) : l.takeWhile p = l := by
  induction l with
  | nil => simp
  | cons a l ih => simp_all [List.takeWhile_cons]

theorem dropWhile_head (p : UInt8 → Bool) (l : Bytes) (h : l.dropWhile p ≠ []) :
    p ((l.dropWhile p).headD 0) = false := by
  induction l with
  | nil => simp at h
  | cons a l ih =>
    by_cases ha : p a = true
    · simp only [List.dropWhile_cons, ha, if_true] at h ⊢; exact ih h
    · simp only [Bool.not_eq_true] at ha
      simp [List.dropWhile_cons, ha]

theorem dropWhile_head_mem (p : UInt8 → Bool) (l : Bytes) (h : l.dropWhile p ≠ []) :
    (l.dropWhile p).headD 0 ∈ l := by
  have hsub : ∀ c ∈ l.dropWhile p, c ∈ l := fun c hc => (List.dropWhile_sublist p).subset hc
  cases hd : l.dropWhile p with
  | nil => exact absurd hd h
  | cons c t => exact hsub c (by simp [hd])

/-- compareStr is the case-insensitive comparison of the two pieces -/
theorem compareStr_spec (a : Bytes) (ao : Nat) (form ra : Bytes) (b : Bytes) (bo : Nat) (m rb : Bytes)
    (ha : a.drop ao = form ++ ra) (hb : b.drop bo = m ++ rb) (hnz : ∀ c ∈ form, lower c ≠ 0) :
    compareStr a ao form.length b bo m.length = ciEq m form := by
  unfold compareStr
  by_cases hl : form.length = m.length
  · rw [caseEq_drop a b m.length ao bo form ra m rb ha hb hl rfl hnz, ciEq_comm]; simp [hl]
  · have : ciEq m form = false := by
      rw [Bool.eq_false_iff]; intro h; exact hl (ciEq_length _ _ h).symm
    simp [hl, this]

/-- compareStrAndNum against one form of a numeric keyword -/
theorem compareStrAndNum_spec (a : Bytes) (ao : Nat) (form ra : Bytes) (b : Bytes) (bo : Nat)
    (m rb : Bytes) (num : Bool)
    (ha : a.drop ao = form ++ ra) (hb : b.drop bo = m ++ rb) (hnz : ∀ c ∈ form, lower c ≠ 0)
    (hm : ∀ c ∈ m, isDigit c = false → nonNumStart c = true)
    (hrb : nonNumStart (rb.headD 0) = true) :
    (compareStrAndNum a ao form.length b bo m.length num).1 = (tryForm true m form).isSome ∧
    ((num = true → ∀ v, tryForm true m form = some (some v) → v < 2^31) →
      compareStrAndNum a ao form.length b bo m.length num = mpRes (tryForm true m form) num) := by
  by_cases hlt : m.length < form.length
  · have h1 : ciEq m form = false := by
      rw [Bool.eq_false_iff]; intro h; have := ciEq_length _ _ h; omega
    have h2 : ¬ (m.length > form.length) := by omega
    simp [compareStrAndNum, hlt, tryForm, h1, h2, mpRes]
  · have hge : form.length ≤ m.length := by omega
    have hb' : b.drop bo = m.take form.length ++ (m.drop form.length ++ rb) := by
      rw [hb, ← List.append_assoc, List.take_append_drop]
    have hce := caseEq_drop a b form.length ao bo form ra (m.take form.length) (m.drop form.length ++ rb)
      ha hb' rfl (by simp [hge]) hnz
    rw [ciEq_comm] at hce
    by_cases hpre : ciEq (m.take form.length) form = true
    · rw [hpre] at hce
      by_cases heq : form.length = m.length
      · have hfull : ciEq m form = true := by
          have : m.take form.length = m := by rw [heq]; simp
          rwa [this] at hpre
        have hce' : caseEq a ao b bo m.length = true := heq ▸ hce
        cases num <;> simp [compareStrAndNum, hlt, hce', heq, tryForm, hfull, mpRes]
      · have hgt : m.length > form.length := by omega
        have hfull : ciEq m form = false := by
          rw [Bool.eq_false_iff]; intro h; have := ciEq_length _ _ h; omega
        have htf : tryForm true m form = if (m.drop form.length).all isDigit = true
            then some (some (natOfDigits (m.drop form.length))) else none := by
          simp [tryForm, hfull, hgt, hpre]
        cases num with
        | false =>
          have hr := range_all_rd b (bo + form.length) (m.drop form.length) rb
            (drop_add_of_drop b bo (m.take form.length) _ hb' |> fun h => by
              simpa [hge] using h) isDigit
          have hlen : (m.drop form.length).length = m.length - form.length := by simp
          rw [hlen] at hr
          by_cases hd : (m.drop form.length).all isDigit = true
          · simp [compareStrAndNum, hlt, hce, heq, htf, hd, mpRes, hr]
          · simp [compareStrAndNum, hlt, hce, heq, htf, hd, mpRes, hr]
        | true =>
          -- the digits strtol consumes
          let tl := m.drop form.length
          have hdrop : b.drop (bo + form.length) = tl ++ rb := by
            have := drop_add_of_drop b bo (m.take form.length) _ hb'
            simpa [hge] using this
          have hsplit : b.drop (bo + form.length) =
              tl.takeWhile isDigit ++ (tl.dropWhile isDigit ++ rb) := by
            rw [hdrop, ← List.append_assoc, List.takeWhile_append_dropWhile]
          have hrest : nonNumStart ((tl.dropWhile isDigit ++ rb).headD 0) = true := by
            by_cases hdw : tl.dropWhile isDigit = []
            · rw [hdw]; simpa using hrb
            · have hh : (tl.dropWhile isDigit ++ rb).headD 0 = (tl.dropWhile isDigit).headD 0 := by
                cases hx : tl.dropWhile isDigit with
                | nil => exact absurd hx hdw
                | cons c t => simp
              rw [hh]
              apply hm _ _ (dropWhile_head isDigit tl hdw)
              exact (List.drop_sublist _ _).subset (dropWhile_head_mem isDigit tl hdw)
          have hst := strtol10_spec b (bo + form.length) (tl.takeWhile isDigit) _ hsplit
            (takeWhile_all isDigit tl) hrest
          have htl : tl.length = m.length - form.length := by simp [tl]
          by_cases hd : tl.all isDigit = true
          · have htw : tl.takeWhile isDigit = tl := takeWhile_eq_self isDigit tl hd
            rw [htw] at hst
            have hused : form.length + (strtol10 b (bo + form.length)).1 = m.length := by
              rw [hst.1, htl]; omega
            constructor
            · simp [compareStrAndNum, hlt, hce, heq, htf, hd, tl, hused]
            · intro hv
              have hsm := hv rfl (natOfDigits tl) (by rw [htf]; simp [hd, tl])
              have hval := hst.2 hsm
              simp only [compareStrAndNum, hlt, if_false, hce, if_true, heq, beq_iff_eq, htf, hd, tl, mpRes]
              have : strtol10 b (bo + form.length) =
                  ((strtol10 b (bo + form.length)).1, (strtol10 b (bo + form.length)).2) := rfl
              rw [this]; simp only [hused, hval]; simp [tl]
          · have hne : (tl.takeWhile isDigit).length ≠ tl.length := by
              intro h; exact hd ((takeWhile_length_eq_iff isDigit tl).mp h)
            have hle : (tl.takeWhile isDigit).length ≤ tl.length := (List.takeWhile_sublist _).length_le
            have hused : form.length + (strtol10 b (bo + form.length)).1 ≠ m.length := by
              rw [hst.1]; omega
            have : strtol10 b (bo + form.length) =
                  ((strtol10 b (bo + form.length)).1, (strtol10 b (bo + form.length)).2) := rfl
            constructor
            · simp only [compareStrAndNum, hlt, if_false, hce, if_true, heq, beq_iff_eq, htf]
              rw [this]; simp [hused, hd, tl]
            · intro _
              simp only [compareStrAndNum, hlt, if_false, hce, if_true, heq, beq_iff_eq, htf]
              rw [this]; simp [hused, hd, tl, mpRes]
    · simp only [Bool.not_eq_true] at hpre
      rw [hpre] at hce
      have hfull : ciEq m form = false := by
        rw [Bool.eq_false_iff]; intro h
        have hl := ciEq_length _ _ h
        have : m.take form.length = m := by rw [← hl]; simp
        rw [this, h] at hpre; exact absurd hpre (by simp)
      simp [compareStrAndNum, hlt, hce, tryForm, hfull, hpre, mpRes]

theorem tryForm_false (m form : Bytes) :
    tryForm false m form = if ciEq m form then some none else none := by simp [tryForm]

theorem KwW.long_all {k : Kw} (hk : KwW k) : ∀ c ∈ k.long,
    c ≠ 0 ∧ lower c ≠ 0 ∧ c ≠ 35 ∧ lower c ≠ 63 ∧ lower c ≠ 58 ∧ [63, 58, 91, 93].contains c = false := by
  intro c hc
  exact kwc_ne c (by have := hk.chars; simp only [List.all_eq_true] at this; exact this c hc)

theorem KwW.long_nz {k : Kw} (hk : KwW k) : ∀ c ∈ k.long, c ≠ 0 ∧ lower c ≠ 0 ∧ c ≠ 35 := by
  intro c hc
  have := hk.long_all c hc
  exact ⟨this.1, this.2.1, this.2.2.1⟩

theorem KwW.short_prefix {k : Kw} (hk : KwW k) :
    k.long = k.short ++ k.long.dropWhile (fun b => !isLower b) := by
  rw [hk.short_eq, List.takeWhile_append_dropWhile]

theorem KwW.short_mem {k : Kw} (hk : KwW k) : ∀ c ∈ k.short, c ∈ k.long := by
  intro c hc; rw [hk.short_eq] at hc
  exact (List.takeWhile_sublist _).subset hc

/-- `matchPattern` on the text of keyword `k` and a mnemonic `m` computes `kwMatch k m` -/
theorem matchPattern_spec (p : Bytes) (po : Nat) (k : Kw) (prest : Bytes) (c : Bytes) (so : Nat)
    (m crest : Bytes) (num : Bool)
    (hk : KwW k) (hp : p.drop po = keyText k ++ prest) (hc : c.drop so = m ++ crest)
    (hm : ∀ b ∈ m, isDigit b = false → nonNumStart b = true)
    (hcr : nonNumStart (crest.headD 0) = true) :
    (matchPattern p po (keyText k).length c so m.length num).1 = (kwMatch k m).isSome ∧
    ((num = true → ∀ v, kwMatch k m = some (some v) → v < 2^31) →
      matchPattern p po (keyText k).length c so m.length num = mpRes (kwMatch k m) num) := by
  have hnz := hk.long_nz
  have hlne : 0 < k.long.length := List.length_pos_iff.mpr hk.ne
  have hshort : shortPos p po k.long.length = k.short.length := by
    have hp' : p.drop po = k.long ++ ((if k.numeric then [35] else []) ++ prest) := by
      rw [hp, keyText, List.append_assoc]
    rw [shortPos_drop p po k.long _ hp' (fun b hb => (hnz b hb).1), hk.short_eq]
  have hps : p.drop po = k.short ++ (k.long.dropWhile (fun b => !isLower b) ++
      ((if k.numeric then [35] else []) ++ prest)) := by
    rw [hp, keyText, List.append_assoc, ← List.append_assoc k.short, ← hk.short_prefix]
  have hpl : p.drop po = k.long ++ ((if k.numeric then [35] else []) ++ prest) := by
    rw [hp, keyText, List.append_assoc]
  have hsnz : ∀ c ∈ k.short, lower c ≠ 0 := fun c hc => (hnz c (hk.short_mem c hc)).2.1
  have hlnz : ∀ c ∈ k.long, lower c ≠ 0 := fun c hc => (hnz c hc).2.1
  cases hnum : k.numeric with
  | true =>
    have hlen : (keyText k).length = k.long.length + 1 := by simp [keyText, hnum]
    have hlast : rd p (po + (k.long.length + 1) - 1) = 35 := by
      have := rd_after p po k.long _ hpl 0
      simp only [hnum, if_true] at this
      have h2 : po + (k.long.length + 1) - 1 = po + k.long.length + 0 := by omega
      rw [h2, this]; simp [rd]
    have h1 := compareStrAndNum_spec p po k.long _ c so m crest num hpl hc hlnz hm hcr
    have h2 := compareStrAndNum_spec p po k.short _ c so m crest num hps hc hsnz hm hcr
    have hkm : kwMatch k m = match tryForm true m k.long with
        | some r => some r
        | none => tryForm true m k.short := by rw [kwMatch_eq, hnum]
    rw [hlen]
    have hunf : matchPattern p po (k.long.length + 1) c so m.length num =
        if (compareStrAndNum p po k.long.length c so m.length num).1 = true
        then compareStrAndNum p po k.long.length c so m.length num
        else compareStrAndNum p po k.short.length c so m.length num := by
      simp only [matchPattern, hlast]
      simp [hshort]
    rw [hunf, hkm]
    cases htl : tryForm true m k.long with
    | some r =>
      rw [htl] at h1
      simp only [Option.isSome_some] at h1
      simp only [h1.1, if_true, Option.isSome_some, true_and]
      intro hv; exact h1.2 hv
    | none =>
      rw [htl] at h1
      simp only [Option.isSome_none] at h1
      simp only [h1.1, Bool.false_eq_true, if_false]
      exact h2
  | false =>
    have hlen : (keyText k).length = k.long.length := by simp [keyText, hnum]
    have hlast : ¬ (rd p (po + k.long.length - 1) = 35) := by
      have hi : k.long.length - 1 < k.long.length := by omega
      have := rd_in p po k.long _ hpl (k.long.length - 1) hi
      have h2 : po + k.long.length - 1 = po + (k.long.length - 1) := by omega
      rw [h2, this]; exact (hnz _ (List.getElem_mem hi)).2.2
    have h1 := compareStr_spec p po k.long _ c so m crest hpl hc hlnz
    have h2 := compareStr_spec p po k.short _ c so m crest hps hc hsnz
    rw [hlen]
    have hunf : matchPattern p po k.long.length c so m.length num =
        (ciEq m k.long || ciEq m k.short, none) := by
      simp only [matchPattern, beq_iff_eq, hlast, and_false, if_false, hshort, h1, h2]
    rw [hunf, kwMatch_eq, hnum, tryForm_false, tryForm_false]
    cases ciEq m k.long <;> cases ciEq m k.short <;> simp [mpRes]

end ScpiVerif.Lemmas.Match
