/-
C08 helper lemmas, part 5: `SCPI_Parse` of a message `m ++ [CR, LF]` against `SCPI_Parse` of `m ++ [CR]`
(the same stream cut between the CR and the LF of its terminator): the unit loop does exactly the same,
only the message handed in (the `parseMsg` event of the verification hook) differs.
-/
import ScpiVerif.Lemmas.ChunkingUnit
import ScpiVerif.Lemmas.ParseLocal

namespace ScpiVerif.Lemmas.Chunking
open ScpiVerif ScpiVerif.Lexer ScpiVerif.Spec ScpiVerif.Props.C08 ScpiVerif.Parser ScpiVerif.Ctx

/-! ## one iteration of the unit loop as a function of the detected unit -/

def stepCore (c : Ctx) (base : Nat) (prev : Option (Nat × Nat)) (res : Bool) (u : Parser.Unit) :
    Ctx × Option (Nat × Nat) × Bool :=
  let r := u.consumed
  if u.header.type == .invalid then (pushError c (-101) none, prev, false)
  else if u.header.len > 0 ∧ u.nParams < 0 then (pushError c (-103) none, prev, false)
  else if u.header.len > 0 then
    let cur := (base + u.header.ptr, u.header.len.toNat)
    let (buf, cur, okc) := Match.composeCompound c.buf prev cur
    let c := { c with buf := buf, oob := c.oob || !okc }
    let prev := some cur
    match findCommand c cur.1 cur.2 with
    | some cmd =>
      let c := { c with pbase := base + u.data.ptr, ppos := base + u.data.ptr, plen := u.data.len.toNat,
                        cur := some cmd, rawOff := cur.1, rawLen := cur.2 }
      let (c, ok) := processCommand c
      (c, prev, res && ok)
    | none =>
      let txt := (c.buf.drop base).take r
      let r2 := (txt.reverse.dropWhile (fun b => b == 13 || b == 10)).length
      (pushError c (-113) (some (txt.take r2)) r2, prev, false)
  else (c, prev, res)

theorem stepUnit_core (c : Ctx) (base len : Nat) (prev : Option (Nat × Nat)) (res : Bool) :
    Bounds.stepUnit c base len prev res = stepCore c base prev res (detectUnit ((c.buf.drop base).take len)) := rfl

/-- the text of an undefined header does not include the terminator -/
theorem errText_lf (b : Bytes) (base r : Nat) (h : b[base + r]? = some 10) :
    (((b.drop base).take (r + 1)).reverse.dropWhile (fun b => b == 13 || b == 10)).length =
      (((b.drop base).take r).reverse.dropWhile (fun b => b == 13 || b == 10)).length ∧
    ((b.drop base).take (r + 1)).take (((b.drop base).take r).reverse.dropWhile (fun b => b == 13 || b == 10)).length =
      ((b.drop base).take r).take (((b.drop base).take r).reverse.dropWhile (fun b => b == 13 || b == 10)).length := by
  have e : (b.drop base).take (r + 1) = (b.drop base).take r ++ [10] := by
    rw [List.take_add_one, List.getElem?_drop, h]; rfl
  rw [e, List.reverse_append]
  have hl := (List.dropWhile_suffix (l := ((b.drop base).take r).reverse) (fun b => b == 13 || b == 10)).length_le
  rw [List.length_reverse] at hl
  refine ⟨by simp [List.dropWhile_cons], ?_⟩
  rw [List.take_append_of_le_length hl]

/-- the buffer after one iteration: the in-place composition only writes in front of the header -/
theorem stepCore_frame (c : Ctx) (base : Nat) (prev : Option (Nat × Nat)) (res : Bool) (u : Parser.Unit)
    (hprev : ∀ pp pl, prev = some (pp, pl) → pp + pl ≤ base) :
    (stepCore c base prev res u).1.buf.length = c.buf.length ∧
    (stepCore c base prev res u).1.buf.drop (base + u.header.ptr) = c.buf.drop (base + u.header.ptr) := by
  unfold stepCore
  simp only []
  split
  · simp
  · split
    · simp
    · split
      · rename_i hlen
        have hci := Bounds.compose_inv c.buf prev (base + u.header.ptr, u.header.len.toNat) 0
          (by simp only; omega) (Nat.zero_le _)
          (by intro pp pl h; have := hprev pp pl h; simp only; omega)
        generalize Match.composeCompound c.buf prev (base + u.header.ptr, u.header.len.toNat) = cc at hci
        obtain ⟨buf', cur', okc⟩ := cc
        obtain ⟨_, k2, _, _⟩ := hci
        simp only at k2
        simp only []
        split
        · simp only [Bounds.processCommand_buf]
          exact ⟨k2.1, k2.2.2⟩
        · simp only [Bounds.pushError_buf]
          exact ⟨k2.1, k2.2.2⟩
      · exact ⟨rfl, rfl⟩

/-- one iteration depends on the unit only through what `UEq` compares, and through its extent only in the
text of an undefined header, from which trailing terminator bytes are cut -/
theorem stepCore_congr (c : Ctx) (base : Nat) (prev : Option (Nat × Nat)) (res : Bool) (u1 u2 : Parser.Unit)
    (hu : UEq u1 u2) (hprev : ∀ pp pl, prev = some (pp, pl) → pp + pl ≤ base)
    (hin : u2.header.ptr ≤ u2.consumed)
    (hc : u1.consumed = u2.consumed ∨ (u1.consumed = u2.consumed + 1 ∧ c.buf[base + u2.consumed]? = some 10)) :
    stepCore c base prev res u1 = stepCore c base prev res u2 := by
  obtain ⟨ht, hrest⟩ := hu
  by_cases hinv : u2.header.type = .invalid
  · unfold stepCore
    simp only [ht, hinv, beq_self_eq_true, if_true]
  · obtain ⟨hh, hd, hn⟩ := hrest hinv
    rcases hc with hc | ⟨hc, hlf⟩
    · unfold stepCore
      rw [hh, hd, hn, hc]
    · unfold stepCore
      simp only [hh, hd, hn]
      split
      · rfl
      · split
        · rfl
        · split
          · rename_i hlen
            have hci := Bounds.compose_inv c.buf prev (base + u2.header.ptr, u2.header.len.toNat) 0
              (by simp only; omega) (Nat.zero_le _)
              (by intro pp pl h; have := hprev pp pl h; simp only; omega)
            generalize Match.composeCompound c.buf prev (base + u2.header.ptr, u2.header.len.toNat) = cc at hci
            obtain ⟨buf', cur', okc⟩ := cc
            obtain ⟨_, k2, _, _⟩ := hci
            simp only at k2
            simp only []
            split
            · rfl
            · have hb : buf'[base + u2.consumed]? = some 10 := by
                have := congrArg (fun l => l[u2.consumed - u2.header.ptr]?) k2.2.2
                simp only [List.getElem?_drop] at this
                rw [show base + u2.header.ptr + (u2.consumed - u2.header.ptr) = base + u2.consumed by omega] at this
                rw [this]; exact hlf
              obtain ⟨e1, e2⟩ := errText_lf buf' base u2.consumed hb
              rw [hc, e1, e2]
          · rfl

/-! ## the unit loop on `m ++ [CR, LF]` and on `m ++ [CR]` -/

/-- the scan from offset `tot + d` of `s` is the scan from offset `d` of `s.drop tot` -/
theorem scanFrom_drop (s : Bytes) (tot k f' : Nat) : ∀ (f d : Nat), scanFrom f s (tot + d) = some (k, f') →
    scanFrom f (s.drop tot) d = some (k - tot, f') := by
  intro f
  induction f with
  | zero => intro d h; simp [scanFrom] at h
  | succ f ih =>
    intro d h
    rw [scanFrom_succ] at h ⊢
    rw [List.drop_drop, List.length_drop]
    split at h
    · rename_i hnl
      rw [if_pos hnl]
      simp only [Option.some.injEq, Prod.mk.injEq] at h ⊢
      exact ⟨by omega, h.2⟩
    · rename_i hnl
      rw [if_neg hnl]
      split at h
      · cases h
      · rename_i hstop
        rw [if_neg hstop]
        split at h
        · cases h
        · rename_i hlt
          rw [if_neg (by omega)]
          exact ih _ (by rw [← Nat.add_assoc]; exact h)

/-- the window of `len + 1` bytes when the byte behind the window of `len` bytes is a line feed -/
theorem window_succ (b : Bytes) (base len : Nat) (h : b[base + len]? = some 10) :
    (b.drop base).take (len + 1) = (b.drop base).take len ++ [10] := by
  rw [List.take_add_one, List.getElem?_drop, h]; rfl

theorem parseLoop_crlf : ∀ (g : Nat) (fuel1 fuel2 : Nat) (c : Ctx) (base len : Nat) (prev : Option (Nat × Nat)) (res : Bool) (g' : Nat),
    base + len + 1 ≤ c.buf.length → c.buf[base + len]? = some 10 →
    QuotesLineLocal ((c.buf.drop base).take (len + 1)) → ((c.buf.drop base).take len).getLast? = some 13 →
    scanFrom g ((c.buf.drop base).take len) 0 = some (len, g') → c.oob = false →
    (∀ pp pl, prev = some (pp, pl) → pp + pl ≤ base) → len + 1 ≤ fuel2 → len + 2 ≤ fuel1 →
    parseLoop fuel1 c base (len + 1) prev res = parseLoop fuel2 c base len prev res := by
  intro g
  induction g with
  | zero => intro fuel1 fuel2 c base len prev res g' _ _ _ _ h; simp [scanFrom] at h
  | succ g ih =>
    intro fuel1 fuel2 c base len prev res g' hin hlf hq hcr hs hoob hprev hf2 hf1
    cases fuel1 with
    | zero => omega
    | succ fuel1 =>
    cases fuel2 with
    | zero => omega
    | succ fuel2 =>
    have hwl : ((c.buf.drop base).take len).length = len := Bounds.window_length c.buf base len (by omega)
    have hws := window_succ c.buf base len hlf
    have hne : (c.buf.drop base).take len ≠ [] := by intro h0; rw [h0] at hcr; simp at hcr
    have hlen0 : 0 < len := by
      rw [← hwl]; exact List.length_pos_iff.2 hne
    have hJ : NLat ((c.buf.drop base).take len) (len - 1) := by
      right
      rw [List.getLast?_eq_getElem?, hwl] at hcr
      exact hcr
    obtain ⟨a1, a2, a3, _, a5, a6⟩ := Props.C13.unit_spec ((c.buf.drop base).take len)
    rw [scanFrom_succ, List.drop_zero, hwl] at hs
    rw [Bounds.parseLoop_succ, Bounds.parseLoop_succ, stepUnit_core, stepUnit_core, hws]
    rw [hws] at hq
    have hptr : (detectUnit ((c.buf.drop base).take len)).header.ptr ≤ (detectUnit ((c.buf.drop base).take len)).consumed := by
      rw [detect_header_ptr]
      have := uData_ge ((c.buf.drop base).take len)
      have h2 : (uData ((c.buf.drop base).take len)).1 ≤ (specUnit ((c.buf.drop base).take len)).consumed := by
        rw [specUnit_eq]
        split
        · dsimp only; omega
        · split
          · dsimp only; omega
          · split
            · dsimp only; omega
            · dsimp only; omega
      unfold uP1 at this
      rw [a1]; omega
    split at hs
    · rename_i hnl
      simp only [Option.some.injEq, Prod.mk.injEq, Nat.zero_add] at hs
      have hnl' : (detectUnit ((c.buf.drop base).take len)).term = .nl := by simpa using hnl
      have hr := unit_nl_end _ ((term_of_code a2).1.1 hnl') (by rw [← a1, hwl]; exact hs.1) hcr
      obtain ⟨u1, u2⟩ := detect_crlf _ [] hq hr
      have hcg := stepCore_congr c base prev res _ _ u1 hprev hptr (Or.inr ⟨u2, by rw [hs.1]; exact hlf⟩)
      rw [u2, hcg, hs.1, if_neg (by omega), if_neg (by omega)]
    · rename_i hnl
      split at hs
      · cases hs
      · rename_i hstop
        split at hs
        · cases hs
        · rename_i hlt
          simp only [Nat.zero_add] at hs hlt
          have hterm : (specUnit ((c.buf.drop base).take len)).term ≠ .none ∨ (specUnit ((c.buf.drop base).take len)).wellFormed = false := by
            cases hw : (specUnit ((c.buf.drop base).take len)).wellFormed with
            | false => exact Or.inr rfl
            | true =>
              left
              intro hn
              have := wf_none_all _ hw hn
              rw [← a1, hwl] at this
              omega
          have h0 : ((c.buf.drop base).take len).drop (uData ((c.buf.drop base).take len)).1 ≠ [13] ∨ ([10] : Bytes).head? ≠ some 10 := by
            left
            intro hr
            have := (unit_cr_end _ hr).2
            rw [← a1, hwl] at this
            omega
          obtain ⟨u1, u2⟩ := detect_stable _ [10] (len - 1) hJ hq h0 (by rw [← a1]; omega) hterm
          have hcg := stepCore_congr c base prev res _ _ u1 hprev hptr (Or.inl u2)
          rw [u2, hcg, if_pos (by omega), if_pos (by omega)]
          -- the state after this unit
          have hpos := a6 hne
          obtain ⟨f1, f2⟩ := stepCore_frame c base prev res (detectUnit ((c.buf.drop base).take len)) hprev
          obtain ⟨o1, _, _, _, o5⟩ := Bounds.stepUnit_inv 0 (base + len) c base len prev res hoob (Nat.zero_le _) (by omega)
            (by intro pp pl h; exact ⟨Nat.zero_le _, hprev pp pl h⟩)
          rw [stepUnit_core] at o1 o5
          generalize hr : (detectUnit ((c.buf.drop base).take len)).consumed = r at hs hlt hptr hpos o5 ⊢
          have f3 : (stepCore c base prev res (detectUnit ((c.buf.drop base).take len))).1.buf.drop (base + r) = c.buf.drop (base + r) :=
            Bounds.drop_eq_mono (by omega) f2
          generalize stepCore c base prev res (detectUnit ((c.buf.drop base).take len)) = x at f1 f3 o1 o5 ⊢
          obtain ⟨c', prev', res'⟩ := x
          simp only at f1 f3 o1 o5 ⊢
          have hw2 : (c'.buf.drop (base + r)).take (len - r) = ((c.buf.drop base).take len).drop r := by
            rw [f3, List.drop_take, List.drop_drop]
          have hw1 : (c'.buf.drop (base + r)).take (len - r + 1) = ((c.buf.drop base).take len ++ [10]).drop r := by
            rw [← hws, f3, List.drop_take, List.drop_drop]
            congr 1; omega
          rw [show len + 1 - r = len - r + 1 by omega]
          refine ih fuel1 fuel2 c' (base + r) (len - r) prev' res' g' (by rw [f1]; omega) ?_ ?_ ?_ ?_ o1
            (fun pp pl h => (o5 pp pl h).2) (by omega) (by omega)
          · have := congrArg (fun l => l[len - r]?) f3
            simp only [List.getElem?_drop] at this
            rw [show base + r + (len - r) = base + len by omega] at this ⊢
            rw [this]; exact hlf
          · rw [hw1]; exact qll_drop hq r
          · rw [hw2]
            rw [getLast?_drop_of_ne (by
              intro h0
              have := congrArg List.length h0
              rw [List.length_drop, hwl] at this
              simp at this; omega)]
            exact hcr
          · rw [hw2]
            exact scanFrom_drop _ r len g' g 0 hs

/-! ## `SCPI_Parse` on `m ++ [CR, LF]` and on `m ++ [CR]` -/

open ScpiVerif.Lemmas.ParseLocalAux in
/-- the two contexts differ only in buffer bytes behind the message, position and event log; the first
holds `m ++ [CR, LF]`, the second `m ++ [CR]`, and `m ++ [CR]` is what the scan of SCPI_Input cuts out as one
message: both parses append the same events after the `parseMsg` marker and leave the same state -/
theorem parse_crlf (c1 c2 : Ctx) (k g g' : Nat) (hp : Pers c1 c2)
    (hl1 : c1.buf.length = c1.bufLen) (hl2 : c2.buf.length = c2.bufLen) (hk : k + 1 < c1.bufLen) (ho : c1.oob = false)
    (ht : c1.buf.take k = c2.buf.take k) (hlf : c1.buf[k]? = some 10) (hq : QuotesLineLocal (c1.buf.take (k + 1)))
    (hcr : (c1.buf.take k).getLast? = some 13) (hs : scanFrom g (c1.buf.take k) 0 = some (k, g')) :
    Pers (parse c1 0 (k + 1)).1 (parse c2 0 k).1 ∧
    ∃ es, (parse c1 0 (k + 1)).1.events = c1.events ++ Ev.parseMsg (c1.buf.take (k + 1)) :: es ∧
      (parse c2 0 k).1.events = c2.events ++ Ev.parseMsg (c2.buf.take k) :: es := by
  have hr := rest_of_pers hp
  have hbl : c2.bufLen = c1.bufLen :=
    show (rest c2).bufLen = (rest c1).bufLen from congrArg Ctx.bufLen hr
  have hout : c2.out = c1.out := show (rest c2).out = (rest c1).out from congrArg Ctx.out hr
  have hlen : c1.buf.length = c2.buf.length := by rw [hl1, hl2, hbl]
  obtain ⟨hk0, hag⟩ := AgreeL.of_take hlen (by omega) ht hcr (by decide)
  rw [parse_eq, parse_eq]
  simp only [List.drop_zero]
  have hpl := parseLoop_crlf g (k + 1 + 2) (k + 2)
    (emit { c1 with out := outReset c1.out } (.parseMsg (c1.buf.take (k + 1)))) 0 k none true g'
    (by show 0 + k + 1 ≤ c1.buf.length; omega) (by show c1.buf[0 + k]? = some 10; rw [Nat.zero_add]; exact hlf)
    (by show QuotesLineLocal ((c1.buf.drop 0).take (k + 1)); rw [List.drop_zero]; exact hq)
    (by show ((c1.buf.drop 0).take k).getLast? = some 13; rw [List.drop_zero]; exact hcr)
    (by show scanFrom g ((c1.buf.drop 0).take k) 0 = some (k, g'); rw [List.drop_zero]; exact hs)
    ho (by intro pp pl h; cases h) (by omega) (by omega)
  rw [hpl]
  have hw : SimW (k - 1) (emit { c1 with out := outReset c1.out } (.parseMsg (c1.buf.take (k + 1))))
      (emit { c2 with out := outReset c2.out } (.parseMsg (c2.buf.take k))) := by
    refine ⟨?_, hag, by show k - 1 < c1.buf.length; omega⟩
    show ({ rest c2 with out := outReset (rest c2).out } : Ctx) = { rest c1 with out := outReset (rest c1).out }
    rw [hr]
  obtain ⟨a1, a2, a3⟩ := parseLoop_sim (k + 2) _ _ 0 k none true hw (by omega) (by intro pp pl h; cases h)
  obtain ⟨b1, ⟨es, e1, e2⟩, _⟩ := parseFin_sim a1 a2 a3
  refine ⟨pers_of_rest b1.rst, es, ?_, ?_⟩
  · rw [e1]; simp [emit]
  · rw [e2]; simp [emit]

end ScpiVerif.Lemmas.Chunking
