/-
Helper lemmas for Props/C01.lean (no out-of-bounds access, no hang): bounds of every recogniser
result, frame lemmas for the context-level functions (what they never modify), the invariant of
the unit loop of SCPI_Parse, well-formedness of SCPI_Input, the copy loops of the readers.
-/
import ScpiVerif.Model.Ctx
import ScpiVerif.Props.C13
import ScpiVerif.Lemmas.Builtin

namespace ScpiVerif.Lemmas.Bounds
open ScpiVerif ScpiVerif.Lexer ScpiVerif.Parser ScpiVerif.Ctx ScpiVerif.Spec

/-! ## recognisers -/

/-- bounds of a recogniser result obtained at `pos` -/
def LB (buf : Bytes) (pos : Nat) (r : Nat × Token × Int) : Prop :=
  pos ≤ r.1 ∧ r.1 ≤ buf.length ∧ 0 ≤ r.2.2 ∧ r.2.1.ptr + r.2.1.len.toNat ≤ buf.length

/-- the token extent lies between the start position and the new cursor -/
def TE (pos : Nat) (r : Nat × Token × Int) : Prop :=
  pos ≤ r.2.1.ptr ∧ r.2.1.ptr + r.2.1.len.toNat ≤ max pos r.1

theorem agrees_bounds {k : Kind} {buf : Bytes} {pos : Nat} {r : Nat × Token × Int}
    (h : pos ≤ buf.length) (ha : Agrees k buf pos r) :
    pos ≤ r.1 ∧ r.1 ≤ buf.length ∧ 0 ≤ r.2.2 := by
  unfold Agrees at ha
  split at ha
  · obtain ⟨a, b, c, d⟩ := ha; omega
  · obtain ⟨a, b, c, d⟩ := ha
    split at d <;> omega

theorem lb_of {k : Kind} {buf : Bytes} {pos : Nat} {r : Nat × Token × Int}
    (h : pos ≤ buf.length) (ha : Agrees k buf pos r) (ht : TE pos r) : LB buf pos r := by
  obtain ⟨a, b, c⟩ := agrees_bounds h ha
  obtain ⟨d, e⟩ := ht
  exact ⟨a, b, c, by omega⟩

theorem te_whiteSpace (buf : Bytes) (pos : Nat) : TE pos (lexWhiteSpace buf pos) := by
  unfold TE lexWhiteSpace mkTok
  simp only []
  omega

theorem te_programHeader (buf : Bytes) (pos : Nat) : TE pos (lexProgramHeader buf pos) := by
  unfold TE lexProgramHeader mkTok
  simp only []
  repeat' split
  all_goals (try simp only [])
  all_goals omega

theorem te_characterData (buf : Bytes) (pos : Nat) : TE pos (lexCharacterProgramData buf pos) := by
  unfold TE lexCharacterProgramData mkTok
  simp only []
  omega

theorem te_decimal (buf : Bytes) (pos : Nat) : TE pos (lexDecimal buf pos) := by
  unfold TE lexDecimal mkTok
  simp only []
  omega

theorem te_suffix (buf : Bytes) (pos : Nat) : TE pos (lexSuffix buf pos) := by
  unfold TE lexSuffix mkTok
  simp only []
  repeat' split
  all_goals (try simp only [])
  all_goals omega

theorem te_nondecimal (buf : Bytes) (pos : Nat) : TE pos (lexNondecimal buf pos) := by
  unfold TE lexNondecimal mkTok
  simp only []
  repeat' split
  all_goals (try simp only [])
  all_goals omega

theorem te_string (buf : Bytes) (pos : Nat) : TE pos (lexString buf pos) := by
  unfold TE lexString mkTok
  simp only []
  repeat' split
  all_goals (try simp only [])
  all_goals omega

theorem blockDigits_mono (buf : Bytes) (i p acc : Nat) : p ≤ (blockDigits buf i p acc).1 := by
  induction i generalizing p acc with
  | zero => simp [blockDigits]
  | succ i ih =>
    unfold blockDigits
    split
    · split
      · have := ih (p + 1) (acc * 10 + (‹UInt8›.toNat - 48)); omega
      · simp
    · simp

theorem te_block (buf : Bytes) (pos : Nat) : TE pos (lexBlock buf pos) := by
  unfold TE lexBlock mkTok
  simp only []
  split
  · split
    · rename_i d _
      have hm := blockDigits_mono buf (d.toNat - 48) (pos + 1 + 1) 0
      repeat' split
      all_goals (try simp only [])
      all_goals omega
    · simp only []; omega
  · simp only []; omega

theorem te_expression (buf : Bytes) (pos : Nat) : TE pos (lexExpression buf pos) := by
  unfold TE lexExpression mkTok
  simp only []
  repeat' split
  all_goals (try simp only [])
  all_goals omega

theorem te_oneChar (buf : Bytes) (pos : Nat) (ch : UInt8) (ty : TokType) : TE pos (lexOneChar buf pos ch ty) := by
  unfold TE lexOneChar mkTok
  repeat' split
  all_goals (try simp only [])
  all_goals omega

theorem te_newLine (buf : Bytes) (pos : Nat) : TE pos (lexNewLine buf pos) := by
  unfold TE lexNewLine mkTok
  simp only []
  repeat' split
  all_goals (try simp only [])
  all_goals omega


/-! ### every recogniser satisfies `LB` -/

theorem lb_whiteSpace (buf : Bytes) (pos : Nat) (h : pos ≤ buf.length) : LB buf pos (lexWhiteSpace buf pos) :=
  lb_of h (Props.C13.whiteSpace_spec buf pos h) (te_whiteSpace buf pos)
theorem lb_programHeader (buf : Bytes) (pos : Nat) (h : pos ≤ buf.length) : LB buf pos (lexProgramHeader buf pos) :=
  lb_of h (Props.C13.programHeader_spec buf pos h) (te_programHeader buf pos)
theorem lb_characterData (buf : Bytes) (pos : Nat) (h : pos ≤ buf.length) : LB buf pos (lexCharacterProgramData buf pos) :=
  lb_of h (Props.C13.characterData_spec buf pos h) (te_characterData buf pos)
theorem lb_decimal (buf : Bytes) (pos : Nat) (h : pos ≤ buf.length) : LB buf pos (lexDecimal buf pos) :=
  lb_of h (Props.C13.decimal_spec buf pos h) (te_decimal buf pos)
theorem lb_suffix (buf : Bytes) (pos : Nat) (h : pos ≤ buf.length) : LB buf pos (lexSuffix buf pos) :=
  lb_of h (Props.C13.suffix_spec buf pos h) (te_suffix buf pos)
theorem lb_nondecimal (buf : Bytes) (pos : Nat) (h : pos ≤ buf.length) : LB buf pos (lexNondecimal buf pos) :=
  lb_of h (Props.C13.nondecimal_spec buf pos h) (te_nondecimal buf pos)
theorem lb_string (buf : Bytes) (pos : Nat) (h : pos ≤ buf.length) : LB buf pos (lexString buf pos) :=
  lb_of h (Props.C13.string_spec buf pos h) (te_string buf pos)
theorem lb_block (buf : Bytes) (pos : Nat) (h : pos ≤ buf.length) : LB buf pos (lexBlock buf pos) :=
  lb_of h (Props.C13.block_spec buf pos h) (te_block buf pos)
theorem lb_expression (buf : Bytes) (pos : Nat) (h : pos ≤ buf.length) : LB buf pos (lexExpression buf pos) :=
  lb_of h (Props.C13.expression_spec buf pos h) (te_expression buf pos)
theorem lb_comma (buf : Bytes) (pos : Nat) (h : pos ≤ buf.length) : LB buf pos (lexComma buf pos) :=
  lb_of h (Props.C13.comma_spec buf pos h) (te_oneChar buf pos _ _)
theorem lb_semicolon (buf : Bytes) (pos : Nat) (h : pos ≤ buf.length) : LB buf pos (lexSemicolon buf pos) :=
  lb_of h (Props.C13.semicolon_spec buf pos h) (te_oneChar buf pos _ _)
theorem lb_colon (buf : Bytes) (pos : Nat) (h : pos ≤ buf.length) : LB buf pos (lexColon buf pos) :=
  lb_of h (Props.C13.colon_spec buf pos h) (te_oneChar buf pos _ _)
theorem lb_newLine (buf : Bytes) (pos : Nat) (h : pos ≤ buf.length) : LB buf pos (lexNewLine buf pos) :=
  lb_of h (Props.C13.newLine_spec buf pos h) (te_newLine buf pos)

/-! ### the program data element -/

theorem lb_mono {buf : Bytes} {q q' : Nat} {r : Nat × Token × Int} (hq : q ≤ q') (h : LB buf q' r) : LB buf q r :=
  ⟨by have := h.1; omega, h.2.1, h.2.2.1, h.2.2.2⟩

open ScpiVerif.Lemmas.Lexer (pdata_core1 pdata_core2 pdata_core3 pdata_core4 pdata_core5 pdata_core6 pdata_dec pdata_parse_eq)

theorem lb_stage {buf : Bytes} {q : Nat} {r : Nat × Token × Int} {f : Nat → Nat × Token × Int}
    (hr : LB buf q r) (hf : ∀ q', q' ≤ buf.length → LB buf q' (f q')) :
    LB buf q (if r.2.2 != 0 then r else f r.1) := by
  split
  · exact hr
  · exact lb_mono hr.1 (hf _ hr.2.1)

theorem lb_core6 (buf : Bytes) (q : Nat) (h : q ≤ buf.length) : LB buf q (pdata_core6 buf q) := lb_expression buf q h
theorem lb_core5 (buf : Bytes) (q : Nat) (h : q ≤ buf.length) : LB buf q (pdata_core5 buf q) :=
  lb_stage (lb_block buf q h) (lb_core6 buf)
theorem lb_core4 (buf : Bytes) (q : Nat) (h : q ≤ buf.length) : LB buf q (pdata_core4 buf q) :=
  lb_stage (lb_string buf q h) (lb_core5 buf)

theorem ws_ret (buf : Bytes) (pos : Nat) : (lexWhiteSpace buf pos).2.2 = (lexWhiteSpace buf pos).1 - pos := rfl
theorem decimal_tok (buf : Bytes) (pos : Nat) :
    (lexDecimal buf pos).2.1.ptr = pos ∧ (lexDecimal buf pos).2.1.len = (lexDecimal buf pos).1 - pos := ⟨rfl, rfl⟩
theorem suffix_ret (buf : Bytes) (pos : Nat) : (lexSuffix buf pos).2.2 = (lexSuffix buf pos).1 - pos := by
  unfold lexSuffix
  simp only []
  repeat' split
  all_goals (try simp only [])
  all_goals omega

theorem lb_dec (buf : Bytes) (q : Nat) (h : q ≤ buf.length) : LB buf q (pdata_dec buf (lexDecimal buf q)) := by
  have h3 := lb_decimal buf q h
  obtain ⟨t1, t2⟩ := decimal_tok buf q
  have ha := lb_whiteSpace buf _ h3.2.1
  have hb := lb_suffix buf _ ha.2.1
  have ra := ws_ret buf (lexDecimal buf q).1
  have rb := suffix_ret buf (lexWhiteSpace buf (lexDecimal buf q).1).1
  unfold pdata_dec
  simp only []
  unfold LB at *
  split
  · simp only []
    refine ⟨by omega, by omega, by omega, by omega⟩
  · simp only []
    refine ⟨by omega, by omega, by omega, by omega⟩

theorem lb_core3 (buf : Bytes) (q : Nat) (h : q ≤ buf.length) : LB buf q (pdata_core3 buf q) := by
  unfold pdata_core3
  simp only []
  split
  · exact lb_dec buf q h
  · have := lb_decimal buf q h
    exact lb_mono this.1 (lb_core4 buf _ this.2.1)
theorem lb_core2 (buf : Bytes) (q : Nat) (h : q ≤ buf.length) : LB buf q (pdata_core2 buf q) :=
  lb_stage (lb_characterData buf q h) (lb_core3 buf)
theorem lb_core1 (buf : Bytes) (q : Nat) (h : q ≤ buf.length) : LB buf q (pdata_core1 buf q) :=
  lb_stage (lb_nondecimal buf q h) (lb_core2 buf)

theorem lb_programData (buf : Bytes) (pos : Nat) (h : pos ≤ buf.length) : LB buf pos (parseProgramData buf pos) := by
  rw [pdata_parse_eq]
  have h0 := lb_whiteSpace buf pos h
  have h1 := lb_core1 buf _ h0.2.1
  have h2 := lb_whiteSpace buf _ h1.2.1
  unfold LB at *
  simp only []
  refine ⟨by omega, by omega, by omega, by omega⟩

theorem lex_bounds (buf : Bytes) (pos : Nat) (h : pos ≤ buf.length) :
    ∀ r ∈ [lexWhiteSpace buf pos, lexProgramHeader buf pos, lexCharacterProgramData buf pos, lexDecimal buf pos,
           lexSuffix buf pos, lexNondecimal buf pos, lexString buf pos, lexBlock buf pos, lexExpression buf pos,
           lexComma buf pos, lexSemicolon buf pos, lexColon buf pos, lexNewLine buf pos, parseProgramData buf pos],
      pos ≤ r.1 ∧ r.1 ≤ buf.length ∧ 0 ≤ r.2.2 ∧ r.2.1.ptr + r.2.1.len.toNat ≤ buf.length := by
  intro r hr
  simp only [List.mem_cons, List.not_mem_nil, or_false] at hr
  rcases hr with rfl | rfl | rfl | rfl | rfl | rfl | rfl | rfl | rfl | rfl | rfl | rfl | rfl | rfl
  · exact lb_whiteSpace buf pos h
  · exact lb_programHeader buf pos h
  · exact lb_characterData buf pos h
  · exact lb_decimal buf pos h
  · exact lb_suffix buf pos h
  · exact lb_nondecimal buf pos h
  · exact lb_string buf pos h
  · exact lb_block buf pos h
  · exact lb_expression buf pos h
  · exact lb_comma buf pos h
  · exact lb_semicolon buf pos h
  · exact lb_colon buf pos h
  · exact lb_newLine buf pos h
  · exact lb_programData buf pos h


/-! ## the copy loops of the readers -/

theorem copyText_go_bound (tok : Bytes) (q : UInt8) (cap : Nat) :
    ∀ (fuel iFrom : Nat) (acc : Bytes), acc.length + 1 ≤ iFrom → acc.length ≤ cap →
      (copyText.go tok q cap fuel iFrom acc).length ≤ cap := by
  intro fuel
  induction fuel with
  | zero => intro iFrom acc _ h; simpa [copyText.go] using h
  | succ fuel ih =>
    intro iFrom acc h1 h2
    unfold copyText.go
    split
    · split
      · exact h2
      · apply ih
        · simp only [List.length_append, List.length_singleton]; split <;> omega
        · simp only [List.length_append, List.length_singleton]; omega
    · exact h2

theorem copyText_bound (tok : Bytes) (q : UInt8) (cap : Nat) :
    (copyText tok q cap).1.length ≤ cap ∧ ((copyText tok q cap).2 = true ↔ (copyText tok q cap).1.length < cap) := by
  refine ⟨?_, ?_⟩
  · exact copyText_go_bound tok q cap _ 1 [] (by simp) (by simp)
  · simp [copyText]

theorem paramArr_go_bound (w : Nat) (signed : Bool) :
    ∀ (n : Nat) (c : Ctx) (m : Bool) (acc : List Int),
      (paramArrInt.go w signed n c m acc).2.2.length ≤ acc.length + n := by
  intro n
  induction n with
  | zero => intro c m acc; simp [paramArrInt.go]
  | succ n ih =>
    intro c m acc
    unfold paramArrInt.go
    generalize paramInt c w signed m = x
    obtain ⟨c1, ok, v⟩ := x
    simp only []
    split
    · have := ih c1 false (acc ++ [v])
      simp only [List.length_append, List.length_singleton] at this
      omega
    · simp

theorem paramArr_bound (c : Ctx) (w : Nat) (signed : Bool) (cap : Nat) (mand : Bool) :
    (paramArrInt c w signed cap mand).2.2.length ≤ cap := by
  have := paramArr_go_bound w signed cap c mand []
  simpa [paramArrInt] using this

/-! ## overrun -/

theorem overrun_copies_nothing (c : Ctx) (data : Bytes) (_h : WF c) (hd : data ≠ [])
    (hover : data.length + 1 > c.bufLen - c.position) :
    (input c data).position = 0 ∧ (input c data).buf = c.buf.set 0 0 ∧
    (input c data).events = c.events ++ [Ev.error (-363) none] ++
      (if c.eq.fifo.count = c.eq.fifo.size then [Ev.error (-350) none] else []) ++ [Ev.input false] := by
  have hl : (data.length == 0) = false := by
    cases data with
    | nil => exact absurd rfl hd
    | cons a t => simp
  unfold input
  simp only [hl, Bool.false_eq_true, if_false, hover, if_true]
  unfold pushError Fifo.EQ.push Fifo.add Fifo.isFull
  by_cases hf : c.eq.fifo.count = c.eq.fifo.size
  · simp [hf, emit, Fifo.overflowCode]
  · simp [hf, emit]


/-! ## frame: what the context-level functions never modify -/

/-- closes `core x = core c` goals: by computation, or after rewriting with the frame lemmas proved so far -/
macro "core_close" : tactic => `(tactic| first | rfl | (simp <;> rfl))

/-- the buffer object, its declared length, the write position and the out-of-bounds flag -/
def core (c : Ctx) : Bytes × Nat × Nat × Bool := (c.buf, c.bufLen, c.position, c.oob)

@[simp] theorem core_emit (c : Ctx) (e : Ev) : core (emit c e) = core c := rfl

@[simp] theorem core_pushError (c : Ctx) (code : Int) (info : Option Bytes) (n : Nat) :
    core (pushError c code info n) = core c := by
  unfold pushError
  simp only []
  split <;> rfl

@[simp] theorem core_parameter (c : Ctx) (mand : Bool) : core (parameter c mand).1 = core c := by
  unfold parameter
  simp only []
  repeat' split
  all_goals core_close

@[simp] theorem core_paramInt (c : Ctx) (w : Nat) (s m : Bool) : core (paramInt c w s m).1 = core c := by
  unfold paramInt
  simp only []
  repeat' split
  all_goals core_close

@[simp] theorem core_paramFloat (c : Ctx) (d m : Bool) : core (paramFloat c d m).1 = core c := by
  unfold paramFloat
  simp only []
  repeat' split
  all_goals core_close

@[simp] theorem core_paramToChoice (c : Ctx) (t : Token) (o : List (Bytes × Int)) :
    core (paramToChoice c t o).1 = core c := by
  unfold paramToChoice
  simp only []
  repeat' split
  all_goals core_close

@[simp] theorem core_paramBool (c : Ctx) (m : Bool) : core (paramBool c m).1 = core c := by
  unfold paramBool
  simp only []
  repeat' split
  all_goals core_close

@[simp] theorem core_paramChoice (c : Ctx) (m : Bool) (o : List (Bytes × Int)) :
    core (paramChoice c m o).1 = core c := by
  unfold paramChoice
  simp only []
  repeat' split
  all_goals core_close

@[simp] theorem core_paramChars (c : Ctx) (m : Bool) : core (paramChars c m).1 = core c := by
  unfold paramChars
  simp only []
  repeat' split
  all_goals core_close

@[simp] theorem core_paramBlock (c : Ctx) (m : Bool) : core (paramBlock c m).1 = core c := by
  unfold paramBlock
  simp only []
  repeat' split
  all_goals core_close

@[simp] theorem core_paramText (c : Ctx) (m : Bool) (cap : Nat) : core (paramText c m cap).1 = core c := by
  unfold paramText
  simp only []
  repeat' split
  all_goals core_close

theorem core_paramArr_go (w : Nat) (s : Bool) : ∀ (n : Nat) (c : Ctx) (m : Bool) (acc : List Int),
    core (paramArrInt.go w s n c m acc).1 = core c := by
  intro n
  induction n with
  | zero => intro c m acc; rfl
  | succ n ih =>
    intro c m acc
    unfold paramArrInt.go
    simp only []
    split
    · rw [ih]; simp
    · simp

@[simp] theorem core_paramArrInt (c : Ctx) (w : Nat) (s : Bool) (cap : Nat) (m : Bool) :
    core (paramArrInt c w s cap m).1 = core c := core_paramArr_go w s cap c m []

@[simp] theorem core_paramNumber (c : Ctx) (m : Bool) : core (paramNumber c m).1 = core c := by
  unfold paramNumber
  simp only []
  repeat' split
  all_goals core_close

@[simp] theorem core_regFromParam (c : Ctx) (reg : Nat) : core (regFromParam c reg).1 = core c := by
  rw [Lemmas.Builtin.regFromParam_eq]
  have h := core_paramInt c 32 true true
  dsimp only
  split
  · exact h
  · exact h

/-- the library's own handlers never touch the input buffer -/
@[simp] theorem core_runBuiltin (c : Ctx) (b : Builtin) : core (runBuiltin c b).1 = core c := by
  cases hp : Lemmas.Builtin.paramReg b with
  | none => rw [Lemmas.Builtin.runBuiltin_pure c b hp]; rfl
  | some p => obtain ⟨reg, strict⟩ := p; rw [Lemmas.Builtin.runBuiltin_param c b reg strict hp]; simp

theorem core_runOp (h : HState) (op : SOp) : core (runOp h op).c = core h.c := by
  unfold runOp
  split
  · rfl
  · simp only []
    cases op <;> simp only [] <;> (repeat' split) <;> core_close

theorem core_foldl_runOp (s : List SOp) : ∀ h : HState, core (s.foldl runOp h).c = core h.c := by
  induction s with
  | nil => intro h; rfl
  | cons op s ih => intro h; rw [List.foldl_cons, ih, core_runOp]

@[simp] theorem core_runScript (c : Ctx) (s : List SOp) : core (runScript c s).1 = core c := by
  unfold runScript
  exact core_foldl_runOp s _

theorem core_proj {c c' : Ctx} (h : core c' = core c) :
    c'.buf = c.buf ∧ c'.bufLen = c.bufLen ∧ c'.position = c.position ∧ c'.oob = c.oob := by
  simp only [core, Prod.mk.injEq] at h
  exact h

@[simp] theorem pushError_buf (c : Ctx) (code : Int) (info : Option Bytes) (n : Nat) :
    (pushError c code info n).buf = c.buf := (core_proj (core_pushError c code info n)).1
@[simp] theorem pushError_bufLen (c : Ctx) (code : Int) (info : Option Bytes) (n : Nat) :
    (pushError c code info n).bufLen = c.bufLen := (core_proj (core_pushError c code info n)).2.1
@[simp] theorem pushError_position (c : Ctx) (code : Int) (info : Option Bytes) (n : Nat) :
    (pushError c code info n).position = c.position := (core_proj (core_pushError c code info n)).2.2.1
@[simp] theorem pushError_oob (c : Ctx) (code : Int) (info : Option Bytes) (n : Nat) :
    (pushError c code info n).oob = c.oob := (core_proj (core_pushError c code info n)).2.2.2
@[simp] theorem runScript_buf (c : Ctx) (s : List SOp) : (runScript c s).1.buf = c.buf :=
  (core_proj (core_runScript c s)).1
@[simp] theorem runScript_bufLen (c : Ctx) (s : List SOp) : (runScript c s).1.bufLen = c.bufLen :=
  (core_proj (core_runScript c s)).2.1
@[simp] theorem runScript_position (c : Ctx) (s : List SOp) : (runScript c s).1.position = c.position :=
  (core_proj (core_runScript c s)).2.2.1
@[simp] theorem runScript_oob (c : Ctx) (s : List SOp) : (runScript c s).1.oob = c.oob :=
  (core_proj (core_runScript c s)).2.2.2

@[simp] theorem core_processCommand (c : Ctx) : core (processCommand c).1 = core c := by
  unfold processCommand
  simp only []
  repeat' split
  all_goals simp [core, emit]

/-! ## stores into a byte list -/

/-- `r` differs from `b` only inside `[lo, hi)` -/
def Frame (lo hi : Nat) (b r : Bytes) : Prop :=
  r.length = b.length ∧ r.take lo = b.take lo ∧ r.drop hi = b.drop hi

theorem Frame.refl (lo hi : Nat) (b : Bytes) : Frame lo hi b b := ⟨rfl, rfl, rfl⟩

theorem Frame.trans {lo hi : Nat} {a b c : Bytes} (h1 : Frame lo hi a b) (h2 : Frame lo hi b c) : Frame lo hi a c :=
  ⟨h2.1.trans h1.1, h2.2.1.trans h1.2.1, h2.2.2.trans h1.2.2⟩

theorem take_eq_mono {a b : Bytes} {n m : Nat} (hnm : n ≤ m) (h : a.take m = b.take m) : a.take n = b.take n := by
  have h1 : a.take n = (a.take m).take n := by rw [List.take_take, Nat.min_eq_left hnm]
  have h2 : b.take n = (b.take m).take n := by rw [List.take_take, Nat.min_eq_left hnm]
  rw [h1, h2, h]

theorem drop_eq_mono {a b : Bytes} {n m : Nat} (hnm : n ≤ m) (h : a.drop n = b.drop n) : a.drop m = b.drop m := by
  have h1 : a.drop m = (a.drop n).drop (m - n) := by rw [List.drop_drop]; congr 1; omega
  have h2 : b.drop m = (b.drop n).drop (m - n) := by rw [List.drop_drop]; congr 1; omega
  rw [h1, h2, h]

theorem Frame.mono {lo hi lo' hi' : Nat} {b r : Bytes} (h : Frame lo hi b r) (h1 : lo' ≤ lo) (h2 : hi ≤ hi') :
    Frame lo' hi' b r :=
  ⟨h.1, take_eq_mono h1 h.2.1, drop_eq_mono h2 h.2.2⟩

theorem frame_set (lo hi i : Nat) (x : UInt8) (b : Bytes) (h1 : lo ≤ i) (h2 : i < hi) : Frame lo hi b (b.set i x) :=
  ⟨List.length_set, List.take_set_of_le h1, List.drop_set_of_lt h2⟩

theorem frame_foldl_set {α : Type} (g : α → Nat) (v : α → UInt8) (lo hi : Nat) :
    ∀ (l : List α) (b : Bytes), (∀ a ∈ l, lo ≤ g a ∧ g a < hi) →
      Frame lo hi b (l.foldl (fun b a => b.set (g a) (v a)) b) := by
  intro l
  induction l with
  | nil => intro b _; exact Frame.refl _ _ _
  | cons a l ih =>
    intro b h
    rw [List.foldl_cons]
    have ha := h a (List.mem_cons_self)
    exact (frame_set lo hi (g a) (v a) b ha.1 ha.2).trans (ih _ (fun a' h' => h a' (List.mem_cons_of_mem _ h')))

/-- the memmove / memcpy idiom of the models: `src` stored at `start ..` -/
theorem frame_store (src : Bytes) (start : Nat) (b : Bytes) :
    Frame start (start + src.length) b ((src.zipIdx).foldl (fun b (x, k) => b.set (start + k) x) b) := by
  have := frame_foldl_set (fun (p : UInt8 × Nat) => start + p.2) (fun p => p.1) start (start + src.length)
    src.zipIdx b (by
      intro a ha
      have := List.snd_lt_of_mem_zipIdx ha
      show start ≤ start + a.2 ∧ start + a.2 < start + src.length
      omega)
  exact this

theorem frame_poke (b : Bytes) (at_ : Nat) (data : Bytes) : Frame at_ (at_ + data.length) b (poke b at_ data) :=
  frame_store data at_ b

/-! ## in-place composition of compound headers -/

theorem compose_inv (buf : Bytes) (prev : Option (Nat × Nat)) (cur : Nat × Nat) (B : Nat)
    (hcur : 0 < cur.2) (hB : B ≤ cur.1)
    (hprev : ∀ pp pl, prev = some (pp, pl) → B ≤ pp ∧ pp + pl ≤ cur.1) :
    (Match.composeCompound buf prev cur).2.2 = true ∧
    Frame B cur.1 buf (Match.composeCompound buf prev cur).1 ∧
    B ≤ (Match.composeCompound buf prev cur).2.1.1 ∧
    (Match.composeCompound buf prev cur).2.1.1 + (Match.composeCompound buf prev cur).2.1.2 = cur.1 + cur.2 := by
  unfold Match.composeCompound
  have hc0 : (cur.2 == 0) = false := by simp; omega
  simp only [hc0, Bool.false_eq_true, if_false]
  cases prev with
  | none => exact ⟨rfl, Frame.refl _ _ _, hB, rfl⟩
  | some p =>
    obtain ⟨pp, pl⟩ := p
    obtain ⟨hp1, hp2⟩ := hprev pp pl rfl
    simp only []
    repeat' split
    all_goals first | exact ⟨rfl, Frame.refl _ _ _, hB, rfl⟩ | skip
    · -- the flagged case cannot happen: the previous header lies before the current one
      rename_i hlt
      exfalso
      revert hlt
      cases hf : (List.range pl).reverse.find? (fun k => Match.rd buf (pp + k) == 58) with
      | none => simp
      | some k =>
        have hk := List.mem_of_find?_eq_some hf
        simp only [List.mem_reverse, List.mem_range] at hk
        simp only [Option.map_some, Option.getD_some]
        omega
    · rename_i hne hge
      revert hne hge
      cases hf : (List.range pl).reverse.find? (fun k => Match.rd buf (pp + k) == 58) with
      | none => simp
      | some k =>
        have hk := List.mem_of_find?_eq_some hf
        simp only [List.mem_reverse, List.mem_range] at hk
        simp only [Option.map_some, Option.getD_some]
        intro _ hge
        have hfr := frame_store ((List.range (k + 1)).map (fun j => Match.rd buf (pp + j))) (cur.1 - (k + 1)) buf
        simp only [List.length_map, List.length_range] at hfr
        refine ⟨trivial, hfr.mono (by omega) (by omega), by omega, by omega⟩

/-! ## the message unit: the header token lies inside the consumed part -/

section
open ScpiVerif.Lemmas.Lexer

theorem detect_header_inside (s : Bytes) (hinv : (detectUnit s).header.type ≠ .invalid)
    (hpos : 0 < (detectUnit s).header.len) :
    (detectUnit s).header.ptr + (detectUnit s).header.len.toNat ≤ (detectUnit s).consumed := by
  have hw0 := unit_wsLen_le s
  obtain ⟨hl, ht, hh, a1, a2, a3, a4, a5, a6, a7⟩ := unit_header s (wsLen s) hw0
  have hb1 := unit_ws_bound s (wsLen s + hl) a7
  have hm : ∃ data n p, detectUnit s = unit_tail s (lexProgramHeader s (wsLen s)).2.1 (p, data, n) ∧
      wsLen s + hl ≤ p ∧ p ≤ s.length := by
    rw [unit_detect_eq, unit_ws]
    simp only [List.drop_zero, Nat.zero_add]
    generalize lexProgramHeader s (wsLen s) = x1 at a1 a2
    obtain ⟨p1, hdr, hlen⟩ := x1
    simp only at a1 a2
    subst a1 a2
    rw [unit_ws]
    have hge : ((hl : Int) ≥ 0) := by omega
    simp only [hge, if_true]
    by_cases hw : wsLen (s.drop (wsLen s + hl)) > 0
    · have hw' : ((wsLen (s.drop (wsLen s + hl)) : Nat) : Int) > 0 := by omega
      simp only [hw', if_true]
      obtain ⟨c1, c2, c3⟩ := unit_allData s (wsLen s + hl + wsLen (s.drop (wsLen s + hl))) hb1
      exact ⟨_, _, _, rfl, by omega, c3⟩
    · have hw' : ¬ ((wsLen (s.drop (wsLen s + hl)) : Nat) : Int) > 0 := by omega
      simp only [hw', if_false]
      exact ⟨_, _, _, rfl, by omega, hb1⟩
  obtain ⟨data, n, p, e1, e2, e3⟩ := hm
  obtain ⟨t1, t2, t3, t4, t5, t6, t7, t8, t9⟩ := unit_tail_spec s (lexProgramHeader s (wsLen s)).2.1 data n p (wsLen s) hl ht e3
  rw [e1] at hinv hpos ⊢
  rcases t6 with ⟨b1, -⟩ | ⟨b1, -⟩
  · rw [b1] at hpos ⊢
    rw [a4] at hpos ⊢
    rw [a5 (by omega)]
    omega
  · exact absurd b1 hinv

end

/-! ## the unit loop of SCPI_Parse -/

@[simp] theorem processCommand_buf (c : Ctx) : (processCommand c).1.buf = c.buf :=
  (core_proj (core_processCommand c)).1
@[simp] theorem processCommand_bufLen (c : Ctx) : (processCommand c).1.bufLen = c.bufLen :=
  (core_proj (core_processCommand c)).2.1
@[simp] theorem processCommand_position (c : Ctx) : (processCommand c).1.position = c.position :=
  (core_proj (core_processCommand c)).2.2.1
@[simp] theorem processCommand_oob (c : Ctx) : (processCommand c).1.oob = c.oob :=
  (core_proj (core_processCommand c)).2.2.2

/-- the header handling of one iteration of `parseLoop` -/
def stepUnit (c : Ctx) (base len : Nat) (prev : Option (Nat × Nat)) (res : Bool) : Ctx × Option (Nat × Nat) × Bool :=
  let u := Parser.detectUnit ((c.buf.drop base).take len)
  let r := u.consumed
  if u.header.type == .invalid then (pushError c (-101) none, prev, false)
  else if u.header.len > 0 ∧ u.nParams < 0 then (pushError c (-103) none, prev, false)
  else if u.header.len > 0 then
    let cur := (base + u.header.ptr, u.header.len.toNat)
    let (buf, cur, okc) := Match.composeCompound c.buf prev cur
    let c := { c with buf := buf, oob := c.oob || !okc }
    let prev := some cur
    match findCommand c cur.1 cur.2 with
    | some cmd =>
      let c := { c with pbase := base + u.data.ptr, ppos := base + u.data.ptr, plen := u.data.len.toNat,
                        cur := some cmd, rawOff := cur.1, rawLen := cur.2 }
      let (c, ok) := processCommand c
      (c, prev, res && ok)
    | none =>
      let txt := (c.buf.drop base).take r
      let r2 := (txt.reverse.dropWhile (fun b => b == 13 || b == 10)).length
      (pushError c (-113) (some (txt.take r2)) r2, prev, false)
  else (c, prev, res)

theorem parseLoop_succ (fuel : Nat) (c : Ctx) (base len : Nat) (prev : Option (Nat × Nat)) (res : Bool) :
    parseLoop (fuel + 1) c base len prev res =
      if (Parser.detectUnit ((c.buf.drop base).take len)).consumed < len then
        parseLoop fuel (stepUnit c base len prev res).1
          (base + (Parser.detectUnit ((c.buf.drop base).take len)).consumed)
          (len - (Parser.detectUnit ((c.buf.drop base).take len)).consumed)
          (stepUnit c base len prev res).2.1 (stepUnit c base len prev res).2.2
      else ((stepUnit c base len prev res).1, (stepUnit c base len prev res).2.2) := by
  rfl

theorem window_length_le (buf : Bytes) (base len : Nat) : ((buf.drop base).take len).length ≤ len := by
  simp only [List.length_take]; omega

theorem window_length (buf : Bytes) (base len : Nat) (h : base + len ≤ buf.length) :
    ((buf.drop base).take len).length = len := by
  simp only [List.length_take, List.length_drop]; omega

theorem stepUnit_inv (B L : Nat) (c : Ctx) (base len : Nat) (prev : Option (Nat × Nat)) (res : Bool)
    (ho : c.oob = false) (hB : B ≤ base) (hsum : base + len = B + L)
    (hprev : ∀ pp pl, prev = some (pp, pl) → B ≤ pp ∧ pp + pl ≤ base) :
    (stepUnit c base len prev res).1.oob = false ∧
    Frame B (B + L) c.buf (stepUnit c base len prev res).1.buf ∧
    (stepUnit c base len prev res).1.bufLen = c.bufLen ∧
    (stepUnit c base len prev res).1.position = c.position ∧
    (∀ pp pl, (stepUnit c base len prev res).2.1 = some (pp, pl) →
      B ≤ pp ∧ pp + pl ≤ base + (Parser.detectUnit ((c.buf.drop base).take len)).consumed) := by
  have hcons : (Parser.detectUnit ((c.buf.drop base).take len)).consumed ≤ len :=
    Nat.le_trans (Props.C13.unit_spec _).2.2.2.2.1 (window_length_le _ _ _)
  have hprev' : ∀ pp pl, prev = some (pp, pl) →
      B ≤ pp ∧ pp + pl ≤ base + (Parser.detectUnit ((c.buf.drop base).take len)).consumed := by
    intro pp pl h; have := hprev pp pl h; omega
  unfold stepUnit
  simp only []
  split
  · simp only [pushError_oob, pushError_buf, pushError_bufLen, pushError_position]
    exact ⟨ho, Frame.refl _ _ _, trivial, trivial, hprev'⟩
  · split
    · simp only [pushError_oob, pushError_buf, pushError_bufLen, pushError_position]
      exact ⟨ho, Frame.refl _ _ _, trivial, trivial, hprev'⟩
    · split
      · rename_i hinv _ hlen
        have hinv' : (Parser.detectUnit ((c.buf.drop base).take len)).header.type ≠ .invalid := by
          intro h; apply hinv; rw [h]; rfl
        have hin := detect_header_inside _ hinv' hlen
        have hci := compose_inv c.buf prev
          (base + (Parser.detectUnit ((c.buf.drop base).take len)).header.ptr,
           (Parser.detectUnit ((c.buf.drop base).take len)).header.len.toNat) B
          (by simp only; omega) (by simp only; omega)
          (by intro pp pl h; have := hprev pp pl h; simp only; omega)
        generalize Match.composeCompound c.buf prev
          (base + (Parser.detectUnit ((c.buf.drop base).take len)).header.ptr,
           (Parser.detectUnit ((c.buf.drop base).take len)).header.len.toNat) = cc at hci
        obtain ⟨buf', cur', okc⟩ := cc
        obtain ⟨k1, k2, k3, k4⟩ := hci
        simp only at k1 k2 k3 k4
        have hfr : Frame B (B + L) c.buf buf' := k2.mono (Nat.le_refl _) (by omega)
        have hpn : ∀ pp pl, some cur' = some (pp, pl) →
            B ≤ pp ∧ pp + pl ≤ base + (Parser.detectUnit ((c.buf.drop base).take len)).consumed := by
          intro pp pl h
          cases h
          simp only at k3 k4
          omega
        simp only []
        split
        · simp only [processCommand_oob, processCommand_buf, processCommand_bufLen, processCommand_position]
          refine ⟨by simp [ho, k1], hfr, trivial, trivial, hpn⟩
        · simp only [pushError_oob, pushError_buf, pushError_bufLen, pushError_position]
          refine ⟨by simp [ho, k1], hfr, trivial, trivial, hpn⟩
      · exact ⟨ho, Frame.refl _ _ _, rfl, rfl, hprev'⟩

theorem parseLoop_inv (B L : Nat) : ∀ (fuel : Nat) (c : Ctx) (base len : Nat) (prev : Option (Nat × Nat)) (res : Bool),
    c.oob = false → B ≤ base → base + len = B + L → B + L ≤ c.buf.length →
    (∀ pp pl, prev = some (pp, pl) → B ≤ pp ∧ pp + pl ≤ base) → len + 1 ≤ fuel →
    (parseLoop fuel c base len prev res).1.oob = false ∧
    Frame B (B + L) c.buf (parseLoop fuel c base len prev res).1.buf ∧
    (parseLoop fuel c base len prev res).1.bufLen = c.bufLen ∧
    (parseLoop fuel c base len prev res).1.position = c.position := by
  intro fuel
  induction fuel with
  | zero => intro c base len prev res _ _ _ _ _ hf; omega
  | succ fuel ih =>
    intro c base len prev res ho hB hsum hN hprev hf
    obtain ⟨s1, s2, s3, s4, s5⟩ := stepUnit_inv B L c base len prev res ho hB hsum hprev
    rw [parseLoop_succ]
    split
    · rename_i hlt
      have hwl := window_length c.buf base len (by omega)
      have hne : (c.buf.drop base).take len ≠ [] := by
        intro h; rw [h] at hwl; simp at hwl; omega
      have h1 := (Props.C13.unit_spec ((c.buf.drop base).take len)).2.2.2.2.2 hne
      obtain ⟨i1, i2, i3, i4⟩ := ih (stepUnit c base len prev res).1
        (base + (Parser.detectUnit ((c.buf.drop base).take len)).consumed)
        (len - (Parser.detectUnit ((c.buf.drop base).take len)).consumed)
        (stepUnit c base len prev res).2.1 (stepUnit c base len prev res).2.2
        s1 (by omega) (by omega) (by rw [s2.1]; exact hN) s5 (by omega)
      exact ⟨i1, s2.trans i2, i3.trans s3, i4.trans s4⟩
    · exact ⟨s1, s2, s3, s4⟩

theorem parse_frame (c : Ctx) (base len : Nat) (hb : base + len ≤ c.buf.length) (ho : c.oob = false) :
    (parse c base len).1.oob = false ∧ Frame base (base + len) c.buf (parse c base len).1.buf ∧
    (parse c base len).1.bufLen = c.bufLen ∧ (parse c base len).1.position = c.position := by
  unfold parse
  simp only []
  exact parseLoop_inv base len (len + 2) _ base len none true ho (Nat.le_refl _) rfl hb
    (by intro pp pl h; cases h) (by omega)

theorem parse_inside (c : Ctx) (base len : Nat) (hb : base + len ≤ c.buf.length) (ho : c.oob = false) :
    let c' := (parse c base len).1
    c'.oob = false ∧ c'.buf.length = c.buf.length ∧
    c'.buf.take base = c.buf.take base ∧ c'.buf.drop (base + len) = c.buf.drop (base + len) := by
  obtain ⟨h1, h2, _, _⟩ := parse_frame c base len hb ho
  exact ⟨h1, h2.1, h2.2.1, h2.2.2⟩

/-! ## SCPI_Input -/

theorem wf_emit {c : Ctx} (e : Ev) (h : WF c) : WF (emit c e) := h

theorem poke_length (b : Bytes) (at_ : Nat) (data : Bytes) : (poke b at_ data).length = b.length :=
  (frame_poke b at_ data).1

theorem inputLoop_wf : ∀ (fuel : Nat) (c : Ctx) (tot : Nat) (res : Bool),
    WF c → tot ≤ c.position → WF (inputLoop fuel c tot res).1 := by
  intro fuel
  induction fuel with
  | zero => intro c tot res h _; exact h
  | succ fuel ih =>
    intro c tot res h ht
    obtain ⟨w1, w2, w3⟩ := h
    have hcons : (Parser.detectUnit ((c.buf.drop tot).take (c.position - tot))).consumed ≤ c.position - tot :=
      Nat.le_trans (Props.C13.unit_spec _).2.2.2.2.1 (window_length_le _ _ _)
    unfold inputLoop
    simp only []
    generalize Parser.detectUnit ((c.buf.drop tot).take (c.position - tot)) = u at hcons ⊢
    split
    · have hle : 0 + (tot + u.consumed) ≤ c.buf.length := by omega
      obtain ⟨p1, p2, p3, p4⟩ := parse_frame c 0 (tot + u.consumed) hle w3
      generalize parse c 0 (tot + u.consumed) = x at p1 p2 p3 p4 ⊢
      obtain ⟨c1, r⟩ := x
      simp only at p1 p2 p3 p4 ⊢
      apply ih
      · refine ⟨?_, ?_, p1⟩
        · show (poke _ _ _).length = _
          rw [poke_length, p2.1]; exact w1.trans p3.symm
        · show _ - _ < c1.bufLen
          rw [p3, p4]; omega
      · exact Nat.zero_le _
    · split
      · exact ⟨w1, w2, w3⟩
      · split
        · exact ⟨w1, w2, w3⟩
        · exact ih c _ res ⟨w1, w2, w3⟩ (by omega)

theorem input_wf (c : Ctx) (data : Bytes) (h : WF c) : WF (input c data) := by
  obtain ⟨w1, w2, w3⟩ := h
  unfold input
  split
  · simp only []
    apply wf_emit
    have hle : 0 + c.position ≤ ({ c with buf := c.buf.set c.position 0 } : Ctx).buf.length := by
      show 0 + c.position ≤ (c.buf.set c.position 0).length
      rw [List.length_set]; omega
    obtain ⟨p1, p2, p3, p4⟩ := parse_frame { c with buf := c.buf.set c.position 0 } 0 c.position hle w3
    generalize parse { c with buf := c.buf.set c.position 0 } 0 c.position = x at p1 p2 p3 p4 ⊢
    obtain ⟨c1, r⟩ := x
    simp only at p1 p2 p3 p4 ⊢
    have p5 := p2.1
    rw [List.length_set] at p5
    refine ⟨?_, ?_, p1⟩
    · show c1.buf.length = c1.bufLen
      rw [p5, p3]; exact w1
    · show 0 < c1.bufLen
      rw [p3]; omega
  · simp only []
    split
    · apply wf_emit
      refine ⟨?_, ?_, ?_⟩
      · simp only [pushError_buf, pushError_bufLen, List.length_set]; exact w1
      · simp only [pushError_position, pushError_bufLen]; omega
      · simp only [pushError_oob]; exact w3
    · apply wf_emit
      apply inputLoop_wf
      · refine ⟨?_, ?_, w3⟩
        · show ((poke _ _ _).set _ _).length = c.bufLen
          rw [List.length_set, poke_length]; exact w1
        · show c.position + data.length < c.bufLen
          omega
      · exact Nat.zero_le _

end ScpiVerif.Lemmas.Bounds
