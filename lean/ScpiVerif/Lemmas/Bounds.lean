/-
Helper lemmas for Props/C01.lean (no out-of-bounds access, no hang): bounds of every recogniser
result, frame lemmas for the context-level functions (what they never modify), the invariant of
the unit loop of SCPI_Parse, well-formedness of SCPI_Input, the copy loops of the readers.
-/
import ScpiVerif.Model.Ctx
import ScpiVerif.Props.C13

namespace ScpiVerif.Lemmas.Bounds
open ScpiVerif ScpiVerif.Lexer ScpiVerif.Parser ScpiVerif.Ctx ScpiVerif.Spec

/-! ## recognisers -/

/-- bounds of a recogniser result obtained at `pos` -/
def LB (buf : Bytes) (pos : Nat) (r : Nat × Token × Int) : Prop :=
  pos ≤ r.1 ∧ r.1 ≤ buf.length ∧ 0 ≤ r.2.2 ∧ r.2.1.ptr + r.2.1.len.toNat ≤ buf.length

/-- the token extent lies between the start position and the new cursor -/
def TE (pos : Nat) (r : Nat × Token × Int) : Prop :=
  pos ≤ r.2.1.ptr ∧ r.2.1.ptr + r.2.1.len.toNat ≤ max pos r.1

theorem agrees_bounds {k : Kind} {buf : Bytes} {pos : Nat} {r : Nat × Token × Int}
    (h : pos ≤ buf.length) (ha : Agrees k buf pos r) :
    pos ≤ r.1 ∧ r.1 ≤ buf.length ∧ 0 ≤ r.2.2 := by
  unfold Agrees at ha
  split at ha
  · obtain ⟨a, b, c, d⟩ := ha; omega
  · obtain ⟨a, b, c, d⟩ := ha
    split at d <;> omega

theorem lb_of {k : Kind} {buf : Bytes} {pos : Nat} {r : Nat × Token × Int}
    (h : pos ≤ buf.length) (ha : Agrees k buf pos r) (ht : TE pos r) : LB buf pos r := by
  obtain ⟨a, b, c⟩ := agrees_bounds h ha
  obtain ⟨d, e⟩ := ht
  exact ⟨a, b, c, by omega⟩

theorem te_whiteSpace (buf : Bytes) (pos : Nat) : TE pos (lexWhiteSpace buf pos) := by
  unfold TE lexWhiteSpace mkTok
  simp only []
  omega

theorem te_programHeader (buf : Bytes) (pos : Nat) : TE pos (lexProgramHeader buf pos) := by
  unfold TE lexProgramHeader mkTok
  simp only []
  repeat' split
  all_goals (try simp only [])
  all_goals omega

theorem te_characterData (buf : Bytes) (pos : Nat) : TE pos (lexCharacterProgramData buf pos) := by
  unfold TE lexCharacterProgramData mkTok
  simp only []
  omega

theorem te_decimal (buf : Bytes) (pos : Nat) : TE pos (lexDecimal buf pos) := by
  unfold TE lexDecimal mkTok
  simp only []
  omega

theorem te_suffix (buf : Bytes) (pos : Nat) : TE pos (lexSuffix buf pos) := by
  unfold TE lexSuffix mkTok
  simp only []
  repeat' split
  all_goals (try simp only [])
  all_goals omega

theorem te_nondecimal (buf : Bytes) (pos : Nat) : TE pos (lexNondecimal buf pos) := by
  unfold TE lexNondecimal mkTok
  simp only []
  repeat' split
  all_goals (try simp only [])
  all_goals omega

theorem te_string (buf : Bytes) (pos : Nat) : TE pos (lexString buf pos) := by
  unfold TE lexString mkTok
  simp only []
  repeat' split
  all_goals (try simp only [])
  all_goals omega

theorem blockDigits_mono (buf : Bytes) (i p acc : Nat) : p ≤ (blockDigits buf i p acc).1 := by
  induction i generalizing p acc with
  | zero => simp [blockDigits]
  | succ i ih =>
    unfold blockDigits
    split
    · split
      · have := ih (p + 1) (acc * 10 + (‹UInt8›.toNat - 48)); omega
      · simp
    · simp

theorem te_block (buf : Bytes) (pos : Nat) : TE pos (lexBlock buf pos) := by
  unfold TE lexBlock mkTok
  simp only []
  split
  · split
    · rename_i d _
      have hm := blockDigits_mono buf (d.toNat - 48) (pos + 1 + 1) 0
      repeat' split
      all_goals (try simp only [])
      all_goals omega
    · simp only []; omega
  · simp only []; omega

theorem te_expression (buf : Bytes) (pos : Nat) : TE pos (lexExpression buf pos) := by
  unfold TE lexExpression mkTok
  simp only []
  repeat' split
  all_goals (try simp only [])
  all_goals omega

theorem te_oneChar (buf : Bytes) (pos : Nat) (ch : UInt8) (ty : TokType) : TE pos (lexOneChar buf pos ch ty) := by
  unfold TE lexOneChar mkTok
  repeat' split
  all_goals (try simp only [])
  all_goals omega

theorem te_newLine (buf : Bytes) (pos : Nat) : TE pos (lexNewLine buf pos) := by
  unfold TE lexNewLine mkTok
  simp only []
  repeat' split
  all_goals (try simp only [])
  all_goals omega


/-! ### every recogniser satisfies `LB` -/

theorem lb_whiteSpace (buf : Bytes) (pos : Nat) (h : pos ≤ buf.length) : LB buf pos (lexWhiteSpace buf pos) :=
  lb_of h (Props.C13.whiteSpace_spec buf pos h) (te_whiteSpace buf pos)
theorem lb_programHeader (buf : Bytes) (pos : Nat) (h : pos ≤ buf.length) : LB buf pos (lexProgramHeader buf pos) :=
  lb_of h (Props.C13.programHeader_spec buf pos h) (te_programHeader buf pos)
theorem lb_characterData (buf : Bytes) (pos : Nat) (h : pos ≤ buf.length) : LB buf pos (lexCharacterProgramData buf pos) :=
  lb_of h (Props.C13.characterData_spec buf pos h) (te_characterData buf pos)
theorem lb_decimal (buf : Bytes) (pos : Nat) (h : pos ≤ buf.length) : LB buf pos (lexDecimal buf pos) :=
  lb_of h (Props.C13.decimal_spec buf pos h) (te_decimal buf pos)
theorem lb_suffix (buf : Bytes) (pos : Nat) (h : pos ≤ buf.length) : LB buf pos (lexSuffix buf pos) :=
  lb_of h (Props.C13.suffix_spec buf pos h) (te_suffix buf pos)
theorem lb_nondecimal (buf : Bytes) (pos : Nat) (h : pos ≤ buf.length) : LB buf pos (lexNondecimal buf pos) :=
  lb_of h (Props.C13.nondecimal_spec buf pos h) (te_nondecimal buf pos)
theorem lb_string (buf : Bytes) (pos : Nat) (h : pos ≤ buf.length) : LB buf pos (lexString buf pos) :=
  lb_of h (Props.C13.string_spec buf pos h) (te_string buf pos)
theorem lb_block (buf : Bytes) (pos : Nat) (h : pos ≤ buf.length) : LB buf pos (lexBlock buf pos) :=
  lb_of h (Props.C13.block_spec buf pos h) (te_block buf pos)
theorem lb_expression (buf : Bytes) (pos : Nat) (h : pos ≤ buf.length) : LB buf pos (lexExpression buf pos) :=
  lb_of h (Props.C13.expression_spec buf pos h) (te_expression buf pos)
theorem lb_comma (buf : Bytes) (pos : Nat) (h : pos ≤ buf.length) : LB buf pos (lexComma buf pos) :=
  lb_of h (Props.C13.comma_spec buf pos h) (te_oneChar buf pos _ _)
theorem lb_semicolon (buf : Bytes) (pos : Nat) (h : pos ≤ buf.length) : LB buf pos (lexSemicolon buf pos) :=
  lb_of h (Props.C13.semicolon_spec buf pos h) (te_oneChar buf pos _ _)
theorem lb_colon (buf : Bytes) (pos : Nat) (h : pos ≤ buf.length) : LB buf pos (lexColon buf pos) :=
  lb_of h (Props.C13.colon_spec buf pos h) (te_oneChar buf pos _ _)
theorem lb_newLine (buf : Bytes) (pos : Nat) (h : pos ≤ buf.length) : LB buf pos (lexNewLine buf pos) :=
  lb_of h (Props.C13.newLine_spec buf pos h) (te_newLine buf pos)

/-! ### the program data element -/

theorem lb_mono {buf : Bytes} {q q' : Nat} {r : Nat × Token × Int} (hq : q ≤ q') (h : LB buf q' r) : LB buf q r :=
  ⟨by have := h.1; omega, h.2.1, h.2.2.1, h.2.2.2⟩

open ScpiVerif.Lemmas.Lexer (pdata_core1 pdata_core2 pdata_core3 pdata_core4 pdata_core5 pdata_core6 pdata_dec pdata_parse_eq)

theorem lb_stage {buf : Bytes} {q : Nat} {r : Nat × Token × Int} {f : Nat → Nat × Token × Int}
    (hr : LB buf q r) (hf : ∀ q', q' ≤ buf.length → LB buf q' (f q')) :
    LB buf q (if r.2.2 != 0 then r else f r.1) := by
  split
  · exact hr
  · exact lb_mono hr.1 (hf _ hr.2.1)

theorem lb_core6 (buf : Bytes) (q : Nat) (h : q ≤ buf.length) : LB buf q (pdata_core6 buf q) := lb_expression buf q h
theorem lb_core5 (buf : Bytes) (q : Nat) (h : q ≤ buf.length) : LB buf q (pdata_core5 buf q) :=
  lb_stage (lb_block buf q h) (lb_core6 buf)
theorem lb_core4 (buf : Bytes) (q : Nat) (h : q ≤ buf.length) : LB buf q (pdata_core4 buf q) :=
  lb_stage (lb_string buf q h) (lb_core5 buf)

theorem ws_ret (buf : Bytes) (pos : Nat) : (lexWhiteSpace buf pos).2.2 = (lexWhiteSpace buf pos).1 - pos := rfl
theorem decimal_tok (buf : Bytes) (pos : Nat) :
    (lexDecimal buf pos).2.1.ptr = pos ∧ (lexDecimal buf pos).2.1.len = (lexDecimal buf pos).1 - pos := ⟨rfl, rfl⟩
theorem suffix_ret (buf : Bytes) (pos : Nat) : (lexSuffix buf pos).2.2 = (lexSuffix buf pos).1 - pos := by
  unfold lexSuffix
  simp only []
  repeat' split
  all_goals (try simp only [])
  all_goals omega

theorem lb_dec (buf : Bytes) (q : Nat) (h : q ≤ buf.length) : LB buf q (pdata_dec buf (lexDecimal buf q)) := by
  have h3 := lb_decimal buf q h
  obtain ⟨t1, t2⟩ := decimal_tok buf q
  have ha := lb_whiteSpace buf _ h3.2.1
  have hb := lb_suffix buf _ ha.2.1
  have ra := ws_ret buf (lexDecimal buf q).1
  have rb := suffix_ret buf (lexWhiteSpace buf (lexDecimal buf q).1).1
  unfold pdata_dec
  simp only []
  unfold LB at *
  split
  · simp only []
    refine ⟨by omega, by omega, by omega, by omega⟩
  · simp only []
    refine ⟨by omega, by omega, by omega, by omega⟩

theorem lb_core3 (buf : Bytes) (q : Nat) (h : q ≤ buf.length) : LB buf q (pdata_core3 buf q) := by
  unfold pdata_core3
  simp only []
  split
  · exact lb_dec buf q h
  · have := lb_decimal buf q h
    exact lb_mono this.1 (lb_core4 buf _ this.2.1)
theorem lb_core2 (buf : Bytes) (q : Nat) (h : q ≤ buf.length) : LB buf q (pdata_core2 buf q) :=
  lb_stage (lb_characterData buf q h) (lb_core3 buf)
theorem lb_core1 (buf : Bytes) (q : Nat) (h : q ≤ buf.length) : LB buf q (pdata_core1 buf q) :=
  lb_stage (lb_nondecimal buf q h) (lb_core2 buf)

theorem lb_programData (buf : Bytes) (pos : Nat) (h : pos ≤ buf.length) : LB buf pos (parseProgramData buf pos) := by
  rw [pdata_parse_eq]
  have h0 := lb_whiteSpace buf pos h
  have h1 := lb_core1 buf _ h0.2.1
  have h2 := lb_whiteSpace buf _ h1.2.1
  unfold LB at *
  simp only []
  refine ⟨by omega, by omega, by omega, by omega⟩

theorem lex_bounds (buf : Bytes) (pos : Nat) (h : pos ≤ buf.length) :
    ∀ r ∈ [lexWhiteSpace buf pos, lexProgramHeader buf pos, lexCharacterProgramData buf pos, lexDecimal buf pos,
           lexSuffix buf pos, lexNondecimal buf pos, lexString buf pos, lexBlock buf pos, lexExpression buf pos,
           lexComma buf pos, lexSemicolon buf pos, lexColon buf pos, lexNewLine buf pos, parseProgramData buf pos],
      pos ≤ r.1 ∧ r.1 ≤ buf.length ∧ 0 ≤ r.2.2 ∧ r.2.1.ptr + r.2.1.len.toNat ≤ buf.length := by
  intro r hr
  simp only [List.mem_cons, List.not_mem_nil, or_false] at hr
  rcases hr with rfl | rfl | rfl | rfl | rfl | rfl | rfl | rfl | rfl | rfl | rfl | rfl | rfl | rfl
  · exact lb_whiteSpace buf pos h
  · exact lb_programHeader buf pos h
  · exact lb_characterData buf pos h
  · exact lb_decimal buf pos h
  · exact lb_suffix buf pos h
  · exact lb_nondecimal buf pos h
  · exact lb_string buf pos h
  · exact lb_block buf pos h
  · exact lb_expression buf pos h
  · exact lb_comma buf pos h
  · exact lb_semicolon buf pos h
  · exact lb_colon buf pos h
  · exact lb_newLine buf pos h
  · exact lb_programData buf pos h

end ScpiVerif.Lemmas.Bounds
