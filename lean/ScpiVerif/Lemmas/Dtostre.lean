/-
Helper lemmas for C16 (text assembly of SCPI_dtostre), about the model in Model/Dtostre.lean and the
literal value of Spec/Float.lean.

Structure:
  * `digitsValue` over an append / over zeros;
  * `trim`: a text `ip.fp'0…0` becomes `ip` or `ip.fp'` (`strip`, `trim_shape`);
  * `litValue` cut into stages (`signSplit`, `fracSplit`, `expPart`, `finish`; `litValue_struct` is `rfl`)
    and evaluated on `ip ++ dotfrac fp ++ suffix` (`lit_shape`, `finish_denotes`);
  * the exponent suffix reads back as the exponent: finite check over |e| ≤ 340 (`expCheck_all`);
  * `Denotes num den m e` (num/den = m·10^e) and its invariance under moving zeros (`denotes_scale`);
  * `core`, the three cases of `assemble`, and the statements used by Props/C16.lean.
-/
import ScpiVerif.Model.Dtostre
import ScpiVerif.Spec.Float
import ScpiVerif.Gen.Tables
namespace ScpiVerif.Lemmas.Dtostre
open ScpiVerif ScpiVerif.Lexer ScpiVerif.Dtostre ScpiVerif.Spec.Float

/-! ### value of a digit string -/

theorem foldl_from (ds : Bytes) : ∀ a : Nat,
    ds.foldl (fun a b => a * 10 + (b.toNat - 48)) a = a * 10^ds.length + digitsValue ds := by
  induction ds with
  | nil => intro a; simp [digitsValue]
  | cons b ds ih =>
    intro a
    have e : digitsValue (b :: ds) = (0 * 10 + (b.toNat - 48)) * 10^ds.length + digitsValue ds := by
      unfold digitsValue; rw [List.foldl_cons, ih]; rfl
    rw [List.foldl_cons, ih, e, List.length_cons, Nat.pow_succ, Nat.add_mul, Nat.zero_mul,
      Nat.zero_add, Nat.mul_assoc, Nat.mul_comm 10, Nat.add_assoc]

theorem digitsValue_append (a b : Bytes) :
    digitsValue (a ++ b) = digitsValue a * 10^b.length + digitsValue b := by
  unfold digitsValue
  rw [List.foldl_append, foldl_from]; rfl

theorem digitsValue_replicate (n : Nat) : digitsValue (List.replicate n 48) = 0 := by
  induction n with
  | zero => rfl
  | succ n ih =>
    have := digitsValue_append [48] (List.replicate n 48)
    rw [List.replicate_succ]
    simp only [List.singleton_append] at this
    have h48 : digitsValue [48] = 0 := by decide
    rw [this, ih, h48]; simp

/-! ### trailing-zero trimming -/

/-- the fraction as it appears in the text: nothing, or the point followed by the digits -/
def dotfrac (fp : Bytes) : Bytes := if fp = [] then [] else 46 :: fp

theorem strip_rev (r : Bytes) : ∃ r' k, r = List.replicate k 48 ++ r' ∧ r'.head? ≠ some 48 := by
  induction r with
  | nil => exact ⟨[], 0, rfl, by simp⟩
  | cons b r ih =>
    by_cases hb : b = 48
    · obtain ⟨r', k, e, h⟩ := ih
      exact ⟨r', k+1, by rw [hb, e, List.replicate_succ]; rfl, h⟩
    · exact ⟨b :: r, 0, rfl, by simpa using hb⟩

/-- every byte string is a part not ending in '0' followed by zeros -/
theorem strip (fp : Bytes) :
    ∃ fp' k, fp = fp' ++ List.replicate k 48 ∧ fp'.getLast? ≠ some 48 := by
  obtain ⟨r', k, e, h⟩ := strip_rev fp.reverse
  refine ⟨r'.reverse, k, ?_, by rwa [List.getLast?_reverse]⟩
  have := congrArg List.reverse e
  rw [List.reverse_reverse, List.reverse_append, List.reverse_replicate] at this
  exact this

theorem trim_shape (ip fp' : Bytes) (k : Nat) (h : fp'.getLast? ≠ some 48)
    (hd : ∀ b ∈ fp', b ≠ 46) :
    trim (ip ++ [46] ++ (fp' ++ List.replicate k 48)) = ip ++ dotfrac fp' := by
  have hrev : (ip ++ [46] ++ (fp' ++ List.replicate k 48)).reverse =
      List.replicate k 48 ++ (fp'.reverse ++ 46 :: ip.reverse) := by
    simp [List.reverse_append, List.reverse_replicate]
  have hdw : ((ip ++ [46] ++ (fp' ++ List.replicate k 48)).reverse.dropWhile (· == 48)).reverse =
      ip ++ [46] ++ fp' := by
    rw [hrev, List.dropWhile_append_of_pos (by simp)]
    cases hfr : fp'.reverse with
    | nil =>
      have : fp' = [] := by simpa using hfr
      subst this
      rw [List.nil_append, List.dropWhile_cons_of_neg (by decide)]; simp
    | cons c t =>
      have hc : fp'.getLast? = some c := by
        rw [← List.head?_reverse, hfr]; rfl
      have : c ≠ 48 := fun e => h (by rw [hc, e])
      rw [List.cons_append, List.dropWhile_cons_of_neg (by simpa using this), ← List.cons_append,
        ← hfr]
      simp
  unfold trim
  simp only [hdw]
  by_cases hfp : fp' = []
  · subst hfp; simp [dotfrac]
  · have hl : (ip ++ [46] ++ fp').getLast? = fp'.getLast? := by
      rw [List.getLast?_append]
      cases hq : fp'.getLast? with
      | none => exact absurd (List.getLast?_eq_none_iff.1 hq) hfp
      | some x => rfl
    have hne : fp'.getLast? ≠ some 46 := by
      intro e
      exact hd 46 (List.mem_of_getLast? e) rfl
    simp only [hl, beq_iff_eq, if_neg hne]; simp [dotfrac, hfp]

/-! ### `litValue` in stages -/

def signSplit (s : Bytes) : Bool × Bytes :=
  match s with | 45 :: r => (true, r) | 43 :: r => (false, r) | _ => (false, s)

def fracSplit (s : Bytes) : Bytes × Bytes :=
  match s with | 46 :: r => (r.takeWhile isDigit, r.drop (r.takeWhile isDigit).length) | _ => ([], s)

def expPart (s : Bytes) : Int × Bytes :=
  let s' := s.dropWhile isWs
  match s' with
    | c :: r =>
      if c == 101 ∨ c == 69 then
        let r := r.dropWhile isWs
        let (eneg, r) := match r with | 45 :: t => (true, t) | 43 :: t => (false, t) | _ => (false, r)
        let ds := r.takeWhile isDigit
        if ds.isEmpty then (0, s) else
          let v : Int := ds.foldl (fun a b => a * 10 + (b.toNat - 48)) 0
          (if eneg then -v else v, r.drop ds.length)
      else (0, s)
    | [] => (0, s)

def finish (neg : Bool) (ip fp s : Bytes) : Option (Bool × Nat × Nat) :=
  if ip.isEmpty ∧ fp.isEmpty then none else
  let mant := digitsValue (ip ++ fp)
  let (ex, rest) := expPart s
  if !rest.isEmpty then none else
  let e10 : Int := ex - fp.length
  let e10 : Int := if e10 > 400 + 1100 then 1500 else if e10 < -1500 - (ip.length + fp.length : Nat) then -1500 - (ip.length + fp.length : Nat) else e10
  if e10 ≥ 0 then some (neg, mant * 10^e10.toNat, 1) else some (neg, mant, 10^(-e10).toNat)

/-- `litValue` is: split the sign, take the integer digits, split the fraction, `finish` -/
theorem litValue_struct (s : Bytes) :
    litValue s =
      finish (signSplit s).1 ((signSplit s).2.takeWhile isDigit)
        (fracSplit ((signSplit s).2.drop ((signSplit s).2.takeWhile isDigit).length)).1
        (fracSplit ((signSplit s).2.drop ((signSplit s).2.takeWhile isDigit).length)).2 := rfl

theorem isDigit_of {b : UInt8} (h : 48 ≤ b ∧ b ≤ 57) : isDigit b = true := by
  simp [isDigit, h.1, h.2]

theorem lit_shape (ip fp suf : Bytes) (hip : ip ≠ []) (hipd : ∀ b ∈ ip, 48 ≤ b ∧ b ≤ 57)
    (hfpd : ∀ b ∈ fp, 48 ≤ b ∧ b ≤ 57) (hsuf : suf = [] ∨ ∃ t, suf = 101 :: t) :
    litValue (ip ++ dotfrac fp ++ suf) = finish false ip fp suf := by
  have hipd' : ∀ b ∈ ip, isDigit b = true := fun b hb => isDigit_of (hipd b hb)
  have hfpd' : ∀ b ∈ fp, isDigit b = true := fun b hb => isDigit_of (hfpd b hb)
  have h1 : signSplit (ip ++ dotfrac fp ++ suf) = (false, ip ++ dotfrac fp ++ suf) := by
    cases ip with
    | nil => contradiction
    | cons d ip' =>
      have hd := hipd d (by simp)
      unfold signSplit
      split
      · rename_i r e
        have : d = 45 := by simp at e; exact e.1
        subst this; exact absurd hd.1 (by decide)
      · rename_i r e
        have : d = 43 := by simp at e; exact e.1
        subst this; exact absurd hd.1 (by decide)
      · rfl
  have hsufd : suf.takeWhile isDigit = [] := by
    rcases hsuf with rfl | ⟨t, rfl⟩
    · rfl
    · exact List.takeWhile_cons_of_neg (by decide)
  have h2 : (ip ++ dotfrac fp ++ suf).takeWhile isDigit = ip := by
    rw [List.append_assoc, List.takeWhile_append_of_pos hipd']
    by_cases hfp : fp = []
    · simp [dotfrac, hfp, hsufd]
    · simp only [dotfrac, hfp, if_false, List.cons_append]
      rw [List.takeWhile_cons_of_neg (by decide)]; simp
  have h3 : fracSplit (dotfrac fp ++ suf) = (fp, suf) := by
    by_cases hfp : fp = []
    · subst hfp
      rcases hsuf with rfl | ⟨t, rfl⟩
      · rfl
      · rfl
    · simp only [dotfrac, hfp, if_false, List.cons_append, fracSplit]
      rw [List.takeWhile_append_of_pos hfpd', hsufd]; simp
  rw [litValue_struct, h1]
  simp only [h2]
  rw [List.append_assoc, List.drop_left, h3]

/-! ### the exponent suffix (finite check over the double range) -/

def expCheck (n : Nat) : Bool :=
  expPart (expSuffix ((n+1 : Nat) : Int)) == (((n+1 : Nat) : Int), []) &&
  expPart (expSuffix (-((n+1 : Nat) : Int))) == (-((n+1 : Nat) : Int), []) &&
  (expSuffix ((n+1 : Nat) : Int)).head? == some 101 &&
  (expSuffix (-((n+1 : Nat) : Int))).head? == some 101 &&
  decide ((expSuffix ((n+1 : Nat) : Int)).length ≤ 5) &&
  decide ((expSuffix (-((n+1 : Nat) : Int))).length ≤ 5)

theorem expCheck_all : (List.range 340).all expCheck = true := by decide +kernel

theorem expSuffix_spec (e : Int) (h : -340 ≤ e ∧ e ≤ 340) :
    expPart (expSuffix e) = (e, []) ∧ (expSuffix e = [] ∨ ∃ t, expSuffix e = 101 :: t) ∧
      (expSuffix e).length ≤ 5 := by
  by_cases h0 : e = 0
  · subst h0; exact ⟨rfl, Or.inl rfl, by decide⟩
  · have hc := List.all_eq_true.1 expCheck_all (e.natAbs - 1) (List.mem_range.2 (by omega))
    simp only [expCheck, Bool.and_eq_true, beq_iff_eq, decide_eq_true_eq] at hc
    obtain ⟨⟨⟨⟨⟨a1, a2⟩, a3⟩, a4⟩, a5⟩, a6⟩ := hc
    have hhead : ∀ l : Bytes, l.head? = some 101 → ∃ t, l = 101 :: t := by
      intro l hl
      cases l with
      | nil => simp at hl
      | cons c t => simp at hl; exact ⟨t, by rw [hl]⟩
    by_cases hp : 0 < e
    · have : ((e.natAbs - 1 + 1 : Nat) : Int) = e := by omega
      rw [this] at a1 a3 a5
      exact ⟨a1, Or.inr (hhead _ a3), a5⟩
    · have : -((e.natAbs - 1 + 1 : Nat) : Int) = e := by omega
      rw [this] at a2 a4 a6
      exact ⟨a2, Or.inr (hhead _ a4), a6⟩

/-! ### the value -/

/-- num/den = m × 10^e -/
def Denotes (num den m : Nat) (e : Int) : Prop :=
  if e ≥ 0 then num = m * 10^e.toNat * den else num * 10^(-e).toNat = m * den

theorem finish_denotes (ip fp suf : Bytes) (ex : Int) (hip : ip ≠ [])
    (hexp : expPart suf = (ex, [])) (hb1 : ex - fp.length ≤ 1500)
    (hb2 : -1500 - ((ip.length + fp.length : Nat) : Int) ≤ ex - fp.length) :
    ∃ num den, finish false ip fp suf = some (false, num, den) ∧ den ≠ 0 ∧
      Denotes num den (digitsValue (ip ++ fp)) (ex - fp.length) := by
  have h1 : ¬ (ip.isEmpty = true ∧ fp.isEmpty = true) := by
    intro h; exact hip (List.isEmpty_iff.1 h.1)
  have h2 : ¬ (ex - (fp.length : Int) > 400 + 1100) := by omega
  have h3 : ¬ (ex - (fp.length : Int) < -1500 - ((ip.length + fp.length : Nat) : Int)) := by omega
  unfold finish
  simp only [if_neg h1, hexp, List.isEmpty_nil, Bool.not_true, Bool.false_eq_true, if_false,
    if_neg h2, if_neg h3]
  by_cases hge : ex - (fp.length : Int) ≥ 0
  · rw [if_pos hge]
    exact ⟨_, 1, rfl, by decide, by unfold Denotes; rw [if_pos hge, Nat.mul_one]⟩
  · rw [if_neg hge]
    refine ⟨_, _, rfl, ?_, by unfold Denotes; rw [if_neg hge]⟩
    exact Nat.ne_of_gt (Nat.pow_pos (by decide))

theorem denotes_scale {num den m : Nat} {e : Int} (k : Nat) (h : Denotes num den m (e + k)) :
    Denotes num den (m * 10^k) e := by
  unfold Denotes at *
  by_cases h1 : e ≥ 0
  · have h2 : e + k ≥ 0 := by omega
    rw [if_pos h2] at h
    rw [if_pos h1]
    have : (e + k).toNat = k + e.toNat := by omega
    rw [h, this, Nat.pow_add]; simp only [Nat.mul_assoc]
  · rw [if_neg h1]
    by_cases h2 : e + k ≥ 0
    · rw [if_pos h2] at h
      have : k = (e + k).toNat + (-e).toNat := by omega
      rw [h]
      conv => rhs; rw [this, Nat.pow_add]
      simp only [Nat.mul_assoc, Nat.mul_comm den]
    · rw [if_neg h2] at h
      have : (-e).toNat = (-(e + k)).toNat + k := by omega
      rw [this, Nat.pow_add, ← Nat.mul_assoc, h, Nat.mul_assoc, Nat.mul_comm den, ← Nat.mul_assoc]

theorem denotes_goal {num den m : Nat} {decpt : Int} {prec : Nat}
    (h : Denotes num den m (decpt - prec)) :
    (if decpt ≥ prec then num = m * 10^(decpt - prec).toNat * den
     else num * 10^((prec : Int) - decpt).toNat = m * den) := by
  unfold Denotes at h
  by_cases hc : decpt ≥ (prec : Int)
  · have : decpt - (prec : Int) ≥ 0 := by omega
    rw [if_pos this] at h; rw [if_pos hc]; exact h
  · have : ¬ (decpt - (prec : Int) ≥ 0) := by omega
    rw [if_neg this] at h; rw [if_neg hc]
    have e : -(decpt - (prec : Int)) = (prec : Int) - decpt := by omega
    rw [e] at h; exact h

/-- text `ip.fp` trimmed, with exponent `ex`: a literal of value (ip fp as one number)·10^(ex − |fp|) -/
theorem core (ip fp : Bytes) (ex : Int) (hip : ip ≠ []) (hipd : ∀ b ∈ ip, 48 ≤ b ∧ b ≤ 57)
    (hfpd : ∀ b ∈ fp, 48 ≤ b ∧ b ≤ 57) (hex : -340 ≤ ex ∧ ex ≤ 340) (hlen : fp.length ≤ 100) :
    ∃ num den, litValue (trim (ip ++ [46] ++ fp) ++ expSuffix ex) = some (false, num, den) ∧
      den ≠ 0 ∧ Denotes num den (digitsValue (ip ++ fp)) (ex - fp.length) := by
  obtain ⟨fp', k, rfl, hlast⟩ := strip fp
  have hfpd' : ∀ b ∈ fp', 48 ≤ b ∧ b ≤ 57 := fun b hb => hfpd b (List.mem_append_left _ hb)
  have hne46 : ∀ b ∈ fp', b ≠ 46 := by
    intro b hb e; subst e; exact absurd (hfpd' _ hb).1 (by decide)
  obtain ⟨e1, e2, _⟩ := expSuffix_spec ex hex
  rw [trim_shape ip fp' k hlast hne46, lit_shape ip fp' _ hip hipd hfpd' e2]
  simp only [List.length_append, List.length_replicate] at hlen ⊢
  obtain ⟨num, den, a, b, c⟩ :=
    finish_denotes ip fp' (expSuffix ex) ex hip e1 (by omega) (by omega)
  refine ⟨num, den, a, b, ?_⟩
  rw [← List.append_assoc, digitsValue_append, digitsValue_replicate, List.length_replicate,
    Nat.add_zero]
  apply denotes_scale
  have : ex - ((fp'.length + k : Nat) : Int) + (k : Int) = ex - fp'.length := by omega
  rw [this]; exact c

/-! ### the three cases of `assemble` -/

theorem assemble_value_plain (prec : Nat) (ds : Bytes) (hl : ds.length = prec)
    (hd : ∀ b ∈ ds, 48 ≤ b ∧ b ≤ 57) (decpt : Int) (h : decpt > 1 ∧ decpt ≤ prec) (hp : prec ≤ 15) :
    ∃ num den, litValue (assemble prec ds decpt) = some (false, num, den) ∧ den ≠ 0 ∧
      Denotes num den (digitsValue ds) (decpt - prec) := by
  have hip : ds.take decpt.toNat ≠ [] := by
    intro e; have := congrArg List.length e
    rw [List.length_take, List.length_nil] at this; omega
  obtain ⟨num, den, a, b, c⟩ := core (ds.take decpt.toNat) (ds.drop decpt.toNat) 0 hip
    (fun b hb => hd b (List.mem_of_mem_take hb)) (fun b hb => hd b (List.mem_of_mem_drop hb))
    (by omega) (by simp; omega)
  refine ⟨num, den, ?_, b, ?_⟩
  · unfold assemble; rw [if_pos h]
    have : expSuffix 0 = [] := rfl
    rw [this, List.append_nil] at a; exact a
  · rw [List.take_append_drop, List.length_drop] at c
    have : (0 : Int) - ((ds.length - decpt.toNat : Nat) : Int) = decpt - prec := by omega
    rw [this] at c; exact c

theorem assemble_value_small (prec : Nat) (ds : Bytes) (hl : ds.length = prec)
    (hd : ∀ b ∈ ds, 48 ≤ b ∧ b ≤ 57) (decpt : Int) (h : decpt > -4 ∧ decpt ≤ 0) (hp : prec ≤ 15) :
    ∃ num den, litValue (assemble prec ds decpt) = some (false, num, den) ∧ den ≠ 0 ∧
      Denotes num den (digitsValue ds) (decpt - prec) := by
  have hzd : ∀ b ∈ List.replicate (-decpt).toNat (48 : UInt8) ++ ds, 48 ≤ b ∧ b ≤ 57 := by
    intro b hb
    rcases List.mem_append.1 hb with hb | hb
    · rw [(List.mem_replicate.1 hb).2]; decide
    · exact hd b hb
  obtain ⟨num, den, a, b, c⟩ := core [48] (List.replicate (-decpt).toNat 48 ++ ds) 0 (by simp)
    (by intro b hb; rw [List.mem_singleton.1 hb]; decide) hzd (by omega) (by simp; omega)
  refine ⟨num, den, ?_, b, ?_⟩
  · unfold assemble
    have h1 : ¬ (decpt > 1 ∧ decpt ≤ prec) := by omega
    rw [if_neg h1, if_pos h]
    have : expSuffix 0 = [] := rfl
    rw [this, List.append_nil] at a
    have e : [48, 46] ++ List.replicate (-decpt).toNat 48 ++ ds =
        [48] ++ [46] ++ (List.replicate (-decpt).toNat 48 ++ ds) := by simp
    rw [e]; exact a
  · have e : [48] ++ (List.replicate (-decpt).toNat (48 : UInt8) ++ ds) =
        List.replicate ((-decpt).toNat + 1) 48 ++ ds := by
      rw [List.replicate_succ]; simp
    rw [e, digitsValue_append, digitsValue_replicate, Nat.zero_mul, Nat.zero_add] at c
    simp only [List.length_append, List.length_replicate] at c
    have : (0 : Int) - (((-decpt).toNat + ds.length : Nat) : Int) = decpt - prec := by omega
    rw [this] at c; exact c

theorem assemble_value_exp (prec : Nat) (ds : Bytes) (hl : ds.length = prec)
    (hd : ∀ b ∈ ds, 48 ≤ b ∧ b ≤ 57) (decpt : Int)
    (h1 : ¬ (decpt > 1 ∧ decpt ≤ prec)) (h2 : ¬ (decpt > -4 ∧ decpt ≤ 0))
    (hp : 1 ≤ prec ∧ prec ≤ 15) (hr : -330 ≤ decpt ∧ decpt ≤ 310) :
    ∃ num den, litValue (assemble prec ds decpt) = some (false, num, den) ∧ den ≠ 0 ∧
      Denotes num den (digitsValue ds) (decpt - prec) := by
  have hip : ds.take 1 ≠ [] := by
    intro e; have := congrArg List.length e
    rw [List.length_take, List.length_nil] at this; omega
  obtain ⟨num, den, a, b, c⟩ := core (ds.take 1) (ds.drop 1) (decpt - 1) hip
    (fun b hb => hd b (List.mem_of_mem_take hb)) (fun b hb => hd b (List.mem_of_mem_drop hb))
    (by omega) (by simp; omega)
  refine ⟨num, den, ?_, b, ?_⟩
  · unfold assemble; rw [if_neg h1, if_neg h2]; exact a
  · rw [List.take_append_drop, List.length_drop] at c
    have : decpt - 1 - ((ds.length - 1 : Nat) : Int) = decpt - prec := by omega
    rw [this] at c; exact c

/-! ### the statements of Props/C16.lean -/

theorem assemble_value (prec : Nat) (hp : 1 ≤ prec ∧ prec ≤ 15) (ds : Bytes) (hl : ds.length = prec)
    (hd : ∀ b ∈ ds, 48 ≤ b ∧ b ≤ 57) (_hnz : ds.head? ≠ some 48) (decpt : Int)
    (hr : -330 ≤ decpt ∧ decpt ≤ 310) :
    ∃ num den, litValue (assemble prec ds decpt) = some (false, num, den) ∧ den ≠ 0 ∧
      (if decpt ≥ prec then num = digitsValue ds * 10^(decpt - prec).toNat * den
       else num * 10^((prec : Int) - decpt).toNat = digitsValue ds * den) := by
  have key : ∃ num den, litValue (assemble prec ds decpt) = some (false, num, den) ∧ den ≠ 0 ∧
      Denotes num den (digitsValue ds) (decpt - prec) := by
    by_cases h1 : decpt > 1 ∧ decpt ≤ prec
    · exact assemble_value_plain prec ds hl hd decpt h1 hp.2
    · by_cases h2 : decpt > -4 ∧ decpt ≤ 0
      · exact assemble_value_small prec ds hl hd decpt h2 hp.2
      · exact assemble_value_exp prec ds hl hd decpt h1 h2 hp hr
  obtain ⟨num, den, a, b, c⟩ := key
  exact ⟨num, den, a, b, denotes_goal c⟩

theorem assemble_zero (prec : Nat) (hp : 1 ≤ prec ∧ prec ≤ 15) :
    assemble prec (List.replicate prec 48) 0 = [48] := by
  have : ∀ p < 16, 1 ≤ p → assemble p (List.replicate p 48) 0 = [48] := by decide
  exact this prec (by omega) hp.1

theorem trim_length_le (s : Bytes) : (trim s).length ≤ s.length := by
  have h : ((s.reverse.dropWhile (· == 48)).reverse).length ≤ s.length := by
    rw [List.length_reverse]
    have := (List.dropWhile_sublist (· == 48) (l := s.reverse)).length_le
    rwa [List.length_reverse] at this
  unfold trim
  simp only
  split
  · rw [List.length_dropLast]; omega
  · exact h

theorem signPrefix_length (neg nan : Bool) (flags : Nat) : (signPrefix neg nan flags).length ≤ 1 := by
  unfold signPrefix
  repeat' split
  all_goals simp

theorem assemble_fits (prec : Nat) (hp : 1 ≤ prec ∧ prec ≤ 15) (ds : Bytes) (hl : ds.length = prec)
    (decpt : Int) (hr : -330 ≤ decpt ∧ decpt ≤ 310) (neg nan : Bool) (flags : Nat) :
    (signPrefix neg nan flags ++ assemble prec ds decpt).length + 1 ≤ Gen.dtostreBuf := by
  have hs := signPrefix_length neg nan flags
  have ha : (assemble prec ds decpt).length ≤ 23 := by
    unfold assemble
    split
    · refine Nat.le_trans (trim_length_le _) ?_
      simp; omega
    · split
      · refine Nat.le_trans (trim_length_le _) ?_
        simp; omega
      · have h1 := trim_length_le (ds.take 1 ++ [46] ++ ds.drop 1)
        have h2 := (expSuffix_spec (decpt - 1) (by omega)).2.2
        simp at h1 ⊢; omega
  rw [List.length_append]
  have : Gen.dtostreBuf = 32 := rfl
  omega

end ScpiVerif.Lemmas.Dtostre
