/-
Refinement of the hand model ScpiVerif.Lexer by the Lean text GENERATED from libscpi/src/lexer.c (Gen/LexerC.lean,
translate/c2lean_lexer.py), part 1: primitives, character classes, the generic loop lemmas, the `skip*` primitives.

The generated text keeps `!iseos(state)` and the read `state->pos[0]` apart (`rd` sets `oob` outside the buffer) and
evaluates `&&` / `||` with C's short-circuit rule.  Every theorem `f_ref` below says, for ALL buffers and ALL cursors
`n ≤ buf.length`: the generated function, started in `st buf n` (flags clear), ends in `st buf n'` - flags still clear,
i.e. NO read outside the buffer and no loop out of fuel - with `n'` and the returned value those of the hand model.

Proof method (independent of the shape of the generated text): the character predicates are compared on all 256 byte
values (`decide`), conditions are evaluated by `simp` with the two `rd` lemmas (in bounds / out of bounds) after a case
split on `n < buf.length`, loops by the generic lemmas `whileC_skip_*` whose hypotheses describe what the condition and
the body MEAN on a clean state.
-/
import ScpiVerif.Gen.LexerC
import ScpiVerif.Model.Lexer
import ScpiVerif.Lemmas.Lexer
import ScpiVerif.Lemmas.CharClass

namespace ScpiVerif.Lemmas.LexerC
open ScpiVerif ScpiVerif.Gen.LexerC

/-- the clean state: cursor at offset `n`, no flag raised -/
def st (buf : Lexer.Bytes) (n : Nat) : CLex := ⟨buf, (n : Int), false, false⟩

/-- the byte a plain-char value stands for -/
def uc (k : Int) : UInt8 := UInt8.ofNat (k % 256).toNat

@[simp] theorem st_buf (buf : Lexer.Bytes) (n : Nat) : (st buf n).buf = buf := rfl
@[simp] theorem st_pos (buf : Lexer.Bytes) (n : Nat) : (st buf n).pos = (n : Int) := rfl
@[simp] theorem st_oob (buf : Lexer.Bytes) (n : Nat) : (st buf n).oob = false := rfl
@[simp] theorem st_ub (buf : Lexer.Bytes) (n : Nat) : (st buf n).ub = false := rfl
theorem st_inj {buf : Lexer.Bytes} {n m : Nat} : st buf n = st buf m ↔ n = m := by
  simp only [st, CLex.mk.injEq, and_true, true_and]; omega

/-- `state->pos++`, `state->pos += k`, `state->pos = p` on a clean state -/
theorem st_with_pos (buf : Lexer.Bytes) (n m : Nat) (p : Int) (h : p = (m : Int)) :
    { st buf n with pos := p } = st buf m := by simp [st, h]

@[simp] theorem st_succ (buf : Lexer.Bytes) (n : Nat) : { st buf n with pos := (n : Int) + 1 } = st buf (n + 1) := by
  simp [st]

@[lexc_ref] theorem mk_st (buf : Lexer.Bytes) (m : Nat) : (⟨buf, (m : Int), false, false⟩ : CLex) = st buf m := rfl
@[lexc_ref] theorem mk_st_succ (buf : Lexer.Bytes) (m : Nat) : (⟨buf, (m : Int) + 1, false, false⟩ : CLex) = st buf (m + 1) := rfl
@[lexc_ref] theorem mk_st_add (buf : Lexer.Bytes) (m k : Nat) : (⟨buf, (m : Int) + (k : Int), false, false⟩ : CLex) = st buf (m + k) := rfl

@[lexc_ref] theorem mk_st_succ2 (buf : Lexer.Bytes) (m : Nat) : (⟨buf, (m : Int) + 1 + 1, false, false⟩ : CLex) = st buf (m + 1 + 1) := rfl
@[lexc_ref] theorem mk_st_lit (buf : Lexer.Bytes) (m k : Nat) : (⟨buf, (m : Int) + (OfNat.ofNat (k + 2) : Int), false, false⟩ : CLex) = st buf (m + (k + 2)) := rfl

/-! ### reads -/

theorem rd_in (buf : Lexer.Bytes) (n : Nat) (h : n < buf.length) : rd (st buf n) 0 = (st buf n, sc buf[n]) := by
  simp [rd, st, h, List.getD_eq_getElem?_getD]

theorem rd_out (buf : Lexer.Bytes) (n : Nat) (h : buf.length ≤ n) : rd (st buf n) 0 = ({ st buf n with oob := true }, 0) := by
  have : ¬ (n < buf.length) := by omega
  simp [rd, st, this]

theorem peekP_in (buf : Lexer.Bytes) (n : Nat) (p : UInt8 → Bool) (h : n < buf.length) : Lexer.peekP buf n p = p buf[n] := by
  simp [Lexer.peekP, h]

theorem peekP_out (buf : Lexer.Bytes) (n : Nat) (p : UInt8 → Bool) (h : buf.length ≤ n) : Lexer.peekP buf n p = false := by
  simp [Lexer.peekP, h]

theorem peekP_lt {buf : Lexer.Bytes} {n : Nat} {p : UInt8 → Bool} (h : Lexer.peekP buf n p = true) : n < buf.length := by
  by_cases h' : n < buf.length
  · exact h'
  · rw [peekP_out buf n p (by omega)] at h; cases h

/-! ### plain char values -/

theorem sc_inj (a b : UInt8) : sc a = sc b ↔ a = b := by
  constructor
  · intro h
    have ha := UInt8.toNat_lt a
    have hb := UInt8.toNat_lt b
    apply UInt8.toNat_inj.mp
    simp only [sc] at h
    split at h <;> split at h <;> omega
  · intro h; rw [h]

theorem uc_sc (b : UInt8) : uc (sc b) = b := by
  have h : ∀ n : Fin 256, uc (sc (UInt8.ofNat n.val)) = UInt8.ofNat n.val := by decide +kernel
  have := h ⟨b.toNat, UInt8.toNat_lt b⟩
  simpa using this

theorem sc_uc (k : Int) (h1 : -128 ≤ k) (h2 : k ≤ 127) : sc (uc k) = k := by
  simp only [sc, uc, UInt8.toNat_ofNat']
  have : (k % 256).toNat % 2 ^ 8 = (k % 256).toNat := by omega
  rw [this]
  split <;> omega

/-- comparison of the byte read with a char value -/
theorem sc_beq (b : UInt8) (k : Int) (h1 : -128 ≤ k) (h2 : k ≤ 127) : (sc b == k) = (b == uc k) := by
  have := sc_inj b (uc k)
  rw [sc_uc k h1 h2] at this
  rw [Bool.eq_iff_iff, beq_iff_eq, beq_iff_eq]; exact this

/-! ### character classes: the generated predicates and the linked <ctype.h> tables, on all 256 byte values

A one-character change of a predicate in lexer.c changes the generated definition and breaks the `decide` here. -/

@[lexc_cls] theorem isws_sc (b : UInt8) : (isws (sc b) != 0) = Lexer.isWs b :=
  CharClass.lift (fun b => isws (sc b) != 0) Lexer.isWs (by decide +kernel) b
@[lexc_cls] theorem isbdigit_sc (b : UInt8) : (isbdigit (sc b) != 0) = Lexer.isBDigit b :=
  CharClass.lift (fun b => isbdigit (sc b) != 0) Lexer.isBDigit (by decide +kernel) b
@[lexc_cls] theorem isqdigit_sc (b : UInt8) : (isqdigit (sc b) != 0) = Lexer.isQDigit b :=
  CharClass.lift (fun b => isqdigit (sc b) != 0) Lexer.isQDigit (by decide +kernel) b
@[lexc_cls] theorem isplusmn_sc (b : UInt8) : (isplusmn (sc b) != 0) = Lexer.isPlusMn b :=
  CharClass.lift (fun b => isplusmn (sc b) != 0) Lexer.isPlusMn (by decide +kernel) b
@[lexc_cls] theorem isH_sc (b : UInt8) : (isH (sc b) != 0) = (b == 104 || b == 72) :=
  CharClass.lift (fun b => isH (sc b) != 0) (fun b => b == 104 || b == 72) (by decide +kernel) b
@[lexc_cls] theorem isB_sc (b : UInt8) : (isB (sc b) != 0) = (b == 98 || b == 66) :=
  CharClass.lift (fun b => isB (sc b) != 0) (fun b => b == 98 || b == 66) (by decide +kernel) b
@[lexc_cls] theorem isQ_sc (b : UInt8) : (isQ (sc b) != 0) = (b == 113 || b == 81) :=
  CharClass.lift (fun b => isQ (sc b) != 0) (fun b => b == 113 || b == 81) (by decide +kernel) b
@[lexc_cls] theorem isE_sc (b : UInt8) : (isE (sc b) != 0) = Lexer.isE b :=
  CharClass.lift (fun b => isE (sc b) != 0) Lexer.isE (by decide +kernel) b
@[lexc_cls] theorem isascii7bit_sc (b : UInt8) : (isascii7bit (sc b) != 0) = Lexer.isAscii7 b :=
  CharClass.lift (fun b => isascii7bit (sc b) != 0) Lexer.isAscii7 (by decide +kernel) b
@[lexc_cls] theorem isNonzeroDigit_sc (b : UInt8) : (isNonzeroDigit (sc b) != 0) = (Lexer.isDigit b && b != 48) :=
  CharClass.lift (fun b => isNonzeroDigit (sc b) != 0) (fun b => Lexer.isDigit b && b != 48) (by decide +kernel) b
@[lexc_cls] theorem isProgramExpression_sc (b : UInt8) : (isProgramExpression (sc b) != 0) = Lexer.isProgramExpression b :=
  CharClass.lift (fun b => isProgramExpression (sc b) != 0) Lexer.isProgramExpression (by decide +kernel) b
-- the <ctype.h> functions as linked, with the `(uint8_t)` argument the library passes
@[lexc_cls] theorem isdigit_sc (b : UInt8) : ctype Gen.cc_isdigit (u8 (sc b)) = Lexer.isDigit b :=
  CharClass.lift (fun b => ctype Gen.cc_isdigit (u8 (sc b))) Lexer.isDigit (by decide +kernel) b
@[lexc_cls] theorem isalpha_sc (b : UInt8) : ctype Gen.cc_isalpha (u8 (sc b)) = Lexer.isAlpha b :=
  CharClass.lift (fun b => ctype Gen.cc_isalpha (u8 (sc b))) Lexer.isAlpha (by decide +kernel) b
@[lexc_cls] theorem isalnum_sc (b : UInt8) : ctype Gen.cc_isalnum (u8 (sc b)) = Lexer.isAlnum b :=
  CharClass.lift (fun b => ctype Gen.cc_isalnum (u8 (sc b))) Lexer.isAlnum (by decide +kernel) b
@[lexc_cls] theorem isxdigit_sc (b : UInt8) : ctype Gen.cc_isxdigit (u8 (sc b)) = Lexer.isXDigit b :=
  CharClass.lift (fun b => ctype Gen.cc_isxdigit (u8 (sc b))) Lexer.isXDigit (by decide +kernel) b
/-- a byte compared with a character constant -/
@[lexc_cls] theorem b2i_sc_beq (b : UInt8) (k : Int) (h1 : -128 ≤ k) (h2 : k ≤ 127) : (b2i (sc b == k) != 0) = (b == uc k) := by
  rw [sc_beq b k h1 h2]; cases (b == uc k) <;> simp [b2i]
@[lexc_cls] theorem b2i_ne_zero (b : Bool) : (b2i b != 0) = b := by cases b <;> simp [b2i]

/-! ### end-of-input test and the one-byte comparison -/

set_option linter.unusedSimpArgs false in  -- the extra facts serve other spellings of the comparison
theorem iseos_ref (buf : Lexer.Bytes) (n : Nat) : (iseos (st buf n) != 0) = Lexer.iseos buf n := by
  simp only [iseos, Lexer.iseos, st_buf, st_pos]
  by_cases h : buf.length ≤ n
  · have h1 : (buf.length : Int) ≤ (n : Int) := by omega
    simp [h, h1, b2i]
  · have h1 : ¬ (buf.length : Int) ≤ (n : Int) := by omega
    have h2 : (n : Int) < (buf.length : Int) := by omega
    simp [h, h2, b2i]

theorem iseos_in (buf : Lexer.Bytes) (n : Nat) (h : n < buf.length) : (iseos (st buf n) != 0) = false := by
  rw [iseos_ref]; simp [Lexer.iseos]; omega
theorem iseos_out (buf : Lexer.Bytes) (n : Nat) (h : buf.length ≤ n) : (iseos (st buf n) != 0) = true := by
  rw [iseos_ref]; simp [Lexer.iseos]; omega

/-- the same two facts for a condition `simp` has already normalised to a proposition -/
theorem iseos_in0 (buf : Lexer.Bytes) (n : Nat) (h : n < buf.length) : iseos (st buf n) = 0 := by
  simpa using iseos_in buf n h
theorem iseos_out0 (buf : Lexer.Bytes) (n : Nat) (h : buf.length ≤ n) : (iseos (st buf n) = 0) = False := by
  simpa using iseos_out buf n h

theorem scpiLex_IsEos_ref (buf : Lexer.Bytes) (n : Nat) : (scpiLex_IsEos (st buf n) != 0) = Lexer.iseos buf n := by
  simp only [scpiLex_IsEos]; exact iseos_ref buf n

/-- `ischr` reads: it is only called after the end-of-input test -/
theorem ischr_in (buf : Lexer.Bytes) (n : Nat) (k : Int) (h : n < buf.length) :
    ischr (st buf n) k = (st buf n, b2i (sc buf[n] == k)) := by
  simp [ischr, rd_in buf n h]

/-! ### loops -/

/-- `step` applied `k` times -/
def iter {L : Type} (step : L → L) : Nat → L → L
  | 0, l => l
  | k + 1, l => iter step k (step l)

theorem iter_add_one (k : Nat) (l : Int) : iter (· + 1) k l = l + k := by
  induction k generalizing l with
  | zero => simp [iter]
  | succ k ih => simp only [iter, ih]; omega

@[simp] theorem iter_unit (step : Unit → Unit) (k : Nat) (l : Unit) : iter step k l = () := rfl

theorem skipMany_stop {buf : Lexer.Bytes} {n : Nat} {p : UInt8 → Bool} (hp : Lexer.peekP buf n p = false) :
    Lexer.skipMany buf n p = n := by
  simp only [Lexer.skipMany]
  cases hk : buf.length - n <;> simp [Lexer.skipWhile, hp]

theorem skipMany_step {buf : Lexer.Bytes} {n : Nat} {p : UInt8 → Bool} (hp : Lexer.peekP buf n p = true) :
    Lexer.skipMany buf n p = Lexer.skipMany buf (n + 1) p := by
  have hlt := peekP_lt hp
  simp only [Lexer.skipMany]
  have : buf.length - n = (buf.length - (n + 1)) + 1 := by omega
  rw [this, Lexer.skipWhile, hp]; simp

theorem skipMany_ge (buf : Lexer.Bytes) (n : Nat) (p : UInt8 → Bool) : n ≤ Lexer.skipMany buf n p := by
  rw [Lexer.skipMany_eq]; omega

theorem skipMany_le (buf : Lexer.Bytes) (n : Nat) (p : UInt8 → Bool) (h : n ≤ buf.length) : Lexer.skipMany buf n p ≤ buf.length := by
  rw [Lexer.skipMany_eq]
  have := Lexer.tw_le_length p (buf.drop n)
  simp only [List.length_drop] at this
  omega

theorem skipOne_ge (buf : Lexer.Bytes) (n : Nat) (p : UInt8 → Bool) : n ≤ Lexer.skipOne buf n p := by
  simp only [Lexer.skipOne]; split <;> omega

theorem skipOne_le (buf : Lexer.Bytes) (n : Nat) (p : UInt8 → Bool) (h : n ≤ buf.length) : Lexer.skipOne buf n p ≤ buf.length := by
  simp only [Lexer.skipOne]; split
  · next hp => have := peekP_lt hp; omega
  · exact h

/-- one trip through a loop: the condition, then the body (`brk` when the condition fails) -/
def tripC {L ρ : Type} (cond : CLex → L → CLex × Bool) (body : CLex → L → CLex × L × Flow ρ) (s : CLex) (l : L) : CLex × L × Flow ρ :=
  if (cond s l).2 then body (cond s l).1 l else ((cond s l).1, l, Flow.brk)

theorem whileC_succ {L ρ : Type} (cond : CLex → L → CLex × Bool) (body : CLex → L → CLex × L × Flow ρ) (fuel : Nat) (s : CLex) (l : L) :
    whileC cond body (fuel + 1) s l =
      match tripC cond body s l with
      | (s, l, .next) => whileC cond body fuel s l
      | (s, l, .brk) => (s, l, none)
      | (s, l, .ret r) => (s, l, some r) := by
  rw [whileC, tripC]
  rcases cond s l with ⟨s', _ | _⟩ <;> rfl

/-- THE LOOP LEMMA.  A loop one trip of which (condition, then body) MEANS, on every clean state: "if `!iseos && p(pos[0])`
then move the cursor by one, update the locals by `step` and go on, else stop" - and leaves the state clean: no read outside
the buffer; at and beyond the end of the input it must stop WITHOUT reading - behaves as the hand model's `skipMany`, within
`buf.length - n + 1` iterations.  Stated about one trip, so `while (c) {..}` and `for (;;) { if (!c) break; .. }` both fit. -/
theorem whileC_skip {L ρ : Type} (cond : CLex → L → CLex × Bool) (body : CLex → L → CLex × L × Flow ρ)
    (p : UInt8 → Bool) (step : L → L) (buf : Lexer.Bytes)
    (ht : ∀ n l, tripC cond body (st buf n) l =
      if Lexer.peekP buf n p then (st buf (n + 1), step l, Flow.next) else (st buf n, l, Flow.brk))
    (fuel : Nat) (n : Nat) (l : L) (hf : buf.length - n < fuel) :
    whileC cond body fuel (st buf n) l =
      (st buf (Lexer.skipMany buf n p), iter step (Lexer.skipMany buf n p - n) l, none) := by
  induction fuel generalizing n l with
  | zero => omega
  | succ fuel ih =>
    rw [whileC_succ, ht n l]
    cases hp : Lexer.peekP buf n p
    · simp [skipMany_stop hp, iter]
    · have hlt := peekP_lt hp
      simp only [if_true]
      rw [ih (n + 1) (step l) (by omega), skipMany_step hp]
      have hge := skipMany_ge buf (n + 1) p
      have : Lexer.skipMany buf (n + 1) p - n = (Lexer.skipMany buf (n + 1) p - (n + 1)) + 1 := by omega
      rw [this, iter]

/-! ### proof automation -/

attribute [lexc_cls] sc_beq
@[lexc_cls] theorem sc_eq_iff (b : UInt8) (k : Int) (h1 : -128 ≤ k) (h2 : k ≤ 127) : sc b = k ↔ b = uc k := by
  have := sc_inj b (uc k)
  rw [sc_uc k h1 h2] at this
  exact this

/-- splits the remaining `if`s and compares clean states field by field (cursor arithmetic by `omega`) -/
macro "lexc_close" : tactic => `(tactic|
  (repeat' split
   all_goals (try simp_all [st, lexc_code])
   all_goals (try (repeat' split))
   all_goals (try simp_all [st, lexc_code])
   all_goals (try omega)))

/-- a condition or a straight-line piece of generated text on the clean state `st buf n`, by cases on `n < buf.length`:
inside, `iseos` is false and the reads deliver the byte; at the end, `iseos` is true and NO lemma lets a read through
(`rd_out` is deliberately not used: a read at the end of the input leaves a state that is not clean) -/
macro "lexc_cases " n:term ", " buf:term : tactic => `(tactic|
  (by_cases hlt_ : $n < List.length $buf
   · simp [iseos_in _ _ hlt_, iseos_in0 _ _ hlt_, rd_in _ _ hlt_, ischr_in _ _ _ hlt_, peekP_in _ _ _ hlt_, lexc_cls, uc, Lexer.isWs, Lexer.isPlusMn, Lexer.isE, Lexer.isBDigit, *]
     try lexc_close
   · have hge_ : List.length $buf ≤ $n := Nat.le_of_not_lt hlt_
     simp [iseos_out _ _ hge_, iseos_out0 _ _ hge_, peekP_out _ _ _ hge_, uc, *]
     try lexc_close))

/-- rewrites the first loop of the goal with `whileC_skip` for the class `p` (locals: one counter, or none) -/
macro "lexc_loop " p:term ", " buf:term : tactic => `(tactic|
  (first
    | rw [whileC_skip (p := $p) (step := ((· + 1) : Int → Int)) (buf := $buf)]
    | rw [whileC_skip (p := $p) (step := (id : Unit → Unit)) (buf := $buf)]
   case ht => intro n_ l_; simp only [tripC]; lexc_cases n_, $buf
   case hf => omega))

/-! ### the `skip*` primitives -/

@[lexc_ref] theorem skipWs_ref (buf : Lexer.Bytes) (n : Nat) :
    skipWs (st buf n) = (st buf (Lexer.skipMany buf n Lexer.isWs), (Lexer.skipMany buf n Lexer.isWs : Int) - n) := by
  have := skipMany_ge buf n Lexer.isWs
  simp only [skipWs, st_buf]
  lexc_loop Lexer.isWs, buf
  simp [iter_add_one]; try lexc_close

@[lexc_ref] theorem skipNumbers_ref (buf : Lexer.Bytes) (n : Nat) :
    skipNumbers (st buf n) = (st buf (Lexer.skipMany buf n Lexer.isDigit), (Lexer.skipMany buf n Lexer.isDigit : Int) - n) := by
  have := skipMany_ge buf n Lexer.isDigit
  simp only [skipNumbers, st_buf]
  lexc_loop Lexer.isDigit, buf
  simp [iter_add_one]; try lexc_close

@[lexc_ref] theorem skipAlpha_ref (buf : Lexer.Bytes) (n : Nat) :
    skipAlpha (st buf n) = (st buf (Lexer.skipMany buf n Lexer.isAlpha), (Lexer.skipMany buf n Lexer.isAlpha : Int) - n) := by
  have := skipMany_ge buf n Lexer.isAlpha
  simp only [skipAlpha, st_buf]
  lexc_loop Lexer.isAlpha, buf
  simp [iter_add_one]; try lexc_close

@[lexc_ref] theorem skipHexNum_ref (buf : Lexer.Bytes) (n : Nat) :
    skipHexNum (st buf n) = (st buf (Lexer.skipMany buf n Lexer.isXDigit), (Lexer.skipMany buf n Lexer.isXDigit : Int) - n) := by
  have := skipMany_ge buf n Lexer.isXDigit
  simp only [skipHexNum, st_buf]
  lexc_loop Lexer.isXDigit, buf
  simp [iter_add_one]; try lexc_close

@[lexc_ref] theorem skipOctNum_ref (buf : Lexer.Bytes) (n : Nat) :
    skipOctNum (st buf n) = (st buf (Lexer.skipMany buf n Lexer.isQDigit), (Lexer.skipMany buf n Lexer.isQDigit : Int) - n) := by
  have := skipMany_ge buf n Lexer.isQDigit
  simp only [skipOctNum, st_buf]
  lexc_loop Lexer.isQDigit, buf
  simp [iter_add_one]; try lexc_close

@[lexc_ref] theorem skipBinNum_ref (buf : Lexer.Bytes) (n : Nat) :
    skipBinNum (st buf n) = (st buf (Lexer.skipMany buf n Lexer.isBDigit), (Lexer.skipMany buf n Lexer.isBDigit : Int) - n) := by
  have := skipMany_ge buf n Lexer.isBDigit
  simp only [skipBinNum, st_buf]
  lexc_loop Lexer.isBDigit, buf
  simp [iter_add_one]; try lexc_close

@[lexc_ref] theorem skipProgramExpression_ref (buf : Lexer.Bytes) (n : Nat) :
    skipProgramExpression (st buf n) = st buf (Lexer.skipMany buf n Lexer.isProgramExpression) := by
  simp only [skipProgramExpression, st_buf]
  lexc_loop Lexer.isProgramExpression, buf

/-- value and new cursor of a one-character skip -/
def one (buf : Lexer.Bytes) (n : Nat) (p : UInt8 → Bool) : CLex × Int :=
  (st buf (Lexer.skipOne buf n p), (Lexer.skipOne buf n p : Int) - n)

@[lexc_ref] theorem skipDigit_ref (buf : Lexer.Bytes) (n : Nat) : skipDigit (st buf n) = one buf n Lexer.isDigit := by
  simp only [skipDigit, Lexer.skipOne, one]
  lexc_cases n, buf

@[lexc_ref] theorem skipPlusmn_ref (buf : Lexer.Bytes) (n : Nat) : skipPlusmn (st buf n) = one buf n Lexer.isPlusMn := by
  simp only [skipPlusmn, Lexer.skipOne, one]
  lexc_cases n, buf

@[lexc_ref] theorem skipChr_ref (buf : Lexer.Bytes) (n : Nat) (k : Int) (h1 : -128 ≤ k) (h2 : k ≤ 127) :
    skipChr (st buf n) k = one buf n (· == uc k) := by
  simp only [skipChr, Lexer.skipOne, one]
  lexc_cases n, buf

@[lexc_ref] theorem skipSlashDot_ref (buf : Lexer.Bytes) (n : Nat) :
    skipSlashDot (st buf n) = one buf n (fun b => b == 47 || b == 46) := by
  simp only [skipSlashDot, Lexer.skipOne, one]
  lexc_cases n, buf

@[lexc_ref] theorem skipStar_ref (buf : Lexer.Bytes) (n : Nat) : skipStar (st buf n) = one buf n (· == 42) := by
  simp only [skipStar, Lexer.skipOne, one]
  lexc_cases n, buf

@[lexc_ref] theorem skipColon_ref (buf : Lexer.Bytes) (n : Nat) : skipColon (st buf n) = one buf n (· == 58) := by
  simp only [skipColon, Lexer.skipOne, one]
  lexc_cases n, buf

end ScpiVerif.Lemmas.LexerC
