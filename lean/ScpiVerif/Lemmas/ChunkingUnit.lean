/-
C08 helper lemmas, part 4: what `SCPI_Parse` uses of a detected unit — header type / length / offset,
parameter-count flag, data token, extent — is determined by the specification of the unit
(`Spec.specUnit` and the data list), so that stability results on the specification side carry over
to the unit loop of `SCPI_Parse`.  (C13's `unit_spec` says nothing about the data token.)
-/
import ScpiVerif.Lemmas.ChunkingScan

namespace ScpiVerif.Lemmas.Chunking
open ScpiVerif ScpiVerif.Lexer ScpiVerif.Spec ScpiVerif.Props.C08 ScpiVerif.Parser ScpiVerif.Lemmas.Lexer

/-! ## the data token -/

/-- token of a data list that starts at `pos0` and whose specification is `l` -/
def listTok (pos0 : Nat) : ListSpec → Token
  | .ok c n => if n = 0 then mkTok .unknown 0 0 else mkTok .allProgramData 0 ((c : Int) - pos0)
  | .bad _ => mkTok .unknown 0 0

theorem loop_tok (buf : Bytes) (pos0 : Nat) (fuel : Nat) : ∀ (fuel' pos : Nat) (tlen result : Int) (k : Nat),
    pos ≤ buf.length → buf.length - pos + 1 ≤ fuel → buf.length - pos + 1 ≤ fuel' →
    (pos0 : Int) + tlen + result = pos →
    (allDataLoop buf fuel pos tlen result k).tok = listTok pos0 (specList fuel' buf pos k) := by
  induction fuel with
  | zero => intro fuel' pos tlen result k h1 h2; omega
  | succ fuel ih =>
    intro fuel' pos tlen result k h1 h2 h3 hinv
    cases fuel' with
    | zero => omega
    | succ fuel' =>
      rw [unit_loop_step, unit_specList_step]
      cases hd : specData (buf.drop (pos + wsLen (buf.drop pos))) with
      | item n t po pl =>
        obtain ⟨e1, e2, e3, e4⟩ := unit_pd_item h1 hd
        have ht := unit_specData_item hd
        simp only [e3, ht, ne_eq, not_false_eq_true, if_true, e1]
        by_cases hc : (buf.drop (pos + wsLen (buf.drop pos) + n + wsLen (buf.drop (pos + wsLen (buf.drop pos) + n)))).head? = some 44
        · rw [if_pos hc, if_pos hc]
          have hlt := unit_head_lt hc
          have hk : (k : Int) + 1 = ((k + 1 : Nat) : Int) := by omega
          rw [hk]
          exact ih fuel' (pos + wsLen (buf.drop pos) + n + wsLen (buf.drop (pos + wsLen (buf.drop pos) + n)) + 1)
            (tlen + result + (parseProgramData buf pos).2.2) 1 (k + 1) hlt (by omega) (by omega) (by rw [e2]; omega)
        · rw [if_neg hc, if_neg hc]
          simp only [listTok, Nat.add_eq_zero_iff, Nat.succ_ne_self, and_false, if_false, mkTok]
          rw [e2]
          congr 1
          omega
      | swallow =>
        obtain ⟨e1, e2, e3, e4⟩ := programData_swallow buf pos h1 hd
        simp only [e2, ne_eq, not_true_eq_false, if_false, listTok]
      | none =>
        obtain ⟨e1, e2, e3⟩ := unit_pd_none h1 hd
        simp only [e3, ne_eq, not_true_eq_false, if_false]
        by_cases hk : k = 0
        · subst hk; simp [listTok]
        · simp [listTok, hk]

theorem parseAll_tok_spec (buf : Bytes) (pos : Nat) (h : pos ≤ buf.length) :
    (parseAllProgramData buf pos).tok = { listTok pos (specList (buf.length + 1) buf pos 0) with ptr := pos } := by
  have := loop_tok buf pos (buf.length - pos + 2) (buf.length + 1) pos (-1) 1 0 h (by omega) (by omega) (by omega)
  unfold parseAllProgramData
  simp only []
  rw [show ((0 : Nat) : Int) = 0 from rfl] at this
  rw [this]

/-- the data token of a unit, from its specification -/
def dataSpec (s : Bytes) : Token :=
  if uW1 s > 0 then { listTok (uP1 s + uW1 s) (specList (s.length + 1) s (uP1 s + uW1 s) 0) with ptr := uP1 s + uW1 s }
  else mkTok .unknown (uP1 s) 0

theorem unit_tail_data_valid (buf : Bytes) (hdr data : Token) (n : Int) (p : Nat) (hh : hdr.type ≠ .invalid)
    (hv : (unit_tail buf hdr (p, data, n)).header.type ≠ .invalid) : (unit_tail buf hdr (p, data, n)).data = data := by
  revert hv
  unfold unit_tail
  simp only []
  generalize (if (lexNewLine buf p).2.2 != 0 then ((lexNewLine buf p).1, (lexNewLine buf p).2.1, (lexNewLine buf p).2.2)
    else ((lexSemicolon buf (lexNewLine buf p).1).1, (lexSemicolon buf (lexNewLine buf p).1).2.1, (lexSemicolon buf (lexNewLine buf p).1).2.2)) = y
  by_cases hc : (!iseos buf y.1 && y.2.2 == 0) = true
  · simp only [hc, if_true]; intro hv; exact absurd rfl hv
  · simp [hc]

theorem uHdr_eq (s : Bytes) : uHdr s = unit_hdr (specToken .header (s.drop (wsLen s))) := by
  unfold uHdr unit_hdr
  cases specToken .header (s.drop (wsLen s)) <;> rfl

theorem lexProgramHeader_ptr (buf : Bytes) (pos : Nat) : (lexProgramHeader buf pos).2.1.ptr = pos := by
  unfold lexProgramHeader
  simp only []
  repeat' split
  all_goals rfl

theorem unit_tail_header_ptr (buf : Bytes) (hdr : Token) (x : Nat × Token × Int) :
    (unit_tail buf hdr x).header.ptr = hdr.ptr := by
  obtain ⟨p, data, n⟩ := x
  unfold unit_tail
  simp only []
  repeat' split
  all_goals rfl

/-- the shape of a detected unit: header token from the header recogniser, data token from the specification -/
theorem detect_form (s : Bytes) :
    ∃ n p, detectUnit s = unit_tail s (lexProgramHeader s (wsLen s)).2.1 (p, dataSpec s, n) := by
  have hw0 := unit_wsLen_le s
  obtain ⟨hl, ht, hh, a1, a2, a3, a4, a5, a6, a7⟩ := unit_header s (wsLen s) hw0
  have hb1 := unit_ws_bound s (wsLen s + hl) a7
  have hP1 : uP1 s = wsLen s + hl := by unfold uP1; rw [uHdr_eq, hh]
  have hW1 : uW1 s = wsLen (s.drop (wsLen s + hl)) := by unfold uW1; rw [hP1]
  rw [unit_detect_eq, unit_ws]
  simp only [List.drop_zero, Nat.zero_add]
  generalize lexProgramHeader s (wsLen s) = x1 at a1 a2
  obtain ⟨p1, hdr, hlen⟩ := x1
  simp only at a1 a2
  subst a1 a2
  rw [unit_ws]
  have hge : ((hl : Int) ≥ 0) := by omega
  simp only [hge, if_true]
  by_cases hw : wsLen (s.drop (wsLen s + hl)) > 0
  · have hw' : ((wsLen (s.drop (wsLen s + hl)) : Nat) : Int) > 0 := by omega
    simp only [hw', if_true]
    refine ⟨(parseAllProgramData s (wsLen s + hl + wsLen (List.drop (wsLen s + hl) s))).paramCount,
      (parseAllProgramData s (wsLen s + hl + wsLen (List.drop (wsLen s + hl) s))).pos, ?_⟩
    congr 2
    rw [parseAll_tok_spec s _ hb1]
    unfold dataSpec
    rw [hW1, if_pos hw, hP1]
  · have hw' : ¬ ((wsLen (s.drop (wsLen s + hl)) : Nat) : Int) > 0 := by omega
    have hz : wsLen (s.drop (wsLen s + hl)) = 0 := by omega
    simp only [hw', if_false]
    refine ⟨0, wsLen s + hl + wsLen (List.drop (wsLen s + hl) s), ?_⟩
    congr 2
    unfold dataSpec
    rw [hW1, if_neg hw, hP1, hz]; rfl

theorem detect_header_ptr (s : Bytes) : (detectUnit s).header.ptr = wsLen s := by
  obtain ⟨n, p, e1⟩ := detect_form s
  rw [e1, unit_tail_header_ptr, lexProgramHeader_ptr]

/-- the data token of a unit that is not invalid is the one its specification prescribes -/
theorem detect_data (s : Bytes) (hv : (detectUnit s).header.type ≠ .invalid) : (detectUnit s).data = dataSpec s := by
  obtain ⟨hl, ht, hh, a1, a2, a3, a4, a5, a6, a7⟩ := unit_header s (wsLen s) (unit_wsLen_le s)
  obtain ⟨n, p, e1⟩ := detect_form s
  rw [e1] at hv ⊢
  exact unit_tail_data_valid s _ _ n p (by rw [a3]; exact a6) hv

/-- a unit that is a line feed alone -/
theorem detect_lf : (detectUnit [10]).header.len = 0 ∧ (detectUnit [10]).header.type ≠ .invalid ∧
    (detectUnit [10]).consumed = 1 := by decide

/-! ## a unit followed by more bytes: what `SCPI_Parse` uses of it -/

/-- same type; and unless invalid (when nothing else is used) same header token, data token and parameter count -/
def UEq (u1 u2 : Parser.Unit) : Prop :=
  u1.header.type = u2.header.type ∧
  (u2.header.type ≠ .invalid → u1.header = u2.header ∧ u1.data = u2.data ∧ u1.nParams = u2.nParams)

/-- from equal specifications -/
theorem uEq_of_spec {a b : Bytes} (hw : (specUnit a).wellFormed = (specUnit b).wellFormed)
    (hl : (specUnit a).headerLen = (specUnit b).headerLen) (ht : (specUnit a).headerType = (specUnit b).headerType)
    (hn : (specUnit a).nParams = (specUnit b).nParams) (h0 : wsLen a = wsLen b) (hd : dataSpec a = dataSpec b) :
    UEq (detectUnit a) (detectUnit b) := by
  obtain ⟨_, _, a3, a4, _, _⟩ := Props.C13.unit_spec a
  obtain ⟨_, _, b3, b4, _, _⟩ := Props.C13.unit_spec b
  have hty : (detectUnit a).header.type = (detectUnit b).header.type := by
    cases hwb : (specUnit b).wellFormed with
    | true => rw [(a4 (by rw [hw, hwb])).1, (b4 hwb).1, ht]
    | false => rw [a3.2 (by rw [hw, hwb]), b3.2 hwb]
  refine ⟨hty, ?_⟩
  intro hv
  have hwb : (specUnit b).wellFormed = true := by
    cases hh : (specUnit b).wellFormed with
    | true => rfl
    | false => exact absurd (b3.2 hh) hv
  obtain ⟨x1, x2, _, x4⟩ := a4 (by rw [hw, hwb])
  obtain ⟨y1, y2, _, y4⟩ := b4 hwb
  refine ⟨?_, ?_, by rw [x4, y4, hn]⟩
  · have hp : (detectUnit a).header.ptr = (detectUnit b).header.ptr := by
      rw [detect_header_ptr, detect_header_ptr, h0]
    have hlen : (detectUnit a).header.len = (detectUnit b).header.len := by rw [x2, y2, hl]
    cases hA : (detectUnit a).header
    cases hB : (detectUnit b).header
    rw [hA, hB] at hty hp hlen
    simp only at hty hp hlen
    rw [hty, hp, hlen]
  · rw [detect_data a (by rw [hty]; exact hv), detect_data b hv, hd]

/-- the data token specification from the stable parts -/
theorem dataSpec_stable {w y : Bytes} (eP : uP1 (w ++ y) = uP1 w) (eW : uW1 (w ++ y) = uW1 w)
    (eL : uW1 w > 0 → specList ((w ++ y).length + 1) (w ++ y) (uP1 w + uW1 w) 0 = specList (w.length + 1) w (uP1 w + uW1 w) 0) :
    dataSpec (w ++ y) = dataSpec w := by
  unfold dataSpec
  rw [eP, eW]
  split
  · rename_i hw; rw [eL hw]
  · rfl

/-- a unit that ends before the end of `w` (or whose terminator is not a final CR followed by LF) is used by
`SCPI_Parse` in the same way when more bytes follow -/
theorem detect_stable (w y : Bytes) (J : Nat) (hJ : NLat w J) (hq : QuotesLineLocal (w ++ y))
    (hx : w.drop (uData w).1 ≠ [13] ∨ y.head? ≠ some 10)
    (hend : (specUnit w).consumed ≤ J + 1)
    (hterm : (specUnit w).term ≠ .none ∨ (specUnit w).wellFormed = false) :
    UEq (detectUnit (w ++ y)) (detectUnit w) ∧ (detectUnit (w ++ y)).consumed = (detectUnit w).consumed := by
  have hs := specUnit_stable w y J hJ hq hx hend hterm
  obtain ⟨e0, _, eP, eW, _, eL⟩ := unit_parts_stable w y J hJ hq (unit_P2_le w J hend hterm)
  refine ⟨uEq_of_spec (by rw [hs]) (by rw [hs]) (by rw [hs]) (by rw [hs]) e0 (dataSpec_stable eP eW eL), ?_⟩
  exact (key_of_spec hs).1

/-- the exception: the terminator is a CR at the very end of `w` and a line feed follows — one byte more is
consumed, nothing else changes -/
theorem detect_crlf (w y : Bytes) (hq : QuotesLineLocal (w ++ 10 :: y)) (hr : w.drop (uData w).1 = [13]) :
    UEq (detectUnit (w ++ 10 :: y)) (detectUnit w) ∧
    (detectUnit (w ++ 10 :: y)).consumed = (detectUnit w).consumed + 1 := by
  obtain ⟨hs, _, _, hlen⟩ := specUnit_crlf w y hq hr
  have hJ : NLat w (uData w).1 := by
    right
    have := congrArg (fun l => l[0]?) hr
    simp only [List.getElem?_drop, Nat.add_zero, List.getElem?_cons_zero] at this
    exact this
  obtain ⟨e0, _, eP, eW, _, eL⟩ := unit_parts_stable w (10 :: y) _ hJ hq (Nat.le_refl _)
  refine ⟨uEq_of_spec (by rw [hs]) (by rw [hs]) (by rw [hs]) (by rw [hs]) e0 (dataSpec_stable eP eW eL), ?_⟩
  rw [(Props.C13.unit_spec _).1, (Props.C13.unit_spec w).1, hs]

end ScpiVerif.Lemmas.Chunking
