/-
Helper lemmas for Props/C11.lean and Props/C12.lean: the status-register model (Model/Regs.lean)
instantiated with the generated tables.

Structure: closed forms of `regSetLoop` for each concrete register (by `rfl`, the tables are literals),
a specification of the STB/SRE case (`setTop_STB`, `setTop_SRE`), of event / enable / condition writes
(`setEvent_spec`, `setEnab_spec`, `setCond_spec`), their union `regSet_spec`, then the composite
operations of `step`.
-/
import ScpiVerif.Model.Regs
namespace ScpiVerif.Lemmas.Regs
open ScpiVerif ScpiVerif.Regs

/-! ### bit facts -/
theorem or_and_self (x b : Reg) : (x ||| b) &&& b = b := by
  ext i hi; simp; intro h; simp [h]
theorem andn_and_self (x b : Reg) : (x &&& ~~~b) &&& b = 0 := by
  ext i hi; simp
theorem or_and_disj (x b b' : Reg) (h : b &&& b' = 0) : (x ||| b) &&& b' = x &&& b' := by
  ext i hi
  have a := congrArg (·[i]) h
  simp at a ⊢
  revert a; cases x[i] <;> cases b[i] <;> cases b'[i] <;> simp
theorem andn_and_disj (x b b' : Reg) (h : b &&& b' = 0) : (x &&& ~~~b) &&& b' = x &&& b' := by
  ext i hi
  have a := congrArg (·[i]) h
  simp at a ⊢
  revert a; cases x[i] <;> cases b[i] <;> cases b'[i] <;> simp
theorem andn_of_and_eq_zero (x b : Reg) (h : x &&& b = 0) : x &&& ~~~b = x := by
  ext i hi
  have a := congrArg (·[i]) h
  simp at a ⊢
  revert a; cases x[i] <;> cases b[i] <;> simp
theorem and_andn_or (x y : Reg) : x &&& ~~~(x ||| y) = 0 := by
  ext i hi; simp; cases x[i] <;> simp
theorem and_andn_self (x : Reg) : x &&& ~~~x = 0 := by
  ext i hi; simp
theorem xor_and_and (o v : Reg) : ((o ^^^ v) &&& v) = v &&& ~~~o := by
  ext i hi; simp; cases o[i] <;> cases v[i] <;> simp

theorem srq_tp : stbSRQ = BitVec.twoPow 16 6 := by decide
theorem or_srq_of_and_ne (x : Reg) (h : x &&& stbSRQ ≠ 0) : x ||| stbSRQ = x := by
  rw [srq_tp] at h ⊢
  rw [BitVec.and_twoPow] at h
  have h6 : x[6] = true := by
    cases hh : x[6] <;> simp [hh] at h ⊢
  ext i hi
  simp [BitVec.getElem_twoPow]
  intro h'; subst h'; exact h6

theorem ptrans_ne (old val sre m : Reg) (h0 : (old &&& m) &&& (sre &&& m) = 0)
    (h1 : (val &&& m) &&& (sre &&& m) ≠ 0) : ((old ^^^ val) &&& val) &&& val ≠ 0 := by
  intro h; apply h1; ext i hi
  have a := congrArg (·[i]) h0
  have b := congrArg (·[i]) h
  simp at a b ⊢
  revert a b; cases old[i] <;> cases val[i] <;> cases sre[i] <;> cases m[i] <;> simp
theorem ptrans_ne' (old val stb m : Reg) (h0 : (stb &&& m) &&& (old &&& m) = 0)
    (h1 : (stb &&& m) &&& (val &&& m) ≠ 0) : ((old ^^^ val) &&& val) &&& val ≠ 0 := by
  intro h; apply h1; ext i hi
  have a := congrArg (·[i]) h0
  have b := congrArg (·[i]) h
  simp at a b ⊢
  revert a b; cases old[i] <;> cases val[i] <;> cases stb[i] <;> cases m[i] <;> simp

/-! ### get / put -/
@[simp] theorem regCount_eq : regCount = 10 := rfl
@[simp] theorem STB_eq : STB = 0 := rfl
@[simp] theorem SRE_eq : SRE = 1 := rfl
@[simp] theorem ESR_eq : ESR = 2 := rfl
@[simp] theorem ESE_eq : ESE = 3 := rfl
@[simp] theorem OPER_eq : OPER = 4 := rfl
@[simp] theorem OPERE_eq : OPERE = 5 := rfl
@[simp] theorem OPERC_eq : OPERC = 6 := rfl
@[simp] theorem QUES_eq : QUES = 7 := rfl
@[simp] theorem QUESE_eq : QUESE = 8 := rfl
@[simp] theorem QUESC_eq : QUESC = 9 := rfl

@[simp] theorem put_length (s : St) (n : Nat) (v : Reg) : (put s n v).regs.length = s.regs.length := by
  simp [put]
@[simp] theorem put_qn (s : St) (n : Nat) (v : Reg) : (put s n v).qn = s.qn := rfl
@[simp] theorem put_cap (s : St) (n : Nat) (v : Reg) : (put s n v).cap = s.cap := rfl
@[simp] theorem put_srq (s : St) (n : Nat) (v : Reg) : (put s n v).srq = s.srq := rfl
@[simp] theorem put_errcb (s : St) (n : Nat) (v : Reg) : (put s n v).errcb = s.errcb := rfl

theorem get_put (s : St) (n m : Nat) (v : Reg) (L : s.regs.length = 10) (hn : n < 10) :
    get (put s n v) m = if m = n then v else get s m := by
  unfold Regs.get put
  simp only [regCount_eq]
  by_cases hm : m = n
  · subst hm; simp [hn, L]
  · have hm' : ¬ n = m := fun h => hm h.symm
    simp [hm, hm', List.getD_eq_getElem?_getD]

theorem get_ge (s : St) (m : Nat) (h : 10 ≤ m) : get s m = 0 := by
  simp [Regs.get]; omega


/-! ### the STB / SRE case -/

def fixSRQ (x sre : Reg) : Reg :=
  if (x &&& ~~~stbSRQ) &&& (sre &&& ~~~stbSRQ) ≠ 0 then x ||| stbSRQ else x &&& ~~~stbSRQ

def SrqOK (s : St) : Prop :=
  (get s 0 &&& stbSRQ ≠ 0) ↔ ((get s 0 &&& ~~~stbSRQ) &&& (get s 1 &&& ~~~stbSRQ) ≠ 0)

def SrqClause (s s' : St) : Prop :=
  (s'.srq = s.srq ∨ (s'.srq = s.srq ++ [get s' 0] ∧ get s' 0 &&& stbSRQ ≠ 0)) ∧
  (get s 0 &&& stbSRQ = 0 → get s' 0 &&& stbSRQ ≠ 0 → s'.srq = s.srq ++ [get s' 0])

def Same (s s' : St) : Prop :=
  s'.regs.length = s.regs.length ∧ s'.qn = s.qn ∧ s'.cap = s.cap ∧ s'.errcb = s.errcb

theorem Same.rfl' (s : St) : Same s s := ⟨rfl, rfl, rfl, rfl⟩
theorem Same.trans {a b c : St} (h1 : Same a b) (h2 : Same b c) : Same a c :=
  ⟨h2.1.trans h1.1, h2.2.1.trans h1.2.1, h2.2.2.1.trans h1.2.2.1, h2.2.2.2.trans h1.2.2.2⟩

theorem fixSRQ_andn (x sre : Reg) : fixSRQ x sre &&& ~~~stbSRQ = x &&& ~~~stbSRQ := by
  unfold fixSRQ; split
  · ext i hi; simp; cases x[i] <;> simp
  · ext i hi; simp
theorem fixSRQ_and (x sre b : Reg) (hb : stbSRQ &&& b = 0) : fixSRQ x sre &&& b = x &&& b := by
  unfold fixSRQ; split
  · exact or_and_disj _ _ _ hb
  · exact andn_and_disj _ _ _ hb
theorem fixSRQ_srq (x sre : Reg) :
    fixSRQ x sre &&& stbSRQ ≠ 0 ↔ (x &&& ~~~stbSRQ) &&& (sre &&& ~~~stbSRQ) ≠ 0 := by
  unfold fixSRQ; split
  · rename_i h; simp only [or_and_self]; exact ⟨fun _ => h, fun _ => by decide⟩
  · rename_i h; simp only [andn_and_self, h]; simp
theorem fixSRQ_ok (x sre : Reg) :
    fixSRQ x sre &&& stbSRQ ≠ 0 ↔ (fixSRQ x sre &&& ~~~stbSRQ) &&& (sre &&& ~~~stbSRQ) ≠ 0 := by
  rw [fixSRQ_andn]; exact fixSRQ_srq x sre
theorem fixSRQ_self (x sre : Reg)
    (h : x &&& stbSRQ ≠ 0 ↔ (x &&& ~~~stbSRQ) &&& (sre &&& ~~~stbSRQ) ≠ 0) : fixSRQ x sre = x := by
  unfold fixSRQ; split
  · rename_i c; exact or_srq_of_and_ne x (h.2 c)
  · rename_i c
    have : x &&& stbSRQ = 0 := by
      by_cases e : x &&& stbSRQ = 0
      · exact e
      · exact absurd (h.1 e) c
    exact andn_of_and_eq_zero x _ this

/-- the STB/SRE case body after the store -/
def recomp (s : St) (old val : Reg) : St :=
  let stb := get s STB &&& ~~~stbSRQ
  let sre := get s SRE &&& ~~~stbSRQ
  if stb &&& sre ≠ 0 then
    let ptrans := (old ^^^ val) &&& val
    let s := put s STB (get s STB ||| stbSRQ)
    if ptrans &&& val ≠ 0 then { s with srq := s.srq ++ [get s STB] } else s
  else put s STB (get s STB &&& ~~~stbSRQ)

def setTop (s : St) (name : Nat) (val : Reg) : St :=
  if get s name = val then s else recomp (put s name val) (get s name) val

theorem loop_STB (f : Nat) (s : St) (v : Reg) : regSetLoop (f+1) s STB v = setTop s STB v := rfl
theorem loop_SRE (f : Nat) (s : St) (v : Reg) : regSetLoop (f+1) s SRE v = setTop s SRE v := rfl

def addSrq (s : St) (v : Reg) : St := { s with srq := s.srq ++ [v] }
@[simp] theorem addSrq_get (s : St) (v : Reg) (m : Nat) : get (addSrq s v) m = get s m := rfl
@[simp] theorem addSrq_length (s : St) (v : Reg) : (addSrq s v).regs.length = s.regs.length := rfl
@[simp] theorem addSrq_qn (s : St) (v : Reg) : (addSrq s v).qn = s.qn := rfl
@[simp] theorem addSrq_cap (s : St) (v : Reg) : (addSrq s v).cap = s.cap := rfl
@[simp] theorem addSrq_errcb (s : St) (v : Reg) : (addSrq s v).errcb = s.errcb := rfl
@[simp] theorem addSrq_srq (s : St) (v : Reg) : (addSrq s v).srq = s.srq ++ [v] := rfl

theorem recomp_spec (s : St) (old val : Reg) (L : s.regs.length = 10) :
    Same s (recomp s old val) ∧
    get (recomp s old val) 0 = fixSRQ (get s 0) (get s 1) ∧
    (∀ m, m ≠ 0 → get (recomp s old val) m = get s m) ∧
    ((recomp s old val).srq = s.srq ∨
      ((recomp s old val).srq = s.srq ++ [get (recomp s old val) 0] ∧ get (recomp s old val) 0 &&& stbSRQ ≠ 0)) ∧
    ((get s 0 &&& ~~~stbSRQ) &&& (get s 1 &&& ~~~stbSRQ) ≠ 0 → ((old ^^^ val) &&& val) &&& val ≠ 0 →
      (recomp s old val).srq = s.srq ++ [get (recomp s old val) 0]) := by
  by_cases c : (get s 0 &&& ~~~stbSRQ) &&& (get s 1 &&& ~~~stbSRQ) = 0#16
  · have e : recomp s old val = put s 0 (get s 0 &&& ~~~stbSRQ) := by
      unfold recomp; exact if_neg (fun h => h c)
    rw [e]; simp [Same, fixSRQ, c, get_put, L]
    intro m hm; simp [hm]
  · by_cases p : ((old ^^^ val) &&& val) &&& val = 0#16
    · have e : recomp s old val = put s 0 (get s 0 ||| stbSRQ) := by
        unfold recomp; exact (if_pos c).trans (if_neg (fun h => h p))
      rw [e]; simp [Same, fixSRQ, c, p, get_put, L]
      intro m hm; simp [hm]
    · have e : recomp s old val =
          addSrq (put s 0 (get s 0 ||| stbSRQ)) (get (put s 0 (get s 0 ||| stbSRQ)) 0) := by
        unfold recomp; exact (if_pos c).trans (if_pos p)
      rw [e]; simp [Same, fixSRQ, c, get_put, L, or_and_self]
      refine ⟨?_, by decide⟩
      intro m hm; simp [hm]


theorem SrqClause.rfl' (s : St) : SrqClause s s :=
  ⟨Or.inl rfl, fun h1 h2 => absurd h1 h2⟩

theorem SrqClause.of_eq {s s1 s' : St} (hq : s1.srq = s.srq) (h0 : get s1 0 = get s 0)
    (h : SrqClause s1 s') : SrqClause s s' := by
  unfold SrqClause at *; rw [hq, h0] at h; exact h

theorem SrqOK.zero {s : St} (h : SrqOK s) (h0 : get s 0 &&& stbSRQ = 0) :
    (get s 0 &&& ~~~stbSRQ) &&& (get s 1 &&& ~~~stbSRQ) = 0 := by
  by_cases e : (get s 0 &&& ~~~stbSRQ) &&& (get s 1 &&& ~~~stbSRQ) = 0
  · exact e
  · exact absurd h0 (h.2 e)

theorem setTop_STB (s : St) (val : Reg) (L : s.regs.length = 10) :
    Same s (setTop s 0 val) ∧ (∀ m, m ≠ 0 → get (setTop s 0 val) m = get s m) ∧
    (SrqOK s → get (setTop s 0 val) 0 = fixSRQ val (get s 1) ∧ SrqClause s (setTop s 0 val)) := by
  unfold setTop
  by_cases e : get s 0 = val
  · rw [if_pos e]
    refine ⟨Same.rfl' s, fun _ _ => rfl, fun h => ⟨?_, SrqClause.rfl' s⟩⟩
    rw [← e]; exact (fixSRQ_self _ _ h).symm
  · rw [if_neg e]
    have L' : (put s 0 val).regs.length = 10 := by simpa using L
    obtain ⟨h1, h2, h3, h4, h5⟩ := recomp_spec (put s 0 val) (get s 0) val L'
    simp only [get_put s 0 _ val L (by decide)] at h2 h3 h4 h5
    simp at h2 h5
    refine ⟨?_, ?_, fun h => ⟨h2, h4, ?_⟩⟩
    · simpa [Same] using h1
    · intro m hm; rw [h3 m hm]; simp [hm]
    · intro a b
      rw [h2, fixSRQ_srq] at b
      exact h5 b (ptrans_ne _ _ _ _ (h.zero a) b)

theorem setTop_SRE (s : St) (val : Reg) (L : s.regs.length = 10) :
    Same s (setTop s 1 val) ∧ (∀ m, m ≠ 0 → get (setTop s 1 val) m = if m = 1 then val else get s m) ∧
    (SrqOK s → get (setTop s 1 val) 0 = fixSRQ (get s 0) val ∧ SrqClause s (setTop s 1 val)) := by
  unfold setTop
  by_cases e : get s 1 = val
  · rw [if_pos e]
    refine ⟨Same.rfl' s, fun m _ => ?_, fun h => ⟨?_, SrqClause.rfl' s⟩⟩
    · split
      · rename_i hm; rw [hm, e]
      · rfl
    · rw [← e]; exact (fixSRQ_self _ _ h).symm
  · rw [if_neg e]
    have L' : (put s 1 val).regs.length = 10 := by simpa using L
    obtain ⟨h1, h2, h3, h4, h5⟩ := recomp_spec (put s 1 val) (get s 1) val L'
    simp only [get_put s 1 _ val L (by decide)] at h2 h3 h4 h5
    simp at h2 h5
    refine ⟨?_, ?_, fun h => ⟨h2, h4, ?_⟩⟩
    · simpa [Same] using h1
    · intro m hm; rw [h3 m hm]
    · intro a b
      rw [h2, fixSRQ_srq] at b
      exact h5 b (ptrans_ne' _ _ _ _ (h.zero a) b)


/-! ### event / enable / condition registers -/

def summ (x b : Reg) (c : Prop) [Decidable c] : Reg := if c then x ||| b else x &&& ~~~b

theorem summ_self (x b : Reg) (c : Prop) [Decidable c] (hb : b ≠ 0) : summ x b c &&& b ≠ 0 ↔ c := by
  unfold summ; split
  · rename_i h; simp only [or_and_self]; exact ⟨fun _ => h, fun _ => hb⟩
  · rename_i h; simp only [andn_and_self]; exact ⟨fun a => absurd rfl a, fun a => absurd a h⟩
theorem summ_disj (x b b' : Reg) (c : Prop) [Decidable c] (h : b &&& b' = 0) : summ x b c &&& b' = x &&& b' := by
  unfold summ; split
  · exact or_and_disj _ _ _ h
  · exact andn_and_disj _ _ _ h

def setEvent (s : St) (ev en : Nat) (b val : Reg) : St :=
  if get s ev = val then s else
  let s1 := put s ev val
  setTop s1 0 (summ (get s1 0) b (val &&& get s1 en ≠ 0))
def setEnab (s : St) (ev en : Nat) (b val : Reg) : St :=
  if get s en = val then s else
  let s1 := put s en val
  setTop s1 0 (summ (get s1 0) b (get s1 ev &&& val ≠ 0))
def setCond (s : St) (c ev en : Nat) (b val : Reg) : St :=
  if get s c = val then s else
  let s1 := put s c val
  setEvent s1 ev en b ((get s c ^^^ val) &&& val ||| get s1 ev)

theorem regSet_ge (s : St) (n : Nat) (v : Reg) (h : 10 ≤ n) : regSet s n v = s := by
  unfold regSet; rw [if_pos (by simpa using h)]
theorem regSet_0 (s : St) (v : Reg) : regSet s 0 v = setTop s 0 v := rfl
theorem regSet_1 (s : St) (v : Reg) : regSet s 1 v = setTop s 1 v := rfl
theorem regSet_2 (s : St) (v : Reg) : regSet s 2 v = setEvent s 2 3 32 v := rfl
theorem regSet_3 (s : St) (v : Reg) : regSet s 3 v = setEnab s 2 3 32 v := rfl
theorem regSet_4 (s : St) (v : Reg) : regSet s 4 v = setEvent s 4 5 128 v := rfl
theorem regSet_5 (s : St) (v : Reg) : regSet s 5 v = setEnab s 4 5 128 v := rfl
theorem regSet_6 (s : St) (v : Reg) : regSet s 6 v = setCond s 6 4 5 128 v := rfl
theorem regSet_7 (s : St) (v : Reg) : regSet s 7 v = setEvent s 7 8 8 v := rfl
theorem regSet_8 (s : St) (v : Reg) : regSet s 8 v = setEnab s 7 8 8 v := rfl
theorem regSet_9 (s : St) (v : Reg) : regSet s 9 v = setCond s 9 7 8 8 v := rfl

def GrpOK (s : St) (ev en : Nat) (b : Reg) : Prop := get s 0 &&& b ≠ 0 ↔ get s ev &&& get s en ≠ 0
def Coh3 (s : St) : Prop := GrpOK s 2 3 32 ∧ GrpOK s 4 5 128 ∧ GrpOK s 7 8 8 ∧ SrqOK s
def IsGrp (ev en : Nat) (b : Reg) : Prop :=
  (ev = 2 ∧ en = 3 ∧ b = 32) ∨ (ev = 4 ∧ en = 5 ∧ b = 128) ∨ (ev = 7 ∧ en = 8 ∧ b = 8)

theorem coherent_iff (s : St) : Coherent s ↔ Coh3 s ∧ (get s 0 &&& 4 ≠ 0 ↔ s.qn ≠ 0) := by
  have e1 : bit Gen.STB_ESR = 32 := by decide
  have e2 : bit Gen.STB_OPS = 128 := by decide
  have e3 : bit Gen.STB_QES = 8 := by decide
  have e4 : bit Gen.STB_QMA = 4 := by decide
  have e5 : bit Gen.STB_SRQ = stbSRQ := rfl
  unfold Coherent Coh3 GrpOK SrqOK
  simp only [e1, e2, e3, e4, e5, STB_eq, SRE_eq, ESR_eq, ESE_eq, OPER_eq, OPERE_eq, QUES_eq, QUESE_eq]
  constructor
  · rintro ⟨a, b, c, d, e⟩; exact ⟨⟨a, b, c, e⟩, d⟩
  · rintro ⟨⟨a, b, c, e⟩, d⟩; exact ⟨a, b, c, d, e⟩

/-- after a write of `X` to the status byte on top of `s1` -/
theorem coh3_of_stb (s1 s' : St) (X : Reg)
    (h0 : get s' 0 = fixSRQ X (get s1 1)) (hm : ∀ m, m ≠ 0 → get s' m = get s1 m)
    (g1 : X &&& 32 ≠ 0 ↔ get s1 2 &&& get s1 3 ≠ 0)
    (g2 : X &&& 128 ≠ 0 ↔ get s1 4 &&& get s1 5 ≠ 0)
    (g3 : X &&& 8 ≠ 0 ↔ get s1 7 &&& get s1 8 ≠ 0) : Coh3 s' := by
  unfold Coh3 GrpOK SrqOK
  rw [h0, hm 1 (by decide), hm 2 (by decide), hm 3 (by decide), hm 4 (by decide), hm 5 (by decide),
    hm 7 (by decide), hm 8 (by decide), fixSRQ_and _ _ 32 (by decide), fixSRQ_and _ _ 128 (by decide),
    fixSRQ_and _ _ 8 (by decide)]
  exact ⟨g1, g2, g3, fixSRQ_ok _ _⟩

def Good (s s' : St) : Prop :=
  Coh3 s → Coh3 s' ∧ SrqClause s s' ∧ get s' 0 &&& 4 = get s 0 &&& 4

theorem Good.rfl' (s : St) : Good s s := fun h => ⟨h, SrqClause.rfl' s, rfl⟩

theorem setEvent_spec (s : St) (ev en : Nat) (b val : Reg) (L : s.regs.length = 10) (hg : IsGrp ev en b) :
    Same s (setEvent s ev en b val) ∧
    (∀ m, m ≠ 0 → get (setEvent s ev en b val) m = if m = ev then val else get s m) ∧
    Good s (setEvent s ev en b val) := by
  unfold setEvent
  by_cases e : get s ev = val
  · rw [if_pos e]
    refine ⟨Same.rfl' s, fun m _ => ?_, Good.rfl' s⟩
    split
    · rename_i hm; rw [hm, e]
    · rfl
  · rw [if_neg e]
    have hev : ev < 10 ∧ ev ≠ 0 ∧ ev ≠ 1 := by rcases hg with ⟨h, _, _⟩ | ⟨h, _, _⟩ | ⟨h, _, _⟩ <;> subst h <;> decide
    have L' : (put s ev val).regs.length = 10 := by simpa using L
    obtain ⟨h1, h2, h3⟩ := setTop_STB (put s ev val) (summ (get (put s ev val) 0) b (val &&& get (put s ev val) en ≠ 0)) L'
    refine ⟨by simpa [Same] using h1, ?_, ?_⟩
    · intro m hm; rw [h2 m hm, get_put s ev m val L hev.1]
    · intro hc
      have hs : SrqOK (put s ev val) := by
        have := hc.2.2.2
        unfold SrqOK at this ⊢
        rw [get_put s ev 0 val L hev.1, get_put s ev 1 val L hev.1, if_neg (Ne.symm hev.2.1), if_neg (Ne.symm hev.2.2)]
        exact this
      obtain ⟨h4, h5⟩ := h3 hs
      obtain ⟨c1, c2, c3, _⟩ := hc
      unfold GrpOK at c1 c2 c3
      refine ⟨?_, ?_, ?_⟩
      · refine coh3_of_stb _ _ _ h4 h2 ?_ ?_ ?_ <;>
          rcases hg with ⟨rfl, rfl, rfl⟩ | ⟨rfl, rfl, rfl⟩ | ⟨rfl, rfl, rfl⟩ <;>
          simp [get_put, L, summ_disj] <;>
          first | exact c1 | exact c2 | exact c3 | exact summ_self _ _ _ (by decide)
      · exact SrqClause.of_eq (s1 := put s ev val) rfl
          (by rw [get_put s ev 0 val L hev.1, if_neg (Ne.symm hev.2.1)]) h5
      · rw [h4, fixSRQ_and _ _ 4 (by decide), get_put s ev 0 val L hev.1, if_neg (Ne.symm hev.2.1)]
        rcases hg with ⟨_, _, rfl⟩ | ⟨_, _, rfl⟩ | ⟨_, _, rfl⟩ <;> exact summ_disj _ _ _ _ (by decide)


theorem setEnab_spec (s : St) (ev en : Nat) (b val : Reg) (L : s.regs.length = 10) (hg : IsGrp ev en b) :
    Same s (setEnab s ev en b val) ∧
    (∀ m, m ≠ 0 → get (setEnab s ev en b val) m = if m = en then val else get s m) ∧
    Good s (setEnab s ev en b val) := by
  unfold setEnab
  by_cases e : get s en = val
  · rw [if_pos e]
    refine ⟨Same.rfl' s, fun m _ => ?_, Good.rfl' s⟩
    split
    · rename_i hm; rw [hm, e]
    · rfl
  · rw [if_neg e]
    have hen : en < 10 ∧ en ≠ 0 ∧ en ≠ 1 := by rcases hg with ⟨_, h, _⟩ | ⟨_, h, _⟩ | ⟨_, h, _⟩ <;> subst h <;> decide
    have L' : (put s en val).regs.length = 10 := by simpa using L
    obtain ⟨h1, h2, h3⟩ := setTop_STB (put s en val) (summ (get (put s en val) 0) b (get (put s en val) ev &&& val ≠ 0)) L'
    refine ⟨by simpa [Same] using h1, ?_, ?_⟩
    · intro m hm; rw [h2 m hm, get_put s en m val L hen.1]
    · intro hc
      have hs : SrqOK (put s en val) := by
        have := hc.2.2.2
        unfold SrqOK at this ⊢
        rw [get_put s en 0 val L hen.1, get_put s en 1 val L hen.1, if_neg (Ne.symm hen.2.1), if_neg (Ne.symm hen.2.2)]
        exact this
      obtain ⟨h4, h5⟩ := h3 hs
      obtain ⟨c1, c2, c3, _⟩ := hc
      unfold GrpOK at c1 c2 c3
      refine ⟨?_, ?_, ?_⟩
      · refine coh3_of_stb _ _ _ h4 h2 ?_ ?_ ?_ <;>
          rcases hg with ⟨rfl, rfl, rfl⟩ | ⟨rfl, rfl, rfl⟩ | ⟨rfl, rfl, rfl⟩ <;>
          simp [get_put, L, summ_disj] <;>
          first | exact c1 | exact c2 | exact c3 | exact summ_self _ _ _ (by decide)
      · exact SrqClause.of_eq (s1 := put s en val) rfl
          (by rw [get_put s en 0 val L hen.1, if_neg (Ne.symm hen.2.1)]) h5
      · rw [h4, fixSRQ_and _ _ 4 (by decide), get_put s en 0 val L hen.1, if_neg (Ne.symm hen.2.1)]
        rcases hg with ⟨_, _, rfl⟩ | ⟨_, _, rfl⟩ | ⟨_, _, rfl⟩ <;> exact summ_disj _ _ _ _ (by decide)

def IsCond (c ev en : Nat) (b : Reg) : Prop :=
  (c = 6 ∧ ev = 4 ∧ en = 5 ∧ b = 128) ∨ (c = 9 ∧ ev = 7 ∧ en = 8 ∧ b = 8)

theorem setCond_spec (s : St) (c ev en : Nat) (b val : Reg) (L : s.regs.length = 10) (hg : IsCond c ev en b) :
    Same s (setCond s c ev en b val) ∧
    (∀ m, m ≠ 0 → get (setCond s c ev en b val) m =
      if m = c then val else if m = ev then get s ev ||| (val &&& ~~~get s c) else get s m) ∧
    Good s (setCond s c ev en b val) := by
  have hg' : IsGrp ev en b := by
    rcases hg with ⟨_, h⟩ | ⟨_, h⟩
    · exact Or.inr (Or.inl h)
    · exact Or.inr (Or.inr h)
  have hc : c < 10 ∧ c ≠ ev ∧ (c = 6 ∨ c = 9) := by
    rcases hg with ⟨rfl, rfl, _⟩ | ⟨rfl, rfl, _⟩ <;> decide
  unfold setCond
  by_cases e : get s c = val
  · rw [if_pos e]
    refine ⟨Same.rfl' s, fun m _ => ?_, Good.rfl' s⟩
    split
    · rename_i hm; rw [hm, e]
    · split
      · rename_i hm; rw [hm, ← e, and_andn_self]; simp
      · rfl
  · rw [if_neg e]
    have L' : (put s c val).regs.length = 10 := by simpa using L
    obtain ⟨h1, h2, h3⟩ := setEvent_spec (put s c val) ev en b
      ((get s c ^^^ val) &&& val ||| get (put s c val) ev) L' hg'
    have gp : ∀ m, m ≠ c → get (put s c val) m = get s m := by
      intro m hm; rw [get_put s c m val L hc.1, if_neg hm]
    refine ⟨by simpa [Same] using h1, ?_, ?_⟩
    · intro m hm; rw [h2 m hm]
      by_cases mev : m = ev
      · subst mev
        rw [if_pos rfl, if_neg (Ne.symm hc.2.1), if_pos rfl, gp m (Ne.symm hc.2.1), xor_and_and, BitVec.or_comm]
      · rw [if_neg mev, if_neg mev, get_put s c m val L hc.1]
    · intro hcoh
      have hcoh' : Coh3 (put s c val) := by
        unfold Coh3 GrpOK SrqOK at hcoh ⊢
        rcases hc.2.2 with rfl | rfl <;>
        · rw [gp 0 (by decide), gp 1 (by decide), gp 2 (by decide), gp 3 (by decide), gp 4 (by decide),
            gp 5 (by decide), gp 7 (by decide), gp 8 (by decide)]
          exact hcoh
      obtain ⟨a1, a2, a3⟩ := h3 hcoh'
      have g0 : get (put s c val) 0 = get s 0 := gp 0 (by rcases hc.2.2 with rfl | rfl <;> decide)
      exact ⟨a1, SrqClause.of_eq (s1 := put s c val) rfl g0 a2, by rw [a3, g0]⟩


/-! ### SCPI_RegSet, all register names -/

/-- registers other than the status byte after `regSet s n v` -/
def expect (s : St) (n : Nat) (v : Reg) (m : Nat) : Reg :=
  if m = n then v
  else if n = 6 ∧ m = 4 then get s 4 ||| (v &&& ~~~get s 6)
  else if n = 9 ∧ m = 7 then get s 7 ||| (v &&& ~~~get s 9)
  else get s m

theorem regSet_spec (s : St) (n : Nat) (v : Reg) (L : s.regs.length = 10) :
    Same s (regSet s n v) ∧
    (n < 10 → ∀ m, m ≠ 0 → get (regSet s n v) m = expect s n v m) ∧
    (n ≠ 0 → Good s (regSet s n v)) ∧
    (SrqOK s → get (regSet s 0 v) 0 = fixSRQ v (get s 1)) ∧
    (Coh3 s → SrqClause s (regSet s n v)) := by
  have hn : n = 0 ∨ n = 1 ∨ n = 2 ∨ n = 3 ∨ n = 4 ∨ n = 5 ∨ n = 6 ∨ n = 7 ∨ n = 8 ∨ n = 9 ∨ 10 ≤ n := by omega
  have h0 : SrqOK s → get (regSet s 0 v) 0 = fixSRQ v (get s 1) := fun h => ((setTop_STB s v L).2.2 h).1
  rcases hn with rfl | rfl | rfl | rfl | rfl | rfl | rfl | rfl | rfl | rfl | hn
  · obtain ⟨a, b, c⟩ := setTop_STB s v L
    refine ⟨a, fun _ m hm => ?_, fun h => absurd rfl h, h0, fun h => (c h.2.2.2).2⟩
    rw [regSet_0, b m hm]; simp [expect, hm]
  · obtain ⟨a, b, c⟩ := setTop_SRE s v L
    have g : Good s (setTop s 1 v) := by
      intro h
      obtain ⟨c1, c2⟩ := c h.2.2.2
      refine ⟨?_, c2, by rw [c1, fixSRQ_and _ _ 4 (by decide)]⟩
      refine coh3_of_stb (put s 1 v) _ (get s 0) ?_ ?_ ?_ ?_ ?_
      · rw [c1, get_put s 1 1 v L (by decide)]; rfl
      · intro m hm; rw [b m hm, get_put s 1 m v L (by decide)]
      all_goals simp [get_put, L]
      · exact h.1
      · exact h.2.1
      · exact h.2.2.1
    refine ⟨a, fun _ m hm => ?_, fun _ => g, h0, fun h => (g h).2.1⟩
    rw [regSet_1, b m hm]; simp [expect]
  · obtain ⟨a, b, c⟩ := setEvent_spec s 2 3 32 v L (Or.inl ⟨rfl, rfl, rfl⟩)
    refine ⟨a, fun _ m hm => ?_, fun _ => c, h0, fun h => (c h).2.1⟩
    rw [regSet_2, b m hm]; simp [expect]
  · obtain ⟨a, b, c⟩ := setEnab_spec s 2 3 32 v L (Or.inl ⟨rfl, rfl, rfl⟩)
    refine ⟨a, fun _ m hm => ?_, fun _ => c, h0, fun h => (c h).2.1⟩
    rw [regSet_3, b m hm]; simp [expect]
  · obtain ⟨a, b, c⟩ := setEvent_spec s 4 5 128 v L (Or.inr (Or.inl ⟨rfl, rfl, rfl⟩))
    refine ⟨a, fun _ m hm => ?_, fun _ => c, h0, fun h => (c h).2.1⟩
    rw [regSet_4, b m hm]; simp [expect]
  · obtain ⟨a, b, c⟩ := setEnab_spec s 4 5 128 v L (Or.inr (Or.inl ⟨rfl, rfl, rfl⟩))
    refine ⟨a, fun _ m hm => ?_, fun _ => c, h0, fun h => (c h).2.1⟩
    rw [regSet_5, b m hm]; simp [expect]
  · obtain ⟨a, b, c⟩ := setCond_spec s 6 4 5 128 v L (Or.inl ⟨rfl, rfl, rfl, rfl⟩)
    refine ⟨a, fun _ m hm => ?_, fun _ => c, h0, fun h => (c h).2.1⟩
    rw [regSet_6, b m hm]; simp [expect]
  · obtain ⟨a, b, c⟩ := setEvent_spec s 7 8 8 v L (Or.inr (Or.inr ⟨rfl, rfl, rfl⟩))
    refine ⟨a, fun _ m hm => ?_, fun _ => c, h0, fun h => (c h).2.1⟩
    rw [regSet_7, b m hm]; simp [expect]
  · obtain ⟨a, b, c⟩ := setEnab_spec s 7 8 8 v L (Or.inr (Or.inr ⟨rfl, rfl, rfl⟩))
    refine ⟨a, fun _ m hm => ?_, fun _ => c, h0, fun h => (c h).2.1⟩
    rw [regSet_8, b m hm]; simp [expect]
  · obtain ⟨a, b, c⟩ := setCond_spec s 9 7 8 8 v L (Or.inr ⟨rfl, rfl, rfl, rfl⟩)
    refine ⟨a, fun _ m hm => ?_, fun _ => c, h0, fun h => (c h).2.1⟩
    rw [regSet_9, b m hm]; simp [expect]
  · rw [regSet_ge s n v hn]
    exact ⟨Same.rfl' s, fun h => absurd h (by omega), fun _ => Good.rfl' s, h0, fun _ => SrqClause.rfl' s⟩


/-! ### the error-class table -/

/-- the class table in the canonical form the translator produces: maximal ranges (highest, lowest, bits) of codes by
what one SCPI_ErrorPush sets in the event status register, ascending -/
def fixedClassTable : List (Int × Int × Nat) :=
  [(-800, -899, 1), (-700, -799, 2), (-600, -699, 64), (-500, -599, 128), (-400, -499, 4),
   (-300, -399, 8), (-200, -299, 16), (-100, -199, 32), (32767, 1, 8)]

/-- one row of the class loop -/
def rowBit (code : Int) (r : Int × Int × Nat) : Reg :=
  if code ≤ r.1 ∧ code ≥ r.2.1 then BitVec.ofNat 16 r.2.2 else 0

def rowStep (code : Int) (acc : Reg) (r : Int × Int × Nat) : Reg :=
  if code ≤ r.1 ∧ code ≥ r.2.1 then acc ||| BitVec.ofNat 16 r.2.2 else acc

theorem rowStep_eq (code : Int) (acc : Reg) (r : Int × Int × Nat) :
    rowStep code acc r = acc ||| rowBit code r := by
  unfold rowStep rowBit; split <;> simp

theorem foldl_rowStep (code : Int) (tbl : List (Int × Int × Nat)) (a : Reg) :
    tbl.foldl (rowStep code) a = a ||| tbl.foldl (rowStep code) 0 := by
  induction tbl generalizing a with
  | nil => simp
  | cons r t ih =>
    simp only [List.foldl]
    rw [ih (rowStep code a r), ih (rowStep code 0 r), rowStep_eq, rowStep_eq, BitVec.or_assoc]
    simp

theorem classBits_eq (tbl : List (Int × Int × Nat)) (code : Int) :
    classBits tbl code = tbl.foldl (rowStep code) 0 := rfl

theorem classBits_nil (code : Int) : classBits [] code = 0 := rfl
theorem classBits_cons (r : Int × Int × Nat) (t : List (Int × Int × Nat)) (code : Int) :
    classBits (r :: t) code = rowBit code r ||| classBits t code := by
  rw [classBits_eq, classBits_eq, List.foldl, foldl_rowStep, rowStep_eq]; simp

theorem class_bit_fixed (code : Int) (h : -32768 ≤ code ∧ code ≤ 32767) :
    classBits fixedClassTable code = specClassBit code := by
  unfold fixedClassTable specClassBit
  simp only [classBits_cons, classBits_nil, rowBit]
  have hc : (-199 ≤ code ∧ code ≤ -100) ∨ (-299 ≤ code ∧ code ≤ -200) ∨ (-399 ≤ code ∧ code ≤ -300) ∨
      (1 ≤ code) ∨ (-499 ≤ code ∧ code ≤ -400) ∨ (-599 ≤ code ∧ code ≤ -500) ∨ (-699 ≤ code ∧ code ≤ -600) ∨
      (-799 ≤ code ∧ code ≤ -700) ∨ (-899 ≤ code ∧ code ≤ -800) ∨ (-99 ≤ code ∧ code ≤ 0) ∨ code ≤ -900 := by
    omega
  rcases hc with h1 | h1 | h1 | h1 | h1 | h1 | h1 | h1 | h1 | h1 | h1 <;>
    simp (disch := omega) only [if_pos, if_neg] <;> decide


/-! ### composite operations -/

def setQn (s : St) (q : Nat) : St := { s with qn := q }
def addCb (s : St) (c : Int) : St := { s with errcb := s.errcb ++ [c] }
@[simp] theorem setQn_get (s : St) (q m : Nat) : get (setQn s q) m = get s m := rfl
@[simp] theorem setQn_length (s : St) (q : Nat) : (setQn s q).regs.length = s.regs.length := rfl
@[simp] theorem setQn_qn (s : St) (q : Nat) : (setQn s q).qn = q := rfl
@[simp] theorem setQn_cap (s : St) (q : Nat) : (setQn s q).cap = s.cap := rfl
@[simp] theorem setQn_srq (s : St) (q : Nat) : (setQn s q).srq = s.srq := rfl
@[simp] theorem addCb_get (s : St) (c : Int) (m : Nat) : get (addCb s c) m = get s m := rfl
@[simp] theorem addCb_length (s : St) (c : Int) : (addCb s c).regs.length = s.regs.length := rfl
@[simp] theorem addCb_qn (s : St) (c : Int) : (addCb s c).qn = s.qn := rfl
@[simp] theorem addCb_cap (s : St) (c : Int) : (addCb s c).cap = s.cap := rfl
@[simp] theorem addCb_srq (s : St) (c : Int) : (addCb s c).srq = s.srq := rfl

def pushStep (code : Int) (s : St) (r : Int × Int × Nat) : St :=
  if code ≤ r.1 ∧ code ≥ r.2.1 then regSetBits s ESR (BitVec.ofNat 16 r.2.2) else s

theorem emit_eq (s : St) (c : Int) : emit s c = addCb (regSet s 0 (get s 0 ||| 4)) c := rfl
theorem emitEmpty_eq (s : St) : emitEmpty s =
    if s.qn = 0 ∧ get s 0 &&& 4 ≠ 0 then addCb (regSet s 0 (get s 0 &&& ~~~4)) 0 else s := rfl
theorem errPop_eq (s : St) : errPop s = emitEmpty (setQn s (s.qn - 1)) := rfl
theorem errClear_eq (s : St) : errClear s = emitEmpty (setQn s 0) := rfl
theorem cls_eq (s : St) : cls s = regSet (regSet (regSet (errClear s) 2 0) 4 0) 7 0 := by
  have r : List.range Gen.SCPI_REG_GROUP_COUNT.toNat = [0, 1, 2, 3] := by decide
  have g0 : (groupOf 0).event = 0 := by decide
  have g1 : (groupOf 1).event = 2 := by decide
  have g2 : (groupOf 2).event = 4 := by decide
  have g3 : (groupOf 3).event = 7 := by decide
  unfold cls
  simp only [r, List.foldl, g0, g1, g2, g3, STB_eq]
  simp
theorem errPush_ov (s : St) (code : Int) (h : s.cap ≤ s.qn) :
    errPush s code = emit (emit (Gen.errClassTable.foldl (pushStep code) s) code) (-350) := by
  unfold errPush
  simp only [ge_iff_le, h, decide_true, if_true]
  rfl
theorem errPush_nov (s : St) (code : Int) (h : ¬ s.cap ≤ s.qn) :
    errPush s code = emit (Gen.errClassTable.foldl (pushStep code) (setQn s (s.qn + 1))) code := by
  unfold errPush
  simp only [ge_iff_le, h, decide_false]
  rfl

/-! ### service-request relation across several register writes -/

def SrqRel (s s' : St) : Prop :=
  ∃ new, s'.srq = s.srq ++ new ∧ (∀ v ∈ new, v &&& stbSRQ ≠ 0) ∧
    (get s 0 &&& stbSRQ = 0 → get s' 0 &&& stbSRQ ≠ 0 → new ≠ [])

theorem SrqRel.rfl' (s : St) : SrqRel s s :=
  ⟨[], by simp, by simp, fun a b => absurd a b⟩

theorem SrqRel.trans {a b c : St} (h1 : SrqRel a b) (h2 : SrqRel b c) : SrqRel a c := by
  obtain ⟨n1, e1, p1, q1⟩ := h1
  obtain ⟨n2, e2, p2, q2⟩ := h2
  refine ⟨n1 ++ n2, by rw [e2, e1, List.append_assoc], ?_, ?_⟩
  · intro v hv
    rcases List.mem_append.1 hv with h | h
    · exact p1 v h
    · exact p2 v h
  · intro ha hc h
    have h' := List.append_eq_nil_iff.1 h
    by_cases hb : get b 0 &&& stbSRQ = 0
    · exact q2 hb hc h'.2
    · exact q1 ha hb h'.1

theorem SrqClause.rel {s s' : St} (h : SrqClause s s') : SrqRel s s' := by
  obtain ⟨h1, h2⟩ := h
  rcases h1 with e | ⟨e, m⟩
  · refine ⟨[], by simpa using e, by simp, fun a b => ?_⟩
    have := h2 a b
    rw [e] at this
    simp at this
  · exact ⟨[get s' 0], e, by simpa using m, fun _ _ => by simp⟩

theorem SrqRel.of_eq {s s' t t' : St} (hq : t.srq = s.srq) (h0 : get t 0 = get s 0)
    (hq' : t'.srq = s'.srq) (h0' : get t' 0 = get s' 0) (h : SrqRel t t') : SrqRel s s' := by
  unfold SrqRel at *; rw [hq, h0, hq', h0'] at h; exact h

theorem Coh3.congr {s t : St} (h : ∀ m, get t m = get s m) : Coh3 t ↔ Coh3 s := by
  unfold Coh3 GrpOK SrqOK; simp only [h]

/-- a register write followed by nothing else: what every later proof needs -/
structure Tr (s s' : St) : Prop where
  len : s'.regs.length = s.regs.length
  cap : s'.cap = s.cap
  coh : Coh3 s → Coh3 s' ∧ SrqRel s s'

theorem Tr.rfl' (s : St) : Tr s s := ⟨rfl, rfl, fun h => ⟨h, SrqRel.rfl' s⟩⟩
theorem Tr.trans {a b c : St} (h1 : Tr a b) (h2 : Tr b c) : Tr a c :=
  ⟨h2.len.trans h1.len, h2.cap.trans h1.cap, fun h =>
    ⟨(h2.coh (h1.coh h).1).1, (h1.coh h).2.trans (h2.coh (h1.coh h).1).2⟩⟩

theorem Tr.setQn (s : St) (q : Nat) : Tr s (setQn s q) :=
  ⟨rfl, rfl, fun h => ⟨h, SrqRel.rfl' s⟩⟩
theorem Tr.addCb (s : St) (c : Int) : Tr s (addCb s c) :=
  ⟨rfl, rfl, fun h => ⟨h, SrqRel.rfl' s⟩⟩

theorem Tr.regSet (s : St) (n : Nat) (v : Reg) (L : s.regs.length = 10) (hn : n ≠ 0) :
    Tr s (regSet s n v) := by
  obtain ⟨a, _, c, _, _⟩ := regSet_spec s n v L
  exact ⟨a.1, a.2.2.1, fun h => ⟨(c hn h).1, (c hn h).2.1.rel⟩⟩

/-- writes of the queue bit into the status byte -/
theorem setQMA_spec (s : St) (L : s.regs.length = 10) :
    Same s (regSet s 0 (get s 0 ||| 4)) ∧ (∀ m, m ≠ 0 → get (regSet s 0 (get s 0 ||| 4)) m = get s m) ∧
    (Coh3 s → Coh3 (regSet s 0 (get s 0 ||| 4)) ∧ SrqRel s (regSet s 0 (get s 0 ||| 4)) ∧
      get (regSet s 0 (get s 0 ||| 4)) 0 &&& 4 ≠ 0) := by
  obtain ⟨a, b, c⟩ := setTop_STB s (get s 0 ||| 4) L
  rw [regSet_0]
  refine ⟨a, b, fun h => ?_⟩
  obtain ⟨c1, c2⟩ := c h.2.2.2
  refine ⟨coh3_of_stb s _ _ c1 b ?_ ?_ ?_, c2.rel, ?_⟩
  · rw [or_and_disj _ _ _ (by decide)]; exact h.1
  · rw [or_and_disj _ _ _ (by decide)]; exact h.2.1
  · rw [or_and_disj _ _ _ (by decide)]; exact h.2.2.1
  · rw [c1, fixSRQ_and _ _ 4 (by decide), or_and_self]; decide

theorem clearQMA_spec (s : St) (L : s.regs.length = 10) :
    Same s (regSet s 0 (get s 0 &&& ~~~4)) ∧ (∀ m, m ≠ 0 → get (regSet s 0 (get s 0 &&& ~~~4)) m = get s m) ∧
    (Coh3 s → Coh3 (regSet s 0 (get s 0 &&& ~~~4)) ∧ SrqRel s (regSet s 0 (get s 0 &&& ~~~4)) ∧
      get (regSet s 0 (get s 0 &&& ~~~4)) 0 &&& 4 = 0) := by
  obtain ⟨a, b, c⟩ := setTop_STB s (get s 0 &&& ~~~4) L
  rw [regSet_0]
  refine ⟨a, b, fun h => ?_⟩
  obtain ⟨c1, c2⟩ := c h.2.2.2
  refine ⟨coh3_of_stb s _ _ c1 b ?_ ?_ ?_, c2.rel, ?_⟩
  · rw [andn_and_disj _ _ _ (by decide)]; exact h.1
  · rw [andn_and_disj _ _ _ (by decide)]; exact h.2.1
  · rw [andn_and_disj _ _ _ (by decide)]; exact h.2.2.1
  · rw [c1, fixSRQ_and _ _ 4 (by decide), andn_and_self]


theorem emit_spec (s : St) (c : Int) (L : s.regs.length = 10) :
    Tr s (emit s c) ∧ (emit s c).qn = s.qn ∧ (∀ m, m ≠ 0 → get (emit s c) m = get s m) ∧
    (Coh3 s → get (emit s c) 0 &&& 4 ≠ 0) := by
  obtain ⟨a, b, d⟩ := setQMA_spec s L
  rw [emit_eq]
  exact ⟨⟨a.1, a.2.2.1, fun h => ⟨(d h).1, (d h).2.1⟩⟩, a.2.1, b, fun h => (d h).2.2⟩

theorem emitEmpty_spec (s : St) (L : s.regs.length = 10) :
    Tr s (emitEmpty s) ∧ (emitEmpty s).qn = s.qn ∧ (∀ m, m ≠ 0 → get (emitEmpty s) m = get s m) ∧
    (Coh3 s → (s.qn ≠ 0 → get s 0 &&& 4 ≠ 0) → (get (emitEmpty s) 0 &&& 4 ≠ 0 ↔ s.qn ≠ 0)) := by
  rw [emitEmpty_eq]
  by_cases e : s.qn = 0 ∧ get s 0 &&& 4 ≠ 0
  · rw [if_pos e]
    obtain ⟨a, b, d⟩ := clearQMA_spec s L
    refine ⟨⟨a.1, a.2.2.1, fun h => ⟨(d h).1, (d h).2.1⟩⟩, a.2.1, b, fun h _ => ?_⟩
    have : get (addCb (regSet s 0 (get s 0 &&& ~~~4)) 0) 0 &&& 4 = 0 := (d h).2.2
    rw [this]
    exact ⟨fun x => absurd rfl x, fun x => absurd e.1 x⟩
  · rw [if_neg e]
    refine ⟨Tr.rfl' s, rfl, fun _ _ => rfl, fun _ hq => ⟨fun x y => e ⟨y, x⟩, hq⟩⟩

theorem pushStep_spec (code : Int) (r : Int × Int × Nat) (s : St) (L : s.regs.length = 10) :
    Tr s (pushStep code s r) ∧ (pushStep code s r).qn = s.qn ∧
    (∀ m, m ≠ 0 → m ≠ 2 → get (pushStep code s r) m = get s m) ∧
    get (pushStep code s r) 2 = rowStep code (get s 2) r ∧
    (Coh3 s → get (pushStep code s r) 0 &&& 4 = get s 0 &&& 4) := by
  unfold pushStep rowStep
  split
  · obtain ⟨a, b, c, _, _⟩ := regSet_spec s 2 (get s 2 ||| BitVec.ofNat 16 r.2.2) L
    have b' := b (by decide)
    refine ⟨Tr.regSet s 2 _ L (by decide), a.2.1, fun m h0 h2 => ?_, ?_, fun h => (c (by decide) h).2.2⟩
    · exact (b' m h0).trans (by simp [expect, h2])
    · exact (b' 2 (by decide)).trans (by simp [expect])
  · exact ⟨Tr.rfl' s, rfl, fun _ _ _ => rfl, rfl, fun _ => rfl⟩

theorem pushBits_spec (code : Int) (tbl : List (Int × Int × Nat)) (s : St) (L : s.regs.length = 10) :
    Tr s (tbl.foldl (pushStep code) s) ∧ (tbl.foldl (pushStep code) s).qn = s.qn ∧
    (∀ m, m ≠ 0 → m ≠ 2 → get (tbl.foldl (pushStep code) s) m = get s m) ∧
    get (tbl.foldl (pushStep code) s) 2 = tbl.foldl (rowStep code) (get s 2) ∧
    (Coh3 s → get (tbl.foldl (pushStep code) s) 0 &&& 4 = get s 0 &&& 4) := by
  induction tbl generalizing s with
  | nil => exact ⟨Tr.rfl' s, rfl, fun _ _ _ => rfl, rfl, fun _ => rfl⟩
  | cons r t ih =>
    obtain ⟨a1, a2, a3, a4, a5⟩ := pushStep_spec code r s L
    obtain ⟨b1, b2, b3, b4, b5⟩ := ih (pushStep code s r) (a1.len.trans L)
    simp only [List.foldl]
    refine ⟨a1.trans b1, b2.trans a2, fun m h0 h2 => (b3 m h0 h2).trans (a3 m h0 h2), ?_, fun h => ?_⟩
    · rw [b4, a4]
    · rw [b5 (a1.coh h).1, a5 h]


theorem errPush_spec (s : St) (code : Int) (L : s.regs.length = 10) :
    Tr s (errPush s code) ∧ (errPush s code).qn = (if s.cap ≤ s.qn then s.qn else s.qn + 1) ∧
    (∀ m, m ≠ 0 → m ≠ 2 → get (errPush s code) m = get s m) ∧
    get (errPush s code) 2 = Gen.errClassTable.foldl (rowStep code) (get s 2) ∧
    (Coh3 s → get (errPush s code) 0 &&& 4 ≠ 0) := by
  by_cases h : s.cap ≤ s.qn
  · rw [errPush_ov s code h, if_pos h]
    obtain ⟨a1, a2, a3, a4, _⟩ := pushBits_spec code Gen.errClassTable s L
    obtain ⟨b1, b2, b3, _⟩ := emit_spec _ code (a1.len.trans L)
    obtain ⟨c1, c2, c3, c4⟩ := emit_spec _ (-350) (b1.len.trans (a1.len.trans L))
    refine ⟨(a1.trans b1).trans c1, c2.trans (b2.trans a2), fun m h0 h2 => ?_, ?_,
      fun hc => c4 (b1.coh (a1.coh hc).1).1⟩
    · rw [c3 m h0, b3 m h0, a3 m h0 h2]
    · rw [c3 2 (by decide), b3 2 (by decide), a4]
  · rw [errPush_nov s code h, if_neg h]
    obtain ⟨a1, a2, a3, a4, _⟩ := pushBits_spec code Gen.errClassTable (setQn s (s.qn + 1)) L
    obtain ⟨b1, b2, b3, b4⟩ := emit_spec _ code (a1.len.trans L)
    refine ⟨((Tr.setQn s _).trans a1).trans b1, b2.trans a2, fun m h0 h2 => ?_, ?_,
      fun hc => b4 (a1.coh hc).1⟩
    · rw [b3 m h0, a3 m h0 h2]; rfl
    · rw [b3 2 (by decide), a4]; rfl

/-! ### the lemmas used by Props/C11.lean -/

theorem wf_init (cap : Nat) (h : 1 ≤ cap) : WF (St.init cap) :=
  ⟨by simp [St.init], h, Nat.zero_le _⟩

theorem step_tr (s : St) (op : Op) (L : s.regs.length = 10) (hop : op.ok = true) : Tr s (step s op) := by
  cases op with
  | set n v => exact Tr.regSet s n v L (by simpa [Op.ok] using hop)
  | setBits n v => exact Tr.regSet s n _ L (by simpa [Op.ok] using hop)
  | clearBits n v => exact Tr.regSet s n _ L (by simpa [Op.ok] using hop)
  | errPush c => exact (errPush_spec s c L).1
  | errPop => exact (Tr.setQn s _).trans (emitEmpty_spec (setQn s (s.qn - 1)) L).1
  | errClear => exact (Tr.setQn s _).trans (emitEmpty_spec (setQn s 0) L).1
  | cls =>
    show Tr s (cls s)
    rw [cls_eq]
    have t0 : Tr s (errClear s) := (Tr.setQn s _).trans (emitEmpty_spec (setQn s 0) L).1
    have t1 := Tr.regSet (errClear s) 2 0 (t0.len.trans L) (by decide)
    have t2 := Tr.regSet _ 4 0 (t1.len.trans (t0.len.trans L)) (by decide)
    have t3 := Tr.regSet _ 7 0 (t2.len.trans (t1.len.trans (t0.len.trans L))) (by decide)
    exact ((t0.trans t1).trans t2).trans t3
  | esrQ => exact Tr.regSet s 2 0 L (by decide)
  | operQ => exact Tr.regSet s 4 0 L (by decide)
  | quesQ => exact Tr.regSet s 7 0 L (by decide)
  | preset => exact Tr.regSet s 7 0 L (by decide)


theorem wfLen {s : St} (h : WF s) : s.regs.length = 10 := h.1

theorem wf_of_same {s s' : St} (h : WF s) (hs : Same s s') : WF s' :=
  ⟨hs.1.trans h.1, hs.2.2.1 ▸ h.2.1, by rw [hs.2.1, hs.2.2.1]; exact h.2.2⟩

theorem wf_regSet (s : St) (n : Nat) (v : Reg) (h : WF s) : WF (regSet s n v) :=
  wf_of_same h (regSet_spec s n v (wfLen h)).1

theorem wf_emitEmpty (s : St) (h : WF s) : WF (emitEmpty s) := by
  obtain ⟨a, b, _⟩ := emitEmpty_spec s (wfLen h)
  exact ⟨a.len.trans h.1, a.cap ▸ h.2.1, by rw [a.cap, b]; exact h.2.2⟩

theorem wf_step (s : St) (op : Op) (h : WF s) : WF (step s op) := by
  cases op with
  | set n v => exact wf_regSet s n v h
  | setBits n v => exact wf_regSet s n _ h
  | clearBits n v => exact wf_regSet s n _ h
  | errPush c =>
    obtain ⟨a, b, _⟩ := errPush_spec s c (wfLen h)
    refine ⟨a.len.trans h.1, a.cap ▸ h.2.1, ?_⟩
    show (errPush s c).qn ≤ (errPush s c).cap
    rw [a.cap, b]
    have := h.2.2
    split <;> omega
  | errPop => exact wf_emitEmpty _ ⟨h.1, h.2.1, Nat.le_trans (Nat.sub_le _ _) h.2.2⟩
  | errClear => exact wf_emitEmpty _ ⟨h.1, h.2.1, Nat.zero_le _⟩
  | cls =>
    show WF (cls s)
    rw [cls_eq]
    exact wf_regSet _ _ _ (wf_regSet _ _ _ (wf_regSet _ _ _ (wf_emitEmpty _ ⟨h.1, h.2.1, Nat.zero_le _⟩)))
  | esrQ => exact wf_regSet s 2 0 h
  | operQ => exact wf_regSet s 4 0 h
  | quesQ => exact wf_regSet s 7 0 h
  | preset => exact wf_regSet s 7 0 h

theorem coherent_init (cap : Nat) : Coherent (St.init cap) := by
  have e0 : ∀ (k m : Nat), (List.replicate k (0 : Reg)).getD m 0 = 0 := by
    intro k m
    simp only [List.getD_eq_getElem?_getD, List.getElem?_replicate]
    split <;> rfl
  have e : ∀ m, get (St.init cap) m = 0 := by
    intro m
    unfold Regs.get St.init
    split
    · exact e0 _ _
    · rfl
  rw [coherent_iff]
  unfold Coh3 GrpOK SrqOK
  simp only [e]
  refine ⟨⟨by decide, by decide, by decide, by decide⟩, ?_⟩
  show ((0 : Reg) &&& 4 ≠ 0 ↔ (0 : Nat) ≠ 0)
  decide

theorem coherent_regSet (s : St) (n : Nat) (v : Reg) (L : s.regs.length = 10) (hn : n ≠ 0)
    (hc : Coherent s) : Coherent (regSet s n v) := by
  rw [coherent_iff] at hc ⊢
  obtain ⟨a, _, c, _, _⟩ := regSet_spec s n v L
  obtain ⟨c1, _, c3⟩ := c hn hc.1
  exact ⟨c1, by rw [c3, a.2.1]; exact hc.2⟩

theorem coherent_emitEmpty (s : St) (L : s.regs.length = 10) (h3 : Coh3 s)
    (hq : s.qn ≠ 0 → get s 0 &&& 4 ≠ 0) : Coherent (emitEmpty s) := by
  rw [coherent_iff]
  obtain ⟨a, b, _, d⟩ := emitEmpty_spec s L
  exact ⟨(a.coh h3).1, by rw [b]; exact d h3 hq⟩

theorem coherent_step (s : St) (op : Op) (hwf : WF s) (hc : Coherent s) (hop : op.ok = true) :
    Coherent (step s op) := by
  have L := wfLen hwf
  cases op with
  | set n v => exact coherent_regSet s n v L (by simpa [Op.ok] using hop) hc
  | setBits n v => exact coherent_regSet s n _ L (by simpa [Op.ok] using hop) hc
  | clearBits n v => exact coherent_regSet s n _ L (by simpa [Op.ok] using hop) hc
  | errPush c =>
    show Coherent (errPush s c)
    rw [coherent_iff] at hc ⊢
    obtain ⟨a, b, _, _, d⟩ := errPush_spec s c L
    refine ⟨(a.coh hc.1).1, fun _ => ?_, fun _ => d hc.1⟩
    rw [b]
    have := hwf.2.1
    split <;> omega
  | errPop =>
    have h := (coherent_iff s).1 hc
    exact coherent_emitEmpty _ L h.1 (fun (hq : s.qn - 1 ≠ 0) => h.2.2 (by omega))
  | errClear =>
    have h := (coherent_iff s).1 hc
    exact coherent_emitEmpty _ L h.1 (fun (hq : 0 ≠ 0) => absurd rfl hq)
  | cls =>
    show Coherent (cls s)
    rw [cls_eq]
    have h := (coherent_iff s).1 hc
    have w0 : WF (errClear s) := wf_emitEmpty _ ⟨hwf.1, hwf.2.1, Nat.zero_le _⟩
    have c0 : Coherent (errClear s) :=
      coherent_emitEmpty _ L h.1 (fun (hq : 0 ≠ 0) => absurd rfl hq)
    have w1 := wf_regSet _ 2 0 w0
    have c1 := coherent_regSet _ 2 0 (wfLen w0) (by decide) c0
    have w2 := wf_regSet _ 4 0 w1
    have c2 := coherent_regSet _ 4 0 (wfLen w1) (by decide) c1
    exact coherent_regSet _ 7 0 (wfLen w2) (by decide) c2
  | esrQ => exact coherent_regSet s 2 0 L (by decide) hc
  | operQ => exact coherent_regSet s 4 0 L (by decide) hc
  | quesQ => exact coherent_regSet s 7 0 L (by decide) hc
  | preset => exact coherent_regSet s 7 0 L (by decide) hc


/-! ### the lemmas used by Props/C12.lean -/

/-- the table regenerated from the behaviour of SCPI_ErrorPush on all 65536 codes is the expected one -/
theorem errClassTable_fixed : Gen.errClassTable = fixedClassTable := by decide

theorem class_bit (code : Int) (h : -32768 ≤ code ∧ code ≤ 32767) :
    classBits Gen.errClassTable code = specClassBit code := by
  rw [errClassTable_fixed]; exact class_bit_fixed code h

/-- holds for any table: the push ORs exactly the class bits of the table into ESR -/
theorem push_sets_table_bits (s : St) (code : Int) (hwf : WF s) :
    get (errPush s code) ESR = get s ESR ||| classBits Gen.errClassTable code := by
  obtain ⟨_, _, _, a, _⟩ := errPush_spec s code (wfLen hwf)
  show get (errPush s code) 2 = get s 2 ||| _
  rw [a, foldl_rowStep, classBits_eq]

theorem push_sets_class_bit (s : St) (code : Int) (hwf : WF s) (h : -32768 ≤ code ∧ code ≤ 32767) :
    get (errPush s code) ESR = get s ESR ||| specClassBit code := by
  rw [push_sets_table_bits s code hwf, class_bit code h]

theorem cond_latches_oper (s : St) (v : Reg) (hwf : WF s) :
    get (regSet s OPERC v) OPER = get s OPER ||| (v &&& ~~~(get s OPERC)) ∧ get (regSet s OPERC v) OPERC = v := by
  obtain ⟨_, b, _⟩ := regSet_spec s 6 v (wfLen hwf)
  exact ⟨(b (by decide) 4 (by decide)).trans (by simp [expect]),
    (b (by decide) 6 (by decide)).trans (by simp [expect])⟩

theorem cond_latches_ques (s : St) (v : Reg) (hwf : WF s) :
    get (regSet s QUESC v) QUES = get s QUES ||| (v &&& ~~~(get s QUESC)) ∧ get (regSet s QUESC v) QUESC = v := by
  obtain ⟨_, b, _⟩ := regSet_spec s 9 v (wfLen hwf)
  exact ⟨(b (by decide) 7 (by decide)).trans (by simp [expect]),
    (b (by decide) 9 (by decide)).trans (by simp [expect])⟩

theorem mss_false (s : St) : mss s = false ↔ get s 0 &&& stbSRQ = 0 := by
  unfold mss; rw [decide_eq_false_iff_not]; exact Decidable.not_not
theorem mss_true (s : St) : mss s = true ↔ get s 0 &&& stbSRQ ≠ 0 := by
  unfold mss; rw [decide_eq_true_iff]; exact Iff.rfl

theorem srq_regset (s : St) (name : Nat) (v : Reg) (hwf : WF s) (hc : Coherent s) :
    let s' := regSet s name v
    (s'.srq = s.srq ∨ (s'.srq = s.srq ++ [get s' STB] ∧ mss s' = true)) ∧
    (mss s = false → mss s' = true → s'.srq = s.srq ++ [get s' STB]) := by
  intro s'
  obtain ⟨_, _, _, _, e⟩ := regSet_spec s name v (wfLen hwf)
  have h := e ((coherent_iff s).1 hc).1
  unfold SrqClause at h
  rw [mss_false, mss_true]
  exact h

theorem srq_step (s : St) (op : Op) (hwf : WF s) (hc : Coherent s) (hop : op.ok = true) :
    ∃ new, (step s op).srq = s.srq ++ new ∧ (∀ v ∈ new, v &&& stbSRQ ≠ 0) ∧
      (mss s = false → mss (step s op) = true → new ≠ []) := by
  have h := ((step_tr s op (wfLen hwf) hop).coh ((coherent_iff s).1 hc).1).2
  unfold SrqRel at h
  simp only [mss_false, mss_true]
  exact h


/-- operations defined to clear (bits of) event register `ev` (same as `Props.C12.clears`) -/
def clears (ev : Nat) : Op → Bool
  | .set n _ => n == ev
  | .clearBits n _ => n == ev
  | .cls => true
  | .esrQ => ev == ESR
  | .operQ => ev == OPER
  | .quesQ => ev == QUES
  | .preset => ev == QUES
  | _ => false

theorem mono_regSet (s : St) (n : Nat) (v : Reg) (ev : Nat) (L : s.regs.length = 10)
    (hev : ev = 2 ∨ ev = 4 ∨ ev = 7) (hne : n ≠ ev ∨ get s ev &&& ~~~v = 0) :
    get s ev &&& ~~~get (regSet s n v) ev = 0 := by
  by_cases hn : n < 10
  · obtain ⟨_, b, _⟩ := regSet_spec s n v L
    have ev0 : ev ≠ 0 := by rcases hev with rfl | rfl | rfl <;> decide
    rw [b hn ev ev0]
    unfold expect
    split
    · rename_i h
      rcases hne with h' | h'
      · exact absurd h.symm h'
      · exact h'
    · split
      · rename_i h; rw [h.2]; exact and_andn_or _ _
      · split
        · rename_i h; rw [h.2]; exact and_andn_or _ _
        · exact and_andn_self _
  · rw [regSet_ge s n v (by omega)]; exact and_andn_self _

theorem event_monotone (s : St) (op : Op) (ev : Nat) (hev : ev = ESR ∨ ev = OPER ∨ ev = QUES)
    (hwf : WF s) (hop : op.ok = true) (hnc : clears ev op = false) :
    get s ev &&& ~~~(get (step s op) ev) = 0 := by
  have L := wfLen hwf
  have hev' : ev = 2 ∨ ev = 4 ∨ ev = 7 := hev
  have ev0 : ev ≠ 0 := by rcases hev' with rfl | rfl | rfl <;> decide
  cases op with
  | set n v => exact mono_regSet s n v ev L hev' (Or.inl (by simpa [clears] using hnc))
  | setBits n v =>
    show get s ev &&& ~~~get (regSet s n (get s n ||| v)) ev = 0
    by_cases h : n = ev
    · subst h; exact mono_regSet s n _ n L hev' (Or.inr (and_andn_or _ _))
    · exact mono_regSet s n _ ev L hev' (Or.inl h)
  | clearBits n v => exact mono_regSet s n _ ev L hev' (Or.inl (by simpa [clears] using hnc))
  | errPush c =>
    show get s ev &&& ~~~get (errPush s c) ev = 0
    obtain ⟨_, _, a, b, _⟩ := errPush_spec s c L
    by_cases h : ev = 2
    · subst h; rw [b, foldl_rowStep]; exact and_andn_or _ _
    · rw [a ev ev0 h]; exact and_andn_self _
  | errPop =>
    show get s ev &&& ~~~get (emitEmpty (setQn s (s.qn - 1))) ev = 0
    rw [(emitEmpty_spec (setQn s (s.qn - 1)) L).2.2.1 ev ev0]; exact and_andn_self _
  | errClear =>
    show get s ev &&& ~~~get (emitEmpty (setQn s 0)) ev = 0
    rw [(emitEmpty_spec (setQn s 0) L).2.2.1 ev ev0]; exact and_andn_self _
  | cls => simp [clears] at hnc
  | esrQ => exact mono_regSet s 2 0 ev L hev' (Or.inl (fun h => by subst h; simp [clears] at hnc))
  | operQ => exact mono_regSet s 4 0 ev L hev' (Or.inl (fun h => by subst h; simp [clears] at hnc))
  | quesQ => exact mono_regSet s 7 0 ev L hev' (Or.inl (fun h => by subst h; simp [clears] at hnc))
  | preset => exact mono_regSet s 7 0 ev L hev' (Or.inl (fun h => by subst h; simp [clears] at hnc))

end ScpiVerif.Lemmas.Regs
