/-
Helper lemmas for Props/C09.lean (isolation of messages and units): a two-run simulation of the
context-level model.  Two contexts that agree on what is meant to persist (tables, registers, the
abstract error queue, the pending input up to a NUL) make the same observations and stay related.

Parts: (1) buffers that agree up to a NUL; (2) the C-library number readers, (3) the pattern matcher
and (4) the status/queue side of an error push on such buffers / states; (5) the simulation itself.
-/
import ScpiVerif.Spec.Isolation
import ScpiVerif.Lemmas.Fifo
import ScpiVerif.Lemmas.Bounds

set_option linter.unusedSimpArgs false

/-! # part 1: buffers that agree up to a NUL -/

/-
Helper vocabulary for C09 (isolation): two byte buffers that agree up to and including an index
holding a NUL.  Everything the parser reads lies before that NUL or is a scan that stops at it.
-/

namespace ScpiVerif.Lemmas.Isolation
open ScpiVerif ScpiVerif.Lexer

/-- same length, same bytes at every index `≤ P`, and a NUL at index `P` -/
structure Agree (P : Nat) (b1 b2 : Bytes) : Prop where
  len : b1.length = b2.length
  eq : ∀ i, i ≤ P → b1.getD i 0 = b2.getD i 0
  nul : b1.getD P 0 = 0

theorem Agree.nul2 {P : Nat} {b1 b2 : Bytes} (h : Agree P b1 b2) : b2.getD P 0 = 0 := by
  rw [← h.eq P (Nat.le_refl _)]; exact h.nul

theorem Agree.symm {P : Nat} {b1 b2 : Bytes} (h : Agree P b1 b2) : Agree P b2 b1 :=
  ⟨h.len.symm, fun i hi => (h.eq i hi).symm, h.nul2⟩

theorem Agree.refl' {P : Nat} {b : Bytes} (h : b.getD P 0 = 0) : Agree P b b := ⟨rfl, fun _ _ => rfl, h⟩

theorem Agree.prd {P : Nat} {b1 b2 : Bytes} (h : Agree P b1 b2) {i : Nat} (hi : i ≤ P) :
    Prim.rd b1 i = Prim.rd b2 i := h.eq i hi

theorem Agree.mrd {P : Nat} {b1 b2 : Bytes} (h : Agree P b1 b2) {i : Nat} (hi : i ≤ P) :
    Match.rd b1 i = Match.rd b2 i := h.eq i hi

/-- a non-NUL byte at an index `≤ P` is strictly before `P` -/
theorem Agree.lt_of_ne {P : Nat} {b1 b2 : Bytes} (h : Agree P b1 b2) {i : Nat} (hi : i ≤ P)
    (hne : b1.getD i 0 ≠ 0) : i < P := by
  rcases Nat.lt_or_ge i P with h1 | h1
  · exact h1
  · have : i = P := by omega
    subst this; exact absurd h.nul hne

theorem getD_drop (b : Bytes) (off i : Nat) : (b.drop off).getD i 0 = b.getD (off + i) 0 := by
  simp [List.getD_eq_getElem?_getD, List.getElem?_drop]

/-- the tail from `off` agrees up to the (shifted) NUL -/
theorem Agree.drop {P : Nat} {b1 b2 : Bytes} (h : Agree P b1 b2) (off : Nat) (ho : off ≤ P) :
    Agree (P - off) (b1.drop off) (b2.drop off) := by
  refine ⟨?_, ?_, ?_⟩
  · simp [h.len]
  · intro i hi
    rw [getD_drop, getD_drop]; exact h.eq _ (by omega)
  · rw [getD_drop]
    have : off + (P - off) = P := by omega
    rw [this]; exact h.nul

/-- windows that end at or before the NUL are equal -/
theorem Agree.window {P : Nat} {b1 b2 : Bytes} (h : Agree P b1 b2) (a n : Nat) (hb : a + n ≤ P + 1) :
    (b1.drop a).take n = (b2.drop a).take n := by
  apply List.ext_getElem?
  intro i
  simp only [List.getElem?_take, List.getElem?_drop]
  split
  · have h1 := h.eq (a + i) (by omega)
    simp only [List.getD_eq_getElem?_getD] at h1
    have hl := h.len
    by_cases hlt : a + i < b1.length
    · have hlt2 : a + i < b2.length := by omega
      rw [List.getElem?_eq_getElem hlt, List.getElem?_eq_getElem hlt2] at h1 ⊢
      simpa using h1
    · rw [List.getElem?_eq_none (by omega), List.getElem?_eq_none (by omega)]
  · rfl

theorem Agree.take {P : Nat} {b1 b2 : Bytes} (h : Agree P b1 b2) (n : Nat) (hn : n ≤ P + 1) :
    b1.take n = b2.take n := by
  have := h.window 0 n (by omega)
  simpa using this

/-- a store below or at... strictly below `P` of the same byte at the same index keeps agreement -/
theorem Agree.set {P : Nat} {b1 b2 : Bytes} (h : Agree P b1 b2) (i : Nat) (x : UInt8) (hi : i < P) :
    Agree P (b1.set i x) (b2.set i x) := by
  refine ⟨by simp [h.len], ?_, ?_⟩
  · intro j hj
    simp only [List.getD_eq_getElem?_getD, List.getElem?_set]
    have hl := h.len
    have hj' := h.eq j hj
    simp only [List.getD_eq_getElem?_getD] at hj'
    by_cases hij : i = j
    · subst hij
      simp only [if_true]
      by_cases hlt : i < b1.length
      · have : i < b2.length := by omega
        simp [hlt, this]
      · have : ¬ i < b2.length := by omega
        simp [hlt, this]
    · simp only [hij, if_false]; exact hj'
  · have := h.nul
    simp only [List.getD_eq_getElem?_getD, List.getElem?_set] at this ⊢
    have hne : ¬ i = P := by omega
    simp only [hne, if_false]; exact this

theorem takeWhile_take_of_stop {α : Type} (p : α → Bool) : ∀ (l : List α) (n : Nat),
    (∃ i, i < n ∧ ∃ h : i < l.length, p l[i] = false) → l.takeWhile p = (l.take n).takeWhile p := by
  intro l
  induction l with
  | nil => intro n _; simp
  | cons a t ih =>
    intro n ⟨i, hin, hil, hp⟩
    cases n with
    | zero => omega
    | succ n =>
      rw [List.take_succ_cons, List.takeWhile_cons, List.takeWhile_cons]
      cases hpa : p a with
      | false => simp
      | true =>
        simp only [if_true]
        congr 1
        cases i with
        | zero => simp [hpa] at hp
        | succ i =>
          apply ih
          exact ⟨i, by omega, by simpa using hil, by simpa using hp⟩

/-- the C string starting at `off ≤ P` is the same in both buffers -/
theorem Agree.cstr {P : Nat} {b1 b2 : Bytes} (h : Agree P b1 b2) (off : Nat) (ho : off ≤ P) :
    (b1.drop off).takeWhile (· ≠ 0) = (b2.drop off).takeWhile (· ≠ 0) := by
  have hw := h.window off (P + 1 - off) (by omega)
  have key : ∀ (b : Bytes), b.getD P 0 = 0 →
      (b.drop off).takeWhile (· ≠ 0) = ((b.drop off).take (P + 1 - off)).takeWhile (· ≠ 0) := by
    intro b hb
    by_cases hlen : P < b.length
    · apply takeWhile_take_of_stop
      refine ⟨P - off, by omega, by simp only [List.length_drop]; omega, ?_⟩
      simp only [List.getElem_drop]
      have e : off + (P - off) = P := by omega
      simp only [e]
      have : b[P] = 0 := by simpa [List.getD_eq_getElem?_getD, List.getElem?_eq_getElem hlen] using hb
      simp [this]
    · rw [List.take_of_length_le (by simp only [List.length_drop]; omega)]
  rw [key b1 h.nul, key b2 h.nul2, hw]

end ScpiVerif.Lemmas.Isolation

/-! # part 2: strtol / strtoul / strtod -/

/-
Isolation (C09) for the C-library primitives of `Model/Prim.lean`: `strtol`/`strtoul`/`strtod`
read the memory only through `rd`, from an offset `≤ P`, and never step over a NUL, so on two
buffers that agree up to a NUL at `P` (`Agree P b1 b2`) they return the same result.
-/
namespace ScpiVerif.Lemmas.Isolation
open ScpiVerif ScpiVerif.Lexer

section
variable {P : Nat} {b1 b2 : Bytes}

/-- a non-NUL byte read at `i ≤ P` leaves the next index `≤ P` -/
theorem Agree.rd_next (h : Agree P b1 b2) {i : Nat} (hi : i ≤ P) (hne : Prim.rd b1 i ≠ 0) :
    i + 1 ≤ P := h.lt_of_ne hi hne

theorem Agree.rd_next_of_eq (h : Agree P b1 b2) {i : Nat} (hi : i ≤ P) {c : UInt8}
    (hc : Prim.rd b1 i = c) (hc0 : c ≠ 0) : i + 1 ≤ P :=
  h.rd_next hi (by rw [hc]; exact hc0)

/-! ### scans -/

theorem skipSpaces_agree (h : Agree P b1 b2) : ∀ (f i : Nat), i ≤ P →
    Prim.skipSpaces b1 f i = Prim.skipSpaces b2 f i ∧ Prim.skipSpaces b1 f i ≤ P := by
  intro f
  induction f with
  | zero => intro i hi; exact ⟨rfl, hi⟩
  | succ f ih =>
    intro i hi
    simp only [Prim.skipSpaces]
    rw [← h.prd hi]
    by_cases hs : Prim.isSpace (Prim.rd b1 i) = true
    · have hne : Prim.rd b1 i ≠ 0 := by
        intro h0; rw [h0] at hs; exact absurd hs (by decide)
      simp only [hs, if_true]
      exact ih (i + 1) (h.rd_next hi hne)
    · simp only [hs]
      exact ⟨rfl, hi⟩

theorem run_agree (h : Agree P b1 b2) (p : UInt8 → Bool) (hp : p 0 = false) : ∀ (f i : Nat), i ≤ P →
    Prim.strtodLen.run b1 p f i = Prim.strtodLen.run b2 p f i ∧ Prim.strtodLen.run b1 p f i ≤ P := by
  intro f
  induction f with
  | zero => intro i hi; exact ⟨rfl, hi⟩
  | succ f ih =>
    intro i hi
    simp only [Prim.strtodLen.run]
    rw [← h.prd hi]
    by_cases hs : p (Prim.rd b1 i) = true
    · have hne : Prim.rd b1 i ≠ 0 := by
        intro h0; rw [h0, hp] at hs; exact absurd hs (by decide)
      simp only [hs, if_true]
      exact ih (i + 1) (h.rd_next hi hne)
    · simp only [hs]
      exact ⟨rfl, hi⟩

theorem digitsOfBase_agree (h : Agree P b1 b2) (base : Nat) : ∀ (f i acc : Nat), i ≤ P →
    Prim.digitsOfBase b1 base f i acc = Prim.digitsOfBase b2 base f i acc ∧
      (Prim.digitsOfBase b1 base f i acc).1 ≤ P := by
  intro f
  induction f with
  | zero => intro i acc hi; exact ⟨rfl, hi⟩
  | succ f ih =>
    intro i acc hi
    simp only [Prim.digitsOfBase]
    rw [← h.prd hi]
    cases hd : Prim.digitVal (Prim.rd b1 i) with
    | none => exact ⟨rfl, hi⟩
    | some d =>
      have hne : Prim.rd b1 i ≠ 0 := by
        intro h0
        have h00 : Prim.digitVal 0 = none := by decide
        rw [h0, h00] at hd; cases hd
      simp only
      by_cases hlt : d < base
      · simp only [hlt, if_true]
        exact ih (i + 1) _ (h.rd_next hi hne)
      · simp only [hlt, if_false]
        exact ⟨trivial, hi⟩

/-! ### `strtoSyntax` -/

def sgnStep (mem : Bytes) (i0 : Nat) : Bool × Nat :=
  if Prim.rd mem i0 == 45 then (true, i0 + 1) else if Prim.rd mem i0 == 43 then (false, i0 + 1) else (false, i0)

def pfxStep (mem : Bytes) (base i1 : Nat) : Nat :=
  if base == 16 ∧ Prim.rd mem i1 == 48 ∧ (Prim.rd mem (i1 + 1) == 120 ∨ Prim.rd mem (i1 + 1) == 88) ∧
     Prim.isHexDigit (Prim.rd mem (i1 + 2)) then i1 + 2 else i1

theorem strtoSyntax_eq (mem : Bytes) (off base : Nat) :
    Prim.strtoSyntax mem off base =
      (let s := sgnStep mem (Prim.skipSpaces mem (mem.length - off + 1) off)
       let i2 := pfxStep mem base s.2
       let r := Prim.digitsOfBase mem base (mem.length - i2 + 2) i2 0
       if r.1 == i2 then (0, false, 0) else (r.1 - off, s.1, r.2)) := rfl

theorem sgnStep_agree (h : Agree P b1 b2) {i0 : Nat} (hi : i0 ≤ P) :
    sgnStep b1 i0 = sgnStep b2 i0 ∧ (sgnStep b1 i0).2 ≤ P := by
  unfold sgnStep
  rw [← h.prd hi]
  by_cases h45 : Prim.rd b1 i0 = 45
  · have := h.rd_next_of_eq hi h45 (by decide)
    simp [h45, this]
  · by_cases h43 : Prim.rd b1 i0 = 43
    · have := h.rd_next_of_eq hi h43 (by decide)
      simp [h43, this]
    · simp [h45, h43, hi]

theorem pfxStep_agree (h : Agree P b1 b2) (base : Nat) {i1 : Nat} (hi : i1 ≤ P) :
    pfxStep b1 base i1 = pfxStep b2 base i1 ∧ pfxStep b1 base i1 ≤ P := by
  unfold pfxStep
  rw [← h.prd hi]
  by_cases h48 : Prim.rd b1 i1 = 48
  · have hi1 := h.rd_next_of_eq hi h48 (by decide)
    rw [← h.prd hi1]
    by_cases hx : Prim.rd b1 (i1 + 1) = 120 ∨ Prim.rd b1 (i1 + 1) = 88
    · have hi2 : i1 + 1 + 1 ≤ P := by
        rcases hx with hx | hx
        · exact h.rd_next_of_eq hi1 hx (by decide)
        · exact h.rd_next_of_eq hi1 hx (by decide)
      rw [← h.prd (i := i1 + 2) hi2]
      refine ⟨rfl, ?_⟩
      split
      · exact hi2
      · exact hi
    · simp [hx, hi]
  · simp [h48, hi]

theorem strtoSyntax_agree (h : Agree P b1 b2) (off base : Nat) (ho : off ≤ P) :
    Prim.strtoSyntax b1 off base = Prim.strtoSyntax b2 off base := by
  rw [strtoSyntax_eq, strtoSyntax_eq]
  have h0 := skipSpaces_agree h (b1.length - off + 1) off ho
  rw [← h.len, ← h0.1]
  have h1 := sgnStep_agree h h0.2
  rw [← h1.1]
  have h2 := pfxStep_agree h base h1.2
  simp only
  rw [← h2.1]
  have h3 := digitsOfBase_agree h base (b1.length - pfxStep b1 base (sgnStep b1
    (Prim.skipSpaces b1 (b1.length - off + 1) off)).2 + 2) _ 0 h2.2
  rw [← h3.1]

theorem strtoulTo_agree (h : Agree P b1 b2) (w off base : Nat) (ho : off ≤ P) :
    Prim.strtoulTo w b1 off base = Prim.strtoulTo w b2 off base := by
  unfold Prim.strtoulTo
  rw [strtoSyntax_agree h off base ho]

theorem strtolTo_agree (h : Agree P b1 b2) (w off base : Nat) (ho : off ≤ P) :
    Prim.strtolTo w b1 off base = Prim.strtolTo w b2 off base := by
  unfold Prim.strtolTo
  rw [strtoSyntax_agree h off base ho]

/-! ### `strtodLen` -/

def dLower (b : UInt8) : UInt8 := if 65 ≤ b ∧ b ≤ 90 then b + 32 else b

def dWord (mem : Bytes) (w : List UInt8) (at_ : Nat) : Bool :=
  (w.zipIdx).all (fun (c, k) => dLower (Prim.rd mem (at_ + k)) == c)

def dSign (mem : Bytes) (i0 : Nat) : Nat :=
  if Prim.rd mem i0 == 45 ∨ Prim.rd mem i0 == 43 then i0 + 1 else i0

def dFrac (mem : Bytes) (p : UInt8 → Bool) (fuel a : Nat) : Nat :=
  if Prim.rd mem a == 46 then Prim.strtodLen.run mem p fuel (a + 1) else a

def dExp (mem : Bytes) (c1 c2 : UInt8) (fuel b : Nat) : Nat :=
  if Prim.rd mem b == c1 ∨ Prim.rd mem b == c2 then
    let s := if Prim.rd mem (b + 1) == 45 ∨ Prim.rd mem (b + 1) == 43 then b + 2 else b + 1
    if isDigit (Prim.rd mem s) then Prim.strtodLen.run mem isDigit fuel s else b
  else b

def dHexCond (mem : Bytes) (i1 : Nat) : Prop :=
  Prim.rd mem i1 == 48 ∧ (Prim.rd mem (i1 + 1) == 120 ∨ Prim.rd mem (i1 + 1) == 88) ∧
    (Prim.isHexDigit (Prim.rd mem (i1 + 2)) ∨
      (Prim.rd mem (i1 + 2) == 46 ∧ Prim.isHexDigit (Prim.rd mem (i1 + 3))))

instance (mem : Bytes) (i1 : Nat) : Decidable (dHexCond mem i1) := by
  unfold dHexCond; infer_instance

def dBody (mem : Bytes) (off i1 : Nat) : Nat :=
  if dWord mem [105, 110, 102] i1 then
    (if dWord mem [105, 110, 102, 105, 110, 105, 116, 121] i1 then i1 + 8 else i1 + 3) - off
  else if dWord mem [110, 97, 110] i1 then i1 + 3 - off
  else
    let fuel := mem.length - i1 + 2
    if dHexCond mem i1 then
      let a := Prim.strtodLen.run mem Prim.isHexDigit fuel (i1 + 2)
      let b := dFrac mem Prim.isHexDigit fuel a
      dExp mem 112 80 fuel b - off
    else
      let a := Prim.strtodLen.run mem isDigit fuel i1
      let b := dFrac mem isDigit fuel a
      let nd := (a - i1) + (if Prim.rd mem a == 46 then b - (a + 1) else 0)
      if nd == 0 then 0 else dExp mem 101 69 fuel b - off

theorem strtodLen_eq (mem : Bytes) (off : Nat) :
    Prim.strtodLen mem off = dBody mem off (dSign mem (Prim.skipSpaces mem (mem.length - off + 1) off)) := rfl

theorem dLower_ne_zero {b c : UInt8} (hc : c ≠ 0) (h : (dLower b == c) = true) : b ≠ 0 := by
  intro h0
  subst h0
  have : dLower 0 = 0 := by decide
  rw [this] at h
  have h' : (0 : UInt8) = c := by simpa using h
  exact hc h'.symm

theorem wordAux_agree (h : Agree P b1 b2) (at_ : Nat) : ∀ (w : List UInt8) (k : Nat),
    (∀ c ∈ w, c ≠ 0) → at_ + k ≤ P →
    ((w.zipIdx k).all (fun (c, j) => dLower (Prim.rd b1 (at_ + j)) == c) =
      (w.zipIdx k).all (fun (c, j) => dLower (Prim.rd b2 (at_ + j)) == c)) ∧
    ((w.zipIdx k).all (fun (c, j) => dLower (Prim.rd b1 (at_ + j)) == c) = true →
      at_ + k + w.length ≤ P) := by
  intro w
  induction w with
  | nil => intro k _ hk; simp [hk]
  | cons c t ih =>
    intro k hw hk
    simp only [List.zipIdx_cons, List.all_cons, List.length_cons]
    rw [← h.prd hk]
    by_cases hc : (dLower (Prim.rd b1 (at_ + k)) == c) = true
    · have hne := dLower_ne_zero (hw c (by simp)) hc
      have hk1 : at_ + (k + 1) ≤ P := h.rd_next hk hne
      have := ih (k + 1) (fun c hc => hw c (by simp [hc])) hk1
      rw [hc]
      simp only [Bool.true_and]
      refine ⟨this.1, fun hh => ?_⟩
      have := this.2 hh
      omega
    · simp [hc]

theorem dWord_agree (h : Agree P b1 b2) (w : List UInt8) (hw : ∀ c ∈ w, c ≠ 0) {i : Nat} (hi : i ≤ P) :
    dWord b1 w i = dWord b2 w i ∧ (dWord b1 w i = true → i + w.length ≤ P) := by
  have := wordAux_agree h i w 0 hw (by omega)
  exact this

theorem dSign_agree (h : Agree P b1 b2) {i0 : Nat} (hi : i0 ≤ P) :
    dSign b1 i0 = dSign b2 i0 ∧ dSign b1 i0 ≤ P := by
  unfold dSign
  rw [← h.prd hi]
  by_cases h45 : Prim.rd b1 i0 = 45
  · have := h.rd_next_of_eq hi h45 (by decide)
    simp [h45, this]
  · by_cases h43 : Prim.rd b1 i0 = 43
    · have := h.rd_next_of_eq hi h43 (by decide)
      simp [h43, this]
    · simp [h45, h43, hi]

theorem dFrac_agree (h : Agree P b1 b2) (p : UInt8 → Bool) (hp : p 0 = false) (fuel : Nat) {a : Nat}
    (ha : a ≤ P) : dFrac b1 p fuel a = dFrac b2 p fuel a ∧ dFrac b1 p fuel a ≤ P := by
  unfold dFrac
  rw [← h.prd ha]
  by_cases h46 : Prim.rd b1 a = 46
  · have ha1 := h.rd_next_of_eq ha h46 (by decide)
    simp only [h46, beq_self_eq_true, if_true]
    exact run_agree h p hp fuel (a + 1) ha1
  · simp [h46, ha]

theorem dExp_agree (h : Agree P b1 b2) (c1 c2 : UInt8) (h1 : c1 ≠ 0) (h2 : c2 ≠ 0) (fuel : Nat) {b : Nat}
    (hb : b ≤ P) : dExp b1 c1 c2 fuel b = dExp b2 c1 c2 fuel b ∧ dExp b1 c1 c2 fuel b ≤ P := by
  unfold dExp
  rw [← h.prd hb]
  by_cases hc : Prim.rd b1 b = c1 ∨ Prim.rd b1 b = c2
  · have hb1 : b + 1 ≤ P := by
      rcases hc with hc | hc
      · exact h.rd_next_of_eq hb hc h1
      · exact h.rd_next_of_eq hb hc h2
    have hc' : (Prim.rd b1 b == c1) = true ∨ (Prim.rd b1 b == c2) = true := by simpa using hc
    simp only [hc', if_true]
    rw [← h.prd hb1]
    have hs : (if (Prim.rd b1 (b + 1) == 45) = true ∨ (Prim.rd b1 (b + 1) == 43) = true then b + 2
        else b + 1) ≤ P := by
      by_cases h45 : Prim.rd b1 (b + 1) = 45
      · have := h.rd_next_of_eq hb1 h45 (by decide)
        simp [h45]; omega
      · by_cases h43 : Prim.rd b1 (b + 1) = 43
        · have := h.rd_next_of_eq hb1 h43 (by decide)
          simp [h43]; omega
        · simp [h45, h43, hb1]
    generalize (if (Prim.rd b1 (b + 1) == 45) = true ∨ (Prim.rd b1 (b + 1) == 43) = true then b + 2
        else b + 1) = s at hs
    rw [← h.prd hs]
    by_cases hd : isDigit (Prim.rd b1 s) = true
    · simp only [hd, if_true]
      exact run_agree h isDigit (by decide) fuel s hs
    · simp [hd, hb]
  · have hc' : ¬ ((Prim.rd b1 b == c1) = true ∨ (Prim.rd b1 b == c2) = true) := by simpa using hc
    simp only [hc', if_false]
    exact ⟨trivial, hb⟩

theorem dHexCond_agree (h : Agree P b1 b2) {i1 : Nat} (hi : i1 ≤ P) :
    (dHexCond b1 i1 ↔ dHexCond b2 i1) ∧ (dHexCond b1 i1 → i1 + 2 ≤ P) := by
  unfold dHexCond
  rw [← h.prd hi]
  by_cases h48 : Prim.rd b1 i1 = 48
  · have hi1 := h.rd_next_of_eq hi h48 (by decide)
    rw [← h.prd hi1]
    by_cases hx : Prim.rd b1 (i1 + 1) = 120 ∨ Prim.rd b1 (i1 + 1) = 88
    · have hi2 : i1 + 2 ≤ P := by
        rcases hx with hx | hx
        · exact h.rd_next_of_eq hi1 hx (by decide)
        · exact h.rd_next_of_eq hi1 hx (by decide)
      rw [← h.prd hi2]
      by_cases h46 : Prim.rd b1 (i1 + 2) = 46
      · have hi3 : i1 + 3 ≤ P := h.rd_next_of_eq hi2 h46 (by decide)
        rw [← h.prd hi3]
        exact ⟨Iff.rfl, fun _ => hi2⟩
      · simp [h46, hi2]
    · simp [hx]
  · simp [h48]

theorem dBody_hex_agree (h : Agree P b1 b2) (off : Nat) (ho : off ≤ P) (fuel : Nat) {i1 : Nat}
    (hi2 : i1 + 2 ≤ P) :
    (dExp b1 112 80 fuel (dFrac b1 Prim.isHexDigit fuel (Prim.strtodLen.run b1 Prim.isHexDigit fuel (i1 + 2))) - off =
      dExp b2 112 80 fuel (dFrac b2 Prim.isHexDigit fuel (Prim.strtodLen.run b2 Prim.isHexDigit fuel (i1 + 2))) - off) ∧
    off + (dExp b1 112 80 fuel (dFrac b1 Prim.isHexDigit fuel
      (Prim.strtodLen.run b1 Prim.isHexDigit fuel (i1 + 2))) - off) ≤ P := by
  have ha := run_agree h Prim.isHexDigit (by decide) fuel (i1 + 2) hi2
  rw [← ha.1]
  have hb := dFrac_agree h Prim.isHexDigit (by decide) fuel ha.2
  rw [← hb.1]
  have he := dExp_agree h 112 80 (by decide) (by decide) fuel hb.2
  rw [← he.1]
  exact ⟨rfl, by omega⟩

theorem dBody_dec_agree (h : Agree P b1 b2) (off : Nat) (ho : off ≤ P) (fuel : Nat) {i1 : Nat}
    (hi : i1 ≤ P) :
    ((let a := Prim.strtodLen.run b1 isDigit fuel i1
      let b := dFrac b1 isDigit fuel a
      let nd := (a - i1) + (if Prim.rd b1 a == 46 then b - (a + 1) else 0)
      if nd == 0 then 0 else dExp b1 101 69 fuel b - off) =
     (let a := Prim.strtodLen.run b2 isDigit fuel i1
      let b := dFrac b2 isDigit fuel a
      let nd := (a - i1) + (if Prim.rd b2 a == 46 then b - (a + 1) else 0)
      if nd == 0 then 0 else dExp b2 101 69 fuel b - off)) ∧
    off + (let a := Prim.strtodLen.run b1 isDigit fuel i1
      let b := dFrac b1 isDigit fuel a
      let nd := (a - i1) + (if Prim.rd b1 a == 46 then b - (a + 1) else 0)
      if nd == 0 then 0 else dExp b1 101 69 fuel b - off) ≤ P := by
  have ha := run_agree h isDigit (by decide) fuel i1 hi
  simp only
  rw [← ha.1]
  have hb := dFrac_agree h isDigit (by decide) fuel ha.2
  rw [← hb.1, ← h.prd ha.2]
  have he := dExp_agree h 101 69 (by decide) (by decide) fuel hb.2
  rw [← he.1]
  refine ⟨rfl, ?_⟩
  have := he.2
  repeat' split
  all_goals omega

theorem dBody_agree (h : Agree P b1 b2) (off : Nat) (ho : off ≤ P) {i1 : Nat} (hi : i1 ≤ P) :
    dBody b1 off i1 = dBody b2 off i1 ∧ off + dBody b1 off i1 ≤ P := by
  unfold dBody
  have w3 := dWord_agree h [105, 110, 102] (by decide) hi
  have w8 := dWord_agree h [105, 110, 102, 105, 110, 105, 116, 121] (by decide) hi
  have wn := dWord_agree h [110, 97, 110] (by decide) hi
  rw [← w3.1, ← w8.1, ← wn.1, ← h.len]
  by_cases c3 : dWord b1 [105, 110, 102] i1 = true
  · have l3 := w3.2 c3
    simp only [List.length_cons, List.length_nil] at l3
    simp only [c3, if_true]
    by_cases c8 : dWord b1 [105, 110, 102, 105, 110, 105, 116, 121] i1 = true
    · have l8 := w8.2 c8
      simp only [List.length_cons, List.length_nil] at l8
      simp only [c8, if_true]
      exact ⟨by first | rfl | trivial, by omega⟩
    · simp only [c8, Bool.false_eq_true, if_false]
      exact ⟨by first | rfl | trivial, by omega⟩
  · simp only [c3, Bool.false_eq_true, if_false]
    by_cases cn : dWord b1 [110, 97, 110] i1 = true
    · have ln := wn.2 cn
      simp only [List.length_cons, List.length_nil] at ln
      simp only [cn, if_true]
      exact ⟨by first | rfl | trivial, by omega⟩
    · simp only [cn, Bool.false_eq_true, if_false]
      have hx := dHexCond_agree h hi
      by_cases cx : dHexCond b1 i1
      · have cx2 := hx.1.1 cx
        simp only [cx, cx2, if_true]
        exact dBody_hex_agree h off ho _ (hx.2 cx)
      · have cx2 : ¬ dHexCond b2 i1 := fun c => cx (hx.1.2 c)
        simp only [cx, cx2, if_false]
        exact dBody_dec_agree h off ho _ hi

theorem strtodLen_agree (h : Agree P b1 b2) (off : Nat) (ho : off ≤ P) :
    Prim.strtodLen b1 off = Prim.strtodLen b2 off ∧ off + Prim.strtodLen b1 off ≤ P := by
  rw [strtodLen_eq, strtodLen_eq]
  have h0 := skipSpaces_agree h (b1.length - off + 1) off ho
  rw [← h.len, ← h0.1]
  have h1 := dSign_agree h h0.2
  rw [← h1.1]
  exact dBody_agree h off ho h1.2

end

end ScpiVerif.Lemmas.Isolation

/-! # part 3: matchCommand -/

namespace ScpiVerif.Lemmas.Isolation
open ScpiVerif ScpiVerif.Lexer

/-!
Isolation of the pattern matcher: `Match.matchCommand` never reads the command buffer beyond its
first NUL, so two buffers that agree up to and including an index holding a NUL give the same
result.
-/

/-! ### the length of the C string is bounded by the index of any NUL -/

theorem takeWhile_len_le_of_getD_zero : ∀ (c : Bytes) (Q : Nat), c.getD Q 0 = 0 →
    (c.takeWhile (· ≠ 0)).length ≤ Q := by
  intro c
  induction c with
  | nil => intro Q _; simp
  | cons a t ih =>
    intro Q hQ
    rw [List.takeWhile_cons]
    cases Q with
    | zero =>
      have : a = 0 := by simpa using hQ
      subst this; simp
    | succ Q =>
      have h' : t.getD Q 0 = 0 := by simpa using hQ
      have := ih Q h'
      split
      · simp only [List.length_cons]; omega
      · simp

/-! ### caseEq -/

theorem caseEq_agree {Q : Nat} {c1 c2 : Bytes} (h : Agree Q c1 c2) (a : Bytes) :
    ∀ (n ao bo : Nat), bo + n ≤ Q + 1 → Match.caseEq a ao c1 bo n = Match.caseEq a ao c2 bo n := by
  intro n
  induction n with
  | zero => intros; rfl
  | succ n ih =>
    intro ao bo hb
    simp only [Match.caseEq]
    rw [h.mrd (show bo ≤ Q by omega), ih (ao + 1) (bo + 1) (by omega)]

/-! ### sepPos -/

theorem sepPos_go_agree {Q : Nat} {c1 c2 : Bytes} (h : Agree Q c1 c2) (off len : Nat) (set : List UInt8) :
    ∀ (fuel i : Nat), off + i + fuel ≤ Q + 1 →
      Match.sepPos.go c1 off len set fuel i = Match.sepPos.go c2 off len set fuel i := by
  intro fuel
  induction fuel with
  | zero => intros; rfl
  | succ f ih =>
    intro i hb
    simp only [Match.sepPos.go]
    rw [h.mrd (show off + i ≤ Q by omega), ih (i + 1) (by omega)]

theorem sepPos_agree {Q : Nat} {c1 c2 : Bytes} (h : Agree Q c1 c2) (off len : Nat) (set : List UInt8)
    (hb : off + len ≤ Q + 1) : Match.sepPos c1 off len set = Match.sepPos c2 off len set := by
  simp only [Match.sepPos]
  rw [sepPos_go_agree h off len set len 0 (by omega)]

theorem sepPos_le (s : Bytes) (off len : Nat) (set : List UInt8) : Match.sepPos s off len set ≤ len := by
  simp only [Match.sepPos]
  split
  · omega
  · split <;> omega

/-! ### strtol10 -/

theorem ws_agree {Q : Nat} {c1 c2 : Bytes} (h : Agree Q c1 c2) :
    ∀ (f i : Nat), i ≤ Q → Match.strtol10.ws c1 f i = Match.strtol10.ws c2 f i ∧ Match.strtol10.ws c1 f i ≤ Q := by
  intro f
  induction f with
  | zero => intro i hi; exact ⟨rfl, hi⟩
  | succ f ih =>
    intro i hi
    simp only [Match.strtol10.ws]
    rw [← h.mrd hi]
    split
    · rename_i hc
      have hne : c1.getD i 0 ≠ 0 := by
        intro h0
        have : Match.rd c1 i = 0 := h0
        rw [this] at hc
        revert hc; decide
      exact ih (i + 1) (h.lt_of_ne hi hne)
    · exact ⟨rfl, hi⟩

theorem isDigit_ne_zero {b : UInt8} (hb : isDigit b = true) : b ≠ 0 := by
  intro h0; subst h0; revert hb; decide

theorem dg_agree {Q : Nat} {c1 c2 : Bytes} (h : Agree Q c1 c2) :
    ∀ (f i acc : Nat), i ≤ Q → Match.strtol10.dg c1 f i acc = Match.strtol10.dg c2 f i acc := by
  intro f
  induction f with
  | zero => intros; rfl
  | succ f ih =>
    intro i acc hi
    simp only [Match.strtol10.dg]
    rw [← h.mrd hi]
    split
    · rename_i hc
      exact ih (i + 1) _ (h.lt_of_ne hi (isDigit_ne_zero hc))
    · rfl

theorem strtol10_agree {Q : Nat} {c1 c2 : Bytes} (h : Agree Q c1 c2) (off : Nat) (ho : off ≤ Q) :
    Match.strtol10 c1 off = Match.strtol10 c2 off := by
  have hws := ws_agree h (c1.length - off) off ho
  simp only [Match.strtol10]
  rw [← h.len, ← hws.1]
  have hle := hws.2
  generalize Match.strtol10.ws c1 (c1.length - off) off = i0 at hle
  rw [← h.mrd hle]
  by_cases h45 : (Match.rd c1 i0 == 45) = true
  · have hne : c1.getD i0 0 ≠ 0 := by
      intro h0
      have : Match.rd c1 i0 = 0 := h0
      rw [this] at h45
      revert h45; decide
    have hlt := h.lt_of_ne hle hne
    simp only [h45, if_true]
    rw [dg_agree h _ (i0 + 1) 0 (by omega)]
  · simp only [h45, Bool.false_eq_true, if_false]
    by_cases h43 : (Match.rd c1 i0 == 43) = true
    · have hne : c1.getD i0 0 ≠ 0 := by
        intro h0
        have : Match.rd c1 i0 = 0 := h0
        rw [this] at h43
        revert h43; decide
      have hlt := h.lt_of_ne hle hne
      simp only [h43, if_true, Bool.false_eq_true, if_false]
      rw [dg_agree h _ (i0 + 1) 0 (by omega)]
    · simp only [h43, Bool.false_eq_true, if_false]
      rw [dg_agree h _ i0 0 hle]

/-! ### compareStr, compareStrAndNum, matchPattern -/

theorem compareStr_agree {Q : Nat} {c1 c2 : Bytes} (h : Agree Q c1 c2) (a : Bytes) (ao len1 bo len2 : Nat)
    (hb : bo + len2 ≤ Q) :
    Match.compareStr a ao len1 c1 bo len2 = Match.compareStr a ao len1 c2 bo len2 := by
  simp only [Match.compareStr]
  rw [caseEq_agree h a len2 ao bo (by omega)]

theorem all_digits_agree {Q : Nat} {c1 c2 : Bytes} (h : Agree Q c1 c2) (base n : Nat) (hb : base + n ≤ Q + 1) :
    (List.range n).all (fun i => isDigit (Match.rd c1 (base + i))) =
    (List.range n).all (fun i => isDigit (Match.rd c2 (base + i))) := by
  rw [Bool.eq_iff_iff, List.all_eq_true, List.all_eq_true]
  constructor
  · intro H i hi
    have : i < n := List.mem_range.mp hi
    rw [← h.mrd (show base + i ≤ Q by omega)]; exact H i hi
  · intro H i hi
    have : i < n := List.mem_range.mp hi
    rw [h.mrd (show base + i ≤ Q by omega)]; exact H i hi

theorem compareStrAndNum_agree {Q : Nat} {c1 c2 : Bytes} (h : Agree Q c1 c2) (a : Bytes)
    (ao len1 bo len2 : Nat) (num : Bool) (hb : bo + len2 ≤ Q) :
    Match.compareStrAndNum a ao len1 c1 bo len2 num = Match.compareStrAndNum a ao len1 c2 bo len2 num := by
  simp only [Match.compareStrAndNum]
  by_cases hl : len2 < len1
  · simp only [hl, if_true]
  · simp only [hl, if_false]
    rw [caseEq_agree h a len1 ao bo (by omega), strtol10_agree h (bo + len1) (by omega),
      all_digits_agree h (bo + len1) (len2 - len1) (by omega)]

theorem matchPattern_agree {Q : Nat} {c1 c2 : Bytes} (h : Agree Q c1 c2) (p : Bytes)
    (po plen so slen : Nat) (num : Bool) (hb : so + slen ≤ Q) :
    Match.matchPattern p po plen c1 so slen num = Match.matchPattern p po plen c2 so slen num := by
  simp only [Match.matchPattern]
  simp only [compareStrAndNum_agree h p _ _ so slen num hb, compareStr_agree h p _ _ so slen hb]

/-! ### mainLoop

One iteration of `Match.mainLoop` is factored into pieces that do not mention the command buffer:
the buffer enters only through `csp`, the result `mp` of `matchPattern` and the byte `c0` at the new
command position, and through the continuation `k`. -/

/-- the default-number bookkeeping at the start of an iteration -/
def numStep (p : Bytes) (hasNumbers : Bool) (dflt : Int) (psp : Nat) (st : Match.MState) : Match.MState × Option Nat :=
  if psp > 0 ∧ Match.rd p (st.pp + psp - 1) == 35 then
    if hasNumbers ∧ st.idx < st.numbers.length then
      ({ (Match.setNum st hasNumbers st.idx dflt) with idx := st.idx + 1 }, some st.idx)
    else ({ st with idx := st.idx + 1 }, none)
  else (st, none)

/-- storing the parsed number -/
def upd (hasNumbers : Bool) (st : Match.MState) (numPtr : Option Nat) (v : Option Int) : Match.MState :=
  match numPtr, v with
  | some i, some x => Match.setNum st hasNumbers i x
  | _, _ => st

/-- the rest of an iteration, given the result of `matchPattern` and the next command byte -/
def loopTail (p : Bytes) (hasNumbers : Bool) (dflt : Int) (k : Match.MState → Bool × Match.MState)
    (psp csp : Nat) (st : Match.MState) (numPtr : Option Nat) (mp : Bool × Option Int) (c0 : UInt8) : Bool × Match.MState :=
  if mp.1 then
    let st : Match.MState := upd hasNumbers st numPtr mp.2
    let st : Match.MState := { st with pp := st.pp + psp, pl := st.pl - psp, cp := st.cp + csp, cl := st.cl - csp }
    if st.pl == 0 ∧ st.cl == 0 then (true, st)
    else if st.pl == 0 ∧ st.cl > 0 then (false, st)
    else if st.cl == 0 then
      let st : Match.MState := Match.trailingLoop p hasNumbers dflt (p.length + 2) st
      (st.pl == 0, st)
    else
      let p0 := Match.rd p st.pp; let p1 := Match.rd p (st.pp + 1); let p2 := Match.rd p (st.pp + 2)
      if st.pl > 0 ∧ p0 == c0 ∧ p0 == 58 then
        k { st with pp := st.pp + 1, pl := st.pl - 1, cp := st.cp + 1, cl := st.cl - 1 }
      else if st.pl > 1 ∧ p1 == c0 ∧ p0 == 91 ∧ p1 == 58 then
        k { st with pp := st.pp + 2, pl := st.pl - 2, cp := st.cp + 1, cl := st.cl - 1, brackets := st.brackets + 1 }
      else if st.pl > 1 ∧ p1 == c0 ∧ p0 == 93 ∧ p1 == 58 then
        k { st with pp := st.pp + 2, pl := st.pl - 2, cp := st.cp + 1, cl := st.cl - 1, brackets := st.brackets - 1 }
      else if st.pl > 2 ∧ p2 == c0 ∧ p0 == 93 ∧ p1 == 91 ∧ p2 == 58 then
        k { st with pp := st.pp + 3, pl := st.pl - 3, cp := st.cp + 1, cl := st.cl - 1 }
      else (false, st)
  else
    let st : Match.MState := { st with pp := st.pp + psp, pl := st.pl - psp }
    let p0 := Match.rd p st.pp; let p1 := Match.rd p (st.pp + 1); let p2 := Match.rd p (st.pp + 2)
    if p0 == 93 ∧ p1 == 58 then
      k { st with pp := st.pp + 2, pl := st.pl - 2, brackets := st.brackets - 1 }
    else if st.pl > 2 ∧ p0 == 93 ∧ p1 == 91 ∧ p2 == 58 then
      k { st with pp := st.pp + 3, pl := st.pl - 3 }
    else (false, st)

theorem mainLoop_succ (p c : Bytes) (hasNumbers : Bool) (dflt : Int) (fuel : Nat) (st : Match.MState) :
    Match.mainLoop p c hasNumbers dflt (fuel + 1) st =
      if st.pl < 0 then (false, { st with oob := true }) else
      let psp := Match.patternSeparatorPos p st.pp st.pl.toNat
      let csp := Match.cmdSeparatorPos c st.cp st.cl
      let x := numStep p hasNumbers dflt psp st
      let mp := Match.matchPattern p x.1.pp psp c x.1.cp csp x.2.isSome
      loopTail p hasNumbers dflt (Match.mainLoop p c hasNumbers dflt fuel) psp csp x.1 x.2 mp
        (Match.rd c ((upd hasNumbers x.1 x.2 mp.2).cp + csp)) := by
  rfl

theorem setNum_cp_cl (st : Match.MState) (hn : Bool) (i : Nat) (v : Int) :
    (Match.setNum st hn i v).cp = st.cp ∧ (Match.setNum st hn i v).cl = st.cl := by
  simp only [Match.setNum]
  split <;> exact ⟨rfl, rfl⟩

theorem numStep_cp_cl (p : Bytes) (hn : Bool) (d : Int) (psp : Nat) (st : Match.MState) :
    (numStep p hn d psp st).1.cp = st.cp ∧ (numStep p hn d psp st).1.cl = st.cl := by
  simp only [numStep]
  split
  · split
    · exact setNum_cp_cl st hn st.idx d
    · exact ⟨rfl, rfl⟩
  · exact ⟨rfl, rfl⟩

theorem upd_cp_cl (hn : Bool) (st : Match.MState) (numPtr : Option Nat) (v : Option Int) :
    (upd hn st numPtr v).cp = st.cp ∧ (upd hn st numPtr v).cl = st.cl := by
  simp only [upd]
  split
  · exact setNum_cp_cl _ _ _ _
  · exact ⟨rfl, rfl⟩

theorem loopTail_congr (p : Bytes) (hn : Bool) (d : Int) (k1 k2 : Match.MState → Bool × Match.MState)
    (psp csp : Nat) (st : Match.MState) (numPtr : Option Nat) (mp : Bool × Option Int) (c0 : UInt8)
    (hcsp : csp ≤ st.cl)
    (hk : ∀ st' : Match.MState, st'.cp + st'.cl = st.cp + st.cl → k1 st' = k2 st') :
    loopTail p hn d k1 psp csp st numPtr mp c0 = loopTail p hn d k2 psp csp st numPtr mp c0 := by
  have hu := upd_cp_cl hn st numPtr mp.2
  simp only [loopTail]
  generalize upd hn st numPtr mp.2 = st2 at hu ⊢
  obtain ⟨hu1, hu2⟩ := hu
  split
  · split
    · rfl
    · split
      · rfl
      · split
        · rfl
        · rename_i hcl
          have hcl' : st2.cl - csp ≠ 0 := by simpa using hcl
          split
          · apply hk; simp only []; omega
          · split
            · apply hk; simp only []; omega
            · split
              · apply hk; simp only []; omega
              · split
                · apply hk; simp only []; omega
                · rfl
  · split
    · apply hk; rfl
    · split
      · apply hk; rfl
      · rfl

theorem mainLoop_agree {Q : Nat} {c1 c2 : Bytes} (h : Agree Q c1 c2) (p : Bytes) (hn : Bool) (d : Int) :
    ∀ (fuel : Nat) (st : Match.MState), st.cp + st.cl ≤ Q →
      Match.mainLoop p c1 hn d fuel st = Match.mainLoop p c2 hn d fuel st := by
  intro fuel
  induction fuel with
  | zero => intros; rfl
  | succ fuel ih =>
    intro st hst
    rw [mainLoop_succ, mainLoop_succ]
    by_cases hpl : st.pl < 0
    · simp only [hpl, if_true]
    · simp only [hpl, if_false]
      have hcsp : Match.cmdSeparatorPos c2 st.cp st.cl = Match.cmdSeparatorPos c1 st.cp st.cl :=
        (sepPos_agree h st.cp st.cl _ (by omega)).symm
      have hle : Match.cmdSeparatorPos c1 st.cp st.cl ≤ st.cl := sepPos_le _ _ _ _
      rw [hcsp]
      generalize Match.cmdSeparatorPos c1 st.cp st.cl = csp at hle
      generalize Match.patternSeparatorPos p st.pp st.pl.toNat = psp
      have hx := numStep_cp_cl p hn d psp st
      generalize numStep p hn d psp st = x at hx
      obtain ⟨hx1, hx2⟩ := hx
      rw [← matchPattern_agree h p x.1.pp psp x.1.cp csp x.2.isSome (by omega)]
      generalize Match.matchPattern p x.1.pp psp c1 x.1.cp csp x.2.isSome = mp
      have hu := upd_cp_cl hn x.1 x.2 mp.2
      rw [← h.mrd (show (upd hn x.1 x.2 mp.2).cp + csp ≤ Q by omega)]
      apply loopTail_congr
      · omega
      · intro st' hst'
        exact ih st' (by omega)

/-! ### matchCommand -/

/-- the walker state after the optional leading `[` and `:` of the pattern -/
def mcStart (pattern : Bytes) (nums : List Int) (plen : Int) (clen : Nat) : Match.MState :=
  let st : Match.MState := { pp := 0, pl := plen, cp := 0, cl := clen, brackets := 0, numbers := nums, idx := 0,
                             oob := plen == 0 ∧ pattern.isEmpty }
  let st : Match.MState := if Match.rd pattern st.pp == 91 then { st with pp := st.pp + 1, pl := st.pl - 1, brackets := 1 } else st
  let st : Match.MState := if Match.rd pattern st.pp == 58 then { st with pp := st.pp + 1, pl := st.pl - 1 } else st
  st

/-- the leading-colon handling and the main loop -/
def mcTail (pattern cmd : Bytes) (hasNumbers : Bool) (nums : List Int) (dflt : Int) (st : Match.MState) :
    Bool × List Int × Bool :=
  let go : Option Match.MState :=
    if Match.rd cmd st.cp == 58 then
      if st.cl ≥ 2 then
        if Match.rd cmd (st.cp + 1) != 42 then some { st with cp := st.cp + 1, cl := st.cl - 1 } else none
      else some st
    else some st
  match go with
  | none => (false, nums, st.oob)
  | some st =>
    let (r, st) := Match.mainLoop pattern cmd hasNumbers dflt (pattern.length + cmd.length + 4) st
    (r, st.numbers, st.oob)

theorem matchCommand_eq (pattern cmd : Bytes) (len : Nat) (numbers : Option (List Int)) (dflt : Int) :
    Match.matchCommand pattern cmd len numbers dflt =
      let plen : Int := (pattern.takeWhile (· ≠ 0)).length
      let clen := min ((cmd.takeWhile (· ≠ 0)).length) len
      let q : Option (Int × Nat) :=
        if Match.rd pattern (plen.toNat - 1) == 63 then
          if clen > 0 ∧ Match.rd cmd (clen - 1) == 63 then some (plen - 1, clen - 1) else none
        else some (plen, clen)
      match q with
      | none => (false, numbers.getD [], plen == 0)
      | some (plen, clen) =>
        mcTail pattern cmd numbers.isSome (numbers.getD []) dflt (mcStart pattern (numbers.getD []) plen clen) := by
  rfl

theorem mcStart_cp_cl (pattern : Bytes) (nums : List Int) (plen : Int) (clen : Nat) :
    (mcStart pattern nums plen clen).cp = 0 ∧ (mcStart pattern nums plen clen).cl = clen := by
  simp only [mcStart]
  split <;> split <;> exact ⟨rfl, rfl⟩

theorem mcTail_agree {Q : Nat} {c1 c2 : Bytes} (h : Agree Q c1 c2) (pattern : Bytes) (hn : Bool)
    (nums : List Int) (dflt : Int) (st : Match.MState) (hst : st.cp + st.cl ≤ Q) :
    mcTail pattern c1 hn nums dflt st = mcTail pattern c2 hn nums dflt st := by
  simp only [mcTail]
  rw [← h.mrd (show st.cp ≤ Q by omega), ← h.len]
  by_cases h58 : (Match.rd c1 st.cp == 58) = true
  · simp only [h58, if_true]
    by_cases h2 : st.cl ≥ 2
    · simp only [h2, if_true]
      rw [← h.mrd (show st.cp + 1 ≤ Q by omega)]
      by_cases h42 : (Match.rd c1 (st.cp + 1) != 42) = true
      · simp only [h42, if_true]
        rw [mainLoop_agree h pattern hn dflt _ _ (show (st.cp + 1) + (st.cl - 1) ≤ Q by omega)]
      · simp only [h42, Bool.false_eq_true, if_false]
    · simp only [h2, if_false]
      rw [mainLoop_agree h pattern hn dflt _ _ hst]
  · simp only [h58, Bool.false_eq_true, if_false]
    rw [mainLoop_agree h pattern hn dflt _ _ hst]

theorem matchCommand_agree {Q : Nat} {c1 c2 : Bytes} (h : Agree Q c1 c2) (pattern : Bytes) (len : Nat)
    (numbers : Option (List Int)) (dflt : Int) :
    Match.matchCommand pattern c1 len numbers dflt = Match.matchCommand pattern c2 len numbers dflt := by
  have hcs : c1.takeWhile (· ≠ 0) = c2.takeWhile (· ≠ 0) := by
    have := h.cstr 0 (Nat.zero_le _)
    simpa only [List.drop_zero] using this
  have hlen : (c1.takeWhile (· ≠ 0)).length ≤ Q := takeWhile_len_le_of_getD_zero c1 Q h.nul
  rw [matchCommand_eq, matchCommand_eq]
  simp only []
  rw [← hcs]
  have hclen : min (c1.takeWhile (· ≠ 0)).length len ≤ Q := by omega
  generalize min (c1.takeWhile (· ≠ 0)).length len = clen at hclen
  rw [← h.mrd (show clen - 1 ≤ Q by omega)]
  generalize ((pattern.takeWhile (· ≠ 0)).length : Int) = plen
  have key : ∀ (pl : Int) (cl : Nat), cl ≤ clen →
      mcTail pattern c1 numbers.isSome (numbers.getD []) dflt (mcStart pattern (numbers.getD []) pl cl) =
      mcTail pattern c2 numbers.isSome (numbers.getD []) dflt (mcStart pattern (numbers.getD []) pl cl) := by
    intro pl cl hcl
    have hs := mcStart_cp_cl pattern (numbers.getD []) pl cl
    exact mcTail_agree h pattern _ _ dflt _ (by omega)
  by_cases hq : (Match.rd pattern (plen.toNat - 1) == 63) = true
  · simp only [hq, if_true]
    by_cases h2 : clen > 0 ∧ (Match.rd c1 (clen - 1) == 63) = true
    · simp only [h2, and_self, if_true]
      exact key _ _ (by omega)
    · simp only [h2, if_false]
  · simp only [hq, Bool.false_eq_true, if_false]
    exact key _ _ (Nat.le_refl _)

end ScpiVerif.Lemmas.Isolation

/-! # part 4: error push, status and queue side -/

/-
Helper lemmas for C09 (isolation): the status side of an error push and the queue side of an error
push preserve "same persistent state" (`SameRegs`, `SameQueue`).
-/
namespace ScpiVerif.Lemmas.Isolation
open ScpiVerif ScpiVerif.Props.C09

/-! ### status-register side

Every operation reads only `regs`, `qn`, `cap`; the logs `srq`, `errcb` are only appended to.  So each
operation maps `SameRegs` states to `SameRegs` states. -/

theorem sameRegs_put (s1 s2 : Regs.St) (h : SameRegs s1 s2) (n : Nat) (v : Regs.Reg) :
    SameRegs (Regs.put s1 n v) (Regs.put s2 n v) := by
  obtain ⟨h1, h2, h3⟩ := h
  exact ⟨by simp [Regs.put, h1], h2, h3⟩

theorem sameRegs_get (s1 s2 : Regs.St) (h : SameRegs s1 s2) (n : Nat) : Regs.get s1 n = Regs.get s2 n := by
  simp [Regs.get, h.1]

theorem sameRegs_mk (s1 s2 : Regs.St) (h : SameRegs s1 s2) (a b : List Regs.Reg) (c d : List Int) :
    SameRegs { regs := s1.regs, qn := s1.qn, cap := s1.cap, srq := a, errcb := c }
      { regs := s2.regs, qn := s2.qn, cap := s2.cap, srq := b, errcb := d } := h

theorem sameRegs_ite (c : Prop) [Decidable c] (a1 a2 b1 b2 : Regs.St) (ha : c → SameRegs a1 a2)
    (hb : ¬ c → SameRegs b1 b2) : SameRegs (if c then a1 else b1) (if c then a2 else b2) := by
  split
  · exact ha ‹_›
  · exact hb ‹_›

theorem sameRegs_loop (fuel : Nat) : ∀ (s1 s2 : Regs.St) (n : Nat) (v : Regs.Reg), SameRegs s1 s2 →
    SameRegs (Regs.regSetLoop fuel s1 n v) (Regs.regSetLoop fuel s2 n v) := by
  induction fuel with
  | zero => intro s1 s2 n v h; exact h
  | succ fuel ih =>
    intro s1 s2 n v h
    have hp := sameRegs_put s1 s2 h n v
    have hold : s1.regs.getD n 0 = s2.regs.getD n 0 := by rw [h.1]
    have hg := sameRegs_get _ _ hp
    simp only [Regs.regSetLoop, hold, hg]
    repeat' first
      | exact h
      | exact hp
      | exact sameRegs_put _ _ hp _ _
      | exact sameRegs_mk _ _ (sameRegs_put _ _ hp _ _) _ _ _ _
      | apply ih
      | (apply sameRegs_ite <;> intro _)

theorem sameRegs_regSet (s1 s2 : Regs.St) (h : SameRegs s1 s2) (n : Nat) (v : Regs.Reg) :
    SameRegs (Regs.regSet s1 n v) (Regs.regSet s2 n v) := by
  unfold Regs.regSet
  exact sameRegs_ite _ _ _ _ _ (fun _ => h) (fun _ => sameRegs_loop _ _ _ _ _ h)

theorem sameRegs_regSetBits (s1 s2 : Regs.St) (h : SameRegs s1 s2) (n : Nat) (v : Regs.Reg) :
    SameRegs (Regs.regSetBits s1 n v) (Regs.regSetBits s2 n v) := by
  unfold Regs.regSetBits
  rw [sameRegs_get s1 s2 h n]
  exact sameRegs_regSet _ _ h _ _

theorem sameRegs_emit (s1 s2 : Regs.St) (h : SameRegs s1 s2) (e : Int) :
    SameRegs (Regs.emit s1 e) (Regs.emit s2 e) :=
  sameRegs_mk _ _ (sameRegs_regSetBits _ _ h _ _) _ _ _ _

theorem sameRegs_foldl {β : Type} (f : Regs.St → β → Regs.St)
    (hf : ∀ s1 s2 b, SameRegs s1 s2 → SameRegs (f s1 b) (f s2 b)) (l : List β) :
    ∀ s1 s2, SameRegs s1 s2 → SameRegs (l.foldl f s1) (l.foldl f s2) := by
  induction l with
  | nil => intro s1 s2 h; exact h
  | cons b l ih => intro s1 s2 h; exact ih _ _ (hf _ _ b h)

/-- the class-bit loop of `errPush`, for an arbitrary table -/
theorem sameRegs_classFold (code : Int) (l : List (Int × Int × Nat)) (s1 s2 : Regs.St) (h : SameRegs s1 s2) :
    SameRegs
      (l.foldl (fun s (r : Int × Int × Nat) =>
        if code ≤ r.1 ∧ code ≥ r.2.1 then Regs.regSetBits s Regs.ESR (BitVec.ofNat 16 r.2.2) else s) s1)
      (l.foldl (fun s (r : Int × Int × Nat) =>
        if code ≤ r.1 ∧ code ≥ r.2.1 then Regs.regSetBits s Regs.ESR (BitVec.ofNat 16 r.2.2) else s) s2) := by
  apply sameRegs_foldl
  · intro t1 t2 b ht
    exact sameRegs_ite _ _ _ _ _ (fun _ => sameRegs_regSetBits _ _ ht _ _) (fun _ => ht)
  · exact h

theorem errPush_sameRegs (r1 r2 : Regs.St) (h : SameRegs r1 r2) (code : Int) :
    SameRegs (Regs.errPush r1 code) (Regs.errPush r2 code) := by
  obtain ⟨h1, h2, h3⟩ := h
  have hq : SameRegs (if decide (r1.qn ≥ r1.cap) = true then r1 else { r1 with qn := r1.qn + 1 })
      (if decide (r2.qn ≥ r2.cap) = true then r2 else { r2 with qn := r2.qn + 1 }) := by
    rw [show decide (r1.qn ≥ r1.cap) = decide (r2.qn ≥ r2.cap) by rw [h2, h3]]
    exact sameRegs_ite _ _ _ _ _ (fun _ => ⟨h1, h2, h3⟩) (fun _ => ⟨h1, congrArg (· + 1) h2, h3⟩)
  have hf := sameRegs_classFold code Gen.errClassTable _ _ hq
  unfold Regs.errPush
  rw [show decide (r1.qn ≥ r1.cap) = decide (r2.qn ≥ r2.cap) by rw [h2, h3]] at hf ⊢
  apply sameRegs_ite <;> intro _
  · exact sameRegs_emit _ _ (sameRegs_emit _ _ hf _) _
  · exact sameRegs_emit _ _ hf _

/-! ### queue side -/

theorem push_sameQueue (q1 q2 : Fifo.EQ) (h : SameQueue q1 q2) (w : Bool) (code : Int) (info : Option (List UInt8))
    (infoLen : Nat) (ok : Bool) :
    (q1.push w code info infoLen ok).2 = (q2.push w code info infoLen ok).2 ∧
    SameQueue (q1.push w code info infoLen ok).1 (q2.push w code info infoLen ok).1 := by
  obtain ⟨hi1, hi2, hsz, habs⟩ := h
  have r1 := Lemmas.Fifo.step_refines q1.fifo.size w q1 (Fifo.EQ.abs q1) (.push code info infoLen ok)
    ⟨hi1, rfl, rfl⟩
  have r2 := Lemmas.Fifo.step_refines q1.fifo.size w q2 (Fifo.EQ.abs q1) (.push code info infoLen ok)
    ⟨hi2, hsz.symm, habs.symm⟩
  obtain ⟨o1, j1, s1, a1⟩ := r1
  obtain ⟨o2, j2, s2, a2⟩ := r2
  have ho := o1.trans o2.symm
  simp only [Fifo.EQ.step] at ho j1 s1 a1 j2 s2 a2
  refine ⟨Fifo.Obs.pushed.inj ho, j1, j2, s1.trans s2.symm, a1.trans a2.symm⟩

end ScpiVerif.Lemmas.Isolation

/-! # part 5: the simulation -/

namespace ScpiVerif.Lemmas.Isolation
open ScpiVerif ScpiVerif.Lexer ScpiVerif.Ctx ScpiVerif.Props.C09 ScpiVerif.Result

/-! ## output state: the result writers commute with prepending history -/

/-- prepend a history to the three log fields of the output state -/
def shift (o : Out) (w : Bytes) (p : List Int) (k : Nat) : Out :=
  { o with written := w ++ o.written, pushed := p ++ o.pushed, flushes := k + o.flushes }

/-- the output state without its logs -/
def obase (o : Out) : Out := { o with written := [], pushed := [], flushes := 0 }

theorem shift_obase (o : Out) : shift (obase o) o.written o.pushed o.flushes = o := by
  simp [shift, obase]

@[simp] theorem obase_shift (o : Out) (w : Bytes) (p : List Int) (k : Nat) : obase (shift o w p k) = obase o := rfl

def Equi (f : Out → Out) : Prop := ∀ o w p k, f (shift o w p k) = shift (f o) w p k

theorem Equi.comp {f g : Out → Out} (hf : Equi f) (hg : Equi g) : Equi (fun o => g (f o)) := by
  intro o w p k; simp only [hf o w p k, hg (f o) w p k]

theorem Equi.id : Equi (fun o => o) := fun _ _ _ _ => rfl

theorem Equi.ite {f g : Out → Out} (c : Out → Prop) [∀ o, Decidable (c o)]
    (hc : ∀ o w p k, c (shift o w p k) ↔ c o) (hf : Equi f) (hg : Equi g) :
    Equi (fun o => if c o then f o else g o) := by
  intro o w p k
  by_cases h : c o
  · have := (hc o w p k).2 h; simp only [this, h, if_true]; exact hf o w p k
  · have : ¬ c (shift o w p k) := fun h' => h ((hc o w p k).1 h')
    simp only [this, h, if_false]; exact hg o w p k

theorem equi_writeData (d : Bytes) : Equi (fun o => writeData o d) := by
  intro o w p k; simp [writeData, shift]
theorem equi_writeSep (d : Bytes) : Equi (fun o => writeSep o d) := by
  intro o w p k; simp [writeSep, shift]
theorem equi_bump : Equi bump := by
  intro o w p k; simp [bump, shift]
theorem equi_endUnit : Equi endUnit := by
  intro o w p k; simp [endUnit, shift]

theorem equi_writeDelimiter : Equi writeDelimiter := by
  intro o w p k
  by_cases h1 : o.outputCount > 0
  · simp [writeDelimiter, writeSep, shift, h1]
  · by_cases h2 : o.outputCount < 0
    · simp [writeDelimiter, writeSep, shift, h1, h2]
    · simp [writeDelimiter, writeSep, shift, h1, h2]

theorem equi_resultCharacters (d : Bytes) : Equi (fun o => resultCharacters o d) := by
  intro o w p k
  simp only [resultCharacters, equi_writeDelimiter o w p k, equi_writeData d _ w p k, equi_bump _ w p k]

theorem equi_resultIntBaseSign (w' val : Nat) (base : Int) (sign : Bool) :
    Equi (fun o => resultIntBaseSign o w' val base sign) := by
  intro o w p k
  simp only [resultIntBaseSign, equi_writeDelimiter o w p k, equi_writeData _ _ w p k, equi_bump _ w p k]

theorem equi_resultBool (b : Bool) : Equi (fun o => resultBool o b) := equi_resultIntBaseSign _ _ _ _

theorem equi_resultFloatText (t : Bytes) : Equi (fun o => resultFloatText o t) := by
  intro o w p k
  simp only [resultFloatText, equi_writeDelimiter o w p k, equi_writeData _ _ w p k, equi_bump _ w p k]

theorem equi_resultText (d : Bytes) : Equi (fun o => resultText o d) := by
  intro o w p k
  simp only [resultText, equi_writeDelimiter o w p k, equi_writeData _ _ w p k, equi_bump _ w p k]

theorem equi_resultBlockHeader (n : Nat) : Equi (fun o => resultBlockHeader o n) := by
  intro o w p k
  have h1 : ({ shift o w p k with arbRemaining := n } : Out) = shift { o with arbRemaining := n } w p k := rfl
  simp only [resultBlockHeader, h1, equi_writeDelimiter _ w p k, equi_writeData _ _ w p k]

theorem equi_resultBlockData (d : Bytes) : Equi (fun o => resultBlockData o d) := by
  intro o w p k
  by_cases h1 : o.arbRemaining < d.length
  · simp [resultBlockData, shift, h1]
  · by_cases h2 : o.arbRemaining - d.length = 0
    · simp [resultBlockData, writeData, bump, shift, h1, h2]
    · simp [resultBlockData, writeData, bump, shift, h1, h2]

theorem equi_resultBlock (d : Bytes) : Equi (fun o => resultBlock o d) := by
  intro o w p k
  simp only [resultBlock, equi_resultBlockHeader _ o w p k, equi_resultBlockData d _ w p k]

theorem equi_foldl {α : Type} (f : Out → α → Out) (hf : ∀ a, Equi (fun o => f o a)) (l : List α) :
    Equi (fun o => l.foldl f o) := by
  induction l with
  | nil => exact Equi.id
  | cons a l ih =>
    intro o w p k
    simp only [List.foldl_cons, hf a o w p k]
    exact ih _ w p k

theorem equi_resultArrayBinary (es : List Bytes) (sz : Nat) (same : Bool) :
    Equi (fun o => resultArrayBinary o es sz same) := by
  intro o w p k
  unfold resultArrayBinary
  split
  · simp [shift]
  · split
    · exact equi_resultBlock _ o w p k
    · simp only [equi_resultBlockHeader _ o w p k]
      split
      · exact equi_resultBlockData _ _ w p k
      · have h2 : (if es.isEmpty = true then resultBlockData (shift (resultBlockHeader o (es.length * sz)) w p k) []
                    else shift (resultBlockHeader o (es.length * sz)) w p k) =
            shift (if es.isEmpty = true then resultBlockData (resultBlockHeader o (es.length * sz)) []
                    else resultBlockHeader o (es.length * sz)) w p k := by
          split
          · exact equi_resultBlockData [] _ w p k
          · rfl
        simp only [h2]
        exact equi_foldl (fun o e => resultBlockData o e.reverse) (fun e => equi_resultBlockData e.reverse) es _ w p k

theorem equi_writeNewLine : Equi writeNewLine := by
  intro o w p k
  unfold writeNewLine
  have h1 : (shift o w p k).firstOutput = o.firstOutput := rfl
  simp only [h1]
  split
  · simp [writeSep, shift, Nat.add_assoc]
  · rfl

/-! ### SCPI_ResultError (reached through the library's SYSTem:ERRor[:NEXT]? handler) -/

theorem writeData_shift (o : Out) (d : Bytes) (w : Bytes) (p : List Int) (k : Nat) :
    writeData (shift o w p k) d = shift (writeData o d) w p k := equi_writeData d o w p k

theorem errPartLoop_shift : ∀ (fuel : Nat) (o : Out) (d : Bytes) (len lim : Nat) (w : Bytes) (p : List Int) (k : Nat),
    errPartLoop fuel (shift o w p k) d len lim =
      (shift (errPartLoop fuel o d len lim).1 w p k, (errPartLoop fuel o d len lim).2) := by
  intro fuel
  induction fuel with
  | zero => intro o d len lim w p k; rfl
  | succ fuel ih =>
    intro o d len lim w p k
    unfold errPartLoop
    cases quotePos d len with
    | none => rfl
    | some q =>
      dsimp only
      split
      · rfl
      · rw [writeData_shift, writeData_shift]
        exact ih _ _ _ _ w p k

theorem errParts_shift : ∀ (ps : List (Option Bytes)) (i : Nat) (o : Out) (lim : Nat) (w : Bytes) (p : List Int) (k : Nat),
    errParts i ps (shift o w p k) lim = shift (errParts i ps o lim) w p k := by
  intro ps
  induction ps with
  | nil => intro i o lim w p k; rfl
  | cons x ps ih =>
    intro i o lim w p k
    unfold errParts
    cases x with
    | none => rfl
    | some d =>
      dsimp only
      split
      · rfl
      · have hsemi : (if (shift o w p k).outputCount > 0 then writeData (shift o w p k) [59] else shift o w p k) =
            shift (if o.outputCount > 0 then writeData o [59] else o) w p k := by
          have hc : (shift o w p k).outputCount = o.outputCount := rfl
          rw [hc]
          split
          · exact writeData_shift _ _ _ _ _
          · rfl
        by_cases hi : (i == 1) = true
        · simp only [hi, if_true, hsemi]
          rw [errPartLoop_shift]
          dsimp only
          rw [writeData_shift]
          exact ih _ _ _ w p k
        · simp only [hi, if_false, Bool.false_eq_true]
          rw [errPartLoop_shift]
          dsimp only
          rw [writeData_shift]
          exact ih _ _ _ w p k

theorem equi_resultError (code : Int) (desc : Bytes) (parts : List (Option Bytes)) :
    Equi (fun o => resultError o code desc parts) := by
  intro o w p k
  have hi := equi_resultIntBaseSign 32 (if code < 0 then (2^32 - code.natAbs) else code.toNat) 10 true o w p k
  have hd := fun o => equi_writeDelimiter o w p k
  dsimp only at hi hd
  simp only [resultError, hi, hd, writeData_shift, errParts_shift]
  rfl

/-- equal up to the logs -/
def OutSim (o1 o2 : Out) : Prop := obase o1 = obase o2

theorem OutSim.outputCount {o1 o2 : Out} (h : OutSim o1 o2) : o2.outputCount = o1.outputCount :=
  (congrArg Out.outputCount h).symm
theorem OutSim.firstOutput {o1 o2 : Out} (h : OutSim o1 o2) : o2.firstOutput = o1.firstOutput :=
  (congrArg Out.firstOutput h).symm
theorem OutSim.arbRemaining {o1 o2 : Out} (h : OutSim o1 o2) : o2.arbRemaining = o1.arbRemaining :=
  (congrArg Out.arbRemaining h).symm

/-- both runs extend their logs by the same amounts and stay equal up to the logs -/
structure OutStep (o1 o2 o1' o2' : Out) : Prop where
  sim : OutSim o1' o2'
  ext : ∃ w p k, o1'.written = o1.written ++ w ∧ o2'.written = o2.written ++ w ∧
      o1'.pushed = o1.pushed ++ p ∧ o2'.pushed = o2.pushed ++ p ∧
      o1'.flushes = o1.flushes + k ∧ o2'.flushes = o2.flushes + k

theorem Equi.apply {f : Out → Out} (hf : Equi f) (o : Out) :
    f o = shift (f (obase o)) o.written o.pushed o.flushes := by
  conv => lhs; rw [← shift_obase o]
  exact hf _ _ _ _

theorem Equi.step {f : Out → Out} (hf : Equi f) {o1 o2 : Out} (h : OutSim o1 o2) :
    OutStep o1 o2 (f o1) (f o2) := by
  have e1 := hf.apply o1
  have e2 := hf.apply o2
  unfold OutSim at h
  rw [← h] at e2
  refine ⟨?_, (f (obase o1)).written, (f (obase o1)).pushed, (f (obase o1)).flushes, ?_⟩
  · unfold OutSim; rw [e1, e2]; rfl
  · rw [e1, e2]; exact ⟨rfl, rfl, rfl, rfl, rfl, rfl⟩

/-! ## observations -/

/-- `c'` extends the logs of `c` by events `e`, output bytes `w`, `k` flushes -/
def Ext (c c' : Ctx) (e : List Ev) (w : Bytes) (k : Nat) : Prop :=
  c'.events = c.events ++ e ∧ c'.out.written = c.out.written ++ w ∧ c'.out.flushes = c.out.flushes + k

/-- both runs make the same new observations -/
def Step (c1 c2 c1' c2' : Ctx) : Prop := ∃ e w k, Ext c1 c1' e w k ∧ Ext c2 c2' e w k

theorem Step.of_eq {c1 c2 c1' c2' : Ctx} (h1 : c1'.events = c1.events) (h2 : c1'.out = c1.out)
    (h3 : c2'.events = c2.events) (h4 : c2'.out = c2.out) : Step c1 c2 c1' c2' :=
  ⟨[], [], 0, ⟨by simp [h1], by simp [h2], by rw [h2]; rfl⟩, ⟨by simp [h3], by simp [h4], by rw [h4]; rfl⟩⟩

theorem Step.refl (c1 c2 : Ctx) : Step c1 c2 c1 c2 := Step.of_eq rfl rfl rfl rfl

theorem Step.trans {c1 c2 d1 d2 e1 e2 : Ctx} (h : Step c1 c2 d1 d2) (h' : Step d1 d2 e1 e2) : Step c1 c2 e1 e2 := by
  obtain ⟨e, w, k, ⟨a1, a2, a3⟩, ⟨b1, b2, b3⟩⟩ := h
  obtain ⟨e', w', k', ⟨a1', a2', a3'⟩, ⟨b1', b2', b3'⟩⟩ := h'
  refine ⟨e ++ e', w ++ w', k + k', ⟨?_, ?_, ?_⟩, ⟨?_, ?_, ?_⟩⟩
  · rw [a1', a1, List.append_assoc]
  · rw [a2', a2, List.append_assoc]
  · rw [a3', a3, Nat.add_assoc]
  · rw [b1', b1, List.append_assoc]
  · rw [b2', b2, List.append_assoc]
  · rw [b3', b3, Nat.add_assoc]

theorem Step.events {c1 c2 c1' c2' : Ctx} (ev : List Ev) (h1 : c1'.events = c1.events ++ ev) (h2 : c1'.out = c1.out)
    (h3 : c2'.events = c2.events ++ ev) (h4 : c2'.out = c2.out) : Step c1 c2 c1' c2' :=
  ⟨ev, [], 0, ⟨h1, by simp [h2], by rw [h2]; rfl⟩, ⟨h3, by simp [h4], by rw [h4]; rfl⟩⟩

theorem Step.emit (c1 c2 : Ctx) (e : Ev) : Step c1 c2 (emit c1 e) (emit c2 e) :=
  Step.events [e] rfl rfl rfl rfl

theorem Step.out {c1 c2 c1' c2' : Ctx} (h1 : c1'.events = c1.events) (h3 : c2'.events = c2.events)
    (ho : OutStep c1.out c2.out c1'.out c2'.out) : Step c1 c2 c1' c2' := by
  obtain ⟨w, p, k, a, b, _, _, e, f⟩ := ho.ext
  exact ⟨[], w, k, ⟨by simp [h1], a, e⟩, ⟨by simp [h3], b, f⟩⟩

theorem Step.newObs {c1 c2 c1' c2' : Ctx} (h : Step c1 c2 c1' c2') : newObs c1 c1' = newObs c2 c2' := by
  obtain ⟨e, w, k, ⟨a1, a2, a3⟩, ⟨b1, b2, b3⟩⟩ := h
  unfold Props.C09.newObs
  rw [a1, a2, a3, b1, b2, b3]
  simp

/-! ## the relations -/

/-- what persists between units and messages -/
structure SimW (P : Nat) (c1 c2 : Ctx) : Prop where
  cmds : c2.cmds = c1.cmds
  choices : c2.choices = c1.choices
  withInfo : c2.withInfo = c1.withInfo
  bufLen : c2.bufLen = c1.bufLen
  position : c2.position = c1.position
  buf : Agree P c1.buf c2.buf
  inb : P < c1.buf.length
  blen : c1.buf.length = c1.bufLen
  pos : c1.position ≤ P
  regs : SameRegs c1.regs c2.regs
  eq : SameQueue c1.eq c2.eq

/-- what is live while one unit is being processed -/
structure Live (P : Nat) (c1 c2 : Ctx) : Prop where
  cmdError : c2.cmdError = c1.cmdError
  inputCount : c2.inputCount = c1.inputCount
  pbase : c2.pbase = c1.pbase
  plen : c2.plen = c1.plen
  ppos : c2.ppos = c1.ppos
  cur : c2.cur = c1.cur
  rawOff : c2.rawOff = c1.rawOff
  rawLen : c2.rawLen = c1.rawLen
  out : OutSim c1.out c2.out
  win : c1.pbase + c1.plen ≤ P
  raw : c1.rawOff + c1.rawLen ≤ P

structure Sim (P : Nat) (c1 c2 : Ctx) : Prop where
  w : SimW P c1 c2
  l : Live P c1 c2

/-! ## pushError -/

theorem pushError_eq (c : Ctx) (code : Int) (info : Option Bytes) (n : Nat) :
    pushError c code info n =
      { c with eq := (c.eq.push c.withInfo code info n true).1, regs := Regs.errPush c.regs code, cmdError := true,
               events := c.events ++ ([.error code (info.map (fun s => if n = 0 then s.takeWhile (· ≠ 0) else (s.takeWhile (· ≠ 0)).take n))] ++
                 (if (c.eq.push c.withInfo code info n true).2.length > 1 then [.error Fifo.overflowCode none] else [])) } := by
  unfold pushError
  simp only []
  split <;> simp [emit]

theorem pushError_simW {P : Nat} {c1 c2 : Ctx} (h : SimW P c1 c2) (code : Int) (info : Option Bytes) (n : Nat) :
    SimW P (pushError c1 code info n) (pushError c2 code info n) := by
  rw [pushError_eq, pushError_eq]
  have hq := push_sameQueue c1.eq c2.eq h.eq c1.withInfo code info n true
  refine ⟨h.cmds, h.choices, h.withInfo, h.bufLen, h.position, h.buf, h.inb, h.blen, h.pos, ?_, ?_⟩
  · exact errPush_sameRegs _ _ h.regs code
  · show SameQueue _ (c2.eq.push c2.withInfo code info n true).1
    rw [h.withInfo]; exact hq.2

theorem pushError_step {P : Nat} {c1 c2 : Ctx} (h : SimW P c1 c2) (code : Int) (info : Option Bytes) (n : Nat) :
    Step c1 c2 (pushError c1 code info n) (pushError c2 code info n) := by
  rw [pushError_eq, pushError_eq]
  have hq := push_sameQueue c1.eq c2.eq h.eq c1.withInfo code info n true
  rw [h.withInfo, ← hq.1]
  exact Step.events _ rfl rfl rfl rfl

theorem pushError_live {P : Nat} {c1 c2 : Ctx} (h : Live P c1 c2) (code : Int) (info : Option Bytes) (n : Nat) :
    Live P (pushError c1 code info n) (pushError c2 code info n) := by
  rw [pushError_eq, pushError_eq]
  exact ⟨rfl, h.inputCount, h.pbase, h.plen, h.ppos, h.cur, h.rawOff, h.rawLen, h.out, h.win, h.raw⟩

theorem pushError_sim {P : Nat} {c1 c2 : Ctx} (h : Sim P c1 c2) (code : Int) (info : Option Bytes) (n : Nat) :
    Sim P (pushError c1 code info n) (pushError c2 code info n) :=
  ⟨pushError_simW h.w code info n, pushError_live h.l code info n⟩

/-! ## SCPI_Parameter -/

/-- two runs of a reader: related results, same new observations, same return value -/
def RR {α : Type} (P : Nat) (c1 c2 : Ctx) (x1 x2 : Ctx × α) : Prop :=
  Sim P x1.1 x2.1 ∧ Step c1 c2 x1.1 x2.1 ∧ x1.2 = x2.2

theorem RR.mk' {α : Type} {P : Nat} {c1 c2 d1 d2 : Ctx} (hs : Sim P d1 d2) (hst : Step c1 c2 d1 d2) (v : α) :
    RR P c1 c2 (d1, v) (d2, v) := ⟨hs, hst, rfl⟩

theorem RR.same {α : Type} {P : Nat} {c1 c2 : Ctx} (h : Sim P c1 c2) (v : α) : RR P c1 c2 (c1, v) (c2, v) :=
  ⟨h, Step.refl _ _, rfl⟩

theorem RR.err {α : Type} {P : Nat} {c1 c2 : Ctx} (h : Sim P c1 c2) (code : Int) (v : α) :
    RR P c1 c2 (pushError c1 code none, v) (pushError c2 code none, v) :=
  ⟨pushError_sim h code none 0, pushError_step h.w code none 0, rfl⟩

/-- continue after a first reader -/
theorem RR.trans {α : Type} {P : Nat} {c1 c2 d1 d2 : Ctx} {x1 x2 : Ctx × α} (hst : Step c1 c2 d1 d2)
    (h : RR P d1 d2 x1 x2) : RR P c1 c2 x1 x2 := ⟨h.1, hst.trans h.2.1, h.2.2⟩

theorem pwin_eq {P : Nat} {c1 c2 : Ctx} (h : Sim P c1 c2) : pwin c2 = pwin c1 := by
  unfold pwin
  rw [h.l.pbase, h.l.plen]
  exact (h.w.buf.window _ _ (by have := h.l.win; omega)).symm

/-- the part of `parameter` after the separator -/
def pgo (c : Ctx) (rel : Nat) : Ctx × Bool × Token :=
  let inval : Token := ⟨.unknown, 0, 0⟩
  let win := pwin c
  let c := { c with inputCount := c.inputCount + 1 }
  let (p, tok, _) := Parser.parseProgramData win rel
  let c := { c with ppos := c.pbase + p }
  match tok.type with
  | .hexnum | .octnum | .binnum | .programMnemonic | .decimal | .decimalWithSuffix | .block
  | .singleQuote | .doubleQuote | .expression => (c, true, { tok with ptr := c.pbase + tok.ptr })
  | _ => (pushError c (-151) none, false, inval)

theorem parameter_eq (c : Ctx) (mand : Bool) :
    parameter c mand =
      if c.ppos ≥ c.pbase + c.plen then
        if mand then (pushError c (-109) none, false, ⟨.unknown, 0, 0⟩)
        else (c, false, ⟨.programMnemonic, 0, 0⟩)
      else if c.inputCount != 0 then
        if (Lexer.lexComma (pwin c) (c.ppos - c.pbase)).2.1.type != .comma then
          (pushError { c with ppos := c.pbase + (Lexer.lexComma (pwin c) (c.ppos - c.pbase)).1 } (-103) none, false, ⟨.unknown, 0, 0⟩)
        else pgo { c with ppos := c.pbase + (Lexer.lexComma (pwin c) (c.ppos - c.pbase)).1 } (Lexer.lexComma (pwin c) (c.ppos - c.pbase)).1
      else pgo c (c.ppos - c.pbase) := by
  rfl

theorem Sim.setParam {P : Nat} {c1 c2 : Ctx} (h : Sim P c1 c2) {n1 n2 p1 p2 : Nat} (hn : n2 = n1) (hp : p2 = p1) :
    Sim P { c1 with inputCount := n1, ppos := p1 } { c2 with inputCount := n2, ppos := p2 } :=
  ⟨⟨h.w.cmds, h.w.choices, h.w.withInfo, h.w.bufLen, h.w.position, h.w.buf, h.w.inb, h.w.blen, h.w.pos, h.w.regs, h.w.eq⟩,
   ⟨h.l.cmdError, hn, h.l.pbase, h.l.plen, hp, h.l.cur, h.l.rawOff, h.l.rawLen, h.l.out, h.l.win, h.l.raw⟩⟩

theorem Sim.setPpos {P : Nat} {c1 c2 : Ctx} (h : Sim P c1 c2) {p1 p2 : Nat} (hp : p2 = p1) :
    Sim P { c1 with ppos := p1 } { c2 with ppos := p2 } :=
  ⟨⟨h.w.cmds, h.w.choices, h.w.withInfo, h.w.bufLen, h.w.position, h.w.buf, h.w.inb, h.w.blen, h.w.pos, h.w.regs, h.w.eq⟩,
   ⟨h.l.cmdError, h.l.inputCount, h.l.pbase, h.l.plen, hp, h.l.cur, h.l.rawOff, h.l.rawLen, h.l.out, h.l.win, h.l.raw⟩⟩

theorem pgo_sim {P : Nat} {c1 c2 : Ctx} (h : Sim P c1 c2) (rel : Nat) : RR P c1 c2 (pgo c1 rel) (pgo c2 rel) := by
  unfold pgo
  simp only []
  rw [pwin_eq h]
  generalize Parser.parseProgramData (pwin c1) rel = x
  obtain ⟨p, tok, r⟩ := x
  simp only []
  have hs : Sim P { c1 with inputCount := c1.inputCount + 1, ppos := c1.pbase + p }
      { c2 with inputCount := c2.inputCount + 1, ppos := c2.pbase + p } :=
    h.setParam (by rw [h.l.inputCount]) (by rw [h.l.pbase])
  have hst : Step c1 c2 { c1 with inputCount := c1.inputCount + 1, ppos := c1.pbase + p }
      { c2 with inputCount := c2.inputCount + 1, ppos := c2.pbase + p } := Step.of_eq rfl rfl rfl rfl
  cases tok.type <;> simp only [] <;>
    first
    | exact ⟨hs, hst, by simp [h.l.pbase]⟩
    | exact RR.trans hst (RR.err hs _ _)

theorem parameter_sim {P : Nat} {c1 c2 : Ctx} (h : Sim P c1 c2) (mand : Bool) :
    RR P c1 c2 (parameter c1 mand) (parameter c2 mand) := by
  rw [parameter_eq, parameter_eq]
  have e0 : (c2.ppos ≥ c2.pbase + c2.plen) = (c1.ppos ≥ c1.pbase + c1.plen) := by
    rw [h.l.ppos, h.l.pbase, h.l.plen]
  have e1 : (c2.inputCount != 0) = (c1.inputCount != 0) := by rw [h.l.inputCount]
  have e2 : c2.ppos - c2.pbase = c1.ppos - c1.pbase := by rw [h.l.ppos, h.l.pbase]
  simp only [e0, e1, e2, pwin_eq h]
  by_cases h1 : c1.ppos ≥ c1.pbase + c1.plen
  · rw [if_pos h1, if_pos h1]
    cases mand
    · exact RR.same h _
    · exact RR.err h _ _
  · rw [if_neg h1, if_neg h1]
    by_cases h2 : (c1.inputCount != 0) = true
    · rw [if_pos h2, if_pos h2]
      have hs : Sim P { c1 with ppos := c1.pbase + (Lexer.lexComma (pwin c1) (c1.ppos - c1.pbase)).1 }
          { c2 with ppos := c2.pbase + (Lexer.lexComma (pwin c1) (c1.ppos - c1.pbase)).1 } :=
        h.setPpos (by rw [h.l.pbase])
      have hst : Step c1 c2 { c1 with ppos := c1.pbase + (Lexer.lexComma (pwin c1) (c1.ppos - c1.pbase)).1 }
          { c2 with ppos := c2.pbase + (Lexer.lexComma (pwin c1) (c1.ppos - c1.pbase)).1 } := Step.of_eq rfl rfl rfl rfl
      by_cases h3 : ((Lexer.lexComma (pwin c1) (c1.ppos - c1.pbase)).2.1.type != .comma) = true
      · rw [if_pos h3, if_pos h3]
        exact RR.trans hst (RR.err hs _ _)
      · rw [if_neg h3, if_neg h3]
        exact RR.trans hst (pgo_sim hs _)
    · rw [if_neg h2, if_neg h2]
      exact pgo_sim h _

/-- a delivered token lies inside the parameter window -/
theorem pgo_tok (c : Ctx) (rel : Nat) (hw : c.pbase + c.plen ≤ c.buf.length) (hr : rel ≤ c.plen) :
    (pgo c rel).2.1 = true → (pgo c rel).2.2.ptr + (pgo c rel).2.2.len.toNat ≤ c.pbase + c.plen := by
  have hl : (pwin c).length = c.plen := Bounds.window_length _ _ _ hw
  have hb := Bounds.lb_programData (pwin c) rel (by omega)
  unfold pgo
  simp only []
  generalize Parser.parseProgramData (pwin c) rel = x at hb
  obtain ⟨p, tok, r⟩ := x
  obtain ⟨_, _, _, b4⟩ := hb
  simp only at b4 ⊢
  cases tok.type <;> simp only [] <;> intro hh <;> first | (exact absurd hh (by decide)) | omega

theorem parameter_tok (c : Ctx) (mand : Bool) (hw : c.pbase + c.plen ≤ c.buf.length) :
    (parameter c mand).2.1 = true →
      (parameter c mand).2.2.ptr + (parameter c mand).2.2.len.toNat ≤ c.pbase + c.plen := by
  have hl : (pwin c).length = c.plen := Bounds.window_length _ _ _ hw
  rw [parameter_eq]
  split
  · split <;> intro hh <;> simp at hh
  · rename_i h1
    have hb := Bounds.lb_comma (pwin c) (c.ppos - c.pbase) (by omega)
    split
    · split
      · intro hh; simp at hh
      · exact pgo_tok { c with ppos := c.pbase + (Lexer.lexComma (pwin c) (c.ppos - c.pbase)).1 } _ hw
          (by show (Lexer.lexComma (pwin c) (c.ppos - c.pbase)).1 ≤ c.plen
              have := hb.2.1; omega)
    · exact pgo_tok c _ hw (by omega)

theorem parameter_tokP {P : Nat} {c1 c2 : Ctx} (h : Sim P c1 c2) (mand : Bool) :
    (parameter c1 mand).2.1 = true →
      (parameter c1 mand).2.2.ptr + (parameter c1 mand).2.2.len.toNat ≤ P := by
  intro hh
  have := parameter_tok c1 mand (by have := h.l.win; have := h.w.inb; omega) hh
  have := h.l.win
  omega

/-! ## the typed readers -/

theorem RR.map {α β : Type} {P : Nat} {c1 c2 : Ctx} {x1 x2 : Ctx × α} (f : α → β) (h : RR P c1 c2 x1 x2) :
    RR P c1 c2 (x1.1, f x1.2) (x2.1, f x2.2) := ⟨h.1, h.2.1, congrArg f h.2.2⟩

-- opens a reader: both runs of `parameter` are replaced by related results `(d1, ok1, t1)`, `(d2, ok1, t1)`
set_option hygiene false in
macro "open_param" h:ident m:ident : tactic => `(tactic|
  (have hp := parameter_sim $h $m
   have hb := parameter_tokP $h $m
   generalize parameter _ $m = x1 at hp hb
   generalize parameter _ $m = x2 at hp
   obtain ⟨d1, ok1, t1⟩ := x1
   obtain ⟨d2, ok2, t2⟩ := x2
   obtain ⟨hs, hst, hv⟩ := hp
   simp only [Prod.mk.injEq] at hv
   obtain ⟨hv1, hv2⟩ := hv
   subst hv1
   subst hv2
   simp only [] at hs hst hb ⊢
   apply RR.trans hst))

theorem paramToInt_eq {P : Nat} {c1 c2 : Ctx} (h : Sim P c1 c2) (t : Token) (w : Nat) (s : Bool) (ht : t.ptr ≤ P) :
    paramToInt c2 t w s = paramToInt c1 t w s := by
  have e1 : ∀ base, Prim.strtoulTo w c2.buf t.ptr base = Prim.strtoulTo w c1.buf t.ptr base :=
    fun b => (strtoulTo_agree h.w.buf w t.ptr b ht).symm
  have e2 : ∀ base, Prim.strtolTo w c2.buf t.ptr base = Prim.strtolTo w c1.buf t.ptr base :=
    fun b => (strtolTo_agree h.w.buf w t.ptr b ht).symm
  unfold paramToInt
  simp only [e1, e2]

theorem paramInt_sim {P : Nat} {c1 c2 : Ctx} (h : Sim P c1 c2) (w : Nat) (s m : Bool) :
    RR P c1 c2 (paramInt c1 w s m) (paramInt c2 w s m) := by
  unfold paramInt
  open_param h m
  cases ok1
  · exact RR.same hs _
  · have ht : t1.ptr ≤ P := by have := hb rfl; omega
    simp only [Bool.not_true, Bool.false_eq_true, if_false]
    rw [paramToInt_eq hs t1 w s ht]
    split
    · generalize paramToInt d1 t1 w s = y
      obtain ⟨r, v⟩ := y
      simp only []
      split
      · exact RR.same hs _
      · exact RR.err hs _ _
    · split
      · exact RR.err hs _ _
      · exact RR.err hs _ _

theorem paramFloat_sim {P : Nat} {c1 c2 : Ctx} (h : Sim P c1 c2) (dbl m : Bool) :
    RR P c1 c2 (paramFloat c1 dbl m) (paramFloat c2 dbl m) := by
  unfold paramFloat
  open_param h m
  cases ok1
  · exact RR.same hs _
  · have ht : t1.ptr ≤ P := by have := hb rfl; omega
    simp only [Bool.not_true, Bool.false_eq_true, if_false]
    rw [paramToInt_eq hs t1 _ false ht]
    obtain ⟨f1, f2⟩ := strtodLen_agree hs.w.buf t1.ptr ht
    have f3 : (d2.buf.drop t1.ptr).take (Prim.strtodLen d1.buf t1.ptr) =
        (d1.buf.drop t1.ptr).take (Prim.strtodLen d1.buf t1.ptr) := (hs.w.buf.window _ _ (by omega)).symm
    rw [← f1, f3]
    split
    · split
      · exact RR.same hs _
      · exact RR.same hs _
    · split
      · exact RR.err hs _ _
      · exact RR.err hs _ _

theorem paramToChoice_sim {P : Nat} {c1 c2 : Ctx} (h : Sim P c1 c2) (t : Token) (opts : List (Bytes × Int))
    (ht : t.ptr + t.len.toNat ≤ P + 1) :
    RR P c1 c2 (paramToChoice c1 t opts) (paramToChoice c2 t opts) := by
  unfold paramToChoice
  have e : (c2.buf.drop t.ptr).take t.len.toNat = (c1.buf.drop t.ptr).take t.len.toNat :=
    (h.w.buf.window _ _ ht).symm
  simp only [e]
  split
  · split
    · exact RR.same h _
    · exact RR.err h _ _
  · exact RR.err h _ _

theorem paramBool_sim {P : Nat} {c1 c2 : Ctx} (h : Sim P c1 c2) (m : Bool) :
    RR P c1 c2 (paramBool c1 m) (paramBool c2 m) := by
  unfold paramBool
  open_param h m
  cases ok1
  · exact RR.same hs _
  · have ht := hb rfl
    simp only [Bool.not_true, Bool.false_eq_true, if_false]
    rw [paramToInt_eq hs t1 32 true (by omega)]
    split
    · exact RR.same hs _
    · exact RR.map (fun p : Bool × Int => (p.1, p.2 != 0)) (paramToChoice_sim hs t1 boolDef (by omega))

theorem paramChoice_sim {P : Nat} {c1 c2 : Ctx} (h : Sim P c1 c2) (m : Bool) (opts : List (Bytes × Int)) :
    RR P c1 c2 (paramChoice c1 m opts) (paramChoice c2 m opts) := by
  unfold paramChoice
  open_param h m
  cases ok1
  · exact RR.same hs _
  · have ht := hb rfl
    simp only [Bool.not_true, Bool.false_eq_true, if_false]
    exact paramToChoice_sim hs t1 opts (by omega)

theorem paramChars_sim {P : Nat} {c1 c2 : Ctx} (h : Sim P c1 c2) (m : Bool) :
    RR P c1 c2 (paramChars c1 m) (paramChars c2 m) := by
  unfold paramChars
  open_param h m
  cases ok1
  · exact RR.same hs _
  · have ht := hb rfl
    simp only [Bool.not_true, Bool.false_eq_true, if_false]
    have e1 : (d2.buf.drop t1.ptr).take t1.len.toNat = (d1.buf.drop t1.ptr).take t1.len.toNat :=
      (hs.w.buf.window _ _ (by omega)).symm
    have e2 : (d2.buf.drop (t1.ptr + 1)).take (t1.len.toNat - 2) = (d1.buf.drop (t1.ptr + 1)).take (t1.len.toNat - 2) :=
      (hs.w.buf.window _ _ (by omega)).symm
    rw [e1, e2]
    split <;> exact RR.same hs _

theorem paramBlock_sim {P : Nat} {c1 c2 : Ctx} (h : Sim P c1 c2) (m : Bool) :
    RR P c1 c2 (paramBlock c1 m) (paramBlock c2 m) := by
  unfold paramBlock
  open_param h m
  cases ok1
  · exact RR.same hs _
  · have ht := hb rfl
    simp only [Bool.not_true, Bool.false_eq_true, if_false]
    have e1 : (d2.buf.drop t1.ptr).take t1.len.toNat = (d1.buf.drop t1.ptr).take t1.len.toNat :=
      (hs.w.buf.window _ _ (by omega)).symm
    rw [e1]
    split
    · exact RR.same hs _
    · exact RR.err hs _ _

theorem paramText_sim {P : Nat} {c1 c2 : Ctx} (h : Sim P c1 c2) (m : Bool) (cap : Nat) :
    RR P c1 c2 (paramText c1 m cap) (paramText c2 m cap) := by
  unfold paramText
  open_param h m
  cases ok1
  · exact RR.same hs _
  · have ht := hb rfl
    simp only [Bool.not_true, Bool.false_eq_true, if_false]
    have e1 : (d2.buf.drop t1.ptr).take t1.len.toNat = (d1.buf.drop t1.ptr).take t1.len.toNat :=
      (hs.w.buf.window _ _ (by omega)).symm
    rw [e1]
    split
    · exact RR.same hs _
    · exact RR.same hs _
    · exact RR.err hs _ _

theorem paramArr_go_sim {P : Nat} (w : Nat) (s : Bool) : ∀ (n : Nat) (c1 c2 : Ctx) (m : Bool) (acc : List Int),
    Sim P c1 c2 → RR P c1 c2 (paramArrInt.go w s n c1 m acc) (paramArrInt.go w s n c2 m acc) := by
  intro n
  induction n with
  | zero => intro c1 c2 m acc h; exact RR.same h _
  | succ n ih =>
    intro c1 c2 m acc h
    unfold paramArrInt.go
    have hp := paramInt_sim h w s m
    generalize paramInt c1 w s m = x1 at hp
    generalize paramInt c2 w s m = x2 at hp
    obtain ⟨d1, ok1, v1⟩ := x1
    obtain ⟨d2, ok2, v2⟩ := x2
    obtain ⟨hs, hst, hv⟩ := hp
    simp only [Prod.mk.injEq] at hv
    obtain ⟨hv1, hv2⟩ := hv
    subst hv1
    subst hv2
    simp only [] at hs hst ⊢
    apply RR.trans hst
    split
    · exact ih d1 d2 false _ hs
    · exact RR.same hs _

theorem paramArrInt_sim {P : Nat} {c1 c2 : Ctx} (h : Sim P c1 c2) (w : Nat) (s : Bool) (cap : Nat) (m : Bool) :
    RR P c1 c2 (paramArrInt c1 w s cap m) (paramArrInt c2 w s cap m) :=
  paramArr_go_sim w s cap c1 c2 m [] h

theorem paramNumber_sim {P : Nat} {c1 c2 : Ctx} (h : Sim P c1 c2) (m : Bool) :
    RR P c1 c2 (paramNumber c1 m) (paramNumber c2 m) := by
  unfold paramNumber
  open_param h m
  cases ok1
  · exact RR.same hs _
  · have ht := hb rfl
    simp only [Bool.not_true, Bool.false_eq_true, if_false]
    have e1 : (d2.buf.drop t1.ptr).take t1.len.toNat = (d1.buf.drop t1.ptr).take t1.len.toNat :=
      (hs.w.buf.window _ _ (by omega)).symm
    obtain ⟨f1, f2⟩ := strtodLen_agree hs.w.buf t1.ptr (by omega)
    have f3 : (d2.buf.drop t1.ptr).take (Prim.strtodLen d1.buf t1.ptr) =
        (d1.buf.drop t1.ptr).take (Prim.strtodLen d1.buf t1.ptr) := (hs.w.buf.window _ _ (by omega)).symm
    rw [e1, ← f1, f3, paramToInt_eq hs t1 64 false (by omega)]
    generalize htb : (d1.buf.drop t1.ptr).take t1.len.toNat = tokBytes
    have hlen : tokBytes.length ≤ t1.len.toNat := by rw [← htb]; exact Bounds.window_length_le _ _ _
    split
    all_goals first
      | exact RR.same hs _
      | exact RR.err hs _ _
      | skip
    · split
      · exact RR.same hs _
      · split
        · exact RR.same hs _
        · exact RR.err hs _ _
    · have hw := Bounds.lb_whiteSpace tokBytes 0 (Nat.zero_le _)
      have hc := (Bounds.lb_characterData tokBytes _ hw.2.1).2.2.2
      generalize Lexer.lexCharacterProgramData tokBytes (Lexer.lexWhiteSpace tokBytes 0).1 = ct at hc ⊢
      obtain ⟨cp, ctok, cr⟩ := ct
      simp only [] at hc ⊢
      exact RR.map (fun p : Bool × Int => Ev.pNumber p.1 true p.2 [] 0 1 1 10)
        (paramToChoice_sim hs _ specialDef (by simp only []; omega))

/-! ## handler scripts -/

theorem Sim.emit {P : Nat} {c1 c2 : Ctx} (h : Sim P c1 c2) (e1 e2 : Ev) : Sim P (emit c1 e1) (emit c2 e2) :=
  ⟨⟨h.w.cmds, h.w.choices, h.w.withInfo, h.w.bufLen, h.w.position, h.w.buf, h.w.inb, h.w.blen, h.w.pos, h.w.regs, h.w.eq⟩,
   ⟨h.l.cmdError, h.l.inputCount, h.l.pbase, h.l.plen, h.l.ppos, h.l.cur, h.l.rawOff, h.l.rawLen, h.l.out, h.l.win, h.l.raw⟩⟩

theorem Sim.setOut {P : Nat} {c1 c2 : Ctx} (h : Sim P c1 c2) {o1 o2 : Out} (ho : OutSim o1 o2) :
    Sim P { c1 with out := o1 } { c2 with out := o2 } :=
  ⟨⟨h.w.cmds, h.w.choices, h.w.withInfo, h.w.bufLen, h.w.position, h.w.buf, h.w.inb, h.w.blen, h.w.pos, h.w.regs, h.w.eq⟩,
   ⟨h.l.cmdError, h.l.inputCount, h.l.pbase, h.l.plen, h.l.ppos, h.l.cur, h.l.rawOff, h.l.rawLen, ho, h.l.win, h.l.raw⟩⟩

/-- related handler states -/
structure HS (P : Nat) (h1 h2 : HState) : Prop where
  sim : Sim P h1.c h2.c
  stopOnFail : h2.stopOnFail = h1.stopOnFail
  result : h2.result = h1.result
  done : h2.done = h1.done

def HR (P : Nat) (h1 h2 r1 r2 : HState) : Prop := HS P r1 r2 ∧ Step h1.c h2.c r1.c r2.c

/-- the common tail of the reader operations -/
def finX (h : HState) (c : Ctx) (ok : Bool) (e : Ev) : HState :=
  if !ok ∧ h.stopOnFail then { h with c := emit c e, result := false, done := true } else { h with c := emit c e }

theorem fin_sim {α : Type} {P : Nat} {h1 h2 : HState} (hh : HS P h1 h2) {x1 x2 : Ctx × α}
    (hr : RR P h1.c h2.c x1 x2) (okf : α → Bool) (E : α → Ev) :
    HR P h1 h2 (finX h1 x1.1 (okf x1.2) (E x1.2)) (finX h2 x2.1 (okf x2.2) (E x2.2)) := by
  obtain ⟨d1, v1⟩ := x1
  obtain ⟨d2, v2⟩ := x2
  obtain ⟨hs, hst, hv⟩ := hr
  simp only at hs hst hv
  subst hv
  have hst2 : Step h1.c h2.c (emit d1 (E v1)) (emit d2 (E v1)) := hst.trans (Step.emit _ _ _)
  unfold finX
  by_cases hc : (!okf v1) = true ∧ h1.stopOnFail = true
  · have hc2 : (!okf v1) = true ∧ h2.stopOnFail = true := by rw [hh.stopOnFail]; exact hc
    rw [if_pos hc, if_pos hc2]
    exact ⟨⟨hs.emit _ _, hh.stopOnFail, rfl, rfl⟩, hst2⟩
  · have hc2 : ¬ ((!okf v1) = true ∧ h2.stopOnFail = true) := by rw [hh.stopOnFail]; exact hc
    rw [if_neg hc, if_neg hc2]
    exact ⟨⟨hs.emit _ _, hh.stopOnFail, hh.result, hh.done⟩, hst2⟩

theorem out_sim {P : Nat} {h1 h2 : HState} (hh : HS P h1 h2) {f : Out → Out} (hf : Equi f) :
    HR P h1 h2 { h1 with c := { h1.c with out := f h1.c.out } } { h2 with c := { h2.c with out := f h2.c.out } } := by
  have ho := hf.step hh.sim.l.out
  exact ⟨⟨hh.sim.setOut ho.sim, hh.stopOnFail, hh.result, hh.done⟩, Step.out rfl rfl ho⟩

theorem out_err_sim {P : Nat} {h1 h2 : HState} (hh : HS P h1 h2) {f : Out → Out} (hf : Equi f) :
    HR P h1 h2
      { h1 with c := if (f h1.c.out).pushed.length > h1.c.out.pushed.length
                     then pushError { h1.c with out := f h1.c.out } (-310) none else { h1.c with out := f h1.c.out } }
      { h2 with c := if (f h2.c.out).pushed.length > h2.c.out.pushed.length
                     then pushError { h2.c with out := f h2.c.out } (-310) none else { h2.c with out := f h2.c.out } } := by
  have ho := hf.step hh.sim.l.out
  have hs := hh.sim.setOut ho.sim
  have hst : Step h1.c h2.c { h1.c with out := f h1.c.out } { h2.c with out := f h2.c.out } := Step.out rfl rfl ho
  obtain ⟨w, p, k, _, _, p1, p2, _, _⟩ := ho.ext
  have e : ((f h2.c.out).pushed.length > h2.c.out.pushed.length) = ((f h1.c.out).pushed.length > h1.c.out.pushed.length) := by
    rw [p1, p2]; simp
  simp only [e]
  split
  · exact ⟨⟨pushError_sim hs (-310) none 0, hh.stopOnFail, hh.result, hh.done⟩, hst.trans (pushError_step hs.w (-310) none 0)⟩
  · exact ⟨⟨hs, hh.stopOnFail, hh.result, hh.done⟩, hst⟩

/-! ## the library's own handlers (Model/Ctx.lean `runBuiltin`) -/

theorem sameRegs_regClearBits (s1 s2 : Regs.St) (h : SameRegs s1 s2) (n : Nat) (v : Regs.Reg) :
    SameRegs (Regs.regClearBits s1 n v) (Regs.regClearBits s2 n v) := by
  unfold Regs.regClearBits
  rw [sameRegs_get s1 s2 h n]
  exact sameRegs_regSet _ _ h _ _

theorem sameRegs_emitEmpty (s1 s2 : Regs.St) (h : SameRegs s1 s2) :
    SameRegs (Regs.emitEmpty s1) (Regs.emitEmpty s2) := by
  unfold Regs.emitEmpty
  rw [h.2.1, sameRegs_get s1 s2 h Regs.STB]
  exact sameRegs_ite _ _ _ _ _ (fun _ => sameRegs_mk _ _ (sameRegs_regClearBits _ _ h _ _) _ _ _ _) (fun _ => h)

theorem sameRegs_step (s1 s2 : Regs.St) (h : SameRegs s1 s2) (op : Regs.Op) :
    SameRegs (Regs.step s1 op) (Regs.step s2 op) := by
  cases op with
  | set n v => exact sameRegs_regSet _ _ h _ _
  | setBits n v => exact sameRegs_regSetBits _ _ h _ _
  | clearBits n v => exact sameRegs_regClearBits _ _ h _ _
  | errPush c => exact errPush_sameRegs _ _ h c
  | errPop =>
    exact sameRegs_emitEmpty _ _ ⟨h.1, by show s1.qn - 1 = s2.qn - 1; rw [h.2.1], h.2.2⟩
  | errClear => exact sameRegs_emitEmpty _ _ ⟨h.1, rfl, h.2.2⟩
  | cls =>
    show SameRegs (Regs.cls s1) (Regs.cls s2)
    unfold Regs.cls
    apply sameRegs_foldl
    · intro t1 t2 i ht
      exact sameRegs_ite _ _ _ _ _ (fun _ => sameRegs_regSet _ _ ht _ _) (fun _ => ht)
    · exact sameRegs_emitEmpty _ _ ⟨h.1, rfl, h.2.2⟩
  | esrQ => exact sameRegs_regSet _ _ h _ _
  | operQ => exact sameRegs_regSet _ _ h _ _
  | quesQ => exact sameRegs_regSet _ _ h _ _
  | preset => exact sameRegs_regSet _ _ h _ _

/-- every queue operation: same observation, related queues -/
theorem sameQueue_step (q1 q2 : Fifo.EQ) (h : SameQueue q1 q2) (w : Bool) (op : Fifo.Op) :
    (Fifo.EQ.step w q1 op).2 = (Fifo.EQ.step w q2 op).2 ∧
    SameQueue (Fifo.EQ.step w q1 op).1 (Fifo.EQ.step w q2 op).1 := by
  obtain ⟨hi1, hi2, hsz, habs⟩ := h
  obtain ⟨o1, j1, s1, a1⟩ := Lemmas.Fifo.step_refines q1.fifo.size w q1 (Fifo.EQ.abs q1) op ⟨hi1, rfl, rfl⟩
  obtain ⟨o2, j2, s2, a2⟩ := Lemmas.Fifo.step_refines q1.fifo.size w q2 (Fifo.EQ.abs q1) op ⟨hi2, hsz.symm, habs.symm⟩
  exact ⟨o1.trans o2.symm, j1, j2, s1.trans s2.symm, a1.trans a2.symm⟩

theorem sameRegs_bRegs (r1 r2 : Regs.St) (h : SameRegs r1 r2) (b : Builtin) :
    SameRegs (Lemmas.Builtin.bRegs r1 b) (Lemmas.Builtin.bRegs r2 b) := by
  unfold Lemmas.Builtin.bRegs
  cases Lemmas.Builtin.regOp b with
  | none => exact h
  | some op => exact sameRegs_step _ _ h op

theorem sameQueue_bEq (q1 q2 : Fifo.EQ) (h : SameQueue q1 q2) (b : Builtin) :
    SameQueue (Lemmas.Builtin.bEq q1 b) (Lemmas.Builtin.bEq q2 b) := by
  cases b
  case cls => exact (sameQueue_step q1 q2 h true .clear).2
  case errNextQ => exact (sameQueue_step q1 q2 h true .sysErr).2
  all_goals exact h

theorem emptyFires_congr (s1 s2 : Regs.St) (h : SameRegs s1 s2) :
    Lemmas.Builtin.emptyFires s1 = Lemmas.Builtin.emptyFires s2 := by
  unfold Lemmas.Builtin.emptyFires
  rw [h.2.1, sameRegs_get s1 s2 h Regs.STB]

theorem bEvs_congr (r1 r2 : Regs.St) (h : SameRegs r1 r2) (b : Builtin) :
    Lemmas.Builtin.bEvs r2 b = Lemmas.Builtin.bEvs r1 b := by
  cases b
  case cls =>
    simp only [Lemmas.Builtin.bEvs, Lemmas.Builtin.fired_cls]
    rw [emptyFires_congr _ _ (show SameRegs { r1 with qn := 0 } { r2 with qn := 0 } from ⟨h.1, rfl, h.2.2⟩)]
  case errNextQ =>
    simp only [Lemmas.Builtin.bEvs, Lemmas.Builtin.fired_errPop]
    rw [emptyFires_congr _ _ (show SameRegs { r1 with qn := r1.qn - 1 } { r2 with qn := r2.qn - 1 } from
      ⟨h.1, by show r1.qn - 1 = r2.qn - 1; rw [h.2.1], h.2.2⟩)]
  all_goals rfl

theorem bOut_congr (r1 r2 : Regs.St) (q1 q2 : Fifo.EQ) (hr : SameRegs r1 r2) (hq : SameQueue q1 q2) (b : Builtin) :
    Lemmas.Builtin.bOut r2 q2 b = Lemmas.Builtin.bOut r1 q1 b := by
  cases b
  case errNextQ =>
    have h := (sameQueue_step q1 q2 hq true .sysErr).1
    simp only [Fifo.EQ.step] at h
    obtain ⟨hc, ht⟩ := Fifo.Obs.popped.inj h
    simp only [Lemmas.Builtin.bOut, hc, ht]
  case errCountQ =>
    have h := (sameQueue_step q1 q2 hq true .count).1
    simp only [Fifo.EQ.step] at h
    simp only [Lemmas.Builtin.bOut, Fifo.Obs.counted.inj h]
  all_goals first
    | rfl
    | (funext o; simp only [Lemmas.Builtin.bOut, Lemmas.Builtin.outReg, sameRegs_get r1 r2 hr])

theorem equi_bOut (r : Regs.St) (q : Fifo.EQ) (b : Builtin) : Equi (Lemmas.Builtin.bOut r q b) := by
  cases b
  case idnQ fields =>
    exact equi_foldl (fun o i => resultCharacters o (idnField fields i)) (fun i => equi_resultCharacters _) _
  case errNextQ => exact equi_resultError _ _ _
  case versQ => exact equi_resultCharacters _
  case eseQ | esrQ | opcQ | sreQ | stbQ | tstQ | stubQ | errCountQ | quesCondQ | quesEvenQ | quesEnabQ
      | operCondQ | operEvenQ | operEnabQ => exact equi_resultIntBaseSign _ _ _ _
  all_goals exact Equi.id

theorem Sim.regStep {P : Nat} {c1 c2 : Ctx} (h : Sim P c1 c2) (op : Regs.Op) : Sim P (regStep c1 op) (regStep c2 op) :=
  ⟨⟨h.w.cmds, h.w.choices, h.w.withInfo, h.w.bufLen, h.w.position, h.w.buf, h.w.inb, h.w.blen, h.w.pos,
     sameRegs_step _ _ h.w.regs op, h.w.eq⟩,
   ⟨h.l.cmdError, h.l.inputCount, h.l.pbase, h.l.plen, h.l.ppos, h.l.cur, h.l.rawOff, h.l.rawLen, h.l.out, h.l.win, h.l.raw⟩⟩

theorem runBuiltin_sim {P : Nat} {c1 c2 : Ctx} (h : Sim P c1 c2) (b : Builtin) :
    RR P c1 c2 (runBuiltin c1 b) (runBuiltin c2 b) := by
  cases hp : Lemmas.Builtin.paramReg b with
  | none =>
    rw [Lemmas.Builtin.runBuiltin_pure c1 b hp, Lemmas.Builtin.runBuiltin_pure c2 b hp,
      bOut_congr c1.regs c2.regs c1.eq c2.eq h.w.regs h.w.eq b, bEvs_congr c1.regs c2.regs h.w.regs b]
    have hos := (equi_bOut c1.regs c1.eq b).step h.l.out
    refine ⟨⟨⟨h.w.cmds, h.w.choices, h.w.withInfo, h.w.bufLen, h.w.position, h.w.buf, h.w.inb, h.w.blen, h.w.pos,
        sameRegs_bRegs _ _ h.w.regs b, sameQueue_bEq _ _ h.w.eq b⟩,
      ⟨h.l.cmdError, h.l.inputCount, h.l.pbase, h.l.plen, h.l.ppos, h.l.cur, h.l.rawOff, h.l.rawLen, hos.sim, h.l.win, h.l.raw⟩⟩,
      ?_, rfl⟩
    obtain ⟨w, p, k, a, b', _, _, e, f⟩ := hos.ext
    exact ⟨Lemmas.Builtin.bEvs c1.regs b, w, k, ⟨rfl, a, e⟩, ⟨rfl, b', f⟩⟩
  | some pr =>
    obtain ⟨reg, strict⟩ := pr
    rw [Lemmas.Builtin.runBuiltin_param c1 b reg strict hp, Lemmas.Builtin.runBuiltin_param c2 b reg strict hp,
      Lemmas.Builtin.regFromParam_eq, Lemmas.Builtin.regFromParam_eq]
    have hpi := paramInt_sim h 32 true true
    generalize paramInt c1 32 true true = x1 at hpi
    generalize paramInt c2 32 true true = x2 at hpi
    obtain ⟨d1, ok1, v1⟩ := x1
    obtain ⟨d2, ok2, v2⟩ := x2
    obtain ⟨hs, hst, hv⟩ := hpi
    simp only [Prod.mk.injEq] at hv
    obtain ⟨hv1, hv2⟩ := hv
    subst hv1
    subst hv2
    dsimp only at hs hst ⊢
    cases ok1
    · exact ⟨hs, hst, rfl⟩
    · exact ⟨hs.regStep _, hst.trans (Step.of_eq rfl rfl rfl rfl), rfl⟩

theorem runOp_sim {P : Nat} {h1 h2 : HState} (hh : HS P h1 h2) (op : SOp) :
    HR P h1 h2 (runOp h1 op) (runOp h2 op) := by
  unfold runOp
  by_cases hd : h1.done = true
  · have hd2 : h2.done = true := by rw [hh.done]; exact hd
    rw [if_pos hd, if_pos hd2]; exact ⟨hh, Step.refl _ _⟩
  · have hd2 : ¬ h2.done = true := by rw [hh.done]; exact hd
    rw [if_neg hd, if_neg hd2]
    cases op <;> simp only []
    case pInt w s m => exact fin_sim hh (paramInt_sim hh.sim w s m) (fun p => p.1) (fun p => .pInt p.1 p.2)
    case pFloat d m => exact fin_sim hh (paramFloat_sim hh.sim d m) (fun p => p.1) (fun p => .pLit p.1 p.2)
    case pBool m => exact fin_sim hh (paramBool_sim hh.sim m) (fun p => p.1) (fun p => .pBool p.1 p.2)
    case pChoice m k =>
      rw [hh.sim.w.choices]
      exact fin_sim hh (paramChoice_sim hh.sim m _) (fun p => p.1) (fun p => .pChoice p.1 p.2)
    case pNumber m =>
      exact fin_sim hh (paramNumber_sim hh.sim m) (fun e => match e with | .pNumber ok .. => ok | _ => false) (fun e => e)
    case pChars m => exact fin_sim hh (paramChars_sim hh.sim m) (fun p => p.1) (fun p => .pBytes p.1 p.2.1 p.2.2)
    case pBlock m => exact fin_sim hh (paramBlock_sim hh.sim m) (fun p => p.1) (fun p => .pBytes p.1 p.2.1 p.2.2)
    case pText m cap => exact fin_sim hh (paramText_sim hh.sim m cap) (fun p => p.1) (fun p => .pText p.1 p.2.1 p.2.2)
    case pArrInt w s cap m => exact fin_sim hh (paramArrInt_sim hh.sim w s cap m) (fun p => p.1) (fun p => .pArr p.1 p.2)
    case rInt w s v b => exact out_sim hh (equi_resultIntBaseSign w v b s)
    case rIntN n s v b => exact out_sim hh (equi_resultIntBaseSign 32 _ b s)
    case rFloatText t => exact out_sim hh (equi_resultFloatText t)
    case rBool b => exact out_sim hh (equi_resultBool b)
    case rText d => exact out_sim hh (equi_resultText d)
    case rChars d => exact out_sim hh (equi_resultCharacters d)
    case rBlock d => exact out_sim hh (equi_resultBlock d)
    case rBlockHeader n => exact out_sim hh (equi_resultBlockHeader n)
    case rBlockData d => exact out_err_sim hh (equi_resultBlockData d)
    case rArrBin sz es same => exact out_err_sim hh (equi_resultArrayBinary es sz same)
    case ePush code info =>
      exact ⟨⟨pushError_sim hh.sim code info 0, hh.stopOnFail, hh.result, hh.done⟩, pushError_step hh.sim.w code info 0⟩
    case iTag =>
      rw [hh.sim.l.cur]
      exact ⟨⟨hh.sim.emit _ _, hh.stopOnFail, hh.result, hh.done⟩, Step.emit _ _ _⟩
    case iIsCmd s =>
      rw [hh.sim.l.cur]
      exact ⟨⟨hh.sim.emit _ _, hh.stopOnFail, hh.result, hh.done⟩, Step.emit _ _ _⟩
    case iMatch pat s =>
      exact ⟨⟨hh.sim.emit _ _, hh.stopOnFail, hh.result, hh.done⟩, Step.emit _ _ _⟩
    case iNums n d =>
      rw [hh.sim.l.cur]
      split
      · rename_i cmd _
        have hr := hh.sim.l.raw
        have := matchCommand_agree (hh.sim.w.buf.drop h1.c.rawOff (by omega)) cmd.pattern h1.c.rawLen
          (some (List.replicate n (-777))) d
        rw [hh.sim.l.rawOff, hh.sim.l.rawLen, ← this]
        exact ⟨⟨hh.sim.emit _ _, hh.stopOnFail, hh.result, hh.done⟩, Step.emit _ _ _⟩
      · exact ⟨hh, Step.refl _ _⟩
    case onFail s => exact ⟨⟨hh.sim, rfl, hh.result, hh.done⟩, Step.refl _ _⟩
    case ret ok => exact ⟨⟨hh.sim, hh.stopOnFail, rfl, rfl⟩, Step.refl _ _⟩
    case builtin b =>
      obtain ⟨hs, hst, hv⟩ := runBuiltin_sim hh.sim b
      rw [← hv]
      split
      · exact ⟨⟨hs, hh.stopOnFail, hh.result, hh.done⟩, hst⟩
      · exact ⟨⟨hs, hh.stopOnFail, rfl, rfl⟩, hst⟩

theorem foldl_runOp_sim {P : Nat} (s : List SOp) : ∀ {h1 h2 : HState}, HS P h1 h2 →
    HR P h1 h2 (s.foldl runOp h1) (s.foldl runOp h2) := by
  induction s with
  | nil => intro h1 h2 hh; exact ⟨hh, Step.refl _ _⟩
  | cons op s ih =>
    intro h1 h2 hh
    rw [List.foldl_cons, List.foldl_cons]
    obtain ⟨a, b⟩ := runOp_sim hh op
    obtain ⟨a', b'⟩ := ih a
    exact ⟨a', b.trans b'⟩

theorem runScript_sim {P : Nat} {c1 c2 : Ctx} (h : Sim P c1 c2) (s : List SOp) :
    RR P c1 c2 (runScript c1 s) (runScript c2 s) := by
  unfold runScript
  obtain ⟨a, b⟩ := foldl_runOp_sim (P := P) s (h1 := { c := c1 }) (h2 := { c := c2 }) ⟨h, rfl, rfl, rfl⟩
  exact ⟨a.sim, b, a.result.symm⟩

/-! ## processCommand -/

/-- equal up to the logs and the two per-unit fields that `processCommand` resets -/
def OutSimU (o1 o2 : Out) : Prop :=
  OutSim { o1 with outputCount := 0, arbRemaining := 0 } { o2 with outputCount := 0, arbRemaining := 0 }

theorem OutSim.toU {o1 o2 : Out} (h : OutSim o1 o2) : OutSimU o1 o2 := by
  unfold OutSimU OutSim obase at *
  cases o1; cases o2
  simp only [Out.mk.injEq] at h ⊢
  simp [h]

theorem OutSimU.reset {o1 o2 : Out} (h : OutSimU o1 o2) :
    OutSim { o1 with outputCount := if o1.firstOutput then 0 else -1, arbRemaining := 0 }
           { o2 with outputCount := if o2.firstOutput then 0 else -1, arbRemaining := 0 } := by
  unfold OutSimU OutSim obase at *
  cases o1; cases o2
  simp only [Out.mk.injEq] at h ⊢
  simp [h]

/-- what `parseLoop` has set up when it calls `processCommand` -/
structure LiveU (P : Nat) (c1 c2 : Ctx) : Prop where
  pbase : c2.pbase = c1.pbase
  plen : c2.plen = c1.plen
  ppos : c2.ppos = c1.ppos
  cur : c2.cur = c1.cur
  rawOff : c2.rawOff = c1.rawOff
  rawLen : c2.rawLen = c1.rawLen
  out : OutSimU c1.out c2.out
  win : c1.pbase + c1.plen ≤ P
  raw : c1.rawOff + c1.rawLen ≤ P

def pcReset (c : Ctx) : Ctx :=
  { c with cmdError := false, inputCount := 0,
           out := { c.out with outputCount := if c.out.firstOutput then 0 else -1, arbRemaining := 0 } }

def pcBody (c : Ctx) : Ctx × Bool :=
  match c.cur with
  | some cmd =>
    let c := emit c (.handler cmd.tag ((c.buf.drop c.rawOff).take c.rawLen))
    let (c, ok) := runScript c cmd.script
    if !ok then ((if !c.cmdError then pushError c (-200) none else c), false)
    else (c, !c.cmdError)
  | none => (c, true)

def pcOut (o : Out) : Out := endUnit (if o.outputCount > 0 then { o with firstOutput := false } else o)

def pcTail (x : Ctx × Bool) : Ctx × Bool :=
  if x.1.ppos < x.1.pbase + x.1.plen ∧ !x.1.cmdError then (pushError { x.1 with out := pcOut x.1.out } (-108) none, false)
  else ({ x.1 with out := pcOut x.1.out }, x.2)

def pcTail0 (x : Ctx × Bool) : Ctx × Bool :=
  let (c, result) := x
  let c := if c.out.outputCount > 0 then { c with out := { c.out with firstOutput := false } } else c
  let c := { c with out := Result.endUnit c.out }
  if c.ppos < c.pbase + c.plen ∧ !c.cmdError then (pushError c (-108) none, false) else (c, result)

theorem pcTail0_eq (x : Ctx × Bool) : pcTail0 x = pcTail x := by
  obtain ⟨c, r⟩ := x
  unfold pcTail0 pcTail pcOut
  by_cases h : c.out.outputCount > 0
  · simp only [h, if_true]
  · simp only [h, if_false]

theorem processCommand_eq (c : Ctx) : processCommand c = pcTail (pcBody (pcReset c)) := by
  rw [← pcTail0_eq]
  rfl

theorem Step.fields {c1 c2 c1' c2' : Ctx} (h1 : c1'.events = c1.events) (h2 : c1'.out.written = c1.out.written)
    (h3 : c1'.out.flushes = c1.out.flushes) (h4 : c2'.events = c2.events) (h5 : c2'.out.written = c2.out.written)
    (h6 : c2'.out.flushes = c2.out.flushes) : Step c1 c2 c1' c2' :=
  ⟨[], [], 0, ⟨by simp [h1], by simp [h2], by rw [h3]; rfl⟩, ⟨by simp [h4], by simp [h5], by rw [h6]; rfl⟩⟩

theorem pcReset_sim {P : Nat} {c1 c2 : Ctx} (hw : SimW P c1 c2) (hu : LiveU P c1 c2) :
    Sim P (pcReset c1) (pcReset c2) ∧ Step c1 c2 (pcReset c1) (pcReset c2) :=
  ⟨⟨⟨hw.cmds, hw.choices, hw.withInfo, hw.bufLen, hw.position, hw.buf, hw.inb, hw.blen, hw.pos, hw.regs, hw.eq⟩,
    ⟨rfl, rfl, hu.pbase, hu.plen, hu.ppos, hu.cur, hu.rawOff, hu.rawLen, hu.out.reset, hu.win, hu.raw⟩⟩,
   Step.fields rfl rfl rfl rfl rfl rfl⟩

theorem pcBody_tail {P : Nat} {c1 c2 : Ctx} {x1 x2 : Ctx × Bool} (h : RR P c1 c2 x1 x2) :
    RR P c1 c2
      (if !x1.2 then ((if !x1.1.cmdError then pushError x1.1 (-200) none else x1.1), false) else (x1.1, !x1.1.cmdError))
      (if !x2.2 then ((if !x2.1.cmdError then pushError x2.1 (-200) none else x2.1), false) else (x2.1, !x2.1.cmdError)) := by
  obtain ⟨d1, r1⟩ := x1
  obtain ⟨d2, r2⟩ := x2
  obtain ⟨hs, hst, hv⟩ := h
  simp only at hs hst hv
  subst hv
  simp only []
  apply RR.trans hst
  rw [hs.l.cmdError]
  split
  · split
    · exact RR.err hs _ _
    · exact RR.same hs _
  · exact RR.same hs _

theorem pcBody_sim {P : Nat} {c1 c2 : Ctx} (h : Sim P c1 c2) : RR P c1 c2 (pcBody c1) (pcBody c2) := by
  unfold pcBody
  rw [h.l.cur]
  split
  · rename_i cmd _
    have hr := h.l.raw
    have e : (c2.buf.drop c2.rawOff).take c2.rawLen = (c1.buf.drop c1.rawOff).take c1.rawLen := by
      rw [h.l.rawOff, h.l.rawLen]; exact (h.w.buf.window _ _ (by omega)).symm
    rw [e]
    have hs0 := h.emit (.handler cmd.tag ((c1.buf.drop c1.rawOff).take c1.rawLen))
      (.handler cmd.tag ((c1.buf.drop c1.rawOff).take c1.rawLen))
    have hp := runScript_sim hs0 cmd.script
    exact pcBody_tail (RR.trans (Step.emit c1 c2 _) hp)
  · exact RR.same h _

theorem equi_pcOut : Equi pcOut := by
  intro o w p k
  by_cases h : o.outputCount > 0
  · simp [pcOut, endUnit, shift, h]
  · simp [pcOut, endUnit, shift, h]

theorem pcTail_sim {P : Nat} {c1 c2 : Ctx} {x1 x2 : Ctx × Bool} (h : RR P c1 c2 x1 x2) :
    RR P c1 c2 (pcTail x1) (pcTail x2) := by
  obtain ⟨d1, r1⟩ := x1
  obtain ⟨d2, r2⟩ := x2
  obtain ⟨hs, hst, hv⟩ := h
  simp only at hs hst hv
  subst hv
  unfold pcTail
  simp only []
  have ho := equi_pcOut.step hs.l.out
  have hs' : Sim P { d1 with out := pcOut d1.out } { d2 with out := pcOut d2.out } := hs.setOut ho.sim
  have hst' : Step c1 c2 { d1 with out := pcOut d1.out } { d2 with out := pcOut d2.out } :=
    hst.trans (Step.out rfl rfl ho)
  have e : (d2.ppos < d2.pbase + d2.plen ∧ (!d2.cmdError) = true) = (d1.ppos < d1.pbase + d1.plen ∧ (!d1.cmdError) = true) := by
    rw [hs.l.ppos, hs.l.pbase, hs.l.plen, hs.l.cmdError]
  by_cases hc : d1.ppos < d1.pbase + d1.plen ∧ (!d1.cmdError) = true
  · rw [if_pos hc, if_pos (e ▸ hc)]
    exact RR.trans hst' (RR.err hs' _ _)
  · rw [if_neg hc, if_neg (e ▸ hc)]
    exact ⟨hs', hst', rfl⟩

theorem processCommand_sim {P : Nat} {c1 c2 : Ctx} (hw : SimW P c1 c2) (hu : LiveU P c1 c2) :
    RR P c1 c2 (processCommand c1) (processCommand c2) := by
  rw [processCommand_eq, processCommand_eq]
  obtain ⟨a, b⟩ := pcReset_sim hw hu
  exact pcTail_sim (RR.trans b (pcBody_sim a))

theorem unit_reset (c : Ctx) :
    let c' := { c with cmdError := true, inputCount := 7, out := { c.out with outputCount := 5, arbRemaining := 9 } }
    newObs c (processCommand c).1 = newObs c' (processCommand c').1 ∧
    (processCommand c).2 = (processCommand c').2 := by
  intro c'
  have e : processCommand c' = processCommand c := by
    rw [processCommand_eq, processCommand_eq]; rfl
  rw [e]
  exact ⟨rfl, rfl⟩

/-! ## in-place composition of compound headers -/

theorem find?_congr' {α : Type} {p q : α → Bool} : ∀ (l : List α), (∀ x ∈ l, p x = q x) → l.find? p = l.find? q := by
  intro l
  induction l with
  | nil => intro _; rfl
  | cons a t ih =>
    intro h
    simp only [List.find?_cons, h a (List.mem_cons_self)]
    split
    · rfl
    · exact ih (fun x hx => h x (List.mem_cons_of_mem _ hx))

theorem Agree.foldl_set {P : Nat} {α : Type} (g : α → Nat) (v : α → UInt8) :
    ∀ (l : List α) (b1 b2 : Bytes), Agree P b1 b2 → (∀ a ∈ l, g a < P) →
      Agree P (l.foldl (fun b a => b.set (g a) (v a)) b1) (l.foldl (fun b a => b.set (g a) (v a)) b2) := by
  intro l
  induction l with
  | nil => intro b1 b2 h _; exact h
  | cons a l ih =>
    intro b1 b2 h hl
    rw [List.foldl_cons, List.foldl_cons]
    exact ih _ _ (h.set _ _ (hl a (List.mem_cons_self))) (fun a' h' => hl a' (List.mem_cons_of_mem _ h'))

theorem Agree.store {P : Nat} {b1 b2 : Bytes} (h : Agree P b1 b2) (src : Bytes) (start : Nat)
    (hb : start + src.length ≤ P) :
    Agree P ((src.zipIdx).foldl (fun b (x, k) => b.set (start + k) x) b1)
            ((src.zipIdx).foldl (fun b (x, k) => b.set (start + k) x) b2) := by
  apply Agree.foldl_set (fun (p : UInt8 × Nat) => start + p.2) (fun p => p.1) src.zipIdx b1 b2 h
  intro a ha
  have := List.snd_lt_of_mem_zipIdx ha
  show start + a.2 < P
  omega

theorem composeCompound_agree {P : Nat} {b1 b2 : Bytes} (h : Agree P b1 b2) (prev : Option (Nat × Nat))
    (cur : Nat × Nat) (hcur : cur.1 ≤ P) (hprev : ∀ pp pl, prev = some (pp, pl) → pp + pl ≤ cur.1) :
    (Match.composeCompound b1 prev cur).2 = (Match.composeCompound b2 prev cur).2 ∧
    Agree P (Match.composeCompound b1 prev cur).1 (Match.composeCompound b2 prev cur).1 := by
  unfold Match.composeCompound
  by_cases h0 : (cur.2 == 0) = true
  · simp only [h0, ↓reduceIte]; exact ⟨by first | trivial | rfl, h⟩
  · simp only [h0, ↓reduceIte]
    cases prev with
    | none => exact ⟨by first | trivial | rfl, h⟩
    | some p =>
      obtain ⟨pp, pl⟩ := p
      have hp := hprev pp pl rfl
      simp only []
      have e1 : Match.rd b2 cur.1 = Match.rd b1 cur.1 := (h.mrd hcur).symm
      have e2 : Match.rd b2 pp = Match.rd b1 pp := (h.mrd (by omega)).symm
      have e3 : (List.range pl).reverse.find? (fun k => Match.rd b2 (pp + k) == 58) =
          (List.range pl).reverse.find? (fun k => Match.rd b1 (pp + k) == 58) := by
        apply find?_congr'
        intro k hk
        simp only [List.mem_reverse, List.mem_range] at hk
        rw [h.mrd (i := pp + k) (by omega)]
      rw [e1, e2, e3]
      by_cases h1 : (pl == 0) = true
      · simp only [h1, ↓reduceIte]; exact ⟨by first | trivial | rfl, h⟩
      · simp only [h1, ↓reduceIte]
        by_cases h2 : Match.rd b1 cur.1 == 42 ∨ Match.rd b1 cur.1 == 58
        · simp only [h2, ↓reduceIte]; exact ⟨by first | trivial | rfl, h⟩
        · simp only [h2, ↓reduceIte]
          by_cases h3 : (Match.rd b1 pp == 42) = true
          · simp only [h3, ↓reduceIte]; exact ⟨by first | trivial | rfl, h⟩
          · simp only [h3, ↓reduceIte]
            cases hf : (List.range pl).reverse.find? (fun k => Match.rd b1 (pp + k) == 58) with
            | none => simp only [Option.map_none, Option.getD_none]; exact ⟨by first | trivial | rfl, h⟩
            | some k =>
              have hk := List.mem_of_find?_eq_some hf
              simp only [List.mem_reverse, List.mem_range] at hk
              simp only [Option.map_some, Option.getD_some]
              have hk0 : ((k + 1 == 0) = true) = False := by simp
              simp only [hk0, ↓reduceIte]
              by_cases h4 : cur.1 < k + 1
              · simp only [h4, ↓reduceIte]; exact ⟨by first | trivial | rfl, h⟩
              · simp only [h4, ↓reduceIte]
                have e4 : (List.range (k + 1)).map (fun j => Match.rd b2 (pp + j)) =
                    (List.range (k + 1)).map (fun j => Match.rd b1 (pp + j)) := by
                  apply List.map_congr_left
                  intro j hj
                  simp only [List.mem_range] at hj
                  exact (h.mrd (by omega)).symm
                rw [e4]
                refine ⟨by first | trivial | rfl, ?_⟩
                apply h.store
                simp only [List.length_map, List.length_range]
                omega

/-! ## the message unit: the data token lies inside the consumed part -/

section
open ScpiVerif.Lemmas.Lexer ScpiVerif.Parser ScpiVerif.Spec

theorem allDataLoop_tok (buf : Bytes) (pos0 : Nat) : ∀ (fuel pos : Nat) (tlen result cnt : Int),
    pos ≤ buf.length → buf.length - pos + 1 ≤ fuel → (pos0 : Int) + tlen + result = pos → 0 ≤ tlen + result →
    pos0 + (allDataLoop buf fuel pos tlen result cnt).tok.len.toNat ≤ (allDataLoop buf fuel pos tlen result cnt).pos := by
  intro fuel
  induction fuel with
  | zero => intro pos tlen result cnt h1 h2; omega
  | succ fuel ih =>
    intro pos tlen result cnt h1 h2 h3 h4
    rw [unit_loop_step]
    cases hd : specData (buf.drop (pos + wsLen (buf.drop pos))) with
    | item n t po pl =>
      obtain ⟨e1, e2, e3, e4⟩ := unit_pd_item h1 hd
      have ht := unit_specData_item hd
      simp only [e3, ht, ne_eq, not_false_eq_true, if_true]
      split
      · rename_i hc
        have hlt := unit_head_lt hc
        apply ih
        all_goals omega
      · simp only [mkTok]; omega
    | swallow =>
      obtain ⟨e1, e2, e3, e4⟩ := programData_swallow buf pos h1 hd
      simp only [e2, ne_eq, not_true_eq_false, if_false, mkTok]
      simp only [Int.toNat_zero]; omega
    | none =>
      obtain ⟨e1, e2, e3⟩ := unit_pd_none h1 hd
      simp only [e3, ne_eq, not_true_eq_false, if_false, mkTok]
      simp only [Int.toNat_zero]; omega

theorem parseAll_tok (buf : Bytes) (pos : Nat) (h : pos ≤ buf.length) :
    (parseAllProgramData buf pos).tok.ptr + (parseAllProgramData buf pos).tok.len.toNat ≤ (parseAllProgramData buf pos).pos := by
  have := allDataLoop_tok buf pos (buf.length - pos + 2) pos (-1) 1 0 h (by omega) (by omega) (by omega)
  unfold parseAllProgramData
  simpa using this

theorem unit_tail_data (buf : Bytes) (hdr data : Token) (n : Int) (p : Nat) :
    (unit_tail buf hdr (p, data, n)).data = data ∨ (unit_tail buf hdr (p, data, n)).data = mkTok .unknown 0 0 := by
  unfold unit_tail
  simp only []
  generalize (if (lexNewLine buf p).2.2 != 0 then ((lexNewLine buf p).1, (lexNewLine buf p).2.1, (lexNewLine buf p).2.2)
    else ((lexSemicolon buf (lexNewLine buf p).1).1, (lexSemicolon buf (lexNewLine buf p).1).2.1, (lexSemicolon buf (lexNewLine buf p).1).2.2)) = y
  by_cases hc : (!iseos buf y.1 && y.2.2 == 0) = true
  · right; simp only [hc, if_true]
  · left; simp [hc]

theorem detect_data_inside (s : Bytes) :
    (detectUnit s).data.ptr + (detectUnit s).data.len.toNat ≤ (detectUnit s).consumed := by
  have hw0 := unit_wsLen_le s
  obtain ⟨hl, ht, hh, a1, a2, a3, a4, a5, a6, a7⟩ := unit_header s (wsLen s) hw0
  have hb1 := unit_ws_bound s (wsLen s + hl) a7
  have hm : ∃ data n p, detectUnit s = unit_tail s (lexProgramHeader s (wsLen s)).2.1 (p, data, n) ∧
      p ≤ s.length ∧ data.ptr + data.len.toNat ≤ p := by
    rw [unit_detect_eq, unit_ws]
    simp only [List.drop_zero, Nat.zero_add]
    generalize lexProgramHeader s (wsLen s) = x1 at a1 a2
    obtain ⟨p1, hdr, hlen⟩ := x1
    simp only at a1 a2
    subst a1 a2
    rw [unit_ws]
    have hge : ((hl : Int) ≥ 0) := by omega
    simp only [hge, if_true]
    by_cases hw : wsLen (s.drop (wsLen s + hl)) > 0
    · have hw' : ((wsLen (s.drop (wsLen s + hl)) : Nat) : Int) > 0 := by omega
      simp only [hw', if_true]
      obtain ⟨c1, c2, c3⟩ := unit_allData s (wsLen s + hl + wsLen (s.drop (wsLen s + hl))) hb1
      exact ⟨_, _, _, rfl, c3, parseAll_tok s _ hb1⟩
    · have hw' : ¬ ((wsLen (s.drop (wsLen s + hl)) : Nat) : Int) > 0 := by omega
      simp only [hw', if_false]
      exact ⟨_, _, _, rfl, hb1, by simp [mkTok]⟩
  obtain ⟨data, n, p, e1, e2, e3⟩ := hm
  rw [e1]
  have t7 := (unit_tail_spec s (lexProgramHeader s (wsLen s)).2.1 data n p (wsLen s) hl ht e2).2.2.2.2.2.2.1
  rcases unit_tail_data s (lexProgramHeader s (wsLen s)).2.1 data n p with hd | hd
  · rw [hd]; omega
  · rw [hd]; simp [mkTok]

end

/-! ## the unit loop of SCPI_Parse -/

/-- what is carried from one unit to the next -/
structure SimU (P : Nat) (c1 c2 : Ctx) : Prop where
  w : SimW P c1 c2
  out : OutSimU c1.out c2.out

theorem pushError_out (c : Ctx) (code : Int) (info : Option Bytes) (n : Nat) : (pushError c code info n).out = c.out := by
  rw [pushError_eq]

theorem pushError_simU {P : Nat} {c1 c2 : Ctx} (h : SimU P c1 c2) (code : Int) (info : Option Bytes) (n : Nat) :
    SimU P (pushError c1 code info n) (pushError c2 code info n) :=
  ⟨pushError_simW h.w code info n, by rw [pushError_out, pushError_out]; exact h.out⟩

theorem Sim.toU {P : Nat} {c1 c2 : Ctx} (h : Sim P c1 c2) : SimU P c1 c2 := ⟨h.w, h.l.out.toU⟩

theorem findCommand_eq {P : Nat} {c1 c2 : Ctx} (hw : SimW P c1 c2) (off len : Nat) (ho : off ≤ P) :
    findCommand c2 off len = findCommand c1 off len := by
  unfold findCommand
  rw [hw.cmds]
  apply find?_congr'
  intro cmd _
  rw [matchCommand_agree (hw.buf.drop off ho) cmd.pattern len none 0]

/-- the part of one iteration after the header has been composed -/
def unitCmd (c : Ctx) (base r dptr dlen : Nat) (cur : Nat × Nat) (res : Bool) : Ctx × Option (Nat × Nat) × Bool :=
  match findCommand c cur.1 cur.2 with
  | some cmd =>
    let c := { c with pbase := base + dptr, ppos := base + dptr, plen := dlen,
                      cur := some cmd, rawOff := cur.1, rawLen := cur.2 }
    let (c, ok) := processCommand c
    (c, some cur, res && ok)
  | none =>
    let txt := (c.buf.drop base).take r
    let r2 := (txt.reverse.dropWhile (fun b => b == 13 || b == 10)).length
    (pushError c (-113) (some (txt.take r2)) r2, some cur, false)

theorem unitCmd_sim {P : Nat} {c1 c2 : Ctx} (h : SimU P c1 c2) (base r dptr dlen : Nat) (cur : Nat × Nat) (res : Bool)
    (hcur : cur.1 + cur.2 ≤ P) (hd : base + dptr + dlen ≤ P) (hr : base + r ≤ P + 1) :
    SimU P (unitCmd c1 base r dptr dlen cur res).1 (unitCmd c2 base r dptr dlen cur res).1 ∧
    Step c1 c2 (unitCmd c1 base r dptr dlen cur res).1 (unitCmd c2 base r dptr dlen cur res).1 ∧
    (unitCmd c1 base r dptr dlen cur res).2 = (unitCmd c2 base r dptr dlen cur res).2 := by
  unfold unitCmd
  rw [findCommand_eq h.w cur.1 cur.2 (by omega)]
  split
  · rename_i cmd _
    have hw : SimW P { c1 with pbase := base + dptr, ppos := base + dptr, plen := dlen, cur := some cmd, rawOff := cur.1, rawLen := cur.2 }
        { c2 with pbase := base + dptr, ppos := base + dptr, plen := dlen, cur := some cmd, rawOff := cur.1, rawLen := cur.2 } :=
      ⟨h.w.cmds, h.w.choices, h.w.withInfo, h.w.bufLen, h.w.position, h.w.buf, h.w.inb, h.w.blen, h.w.pos, h.w.regs, h.w.eq⟩
    have hu : LiveU P { c1 with pbase := base + dptr, ppos := base + dptr, plen := dlen, cur := some cmd, rawOff := cur.1, rawLen := cur.2 }
        { c2 with pbase := base + dptr, ppos := base + dptr, plen := dlen, cur := some cmd, rawOff := cur.1, rawLen := cur.2 } :=
      ⟨rfl, rfl, rfl, rfl, rfl, rfl, h.out, hd, hcur⟩
    obtain ⟨hs, hst, hv⟩ := processCommand_sim hw hu
    simp only []
    refine ⟨hs.toU, (Step.of_eq rfl rfl rfl rfl).trans hst, ?_⟩
    rw [hv]
  · simp only []
    have e : (c2.buf.drop base).take r = (c1.buf.drop base).take r := (h.w.buf.window _ _ hr).symm
    rw [e]
    exact ⟨pushError_simU h _ _ _, pushError_step h.w _ _ _, by first | trivial | rfl⟩

theorem unitCmd_prev (c : Ctx) (base r dptr dlen : Nat) (cur : Nat × Nat) (res : Bool) :
    (unitCmd c base r dptr dlen cur res).2.1 = some cur := by
  unfold unitCmd
  split <;> rfl

theorem stepUnit_eq (c : Ctx) (base len : Nat) (prev : Option (Nat × Nat)) (res : Bool) :
    Bounds.stepUnit c base len prev res =
      if (Parser.detectUnit ((c.buf.drop base).take len)).header.type == .invalid then (pushError c (-101) none, prev, false)
      else if (Parser.detectUnit ((c.buf.drop base).take len)).header.len > 0 ∧
              (Parser.detectUnit ((c.buf.drop base).take len)).nParams < 0 then (pushError c (-103) none, prev, false)
      else if (Parser.detectUnit ((c.buf.drop base).take len)).header.len > 0 then
        unitCmd { c with buf := (Match.composeCompound c.buf prev (base + (Parser.detectUnit ((c.buf.drop base).take len)).header.ptr,
                                    (Parser.detectUnit ((c.buf.drop base).take len)).header.len.toNat)).1,
                         oob := c.oob || !(Match.composeCompound c.buf prev (base + (Parser.detectUnit ((c.buf.drop base).take len)).header.ptr,
                                    (Parser.detectUnit ((c.buf.drop base).take len)).header.len.toNat)).2.2 }
          base (Parser.detectUnit ((c.buf.drop base).take len)).consumed
          (Parser.detectUnit ((c.buf.drop base).take len)).data.ptr (Parser.detectUnit ((c.buf.drop base).take len)).data.len.toNat
          (Match.composeCompound c.buf prev (base + (Parser.detectUnit ((c.buf.drop base).take len)).header.ptr,
                                    (Parser.detectUnit ((c.buf.drop base).take len)).header.len.toNat)).2.1 res
      else (c, prev, res) := by
  rfl

theorem SimU.setBuf {P : Nat} {c1 c2 : Ctx} (h : SimU P c1 c2) {b1 b2 : Bytes} (ha : Agree P b1 b2)
    (hl : b1.length = c1.buf.length) (o1 o2 : Bool) :
    SimU P { c1 with buf := b1, oob := o1 } { c2 with buf := b2, oob := o2 } :=
  ⟨⟨h.w.cmds, h.w.choices, h.w.withInfo, h.w.bufLen, h.w.position, ha, by rw [hl]; exact h.w.inb,
    hl.trans h.w.blen, h.w.pos, h.w.regs, h.w.eq⟩, h.out⟩

theorem stepUnit_sim {P : Nat} {c1 c2 : Ctx} (h : SimU P c1 c2) (base len : Nat) (prev : Option (Nat × Nat)) (res : Bool)
    (hbl : base + len ≤ P) (hprev : ∀ pp pl, prev = some (pp, pl) → pp + pl ≤ base) :
    SimU P (Bounds.stepUnit c1 base len prev res).1 (Bounds.stepUnit c2 base len prev res).1 ∧
    Step c1 c2 (Bounds.stepUnit c1 base len prev res).1 (Bounds.stepUnit c2 base len prev res).1 ∧
    (Bounds.stepUnit c1 base len prev res).2 = (Bounds.stepUnit c2 base len prev res).2 ∧
    (∀ pp pl, (Bounds.stepUnit c1 base len prev res).2.1 = some (pp, pl) →
      pp + pl ≤ base + (Parser.detectUnit ((c1.buf.drop base).take len)).consumed) := by
  have ew : (c2.buf.drop base).take len = (c1.buf.drop base).take len := (h.w.buf.window _ _ (by omega)).symm
  have hcons : (Parser.detectUnit ((c1.buf.drop base).take len)).consumed ≤ len :=
    Nat.le_trans (Props.C13.unit_spec _).2.2.2.2.1 (Bounds.window_length_le _ _ _)
  have hdata := detect_data_inside ((c1.buf.drop base).take len)
  have hhdr := Bounds.detect_header_inside ((c1.buf.drop base).take len)
  have hprev' : ∀ pp pl, prev = some (pp, pl) →
      pp + pl ≤ base + (Parser.detectUnit ((c1.buf.drop base).take len)).consumed := by
    intro pp pl hh; have := hprev pp pl hh; omega
  rw [stepUnit_eq, stepUnit_eq, ew]
  generalize Parser.detectUnit ((c1.buf.drop base).take len) = u at hcons hdata hhdr hprev' ⊢
  by_cases h1 : (u.header.type == .invalid) = true
  · simp only [h1, Bool.false_eq_true, if_false, if_true]
    exact ⟨pushError_simU h _ _ _, pushError_step h.w _ _ _, by first | trivial | rfl, hprev'⟩
  · simp only [h1, Bool.false_eq_true, if_false, if_true]
    by_cases h2 : u.header.len > 0 ∧ u.nParams < 0
    · simp only [h2, and_self, if_false, if_true]
      exact ⟨pushError_simU h _ _ _, pushError_step h.w _ _ _, by first | trivial | rfl, hprev'⟩
    · simp only [h2, if_false, if_true]
      by_cases h3 : u.header.len > 0
      · simp only [h3, if_false, if_true]
        have hinv : u.header.type ≠ .invalid := by
          intro hh; apply h1; rw [hh]; rfl
        have hin := hhdr hinv h3
        have hag := composeCompound_agree h.w.buf prev (base + u.header.ptr, u.header.len.toNat)
          (by simp only; omega) (by intro pp pl hh; have := hprev pp pl hh; simp only; omega)
        have hci := Bounds.compose_inv c1.buf prev (base + u.header.ptr, u.header.len.toNat) 0
          (by simp only; omega) (by simp only; omega)
          (by intro pp pl hh; have := hprev pp pl hh; simp only; omega)
        generalize Match.composeCompound c1.buf prev (base + u.header.ptr, u.header.len.toNat) = cc1 at hag hci ⊢
        generalize Match.composeCompound c2.buf prev (base + u.header.ptr, u.header.len.toNat) = cc2 at hag ⊢
        obtain ⟨b1, cur1, ok1⟩ := cc1
        obtain ⟨b2, cur2, ok2⟩ := cc2
        obtain ⟨hag1, hag2⟩ := hag
        simp only [Prod.mk.injEq] at hag1
        obtain ⟨hcur, hok⟩ := hag1
        subst hcur
        subst hok
        obtain ⟨_, k2, _, k4⟩ := hci
        simp only at hag2 k2 k4 ⊢
        have hsu : SimU P { c1 with buf := b1, oob := c1.oob || !ok1 } { c2 with buf := b2, oob := c2.oob || !ok1 } :=
          h.setBuf hag2 k2.1 _ _
        obtain ⟨a1, a2, a3⟩ := unitCmd_sim hsu base u.consumed u.data.ptr u.data.len.toNat cur1 res
          (by omega) (by omega) (by omega)
        refine ⟨a1, (Step.of_eq rfl rfl rfl rfl).trans a2, a3, ?_⟩
        intro pp pl hh
        rw [unitCmd_prev] at hh
        cases hh
        omega
      · simp only [h3, if_false, if_true]
        exact ⟨h, Step.refl _ _, by first | trivial | rfl, hprev'⟩

theorem parseLoop_sim {P : Nat} : ∀ (fuel : Nat) (c1 c2 : Ctx) (base len : Nat) (prev : Option (Nat × Nat)) (res : Bool),
    SimU P c1 c2 → base + len ≤ P → (∀ pp pl, prev = some (pp, pl) → pp + pl ≤ base) →
    SimU P (parseLoop fuel c1 base len prev res).1 (parseLoop fuel c2 base len prev res).1 ∧
    Step c1 c2 (parseLoop fuel c1 base len prev res).1 (parseLoop fuel c2 base len prev res).1 ∧
    (parseLoop fuel c1 base len prev res).2 = (parseLoop fuel c2 base len prev res).2 := by
  intro fuel
  induction fuel with
  | zero =>
    intro c1 c2 base len prev res h _ _
    exact ⟨⟨⟨h.w.cmds, h.w.choices, h.w.withInfo, h.w.bufLen, h.w.position, h.w.buf, h.w.inb, h.w.blen, h.w.pos,
      h.w.regs, h.w.eq⟩, h.out⟩, Step.of_eq rfl rfl rfl rfl, rfl⟩
  | succ fuel ih =>
    intro c1 c2 base len prev res h hbl hprev
    have ew : (c2.buf.drop base).take len = (c1.buf.drop base).take len := (h.w.buf.window _ _ (by omega)).symm
    obtain ⟨a1, a2, a3, a4⟩ := stepUnit_sim h base len prev res hbl hprev
    rw [Bounds.parseLoop_succ, Bounds.parseLoop_succ, ew, ← a3]
    split
    · obtain ⟨b1, b2, b3⟩ := ih _ _ (base + (Parser.detectUnit ((c1.buf.drop base).take len)).consumed)
        (len - (Parser.detectUnit ((c1.buf.drop base).take len)).consumed)
        (Bounds.stepUnit c1 base len prev res).2.1 (Bounds.stepUnit c1 base len prev res).2.2 a1 (by omega) a4
      exact ⟨b1, a2.trans b2, b3⟩
    · exact ⟨a1, a2, rfl⟩

theorem writeNewLine_step {o1 o2 : Out} (h : OutSimU o1 o2) :
    ∃ w k, (writeNewLine o1).written = o1.written ++ w ∧ (writeNewLine o2).written = o2.written ++ w ∧
      (writeNewLine o1).flushes = o1.flushes + k ∧ (writeNewLine o2).flushes = o2.flushes + k := by
  have hf : o2.firstOutput = o1.firstOutput := (congrArg Out.firstOutput h).symm
  unfold writeNewLine
  rw [hf]
  split
  · exact ⟨_, 1, rfl, rfl, rfl, rfl⟩
  · exact ⟨[], 0, by simp, by simp, rfl, rfl⟩

theorem parse_sim {P : Nat} {c1 c2 : Ctx} (h : SimW P c1 c2) (base len : Nat) (hbl : base + len ≤ P) :
    SimW P (parse c1 base len).1 (parse c2 base len).1 ∧
    Step c1 c2 (parse c1 base len).1 (parse c2 base len).1 ∧
    (parse c1 base len).2 = (parse c2 base len).2 := by
  unfold parse
  simp only []
  have ew : (c2.buf.drop base).take len = (c1.buf.drop base).take len := (h.buf.window _ _ (by omega)).symm
  rw [ew]
  have h0 : SimU P
      (emit { c1 with out := { c1.out with outputCount := 0, firstOutput := true, gCur := [], gItems := [], gUnits := [], gPartial := false } }
        (.parseMsg ((c1.buf.drop base).take len)))
      (emit { c2 with out := { c2.out with outputCount := 0, firstOutput := true, gCur := [], gItems := [], gUnits := [], gPartial := false } }
        (.parseMsg ((c1.buf.drop base).take len))) :=
    ⟨⟨h.cmds, h.choices, h.withInfo, h.bufLen, h.position, h.buf, h.inb, h.blen, h.pos, h.regs, h.eq⟩, rfl⟩
  have hst0 : Step c1 c2
      (emit { c1 with out := { c1.out with outputCount := 0, firstOutput := true, gCur := [], gItems := [], gUnits := [], gPartial := false } }
        (.parseMsg ((c1.buf.drop base).take len)))
      (emit { c2 with out := { c2.out with outputCount := 0, firstOutput := true, gCur := [], gItems := [], gUnits := [], gPartial := false } }
        (.parseMsg ((c1.buf.drop base).take len))) :=
    ⟨[.parseMsg ((c1.buf.drop base).take len)], [], 0, ⟨rfl, by simp [emit], rfl⟩, ⟨rfl, by simp [emit], rfl⟩⟩
  obtain ⟨a1, a2, a3⟩ := parseLoop_sim (len + 2) _ _ base len none true h0 hbl (by intro pp pl hh; cases hh)
  generalize parseLoop (len + 2) (emit { c1 with out := _ } _) base len none true = x1 at a1 a2 a3 ⊢
  generalize parseLoop (len + 2) (emit { c2 with out := _ } _) base len none true = x2 at a1 a2 a3 ⊢
  obtain ⟨d1, r1⟩ := x1
  obtain ⟨d2, r2⟩ := x2
  simp only at a1 a2 a3 ⊢
  obtain ⟨w, k, e1, e2, e3, e4⟩ := writeNewLine_step a1.out
  refine ⟨⟨a1.w.cmds, a1.w.choices, a1.w.withInfo, a1.w.bufLen, a1.w.position, a1.w.buf, a1.w.inb, a1.w.blen, a1.w.pos,
    a1.w.regs, a1.w.eq⟩, ?_, a3⟩
  exact (hst0.trans a2).trans ⟨[], w, k, ⟨by simp, e1, e3⟩, ⟨by simp, e2, e4⟩⟩

/-! ## SCPI_Input -/

theorem window_eq' {P : Nat} {b1 b2 : Bytes} (h : Agree P b1 b2) (a n : Nat) (hb : n = 0 ∨ a + n ≤ P + 1) :
    (b1.drop a).take n = (b2.drop a).take n := by
  rcases hb with h0 | h1
  · subst h0; simp
  · exact h.window a n h1

theorem inputLoop_sim {P : Nat} : ∀ (fuel : Nat) (c1 c2 : Ctx) (tot : Nat) (res : Bool),
    SimW P c1 c2 → tot ≤ c1.position →
    SimW P (inputLoop fuel c1 tot res).1 (inputLoop fuel c2 tot res).1 ∧
    Step c1 c2 (inputLoop fuel c1 tot res).1 (inputLoop fuel c2 tot res).1 ∧
    (inputLoop fuel c1 tot res).2 = (inputLoop fuel c2 tot res).2 := by
  intro fuel
  induction fuel with
  | zero => intro c1 c2 tot res h _; exact ⟨h, Step.refl _ _, rfl⟩
  | succ fuel ih =>
    intro c1 c2 tot res h htot
    have hpos := h.pos
    have ew : (c2.buf.drop tot).take (c2.position - tot) = (c1.buf.drop tot).take (c1.position - tot) := by
      rw [h.position]; exact (h.buf.window _ _ (by omega)).symm
    have hcons : (Parser.detectUnit ((c1.buf.drop tot).take (c1.position - tot))).consumed ≤ c1.position - tot :=
      Nat.le_trans (Props.C13.unit_spec _).2.2.2.2.1 (Bounds.window_length_le _ _ _)
    unfold inputLoop
    simp only []
    rw [ew]
    generalize Parser.detectUnit ((c1.buf.drop tot).take (c1.position - tot)) = u at hcons ⊢
    by_cases h1 : (u.term == Parser.Termination.nl) = true
    · simp only [h1, if_true]
      obtain ⟨a1, a2, a3⟩ := parse_sim h 0 (tot + u.consumed) (by omega)
      generalize parse c1 0 (tot + u.consumed) = x1 at a1 a2 a3 ⊢
      generalize parse c2 0 (tot + u.consumed) = x2 at a1 a2 a3 ⊢
      obtain ⟨d1, r1⟩ := x1
      obtain ⟨d2, r2⟩ := x2
      simp only at a1 a2 a3 ⊢
      subst a3
      have hp := a1.pos
      have er : (d2.buf.drop (tot + u.consumed)).take (d2.position - (tot + u.consumed)) =
          (d1.buf.drop (tot + u.consumed)).take (d1.position - (tot + u.consumed)) := by
        rw [a1.position]; exact (window_eq' a1.buf _ _ (by omega)).symm
      rw [er, a1.position]
      have hrl : ((d1.buf.drop (tot + u.consumed)).take (d1.position - (tot + u.consumed))).length ≤ d1.position - (tot + u.consumed) :=
        Bounds.window_length_le _ _ _
      have hw : SimW P
          { d1 with buf := poke d1.buf 0 ((d1.buf.drop (tot + u.consumed)).take (d1.position - (tot + u.consumed))),
                    position := d1.position - (tot + u.consumed) }
          { d2 with buf := poke d2.buf 0 ((d1.buf.drop (tot + u.consumed)).take (d1.position - (tot + u.consumed))),
                    position := d1.position - (tot + u.consumed) } :=
        ⟨a1.cmds, a1.choices, a1.withInfo, a1.bufLen, rfl, a1.buf.store _ 0 (by omega),
         by show P < (poke _ _ _).length; rw [Bounds.poke_length]; exact a1.inb,
         by show (poke _ _ _).length = _; rw [Bounds.poke_length]; exact a1.blen,
         by show d1.position - (tot + u.consumed) ≤ P; omega, a1.regs, a1.eq⟩
      obtain ⟨b1, b2, b3⟩ := ih _ _ 0 r1 hw (Nat.zero_le _)
      exact ⟨b1, (a2.trans (Step.of_eq rfl rfl rfl rfl)).trans b2, b3⟩
    · simp only [h1, Bool.false_eq_true, if_false]
      rw [h.position]
      split
      · exact ⟨h, Step.refl _ _, rfl⟩
      · split
        · exact ⟨h, Step.refl _ _, rfl⟩
        · exact ih _ _ _ res h (by omega)

/-- equal lengths and equal bytes on a set of indices -/
def EqOn (S : Nat → Prop) (b1 b2 : Bytes) : Prop := b1.length = b2.length ∧ ∀ i, S i → b1.getD i 0 = b2.getD i 0

theorem getD_set' (b : Bytes) (j i : Nat) (x : UInt8) :
    (b.set j x).getD i 0 = if j = i ∧ j < b.length then x else b.getD i 0 := by
  simp only [List.getD_eq_getElem?_getD, List.getElem?_set]
  by_cases hji : j = i
  · subst hji
    by_cases hl : j < b.length
    · simp [hl]
    · simp [hl]
  · simp [hji]

theorem EqOn.set {S : Nat → Prop} {b1 b2 : Bytes} (h : EqOn S b1 b2) (j : Nat) (x : UInt8) :
    EqOn (fun i => S i ∨ i = j) (b1.set j x) (b2.set j x) := by
  refine ⟨by simp [h.1], ?_⟩
  intro i hi
  rw [getD_set', getD_set', h.1]
  have hl := h.1
  by_cases hc : j = i ∧ j < b2.length
  · rw [if_pos hc, if_pos hc]
  · rw [if_neg hc, if_neg hc]
    rcases hi with hi | hi
    · exact h.2 i hi
    · subst hi
      have hge : ¬ i < b2.length := fun hh => hc ⟨rfl, hh⟩
      simp only [List.getD_eq_getElem?_getD]
      rw [List.getElem?_eq_none (by omega), List.getElem?_eq_none (by omega)]

theorem EqOn.mono {S S' : Nat → Prop} {b1 b2 : Bytes} (h : EqOn S b1 b2) (hs : ∀ i, S' i → S i) : EqOn S' b1 b2 :=
  ⟨h.1, fun i hi => h.2 i (hs i hi)⟩

theorem EqOn.foldl_set {α : Type} (g : α → Nat) (v : α → UInt8) : ∀ (l : List α) (S : Nat → Prop) (b1 b2 : Bytes),
    EqOn S b1 b2 → EqOn (fun i => S i ∨ ∃ a ∈ l, g a = i)
      (l.foldl (fun b a => b.set (g a) (v a)) b1) (l.foldl (fun b a => b.set (g a) (v a)) b2) := by
  intro l
  induction l with
  | nil => intro S b1 b2 h; exact h.mono (by intro i hi; rcases hi with hi | ⟨a, ha, _⟩; exact hi; cases ha)
  | cons a l ih =>
    intro S b1 b2 h
    rw [List.foldl_cons, List.foldl_cons]
    apply (ih _ _ _ (h.set (g a) (v a))).mono
    intro i hi
    rcases hi with hi | ⟨a', ha', he⟩
    · left; left; exact hi
    · rcases List.mem_cons.1 ha' with rfl | hm
      · left; right; exact he.symm
      · right; exact ⟨a', hm, he⟩

theorem eqOn_poke {S : Nat → Prop} {b1 b2 : Bytes} (h : EqOn S b1 b2) (p : Nat) (data : Bytes) :
    EqOn (fun i => S i ∨ (p ≤ i ∧ i < p + data.length)) (poke b1 p data) (poke b2 p data) := by
  have := EqOn.foldl_set (fun (q : UInt8 × Nat) => p + q.2) (fun q => q.1) data.zipIdx S b1 b2 h
  apply this.mono
  intro i hi
  rcases hi with hi | ⟨h1, h2⟩
  · left; exact hi
  · right
    have hlt : i - p < data.length := by omega
    refine ⟨(data[i - p], i - p), ?_, by show p + (i - p) = i; omega⟩
    rw [List.mem_zipIdx_iff_getElem?]
    simp [hlt]

theorem agree_input {b1 b2 : Bytes} (hl : b1.length = b2.length) (p : Nat) (ht : b1.take p = b2.take p)
    (data : Bytes) (hb : p + data.length < b1.length) :
    Agree (p + data.length) ((poke b1 p data).set (p + data.length) 0) ((poke b2 p data).set (p + data.length) 0) := by
  have h0 : EqOn (fun i => i < p) b1 b2 := by
    refine ⟨hl, ?_⟩
    intro i hi
    have := congrArg (fun l => l.getD i 0) ht
    simp only [List.getD_eq_getElem?_getD, List.getElem?_take, hi, if_true] at this ⊢
    exact this
  have h1 := (eqOn_poke h0 p data).set (p + data.length) 0
  refine ⟨h1.1, ?_, ?_⟩
  · intro i hi
    apply h1.2
    by_cases hip : i < p
    · left; left; exact hip
    · by_cases hie : i = p + data.length
      · right; exact hie
      · left; right; omega
  · rw [getD_set']
    have : p + data.length < (poke b1 p data).length := by rw [Bounds.poke_length]; exact hb
    simp [this]

theorem rel_of_simW {P : Nat} {d1 d2 : Ctx} (h : SimW P d1 d2) : Rel d1 d2 := by
  have h1 := h.inb
  have h2 := h.blen
  have h3 := h.pos
  refine ⟨h.cmds.symm, h.choices.symm, h.withInfo.symm, h.bufLen.symm, h.blen, ?_, h.position.symm, by omega, ?_, h.regs, h.eq⟩
  · rw [← h.buf.len, h.bufLen]; exact h.blen
  · rw [h.position]; exact h.buf.take _ (by omega)

theorem simW_of_rel {c1 c2 : Ctx} (h : Rel c1 c2) (data : Bytes) (hb : c1.position + data.length < c1.bufLen) :
    SimW (c1.position + data.length)
      { c1 with buf := (poke c1.buf c1.position data).set (c1.position + data.length) 0, position := c1.position + data.length }
      { c2 with buf := (poke c2.buf c1.position data).set (c1.position + data.length) 0, position := c1.position + data.length } := by
  obtain ⟨r1, r2, r3, r4, r5, r6, r7, r8, r9, r10, r11⟩ := h
  have hl : c1.buf.length = c2.buf.length := by rw [r5, r6, r4]
  have ha := agree_input hl c1.position (by rw [r9, r7]) data (by omega)
  refine ⟨r1.symm, r2.symm, r3.symm, r4.symm, rfl, ha, ?_, ?_, Nat.le_refl _, r10, r11⟩
  · show _ < ((poke _ _ _).set _ _).length
    rw [List.length_set, Bounds.poke_length]; omega
  · show ((poke _ _ _).set _ _).length = _
    rw [List.length_set, Bounds.poke_length]; exact r5

theorem SimW.emit {P : Nat} {c1 c2 : Ctx} (h : SimW P c1 c2) (e1 e2 : Ev) : SimW P (emit c1 e1) (emit c2 e2) :=
  ⟨h.cmds, h.choices, h.withInfo, h.bufLen, h.position, h.buf, h.inb, h.blen, h.pos, h.regs, h.eq⟩

theorem finish_empty {P : Nat} {c1 c2 : Ctx} {x1 x2 : Ctx × Bool} (hs : SimW P x1.1 x2.1) (hst : Step c1 c2 x1.1 x2.1)
    (hv : x1.2 = x2.2) :
    Step c1 c2 (emit { x1.1 with position := 0 } (.input x1.2)) (emit { x2.1 with position := 0 } (.input x2.2)) ∧
    Rel (emit { x1.1 with position := 0 } (.input x1.2)) (emit { x2.1 with position := 0 } (.input x2.2)) := by
  obtain ⟨d1, r1⟩ := x1
  obtain ⟨d2, r2⟩ := x2
  simp only at hs hst hv ⊢
  subst hv
  have hw : SimW P { d1 with position := 0 } { d2 with position := 0 } :=
    ⟨hs.cmds, hs.choices, hs.withInfo, hs.bufLen, rfl, hs.buf, hs.inb, hs.blen, Nat.zero_le _, hs.regs, hs.eq⟩
  exact ⟨(hst.trans (Step.of_eq rfl rfl rfl rfl)).trans (Step.emit _ _ _), rel_of_simW (hw.emit _ _)⟩

theorem finish_data {P : Nat} {c1 c2 : Ctx} {x1 x2 : Ctx × Bool} (hs : SimW P x1.1 x2.1) (hst : Step c1 c2 x1.1 x2.1)
    (hv : x1.2 = x2.2) :
    Step c1 c2 (emit x1.1 (.input x1.2)) (emit x2.1 (.input x2.2)) ∧
    Rel (emit x1.1 (.input x1.2)) (emit x2.1 (.input x2.2)) := by
  obtain ⟨d1, r1⟩ := x1
  obtain ⟨d2, r2⟩ := x2
  simp only at hs hst hv ⊢
  subst hv
  exact ⟨hst.trans (Step.emit _ _ _), rel_of_simW (hs.emit _ _)⟩

theorem input_step (c1 c2 : Ctx) (h : Rel c1 c2) (data : Bytes) :
    Step c1 c2 (input c1 data) (input c2 data) ∧ Rel (input c1 data) (input c2 data) := by
  have hh := h
  obtain ⟨r1, r2, r3, r4, r5, r6, r7, r8, r9, r10, r11⟩ := hh
  unfold input
  have e0 : (data.length + 1 > c2.bufLen - c2.position) = (data.length + 1 > c1.bufLen - c1.position) := by rw [r4, r7]
  simp only [e0]
  rw [← r7]
  by_cases hd : (data.length == 0) = true
  · rw [if_pos hd, if_pos hd]
    have hw : SimW c1.position { c1 with buf := c1.buf.set c1.position 0 }
        { c2 with buf := c2.buf.set c1.position 0, position := c1.position } :=
      simW_of_rel h [] (by simp only [List.length_nil, Nat.add_zero]; omega)
    have hp := parse_sim hw 0 c1.position (by omega)
    exact finish_empty hp.1 ((Step.of_eq rfl rfl rfl rfl).trans hp.2.1) hp.2.2
  · rw [if_neg hd, if_neg hd]
    by_cases ho : data.length + 1 > c1.bufLen - c1.position
    · rw [if_pos ho, if_pos ho]
      have hw0 : SimW 0 { c1 with position := 0, buf := c1.buf.set 0 0 } { c2 with position := 0, buf := c2.buf.set 0 0 } := by
        have hl : c1.buf.length = c2.buf.length := by rw [r5, r6, r4]
        have ha := agree_input hl 0 (by simp) [] (by simp only [List.length_nil, Nat.add_zero]; omega)
        refine ⟨r1.symm, r2.symm, r3.symm, r4.symm, rfl, ha, ?_, ?_, Nat.le_refl _, r10, r11⟩
        · show 0 < (c1.buf.set 0 0).length
          rw [List.length_set]; omega
        · show (c1.buf.set 0 0).length = _
          rw [List.length_set]; exact r5
      have hs := pushError_simW hw0 (-363) none 0
      have hst := pushError_step hw0 (-363) none 0
      exact ⟨((Step.of_eq rfl rfl rfl rfl).trans hst).trans (Step.emit _ _ _), rel_of_simW (hs.emit _ _)⟩
    · rw [if_neg ho, if_neg ho]
      have hw := simW_of_rel h data (by omega)
      have hp := inputLoop_sim (c1.position + data.length + 2) _ _ 0 true hw (Nat.zero_le _)
      exact finish_data hp.1 ((Step.of_eq rfl rfl rfl rfl).trans hp.2.1) hp.2.2

theorem input_noninterference (c1 c2 : Ctx) (h : Rel c1 c2) (data : Bytes) :
    newObs c1 (input c1 data) = newObs c2 (input c2 data) ∧ Rel (input c1 data) (input c2 data) :=
  ⟨(input_step c1 c2 h data).1.newObs, (input_step c1 c2 h data).2⟩

theorem stream_step (chunks : List Bytes) : ∀ (c1 c2 : Ctx), Rel c1 c2 →
    Step c1 c2 (chunks.foldl input c1) (chunks.foldl input c2) ∧ Rel (chunks.foldl input c1) (chunks.foldl input c2) := by
  induction chunks with
  | nil => intro c1 c2 h; exact ⟨Step.refl _ _, h⟩
  | cons d ds ih =>
    intro c1 c2 h
    rw [List.foldl_cons, List.foldl_cons]
    obtain ⟨a, b⟩ := input_step c1 c2 h d
    obtain ⟨a', b'⟩ := ih _ _ b
    exact ⟨a.trans a', b'⟩

theorem stream_noninterference (c1 c2 : Ctx) (h : Rel c1 c2) (chunks : List Bytes) :
    newObs c1 (chunks.foldl input c1) = newObs c2 (chunks.foldl input c2) ∧
    Rel (chunks.foldl input c1) (chunks.foldl input c2) :=
  ⟨(stream_step chunks c1 c2 h).1.newObs, (stream_step chunks c1 c2 h).2⟩

end ScpiVerif.Lemmas.Isolation
