/-
Refinement of the hand model ScpiVerif.Lexer by the Lean text GENERATED from libscpi/src/lexer.c, part 2: the recognisers
`scpiLex_*` (groups 3 and 4 of the work plan: white space, one-character tokens, new line; mantissa, exponent, decimal
number, character data, non-decimal number).  Statement of every theorem: for ALL buffers, ALL cursors and ANY previous
content of the token structure,   generated function (st buf n) tok = res buf (hand model buf n)
- the new state is CLEAN (`oob = false`: no read outside the buffer; `ub = false`: no loop out of fuel), cursor, token
type / ptr / len and return value are the hand model's.  See Lemmas/LexerC.lean for the method.
-/
import ScpiVerif.Lemmas.LexerC

namespace ScpiVerif.Lemmas.LexerC
open ScpiVerif ScpiVerif.Gen.LexerC

/-- `scpi_token_t` of the hand model as the C structure -/
def tk (t : Lexer.Token) : CTok := ⟨(t.type.code : Int), (t.ptr : Int), t.len⟩

/-- result of a recogniser of the hand model as the generated function delivers it: clean state at the new cursor -/
def res (buf : Lexer.Bytes) (r : Nat × Lexer.Token × Int) : CLex × CTok × Int := (st buf r.1, tk r.2.1, r.2.2)

@[lexc_ref, lexc_code] theorem code_comma : Lexer.TokType.code .comma = 0 := rfl
@[lexc_ref, lexc_code] theorem code_semicolon : Lexer.TokType.code .semicolon = 1 := rfl
@[lexc_ref, lexc_code] theorem code_colon : Lexer.TokType.code .colon = 2 := rfl
@[lexc_ref, lexc_code] theorem code_specificCharacter : Lexer.TokType.code .specificCharacter = 3 := rfl
@[lexc_ref, lexc_code] theorem code_question : Lexer.TokType.code .question = 4 := rfl
@[lexc_ref, lexc_code] theorem code_nl : Lexer.TokType.code .nl = 5 := rfl
@[lexc_ref, lexc_code] theorem code_hexnum : Lexer.TokType.code .hexnum = 6 := rfl
@[lexc_ref, lexc_code] theorem code_octnum : Lexer.TokType.code .octnum = 7 := rfl
@[lexc_ref, lexc_code] theorem code_binnum : Lexer.TokType.code .binnum = 8 := rfl
@[lexc_ref, lexc_code] theorem code_programMnemonic : Lexer.TokType.code .programMnemonic = 9 := rfl
@[lexc_ref, lexc_code] theorem code_decimal : Lexer.TokType.code .decimal = 10 := rfl
@[lexc_ref, lexc_code] theorem code_decimalWithSuffix : Lexer.TokType.code .decimalWithSuffix = 11 := rfl
@[lexc_ref, lexc_code] theorem code_suffix : Lexer.TokType.code .suffix = 12 := rfl
@[lexc_ref, lexc_code] theorem code_block : Lexer.TokType.code .block = 13 := rfl
@[lexc_ref, lexc_code] theorem code_singleQuote : Lexer.TokType.code .singleQuote = 14 := rfl
@[lexc_ref, lexc_code] theorem code_doubleQuote : Lexer.TokType.code .doubleQuote = 15 := rfl
@[lexc_ref, lexc_code] theorem code_expression : Lexer.TokType.code .expression = 16 := rfl
@[lexc_ref, lexc_code] theorem code_compoundHeader : Lexer.TokType.code .compoundHeader = 17 := rfl
@[lexc_ref, lexc_code] theorem code_incompleteCompoundHeader : Lexer.TokType.code .incompleteCompoundHeader = 18 := rfl
@[lexc_ref, lexc_code] theorem code_commonHeader : Lexer.TokType.code .commonHeader = 19 := rfl
@[lexc_ref, lexc_code] theorem code_incompleteCommonHeader : Lexer.TokType.code .incompleteCommonHeader = 20 := rfl
@[lexc_ref, lexc_code] theorem code_compoundQueryHeader : Lexer.TokType.code .compoundQueryHeader = 21 := rfl
@[lexc_ref, lexc_code] theorem code_commonQueryHeader : Lexer.TokType.code .commonQueryHeader = 22 := rfl
@[lexc_ref, lexc_code] theorem code_ws : Lexer.TokType.code .ws = 23 := rfl
@[lexc_ref, lexc_code] theorem code_allProgramData : Lexer.TokType.code .allProgramData = 24 := rfl
@[lexc_ref, lexc_code] theorem code_invalid : Lexer.TokType.code .invalid = 25 := rfl
@[lexc_ref, lexc_code] theorem code_unknown : Lexer.TokType.code .unknown = 26 := rfl
@[lexc_ref, lexc_code] theorem code_ite (c : Prop) [Decidable c] (a b : Lexer.TokType) : Lexer.TokType.code (if c then a else b) = if c then a.code else b.code := apply_ite _ _ _ _


/-! ### group 3 -/

theorem scpiLex_WhiteSpace_ref (buf : Lexer.Bytes) (n : Nat) (tok : CTok) :
    scpiLex_WhiteSpace (st buf n) tok = res buf (Lexer.lexWhiteSpace buf n) := by
  have := skipMany_ge buf n Lexer.isWs
  simp [scpiLex_WhiteSpace, lexc_ref, res, tk, Lexer.lexWhiteSpace, Lexer.skipWs, Lexer.mkTok]
  lexc_close

theorem scpiLex_Comma_ref (buf : Lexer.Bytes) (n : Nat) (tok : CTok) :
    scpiLex_Comma (st buf n) tok = res buf (Lexer.lexComma buf n) := by
  simp [scpiLex_Comma, lexc_ref, res, tk, Lexer.lexComma, Lexer.lexOneChar, Lexer.mkTok, one, Lexer.skipOne, uc]
  lexc_close

theorem scpiLex_NewLine_ref (buf : Lexer.Bytes) (n : Nat) (tok : CTok) :
    scpiLex_NewLine (st buf n) tok = res buf (Lexer.lexNewLine buf n) := by
  have := skipOne_ge buf n (· == 13)
  have := skipOne_ge buf (Lexer.skipOne buf n (· == 13)) (· == 10)
  simp [scpiLex_NewLine, lexc_ref, res, tk, Lexer.lexNewLine, Lexer.mkTok, one, Lexer.skipChr, uc]
  lexc_close

theorem scpiLex_SpecificCharacter_ref (buf : Lexer.Bytes) (n : Nat) (tok : CTok) (ch : UInt8) :
    scpiLex_SpecificCharacter (st buf n) tok (sc ch) = res buf (Lexer.lexSpecific buf n ch) := by
  have h1 : -128 ≤ sc ch := by simp only [sc]; split <;> omega
  have h2 : sc ch ≤ 127 := by simp only [sc]; have := UInt8.toNat_lt ch; split <;> omega
  simp [scpiLex_SpecificCharacter, lexc_ref, h1, h2, uc_sc, res, tk, Lexer.lexSpecific, Lexer.lexOneChar, Lexer.mkTok, one, Lexer.skipOne]
  lexc_close

theorem scpiLex_Semicolon_ref (buf : Lexer.Bytes) (n : Nat) (tok : CTok) :
    scpiLex_Semicolon (st buf n) tok = res buf (Lexer.lexSemicolon buf n) := by
  simp [scpiLex_Semicolon, lexc_ref, res, tk, Lexer.lexSemicolon, Lexer.lexOneChar, Lexer.mkTok, one, Lexer.skipOne, uc]
  lexc_close

theorem scpiLex_Colon_ref (buf : Lexer.Bytes) (n : Nat) (tok : CTok) :
    scpiLex_Colon (st buf n) tok = res buf (Lexer.lexColon buf n) := by
  simp [scpiLex_Colon, lexc_ref, res, tk, Lexer.lexColon, Lexer.lexOneChar, Lexer.mkTok, one, Lexer.skipOne, uc]
  lexc_close

/-! ### group 4 -/

@[lexc_ref] theorem skipMantisa_ref (buf : Lexer.Bytes) (n : Nat) :
    skipMantisa (st buf n) = (st buf (Lexer.skipMantisa buf n).1, ((Lexer.skipMantisa buf n).2 : Int)) := by
  have h0 := skipOne_ge buf n Lexer.isPlusMn
  have h1 := skipMany_ge buf (Lexer.skipOne buf n Lexer.isPlusMn) Lexer.isDigit
  have h2 := skipMany_ge buf (Lexer.skipMany buf (Lexer.skipOne buf n Lexer.isPlusMn) Lexer.isDigit + 1) Lexer.isDigit
  simp [skipMantisa, lexc_ref, one, Lexer.skipMantisa, Lexer.skipNumbers, uc]
  simp only [Lexer.skipOne] at *
  lexc_close

@[lexc_ref] theorem skipExponent_ref (buf : Lexer.Bytes) (n : Nat) :
    skipExponent (st buf n) = (st buf (Lexer.skipExponent buf n).1, ((Lexer.skipExponent buf n).2 : Int)) := by
  simp only [skipExponent, Lexer.skipExponent]
  by_cases hlt : n < buf.length
  · have h1 := skipOne_ge buf (Lexer.skipMany buf (n + 1) Lexer.isWs) Lexer.isPlusMn
    have h2 := skipMany_ge buf (Lexer.skipOne buf (Lexer.skipMany buf (n + 1) Lexer.isWs) Lexer.isPlusMn) Lexer.isDigit
    simp [iseos_in _ _ hlt, rd_in _ _ hlt, peekP_in _ _ _ hlt, lexc_cls, lexc_ref, one, Lexer.skipWs, Lexer.skipNumbers]
    lexc_close
  · have hge : buf.length ≤ n := Nat.le_of_not_lt hlt
    simp [iseos_out _ _ hge, peekP_out _ _ _ hge]

theorem scpiLex_DecimalNumericProgramData_ref (buf : Lexer.Bytes) (n : Nat) (tok : CTok) :
    scpiLex_DecimalNumericProgramData (st buf n) tok = res buf (Lexer.lexDecimal buf n) := by
  simp [scpiLex_DecimalNumericProgramData, lexc_ref, res, tk, Lexer.lexDecimal, Lexer.skipWs, Lexer.mkTok]
  lexc_close


theorem scpiLex_CharacterProgramData_ref (buf : Lexer.Bytes) (n : Nat) (tok : CTok) :
    scpiLex_CharacterProgramData (st buf n) tok = res buf (Lexer.lexCharacterProgramData buf n) := by
  have hg := skipMany_ge buf (n + 1) (fun b => Lexer.isAlnum b || b == 95)
  simp only [scpiLex_CharacterProgramData, Lexer.lexCharacterProgramData]
  by_cases hlt : n < buf.length
  · simp [iseos_in _ _ hlt, rd_in _ _ hlt, peekP_in _ _ _ hlt, lexc_cls, lexc_ref]
    lexc_loop (fun b => Lexer.isAlnum b || b == 95), buf
    simp [lexc_ref, res, tk, Lexer.mkTok]
    lexc_close
  · have hge : buf.length ≤ n := Nat.le_of_not_lt hlt
    simp [iseos_out _ _ hge, peekP_out _ _ _ hge, lexc_ref, res, tk, Lexer.mkTok]


theorem scpiLex_NondecimalNumericData_ref (buf : Lexer.Bytes) (n : Nat) (tok : CTok) :
    scpiLex_NondecimalNumericData (st buf n) tok = res buf (Lexer.lexNondecimal buf n) := by
  have h1 := skipMany_ge buf (n + 1 + 1) Lexer.isXDigit
  have h2 := skipMany_ge buf (n + 1 + 1) Lexer.isQDigit
  have h3 := skipMany_ge buf (n + 1 + 1) Lexer.isBDigit
  simp only [scpiLex_NondecimalNumericData, Lexer.lexNondecimal]
  by_cases h35 : Lexer.peekP buf n (· == 35) = true
  · have hlt := peekP_lt h35
    by_cases hlt1 : n + 1 < buf.length
    · simp [h35, iseos_in _ _ hlt1, rd_in _ _ hlt1, peekP_in _ _ _ hlt1, lexc_cls, lexc_ref, one, Lexer.skipOne, uc, res, tk, Lexer.mkTok]
      lexc_close
      all_goals (try grind [Lexer.TokType.code])
    · have hge : buf.length ≤ n + 1 := Nat.le_of_not_lt hlt1
      simp [h35, iseos_out _ _ hge, peekP_out _ _ _ hge, lexc_ref, one, Lexer.skipOne, uc, res, tk, Lexer.mkTok]
  · simp [h35, lexc_ref, one, Lexer.skipOne, uc, res, tk, Lexer.mkTok]

end ScpiVerif.Lemmas.LexerC
